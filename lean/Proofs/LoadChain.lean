import Proofs.LoadApi

/-! Helper lemmas for C03, part 9: reading attributes through chains of referential properties (`readAttr`). -/

namespace Pyx.Load

theorem readChain_some_mono (rec rec' : String → Nat → String → Option Val)
    (h : ∀ k j x v, rec k j x = some v → rec' k j x = some v) (kind : String) (i : Nat) (x : String)
    (L : List (AssocStmt × Links)) (v : Val) (hv : readChain rec kind i x L = some v) :
    readChain rec' kind i x L = some v := by
  induction L with
  | nil => exact hv
  | cons p rest ih =>
    obtain ⟨a, La⟩ := p
    simp only [readChain] at hv ⊢
    cases hlk : (if a.srcKind = kind then (a.srcKeys.zip a.tgtKeys).lookup x else none) with
    | none => simp only [hlk] at hv; exact ih hv
    | some tk =>
      simp only [hlk] at hv
      cases hh : (La.tgt i).head? with
      | none => simp only [hh] at hv; exact ih hv
      | some j => simp only [hh] at hv; exact h _ _ _ _ hv

/-- more fuel never changes a read that ended -/
theorem readAttr_succ (m : Model) (f : Nat) : ∀ kind i x v, readAttr m f kind i x = some v →
    readAttr m (f + 1) kind i x = some v := by
  induction f with
  | zero => intro kind i x v h; simp [readAttr] at h
  | succ f ih =>
    intro kind i x v h
    simp only [readAttr] at h ⊢
    by_cases hr : (referential (m.assocs.map (·.1)) kind).contains x
    · simp only [hr, if_true] at h ⊢
      exact readChain_some_mono _ _ ih kind i x _ v h
    · simp only [hr, Bool.false_eq_true, if_false] at h ⊢
      exact h

theorem readAttr_mono (m : Model) {f f' : Nat} (hle : f ≤ f') (kind : String) (i : Nat) (x : String) (v : Val)
    (h : readAttr m f kind i x = some v) : readAttr m f' kind i x = some v := by
  induction f' with
  | zero =>
    have : f = 0 := by omega
    subst this; exact h
  | succ f' ih =>
    by_cases he : f = f' + 1
    · subst he; exact h
    · exact readAttr_succ m f' kind i x v (ih (by omega))

/-- the chain of one attribute under two states whose associations carry the same statements and the same first
    referred row for the instance, with partner reads that agree -/
theorem readChain_congr (rec rec' : String → Nat → String → Option Val) (kind : String) (i : Nat) (x : String)
    (L L' : List (AssocStmt × Links)) (hst : L.map (·.1) = L'.map (·.1))
    (hhead : ∀ (q : Nat) p p', L[q]? = some p → L'[q]? = some p' → p.1.srcKind = kind → (p'.2.tgt i).head? = (p.2.tgt i).head?)
    (hrec : ∀ (q : Nat) p j tk, L[q]? = some p → p.1.srcKind = kind → (p.2.tgt i).head? = some j →
      rec' p.1.tgtKind j tk = rec p.1.tgtKind j tk) :
    readChain rec' kind i x L' = readChain rec kind i x L := by
  induction L generalizing L' with
  | nil =>
    cases L' with
    | nil => rfl
    | cons _ _ => simp at hst
  | cons p rest ih =>
    cases L' with
    | nil => simp at hst
    | cons p' rest' =>
      obtain ⟨a, La⟩ := p
      obtain ⟨a', La'⟩ := p'
      simp only [List.map_cons, List.cons.injEq] at hst
      obtain ⟨hst1, hst2⟩ := hst
      have hst1' : a = a' := hst1
      subst hst1'
      have hrest := ih rest' hst2
        (fun q p p' hq hq' => hhead (q + 1) p p' (by simpa using hq) (by simpa using hq'))
        (fun q p j tk hq => hrec (q + 1) p j tk (by simpa using hq))
      simp only [readChain]
      cases hlk : (if a.srcKind = kind then (a.srcKeys.zip a.tgtKeys).lookup x else none) with
      | none => exact hrest
      | some tk =>
        have hk : a.srcKind = kind := by
          by_cases h : a.srcKind = kind
          · exact h
          · simp [h] at hlk
        have hh := hhead 0 (a, La) (a, La') rfl rfl hk
        simp only at hh
        simp only [hh]
        cases hj : (La.tgt i).head? with
        | none => exact hrest
        | some j => exact hrec 0 (a, La) j tk rfl hk hj

end Pyx.Load

namespace Pyx.Load

theorem mem_of_lookup' {l : List (String × String)} {x y : String} (h : l.lookup x = some y) : (x, y) ∈ l := by
  induction l with
  | nil => simp at h
  | cons p ps ih =>
    obtain ⟨k, v⟩ := p
    by_cases hk : x == k
    · simp only [List.lookup_cons, hk, Option.some.injEq] at h
      have : x = k := by simpa using hk
      subst this; subst h
      exact List.mem_cons_self
    · have hk' : (x == k) = false := by simpa using hk
      simp only [List.lookup_cons, hk'] at h
      exact List.mem_cons_of_mem _ (ih h)

theorem lookup_some_of_mem_fst' {l : List (String × String)} {x : String} (h : x ∈ l.map (·.1)) :
    ∃ y, l.lookup x = some y := by
  induction l with
  | nil => simp at h
  | cons p ps ih =>
    obtain ⟨k, v⟩ := p
    by_cases hk : x == k
    · exact ⟨v, by simp [List.lookup_cons, hk]⟩
    · have hk' : (x == k) = false := by simpa using hk
      simp only [List.map_cons, List.mem_cons] at h
      rcases h with h | h
      · exact absurd (by simpa using h) hk
      · obtain ⟨y, hy⟩ := ih h
        exact ⟨y, by simp [List.lookup_cons, hk', hy]⟩

/-- where the value of a chain read comes from: either no association that uses the attribute links the instance
    (the read is `None`), or it is the partner read under one association that does -/
theorem readChain_cases (rec : String → Nat → String → Option Val) (kind : String) (i : Nat) (x : String)
    (L : List (AssocStmt × Links)) :
    (readChain rec kind i x L = some .none ∧
      ∀ p ∈ L, p.1.srcKind = kind → x ∈ (p.1.srcKeys.zip p.1.tgtKeys).map (·.1) → p.2.tgt i = []) ∨
    (∃ p ∈ L, p.1.srcKind = kind ∧ ∃ tk j, (x, tk) ∈ p.1.srcKeys.zip p.1.tgtKeys ∧ (p.2.tgt i).head? = some j ∧
      readChain rec kind i x L = rec p.1.tgtKind j tk) := by
  induction L with
  | nil => exact Or.inl ⟨rfl, by intro p hp; cases hp⟩
  | cons p rest ih =>
    obtain ⟨a, La⟩ := p
    simp only [readChain]
    cases hlk : (if a.srcKind = kind then (a.srcKeys.zip a.tgtKeys).lookup x else none) with
    | none =>
      rcases ih with ⟨h1, h2⟩ | ⟨p, hp, hk, tk, j, h3, h4, h5⟩
      · refine Or.inl ⟨h1, ?_⟩
        intro p hp hk hx
        rcases List.mem_cons.mp hp with rfl | hp
        · exfalso
          have hk' : a.srcKind = kind := hk
          rw [if_pos hk'] at hlk
          obtain ⟨y, hy⟩ := lookup_some_of_mem_fst' hx
          rw [hy] at hlk
          cases hlk
        · exact h2 p hp hk hx
      · exact Or.inr ⟨p, List.mem_cons_of_mem _ hp, hk, tk, j, h3, h4, h5⟩
    | some tk =>
      have hk : a.srcKind = kind := by
        by_cases h : a.srcKind = kind
        · exact h
        · simp [h] at hlk
      rw [if_pos hk] at hlk
      simp only
      cases hh : (La.tgt i).head? with
      | none =>
        have hnil : La.tgt i = [] := List.head?_eq_none_iff.mp hh
        rcases ih with ⟨h1, h2⟩ | ⟨p, hp, hk', tk', j, h3, h4, h5⟩
        · refine Or.inl ⟨h1, ?_⟩
          intro p hp hk' hx
          rcases List.mem_cons.mp hp with rfl | hp
          · exact hnil
          · exact h2 p hp hk' hx
        · exact Or.inr ⟨p, List.mem_cons_of_mem _ hp, hk', tk', j, h3, h4, h5⟩
      | some j =>
        exact Or.inr ⟨(a, La), List.mem_cons_self, hk, tk, j, mem_of_lookup' hlk, hh, rfl⟩

end Pyx.Load
