import PyxModel.Interp.Spec
import Proofs.InterpPres

/-!
  Frames and scopes:
    * evaluating ANY expression — including calls of functions, bridges, operations and derived
      attributes, nested, self-recursive or mutually recursive — leaves the evaluating frame
      (variables, parameters, self, return register) exactly as it was (`eval_frame`);
    * executing any statement keeps the variable NAMES of every enclosing block and the innermost block
      non-empty-stack shape; executing a block keeps the names of ALL blocks: what a block declares
      vanishes at its end, outer variables survive (possibly updated) (`block_names`).
-/
set_option linter.unusedSectionVars false
namespace Pyx.Interp
open M

def Rfr (c c' : Cfg) : Prop := c'.fr = c.fr

theorem Rfr_po : PreOrder Rfr := ⟨fun _ => rfl, fun _ _ _ h1 h2 => h2.trans h1⟩

abbrev NF {α : Type} {m : M α} (h : Neutral m) : Pres Rfr m := pres_of_neutral Rfr_po h

theorem rfr_invoke (r : Oracle) (kind : WalkerKind) (body : Block) (kw : List (String × Val)) (self : Val) :
    Pres Rfr (invoke r kind body kw self) := by
  intro c a c' h
  unfold invoke at h
  split at h
  · cases h
  · cases h
  · simp at h
    rw [← h.2]; rfl

section
variable {r : Oracle} (he : ∀ e, Pres Rfr (r.eval e))
include he

theorem rfr_evalArgs : ∀ l, Pres Rfr (evalArgs r l)
  | [] => NF (neutral_pure _)
  | (n, e) :: rest => by
    unfold evalArgs
    apply pres_bind Rfr_po (he e); intro _
    apply pres_bind Rfr_po (rfr_evalArgs rest); intro _
    exact NF (neutral_pure _)

theorem rfr_readField (C : Ctx) (i : Inst) (name : String) : Pres Rfr (readField C r i name) := by
  unfold readField
  apply pres_bind Rfr_po (NF neutral_getFr); intro fr
  cases regHit fr i name
  · simp only [Bool.false_eq_true, if_false]
    split
    · exact rfr_invoke _ _ _ _ _
    · exact NF (neutral_querySt _)
  · exact NF (neutral_pure _)

theorem rfr_evalStep (C : Ctx) (e : Expr) : Pres Rfr (evalStep C r e) := by
  cases e with
  | int i => exact NF (neutral_pure _)
  | str s => exact NF (neutral_pure _)
  | bool b => exact NF (neutral_pure _)
  | var x => exact NF (neutral_lookupVar C x)
  | selected => exact NF (neutral_lookupVar C _)
  | self =>
    unfold evalStep
    apply pres_bind Rfr_po (NF neutral_getFr); intro fr
    split <;> first | exact NF (neutral_pure _) | exact NF (neutral_fail _)
  | param x =>
    unfold evalStep
    apply pres_bind Rfr_po (NF neutral_getFr); intro fr
    split
    · exact NF (neutral_fail _)
    · split <;> first | exact NF (neutral_pure _) | exact NF (neutral_fail _)
  | field hx name =>
    unfold evalStep
    apply pres_bind Rfr_po (he hx); intro v
    apply pres_bind Rfr_po (NF (neutral_asInst v)); intro _
    exact rfr_readField he C _ _
  | bin op l rr =>
    unfold evalStep
    apply pres_bind Rfr_po (he l); intro _
    apply pres_bind Rfr_po (he rr); intro _
    exact NF (neutral_liftE _)
  | un op e =>
    unfold evalStep
    apply pres_bind Rfr_po (he e); intro _
    exact NF (neutral_liftE _)
  | enumOrConst ns name =>
    simp only [evalStep]
    split
    · split <;> first | exact NF (neutral_pure _) | exact NF (neutral_fail _)
    · exact NF (neutral_fail _)
  | call k name args =>
    cases k with
    | function =>
      simp only [evalStep]
      apply pres_bind Rfr_po (rfr_evalArgs he args); intro kw
      split
      · exact rfr_invoke _ _ _ _ _
      · exact NF (neutral_fail _)
    | implicit ns =>
      simp only [evalStep]
      apply pres_bind Rfr_po (rfr_evalArgs he args); intro kw
      split
      · split <;> exact rfr_invoke _ _ _ _ _
      · exact NF (neutral_fail _)
    | classOp ns =>
      simp only [evalStep]
      split
      · apply pres_bind Rfr_po (rfr_evalArgs he args); intro kw
        exact rfr_invoke _ _ _ _ _
      · exact NF (neutral_fail _)
    | bridge ns =>
      simp only [evalStep]
      apply pres_bind Rfr_po (rfr_evalArgs he args); intro kw
      split
      · split <;> exact rfr_invoke _ _ _ _ _
      · exact NF (neutral_fail _)
  | callInst hx name args =>
    unfold evalStep
    apply pres_bind Rfr_po (he hx); intro v
    apply pres_bind Rfr_po (NF (neutral_asInst v)); intro i
    split
    · apply pres_bind Rfr_po (rfr_evalArgs he args); intro _
      exact rfr_invoke _ _ _ _ _
    · exact NF (neutral_fail _)

end

theorem rfr_run (C : Ctx) : ∀ n e, Pres Rfr ((run C n).eval e)
  | 0 => fun _ _ _ _ h => by simp [run] at h
  | n + 1 => fun e => rfr_evalStep (rfr_run C n) C e

/-! ### scopes -/

def envNames (env : Env) : List (List String) := env.map (fun b => b.map Prod.fst)

theorem blockSet_names (x : String) (v : Val) : ∀ b, (blockSet x v b).map Prod.fst = b.map Prod.fst
  | [] => rfl
  | p :: rest => by
    unfold blockSet
    split
    · rename_i hp; simp [hp]
    · simp [blockSet_names x v rest]

theorem envUpdate_names (x : String) (v : Val) : ∀ env, envNames (envUpdate x v env) = envNames env
  | [] => rfl
  | b :: rest => by
    unfold envUpdate
    split
    · simp [envNames, blockSet_names]
    · have ih := envUpdate_names x v rest
      simp only [envNames] at ih
      simp [envNames, ih]

/-- statements: the stack of blocks stays non-empty and the names of the enclosing blocks are kept -/
def Rsh (c c' : Cfg) : Prop :=
  c.fr.env ≠ [] → c'.fr.env ≠ [] ∧ envNames c'.fr.env.tail = envNames c.fr.env.tail

theorem Rsh_po : PreOrder Rsh :=
  ⟨fun _ h => ⟨h, rfl⟩, fun _ _ _ h1 h2 h => ⟨(h2 (h1 h).1).1, ((h2 (h1 h).1).2).trans (h1 h).2⟩⟩

theorem rsh_of_rfr {c c' : Cfg} (h : Rfr c c') : Rsh c c' := by
  intro hne
  unfold Rfr at h
  rw [h]; exact ⟨hne, rfl⟩

abbrev NS {α : Type} {m : M α} (h : Neutral m) : Pres Rsh m := pres_of_neutral Rsh_po h

theorem envInstall_shape (env : Env) (x : String) (v : Val) (hne : env ≠ []) :
    envInstall env x v ≠ [] ∧ envNames (envInstall env x v).tail = envNames env.tail := by
  unfold envInstall
  split
  · have hn := envUpdate_names x v env
    constructor
    · intro h0
      rw [h0] at hn
      cases env with
      | nil => exact hne rfl
      | cons b rest => simp [envNames] at hn
    · cases env with
      | nil => exact absurd rfl hne
      | cons b rest =>
        unfold envUpdate
        split
        · rfl
        · simp only [List.tail_cons]
          exact envUpdate_names x v rest
  · cases env with
    | nil => exact absurd rfl hne
    | cons b rest => exact ⟨by simp, rfl⟩

theorem rsh_install (x : String) (v : Val) : Pres Rsh (install x v) := by
  intro c a c' h hne
  unfold install at h
  obtain ⟨fr, c1, h1, h2⟩ := bind_ok_inv h
  simp [getFr] at h1
  obtain ⟨rfl, rfl⟩ := h1
  simp [setEnv] at h2
  rw [← h2]
  exact envInstall_shape _ x v hne

/-- an action that changes the state only -/
def StateOnly {α : Type} (m : M α) : Prop := ∀ c a c', m c = some (.ok (a, c')) → c'.fr = c.fr

theorem stateOnly_modifySt (f : State → Except Err State) : StateOnly (modifySt f) := by
  intro c a c' h
  unfold modifySt at h
  split at h
  · simp at h; rw [← h]
  · simp at h

theorem stateOnly_modifyGet {α : Type} (f : State → Except Err (α × State)) : StateOnly (M.modifyGet f) := by
  intro c a c' h
  unfold M.modifyGet at h
  split at h
  · simp at h; rw [← h.2]
  · simp at h

theorem rsh_of_stateOnly {α : Type} {m : M α} (h : StateOnly m) : Pres Rsh m :=
  fun c a c' hc => rsh_of_rfr (h c a c' hc)

theorem rsh_setRet (v : Val) : Pres Rsh (setRet v) := by
  intro c a c' h hne
  simp [setRet] at h
  rw [← h]; exact ⟨hne, rfl⟩

/-- blocks: the names of ALL blocks are kept -/
def Rblk (c c' : Cfg) : Prop := envNames c'.fr.env = envNames c.fr.env

theorem rsh_of_rblk {c c' : Cfg} (h : Rblk c c') : Rsh c c' := by
  intro hne
  unfold Rblk at h
  constructor
  · intro h0
    rw [h0] at h
    cases hc : c.fr.env with
    | nil => exact hne hc
    | cons b rest => rw [hc] at h; simp [envNames] at h
  · cases hc : c.fr.env with
    | nil => exact absurd hc hne
    | cons b rest =>
      rw [hc] at h
      cases hc' : c'.fr.env with
      | nil => rw [hc'] at h; simp [envNames] at h
      | cons b' rest' =>
        rw [hc'] at h
        simp only [envNames, List.map_cons, List.cons.injEq] at h
        simp only [List.tail_cons, envNames]
        exact h.2

section
variable {r : Oracle} (he : ∀ e, Pres Rfr (r.eval e)) (hs : ∀ s, Pres Rsh (r.exec s))
include he hs

theorem rsh_execList : ∀ l, Pres Rsh (execList r l)
  | [] => NS (neutral_pure _)
  | s :: rest => by
    unfold execList
    apply pres_bind Rsh_po (hs s); intro o
    cases o <;> first | exact rsh_execList rest | exact NS (neutral_pure _)

/-- push a block, run something that keeps the enclosing names, pop: all names are kept -/
theorem rblk_bracket {α : Type} {m : M α} (hm : Pres Rsh m) :
    Pres Rblk (do pushBlock; let o ← m; popBlock; pure o) := by
  intro c a c' h
  obtain ⟨_, c1, h1, h⟩ := bind_ok_inv h
  obtain ⟨o, c2, h2, h⟩ := bind_ok_inv h
  obtain ⟨_, c3, h3, h⟩ := bind_ok_inv h
  have h4 : c' = c3 := by
    have : M.ret' o c3 = some (.ok (a, c')) := h
    simp [M.ret'] at this; exact this.2.symm
  subst h4
  -- push
  unfold pushBlock at h1
  obtain ⟨fr, c1', h1a, h1b⟩ := bind_ok_inv h1
  simp [getFr] at h1a
  obtain ⟨rfl, rfl⟩ := h1a
  simp [setEnv] at h1b
  -- pop
  unfold popBlock at h3
  obtain ⟨fr3, c3', h3a, h3b⟩ := bind_ok_inv h3
  simp [getFr] at h3a
  obtain ⟨rfl, rfl⟩ := h3a
  simp [setEnv] at h3b
  have hsh := hm c1 o c2 h2
  have hne : c1.fr.env ≠ [] := by rw [← h1b]; simp
  have := (hsh hne).2
  unfold Rblk
  rw [← h3b]
  simp only
  rw [this, ← h1b]
  rfl

theorem rblk_execBlock (b : Block) : Pres Rblk (execBlock r b) := by
  unfold execBlock
  exact rblk_bracket he hs (rsh_execList he hs b)

theorem rsh_execBlock (b : Block) : Pres Rsh (execBlock r b) :=
  pres_weaken (fun _ _ => rsh_of_rblk) (rblk_execBlock he hs b)

theorem rsh_execElifs : ∀ l els, Pres Rsh (execElifs r l els)
  | [], none => NS (neutral_pure _)
  | [], some b => rsh_execBlock he hs b
  | (c, b) :: rest, els => by
    unfold execElifs
    apply pres_bind Rsh_po (pres_weaken (fun _ _ => rsh_of_rfr) (he c)); intro v
    apply pres_bind Rsh_po (NS (neutral_asBool v)); intro t
    cases t
    · exact rsh_execElifs rest els
    · exact rsh_execBlock he hs b

theorem rsh_forItems (v : String) (body : Block) : ∀ l, Pres Rsh (forItems r v body l)
  | [] => NS (neutral_pure _)
  | i :: rest => by
    unfold forItems
    apply pres_bind Rsh_po (rsh_install _ _); intro _
    apply pres_bind Rsh_po (rsh_execBlock he hs body); intro o
    cases o <;> first | exact rsh_forItems v body rest | exact NS (neutral_pure _)

theorem rsh_evalWhere (wh : Expr) (c : Inst) : Pres Rsh (evalWhere r wh c) := by
  have hb : Pres Rblk (do pushBlock; let o ← (do install "selected" (.inst c); r.eval wh); popBlock; pure o) :=
    rblk_bracket he hs (pres_bind Rsh_po (rsh_install _ _) (fun _ => pres_weaken (fun _ _ => rsh_of_rfr) (he wh)))
  have hb' := pres_weaken (fun _ _ => rsh_of_rblk) hb
  intro c0 a c' h
  unfold evalWhere at h
  obtain ⟨_, c1, h1, h⟩ := bind_ok_inv h
  obtain ⟨_, c2, h2, h⟩ := bind_ok_inv h
  obtain ⟨v, c3, h3, h⟩ := bind_ok_inv h
  obtain ⟨_, c4, h4, h⟩ := bind_ok_inv h
  have h5 : c' = c4 := neutral_asBool v c4 a c' h
  rw [h5]
  apply hb' c0 v c4
  show M.bnd pushBlock _ c0 = _
  unfold M.bnd
  rw [h1]
  show M.bnd (M.bnd (install "selected" (.inst c)) fun _ => r.eval wh) _ c1 = _
  unfold M.bnd
  rw [h2]
  simp only
  rw [h3]
  simp only
  show M.bnd popBlock _ c3 = _
  unfold M.bnd
  rw [h4]
  rfl

theorem rsh_filterAll (wh : Expr) : ∀ l, Pres Rsh (filterAll r wh l)
  | [] => NS (neutral_pure _)
  | c :: rest => by
    unfold filterAll
    apply pres_bind Rsh_po (rsh_evalWhere he hs wh c); intro t
    apply pres_bind Rsh_po (rsh_filterAll wh rest); intro _
    exact NS (neutral_pure _)

theorem rsh_filterFirst (wh : Expr) : ∀ l, Pres Rsh (filterFirst r wh l)
  | [] => NS (neutral_pure _)
  | c :: rest => by
    unfold filterFirst
    apply pres_bind Rsh_po (rsh_evalWhere he hs wh c); intro t
    cases t
    · exact rsh_filterFirst wh rest
    · exact NS (neutral_pure _)

theorem rsh_selectResult (many : Bool) (cands : List Inst) (wh : Option Expr) :
    Pres Rsh (selectResult r many cands wh) := by
  unfold selectResult
  cases many <;> cases wh <;> simp only
  · exact NS (neutral_pure _)
  · apply pres_bind Rsh_po (rsh_filterFirst he hs _ _); intro _; exact NS (neutral_pure _)
  · exact NS (neutral_pure _)
  · apply pres_bind Rsh_po (rsh_filterAll he hs _ _); intro _; exact NS (neutral_pure _)

theorem rsh_writeField (C : Ctx) (i : Inst) (name : String) (v : Val) : Pres Rsh (writeField C i name v) := by
  unfold writeField
  apply pres_bind Rsh_po (NS neutral_getFr); intro fr
  cases regHit fr i name
  · simp only [Bool.false_eq_true, if_false]
    split
    · exact NS (neutral_fail _)
    · exact rsh_of_stateOnly (stateOnly_modifySt _)
  · exact rsh_setRet _

theorem rsh_execStep (C : Ctx) (s : Stmt) : Pres Rsh (execStep C r s) := by
  have E : ∀ e, Pres Rsh (r.eval e) := fun e => pres_weaken (fun _ _ => rsh_of_rfr) (he e)
  cases s with
  | assignVar x e =>
    unfold execStep
    apply pres_bind Rsh_po (E e); intro _
    apply pres_bind Rsh_po (rsh_install _ _); intro _
    exact NS (neutral_pure _)
  | assignField hx name e =>
    unfold execStep
    apply pres_bind Rsh_po (E e); intro _
    apply pres_bind Rsh_po (E hx); intro v
    apply pres_bind Rsh_po (NS (neutral_asInst v)); intro _
    apply pres_bind Rsh_po (rsh_writeField he hs C _ _ _); intro _
    exact NS (neutral_pure _)
  | ifS c thn elifs els =>
    unfold execStep
    apply pres_bind Rsh_po (E c); intro v
    apply pres_bind Rsh_po (NS (neutral_asBool v)); intro t
    cases t
    · exact rsh_execElifs he hs _ _
    · exact rsh_execBlock he hs _
  | whileS c body =>
    unfold execStep
    apply pres_bind Rsh_po (E c); intro v
    apply pres_bind Rsh_po (NS (neutral_asBool v)); intro t
    cases t
    · exact NS (neutral_pure _)
    · simp only [if_true]
      apply pres_bind Rsh_po (rsh_execBlock he hs body); intro o
      cases o <;> first | exact hs _ | exact NS (neutral_pure _)
  | forEach v setv body =>
    unfold execStep
    apply pres_bind Rsh_po (NS (neutral_lookupVar C _)); intro s
    cases s <;> first | exact rsh_forItems he hs _ _ _ | exact NS (neutral_fail _)
  | brk => exact NS (neutral_pure _)
  | cont => exact NS (neutral_pure _)
  | stop => exact NS (neutral_pure _)
  | ret e =>
    cases e with
    | none => exact NS (neutral_pure _)
    | some e =>
      unfold execStep
      apply pres_bind Rsh_po (E e); intro _
      apply pres_bind Rsh_po (rsh_setRet _); intro _
      exact NS (neutral_pure _)
  | create v cls =>
    unfold execStep
    apply pres_bind Rsh_po (rsh_of_stateOnly (stateOnly_modifyGet _)); intro i
    cases v with
    | none =>
      simp only
      first
        | exact NS (neutral_pure _)
        | (apply pres_bind Rsh_po (NS (neutral_pure _)); intro _; exact NS (neutral_pure _))
    | some x => simp only; apply pres_bind Rsh_po (rsh_install _ _); intro _; exact NS (neutral_pure _)
  | delete v =>
    unfold execStep
    apply pres_bind Rsh_po (NS (neutral_lookupVar C _)); intro x
    apply pres_bind Rsh_po (NS (neutral_asInst x)); intro i
    apply pres_bind Rsh_po (rsh_of_stateOnly (stateOnly_modifySt _)); intro _
    exact NS (neutral_pure _)
  | relate a b rel phrase =>
    unfold execStep
    apply pres_bind Rsh_po (NS (neutral_lookupVar C _)); intro x
    apply pres_bind Rsh_po (NS (neutral_asInst x)); intro _
    apply pres_bind Rsh_po (NS (neutral_lookupVar C _)); intro y
    apply pres_bind Rsh_po (NS (neutral_asInst y)); intro _
    apply pres_bind Rsh_po (rsh_of_stateOnly (stateOnly_modifySt _)); intro _
    exact NS (neutral_pure _)
  | relateUsing a b rel phrase u =>
    unfold execStep
    apply pres_bind Rsh_po (NS (neutral_lookupVar C _)); intro x
    apply pres_bind Rsh_po (NS (neutral_asInst x)); intro _
    apply pres_bind Rsh_po (NS (neutral_lookupVar C _)); intro y
    apply pres_bind Rsh_po (NS (neutral_asInst y)); intro _
    apply pres_bind Rsh_po (NS (neutral_lookupVar C _)); intro w
    apply pres_bind Rsh_po (NS (neutral_asInst w)); intro _
    apply pres_bind Rsh_po (rsh_of_stateOnly (stateOnly_modifySt _)); intro _
    exact NS (neutral_pure _)
  | unrelate a b rel phrase =>
    unfold execStep
    apply pres_bind Rsh_po (NS (neutral_lookupVar C _)); intro x
    apply pres_bind Rsh_po (NS (neutral_asInst x)); intro _
    apply pres_bind Rsh_po (NS (neutral_lookupVar C _)); intro y
    apply pres_bind Rsh_po (NS (neutral_asInst y)); intro _
    apply pres_bind Rsh_po (rsh_of_stateOnly (stateOnly_modifySt _)); intro _
    exact NS (neutral_pure _)
  | unrelateUsing a b rel phrase u =>
    unfold execStep
    apply pres_bind Rsh_po (NS (neutral_lookupVar C _)); intro x
    apply pres_bind Rsh_po (NS (neutral_asInst x)); intro _
    apply pres_bind Rsh_po (NS (neutral_lookupVar C _)); intro y
    apply pres_bind Rsh_po (NS (neutral_asInst y)); intro _
    apply pres_bind Rsh_po (NS (neutral_lookupVar C _)); intro w
    apply pres_bind Rsh_po (NS (neutral_asInst w)); intro _
    apply pres_bind Rsh_po (rsh_of_stateOnly (stateOnly_modifySt _)); intro _
    exact NS (neutral_pure _)
  | selectFrom many v cls wh =>
    unfold execStep
    apply pres_bind Rsh_po (NS (neutral_querySt _)); intro _
    apply pres_bind Rsh_po (rsh_selectResult he hs _ _ _); intro _
    apply pres_bind Rsh_po (rsh_install _ _); intro _
    exact NS (neutral_pure _)
  | selectRelated many v hx chain wh =>
    unfold execStep
    apply pres_bind Rsh_po (E hx); intro hv
    apply pres_bind Rsh_po (NS (neutral_startOf hv)); intro _
    apply pres_bind Rsh_po (NS (neutral_querySt _)); intro _
    apply pres_bind Rsh_po (rsh_selectResult he hs _ _ _); intro _
    apply pres_bind Rsh_po (rsh_install _ _); intro _
    exact NS (neutral_pure _)
  | invoke e =>
    unfold execStep
    apply pres_bind Rsh_po (E e); intro _
    exact NS (neutral_pure _)

end

theorem rsh_run (C : Ctx) : ∀ n s, Pres Rsh ((run C n).exec s)
  | 0 => fun _ _ _ _ h => by simp [run] at h
  | n + 1 => fun s => rsh_execStep (rfr_run C n) (rsh_run C n) C s

end Pyx.Interp
