import PyxModel.LoadHeap

/-! Helper lemmas for C18: footprints (frame lemmas) of the mutators, independence from the loader's
    statements when nothing is shared, stability of observations, and the projection of a history. -/

namespace Pyx.Heap
open Pyx.Load

/-! ### generic list lemmas -/

theorem map_modifyCls {β : Type} (cs : List HCls) (kind : String) (f : HCls → HCls) (g : HCls → β)
    (h : ∀ c, g (f c) = g c) : (modifyCls cs kind f).map g = cs.map g := by
  unfold modifyCls
  rw [List.map_map]
  apply List.map_congr_left
  intro c _
  by_cases hk : c.kind = kind <;> simp [hk, h]

theorem map_updateAt {α β : Type} (l : List α) (n : Nat) (f : α → α) (g : α → β)
    (h : ∀ a, g (f a) = g a) : (updateAt l n f).map g = l.map g := by
  induction l generalizing n with
  | nil => rfl
  | cons x xs ih =>
    cases n with
    | zero => simp [updateAt, h]
    | succ n => simp [updateAt, ih]

theorem mem_modifyCls {cs : List HCls} {kind : String} {f : HCls → HCls} {c : HCls}
    (h : c ∈ modifyCls cs kind f) : ∃ d ∈ cs, c = d ∨ c = f d := by
  unfold modifyCls at h
  simp only [List.mem_map] at h
  obtain ⟨d, hd, rfl⟩ := h
  by_cases hk : d.kind = kind
  · exact ⟨d, hd, Or.inr (by simp [hk])⟩
  · exact ⟨d, hd, Or.inl (by simp [hk])⟩

/-! ### what each part of a metamodel is; `Unchanged f o o'` = the mutable objects grouped under `f` hold the
    same content in `o'` as in `o` -/

def Unchanged : Field → HMeta → HMeta → Prop
  | .clsAttributes, o, o' => o'.classes.map (·.attrs) = o.classes.map (·.attrs)
  | .clsIndices, o, o' => o'.classes.map (·.indices) = o.classes.map (·.indices)
  | .instances, o, o' => o'.classes.map (fun c => (c.rows, c.created)) = o.classes.map (fun c => (c.rows, c.created))
  | .linkItems, o, o' => o'.assocs.map (·.links) = o.assocs.map (·.links)
  | .idGenerator, o, o' => o'.idNext = o.idNext
  | .assocKeys, o, o' => o'.assocs.map (fun a => (a.stmt, a.keysRef)) = o.assocs.map (fun a => (a.stmt, a.keysRef))

/-! ### the batch relate of `new` touches links only -/

/-- the classes, the associations' statements and key pointers, and the id generator are as before -/
def LinksOnly (o o' : HMeta) : Prop :=
  o'.classes = o.classes ∧
  o'.assocs.map (fun a => (a.stmt, a.keysRef)) = o.assocs.map (fun a => (a.stmt, a.keysRef)) ∧
  o'.idNext = o.idNext

theorem LinksOnly.refl (o : HMeta) : LinksOnly o o := ⟨rfl, rfl, rfl⟩

theorem LinksOnly.trans {o1 o2 o3 : HMeta} (h1 : LinksOnly o1 o2) (h2 : LinksOnly o2 o3) : LinksOnly o1 o3 :=
  ⟨h2.1.trans h1.1, h2.2.1.trans h1.2.1, h2.2.2.trans h1.2.2⟩

theorem relateH_linksOnly (o : HMeta) (k1 : String) (i1 : Nat) (k2 : String) (i2 : Nat) (rel phrase : String) :
    LinksOnly o (relateH o k1 i1 k2 i2 rel phrase).1 := by
  unfold relateH
  cases findLink (o.assocs.map (·.stmt)) k1 k2 rel phrase with
  | none => exact LinksOnly.refl o
  | some ns =>
    obtain ⟨n, swapped⟩ := ns
    simp only
    cases o.assocs[n]? with
    | none => exact LinksOnly.refl o
    | some a => exact ⟨rfl, map_updateAt _ _ _ _ (fun _ => rfl), rfl⟩

theorem relateHitsH_linksOnly (okind kind : String) (i : Nat) (rel phrase : String) (hs : List Nat) :
    ∀ o, LinksOnly o (relateHitsH okind kind i rel phrase hs o).1 := by
  induction hs with
  | nil => intro o; exact LinksOnly.refl o
  | cons j js ih =>
    intro o
    simp only [relateHitsH]
    have h1 := relateH_linksOnly o okind j kind i rel phrase
    cases hr : relateH o okind j kind i rel phrase with
    | mk o' res =>
      rw [hr] at h1
      cases res <;> first
        | exact h1.trans (ih o')
        | exact h1

theorem relateLinkH_linksOnly (refs : List (String × Val)) (km : List (String × String)) (okind kind : String)
    (i : Nat) (rel phrase : String) (o : HMeta) :
    LinksOnly o (relateLinkH refs km okind kind i rel phrase o).1 := by
  unfold relateLinkH
  split
  · exact LinksOnly.refl o
  · split
    · exact LinksOnly.refl o
    · split
      · exact LinksOnly.refl o
      · split
        · exact LinksOnly.refl o
        · exact relateHitsH_linksOnly _ _ _ _ _ _ o

theorem relateLinksH_linksOnly (refs : List (String × Val)) (kind : String) (i : Nat)
    (ls : List (List (String × String) × String × String × String)) :
    ∀ o, LinksOnly o (relateLinksH refs kind i ls o).1 := by
  induction ls with
  | nil => intro o; exact LinksOnly.refl o
  | cons e rest ih =>
    intro o
    obtain ⟨km, okind, rel, phrase⟩ := e
    simp only [relateLinksH]
    have h1 := relateLinkH_linksOnly refs km okind kind i rel phrase o
    cases hr : relateLinkH refs km okind kind i rel phrase o with
    | mk o' res =>
      rw [hr] at h1
      cases res <;> first
        | exact h1.trans (ih o')
        | exact h1

/-- `new` with arguments: the state after the row has been stored and before the batch relate -/
def newStored (attrsOf : Ref (List (String × Ty)) → List (String × Ty)) (o : HMeta) (kind : String) (args : List Val)
    (c : HCls) : HMeta :=
  let refNames := referential (o.assocs.map (·.stmt)) kind
  let d := defaultRow refNames (attrsOf c.attrs) o.idNext
  let sp := splitArgs refNames ((attrsOf c.attrs).zip args) d.1 []
  { o with
    classes := modifyCls o.classes kind (fun c' => { c' with rows := c'.rows ++ [(c'.created, sp.1)], created := c'.created + 1 }),
    idNext := d.2 }

theorem newArgs_shape (attrsOf : Ref (List (String × Ty)) → List (String × Ty)) (o : HMeta) (kind : String)
    (args : List Val) (c : HCls) (hc : findHCls o.classes kind = some c) :
    LinksOnly (newStored attrsOf o kind args c) (applyOwn attrsOf o (.newArgs kind args)).1 := by
  simp only [applyOwn, hc]
  split
  · exact LinksOnly.refl _
  · exact relateLinksH_linksOnly _ _ _ _ _

/-- the frame of the mutators that do not edit an attribute list -/
theorem applyOwn_frame (attrsOf : Ref (List (String × Ty)) → List (String × Ty)) (o : HMeta) (μ : Mut)
    (hμ : μ.isAttrEdit = false) (f : Field) (hf : f ∉ μ.writes) : Unchanged f o (applyOwn attrsOf o μ).1 := by
  cases μ with
  | appendAttr _ _ _ => simp [Mut.isAttrEdit] at hμ
  | insertAttr _ _ _ _ => simp [Mut.isAttrEdit] at hμ
  | deleteAttr _ _ => simp [Mut.isAttrEdit] at hμ
  | defineUnique kind name attrs =>
    simp only [applyOwn]
    by_cases he : attrs.isEmpty
    · simp only [he, if_true]; cases f <;> simp [Unchanged]
    · simp only [he, Bool.false_eq_true, if_false]
      cases findHCls o.classes kind with
      | none => cases f <;> simp [Unchanged]
      | some c =>
        cases f <;> simp only [Unchanged] <;> first
          | rfl
          | exact map_modifyCls _ _ _ _ (fun _ => rfl)
          | (exfalso; apply hf; simp [Mut.writes]; done)
  | new kind =>
    simp only [applyOwn]
    cases findHCls o.classes kind with
    | none => cases f <;> simp [Unchanged]
    | some c =>
      cases f <;> simp only [Unchanged] <;> first
        | rfl
        | exact map_modifyCls _ _ _ _ (fun _ => rfl)
        | (exfalso; apply hf; simp [Mut.writes]; done)
  | newArgs kind args =>
    cases hc : findHCls o.classes kind with
    | none => simp only [applyOwn, hc]; cases f <;> simp [Unchanged]
    | some c =>
      have hlo := newArgs_shape attrsOf o kind args c hc
      cases f <;> simp only [Unchanged] <;> first
        | (exfalso; apply hf; simp [Mut.writes]; done)
        | (rw [hlo.1]; exact map_modifyCls _ _ _ _ (fun _ => rfl))
        | (rw [hlo.2.1]; rfl)
  | delete kind id =>
    simp only [applyOwn]
    cases findHCls o.classes kind with
    | none => cases f <;> simp [Unchanged]
    | some c =>
      by_cases hr : c.rows.any (fun p => p.1 = id)
      · simp only [hr, if_true]
        cases f <;> simp only [Unchanged] <;> first
          | rfl
          | exact map_modifyCls _ _ _ _ (fun _ => rfl)
          | (exfalso; apply hf; simp [Mut.writes]; done)
          | (simp [List.map_map, Function.comp_def])
      · simp only [hr, Bool.false_eq_true, if_false]; cases f <;> simp [Unchanged]
  | setAttr kind id attr v =>
    simp only [applyOwn]
    cases findHCls o.classes kind with
    | none => cases f <;> simp [Unchanged]
    | some c =>
      cases f <;> simp only [Unchanged] <;> first
        | rfl
        | exact map_modifyCls _ _ _ _ (fun _ => rfl)
        | (exfalso; apply hf; simp [Mut.writes]; done)
  | relate n s t =>
    simp only [applyOwn]
    cases o.assocs[n]? with
    | none => cases f <;> simp [Unchanged]
    | some a =>
      simp only
      by_cases hal : (!(aliveH o a.stmt.srcKind s && aliveH o a.stmt.tgtKind t)) = true
      · rw [if_pos hal]; cases f <;> simp [Unchanged]
      rw [if_neg hal]
      cases connectChecked a.links.src a.stmt.srcMany t s with
      | none => cases f <;> simp [Unchanged]
      | some src' =>
        simp only
        cases connectChecked a.links.tgt a.stmt.tgtMany s t with
        | none => cases f <;> simp [Unchanged]
        | some tgt' =>
          cases f <;> simp only [Unchanged] <;> first
            | rfl
            | exact map_updateAt _ _ _ _ (fun _ => rfl)
            | (exfalso; apply hf; simp [Mut.writes]; done)
  | unrelate n s t =>
    simp only [applyOwn]
    cases o.assocs[n]? with
    | none => cases f <;> simp [Unchanged]
    | some a =>
      simp only
      cases disconnect a.links.src t s with
      | none => cases f <;> simp [Unchanged]
      | some src' =>
        cases disconnect a.links.tgt s t with
        | none => cases f <;> simp [Unchanged]
        | some tgt' =>
          cases f <;> simp only [Unchanged] <;> first
            | rfl
            | exact map_updateAt _ _ _ _ (fun _ => rfl)
            | (exfalso; apply hf; simp [Mut.writes]; done)

/-- the frame of append/insert/delete_attribute: everything but the attribute lists -/
theorem applyAttrEdit_frame (stmts : List Stmt) (o : HMeta) (μ : Mut) (f : Field) (hf : f ≠ .clsAttributes) :
    Unchanged f o (applyAttrEdit stmts o μ).1 := by
  unfold applyAttrEdit
  cases findHCls o.classes μ.attrKind with
  | none => cases f <;> simp [Unchanged]
  | some c =>
    cases f <;> simp only [Unchanged] <;> first
      | rfl
      | exact map_modifyCls _ _ _ _ (fun _ => rfl)
      | exact absurd rfl hf

theorem writes_of_attrEdit (μ : Mut) (h : μ.isAttrEdit = true) : μ.writes = [.clsAttributes] := by
  cases μ <;> simp [Mut.isAttrEdit] at h <;> rfl

theorem not_writes_attrs_of_own (μ : Mut) (h : μ.isAttrEdit = false) : Field.clsAttributes ∉ μ.writes := by
  cases μ <;> simp [Mut.isAttrEdit] at h <;> simp [Mut.writes]

/-- kinds never change -/
theorem applyMut_kinds (stmts : List Stmt) (o : HMeta) (μ : Mut) :
    (applyMut stmts o μ).1.classes.map (·.kind) = o.classes.map (·.kind) := by
  unfold applyMut
  by_cases h : μ.isAttrEdit
  · simp only [h, if_true]
    unfold applyAttrEdit
    cases findHCls o.classes μ.attrKind with
    | none => rfl
    | some c => exact map_modifyCls _ _ _ _ (fun _ => rfl)
  · simp only [h, Bool.false_eq_true, if_false]
    cases μ with
    | appendAttr _ _ _ => simp [Mut.isAttrEdit] at h
    | insertAttr _ _ _ _ => simp [Mut.isAttrEdit] at h
    | deleteAttr _ _ => simp [Mut.isAttrEdit] at h
    | defineUnique kind name attrs =>
      simp only [applyOwn]
      by_cases he : attrs.isEmpty
      · simp [he]
      · simp only [he, Bool.false_eq_true, if_false]
        cases findHCls o.classes kind with
        | none => rfl
        | some c => exact map_modifyCls _ _ _ _ (fun _ => rfl)
    | new kind =>
      simp only [applyOwn]
      cases findHCls o.classes kind with
      | none => rfl
      | some c => exact map_modifyCls _ _ _ _ (fun _ => rfl)
    | newArgs kind args =>
      cases hc : findHCls o.classes kind with
      | none => simp only [applyOwn, hc]
      | some c =>
        have hlo := newArgs_shape (getAttrs stmts) o kind args c hc
        rw [hlo.1]
        exact map_modifyCls _ _ _ _ (fun _ => rfl)
    | delete kind id =>
      simp only [applyOwn]
      cases findHCls o.classes kind with
      | none => rfl
      | some c =>
        by_cases hr : c.rows.any (fun p => p.1 = id)
        · simp only [hr, if_true]; exact map_modifyCls _ _ _ _ (fun _ => rfl)
        · simp [hr]
    | setAttr kind id attr v =>
      simp only [applyOwn]
      cases findHCls o.classes kind with
      | none => rfl
      | some c => exact map_modifyCls _ _ _ _ (fun _ => rfl)
    | relate n s t =>
      simp only [applyOwn]
      cases o.assocs[n]? with
      | none => rfl
      | some a =>
        simp only
        by_cases hal : (!(aliveH o a.stmt.srcKind s && aliveH o a.stmt.tgtKind t)) = true
        · rw [if_pos hal]
        rw [if_neg hal]
        cases connectChecked a.links.src a.stmt.srcMany t s with
        | none => rfl
        | some src' =>
          simp only
          cases connectChecked a.links.tgt a.stmt.tgtMany s t <;> rfl
    | unrelate n s t =>
      simp only [applyOwn]
      cases o.assocs[n]? with
      | none => rfl
      | some a =>
        simp only
        cases disconnect a.links.src t s with
        | none => rfl
        | some src' => cases disconnect a.links.tgt s t <;> rfl

/-! ### when no attribute list is shared, a mutator neither writes nor reads the loader's statements -/

/-- every class owns its attribute list -/
def AllOwn (o : HMeta) : Prop := ∀ c ∈ o.classes, ∃ v, c.attrs = .own v

theorem getAttrs_own (s1 s2 : List Stmt) (r : Ref (List (String × Ty))) (h : ∃ v, r = .own v) :
    getAttrs s1 r = getAttrs s2 r := by
  obtain ⟨v, rfl⟩ := h
  rfl

theorem findHCls_mem {cs : List HCls} {kind : String} {c : HCls} (h : findHCls cs kind = some c) : c ∈ cs :=
  List.mem_of_find?_eq_some h

theorem applyOwn_congr (f g : Ref (List (String × Ty)) → List (String × Ty)) (o : HMeta) (μ : Mut)
    (h : ∀ c ∈ o.classes, f c.attrs = g c.attrs) : applyOwn f o μ = applyOwn g o μ := by
  cases μ with
  | new kind =>
    simp only [applyOwn]
    cases hc : findHCls o.classes kind with
    | none => rfl
    | some c => simp only [h c (findHCls_mem hc)]
  | newArgs kind args =>
    simp only [applyOwn]
    cases hc : findHCls o.classes kind with
    | none => rfl
    | some c => simp only [h c (findHCls_mem hc)]
  | _ => rfl

theorem applyMut_allOwn (s1 s2 : List Stmt) (o : HMeta) (μ : Mut) (ho : AllOwn o) :
    (applyMut s1 o μ).2.1 = s1 ∧ (applyMut s1 o μ).1 = (applyMut s2 o μ).1 ∧
    (applyMut s1 o μ).2.2 = (applyMut s2 o μ).2.2 ∧ AllOwn (applyMut s1 o μ).1 := by
  unfold applyMut
  by_cases h : μ.isAttrEdit
  · simp only [h, if_true]
    unfold applyAttrEdit
    cases hc : findHCls o.classes μ.attrKind with
    | none => exact ⟨by first | rfl | trivial, by first | rfl | trivial, by first | rfl | trivial, ho⟩
    | some c =>
      obtain ⟨v, hv⟩ := ho c (findHCls_mem hc)
      simp only [hv, setAttrs, getAttrs]
      refine ⟨by first | rfl | trivial, by first | rfl | trivial, by first | rfl | trivial, ?_⟩
      intro d hd
      obtain ⟨e, he, hde⟩ := mem_modifyCls hd
      rcases hde with rfl | rfl
      · exact ho _ he
      · exact ⟨_, rfl⟩
  · simp only [h, Bool.false_eq_true, if_false]
    have hcongr := applyOwn_congr (getAttrs s1) (getAttrs s2) o μ
      (fun c hc => getAttrs_own s1 s2 c.attrs (ho c hc))
    refine ⟨by first | rfl | trivial, by rw [hcongr], by rw [hcongr], ?_⟩
    have hfr := applyOwn_frame (getAttrs s1) o μ (by simpa using h) .clsAttributes
      (not_writes_attrs_of_own μ (by simpa using h))
    simp only [Unchanged] at hfr
    intro d hd
    have : d.attrs ∈ (applyOwn (getAttrs s1) o μ).1.classes.map (·.attrs) := List.mem_map.mpr ⟨d, hd, rfl⟩
    rw [hfr] at this
    obtain ⟨e, he, hde⟩ := List.mem_map.mp this
    obtain ⟨v, hv⟩ := ho e he
    exact ⟨v, by rw [← hde, hv]⟩

/-! ### observations do not depend on statements appended later -/

/-- every by-reference key pointer designates one of the first `n` statements -/
def KeysBound (o : HMeta) (n : Nat) : Prop := ∀ a ∈ o.assocs, ∀ idx, a.keysRef = some idx → idx < n

theorem observeMeta_append (s more : List Stmt) (o : HMeta) (ho : AllOwn o) (hk : KeysBound o s.length) :
    observeMeta (s ++ more) o = observeMeta s o := by
  unfold observeMeta
  congr 1
  · apply List.map_congr_left
    intro c hc
    rw [getAttrs_own (s ++ more) s c.attrs (ho c hc)]
  · apply List.map_congr_left
    intro a ha
    have : assocKeys (s ++ more) a = assocKeys s a := by
      unfold assocKeys
      cases hr : a.keysRef with
      | none => rfl
      | some idx =>
        have := hk a ha idx hr
        simp only [List.getElem?_append_left this]
    rw [this]

theorem applyMut_keysBound (s : List Stmt) (o : HMeta) (μ : Mut) (n : Nat) (hk : KeysBound o n) :
    KeysBound (applyMut s o μ).1 n := by
  have hfr : Unchanged .assocKeys o (applyMut s o μ).1 := by
    unfold applyMut
    by_cases h : μ.isAttrEdit
    · simp only [h, if_true]
      exact applyAttrEdit_frame s o μ .assocKeys (by decide)
    · simp only [h, Bool.false_eq_true, if_false]
      apply applyOwn_frame _ o μ (by simpa using h)
      cases μ <;> simp [Mut.writes]
  simp only [Unchanged] at hfr
  intro a ha idx hidx
  have : (a.stmt, a.keysRef) ∈ (applyMut s o μ).1.assocs.map (fun a => (a.stmt, a.keysRef)) :=
    List.mem_map.mpr ⟨a, ha, rfl⟩
  rw [hfr] at this
  obtain ⟨b, hb, hbe⟩ := List.mem_map.mp this
  simp only [Prod.mk.injEq] at hbe
  exact hk b hb idx (by rw [hbe.2]; exact hidx)

/-! ### what a build allocates -/

theorem mem_enumFrom_lt {α : Type} {n i : Nat} {x : α} {l : List α} (h : (i, x) ∈ enumFrom n l) : i < n + l.length := by
  induction l generalizing n with
  | nil => simp [enumFrom] at h
  | cons y ys ih =>
    simp only [enumFrom, List.mem_cons, Prod.mk.injEq] at h
    rcases h with ⟨h1, _⟩ | h
    · simp; omega
    · have := ih h; simp; omega

theorem assocStmtIdxs_lt (stmts : List Stmt) : ∀ i ∈ assocStmtIdxs stmts, i < stmts.length := by
  intro i hi
  unfold assocStmtIdxs at hi
  simp only [List.mem_filterMap] at hi
  obtain ⟨p, hp, hpi⟩ := hi
  have hlt : p.1 < 0 + stmts.length := mem_enumFrom_lt (x := p.2) (by simpa using hp)
  cases hs : p.2 with
  | assoc a => simp only [hs, Option.some.injEq] at hpi; omega
  | cls _ _ => simp [hs] at hpi
  | uniq _ _ _ => simp [hs] at hpi
  | insert _ _ _ => simp [hs] at hpi

theorem hbuild_allOwn (sh : Sharing) (hs : sh.classAttrsByRef = false) (stmts : List Stmt) (o : HMeta)
    (h : hbuild sh stmts = some o) : AllOwn o ∧ KeysBound o stmts.length := by
  unfold hbuild at h
  cases hb : build stmts with
  | none => simp [hb] at h
  | some m =>
    simp only [hb, Option.some.injEq] at h
    subst h
    constructor
    · intro c hc
      simp only [List.mem_map] at hc
      obtain ⟨d, _, rfl⟩ := hc
      simp only [wrapCls, hs]
      exact ⟨_, rfl⟩
    · intro a ha idx hidx
      simp only [List.mem_map] at ha
      obtain ⟨p, hp, rfl⟩ := ha
      simp only [wrapAssoc] at hidx
      by_cases hk : sh.assocKeysByRef
      · simp only [hk, if_true, Option.some.injEq] at hidx
        subst hidx
        exact assocStmtIdxs_lt stmts _ (List.of_mem_zip hp).2
      · simp [hk] at hidx

end Pyx.Heap
