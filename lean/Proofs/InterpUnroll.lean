import PyxModel.Interp.Spec
import Proofs.InterpLaws

/-!
  Loop unrolling as an equivalence of outcomes, errors included.

  `while_unroll`: the outcome `r` of `while c body` — a completed outcome OR a domain error — is EXACTLY one of:
  the condition fails to evaluate (its error), the condition is not a boolean (error), the condition is false (normal
  completion in the configuration after the condition), the condition is true and the body fails (its error), the
  condition is true, the body completes with outcome `o` and `r` is what `whileAfter` prescribes for `o` (go round
  again for normal / continue — i.e. the outcome of the SAME loop started in the configuration after the body —, end
  normally for break, pass return / stop on).  Both directions, for every amount of fuel.
-/
namespace Pyx.Interp
open M

/-- inversion of a bind with any defined result -/
theorem bind_inv {α β : Type} {m : M α} {f : α → M β} {c : Cfg} {r : Except Err (β × Cfg)}
    (h : (m >>= f) c = some r) :
    (∃ e, m c = some (.error e) ∧ r = .error e) ∨ (∃ a c1, m c = some (.ok (a, c1)) ∧ f a c1 = some r) := by
  have h' : M.bnd m f c = some r := h
  unfold M.bnd at h'
  cases hmc : m c with
  | none => rw [hmc] at h'; cases h'
  | some x =>
    rw [hmc] at h'
    cases x with
    | error e => left; exact ⟨e, rfl, by simp at h'; exact h'.symm⟩
    | ok p => obtain ⟨a, c1⟩ := p; right; exact ⟨a, c1, rfl, h'⟩

/-- is the value a boolean -/
def boolOf : Val → Option Bool
  | .bool b => some b
  | _ => none

theorem asBool_of_boolOf {v : Val} {b : Bool} (h : boolOf v = some b) (c : Cfg) : asBool v c = some (.ok (b, c)) := by
  cases v <;> simp [boolOf] at h
  subst h; rfl

theorem asBool_of_not_bool {v : Val} (h : boolOf v = none) (c : Cfg) : ∃ e, asBool v c = some (.error e) := by
  cases v <;> first | exact ⟨_, rfl⟩ | simp [boolOf] at h

theorem while_unroll {C : Ctx} {c : Expr} {body : Block} {cfg : Cfg} {r : Except Err (Out × Cfg)} :
    Execs C (.whileS c body) cfg r ↔
      (∃ e, Evals C c cfg (.error e) ∧ r = .error e) ∨
      (∃ v c1 e, Evals C c cfg (.ok (v, c1)) ∧ boolOf v = none ∧ asBool v c1 = some (.error e) ∧ r = .error e) ∨
      (∃ c1, Evals C c cfg (.ok (.bool false, c1)) ∧ r = .ok (.normal, c1)) ∨
      (∃ c1 e, Evals C c cfg (.ok (.bool true, c1)) ∧ BlockExecs C body c1 (.error e) ∧ r = .error e) ∨
      (∃ c1 c2 o, Evals C c cfg (.ok (.bool true, c1)) ∧ BlockExecs C body c1 (.ok (o, c2)) ∧
        whileAfter C c body o c2 r) := by
  constructor
  · intro h
    rw [execs_iff_step] at h
    obtain ⟨n, hn⟩ := h
    simp only [execStep] at hn
    rcases bind_inv hn with ⟨e, he, rfl⟩ | ⟨v, c1, hv, hrest⟩
    · exact Or.inl ⟨e, ⟨n, he⟩, rfl⟩
    · cases hb : boolOf v with
      | none =>
        obtain ⟨e, he⟩ := asBool_of_not_bool hb c1
        rw [bind_err he] at hrest
        simp at hrest
        exact Or.inr (Or.inl ⟨v, c1, e, ⟨n, hv⟩, hb, he, hrest.symm⟩)
      | some t =>
        rw [bind_ok (asBool_of_boolOf hb c1)] at hrest
        have hv' : v = .bool t := by cases v <;> simp [boolOf] at hb; rw [hb]
        subst hv'
        cases t with
        | false =>
          simp only [Bool.false_eq_true, if_false] at hrest
          have : (some (Except.ok (Out.normal, c1)) : Res Out) = some r := hrest
          simp at this
          exact Or.inr (Or.inr (Or.inl ⟨c1, ⟨n, hv⟩, this.symm⟩))
        | true =>
          simp only [if_true] at hrest
          rcases bind_inv hrest with ⟨e, he, rfl⟩ | ⟨o, c2, ho, hafter⟩
          · exact Or.inr (Or.inr (Or.inr (Or.inl ⟨c1, e, ⟨n, hv⟩, ⟨n, he⟩, rfl⟩)))
          · refine Or.inr (Or.inr (Or.inr (Or.inr ⟨c1, c2, o, ⟨n, hv⟩, ⟨n, ho⟩, ?_⟩)))
            cases o with
            | normal => exact ⟨n, hafter⟩
            | cont => exact ⟨n, hafter⟩
            | brk =>
              have : (some (Except.ok (Out.normal, c2)) : Res Out) = some r := hafter
              simp at this; exact this.symm
            | ret =>
              have : (some (Except.ok (Out.ret, c2)) : Res Out) = some r := hafter
              simp at this; exact this.symm
            | retBare =>
              have : (some (Except.ok (Out.retBare, c2)) : Res Out) = some r := hafter
              simp at this; exact this.symm
            | stop =>
              have : (some (Except.ok (Out.stop, c2)) : Res Out) = some r := hafter
              simp at this; exact this.symm
  · rintro (⟨e, ⟨n, hn⟩, rfl⟩ | ⟨v, c1, e, ⟨n, hn⟩, _, he, rfl⟩ | ⟨c1, hc, rfl⟩ | ⟨c1, e, ⟨m, hm⟩, ⟨k, hk⟩, rfl⟩ |
        ⟨c1, c2, o, hc, hb, ha⟩)
    · rw [execs_iff_step]
      refine ⟨n, ?_⟩
      simp only [execStep]
      exact bind_err hn
    · rw [execs_iff_step]
      refine ⟨n, ?_⟩
      simp only [execStep]
      rw [bind_ok hn]
      exact bind_err he
    · exact while_false hc
    · rw [execs_iff_step]
      have hm' := Runs.lift (monoF_eval c) hm (Nat.le_max_left m k)
      have hk' := Runs.lift (monoF_block body) hk (Nat.le_max_right m k)
      refine ⟨max m k, ?_⟩
      simp only [execStep]
      rw [bind_ok hm', bind_ok (asBool_run true c1)]
      simp only [if_true]
      exact bind_err hk'
    · exact while_true hc hb ha

end Pyx.Interp
