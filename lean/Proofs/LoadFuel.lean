import Proofs.LoadChain

/-! C03: the fuel `fuelOf` that the model gives an attribute read is enough for every read that ends at all.
    A read is the iteration of a deterministic step on states (class, instance, attribute); a read that ends never
    visits a state twice, and every state after the first one is (referred class, linked row, identifying
    attribute) — of which there are at most `fuelOf m - 1` in a well-formed metamodel. -/

namespace Pyx.Load

/-! ### iteration of a deterministic step -/

section iter
variable {σ : Type} (next : σ → Val ⊕ σ)

def runSteps : Nat → σ → Option Val
  | 0, _ => none
  | n + 1, s =>
    match next s with
    | .inl v => some v
    | .inr s' => runSteps n s'

/-- `p` lists the states visited after `s` until the step answers `v` -/
inductive Path (v : Val) : σ → List σ → Prop where
  | stop {s : σ} : next s = .inl v → Path v s []
  | step {s s' : σ} {p : List σ} : next s = .inr s' → Path v s' p → Path v s (s' :: p)

theorem runSteps_of_path {v : Val} {s : σ} {p : List σ} (h : Path next v s p) :
    runSteps next (p.length + 1) s = some v := by
  induction h with
  | stop h => simp [runSteps, h]
  | step h _ ih => simp only [runSteps, h, List.length_cons]; exact ih

theorem runSteps_succ {v : Val} : ∀ (n : Nat) (s : σ), runSteps next n s = some v → runSteps next (n + 1) s = some v := by
  intro n
  induction n with
  | zero => intro s h; simp [runSteps] at h
  | succ n ih =>
    intro s h
    simp only [runSteps] at h ⊢
    cases hn : next s with
    | inl w => simp only [hn] at h ⊢; exact h
    | inr s' => simp only [hn] at h ⊢; exact ih s' h

theorem runSteps_mono {v : Val} {n n' : Nat} (hle : n ≤ n') (s : σ) (h : runSteps next n s = some v) :
    runSteps next n' s = some v := by
  induction n' with
  | zero => have : n = 0 := by omega
            subst this; exact h
  | succ n' ih =>
    by_cases he : n = n' + 1
    · subst he; exact h
    · exact runSteps_succ next n' s (ih (by omega))

/-- from a state on the path the rest of the path is a path -/
theorem path_suffix {v : Val} {s : σ} {p : List σ} (h : Path next v s p) :
    ∀ u ∈ p, ∃ a q, p = a ++ u :: q ∧ Path next v u q := by
  induction h with
  | stop _ => intro u hu; cases hu
  | @step s s' p hn hp ih =>
    intro u hu
    rcases List.mem_cons.mp hu with rfl | hu
    · exact ⟨[], p, rfl, hp⟩
    · obtain ⟨a, q, hpq, hq⟩ := ih u hu
      exact ⟨s' :: a, q, by rw [hpq]; rfl, hq⟩

theorem path_mem_next {v : Val} {s : σ} {p : List σ} (h : Path next v s p) :
    ∀ u ∈ p, ∃ w, next w = .inr u := by
  induction h with
  | stop _ => intro u hu; cases hu
  | @step s s' p hn _ ih =>
    intro u hu
    rcases List.mem_cons.mp hu with rfl | hu
    · exact ⟨s, hn⟩
    · exact ih u hu

/-- a run that ends has a path without repeated states that does not come back to its start -/
theorem path_of_run {v : Val} : ∀ (n : Nat) (s : σ), runSteps next n s = some v →
    ∃ p, Path next v s p ∧ p.Nodup ∧ s ∉ p := by
  intro n
  induction n with
  | zero => intro s h; simp [runSteps] at h
  | succ n ih =>
    intro s h
    simp only [runSteps] at h
    cases hn : next s with
    | inl w =>
      simp only [hn, Option.some.injEq] at h
      subst h
      exact ⟨[], .stop hn, List.nodup_nil, List.not_mem_nil⟩
    | inr s' =>
      simp only [hn] at h
      obtain ⟨p', hp', hnd, hs'⟩ := ih s' h
      have hfull : Path next v s (s' :: p') := .step hn hp'
      have hndf : (s' :: p').Nodup := List.nodup_cons.mpr ⟨hs', hnd⟩
      classical
      by_cases hin : s ∈ s' :: p'
      · -- the path comes back to `s`: what follows that visit is a shorter path from `s`
        obtain ⟨a, q, hpq, hq⟩ := path_suffix next hfull s hin
        rw [hpq] at hndf
        have h2 := (List.nodup_append.mp hndf).2.1
        exact ⟨q, hq, (List.nodup_cons.mp h2).2, (List.nodup_cons.mp h2).1⟩
      · exact ⟨s' :: p', hfull, hndf, hin⟩

/-- if every state a step leads to lies in `all`, a run that ends, ends within `all.length + 1` steps -/
theorem runSteps_bounded (all : List σ) (hall : ∀ w u, next w = .inr u → u ∈ all) {v : Val} (n : Nat) (s : σ)
    (h : runSteps next n s = some v) : runSteps next (all.length + 1) s = some v := by
  obtain ⟨p, hp, hnd, _⟩ := path_of_run next n s h
  have hsub : p ⊆ all := by
    intro u hu
    obtain ⟨w, hw⟩ := path_mem_next next hp u hu
    exact hall w u hw
  have hlen := hnd.length_le_of_subset hsub
  exact runSteps_mono next (by omega) s (runSteps_of_path next hp)

end iter

/-! ### an attribute read is such an iteration -/

abbrev RState := String × Nat × String

/-- the first association of the list that uses `x` as a referential attribute of `kind` and links instance `i` -/
def chainNext (kind : String) (i : Nat) (x : String) : List (AssocStmt × Links) → Option RState
  | [] => none
  | (a, L) :: earlier =>
    match (if a.srcKind = kind then (a.srcKeys.zip a.tgtKeys).lookup x else none) with
    | none => chainNext kind i x earlier
    | some tkey =>
      match (L.tgt i).head? with
      | none => chainNext kind i x earlier
      | some j => some (a.tgtKind, j, tkey)

theorem readChain_eq_next (rec : String → Nat → String → Option Val) (kind : String) (i : Nat) (x : String)
    (L : List (AssocStmt × Links)) :
    readChain rec kind i x L =
      match chainNext kind i x L with
      | none => some .none
      | some s => rec s.1 s.2.1 s.2.2 := by
  induction L with
  | nil => rfl
  | cons p rest ih =>
    obtain ⟨a, La⟩ := p
    simp only [readChain, chainNext]
    cases (if a.srcKind = kind then (a.srcKeys.zip a.tgtKeys).lookup x else none) with
    | none => exact ih
    | some tk =>
      simp only
      cases (La.tgt i).head? with
      | none => exact ih
      | some j => rfl

def readNext (m : Model) (s : RState) : Val ⊕ RState :=
  if (referential (m.assocs.map (·.1)) s.1).contains s.2.2 then
    match chainNext s.1 s.2.1 s.2.2 m.assocs.reverse with
    | none => .inl .none
    | some s' => .inr s'
  else .inl (((rowsOf m.classes s.1)[s.2.1]?.getD []).get s.2.2)

theorem readAttr_eq_run (m : Model) : ∀ (n : Nat) (k : String) (i : Nat) (x : String),
    readAttr m n k i x = runSteps (readNext m) n (k, i, x) := by
  intro n
  induction n with
  | zero => intro k i x; rfl
  | succ n ih =>
    intro k i x
    simp only [readAttr, runSteps, readNext]
    by_cases hr : (referential (m.assocs.map (·.1)) k).contains x
    · simp only [hr, if_true]
      rw [readChain_eq_next]
      cases chainNext k i x m.assocs.reverse with
      | none => rfl
      | some s => simp only; exact ih s.1 s.2.1 s.2.2
    · simp only [hr, Bool.false_eq_true, if_false]

/-- the states a read can be led to: (class, row, attribute) of the classes of the metamodel -/
def allStates (cs : List Cls) : List RState :=
  cs.flatMap (fun c => (List.range c.rows.length).flatMap (fun j => c.attrs.map (fun p => (c.kind, j, p.1))))

theorem length_allStates (cs : List Cls) :
    (allStates cs).length = (cs.map (fun c => c.rows.length * c.attrs.length)).sum := by
  unfold allStates
  induction cs with
  | nil => rfl
  | cons c cs ih =>
    simp only [List.flatMap_cons, List.length_append, List.map_cons, List.sum_cons, ih]
    congr 1
    generalize c.rows.length = n
    induction n with
    | zero => simp
    | succ n ihn =>
      rw [List.range_succ, List.flatMap_append, List.length_append, ihn]
      simp [Nat.succ_mul]

theorem allStates_lt_fuelOf (m : Model) : (allStates m.classes).length + 1 ≤ fuelOf m := by
  rw [length_allStates]
  unfold fuelOf
  have : ∀ cs : List Cls, (cs.map (fun c => c.rows.length * c.attrs.length)).sum ≤
      (cs.map (fun c => (c.rows.length + 1) * (c.attrs.length + 1))).sum := by
    intro cs
    induction cs with
    | nil => simp
    | cons c cs ih =>
      simp only [List.map_cons, List.sum_cons]
      have : c.rows.length * c.attrs.length ≤ (c.rows.length + 1) * (c.attrs.length + 1) :=
        Nat.mul_le_mul (by omega) (by omega)
      omega
  have := this m.classes
  omega

/-- well-formed links: a linked row is a row of the referred class, whose identifying attributes are declared -/
def LinksWf (m : Model) : Prop :=
  ∀ p ∈ m.assocs, ∀ i j, (p.2.tgt i).head? = some j →
    ∃ c ∈ m.classes, c.kind = p.1.tgtKind ∧ j < c.rows.length ∧ ∀ tk ∈ p.1.tgtKeys, tk ∈ c.attrs.map (·.1)

theorem chainNext_mem (kind : String) (i : Nat) (x : String) (L : List (AssocStmt × Links)) (s : RState)
    (h : chainNext kind i x L = some s) :
    ∃ p ∈ L, s.1 = p.1.tgtKind ∧ (p.2.tgt i).head? = some s.2.1 ∧ s.2.2 ∈ p.1.tgtKeys := by
  induction L with
  | nil => simp [chainNext] at h
  | cons p rest ih =>
    obtain ⟨a, La⟩ := p
    simp only [chainNext] at h
    cases hlk : (if a.srcKind = kind then (a.srcKeys.zip a.tgtKeys).lookup x else none) with
    | none =>
      simp only [hlk] at h
      obtain ⟨p, hp, hrest⟩ := ih h
      exact ⟨p, List.mem_cons_of_mem _ hp, hrest⟩
    | some tk =>
      simp only [hlk] at h
      cases hh : (La.tgt i).head? with
      | none =>
        simp only [hh] at h
        obtain ⟨p, hp, hrest⟩ := ih h
        exact ⟨p, List.mem_cons_of_mem _ hp, hrest⟩
      | some j =>
        simp only [hh, Option.some.injEq] at h
        subst h
        have hk : a.srcKind = kind := by
          by_cases hk : a.srcKind = kind
          · exact hk
          · simp [hk] at hlk
        rw [if_pos hk] at hlk
        exact ⟨(a, La), List.mem_cons_self, rfl, hh, (List.of_mem_zip (mem_of_lookup' hlk)).2⟩

theorem readNext_mem_allStates (m : Model) (hwf : LinksWf m) (w u : RState) (h : readNext m w = .inr u) :
    u ∈ allStates m.classes := by
  unfold readNext at h
  by_cases hr : (referential (m.assocs.map (·.1)) w.1).contains w.2.2
  · simp only [hr, if_true] at h
    cases hc : chainNext w.1 w.2.1 w.2.2 m.assocs.reverse with
    | none => simp [hc] at h
    | some s =>
      simp only [hc, Sum.inr.injEq] at h
      subst h
      obtain ⟨p, hp, h1, h2, h3⟩ := chainNext_mem _ _ _ _ _ hc
      obtain ⟨c, hcm, hck, hj, hattrs⟩ := hwf p (List.mem_reverse.mp hp) _ _ h2
      obtain ⟨q, hq, hq1⟩ := List.mem_map.mp (hattrs _ h3)
      unfold allStates
      refine List.mem_flatMap.mpr ⟨c, hcm, List.mem_flatMap.mpr ⟨s.2.1, List.mem_range.mpr hj, List.mem_map.mpr ⟨q, hq, ?_⟩⟩⟩
      obtain ⟨s1, s2, s3⟩ := s
      simp only at h1 hq1 ⊢
      rw [hck, ← h1, hq1]
  · simp only [hr, Bool.false_eq_true, if_false] at h
    cases h

/-- **the fuel suffices**: on a metamodel with well-formed links, an attribute read that ends with some fuel ends
    with the fuel `fuelOf m` the model runs with — so the model answers "recursion error" only for a read that
    never ends (a cyclic chain of referential attributes) -/
theorem fuelOf_sufficient (m : Model) (hwf : LinksWf m) (n : Nat) (k : String) (i : Nat) (x : String) (v : Val)
    (h : readAttr m n k i x = some v) : readAttr m (fuelOf m) k i x = some v := by
  rw [readAttr_eq_run] at h ⊢
  have hb := runSteps_bounded (readNext m) (allStates m.classes) (readNext_mem_allStates m hwf) n _ h
  exact runSteps_mono _ (allStates_lt_fuelOf m) _ hb

/-- ... and a read that the fuel does not end, does not end with any fuel -/
theorem fuelOf_exhausted (m : Model) (hwf : LinksWf m) (k : String) (i : Nat) (x : String)
    (h : readAttr m (fuelOf m) k i x = none) (n : Nat) : readAttr m n k i x = none := by
  cases hn : readAttr m n k i x with
  | none => rfl
  | some v => rw [fuelOf_sufficient m hwf n k i x v hn] at h; cases h

end Pyx.Load
