import Proofs.ExtractScope

/-!
  C14 / C20 — the fuels of the model are never exhausted on acyclic populations: `is_global` (relational spec
  `InComp`), `_get_data_type_name` (relational spec `MapsTo`); what `resolvedRel` guarantees.
-/

namespace Pyx.Extract

/-! ### is_global -/

/-- a C_C row lies on the containment chain of the packageable element -/
inductive InComp (cs : List Container) : Parent → Prop where
  | comp {c : Nat} {k : Container} : findContainer cs true c = some k → InComp cs (.comp c)
  | pkg {p : Nat} {k : Container} : findContainer cs false p = some k → InComp cs k.parent → InComp cs (.pkg p)

theorem global_fuel {cs : List Container} (depth : Parent → Nat)
    (hdec : ∀ k ∈ cs, depth k.parent < depth (if k.isComp then .comp k.id else .pkg k.id)) :
    ∀ (f : Nat) (p : Parent), depth p < f → (globalFuel cs f p = true ↔ ¬ InComp cs p) := by
  intro f
  induction f with
  | zero => intro p h; omega
  | succ f ih =>
    intro p hp
    cases p with
    | none => simp only [globalFuel, true_iff]; intro h; cases h
    | comp c =>
      simp only [globalFuel]
      cases hf : findContainer cs true c with
      | none =>
        simp only [Option.isNone_none, true_iff]
        intro h; cases h with
        | comp hk => rw [hf] at hk; cases hk
      | some k =>
        simp only [Option.isNone_some, Bool.false_eq_true, false_iff]
        exact fun hn => hn (InComp.comp hf)
    | pkg q =>
      simp only [globalFuel]
      cases hf : findContainer cs false q with
      | none =>
        simp only [true_iff]
        intro h; cases h with
        | pkg hk _ => rw [hf] at hk; cases hk
      | some k =>
        simp only
        obtain ⟨hm, hb, hi⟩ := findContainer_spec hf
        have hd := hdec k hm
        rw [hb, hi] at hd
        simp only [Bool.false_eq_true, if_false] at hd
        rw [ih k.parent (by omega)]
        constructor
        · intro hn h
          cases h with
          | pkg hk hin => rw [hf] at hk; cases hk; exact hn hin
        · intro hn h
          exact hn (.pkg hf h)

/-- `is_global` decides exactly "no C_C row on the containment chain"; the fuel is never exhausted -/
theorem global_iff {cs : List Container} {rf : List PkgRef} (tree : TreeOk cs rf) (p : Parent) :
    isGlobal cs p = true ↔ ¬ InComp cs p := by
  obtain ⟨depth, hdec, _, hb⟩ := tree.ex
  exact global_fuel depth hdec _ p (by have := hb p; omega)

/-- an element whose OWN containment chain (no package reference used) reaches a component is not global -/
theorem reaches_inComp {cs : List Container} {root : Nat} {p : Parent} (h : Reaches cs [] root p) : InComp cs p := by
  induction h with
  | here hk => exact .comp hk
  | pkg hk _ ih => exact .pkg hk ih
  | comp hk _ _ => exact .comp hk
  | ref _ hr _ _ _ _ => cases hr

/-- with package references: an element inside a component either has a component on its own containment chain, or its
    chain leaves through a package reference — from a package that is itself NOT inside any component (`viaRef`) -/
theorem reaches_inComp_or_ref {cs : List Container} {rf : List PkgRef} {root : Nat} {p : Parent} (h : Reaches cs rf root p) :
    InComp cs p ∨ ∃ r ∈ rf, (findContainer cs false r.referring).isSome ∧ (findContainer cs false r.referred).isSome := by
  induction h with
  | here hk => exact Or.inl (.comp hk)
  | pkg hk _ ih =>
    rcases ih with ih | ih
    · exact Or.inl (.pkg hk ih)
    · exact Or.inr ih
  | comp hk _ _ => exact Or.inl (.comp hk)
  | @ref q k r kq hk hr hrp hq _ _ => exact Or.inr ⟨r, hr, by simp [hq], by simp [hrp, hk]⟩

/-! ### user-type chains -/

/-- the R18 chains of user types are acyclic: a rank that drops along R18 and is covered by the fuel -/
structure DtChainOk (dts : List DataType) : Prop where
  ex : ∃ depth : Nat → Nat, (∀ t ∈ dts, ∀ b, t.kind = .user b → depth b < depth t.id) ∧ ∀ i, depth i ≤ dts.length

theorem findDt_mem' {dts : List DataType} {i : Nat} {x : DataType} (h : findDt dts i = some x) : x ∈ dts ∧ x.id = i := by
  refine ⟨List.mem_of_find?_eq_some h, ?_⟩
  have := List.find?_some h; simpa using this

/-- the pyxtuml type of a data type, relationally: core 1..5 -> upper-cased name, enumeration -> INTEGER, user type
    -> the type of its base -/
inductive MapsTo (dts : List DataType) : Nat → String → Prop where
  | core {i : Nat} {t : DataType} {n : Nat} : findDt dts i = some t → t.kind = .core n → 1 ≤ n → n ≤ 5 → t.name ≠ "" →
      MapsTo dts i (upper t.name)
  | enum {i : Nat} {t : DataType} {es : List String} : findDt dts i = some t → t.kind = .enum es → MapsTo dts i "INTEGER"
  | user {i b : Nat} {t : DataType} {s : String} : findDt dts i = some t → t.kind = .user b → MapsTo dts b s →
      MapsTo dts i s

theorem dtTypeFuel_sound (dts : List DataType) : ∀ (f i : Nat) (s : String), dtTypeFuel dts f i = some s → MapsTo dts i s := by
  intro f
  induction f with
  | zero => intro i s h; simp [dtTypeFuel] at h
  | succ f ih =>
    intro i s h
    simp only [dtTypeFuel] at h
    cases hf : findDt dts i with
    | none => simp [hf] at h
    | some t =>
      rw [hf] at h
      simp only at h
      cases hk : t.kind with
      | core n =>
        rw [hk] at h
        simp only at h
        split at h
        · rename_i hn; cases h; exact .core hf hk hn.1 hn.2.1 hn.2.2
        · cases h
      | enum es => rw [hk] at h; cases h; exact .enum hf hk
      | user b => rw [hk] at h; exact .user hf hk (ih b s h)
      | other => rw [hk] at h; cases h

theorem dtTypeFuel_complete {dts : List DataType} (depth : Nat → Nat)
    (hdec : ∀ t ∈ dts, ∀ b, t.kind = .user b → depth b < depth t.id) {i : Nat} {s : String} (h : MapsTo dts i s) :
    ∀ f, depth i < f → dtTypeFuel dts f i = some s := by
  induction h with
  | @core i t n hf hk h1 h5 hne =>
    intro f hlt
    cases f with
    | zero => omega
    | succ f => simp [dtTypeFuel, hf, hk, h1, h5, hne]
  | @enum i t es hf hk =>
    intro f hlt
    cases f with
    | zero => omega
    | succ f => simp [dtTypeFuel, hf, hk]
  | @user i b t s hf hk _ ih =>
    intro f hlt
    cases f with
    | zero => omega
    | succ f =>
      simp only [dtTypeFuel, hf, hk]
      obtain ⟨hm, hid⟩ := findDt_mem' hf
      have := hdec t hm b hk
      rw [hid] at this
      exact ih f (by omega)

/-- `_get_data_type_name` computes exactly `MapsTo`; the fuel is never exhausted on acyclic chains -/
theorem dtTypeName_iff {dts : List DataType} (chain : DtChainOk dts) (i : Nat) (s : String) :
    dtTypeName dts i = some s ↔ MapsTo dts i s := by
  constructor
  · exact dtTypeFuel_sound dts _ i s
  · intro h
    obtain ⟨depth, hdec, hb⟩ := chain.ex
    exact dtTypeFuel_complete depth hdec h _ (by have := hb i; omega)

theorem mapsTo_functional {dts : List DataType} {i : Nat} {s s' : String} (h : MapsTo dts i s) (h' : MapsTo dts i s') :
    s = s' := by
  induction h generalizing s' with
  | core hf hk _ _ _ =>
    cases h' with
    | core hf' hk' _ _ _ => rw [hf] at hf'; cases hf'; rfl
    | enum hf' hk' => rw [hf] at hf'; cases hf'; rw [hk] at hk'; cases hk'
    | user hf' hk' _ => rw [hf] at hf'; cases hf'; rw [hk] at hk'; cases hk'
  | enum hf hk =>
    cases h' with
    | core hf' hk' _ _ _ => rw [hf] at hf'; cases hf'; rw [hk] at hk'; cases hk'
    | enum _ _ => rfl
    | user hf' hk' _ => rw [hf] at hf'; cases hf'; rw [hk] at hk'; cases hk'
  | user hf hk _ ih =>
    cases h' with
    | core hf' hk' _ _ _ => rw [hf] at hf'; cases hf'; rw [hk] at hk'; cases hk'
    | enum hf' hk' => rw [hf] at hf'; cases hf'; rw [hk] at hk'; cases hk'
    | user hf' hk' hm' => rw [hf] at hf'; cases hf'; rw [hk] at hk'; cases hk'; exact ih hm'

/-- a user type has the type of its base: on `dtTypeName` itself -/
theorem dtTypeName_user {dts : List DataType} (chain : DtChainOk dts) {t : DataType} {b : Nat}
    (hf : findDt dts t.id = some t) (hk : t.kind = .user b) : dtTypeName dts t.id = dtTypeName dts b := by
  cases hb : dtTypeName dts b with
  | some s => exact (dtTypeName_iff chain _ _).mpr (.user hf hk ((dtTypeName_iff chain _ _).mp hb))
  | none =>
    cases ht : dtTypeName dts t.id with
    | none => rfl
    | some s =>
      have := (dtTypeName_iff chain _ _).mp ht
      cases this with
      | core hf' hk' _ _ _ => rw [hf] at hf'; cases hf'; rw [hk] at hk'; cases hk'
      | enum hf' hk' => rw [hf] at hf'; cases hf'; rw [hk] at hk'; cases hk'
      | user hf' hk' hm =>
        rw [hf] at hf'; cases hf'; rw [hk] at hk'; cases hk'
        rw [(dtTypeName_iff chain _ _).mpr hm] at hb; cases hb

/-! ### resolved relationships: nothing is dropped by the total functions -/

theorem keyNames_length' {c : Class} {ids : List Nat} (h : ∀ i ∈ ids, (c.findAttr i).isSome = true) :
    (keyNames c ids).length = ids.length := by
  unfold keyNames
  induction ids with
  | nil => rfl
  | cons i t ih =>
    obtain ⟨a, ha⟩ := Option.isSome_iff_exists.mp (h i (by simp))
    simp only [List.filterMap_cons, ha, Option.map_some, List.length_cons]
    rw [ih (fun j hj => h j (by simp [hj]))]

theorem refsResolved_lengths {rc tc : Class} {refs : List Ref} (h : refsResolved rc tc refs = true) :
    (keyNames rc (refs.map (·.rattr))).length = refs.length ∧ (keyNames tc (refs.map (·.iattr))).length = refs.length := by
  unfold refsResolved at h
  simp only [List.all_eq_true, Bool.and_eq_true] at h
  constructor
  · rw [keyNames_length', List.length_map]
    intro i hi
    obtain ⟨r, hr, rfl⟩ := List.mem_map.mp hi
    exact (h r hr).1
  · rw [keyNames_length', List.length_map]
    intro i hi
    obtain ⟨r, hr, rfl⟩ := List.mem_map.mp hi
    exact (h r hr).2

/-- for a resolved relationship `groupOf` is defined, has the full number of associations (1 / 2 / one per
    subtype / 0) and every key list has one entry per O_REF: the totalisation (`none`, dropped keys) is not used -/
theorem resolved_group {d : ClassDiagram} {r : Rel} (h : resolvedRel d r = true) :
    ∃ g, groupOf d r = some g ∧
      g.items.length = (match r.kind with
        | .simple _ _ _ => 1 | .linked _ _ _ _ _ => 2 | .subsup _ subs => subs.length | .derived => 0) ∧
      ∀ a ∈ g.items, a.src.keys.length = a.tgt.keys.length := by
  unfold resolvedRel at h
  unfold groupOf
  cases hk : r.kind with
  | simple form part refs =>
    rw [hk] at h
    simp only [pairResolved] at h
    cases hf : findClass d form.cls <;> cases hp : findClass d part.cls <;> simp [hf, hp] at h
    simp only [hf, hp]
    refine ⟨_, rfl, rfl, ?_⟩
    intro a ha
    simp only [List.mem_singleton] at ha
    subst ha
    obtain ⟨h1, h2⟩ := refsResolved_lengths h
    simp only [h1, h2]
  | linked one oth link r1 r2 =>
    rw [hk] at h
    simp only [pairResolved, Bool.and_eq_true] at h
    cases hl : findClass d link <;> cases ho : findClass d one.cls <;> cases ht : findClass d oth.cls <;>
      simp [hl, ho, ht] at h
    simp only [hl, ho, ht]
    refine ⟨_, rfl, rfl, ?_⟩
    intro a ha
    simp only [List.mem_cons, List.not_mem_nil, or_false] at ha
    rcases ha with rfl | rfl
    · obtain ⟨h1, h2⟩ := refsResolved_lengths h.1; simp only [h1, h2]
    · obtain ⟨h1, h2⟩ := refsResolved_lengths h.2; simp only [h1, h2]
  | subsup sup subs =>
    rw [hk] at h
    simp only [Bool.and_eq_true, List.all_eq_true] at h
    obtain ⟨pc, hs⟩ := Option.isSome_iff_exists.mp h.1
    simp only [hs]
    refine ⟨_, rfl, ?_, ?_⟩
    · have hall := h.2
      clear hk h
      induction subs with
      | nil => rfl
      | cons s t ih =>
        have hs1 := hall s (by simp)
        simp only [pairResolved] at hs1
        cases hb : findClass d s.1 with
        | none => simp [hb] at hs1
        | some sc =>
          simp only [List.filterMap_cons, hb, Option.map_some, List.length_cons]
          rw [ih (fun x hx => hall x (List.mem_cons_of_mem _ hx))]
    · intro a ha
      simp only at ha
      obtain ⟨s, hsm, hsa⟩ := List.mem_filterMap.mp ha
      have hs1 := h.2 s hsm
      simp only [pairResolved, hs] at hs1
      cases hb : findClass d s.1 with
      | none => simp [hb] at hs1
      | some sc =>
        simp only [hb] at hs1
        simp only [hb, Option.map_some, Option.some.injEq] at hsa
        subst hsa
        obtain ⟨h1, h2⟩ := refsResolved_lengths hs1
        simp only [h1, h2]
  | derived => exact ⟨_, rfl, rfl, fun a ha => by cases ha⟩

end Pyx.Extract
