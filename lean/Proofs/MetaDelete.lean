import Proofs.MetaState

/-! C02: `MetaClass.delete` disconnects every link of the deleted instance -/
namespace Pyx.Meta

/-- schema well-formedness under which `_find_link` resolves every association's own
    (kinds, number, phrase) to that association in the right direction; a reflexive association
    carries two distinct phrases -/
def SchemaOk (sch : Schema) : Prop :=
  ∀ i a, sch[i]? = some a →
    findLink sch a.tgtKind a.srcKind a.rel a.tgtPhrase = some (i, .fwd) ∧
    findLink sch a.srcKind a.tgtKind a.rel a.srcPhrase = some (i, .rev)

/-- links only hold pairs of the kinds their association connects -/
def Typed (sch : Schema) (s : State) : Prop :=
  ∀ i x y, y ∈ (s.links i).src x → ∃ a, sch[i]? = some a ∧ s.kindOf x = a.tgtKind ∧ s.kindOf y = a.srcKind

/-- `s'` holds no link that `s` does not hold -/
def SubLinks (s' s : State) : Prop :=
  ∀ j z w, (w ∈ (s'.links j).src z → w ∈ (s.links j).src z) ∧ (w ∈ (s'.links j).tgt z → w ∈ (s.links j).tgt z)

theorem subLinks_refl (s : State) : SubLinks s s := fun _ _ _ => ⟨id, id⟩
theorem subLinks_trans {a b c : State} (h1 : SubLinks a b) (h2 : SubLinks b c) : SubLinks a c :=
  fun j z w => ⟨fun h => (h2 j z w).1 ((h1 j z w).1 h), fun h => (h2 j z w).2 ((h1 j z w).2 h)⟩

theorem disconnect_sub {m m' : Inst → List Inst} {a b : Inst} (hd : disconnect m a b = some m') :
    ∀ u v, v ∈ m' u → v ∈ m u := by
  intro u v hv
  unfold disconnect at hd
  split at hd
  · cases hd
    by_cases ha : u = a
    · subst ha; simp only [upd_same] at hv; exact List.mem_of_mem_erase hv
    · simpa [upd, ha] using hv
  · cases hd

theorem unrelateOn_sub (l : ALinks) (x y : Inst) :
    ∀ z w, (w ∈ (unrelateOn l x y).1.src z → w ∈ l.src z) ∧ (w ∈ (unrelateOn l x y).1.tgt z → w ∈ l.tgt z) := by
  intro z w
  unfold unrelateOn
  split
  · exact ⟨id, id⟩
  · rename_i s' hs
    split
    · exact ⟨disconnect_sub hs z w, id⟩
    · rename_i t' ht
      exact ⟨disconnect_sub hs z w, disconnect_sub ht z w⟩

theorem unrelate_sub (sch : Schema) (s : State) (x y : Inst) (r p : String) : SubLinks (unrelate sch s x y r p).1 s := by
  intro j z w
  unfold unrelate
  split
  · exact ⟨id, id⟩
  · rename_i i d _
    by_cases hj : j = i
    · subst hj; simp only [upd_same]; exact unrelateOn_sub _ _ _ z w
    · simp only [upd, hj, ↓reduceIte]; exact ⟨id, id⟩

theorem unrelateAll_sub (sch : Schema) (x : Inst) (r p : String) : ∀ (ys : List Inst) (s : State),
    SubLinks (unrelateAll sch x r p ys s).1 s
  | [], s => subLinks_refl s
  | y :: ys, s => by
    rw [unrelateAll]
    by_cases hc : (unrelate sch s x y r p).2 = .ok
    · simp only [hc, ↓reduceIte]
      exact subLinks_trans (unrelateAll_sub sch x r p ys _) (unrelate_sub sch s x y r p)
    · simp only [hc, ↓reduceIte]; exact unrelate_sub sch s x y r p

theorem deleteLinks_sub (sch : Schema) (x : Inst) : ∀ (ls : List (Nat × Bool × String)) (s : State),
    SubLinks (deleteLinks sch x ls s).1 s
  | [], s => subLinks_refl s
  | (i, isSrc, ph) :: rest, s => by
    rw [deleteLinks]
    by_cases hc : (unrelateAll sch x (specAt sch i).rel ph
        (if isSrc then (s.links i).src x else (s.links i).tgt x) s).2 = .ok
    · simp only [hc, ↓reduceIte]
      exact subLinks_trans (deleteLinks_sub sch x rest _) (unrelateAll_sub sch x _ _ _ s)
    · simp only [hc, ↓reduceIte]; exact unrelateAll_sub sch x _ _ _ s

theorem specAt_of_get {sch : Schema} {i : Nat} {a : AssocSpec} (h : sch[i]? = some a) : specAt sch i = a := by
  unfold specAt; simp [List.getD, h]

/-- the single unrelate of the delete loop, forward entry (x on the target side of association i) -/
theorem unrelate_fwd {sch : Schema} {s : State} (hok : SchemaOk sch) (hinv : Inv sch s) {i : Nat} {a : AssocSpec}
    (ha : sch[i]? = some a) {x y : Inst} (hx : s.kindOf x = a.tgtKind) (hy : s.kindOf y = a.srcKind)
    (hm : y ∈ (s.links i).src x) :
    (unrelate sch s x y a.rel a.tgtPhrase).2 = .ok ∧
    ((unrelate sch s x y a.rel a.tgtPhrase).1.links i).src x = ((s.links i).src x).erase y := by
  have hf := (hok i a ha).1
  have hsym := (hinv i).1
  have hx' : x ∈ (s.links i).tgt y := (hsym x y).1 hm
  unfold unrelate
  simp only [hx, hy, hf, orient, unrelateOn, disconnect, hm, ↓reduceIte, hx', upd_same]
  exact ⟨trivial, trivial⟩

/-- … backward entry (x on the source side) -/
theorem unrelate_rev {sch : Schema} {s : State} (hok : SchemaOk sch) (hinv : Inv sch s) {i : Nat} {a : AssocSpec}
    (ha : sch[i]? = some a) {x y : Inst} (hx : s.kindOf x = a.srcKind) (hy : s.kindOf y = a.tgtKind)
    (hm : y ∈ (s.links i).tgt x) :
    (unrelate sch s x y a.rel a.srcPhrase).2 = .ok ∧
    ((unrelate sch s x y a.rel a.srcPhrase).1.links i).tgt x = ((s.links i).tgt x).erase y := by
  have hf := (hok i a ha).2
  have hsym := (hinv i).1
  have hx' : x ∈ (s.links i).src y := (hsym y x).2 hm
  unfold unrelate
  simp only [hx, hy, hf, orient, unrelateOn, disconnect, hx', ↓reduceIte, hm, upd_same]
  exact ⟨trivial, trivial⟩

end Pyx.Meta

namespace Pyx.Meta

theorem unrelateAll_fwd {sch : Schema} (hok : SchemaOk sch) {i : Nat} {a : AssocSpec} (ha : sch[i]? = some a) {x : Inst} :
    ∀ (ys : List Inst) (s : State), Inv sch s → s.kindOf x = a.tgtKind → (∀ y ∈ ys, s.kindOf y = a.srcKind) →
    ys.Nodup → (∀ y ∈ ys, y ∈ (s.links i).src x) →
    (unrelateAll sch x a.rel a.tgtPhrase ys s).2 = .ok ∧
    ∀ y ∈ ys, y ∉ ((unrelateAll sch x a.rel a.tgtPhrase ys s).1.links i).src x
  | [], s, _, _, _, _, _ => ⟨rfl, fun _ h => by simp at h⟩
  | y :: ys, s, hinv, hx, hk, hnd, hm => by
    have hstep := unrelate_fwd hok hinv ha hx (hk y (by simp)) (hm y (by simp))
    have hfr := unrelate_frame sch s x y a.rel a.tgtPhrase
    have hinv1 := unrelate_inv hinv x y a.rel a.tgtPhrase
    have hy_nd : y ∉ ys := (List.nodup_cons.mp hnd).1
    have ih := unrelateAll_fwd hok ha ys (unrelate sch s x y a.rel a.tgtPhrase).1 hinv1
      (by rw [hfr.2.1]; exact hx) (fun y' hy' => by rw [hfr.2.1]; exact hk y' (by simp [hy']))
      (List.nodup_cons.mp hnd).2
      (fun y' hy' => by
        rw [hstep.2]
        have hne : y' ≠ y := fun h => hy_nd (h ▸ hy')
        exact (List.mem_erase_of_ne hne).2 (hm y' (by simp [hy'])))
    rw [unrelateAll]
    simp only [hstep.1, ↓reduceIte]
    refine ⟨ih.1, ?_⟩
    intro y' hy'
    rcases List.mem_cons.mp hy' with rfl | hy'
    · intro hmem
      have hsub := (unrelateAll_sub sch x a.rel a.tgtPhrase ys (unrelate sch s x y' a.rel a.tgtPhrase).1 i x y').1 hmem
      rw [hstep.2] at hsub
      exact ((hinv i).2.1.1 x).mem_erase_iff.1 hsub |>.1 rfl
    · exact ih.2 y' hy'

theorem unrelateAll_rev {sch : Schema} (hok : SchemaOk sch) {i : Nat} {a : AssocSpec} (ha : sch[i]? = some a) {x : Inst} :
    ∀ (ys : List Inst) (s : State), Inv sch s → s.kindOf x = a.srcKind → (∀ y ∈ ys, s.kindOf y = a.tgtKind) →
    ys.Nodup → (∀ y ∈ ys, y ∈ (s.links i).tgt x) →
    (unrelateAll sch x a.rel a.srcPhrase ys s).2 = .ok ∧
    ∀ y ∈ ys, y ∉ ((unrelateAll sch x a.rel a.srcPhrase ys s).1.links i).tgt x
  | [], s, _, _, _, _, _ => ⟨rfl, fun _ h => by simp at h⟩
  | y :: ys, s, hinv, hx, hk, hnd, hm => by
    have hstep := unrelate_rev hok hinv ha hx (hk y (by simp)) (hm y (by simp))
    have hfr := unrelate_frame sch s x y a.rel a.srcPhrase
    have hinv1 := unrelate_inv hinv x y a.rel a.srcPhrase
    have hy_nd : y ∉ ys := (List.nodup_cons.mp hnd).1
    have ih := unrelateAll_rev hok ha ys (unrelate sch s x y a.rel a.srcPhrase).1 hinv1
      (by rw [hfr.2.1]; exact hx) (fun y' hy' => by rw [hfr.2.1]; exact hk y' (by simp [hy']))
      (List.nodup_cons.mp hnd).2
      (fun y' hy' => by
        rw [hstep.2]
        have hne : y' ≠ y := fun h => hy_nd (h ▸ hy')
        exact (List.mem_erase_of_ne hne).2 (hm y' (by simp [hy'])))
    rw [unrelateAll]
    simp only [hstep.1, ↓reduceIte]
    refine ⟨ih.1, ?_⟩
    intro y' hy'
    rcases List.mem_cons.mp hy' with rfl | hy'
    · intro hmem
      have hsub := (unrelateAll_sub sch x a.rel a.srcPhrase ys (unrelate sch s x y' a.rel a.srcPhrase).1 i x y').2 hmem
      rw [hstep.2] at hsub
      exact ((hinv i).2.1.2 x).mem_erase_iff.1 hsub |>.1 rfl
    · exact ih.2 y' hy'

end Pyx.Meta
