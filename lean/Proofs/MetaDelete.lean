import Proofs.MetaState

/-! C02: `MetaClass.delete` disconnects every link of the deleted instance -/
namespace Pyx.Meta

/-- schema well-formedness under which `_find_link` resolves every association's own
    (kinds, number, phrase) to that association in the right direction; a reflexive association
    carries two distinct phrases -/
def SchemaOk (sch : Schema) : Prop :=
  ∀ i a, sch[i]? = some a →
    findLink sch a.tgtKind a.srcKind a.rel a.tgtPhrase = some (i, .fwd) ∧
    findLink sch a.srcKind a.tgtKind a.rel a.srcPhrase = some (i, .rev)

/-- links only hold pairs of the kinds their association connects -/
def Typed (sch : Schema) (s : State) : Prop :=
  ∀ i x y, y ∈ (s.links i).src x → ∃ a, sch[i]? = some a ∧ s.kindOf x = a.tgtKind ∧ s.kindOf y = a.srcKind

/-- `s'` holds no link that `s` does not hold -/
def SubLinks (s' s : State) : Prop :=
  ∀ j z w, (w ∈ (s'.links j).src z → w ∈ (s.links j).src z) ∧ (w ∈ (s'.links j).tgt z → w ∈ (s.links j).tgt z)

theorem subLinks_refl (s : State) : SubLinks s s := fun _ _ _ => ⟨id, id⟩
theorem subLinks_trans {a b c : State} (h1 : SubLinks a b) (h2 : SubLinks b c) : SubLinks a c :=
  fun j z w => ⟨fun h => (h2 j z w).1 ((h1 j z w).1 h), fun h => (h2 j z w).2 ((h1 j z w).2 h)⟩

theorem disconnect_sub {m m' : Inst → List Inst} {a b : Inst} (hd : disconnect m a b = some m') :
    ∀ u v, v ∈ m' u → v ∈ m u := by
  intro u v hv
  unfold disconnect at hd
  split at hd
  · cases hd
    by_cases ha : u = a
    · subst ha; simp only [upd_same] at hv; exact List.mem_of_mem_erase hv
    · simpa [upd, ha] using hv
  · cases hd

theorem unrelateOn_sub (l : ALinks) (x y : Inst) :
    ∀ z w, (w ∈ (unrelateOn l x y).1.src z → w ∈ l.src z) ∧ (w ∈ (unrelateOn l x y).1.tgt z → w ∈ l.tgt z) := by
  intro z w
  unfold unrelateOn
  split
  · exact ⟨id, id⟩
  · rename_i s' hs
    split
    · exact ⟨disconnect_sub hs z w, id⟩
    · rename_i t' ht
      exact ⟨disconnect_sub hs z w, disconnect_sub ht z w⟩

theorem unrelate_sub (sch : Schema) (s : State) (x y : Inst) (r p : String) : SubLinks (unrelate sch s x y r p).1 s := by
  intro j z w
  unfold unrelate
  split
  · exact ⟨id, id⟩
  · rename_i i d _
    by_cases hj : j = i
    · subst hj; simp only [upd_same]; exact unrelateOn_sub _ _ _ z w
    · simp only [upd, hj, ↓reduceIte]; exact ⟨id, id⟩

theorem unrelateAll_sub (sch : Schema) (x : Inst) (r p : String) : ∀ (ys : List Inst) (s : State),
    SubLinks (unrelateAll sch x r p ys s).1 s
  | [], s => subLinks_refl s
  | y :: ys, s => by
    rw [unrelateAll]
    by_cases hc : (unrelate sch s x y r p).2 = .ok
    · simp only [hc, ↓reduceIte]
      exact subLinks_trans (unrelateAll_sub sch x r p ys _) (unrelate_sub sch s x y r p)
    · simp only [hc, ↓reduceIte]; exact unrelate_sub sch s x y r p

theorem deleteLinks_sub (sch : Schema) (x : Inst) : ∀ (ls : List (Nat × Bool × String)) (s : State),
    SubLinks (deleteLinks sch x ls s).1 s
  | [], s => subLinks_refl s
  | (i, isSrc, ph) :: rest, s => by
    rw [deleteLinks]
    by_cases hc : (unrelateAll sch x (specAt sch i).rel ph
        (if isSrc then (s.links i).src x else (s.links i).tgt x) s).2 = .ok
    · simp only [hc, ↓reduceIte]
      exact subLinks_trans (deleteLinks_sub sch x rest _) (unrelateAll_sub sch x _ _ _ s)
    · simp only [hc, ↓reduceIte]; exact unrelateAll_sub sch x _ _ _ s

theorem specAt_of_get {sch : Schema} {i : Nat} {a : AssocSpec} (h : sch[i]? = some a) : specAt sch i = a := by
  unfold specAt; simp [List.getD, h]

/-- the single unrelate of the delete loop, forward entry (x on the target side of association i) -/
theorem unrelate_fwd {sch : Schema} {s : State} (hok : SchemaOk sch) (hinv : Inv sch s) {i : Nat} {a : AssocSpec}
    (ha : sch[i]? = some a) {x y : Inst} (hx : s.kindOf x = a.tgtKind) (hy : s.kindOf y = a.srcKind)
    (hm : y ∈ (s.links i).src x) :
    (unrelate sch s x y a.rel a.tgtPhrase).2 = .ok ∧
    ((unrelate sch s x y a.rel a.tgtPhrase).1.links i).src x = ((s.links i).src x).erase y := by
  have hf := (hok i a ha).1
  have hsym := (hinv i).1
  have hx' : x ∈ (s.links i).tgt y := (hsym x y).1 hm
  unfold unrelate
  simp only [hx, hy, hf, orient, unrelateOn, disconnect, hm, ↓reduceIte, hx', upd_same]
  exact ⟨trivial, trivial⟩

/-- … backward entry (x on the source side) -/
theorem unrelate_rev {sch : Schema} {s : State} (hok : SchemaOk sch) (hinv : Inv sch s) {i : Nat} {a : AssocSpec}
    (ha : sch[i]? = some a) {x y : Inst} (hx : s.kindOf x = a.srcKind) (hy : s.kindOf y = a.tgtKind)
    (hm : y ∈ (s.links i).tgt x) :
    (unrelate sch s x y a.rel a.srcPhrase).2 = .ok ∧
    ((unrelate sch s x y a.rel a.srcPhrase).1.links i).tgt x = ((s.links i).tgt x).erase y := by
  have hf := (hok i a ha).2
  have hsym := (hinv i).1
  have hx' : x ∈ (s.links i).src y := (hsym y x).2 hm
  unfold unrelate
  simp only [hx, hy, hf, orient, unrelateOn, disconnect, hx', ↓reduceIte, hm, upd_same]
  exact ⟨trivial, trivial⟩

end Pyx.Meta

namespace Pyx.Meta

theorem unrelateAll_fwd {sch : Schema} (hok : SchemaOk sch) {i : Nat} {a : AssocSpec} (ha : sch[i]? = some a) {x : Inst} :
    ∀ (ys : List Inst) (s : State), Inv sch s → s.kindOf x = a.tgtKind → (∀ y ∈ ys, s.kindOf y = a.srcKind) →
    ys.Nodup → (∀ y ∈ ys, y ∈ (s.links i).src x) →
    (unrelateAll sch x a.rel a.tgtPhrase ys s).2 = .ok ∧
    ∀ y ∈ ys, y ∉ ((unrelateAll sch x a.rel a.tgtPhrase ys s).1.links i).src x
  | [], s, _, _, _, _, _ => ⟨rfl, fun _ h => by simp at h⟩
  | y :: ys, s, hinv, hx, hk, hnd, hm => by
    have hstep := unrelate_fwd hok hinv ha hx (hk y (by simp)) (hm y (by simp))
    have hfr := unrelate_frame sch s x y a.rel a.tgtPhrase
    have hinv1 := unrelate_inv hinv x y a.rel a.tgtPhrase
    have hy_nd : y ∉ ys := (List.nodup_cons.mp hnd).1
    have ih := unrelateAll_fwd hok ha ys (unrelate sch s x y a.rel a.tgtPhrase).1 hinv1
      (by rw [hfr.2.1]; exact hx) (fun y' hy' => by rw [hfr.2.1]; exact hk y' (by simp [hy']))
      (List.nodup_cons.mp hnd).2
      (fun y' hy' => by
        rw [hstep.2]
        have hne : y' ≠ y := fun h => hy_nd (h ▸ hy')
        exact (List.mem_erase_of_ne hne).2 (hm y' (by simp [hy'])))
    rw [unrelateAll]
    simp only [hstep.1, ↓reduceIte]
    refine ⟨ih.1, ?_⟩
    intro y' hy'
    rcases List.mem_cons.mp hy' with rfl | hy'
    · intro hmem
      have hsub := (unrelateAll_sub sch x a.rel a.tgtPhrase ys (unrelate sch s x y' a.rel a.tgtPhrase).1 i x y').1 hmem
      rw [hstep.2] at hsub
      exact ((hinv i).2.1.1 x).mem_erase_iff.1 hsub |>.1 rfl
    · exact ih.2 y' hy'

theorem unrelateAll_rev {sch : Schema} (hok : SchemaOk sch) {i : Nat} {a : AssocSpec} (ha : sch[i]? = some a) {x : Inst} :
    ∀ (ys : List Inst) (s : State), Inv sch s → s.kindOf x = a.srcKind → (∀ y ∈ ys, s.kindOf y = a.tgtKind) →
    ys.Nodup → (∀ y ∈ ys, y ∈ (s.links i).tgt x) →
    (unrelateAll sch x a.rel a.srcPhrase ys s).2 = .ok ∧
    ∀ y ∈ ys, y ∉ ((unrelateAll sch x a.rel a.srcPhrase ys s).1.links i).tgt x
  | [], s, _, _, _, _, _ => ⟨rfl, fun _ h => by simp at h⟩
  | y :: ys, s, hinv, hx, hk, hnd, hm => by
    have hstep := unrelate_rev hok hinv ha hx (hk y (by simp)) (hm y (by simp))
    have hfr := unrelate_frame sch s x y a.rel a.srcPhrase
    have hinv1 := unrelate_inv hinv x y a.rel a.srcPhrase
    have hy_nd : y ∉ ys := (List.nodup_cons.mp hnd).1
    have ih := unrelateAll_rev hok ha ys (unrelate sch s x y a.rel a.srcPhrase).1 hinv1
      (by rw [hfr.2.1]; exact hx) (fun y' hy' => by rw [hfr.2.1]; exact hk y' (by simp [hy']))
      (List.nodup_cons.mp hnd).2
      (fun y' hy' => by
        rw [hstep.2]
        have hne : y' ≠ y := fun h => hy_nd (h ▸ hy')
        exact (List.mem_erase_of_ne hne).2 (hm y' (by simp [hy'])))
    rw [unrelateAll]
    simp only [hstep.1, ↓reduceIte]
    refine ⟨ih.1, ?_⟩
    intro y' hy'
    rcases List.mem_cons.mp hy' with rfl | hy'
    · intro hmem
      have hsub := (unrelateAll_sub sch x a.rel a.srcPhrase ys (unrelate sch s x y' a.rel a.srcPhrase).1 i x y').2 hmem
      rw [hstep.2] at hsub
      exact ((hinv i).2.1.2 x).mem_erase_iff.1 hsub |>.1 rfl
    · exact ih.2 y' hy'

end Pyx.Meta

namespace Pyx.Meta

theorem typed_of_sub {sch : Schema} {s s' : State} (ht : Typed sch s) (hsub : SubLinks s' s) (hk : s'.kindOf = s.kindOf) :
    Typed sch s' := by
  intro i x y hm
  rw [hk]
  exact ht i x y ((hsub i x y).1 hm)

/-- the link entries of class `k` are exactly: for every association whose target class is `k` its
    source_link (phrase = target phrase), for every association whose source class is `k` its target_link -/
theorem mem_linksOfFrom (k : Kind) : ∀ (sch : Schema) (n i : Nat) (b : Bool) (ph : String),
    (i, b, ph) ∈ linksOfFrom k n sch ↔
      ∃ a, sch[i - n]? = some a ∧ n ≤ i ∧
        ((b = true ∧ a.tgtKind = k ∧ ph = a.tgtPhrase) ∨ (b = false ∧ a.srcKind = k ∧ ph = a.srcPhrase))
  | [], n, i, b, ph => by simp [linksOfFrom]
  | a :: rest, n, i, b, ph => by
    rw [linksOfFrom, List.mem_append, List.mem_append, mem_linksOfFrom k rest (n + 1) i b ph]
    constructor
    · rintro ((h | h) | h)
      · split at h
        · rename_i hk
          simp only [List.mem_singleton, Prod.mk.injEq] at h
          obtain ⟨rfl, rfl, rfl⟩ := h
          exact ⟨a, by simp, Nat.le_refl _, Or.inl ⟨rfl, hk, rfl⟩⟩
        · simp at h
      · split at h
        · rename_i hk
          simp only [List.mem_singleton, Prod.mk.injEq] at h
          obtain ⟨rfl, rfl, rfl⟩ := h
          exact ⟨a, by simp, Nat.le_refl _, Or.inr ⟨rfl, hk, rfl⟩⟩
        · simp at h
      · obtain ⟨a', ha', hn, hc⟩ := h
        refine ⟨a', ?_, by omega, hc⟩
        have : i - n = (i - (n + 1)) + 1 := by omega
        rw [this]; simpa using ha'
    · rintro ⟨a', ha', hn, hc⟩
      by_cases hin : i = n
      · subst hin
        simp only [Nat.sub_self, List.getElem?_cons_zero, Option.some.injEq] at ha'
        subst ha'
        rcases hc with ⟨rfl, hk, rfl⟩ | ⟨rfl, hk, rfl⟩
        · exact Or.inl (Or.inl (by simp [hk]))
        · exact Or.inl (Or.inr (by simp [hk]))
      · refine Or.inr ⟨a', ?_, by omega, hc⟩
        have : i - n = (i - (n + 1)) + 1 := by omega
        rw [this] at ha'; simpa using ha'

theorem mem_linksOf {sch : Schema} {k : Kind} {i : Nat} {b : Bool} {ph : String} :
    (i, b, ph) ∈ linksOf sch k ↔
      ∃ a, sch[i]? = some a ∧
        ((b = true ∧ a.tgtKind = k ∧ ph = a.tgtPhrase) ∨ (b = false ∧ a.srcKind = k ∧ ph = a.srcPhrase)) := by
  unfold linksOf
  rw [mem_linksOfFrom]
  simp

/-- the delete loop over link entries: every unrelate succeeds and afterwards the deleted instance has
    no partner on any processed entry -/
theorem deleteLinks_clears {sch : Schema} (hok : SchemaOk sch) (x : Inst) :
    ∀ (ls : List (Nat × Bool × String)) (s : State), Inv sch s → Typed sch s →
    (∀ e ∈ ls, ∃ a, sch[e.1]? = some a ∧
      ((e.2.1 = true ∧ a.tgtKind = s.kindOf x ∧ e.2.2 = a.tgtPhrase) ∨
       (e.2.1 = false ∧ a.srcKind = s.kindOf x ∧ e.2.2 = a.srcPhrase))) →
    (deleteLinks sch x ls s).2 = .ok ∧
    ∀ e ∈ ls, (e.2.1 = true → ((deleteLinks sch x ls s).1.links e.1).src x = []) ∧
              (e.2.1 = false → ((deleteLinks sch x ls s).1.links e.1).tgt x = [])
  | [], s, _, _, _ => ⟨rfl, fun _ h => by simp at h⟩
  | (i, b, ph) :: rest, s, hinv, ht, hls => by
    obtain ⟨a, ha, hc⟩ := hls (i, b, ph) (by simp)
    have hrel : (specAt sch i).rel = a.rel := by rw [specAt_of_get ha]
    -- the inner loop on this entry
    have hinner : (unrelateAll sch x (specAt sch i).rel ph
          (if b then (s.links i).src x else (s.links i).tgt x) s).2 = .ok ∧
        (b = true → ((unrelateAll sch x (specAt sch i).rel ph
          (if b then (s.links i).src x else (s.links i).tgt x) s).1.links i).src x = []) ∧
        (b = false → ((unrelateAll sch x (specAt sch i).rel ph
          (if b then (s.links i).src x else (s.links i).tgt x) s).1.links i).tgt x = []) := by
      rcases hc with ⟨hb, hk, hph⟩ | ⟨hb, hk, hph⟩
      · simp only at hb hk hph
        subst hb; subst hph
        rw [hrel]
        have h := unrelateAll_fwd hok ha ((s.links i).src x) s hinv hk.symm
          (fun y hy => by
            obtain ⟨a', ha', _, hy'⟩ := ht i x y hy
            rw [ha] at ha'; cases ha'; exact hy')
          ((hinv i).2.1.1 x) (fun y hy => hy)
        refine ⟨h.1, fun _ => ?_, fun hf => by cases hf⟩
        apply List.eq_nil_iff_forall_not_mem.mpr
        intro y hy
        exact h.2 y ((unrelateAll_sub sch x a.rel a.tgtPhrase _ s i x y).1 hy) hy
      · simp only at hb hk hph
        subst hb; subst hph
        rw [hrel]
        have h := unrelateAll_rev hok ha ((s.links i).tgt x) s hinv hk.symm
          (fun y hy => by
            have hx' : x ∈ (s.links i).src y := ((hinv i).1 y x).2 hy
            obtain ⟨a', ha', hy', _⟩ := ht i y x hx'
            rw [ha] at ha'; cases ha'; exact hy')
          ((hinv i).2.1.2 x) (fun y hy => hy)
        refine ⟨h.1, (fun hf => by cases hf), fun _ => ?_⟩
        apply List.eq_nil_iff_forall_not_mem.mpr
        intro y hy
        exact h.2 y ((unrelateAll_sub sch x a.rel a.srcPhrase _ s i x y).2 hy) hy
    have hs1_inv := unrelateAll_inv (sch := sch) x (specAt sch i).rel ph
      (if b then (s.links i).src x else (s.links i).tgt x) s hinv
    have hs1_fr := unrelateAll_frame sch x (specAt sch i).rel ph
      (if b then (s.links i).src x else (s.links i).tgt x) s
    have hs1_sub := unrelateAll_sub sch x (specAt sch i).rel ph
      (if b then (s.links i).src x else (s.links i).tgt x) s
    have hs1_t := typed_of_sub ht hs1_sub hs1_fr.2.1
    have ih := deleteLinks_clears hok x rest _ hs1_inv hs1_t (by
      intro e he
      rw [hs1_fr.2.1]
      exact hls e (by simp [he]))
    rw [deleteLinks]
    simp only [hinner.1, ↓reduceIte]
    refine ⟨ih.1, ?_⟩
    intro e he
    rcases List.mem_cons.mp he with rfl | he
    · have hsub := deleteLinks_sub sch x rest (unrelateAll sch x (specAt sch i).rel ph
        (if b then (s.links i).src x else (s.links i).tgt x) s).1
      refine ⟨fun hb => ?_, fun hb => ?_⟩
      · apply List.eq_nil_iff_forall_not_mem.mpr
        intro y hy
        have := (hsub i x y).1 hy
        rw [hinner.2.1 hb] at this; simp at this
      · apply List.eq_nil_iff_forall_not_mem.mpr
        intro y hy
        have := (hsub i x y).2 hy
        rw [hinner.2.2 hb] at this; simp at this
    · exact ih.2 e he

end Pyx.Meta

namespace Pyx.Meta

/-- an accepted delete succeeds (no UnrelateException from the loop) and leaves no link to or from the
    deleted instance; every other instance keeps its liveness -/
theorem delete_liveOnly {sch : Schema} (hok : SchemaOk sch) {s : State} (hinv : Inv sch s) (ht : Typed sch s)
    (hl : LiveOnly s) (hp : PoolInv s) {x : Inst} (hx : live s x) :
    (delete sch s x).2 = .ok ∧ LiveOnly (delete sch s x).1 := by
  have hc : x ∈ s.pool (s.kindOf x) ∧ x < s.count := ⟨hx.2, hx.1⟩
  -- the state after the pool removal: same links, same kinds
  let s1 : State := { s with pool := upd s.pool (s.kindOf x) ((s.pool (s.kindOf x)).erase x) }
  have hinv1 : Inv sch s1 := fun i => hinv i
  have ht1 : Typed sch s1 := fun i a b h => ht i a b h
  have hcl := deleteLinks_clears hok x (linksOf sch (s.kindOf x)) s1 hinv1 ht1 (by
    intro e he
    obtain ⟨i, b, ph⟩ := e
    obtain ⟨a, ha, hc'⟩ := mem_linksOf.mp he
    exact ⟨a, ha, hc'⟩)
  have hfr := deleteLinks_frame sch x (linksOf sch (s.kindOf x)) s1
  have hsub := deleteLinks_sub sch x (linksOf sch (s.kindOf x)) s1
  have hinvF := deleteLinks_inv (sch := sch) x (linksOf sch (s.kindOf x)) s1 hinv1
  have hdel : delete sch s x = deleteLinks sch x (linksOf sch (s.kindOf x)) s1 := by
    unfold delete; simp only [hc, and_self, ↓reduceIte]; rfl
  rw [hdel]
  refine ⟨hcl.1, ?_⟩
  intro j z w hm
  have hm0 : w ∈ (s.links j).src z := (hsub j z w).1 hm
  obtain ⟨a, ha, hkz, hkw⟩ := ht j z w hm0
  have hz : z ≠ x := by
    intro hzx; subst hzx
    have he : (j, true, a.tgtPhrase) ∈ linksOf sch (s.kindOf z) := mem_linksOf.mpr ⟨a, ha, Or.inl ⟨rfl, hkz.symm, rfl⟩⟩
    have := (hcl.2 _ he).1 rfl
    simp only at this
    rw [this] at hm; simp at hm
  have hw : w ≠ x := by
    intro hwx; subst hwx
    have he : (j, false, a.srcPhrase) ∈ linksOf sch (s.kindOf w) := mem_linksOf.mpr ⟨a, ha, Or.inr ⟨rfl, hkw.symm, rfl⟩⟩
    have hem := (hcl.2 _ he).2 rfl
    simp only at hem
    have : z ∈ ((deleteLinks sch w (linksOf sch (s.kindOf w)) s1).1.links j).tgt w := ((hinvF j).1 z w).1 hm
    rw [hem] at this; simp at this
  have hlive : ∀ u, live s u → u ≠ x → live (deleteLinks sch x (linksOf sch (s.kindOf x)) s1).1 u := by
    intro u hu hne
    unfold live
    rw [hfr.1, hfr.2.1, hfr.2.2.1]
    refine ⟨hu.1, ?_⟩
    show u ∈ upd s.pool (s.kindOf x) ((s.pool (s.kindOf x)).erase x) (s.kindOf u)
    by_cases hk : s.kindOf u = s.kindOf x
    · rw [hk]; simp only [upd_same]
      exact (List.mem_erase_of_ne hne).2 (hk ▸ hu.2)
    · simp only [upd, hk, ↓reduceIte]; exact hu.2
  have := hl j z w hm0
  exact ⟨hlive z this.1 hz, hlive w this.2 hw⟩

/-! `Typed` is an invariant of every operation applied to live instances -/

theorem typed_init (sch : Schema) : Typed sch init := fun i x y h => by simp [init, emptyLinks] at h

theorem relate_typed {sch : Schema} {s : State} (ht : Typed sch s) (x y : Inst) (r p : String) :
    Typed sch (relate sch s x y r p).1 := by
  by_cases hlv : live s x ∧ live s y
  case neg => rw [(relate_not_live_fst hlv r p).1]; exact ht
  have hf := relate_frame sch s x y r p
  intro j z w hm
  rw [hf.2.1]
  rw [relate_of_live hlv.1 hlv.2] at hm
  unfold relateCore at hm
  split at hm
  · exact ht j z w hm
  · rename_i i d hfl
    simp only at hm
    by_cases hj : j = i
    · subst hj
      simp only [upd_same] at hm
      -- whatever relateOn returned, its source map holds old pairs or the oriented new pair
      have hcases : w ∈ (s.links j).src z ∨ (z = (orient d x y).1 ∧ w = (orient d x y).2) := by
        unfold relateOn at hm
        split at hm
        · exact Or.inl hm
        · rename_i s' hs
          split at hm
          · split at hm
            · rename_i s'' hd
              exact (connect_mem hs z w).1 (disconnect_sub hd z w hm)
            · exact (connect_mem hs z w).1 hm
          · exact (connect_mem hs z w).1 hm
      rcases hcases with h | ⟨hz, hw⟩
      · exact ht j z w h
      · obtain ⟨a, ha, _, _, hfw, hrv⟩ := findLinkFrom_sound sch 0 j d hfl
        refine ⟨a, by simpa using ha, ?_⟩
        subst hz hw
        cases d with
        | fwd => have := hfw rfl; simp only [orient]; exact ⟨this.1.symm, this.2.1.symm⟩
        | rev => have := hrv rfl; simp only [orient]; exact ⟨this.2.1.symm, this.1.symm⟩
    · simp only [upd, hj, ↓reduceIte] at hm; exact ht j z w hm

theorem unrelate_typed {sch : Schema} {s : State} (ht : Typed sch s) (x y : Inst) (r p : String) :
    Typed sch (unrelate sch s x y r p).1 :=
  typed_of_sub ht (unrelate_sub sch s x y r p) (unrelate_frame sch s x y r p).2.1

theorem delete_typed {sch : Schema} {s : State} (ht : Typed sch s) (x : Inst) : Typed sch (delete sch s x).1 := by
  unfold delete
  split
  · exact typed_of_sub (s := { s with pool := upd s.pool (s.kindOf x) ((s.pool (s.kindOf x)).erase x) })
      (fun i a b h => ht i a b h) (deleteLinks_sub sch x _ _) (deleteLinks_frame sch x _ _).2.1
  · exact ht

theorem new_typed {sch : Schema} {s : State} (ht : Typed sch s) (hl : LiveOnly s) (k : Kind) (hid : Bool) :
    Typed sch (new s k hid).1 := by
  intro i x y hm
  have hm0 : y ∈ (s.links i).src x := by simpa [new] using hm
  obtain ⟨a, ha, h1, h2⟩ := ht i x y hm0
  have hlx := (hl i x y hm0)
  have hx : x ≠ s.count := Nat.ne_of_lt hlx.1.1
  have hy : y ≠ s.count := Nat.ne_of_lt hlx.2.1
  exact ⟨a, ha, by simp [new, upd, hx, h1], by simp [new, upd, hy, h2]⟩

end Pyx.Meta

namespace Pyx.Meta

/-- FORMER domain of the statements (relate applied to live instances only).  Since `relate` itself rejects an instance
    that is not in its pool, the invariants hold for EVERY history (`step_allInv'`, `run_allInv_any`); `OpOk` / `Dom`
    remain for the statements that still name them. -/
def OpOk (s : State) : Op → Prop
  | .relate x y _ _ => live s x ∧ live s y
  | _ => True

def Dom (sch : Schema) : State → List Op → Prop
  | _, [] => True
  | s, op :: ops => OpOk s op ∧ Dom sch (step sch s op).1 ops

structure AllInv (sch : Schema) (s : State) : Prop where
  inv : Inv sch s
  typed : Typed sch s
  liveOnly : LiveOnly s
  pool : PoolInv s

theorem allInv_init (sch : Schema) : AllInv sch init :=
  ⟨inv_init sch, typed_init sch, liveOnly_init, poolInv_init⟩

/-- every operation, applied to ANY arguments, keeps all invariants -/
theorem step_allInv' {sch : Schema} (hok : SchemaOk sch) {s : State} (h : AllInv sch s) (op : Op) :
    AllInv sch (step sch s op).1 := by
  refine ⟨step_inv h.inv op, ?_, ?_, step_poolInv h.pool op⟩
  · cases op with
    | new k hid => exact new_typed h.typed h.liveOnly k hid
    | relate x y r p => exact relate_typed h.typed x y r p
    | unrelate x y r p => exact unrelate_typed h.typed x y r p
    | delete x => exact delete_typed h.typed x
  · cases op with
    | new k hid => exact new_liveOnly h.pool h.liveOnly k hid
    | relate x y r p => exact relate_liveOnly h.liveOnly
    | unrelate x y r p => exact unrelate_liveOnly h.liveOnly x y r p
    | delete x =>
      by_cases hx : live s x
      · exact (delete_liveOnly hok h.inv h.typed h.liveOnly h.pool hx).2
      · simp only [step]; rw [delete_dead_rejected sch s x hx]; exact h.liveOnly

theorem step_allInv {sch : Schema} (hok : SchemaOk sch) {s : State} (h : AllInv sch s) (op : Op) (_hop : OpOk s op) :
    AllInv sch (step sch s op).1 := step_allInv' hok h op

/-- every history keeps all invariants -/
theorem run_allInv_any {sch : Schema} (hok : SchemaOk sch) : ∀ (ops : List Op) (s : State), AllInv sch s →
    AllInv sch (ops.foldl (fun s op => (step sch s op).1) s)
  | [], s, h => h
  | op :: ops, s, h => run_allInv_any hok ops _ (step_allInv' hok h op)

theorem run_allInv_from {sch : Schema} (hok : SchemaOk sch) : ∀ (ops : List Op) (s : State), AllInv sch s → Dom sch s ops →
    AllInv sch (ops.foldl (fun s op => (step sch s op).1) s)
  | [], s, h, _ => h
  | op :: ops, s, h, hd => run_allInv_from hok ops _ (step_allInv hok h op hd.1) hd.2

end Pyx.Meta
