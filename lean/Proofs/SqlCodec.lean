import Proofs.SqlStep
import PyxModel.Sql.Value

set_option linter.unusedSimpArgs false

/-! value codecs: what `serialize_value` prints is lexed as one value and `deserialize_value` reads it back -/
namespace Pyx.Sql
open Gen.SqlLex (Rule Kw)
open Gen.Persist (Ty)

/-! ### the type table -/

theorem tyOfName_chars (u : UC) (t : Ty) : tyOfName u t.chars = some t := by
  cases t <;> simp [tyOfName, Ty.all, Ty.chars, UC.upper, UC.up, asciiUpper, isAsciiLower] <;> decide

/-! ### strings -/

theorem unescapeQ_cons_ne (c : Char) (t : Text) (h : c ≠ '\'') : unescapeQ (c :: t) = c :: unescapeQ t := by
  cases t with
  | nil => simp [unescapeQ]
  | cons d r => simp [unescapeQ, h]

theorem unescapeQ_escapeQ (s : Text) : unescapeQ (escapeQ s) = s := by
  induction s with
  | nil => simp [escapeQ, unescapeQ]
  | cons c s ih =>
    have hcons : escapeQ (c :: s) = (if c = '\'' then ['\'', '\''] else [c]) ++ escapeQ s := by
      simp [escapeQ, List.flatMap_cons]
    rw [hcons]
    by_cases hc : c = '\''
    · subst hc; simp only [if_true, List.cons_append, List.nil_append]
      rw [unescapeQ]; simp [ih]
    · simp only [hc, if_false, List.cons_append, List.nil_append]
      rw [unescapeQ_cons_ne c _ hc, ih]

theorem stripEnds_quoted (q : Char) (body : Text) : stripEnds (q :: (body ++ [q])) = body := by
  simp [stripEnds]

theorem deserialize_string (u : UC) (ty : Text) (hty : tyOfName u ty = some .STRING) (s : Text) :
    deserialize u ty (strText s) = some (.str s) := by
  simp only [deserialize, hty, strText, stripEnds_quoted, unescapeQ_escapeQ]

/-! ### integers -/

theorem isDigitText_natText (n : Nat) : isDigitText (natText n) = true := by
  simp only [isDigitText, Bool.and_eq_true, Bool.not_eq_true', List.all_eq_true]
  exact ⟨by cases h : natText n with
    | nil => exact absurd h (natText_ne_nil n)
    | cons _ _ => rfl, natText_all_digit n⟩

theorem natText_cons (n : Nat) : ∃ d ds, natText n = d :: ds := by
  cases h : natText n with
  | nil => exact absurd h (natText_ne_nil n)
  | cons d ds => exact ⟨d, ds, rfl⟩

theorem natText_head_ne_dash (n : Nat) : ∀ c, (natText n).head? = some c → c ≠ '-' := by
  intro c hc
  obtain ⟨d, ds, h⟩ := natText_cons n
  rw [h] at hc; simp at hc; subst hc
  exact ne_of_isAsciiDigit (natText_all_digit n d (by rw [h]; simp)) (by decide)

theorem pyInt_natText (n : Nat) : pyInt (natText n) = some (Int.ofNat n) := by
  obtain ⟨d, ds, h⟩ := natText_cons n
  have hd : d ≠ '-' := natText_head_ne_dash n d (by rw [h]; rfl)
  have h1 := isDigitText_natText n
  have h2 := natOfText_natText n
  rw [h] at h1 h2 ⊢
  unfold pyInt
  split
  · rename_i heq; simp at heq; exact absurd heq.1 hd
  · simp [h1, h2]

theorem pyInt_neg_natText (n : Nat) : pyInt ('-' :: natText n) = some (- Int.ofNat n) := by
  simp [pyInt, isDigitText_natText, natOfText_natText]

theorem natText_not_mem_dquote (n : Nat) : '"' ∉ natText n := by
  intro hc
  exact ne_of_isAsciiDigit (natText_all_digit n _ hc) (x := '"') (by decide) rfl

theorem intText_no_dquote (z : Int) : (intText z).contains '"' = false := by
  cases z with
  | ofNat n => simpa [intText] using natText_not_mem_dquote n
  | negSucc n => simpa [intText] using natText_not_mem_dquote (n + 1)

theorem deserialize_integer (u : UC) (ty : Text) (hty : tyOfName u ty = some .INTEGER) (z : Int) :
    deserialize u ty (intText z) = some (.int z) := by
  simp only [deserialize, hty, intText_no_dquote z]
  cases z with
  | ofNat n => simp [intText, pyInt_natText]
  | negSucc n => simp [intText, pyInt_neg_natText, Int.negSucc_eq]

/-- the tokens of a printed integer -/
def intToks (z : Int) : List Tok :=
  match z with
  | .ofNat n => [⟨.NUMBER, natText n⟩]
  | .negSucc n => [⟨.MINUS, ['-']⟩, ⟨.NUMBER, natText (n + 1)⟩]

theorem lex_natText (u : UC) (n : Nat) (rest : Text) (hr : NumFollow u rest) :
    lex u (natText n ++ rest) = (lex u rest).map (fun ts => ⟨.NUMBER, natText n⟩ :: ts) := by
  obtain ⟨d, ds, h⟩ := natText_cons n
  have hd : ∀ c ∈ d :: ds, isAsciiDigit c = true := by rw [← h]; exact natText_all_digit n
  rw [h]
  exact lex_of_emit u _ _ _ (step_number u d ds rest hd hr)

theorem lex_intText (u : UC) (z : Int) (rest : Text) (hr : NumFollow u rest) :
    lex u (intText z ++ rest) = (lex u rest).map (fun ts => intToks z ++ ts) := by
  cases z with
  | ofNat n => simpa [intText, intToks] using lex_natText u n rest hr
  | negSucc n =>
    have hhead : ∀ c, (natText (n + 1) ++ rest).head? = some c → c ≠ '-' := by
      intro c hc
      obtain ⟨d, ds, h⟩ := natText_cons (n + 1)
      rw [h] at hc; simp at hc; subst hc
      exact ne_of_isAsciiDigit (natText_all_digit (n + 1) d (by rw [h]; simp)) (by decide)
    simp only [intText, intToks, List.cons_append]
    rw [lex_of_emit u _ _ _ (step_minus u _ hhead), lex_natText u (n + 1) rest hr]
    cases lex u rest <;> simp

theorem valueAt_intToks (z : Int) (ts : List Tok) : valueAt (intToks z ++ ts) = some (intText z, ts) := by
  cases z with
  | ofNat n => simp [intToks, valueAt, isPlainValueTok, intText]
  | negSucc n => simp [intToks, valueAt, isPlainValueTok, isNumTok, intText]

/-! ### unique ids -/

/-- the 32 hexadecimal digits of an id -/
def hex32 (n : Nat) : Text := (fixedDigits 16 32 n).map hexChar

theorem hex32_length (n : Nat) : (hex32 n).length = 32 := by simp [hex32, fixedDigits_length]

theorem hex32_mem (n : Nat) (c : Char) (h : c ∈ hex32 n) : ∃ d, c = hexChar d := by
  simp only [hex32, List.mem_map] at h
  obtain ⟨d, _, rfl⟩ := h; exact ⟨d, rfl⟩

theorem guidBody_eq (n : Nat) :
    guidBody n = (hex32 n).take 8 ++ '-' :: (((hex32 n).drop 8).take 4 ++ '-' :: (((hex32 n).drop 12).take 4 ++
      '-' :: (((hex32 n).drop 16).take 4 ++ '-' :: (hex32 n).drop 20))) := rfl

/-- every character of the printed id is a hex digit or a dash -/
theorem guidBody_mem (n : Nat) (c : Char) (h : c ∈ guidBody n) : c = '-' ∨ ∃ d, c = hexChar d := by
  rw [guidBody_eq] at h
  simp only [List.mem_append, List.mem_cons] at h
  have sub : ∀ l : Text, (∀ x ∈ l, x ∈ hex32 n) → c ∈ l → c = '-' ∨ ∃ d, c = hexChar d :=
    fun l hl hc => Or.inr (hex32_mem n c (hl c hc))
  rcases h with h | h | h | h | h | h | h | h | h
  · exact sub _ (fun x hx => List.mem_of_mem_take hx) h
  · exact Or.inl h
  · exact sub _ (fun x hx => List.mem_of_mem_drop (List.mem_of_mem_take hx)) h
  · exact Or.inl h
  · exact sub _ (fun x hx => List.mem_of_mem_drop (List.mem_of_mem_take hx)) h
  · exact Or.inl h
  · exact sub _ (fun x hx => List.mem_of_mem_drop (List.mem_of_mem_take hx)) h
  · exact Or.inl h
  · exact sub _ (fun x hx => List.mem_of_mem_drop hx) h

theorem guidBody_plain (n : Nat) : ∀ c ∈ guidBody n, c ≠ '"' ∧ c ≠ '\n' ∧ c ≠ '\\' := by
  intro c hc
  rcases guidBody_mem n c hc with h | ⟨d, h⟩
  · subst h; decide
  · subst h; exact ⟨hexChar_ne_dquote d, hexChar_ne_newline d, hexChar_ne_backslash d⟩

/-- a printed id is ONE GUID token -/
theorem step_guidText (u : UC) (n : Nat) (rest : Text) :
    step u (guidText n ++ rest) = .emit ⟨.GUID, guidText n⟩ rest := by
  have := step_guid_plain u (guidBody n) rest (guidBody_plain n)
  simpa [guidText] using this

theorem filter_dash_of_hex (l : Text) (h : ∀ c ∈ l, ∃ d, c = hexChar d) : l.filter (fun c => c != '-') = l := by
  rw [List.filter_eq_self]
  intro c hc
  obtain ⟨d, rfl⟩ := h c hc
  simp [hexChar_ne_dash d]

theorem take_drop_chain (l : Text) :
    l.take 8 ++ ((l.drop 8).take 4 ++ ((l.drop 12).take 4 ++ ((l.drop 16).take 4 ++ l.drop 20))) = l := by
  have e1 : (l.drop 16).take 4 ++ l.drop 20 = l.drop 16 := by
    have := List.take_append_drop 4 (l.drop 16); rwa [List.drop_drop] at this
  have e2 : (l.drop 12).take 4 ++ l.drop 16 = l.drop 12 := by
    have := List.take_append_drop 4 (l.drop 12); rwa [List.drop_drop] at this
  have e3 : (l.drop 8).take 4 ++ l.drop 12 = l.drop 8 := by
    have := List.take_append_drop 4 (l.drop 8); rwa [List.drop_drop] at this
  rw [e1, e2, e3, List.take_append_drop]

theorem filter_dash_guidBody (n : Nat) : (guidBody n).filter (fun c => c != '-') = hex32 n := by
  have hx : ∀ l : Text, (∀ x ∈ l, x ∈ hex32 n) → l.filter (fun c => c != '-') = l :=
    fun l hl => filter_dash_of_hex l (fun c hc => hex32_mem n c (hl c hc))
  rw [guidBody_eq]
  simp only [List.filter_append, List.filter_cons]
  rw [hx _ (fun x hx => List.mem_of_mem_take hx), hx _ (fun x hx => List.mem_of_mem_drop (List.mem_of_mem_take hx)),
    hx _ (fun x hx => List.mem_of_mem_drop (List.mem_of_mem_take hx)),
    hx _ (fun x hx => List.mem_of_mem_drop (List.mem_of_mem_take hx)), hx _ (fun x hx => List.mem_of_mem_drop hx)]
  simp only [show ('-' != '-') = false by decide, Bool.false_eq_true, if_false]
  exact take_drop_chain (hex32 n)

theorem stripPrefix_none_of_head (p : Char) (ps : Text) (c : Char) (cs : Text) (h : p ≠ c) :
    stripPrefix? (p :: ps) (c :: cs) = none := by
  simp [stripPrefix?, h]

theorem replaceAllF_of_not_mem (p : Char) (ps rep : Text) : ∀ (f : Nat) (s : Text), p ∉ s → s.length ≤ f →
    replaceAllF (p :: ps) rep f s = s := by
  intro f
  induction f with
  | zero => intro s _ hl; cases s with
    | nil => rfl
    | cons c cs => simp at hl
  | succ f ih =>
    intro s hp hl
    cases s with
    | nil => rfl
    | cons c cs =>
      have hpc : p ≠ c := fun e => hp (by simp [e])
      simp only [replaceAllF, stripPrefix_none_of_head p ps c cs hpc]
      rw [ih cs (fun hm => hp (by simp [hm])) (by simp at hl; omega)]

theorem replaceAll_of_not_mem (p : Char) (ps rep s : Text) (h : p ∉ s) : replaceAll (p :: ps) rep s = s := by
  simp only [replaceAll, List.isEmpty_cons, Bool.false_eq_true, if_false]
  exact replaceAllF_of_not_mem p ps rep _ s h (Nat.le_refl _)

theorem dropWhile_of_all_false {α : Type} (p : α → Bool) (l : List α) (h : ∀ x ∈ l, p x = false) : l.dropWhile p = l := by
  cases l with
  | nil => rfl
  | cons x xs => simp [List.dropWhile_cons, h x (by simp)]

theorem stripChars_of_all_false (p : Char → Bool) (l : Text) (h : ∀ x ∈ l, p x = false) : stripChars p l = l := by
  unfold stripChars
  rw [dropWhile_of_all_false p l h, dropWhile_of_all_false p l.reverse (fun x hx => h x (by simpa using hx)), List.reverse_reverse]

theorem guidBody_no_u (n : Nat) : 'u' ∉ guidBody n := by
  intro h
  rcases guidBody_mem n _ h with h | ⟨d, h⟩
  · exact absurd h (by decide)
  · exact hexChar_ne_u d h.symm

theorem hexOfText_hex32 (n : Nat) (h : n < 2 ^ 128) : hexOfText (hex32 n) = n := by
  have hmap : ((fixedDigits 16 32 n).map hexChar).map hexVal = fixedDigits 16 32 n := by
    have hlt := fixedDigits_lt 16 (by decide) 32 n
    generalize fixedDigits 16 32 n = ds at hlt
    induction ds with
    | nil => rfl
    | cons d ds ih =>
      simp only [List.map_cons]
      rw [hexVal_hexChar (hlt d (by simp)), ih (fun x hx => hlt x (by simp [hx]))]
  rw [hexOfText, hex32, hmap]
  exact ofDigitsB_fixedDigits 16 (by decide) 32 n (by
    have : (16 : Nat) ^ 32 = 2 ^ 128 := by decide
    omega)

/-- `uuid.UUID(text).int` of a printed id -/
theorem uuidParse_guidBody (n : Nat) (h : n < 2 ^ 128) : uuidParse (guidBody n) = some n := by
  unfold uuidParse
  rw [replaceAll_of_not_mem 'u' _ _ _ (guidBody_no_u n), replaceAll_of_not_mem 'u' _ _ _ (guidBody_no_u n)]
  have hs : stripChars (fun c => c = '{' || c = '}') (guidBody n) = guidBody n :=
    stripChars_of_all_false _ _ (by
      intro x hx
      rcases guidBody_mem n x hx with h | ⟨d, h⟩
      · subst h; decide
      · subst h; simpa using hexChar_not_brace d)
  have hall : (hex32 n).all isAsciiHex = true := by
    rw [List.all_eq_true]; intro c hc; obtain ⟨d, rfl⟩ := hex32_mem n c hc; exact hexChar_isAsciiHex d
  simp only [hs, filter_dash_guidBody, hex32_length, true_and, hall, if_true, hexOfText_hex32 n h]

theorem guidText_contains_dquote (n : Nat) : (guidText n).contains '"' = true := by
  simp [guidText]

theorem deserialize_unique_id (u : UC) (ty : Text) (hty : tyOfName u ty = some .UNIQUE_ID) (n : Nat) (h : n < 2 ^ 128) :
    deserialize u ty (guidText n) = some (.id n) := by
  simp only [deserialize, hty, guidText_contains_dquote, if_true]
  rw [show stripEnds (guidText n) = guidBody n from stripEnds_quoted '"' (guidBody n), uuidParse_guidBody n h]; rfl

/-! ### booleans -/

theorem deserialize_boolean (u : UC) (ty : Text) (hty : tyOfName u ty = some .BOOLEAN) (b : Bool) :
    deserialize u ty (natText (if b then 1 else 0)) = some (.bool b) := by
  simp only [deserialize, hty, isDigitText_natText, if_true, natOfText_natText]
  cases b <;> simp

/-! ### reals: sign, digits, `.`, six digits -/

/-- the six fraction digits of a printed real -/
def fracText (micro : Nat) : Text := (fixedDigits 10 6 (micro % 1000000)).map digitChar

theorem fracText_length (micro : Nat) : (fracText micro).length = 6 := by simp [fracText, fixedDigits_length]

theorem fracText_all_digit (micro : Nat) : ∀ c ∈ fracText micro, isAsciiDigit c = true := by
  intro c hc
  simp only [fracText, List.mem_map] at hc
  obtain ⟨d, _, rfl⟩ := hc; exact digitChar_isAsciiDigit d

theorem fracText_cons (micro : Nat) : ∃ e es, fracText micro = e :: es := by
  cases h : fracText micro with
  | nil => have := fracText_length micro; rw [h] at this; simp at this
  | cons e es => exact ⟨e, es, rfl⟩

theorem realText_eq (neg : Bool) (micro : Nat) :
    realText neg micro = (if neg then ['-'] else []) ++ (natText (micro / 1000000) ++ '.' :: fracText micro) := by
  simp [realText, fracText]

/-- the tokens of a printed real -/
def realToks (neg : Bool) (micro : Nat) : List Tok :=
  if neg then [⟨.MINUS, ['-']⟩, ⟨.FRACTION, natText (micro / 1000000) ++ '.' :: fracText micro⟩]
  else [⟨.FRACTION, natText (micro / 1000000) ++ '.' :: fracText micro⟩]

theorem lex_unsignedReal (u : UC) (micro : Nat) (rest : Text) (hr : ∀ c, rest.head? = some c → u.isDigit c = false) :
    lex u ((natText (micro / 1000000) ++ '.' :: fracText micro) ++ rest) =
      (lex u rest).map (fun ts => ⟨.FRACTION, natText (micro / 1000000) ++ '.' :: fracText micro⟩ :: ts) := by
  obtain ⟨d, ds, h⟩ := natText_cons (micro / 1000000)
  obtain ⟨e, es, h'⟩ := fracText_cons micro
  have hd : ∀ c ∈ d :: ds, isAsciiDigit c = true := by rw [← h]; exact natText_all_digit _
  have he : ∀ c ∈ e :: es, isAsciiDigit c = true := by rw [← h']; exact fracText_all_digit micro
  have := lex_of_emit u _ _ _ (step_fraction u d ds e es rest hd he hr)
  rw [h, h']
  simpa using this

theorem lex_realText (u : UC) (neg : Bool) (micro : Nat) (rest : Text)
    (hr : ∀ c, rest.head? = some c → u.isDigit c = false) :
    lex u (realText neg micro ++ rest) = (lex u rest).map (fun ts => realToks neg micro ++ ts) := by
  rw [realText_eq]
  cases neg with
  | false => simpa [realToks] using lex_unsignedReal u micro rest hr
  | true =>
    have hhead : ∀ c, ((natText (micro / 1000000) ++ '.' :: fracText micro) ++ rest).head? = some c → c ≠ '-' := by
      intro c hc
      obtain ⟨d, ds, h⟩ := natText_cons (micro / 1000000)
      rw [h] at hc; simp at hc; subst hc
      exact ne_of_isAsciiDigit (natText_all_digit _ d (by rw [h]; simp)) (by decide)
    simp only [if_true, realToks, List.cons_append, List.nil_append]
    rw [lex_of_emit u _ _ _ (step_minus u _ hhead), lex_unsignedReal u micro rest hr]
    cases lex u rest <;> simp

theorem valueAt_realToks (neg : Bool) (micro : Nat) (ts : List Tok) :
    valueAt (realToks neg micro ++ ts) = some (realText neg micro, ts) := by
  rw [realText_eq]
  cases neg <;> simp [realToks, valueAt, isPlainValueTok, isNumTok]

theorem frac6_fixed (r : Nat) (h : r < 1000000) : frac6 (((fixedDigits 10 6 r).map digitChar).map digitVal) = r := by
  rw [map_digitVal_map_digitChar _ (fixedDigits_lt 10 (by decide) 6 r)]
  unfold frac6
  have hl := fixedDigits_length 10 6 r
  rw [List.take_append_of_le_length (by omega), List.take_of_length_le (by omega)]
  exact ofDigitsB_fixedDigits 10 (by decide) 6 r (by simpa using h)

theorem dval_ascii (u : UC) (c : Char) (h : isAsciiDigit c = true) : u.dval c = digitVal c := by
  simp [UC.dval, isAsciiDigit_lt_128 h]

theorem map_dval_ascii (u : UC) (t : Text) (h : ∀ c ∈ t, isAsciiDigit c = true) : t.map u.dval = t.map digitVal :=
  List.map_congr_left (fun c hc => dval_ascii u c (h c hc))

theorem natOf_ascii (u : UC) (t : Text) (h : ∀ c ∈ t, isAsciiDigit c = true) : u.natOf t = natOfText t := by
  simp only [UC.natOf, natOfText, map_dval_ascii u t h]

theorem parseReal_unsigned (u : UC) (neg : Bool) (micro : Nat) :
    (let body := natText (micro / 1000000) ++ '.' :: fracText micro
     let d1 := body.takeWhile u.isDigit
     if d1.isEmpty then none else
     match body.dropWhile u.isDigit with
     | [] => some (Val.real neg (u.natOf d1 * 1000000))
     | '.' :: r =>
       let d2 := r.takeWhile u.isDigit
       if d2.isEmpty then none
       else if (r.dropWhile u.isDigit).isEmpty then some (.real neg (u.natOf d1 * 1000000 + frac6 (d2.map u.dval)))
       else none
     | _ => none) = some (.real neg micro) := by
  have hdot : ∀ c, ('.' :: fracText micro).head? = some c → u.isDigit c = false := by
    intro c hc; simp at hc; subst hc; simp [UC.isDigit, isAsciiDigit]
  obtain ⟨t1, t2⟩ := takeWhile_digits_run u (natText (micro / 1000000)) ('.' :: fracText micro) (natText_all_digit _) hdot
  have s1 : (fracText micro).takeWhile u.isDigit = fracText micro := by
    have := (takeWhile_digits_run u (fracText micro) [] (fracText_all_digit micro) (by simp)).1; simpa using this
  have s2 : (fracText micro).dropWhile u.isDigit = [] := by
    have := (takeWhile_digits_run u (fracText micro) [] (fracText_all_digit micro) (by simp)).2; simpa using this
  obtain ⟨d, ds, h⟩ := natText_cons (micro / 1000000)
  obtain ⟨e, es, h'⟩ := fracText_cons micro
  simp only [t1, t2, s1, s2]
  have hf : frac6 ((fracText micro).map u.dval) = micro % 1000000 := by
    rw [map_dval_ascii u _ (fracText_all_digit micro)]; exact frac6_fixed _ (Nat.mod_lt _ (by decide))
  rw [hf, natOf_ascii u _ (natText_all_digit _), natOfText_natText]
  rw [h, h']
  simp only [List.isEmpty_cons, Bool.false_eq_true, if_false, List.isEmpty_nil, if_true]
  congr 2
  exact Nat.div_add_mod' micro 1000000

theorem parseReal_realText (u : UC) (neg : Bool) (micro : Nat) : parseReal u (realText neg micro) = some (.real neg micro) := by
  rw [realText_eq]
  have key := parseReal_unsigned u neg micro
  cases neg with
  | true =>
    simp only [if_true, List.cons_append, List.nil_append]
    unfold parseReal
    exact key
  | false =>
    simp only [Bool.false_eq_true, if_false, List.nil_append]
    obtain ⟨d, ds, h⟩ := natText_cons (micro / 1000000)
    have hd : d ≠ '-' := ne_of_isAsciiDigit (natText_all_digit _ d (by rw [h]; simp)) (by decide)
    unfold parseReal
    rw [h] at key ⊢
    simp only [List.cons_append] at key ⊢
    split
    · rename_i heq; simp at heq; exact absurd heq.1 hd
    · exact key

theorem deserialize_real (u : UC) (ty : Text) (hty : tyOfName u ty = some .REAL) (neg : Bool) (micro : Nat) :
    deserialize u ty (realText neg micro) = some (.real neg micro) := by
  simp only [deserialize, hty, parseReal_realText]

end Pyx.Sql
