import PyxModel.Extract.Rows
import Proofs.ExtractFuel

/-
  C14 — `mkAssociation` (PyxModel/Extract/Rows.lean): which rows produce associations, which raise what.
-/

namespace Pyx.Extract

/-! ### `kindOutcome` -/

theorem kindOutcome_resolved {d : ClassDiagram} {k : RelKind} (h : resolvedRel d k.asRel = true) :
    ∃ g, groupOf d k.asRel = some g ∧ kindOutcome d k = .defined g.items ∧
      g.items.length = k.count ∧
      ∀ a ∈ g.items, a.src.keys.length = a.tgt.keys.length := by
  obtain ⟨g, hg, hl, hk⟩ := resolved_group h
  refine ⟨g, hg, ?_, ?_, hk⟩
  · simp only [kindOutcome, h, hg, if_true]
  · cases k <;> simpa [RelKind.count, RelKind.asRel] using hl

theorem kindOutcome_unresolved {d : ClassDiagram} {k : RelKind} (h : resolvedRel d k.asRel = false) :
    kindOutcome d k = .attributeError := by
  simp [kindOutcome, h]

theorem kindOutcome_ne_typeError (d : ClassDiagram) (k : RelKind) : kindOutcome d k ≠ .typeError := by
  unfold kindOutcome
  split
  · split <;> simp
  · simp

/-- `kindOutcome` is `defined` exactly on resolved relationships -/
theorem kindOutcome_defined_iff {d : ClassDiagram} {k : RelKind} :
    (∃ items, kindOutcome d k = .defined items) ↔ resolvedRel d k.asRel = true := by
  constructor
  · rintro ⟨items, h⟩
    cases hr : resolvedRel d k.asRel with
    | true => rfl
    | false => rw [kindOutcome_unresolved hr] at h; cases h
  · intro h
    obtain ⟨g, _, hk, _⟩ := kindOutcome_resolved h
    exact ⟨_, hk⟩

/-! ### the four well-formed shapes, given as rows -/

/-- a relationship of `rels`, given row by row, ends as `groupOf` / `resolvedRel` say.  (The one exception: a subtype
    relationship WITHOUT subtypes whose supertype class row is missing — `resolvedRel` calls it unresolved, the Python
    loop never touches the supertype.) -/
theorem mkAssociation_rowsOf (d : ClassDiagram) (k : RelKind)
    (h : ∀ s, k = .subsup s [] → (findClass d s).isSome = true) :
    mkAssociation d (rowsOf k) = kindOutcome d k := by
  cases k with
  | simple f p refs => rfl
  | linked o t l r1 r2 => rfl
  | derived => rfl
  | subsup s subs =>
    cases subs with
    | cons x xs => rfl
    | nil =>
      have hs := h s rfl
      obtain ⟨pc, hpc⟩ := Option.isSome_iff_exists.mp hs
      simp [mkAssociation, rowsOf, RelRows.dispatch, kindOutcome, resolvedRel, groupOf, RelKind.asRel, hpc]

/-! ### what each dispatch does -/

/-- the rows from which `mk_association` reaches `define_association`: all end rows present and every class and attribute
    row they name exists -/
def reachesDefine (d : ClassDiagram) (w : RelRows) : Prop :=
  (w.dispatch = .linked ∧ ∃ o t l, w.aone = some o ∧ w.aoth = some t ∧ w.assr = some l ∧
      resolvedRel d (RelKind.linked o t l w.refsOne w.refsOth).asRel = true) ∨
  (w.dispatch = .simple ∧ ∃ s t, w.simpleEnds = some (s, t) ∧ resolvedRel d (RelKind.simple s t w.refs).asRel = true) ∨
  (w.dispatch = .subsup ∧ w.subs ≠ [] ∧ ∃ s, w.super = some s ∧ resolvedRel d (RelKind.subsup s w.subs).asRel = true)

theorem mkAssociation_typeError_iff (d : ClassDiagram) (w : RelRows) :
    mkAssociation d w = .typeError ↔ w.dispatch = .none := by
  unfold mkAssociation
  cases hd : w.dispatch with
  | none => simp
  | comp => simp
  | linked =>
    simp only [reduceCtorEq, iff_false]
    cases w.aone <;> cases w.aoth <;> cases w.assr <;> simp [kindOutcome_ne_typeError]
  | simple =>
    simp only [reduceCtorEq, iff_false]
    cases w.simpleEnds with
    | none => simp
    | some st => simp [kindOutcome_ne_typeError]
  | subsup =>
    simp only [reduceCtorEq, iff_false]
    cases w.subs with
    | nil => simp
    | cons x xs => cases w.super <;> simp [kindOutcome_ne_typeError]

/-- `mk_association` defines at least one association exactly from the rows described by `reachesDefine` -/
theorem association_produced_iff (d : ClassDiagram) (w : RelRows) :
    (∃ items, mkAssociation d w = .defined items ∧ items ≠ []) ↔ reachesDefine d w := by
  unfold mkAssociation reachesDefine
  cases hd : w.dispatch with
  | none => simp
  | comp => simp
  | linked =>
    simp only [reduceCtorEq, false_and, or_false, true_and]
    cases ho : w.aone with
    | none => simp
    | some o =>
      cases ht : w.aoth with
      | none => simp
      | some t =>
        cases hl : w.assr with
        | none => simp
        | some l =>
          simp only [Option.some.injEq, exists_and_left, exists_eq_left']
          constructor
          · rintro ⟨items, h, _⟩
            exact kindOutcome_defined_iff.mp ⟨_, h⟩
          · intro h
            obtain ⟨g, _, hk, hlen, _⟩ := kindOutcome_resolved h
            refine ⟨_, hk, ?_⟩
            intro he
            rw [he] at hlen
            cases hlen
  | simple =>
    simp only [reduceCtorEq, false_and, false_or, or_false, true_and]
    cases hs : w.simpleEnds with
    | none => simp
    | some st =>
      obtain ⟨s, t⟩ := st
      simp only [Option.some.injEq, Prod.mk.injEq]
      constructor
      · rintro ⟨items, h, _⟩
        exact ⟨s, t, ⟨rfl, rfl⟩, kindOutcome_defined_iff.mp ⟨_, h⟩⟩
      · rintro ⟨s', t', ⟨rfl, rfl⟩, h⟩
        obtain ⟨g, _, hk, hlen, _⟩ := kindOutcome_resolved h
        refine ⟨_, hk, ?_⟩
        intro he
        rw [he] at hlen
        cases hlen
  | subsup =>
    simp only [reduceCtorEq, false_and, false_or, true_and]
    cases hsub : w.subs with
    | nil => simp
    | cons x xs =>
      cases hsup : w.super with
      | none => simp
      | some s =>
        simp only [ne_eq, reduceCtorEq, not_false_eq_true, Option.some.injEq, exists_eq_left', true_and]
        constructor
        · rintro ⟨items, h, _⟩
          exact kindOutcome_defined_iff.mp ⟨_, h⟩
        · intro h
          obtain ⟨g, _, hk, hlen, _⟩ := kindOutcome_resolved h
          refine ⟨_, hk, ?_⟩
          intro he
          rw [he] at hlen
          cases hlen

/-- `mk_association` returns without defining anything exactly for an R_COMP and for a subtype relationship without
    subtypes -/
theorem nothing_defined_iff (d : ClassDiagram) (w : RelRows) :
    mkAssociation d w = .defined [] ↔ w.dispatch = .comp ∨ (w.dispatch = .subsup ∧ w.subs = []) := by
  constructor
  · intro h
    have hne : ¬ ∃ items, mkAssociation d w = .defined items ∧ items ≠ [] := by
      rintro ⟨items, hi, hn⟩
      rw [h] at hi
      cases hi
      exact hn rfl
    rw [association_produced_iff] at hne
    unfold mkAssociation at h
    cases hd : w.dispatch with
    | comp => exact Or.inl rfl
    | none => rw [hd] at h; cases h
    | subsup =>
      refine Or.inr ⟨rfl, ?_⟩
      cases hsub : w.subs with
      | nil => rfl
      | cons x xs =>
        exfalso
        rw [hd] at h
        simp only [hsub] at h
        cases hsup : w.super with
        | none => rw [hsup] at h; cases h
        | some s =>
          rw [hsup] at h
          exact hne (Or.inr (Or.inr ⟨hd, by simp [hsub], s, hsup, by
            rw [hsub]; exact kindOutcome_defined_iff.mp ⟨_, h⟩⟩))
    | linked =>
      exfalso
      rw [hd] at h
      cases ho : w.aone with
      | none => simp [ho] at h
      | some o =>
        cases ht : w.aoth with
        | none => simp [ho, ht] at h
        | some t =>
          cases hl : w.assr with
          | none => simp [ho, ht, hl] at h
          | some l =>
            simp only [ho, ht, hl] at h
            exact hne (Or.inl ⟨hd, o, t, l, ho, ht, hl, kindOutcome_defined_iff.mp ⟨_, h⟩⟩)
    | simple =>
      exfalso
      rw [hd] at h
      cases hs : w.simpleEnds with
      | none => simp [hs] at h
      | some st =>
        simp only [hs] at h
        exact hne (Or.inr (Or.inl ⟨hd, st.1, st.2, by simp [hs], kindOutcome_defined_iff.mp ⟨_, h⟩⟩))
  · rintro (h | ⟨h, hs⟩)
    · simp [mkAssociation, h]
    · simp [mkAssociation, h, hs]

/-- every ending, classified -/
theorem mkAssociation_attributeError_iff (d : ClassDiagram) (w : RelRows) :
    mkAssociation d w = .attributeError ↔
      (w.dispatch = .linked ∨ w.dispatch = .simple ∨ (w.dispatch = .subsup ∧ w.subs ≠ [])) ∧ ¬ reachesDefine d w := by
  have hp := association_produced_iff d w
  have hn := nothing_defined_iff d w
  have ht := mkAssociation_typeError_iff d w
  cases ho : mkAssociation d w with
  | attributeError =>
    simp only [true_iff]
    rw [ho] at hp hn ht
    constructor
    · cases hd : w.dispatch with
      | none => simp [hd] at ht
      | comp => simp [hd] at hn
      | linked => simp
      | simple => simp
      | subsup =>
        simp only [reduceCtorEq, false_or, true_and]
        intro hs
        simp [hd, hs] at hn
    · rw [← hp]
      rintro ⟨items, h, _⟩
      cases h
  | typeError =>
    rw [ho] at ht
    have hd := ht.mp rfl
    simp [hd]
  | defined items =>
    simp only [reduceCtorEq, false_iff, not_and]
    rw [ho] at hp hn
    intro hdisp hnot
    cases items with
    | cons a t => exact hnot (hp.mp ⟨_, rfl, by simp⟩)
    | nil =>
      rcases hn.mp rfl with h | ⟨h, hs⟩
      · rcases hdisp with h' | h' | ⟨h', _⟩ <;> rw [h] at h' <;> cases h'
      · rcases hdisp with h' | h' | ⟨_, h'⟩
        · rw [h] at h'; cases h'
        · rw [h] at h'; cases h'
        · exact absurd hs h'

/-! ### key lists: one key per O_REF -/

/-- for a resolved relationship every `define_association` call gets one (referential, identifying) key pair per
    O_REF: an association has EMPTY key lists exactly when its O_REF list is empty -/
theorem resolved_key_lengths {d : ClassDiagram} {k : RelKind} (h : resolvedRel d k.asRel = true) {g : SGroup}
    (hg : groupOf d k.asRel = some g) :
    g.items.map (fun a => a.src.keys.length) = k.refLists.map List.length ∧
    g.items.map (fun a => a.tgt.keys.length) = k.refLists.map List.length := by
  unfold resolvedRel at h
  unfold groupOf at hg
  cases k with
  | derived =>
    simp only [RelKind.asRel, Option.some.injEq] at hg
    subst hg
    exact ⟨rfl, rfl⟩
  | simple form part refs =>
    simp only [RelKind.asRel, pairResolved] at h hg
    cases hf : findClass d form.cls <;> cases hp : findClass d part.cls <;> simp [hf, hp] at h
    simp only [hf, hp, Option.some.injEq] at hg
    subst hg
    obtain ⟨h1, h2⟩ := refsResolved_lengths h
    simp [RelKind.refLists, h1, h2]
  | linked one oth link r1 r2 =>
    simp only [RelKind.asRel, pairResolved, Bool.and_eq_true] at h hg
    cases hl : findClass d link <;> cases ho : findClass d one.cls <;> cases ht : findClass d oth.cls <;>
      simp [hl, ho, ht] at h
    simp only [hl, ho, ht, Option.some.injEq] at hg
    subst hg
    obtain ⟨h1, h2⟩ := refsResolved_lengths h.1
    obtain ⟨h3, h4⟩ := refsResolved_lengths h.2
    simp [RelKind.refLists, h1, h2, h3, h4]
  | subsup sup subs =>
    simp only [RelKind.asRel, Bool.and_eq_true, List.all_eq_true] at h hg
    obtain ⟨pc, hs⟩ := Option.isSome_iff_exists.mp h.1
    simp only [hs, Option.some.injEq] at hg
    subst hg
    have hall := h.2
    clear h
    simp only [RelKind.refLists]
    induction subs with
    | nil => exact ⟨rfl, rfl⟩
    | cons s t ih =>
      have hs1 := hall s (by simp)
      simp only [pairResolved, hs] at hs1
      cases hb : findClass d s.1 with
      | none => simp [hb] at hs1
      | some sc =>
        simp only [hb] at hs1
        obtain ⟨h1, h2⟩ := refsResolved_lengths hs1
        obtain ⟨ih1, ih2⟩ := ih (fun x hx => hall x (List.mem_cons_of_mem _ hx))
        simp only [List.filterMap_cons, hb, Option.map_some, List.map_cons, h1, h2, List.cons.injEq, true_and]
        exact ⟨ih1, ih2⟩

/-- a FORMALISED relationship whose rows all exist produces its associations, every one with non-empty key lists of
    equal length -/
theorem formalised_produces (d : ClassDiagram) (w : RelRows) (hf : w.formalised = true) (hr : reachesDefine d w) :
    ∃ items, mkAssociation d w = .defined items ∧ items ≠ [] ∧
      ∀ a ∈ items, a.src.keys ≠ [] ∧ a.src.keys.length = a.tgt.keys.length := by
  obtain ⟨items, hi, hne⟩ := (association_produced_iff d w).mpr hr
  refine ⟨items, hi, hne, ?_⟩
  -- the shape `k` the call was made with
  have key : ∃ k : RelKind, resolvedRel d k.asRel = true ∧ kindOutcome d k = .defined items ∧
      ∀ l ∈ k.refLists, l ≠ [] := by
    unfold RelRows.formalised at hf
    unfold mkAssociation at hi
    rcases hr with ⟨hd, o, t, l, ho, ht, hl, hres⟩ | ⟨hd, s, t, hs, hres⟩ | ⟨hd, hsub, s, hsup, hres⟩
    · rw [hd] at hf hi
      simp only [ho, ht, hl, Option.isSome_some, Bool.true_and, Bool.and_eq_true, Bool.not_eq_true',
        List.isEmpty_eq_false_iff] at hf hi
      exact ⟨_, hres, hi, by simp [RelKind.refLists, hf.1, hf.2]⟩
    · rw [hd] at hf hi
      simp only [hs, Bool.and_eq_true, Bool.not_eq_true', List.isEmpty_eq_false_iff] at hf hi
      exact ⟨_, hres, hi, by simp [RelKind.refLists, hf.2]⟩
    · rw [hd] at hf hi
      cases hsubs : w.subs with
      | nil => exact absurd hsubs hsub
      | cons x xs =>
        simp only [hsubs, hsup, Bool.and_eq_true, List.all_eq_true, Bool.not_eq_true', List.isEmpty_eq_false_iff] at hf hi
        refine ⟨_, hres, by rw [hsubs]; exact hi, ?_⟩
        intro l hl
        simp only [RelKind.refLists, List.mem_map] at hl
        obtain ⟨sb, hsb, rfl⟩ := hl
        rw [hsubs] at hsb
        exact hf.2 sb hsb
  obtain ⟨k, hres, hk, hrefs⟩ := key
  obtain ⟨g, hg, hk', _, heq⟩ := kindOutcome_resolved hres
  rw [hk] at hk'
  cases hk'
  obtain ⟨hl1, _⟩ := resolved_key_lengths hres hg
  intro a ha
  refine ⟨?_, heq a ha⟩
  -- position of `a`
  obtain ⟨i, hi', hget⟩ := List.getElem_of_mem ha
  have hlen : (g.items.map (fun a => a.src.keys.length)).length = (k.refLists.map List.length).length := by rw [hl1]
  simp only [List.length_map] at hlen
  have hi2 : i < k.refLists.length := by omega
  have := congrArg (fun l => l[i]?) hl1
  simp only [List.getElem?_map, List.getElem?_eq_getElem hi', List.getElem?_eq_getElem hi2, Option.map_some,
    Option.some.injEq, hget] at this
  intro hnil
  rw [hnil] at this
  have hm : k.refLists[i] ∈ k.refLists := List.getElem_mem hi2
  have := hrefs _ hm
  simp only [List.length_nil] at *
  exact this (List.length_eq_zero_iff.mp (by omega))

/-! ### unformalised relationships still produce associations -/

theorem kindOutcome_simple_nil (d : ClassDiagram) (s t : End) :
    kindOutcome d (.simple s t []) =
      match findClass d s.cls, findClass d t.cls with
      | some sc, some tc => .defined [
          { src := { kind := sc.kl, keys := [], many := s.mult, cond := s.cond, phrase := phraseIf (s.cls == t.cls) t.phrase },
            tgt := { kind := tc.kl, keys := [], many := t.mult, cond := t.cond, phrase := phraseIf (s.cls == t.cls) s.phrase } } ]
      | _, _ => .attributeError := by
  cases hs : findClass d s.cls <;> cases ht : findClass d t.cls <;>
    simp [kindOutcome, resolvedRel, pairResolved, groupOf, RelKind.asRel, hs, ht, refsResolved, keyNames]

/-- documented behaviour (outside the property's clauses): an UNFORMALISED simple relationship (R_SIMP, two R_PART rows, no R_FORM,
    no O_REF) is not formalised, and `mk_association` defines one association for it all the same — without keys, from
    the SECOND participant row to the FIRST -/
theorem unformalised_simple_defines (d : ClassDiagram) (w : RelRows) (p q : End) (pc qc : Class)
    (hd : w.dispatch = .simple) (hf : w.form = none) (hp : w.parts = [p, q]) (hr : w.refs = [])
    (hpc : findClass d p.cls = some pc) (hqc : findClass d q.cls = some qc) :
    w.formalised = false ∧
    mkAssociation d w = .defined [
      { src := { kind := qc.kl, keys := [], many := q.mult, cond := q.cond, phrase := phraseIf (q.cls == p.cls) p.phrase },
        tgt := { kind := pc.kl, keys := [], many := p.mult, cond := p.cond, phrase := phraseIf (q.cls == p.cls) q.phrase } } ] := by
  constructor
  · simp [RelRows.formalised, hd, hf]
  · simp only [mkAssociation, hd, RelRows.simpleEnds, hf, hp, hr, kindOutcome_simple_nil, hpc, hqc]

theorem mkAssociation_unformalised (d : ClassDiagram) (w : RelRows) (p q : End)
    (hd : w.dispatch = .simple) (hf : w.form = none) (hp : w.parts = [p, q]) (hr : w.refs = []) :
    mkAssociation d w = kindOutcome d (.simple q p []) := by
  simp only [mkAssociation, hd, RelRows.simpleEnds, hf, hp, hr]

/-- ... and its direction follows the order of the two R_PART rows: exchanging them gives the mirror image -/
theorem unformalised_mirror (d : ClassDiagram) (w : RelRows) (p q : End)
    (hd : w.dispatch = .simple) (hf : w.form = none) (hp : w.parts = [p, q]) (hr : w.refs = []) :
    mkAssociation d { w with parts := [q, p] } = (mkAssociation d w).mirror := by
  have hc : (p.cls == q.cls) = (q.cls == p.cls) := by
    cases h : q.cls == p.cls with
    | true => have := eq_of_beq h; rw [this]; simp
    | false =>
      cases h2 : p.cls == q.cls with
      | false => rfl
      | true => have := eq_of_beq h2; rw [this] at h; simp at h
  rw [mkAssociation_unformalised d { w with parts := [q, p] } q p hd hf rfl hr,
    mkAssociation_unformalised d w p q hd hf hp hr, kindOutcome_simple_nil, kindOutcome_simple_nil]
  cases findClass d p.cls <;> cases findClass d q.cls <;>
    simp [AssocOutcome.mirror, SAssoc.swap, hc]

/-- an unformalised LINKED relationship (all three rows, no O_REF): two associations without keys -/
theorem unformalised_linked_defines (d : ClassDiagram) (w : RelRows) (o t : End) (l : Nat) (oc tc lc : Class)
    (hd : w.dispatch = .linked) (ho : w.aone = some o) (ht : w.aoth = some t) (hl : w.assr = some l)
    (h1 : w.refsOne = []) (h2 : w.refsOth = [])
    (hoc : findClass d o.cls = some oc) (htc : findClass d t.cls = some tc) (hlc : findClass d l = some lc) :
    w.formalised = false ∧
    ∃ a b, mkAssociation d w = .defined [a, b] ∧ a.src.keys = [] ∧ a.tgt.keys = [] ∧ b.src.keys = [] ∧ b.tgt.keys = [] ∧
      a.src.kind = lc.kl ∧ a.tgt.kind = oc.kl ∧ b.src.kind = lc.kl ∧ b.tgt.kind = tc.kl := by
  constructor
  · simp [RelRows.formalised, hd, h1]
  · simp only [mkAssociation, hd, ho, ht, hl, h1, h2, kindOutcome, resolvedRel, pairResolved, groupOf, RelKind.asRel,
      hoc, htc, hlc, refsResolved, keyNames, List.all_nil, Bool.and_self, if_true, List.map_nil, List.filterMap_nil]
    exact ⟨_, _, rfl, rfl, rfl, rfl, rfl, rfl, rfl, rfl, rfl⟩

/-! ### a relationship of `rels` can equally be given by its rows -/

theorem groupOf_items_congr (d : ClassDiagram) (r r' : Rel) (h : r.kind = r'.kind) :
    (groupOf d r).map (·.items) = (groupOf d r').map (·.items) := by
  unfold groupOf
  rw [h]
  cases r'.kind with
  | derived => rfl
  | simple f p refs => dsimp only; cases findClass d f.cls <;> cases findClass d p.cls <;> rfl
  | linked o t l r1 r2 =>
    dsimp only; cases findClass d l <;> cases findClass d o.cls <;> cases findClass d t.cls <;> rfl
  | subsup s subs => dsimp only; cases findClass d s <;> rfl

theorem resolvedRel_congr (d : ClassDiagram) (r r' : Rel) (h : r.kind = r'.kind) :
    resolvedRel d r = resolvedRel d r' := by
  unfold resolvedRel
  rw [h]

/-- moving a resolved relationship from `rels` to `rowRels` (as `rowsOf` its shape) leaves its group unchanged -/
theorem rowGroup_rowsOf (d : ClassDiagram) (r : Rel) (h : resolvedRel d r = true) :
    rowGroup d { id := r.id, numb := r.numb, rows := rowsOf r.kind, parent := r.parent } = groupOf d r := by
  have hres : resolvedRel d r.kind.asRel = true := by rw [resolvedRel_congr d r.kind.asRel r rfl]; exact h
  have hsub : ∀ s, r.kind = .subsup s [] → (findClass d s).isSome = true := by
    intro s hk
    unfold resolvedRel at h
    rw [hk] at h
    simp only [Bool.and_eq_true] at h
    exact h.1
  obtain ⟨g, hg, hk, _⟩ := kindOutcome_resolved hres
  have hc := groupOf_items_congr d r.kind.asRel r rfl
  rw [hg] at hc
  unfold rowGroup
  simp only [mkAssociation_rowsOf d r.kind hsub, hk]
  cases hgr : groupOf d r with
  | none => rw [hgr] at hc; cases hc
  | some g' =>
    rw [hgr] at hc
    simp only [Option.map_some, Option.some.injEq] at hc
    have hrel : g'.rel = r.numb := by
      unfold groupOf at hgr
      cases hk' : r.kind with
      | derived => rw [hk'] at hgr; cases hgr; rfl
      | simple f p refs =>
        rw [hk'] at hgr
        dsimp only at hgr
        cases hf : findClass d f.cls <;> cases hp : findClass d p.cls <;> simp [hf, hp] at hgr
        rw [← hgr]
      | linked o t l r1 r2 =>
        rw [hk'] at hgr
        dsimp only at hgr
        cases hl : findClass d l <;> cases ho : findClass d o.cls <;> cases ht : findClass d t.cls <;>
          simp [hl, ho, ht] at hgr
        rw [← hgr]
      | subsup s subs =>
        rw [hk'] at hgr
        dsimp only at hgr
        cases hs : findClass d s <;> simp [hs] at hgr
        rw [← hgr]
    cases g'
    simp only at hc hrel
    subst hc hrel
    rfl

/-! ### the whole build -/

theorem firstRaise_none_iff (l : List AssocOutcome) :
    firstRaise l = none ↔ ∀ o ∈ l, ∃ items, o = .defined items := by
  induction l with
  | nil => simp [firstRaise]
  | cons o t ih =>
    cases o with
    | defined items => simp [firstRaise, ih]
    | attributeError => simp [firstRaise]
    | typeError => simp [firstRaise]

theorem firstRaise_ne_ok (l : List AssocOutcome) (s : Schema) : firstRaise l ≠ some (.ok s) := by
  induction l with
  | nil => simp [firstRaise]
  | cons o t ih => cases o <;> simp [firstRaise, ih]

theorem firstRaise_ne_mme (l : List AssocOutcome) : firstRaise l ≠ some .metaModelException := by
  induction l with
  | nil => simp [firstRaise]
  | cons o t ih => cases o <;> simp [firstRaise, ih]

theorem firstRaise_typeError (l : List AssocOutcome) (h : firstRaise l = some .typeError) : .typeError ∈ l := by
  induction l with
  | nil => simp [firstRaise] at h
  | cons o t ih =>
    cases o with
    | defined items => simp only [firstRaise] at h; exact List.mem_cons_of_mem _ (ih h)
    | attributeError => simp [firstRaise] at h
    | typeError => simp

theorem buildOutcome_ok_definable {d : ClassDiagram} {comp : Option Nat} {drv : Bool} {s : Schema}
    (h : buildOutcome d comp drv = .ok s) : s.definable = true := by
  by_cases hn : ((extract d comp drv).classes.map (fun c => upper c.kl)).Nodup
  · cases hr : resolvedIn d comp <;> cases hd : (extract d comp drv).definable <;>
      simp [buildOutcome, mkComponent, hn, hr, hd] at h
    subst h
    exact hd
  · cases hr : resolvedIn d comp <;> simp [buildOutcome, hn, hr] at h

/-- without row-given relationships `buildAll` is `buildOutcome` -/
theorem buildAll_no_rowRels (d : ClassDiagram) (comp : Option Nat) (drv : Bool) (h : d.rowRels = []) :
    buildAll d comp drv = (buildOutcome d comp drv).toFull := by
  unfold buildAll
  cases hb : buildOutcome d comp drv with
  | metaModelException => rfl
  | attributeError => rfl
  | ok s =>
    have hdef : s.definable = true := buildOutcome_ok_definable hb
    simp only [rowRelsInScope, rowGroups, h, List.filter_nil, List.map_nil, firstRaise, List.filterMap_nil,
      List.append_nil, BuildOutcome.toFull]
    cases s
    simp [hdef]

/-- what a successful `buildAll` holds: the classes and groups of `rels` as before, then one group per row-given
    relationship in scope, none of which raised -/
theorem buildAll_ok {d : ClassDiagram} {comp : Option Nat} {drv : Bool} {s : Schema} (h : buildAll d comp drv = .ok s) :
    ∃ s0, buildOutcome d comp drv = .ok s0 ∧ s.classes = s0.classes ∧ s.groups = s0.groups ++ rowGroups d comp ∧
      (∀ r ∈ rowRelsInScope d comp, ∃ items, mkAssociation d r.rows = .defined items) ∧ s.definable = true := by
  unfold buildAll at h
  cases hb : buildOutcome d comp drv with
  | metaModelException => rw [hb] at h; cases h
  | attributeError => rw [hb] at h; cases h
  | ok s0 =>
    rw [hb] at h
    simp only at h
    cases hfr : firstRaise ((rowRelsInScope d comp).map (fun r => mkAssociation d r.rows)) with
    | some e =>
      rw [hfr] at h
      simp only at h
      subst h
      exact absurd hfr (firstRaise_ne_ok _ _)
    | none =>
      rw [hfr] at h
      simp only at h
      split at h
      · rename_i hdef
        cases h
        refine ⟨s0, rfl, rfl, rfl, ?_, hdef⟩
        intro r hr
        exact (firstRaise_none_iff _).mp hfr _ (List.mem_map.mpr ⟨r, hr, rfl⟩)
      · cases h

/-- `mk_component` ends with TypeError only when the scope holds an R_REL without any R206 subtype row -/
theorem buildAll_typeError {d : ClassDiagram} {comp : Option Nat} {drv : Bool} (h : buildAll d comp drv = .typeError) :
    ∃ r ∈ rowRelsInScope d comp, r.rows.dispatch = .none := by
  unfold buildAll at h
  cases hb : buildOutcome d comp drv with
  | metaModelException => rw [hb] at h; cases h
  | attributeError => rw [hb] at h; cases h
  | ok s0 =>
    rw [hb] at h
    simp only at h
    cases hfr : firstRaise ((rowRelsInScope d comp).map (fun r => mkAssociation d r.rows)) with
    | none =>
      rw [hfr] at h
      simp only at h
      split at h <;> cases h
    | some e =>
      rw [hfr] at h
      simp only at h
      subst h
      obtain ⟨r, hr, hre⟩ := List.mem_map.mp (firstRaise_typeError _ hfr)
      exact ⟨r, hr, (mkAssociation_typeError_iff d r.rows).mp hre⟩

end Pyx.Extract
