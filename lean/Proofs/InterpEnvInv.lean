import Proofs.InterpScope

/-!
  Invariants of the ENVIRONMENT (the blocks of the walker's scope) carried through every run of `Spec`: the induction of
  Proofs/InterpScope.lean (`rsh_*`) once more, for an ARBITRARY preorder `R` on configurations that every primitive touching the
  frame respects (`EnvRel R`: install, pushBlock, popBlock, setRet, state-only actions, frame-preserving actions).
  Instantiated in Proofs/InterpShape.lean with "the names of the scope stay unique across its blocks".
-/
set_option linter.unusedSectionVars false
set_option linter.unusedVariables false
namespace Pyx.Interp
open M

structure EnvRel (R : Cfg → Cfg → Prop) : Prop where
  po : PreOrder R
  ofRfr : ∀ {c c' : Cfg}, Rfr c c' → R c c'
  install : ∀ (x : String) (v : Val), Pres R (install x v)
  stateOnly : ∀ {α : Type} {m : M α}, StateOnly m → Pres R m
  setRet : ∀ (v : Val), Pres R (setRet v)
  push : Pres R pushBlock
  pop : Pres R popBlock

theorem NU {R : Cfg → Cfg → Prop} (H : EnvRel R) {α : Type} {m : M α} (h : Neutral m) : Pres R m := pres_of_neutral H.po h

section
variable {R : Cfg → Cfg → Prop} (H : EnvRel R) {r : Oracle} (he : ∀ e, Pres Rfr (r.eval e)) (hs : ∀ s, Pres R (r.exec s))
include H he hs

theorem inv_execList : ∀ l, Pres R (execList r l)
  | [] => NU H (neutral_pure _)
  | s :: rest => by
    unfold execList
    apply pres_bind H.po (hs s); intro o
    cases o <;> first | exact inv_execList rest | exact NU H (neutral_pure _)

theorem inv_execBlock (b : Block) : Pres R (execBlock r b) := by
  unfold execBlock
  apply pres_bind H.po H.push; intro _
  apply pres_bind H.po (inv_execList H he hs b); intro o
  apply pres_bind H.po H.pop; intro _
  exact NU H (neutral_pure _)

theorem inv_execElifs : ∀ l els, Pres R (execElifs r l els)
  | [], none => NU H (neutral_pure _)
  | [], some b => inv_execBlock H he hs b
  | (c, b) :: rest, els => by
    unfold execElifs
    apply pres_bind H.po (pres_weaken (fun _ _ => H.ofRfr) (he c)); intro v
    apply pres_bind H.po (NU H (neutral_asBool v)); intro t
    cases t
    · exact inv_execElifs rest els
    · exact inv_execBlock H he hs b

theorem inv_forItems (v : String) (body : Block) : ∀ l, Pres R (forItems r v body l)
  | [] => NU H (neutral_pure _)
  | i :: rest => by
    unfold forItems
    apply pres_bind H.po (H.install _ _); intro _
    apply pres_bind H.po (inv_execBlock H he hs body); intro o
    cases o <;> first | exact inv_forItems v body rest | exact NU H (neutral_pure _)

theorem inv_evalWhere (wh : Expr) (c : Inst) : Pres R (evalWhere r wh c) := by
  unfold evalWhere
  apply pres_bind H.po H.push; intro _
  apply pres_bind H.po (H.install _ _); intro _
  apply pres_bind H.po (pres_weaken (fun _ _ => H.ofRfr) (he wh)); intro v
  apply pres_bind H.po H.pop; intro _
  exact NU H (neutral_asBool v)

theorem inv_filterAll (wh : Expr) : ∀ l, Pres R (filterAll r wh l)
  | [] => NU H (neutral_pure _)
  | c :: rest => by
    unfold filterAll
    apply pres_bind H.po (inv_evalWhere H he hs wh c); intro t
    apply pres_bind H.po (inv_filterAll wh rest); intro _
    exact NU H (neutral_pure _)

theorem inv_filterFirst (wh : Expr) : ∀ l, Pres R (filterFirst r wh l)
  | [] => NU H (neutral_pure _)
  | c :: rest => by
    unfold filterFirst
    apply pres_bind H.po (inv_evalWhere H he hs wh c); intro t
    cases t
    · exact inv_filterFirst wh rest
    · exact NU H (neutral_pure _)

theorem inv_selectResult (many : Bool) (cands : List Inst) (wh : Option Expr) :
    Pres R (selectResult r many cands wh) := by
  unfold selectResult
  cases many <;> cases wh <;> simp only
  · exact NU H (neutral_pure _)
  · apply pres_bind H.po (inv_filterFirst H he hs _ _); intro _; exact NU H (neutral_pure _)
  · exact NU H (neutral_pure _)
  · apply pres_bind H.po (inv_filterAll H he hs _ _); intro _; exact NU H (neutral_pure _)

theorem inv_writeField (C : Ctx) (i : Inst) (name : String) (v : Val) : Pres R (writeField C i name v) := by
  unfold writeField
  apply pres_bind H.po (NU H neutral_getFr); intro fr
  cases regHit fr i name
  · simp only [Bool.false_eq_true, if_false]
    split
    · exact NU H (neutral_fail _)
    · exact H.stateOnly (stateOnly_modifySt _)
  · exact H.setRet _

theorem inv_execStep (C : Ctx) (s : Stmt) : Pres R (execStep C r s) := by
  have E : ∀ e, Pres R (r.eval e) := fun e => pres_weaken (fun _ _ => H.ofRfr) (he e)
  cases s with
  | assignVar x e =>
    unfold execStep
    apply pres_bind H.po (E e); intro _
    apply pres_bind H.po (H.install _ _); intro _
    exact NU H (neutral_pure _)
  | assignField hx name e =>
    unfold execStep
    apply pres_bind H.po (E e); intro _
    apply pres_bind H.po (E hx); intro v
    apply pres_bind H.po (NU H (neutral_asInst v)); intro _
    apply pres_bind H.po (inv_writeField H he hs C _ _ _); intro _
    exact NU H (neutral_pure _)
  | ifS c thn elifs els =>
    unfold execStep
    apply pres_bind H.po (E c); intro v
    apply pres_bind H.po (NU H (neutral_asBool v)); intro t
    cases t
    · exact inv_execElifs H he hs _ _
    · exact inv_execBlock H he hs _
  | whileS c body =>
    unfold execStep
    apply pres_bind H.po (E c); intro v
    apply pres_bind H.po (NU H (neutral_asBool v)); intro t
    cases t
    · exact NU H (neutral_pure _)
    · simp only [if_true]
      apply pres_bind H.po (inv_execBlock H he hs body); intro o
      cases o <;> first | exact hs _ | exact NU H (neutral_pure _)
  | forEach v setv body =>
    unfold execStep
    apply pres_bind H.po (NU H (neutral_lookupVar C _)); intro s
    cases s <;> first | exact inv_forItems H he hs _ _ _ | exact NU H (neutral_fail _)
  | brk => exact NU H (neutral_pure _)
  | cont => exact NU H (neutral_pure _)
  | stop => exact NU H (neutral_pure _)
  | ret e =>
    cases e with
    | none => exact NU H (neutral_pure _)
    | some e =>
      unfold execStep
      apply pres_bind H.po (E e); intro _
      apply pres_bind H.po (H.setRet _); intro _
      exact NU H (neutral_pure _)
  | create v cls =>
    unfold execStep
    apply pres_bind H.po (H.stateOnly (stateOnly_modifyGet _)); intro i
    cases v with
    | none =>
      simp only
      first
        | exact NU H (neutral_pure _)
        | (apply pres_bind H.po (NU H (neutral_pure _)); intro _; exact NU H (neutral_pure _))
    | some x => simp only; apply pres_bind H.po (H.install _ _); intro _; exact NU H (neutral_pure _)
  | delete v =>
    unfold execStep
    apply pres_bind H.po (NU H (neutral_lookupVar C _)); intro x
    apply pres_bind H.po (NU H (neutral_asInst x)); intro i
    apply pres_bind H.po (H.stateOnly (stateOnly_modifySt _)); intro _
    exact NU H (neutral_pure _)
  | relate a b rel phrase =>
    unfold execStep
    apply pres_bind H.po (NU H (neutral_lookupVar C _)); intro x
    apply pres_bind H.po (NU H (neutral_asInst x)); intro _
    apply pres_bind H.po (NU H (neutral_lookupVar C _)); intro y
    apply pres_bind H.po (NU H (neutral_asInst y)); intro _
    apply pres_bind H.po (H.stateOnly (stateOnly_modifySt _)); intro _
    exact NU H (neutral_pure _)
  | relateUsing a b rel phrase u =>
    unfold execStep
    apply pres_bind H.po (NU H (neutral_lookupVar C _)); intro x
    apply pres_bind H.po (NU H (neutral_asInst x)); intro _
    apply pres_bind H.po (NU H (neutral_lookupVar C _)); intro y
    apply pres_bind H.po (NU H (neutral_asInst y)); intro _
    apply pres_bind H.po (NU H (neutral_lookupVar C _)); intro w
    apply pres_bind H.po (NU H (neutral_asInst w)); intro _
    apply pres_bind H.po (H.stateOnly (stateOnly_modifySt _)); intro _
    exact NU H (neutral_pure _)
  | unrelate a b rel phrase =>
    unfold execStep
    apply pres_bind H.po (NU H (neutral_lookupVar C _)); intro x
    apply pres_bind H.po (NU H (neutral_asInst x)); intro _
    apply pres_bind H.po (NU H (neutral_lookupVar C _)); intro y
    apply pres_bind H.po (NU H (neutral_asInst y)); intro _
    apply pres_bind H.po (H.stateOnly (stateOnly_modifySt _)); intro _
    exact NU H (neutral_pure _)
  | unrelateUsing a b rel phrase u =>
    unfold execStep
    apply pres_bind H.po (NU H (neutral_lookupVar C _)); intro x
    apply pres_bind H.po (NU H (neutral_asInst x)); intro _
    apply pres_bind H.po (NU H (neutral_lookupVar C _)); intro y
    apply pres_bind H.po (NU H (neutral_asInst y)); intro _
    apply pres_bind H.po (NU H (neutral_lookupVar C _)); intro w
    apply pres_bind H.po (NU H (neutral_asInst w)); intro _
    apply pres_bind H.po (H.stateOnly (stateOnly_modifySt _)); intro _
    exact NU H (neutral_pure _)
  | selectFrom many v cls wh =>
    unfold execStep
    apply pres_bind H.po (NU H (neutral_querySt _)); intro _
    apply pres_bind H.po (inv_selectResult H he hs _ _ _); intro _
    apply pres_bind H.po (H.install _ _); intro _
    exact NU H (neutral_pure _)
  | selectRelated many v hx chain wh =>
    unfold execStep
    apply pres_bind H.po (E hx); intro hv
    apply pres_bind H.po (NU H (neutral_startOf hv)); intro _
    apply pres_bind H.po (NU H (neutral_querySt _)); intro _
    apply pres_bind H.po (inv_selectResult H he hs _ _ _); intro _
    apply pres_bind H.po (H.install _ _); intro _
    exact NU H (neutral_pure _)
  | invoke e =>
    unfold execStep
    apply pres_bind H.po (E e); intro _
    exact NU H (neutral_pure _)

end

theorem inv_run {R : Cfg → Cfg → Prop} (H : EnvRel R) (C : Ctx) : ∀ n s, Pres R ((run C n).exec s)
  | 0 => fun _ _ _ _ h => by simp [run] at h
  | n + 1 => fun s => inv_execStep H (rfr_run C n) (inv_run H C n) C s

end Pyx.Interp
