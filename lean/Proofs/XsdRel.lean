import Proofs.XsdText

/-!
  C20 — the declarations against a RELATIONAL specification: `Reaches` (containment chain reaches the component),
  `InComp` (a component on the chain), `BaseName` (base data type over R18), instead of the model's own functions.
-/

namespace Pyx.Extract

/-- an attribute is declared iff it is not derived and the data type of the attribute (for a referential one: of
    the base attribute it refers to) has a base name; it is named as modeled and typed by that name -/
theorem xattr_rel {d : ClassDiagram} (chain : DtChainOk d.dts) (a : Attr) (x : XAttr) :
    xattr d a = some x ↔
      a.isDerived = false ∧ x.name = a.name ∧ ∃ dt, attrDt d a = some dt ∧ BaseName d.dts dt x.ty := by
  rw [xattr_eq_some]
  constructor
  · rintro ⟨h1, h2, dt, h3, h4⟩
    exact ⟨h1, h2, dt, h3, (baseTypeName_iff chain dt x.ty).mp h4⟩
  · rintro ⟨h1, h2, dt, h3, h4⟩
    exact ⟨h1, h2, dt, h3, (baseTypeName_iff chain dt x.ty).mpr h4⟩

/-- the name under which a data type can be the base of a user type -/
theorem typeNameOf_rel (dts : List DataType) (b : Nat) (n : String) :
    typeNameOf dts b = some n ↔
      ∃ t, findDt dts b = some t ∧ t.name = n ∧ n ≠ "" ∧
        ((∃ k, t.kind = .core k ∧ 1 ≤ k ∧ k ≤ 5) ∨ (∃ es, t.kind = .enum es) ∨ (∃ b', t.kind = .user b')) := by
  unfold typeNameOf
  cases hf : findDt dts b with
  | none => simp
  | some t =>
    simp only [Option.some.injEq, exists_eq_left']
    by_cases hn : t.name = ""
    · simp only [hn, beq_self_eq_true, if_true]
      constructor
      · intro h; cases h
      · rintro ⟨h1, h2, _⟩; exact absurd h1.symm h2
    · have hb : (t.name == "") = false := by simp [hn]
      simp only [hb, Bool.false_eq_true, if_false]
      cases hk : t.kind with
      | core k =>
        simp only
        constructor
        · intro h
          split at h
          · rename_i hk'; cases h; exact ⟨rfl, hn, Or.inl ⟨k, rfl, hk'.1, hk'.2⟩⟩
          · cases h
        · rintro ⟨h1, _, h3⟩
          rcases h3 with ⟨k', hk', h1', h5'⟩ | ⟨es, he⟩ | ⟨b', hb'⟩
          · cases hk'; simp [h1', h5', h1]
          · cases he
          · cases hb'
      | enum es =>
        simp only [Option.some.injEq]
        constructor
        · intro h; exact ⟨h, h ▸ hn, Or.inr (Or.inl ⟨es, rfl⟩)⟩
        · rintro ⟨h1, _, _⟩; exact h1
      | user b' =>
        simp only [Option.some.injEq]
        constructor
        · intro h; exact ⟨h, h ▸ hn, Or.inr (Or.inr ⟨b', rfl⟩)⟩
        · rintro ⟨h1, _, _⟩; exact h1
      | other =>
        simp only
        constructor
        · intro h; cases h
        · rintro ⟨_, _, h3⟩
          rcases h3 with ⟨k', hk', _⟩ | ⟨es, he⟩ | ⟨b', hb'⟩
          · cases hk'
          · cases he
          · cases hb'

/-- the declared class elements, relationally: exactly the classes whose containment chain reaches the component -/
theorem xsd_classes_rel {d : ClassDiagram} (tree : TreeOk d.containers d.pkgrefs) (comp : Nat) (xc : XClass) :
    xc ∈ (xsdSpec d comp).classes ↔ ∃ c ∈ d.classes, Reaches d.containers d.pkgrefs comp c.parent ∧ xc = xclassAll d c := by
  simp only [xsdSpec, List.mem_map, List.mem_filter]
  constructor
  · rintro ⟨c, ⟨hc, hs⟩, rfl⟩
    exact ⟨c, hc, (contained_iff tree comp _).mp hs, rfl⟩
  · rintro ⟨c, hc, hr, rfl⟩
    exact ⟨c, ⟨hc, (contained_iff tree comp _).mpr hr⟩, rfl⟩

/-- the declared simple types, relationally: the declarable data types that have no component on their containment
    chain (global) or whose chain — continued over package references — reaches the requested component -/
theorem xsd_types_rel {d : ClassDiagram} (tree : TreeOk d.containers d.pkgrefs) (comp : Nat) (x : XType) :
    x ∈ (xsdSpec d comp).types ↔
      ∃ t ∈ d.dts, (¬ InComp d.containers t.parent ∨ Reaches d.containers d.pkgrefs comp t.parent) ∧ xtypeOf d.dts t = some x := by
  simp only [xsdSpec, List.mem_append, List.mem_filterMap, List.mem_filter, Bool.and_eq_true, Bool.not_eq_true']
  constructor
  · rintro (⟨t, ⟨ht, hg⟩, hx⟩ | ⟨t, ⟨ht, hc, _⟩, hx⟩)
    · exact ⟨t, ht, Or.inl ((global_iff tree _).mp hg), hx⟩
    · exact ⟨t, ht, Or.inr ((contained_iff tree comp _).mp hc), hx⟩
  · rintro ⟨t, ht, hs, hx⟩
    cases hg : isGlobal d.containers t.parent with
    | true => exact Or.inl ⟨t, ⟨ht, hg⟩, hx⟩
    | false =>
      rcases hs with hs | hs
      · rw [(global_iff tree _).mpr hs] at hg; cases hg
      · exact Or.inr ⟨t, ⟨ht, (contained_iff tree comp _).mpr hs, hg⟩, hx⟩

/-- WITHOUT package references global and contained exclude each other -/
theorem global_contained_disjoint {cs : List Container} {root : Nat} {p : Parent} (h : Reaches cs [] root p) : InComp cs p :=
  reaches_inComp h

/-! ### the two type loops of `build_schema` -/

/-- without package references: what is contained in a component is not global: both walks follow the same containers, and
    the one that reaches the component passes a C_C row, where `is_global` stops with False (no hypothesis on the
    containment needed) -/
theorem containedFuel_not_global (cs : List Container) (root : Nat) :
    ∀ (f : Nat) (p : Parent), containedFuel cs [] root f p = true → globalFuel cs f p = false := by
  intro f
  induction f with
  | zero => intro p h; simp [containedFuel] at h
  | succ f ih =>
    intro p h
    cases p with
    | none => simp [containedFuel] at h
    | pkg q =>
      simp only [containedFuel] at h
      simp only [globalFuel]
      cases hk : findContainer cs false q with
      | none => simp [hk] at h
      | some k =>
        simp only [hk, List.any_nil, Bool.or_false] at h ⊢
        exact ih _ h
    | comp c =>
      simp only [containedFuel] at h
      simp only [globalFuel]
      cases hk : findContainer cs true c with
      | none => simp [hk] at h
      | some k => simp

theorem contained_not_global_plain (cs : List Container) (root : Nat) (p : Parent) (h : containedIn cs [] root p = true) :
    isGlobal cs p = false :=
  containedFuel_not_global cs root _ p h

/-- the S_DT rows `build_schema` declares, in the order of its two loops: the global ones, then those contained in the
    component that are NOT global -/
def declaredDts (d : ClassDiagram) (comp : Nat) : List DataType :=
  d.dts.filter (fun t => isGlobal d.containers t.parent) ++
    d.dts.filter (fun t => containedIn d.containers d.pkgrefs comp t.parent && !isGlobal d.containers t.parent)

theorem xsdSpec_types_eq (d : ClassDiagram) (comp : Nat) :
    (xsdSpec d comp).types = (declaredDts d comp).filterMap (xtypeOf d.dts) := by
  unfold xsdSpec declaredDts
  simp only [List.filterMap_append]

theorem declaredDts_mem {d : ClassDiagram} {comp : Nat} {t : DataType} :
    t ∈ declaredDts d comp ↔
      t ∈ d.dts ∧ (isGlobal d.containers t.parent = true ∨ containedIn d.containers d.pkgrefs comp t.parent = true) := by
  unfold declaredDts
  simp only [List.mem_append, List.mem_filter, Bool.and_eq_true, Bool.not_eq_true']
  constructor
  · rintro (⟨h, hg⟩ | ⟨h, hc, _⟩)
    · exact ⟨h, Or.inl hg⟩
    · exact ⟨h, Or.inr hc⟩
  · rintro ⟨h, hs⟩
    cases hg : isGlobal d.containers t.parent with
    | true => exact Or.inl ⟨h, rfl⟩
    | false =>
      rcases hs with hs | hs
      · rw [hs] at hg; cases hg
      · exact Or.inr ⟨h, hs, rfl⟩

/-- no S_DT row is taken by both loops — whether or not it is global AND contained (a data type of a global package
    that a package of the component refers to is): the names of the declared rows are distinct when the names of the
    data types are -/
theorem declaredDts_names_nodup {d : ClassDiagram} (comp : Nat) (hn : (d.dts.map (·.name)).Nodup) :
    ((declaredDts d comp).map (·.name)).Nodup := by
  unfold declaredDts
  rw [List.map_append, List.nodup_append]
  refine ⟨List.Nodup.sublist (List.Sublist.map _ List.filter_sublist) hn,
    List.Nodup.sublist (List.Sublist.map _ List.filter_sublist) hn, ?_⟩
  intro a ha b hb hab
  obtain ⟨x, hx, rfl⟩ := List.mem_map.mp ha
  obtain ⟨y, hy, rfl⟩ := List.mem_map.mp hb
  obtain ⟨hxm, hxg⟩ := List.mem_filter.mp hx
  obtain ⟨hym, hyg⟩ := List.mem_filter.mp hy
  have := eq_of_key_eq (fun (t : DataType) => t.name) hn hxm hym hab
  subst this
  simp only [Bool.and_eq_true, Bool.not_eq_true'] at hyg
  rw [hyg.2] at hxg
  cases hxg

theorem xtypeOf_name {dts : List DataType} {t : DataType} {x : XType} (h : xtypeOf dts t = some x) : x.name = t.name := by
  unfold xtypeOf at h
  cases hk : t.kind with
  | core n =>
    rw [hk] at h
    cases hc : coreXs t.name with
    | none => simp [hc] at h
    | some b => simp only [hc, Option.map_some, Option.some.injEq] at h; subst h; rfl
  | enum es => rw [hk] at h; simp only [Option.some.injEq] at h; subst h; rfl
  | user b =>
    rw [hk] at h
    cases hc : typeNameOf dts b with
    | none => simp [hc] at h
    | some bn => simp only [hc, Option.map_some, Option.some.injEq] at h; subst h; rfl
  | other => rw [hk] at h; cases h

theorem filterMap_names_sublist (dts : List DataType) :
    ∀ l : List DataType, ((l.filterMap (xtypeOf dts)).map XType.name).Sublist (l.map (·.name)) := by
  intro l
  induction l with
  | nil => exact List.Sublist.slnil
  | cons a t ih =>
    simp only [List.filterMap_cons, List.map_cons]
    cases ha : xtypeOf dts a with
    | none => exact List.Sublist.cons _ ih
    | some x =>
      simp only [List.map_cons, xtypeOf_name ha]
      exact List.Sublist.cons_cons _ ih

/-- DECLARED EXACTLY ONCE: a declarable data type that is global or contained in the component — or both — has exactly
    one `xs:simpleType` of its name in the schema -/
theorem xsd_declared_once {d : ClassDiagram} (comp : Nat) (hn : (d.dts.map (·.name)).Nodup) {t : DataType} {x : XType}
    (ht : t ∈ d.dts)
    (hs : isGlobal d.containers t.parent = true ∨ containedIn d.containers d.pkgrefs comp t.parent = true)
    (hx : xtypeOf d.dts t = some x) :
    ((xsdSpec d comp).types.map XType.name).count t.name = 1 ∧ x ∈ (xsdSpec d comp).types := by
  rw [xsdSpec_types_eq]
  have hnd : (((declaredDts d comp).filterMap (xtypeOf d.dts)).map XType.name).Nodup :=
    List.Nodup.sublist (filterMap_names_sublist d.dts _) (declaredDts_names_nodup comp hn)
  have hmem : x ∈ (declaredDts d comp).filterMap (xtypeOf d.dts) :=
    List.mem_filterMap.mpr ⟨t, declaredDts_mem.mpr ⟨ht, hs⟩, hx⟩
  refine ⟨?_, hmem⟩
  rw [hnd.count, if_pos]
  exact List.mem_map.mpr ⟨x, hmem, xtypeOf_name hx⟩

/-- CONSERVATIVE EXTENSION: without EP_PKGREF rows the second loop's `and not is_global(...)` filters nothing — `xsdSpec`
    is what the reference-free model computed (global types, then the types contained in the component) -/
theorem xsdSpec_no_pkgref (d : ClassDiagram) (comp : Nat) (h : d.pkgrefs = []) :
    (xsdSpec d comp).types =
      (d.dts.filter (fun t => isGlobal d.containers t.parent)).filterMap (xtypeOf d.dts) ++
      (d.dts.filter (fun t => containedFuelPlain d.containers comp (d.containers.length + 1) t.parent)).filterMap (xtypeOf d.dts) ∧
    (xsdSpec d comp).classes =
      (d.classes.filter (fun c => containedFuelPlain d.containers comp (d.containers.length + 1) c.parent)).map (xclassAll d) := by
  unfold xsdSpec
  simp only [h]
  constructor
  · congr 2
    apply List.filter_congr
    intro t _
    cases hc : containedIn d.containers [] comp t.parent with
    | false =>
      have := containedFuel_no_pkgref d.containers comp (d.containers.length + 1) t.parent
      unfold containedIn at hc
      rw [← this, hc]; rfl
    | true =>
      have := containedFuel_no_pkgref d.containers comp (d.containers.length + 1) t.parent
      rw [contained_not_global_plain _ _ _ hc]
      unfold containedIn at hc
      rw [← this, hc]; rfl
  · congr 1
    apply List.filter_congr
    intro c _
    exact containedFuel_no_pkgref d.containers comp _ c.parent

end Pyx.Extract
