import Proofs.XsdText

/-!
  C20 — the declarations against a RELATIONAL specification: `Reaches` (containment chain reaches the component),
  `InComp` (a component on the chain), `BaseName` (base data type over R18), instead of the model's own functions.
-/

namespace Pyx.Extract

/-- an attribute is declared iff it is not derived and the data type of the attribute (for a referential one: of
    the base attribute it refers to) has a base name; it is named as modeled and typed by that name -/
theorem xattr_rel {d : ClassDiagram} (chain : DtChainOk d.dts) (a : Attr) (x : XAttr) :
    xattr d a = some x ↔
      a.isDerived = false ∧ x.name = a.name ∧ ∃ dt, attrDt d a = some dt ∧ BaseName d.dts dt x.ty := by
  rw [xattr_eq_some]
  constructor
  · rintro ⟨h1, h2, dt, h3, h4⟩
    exact ⟨h1, h2, dt, h3, (baseTypeName_iff chain dt x.ty).mp h4⟩
  · rintro ⟨h1, h2, dt, h3, h4⟩
    exact ⟨h1, h2, dt, h3, (baseTypeName_iff chain dt x.ty).mpr h4⟩

/-- the name under which a data type can be the base of a user type -/
theorem typeNameOf_rel (dts : List DataType) (b : Nat) (n : String) :
    typeNameOf dts b = some n ↔
      ∃ t, findDt dts b = some t ∧ t.name = n ∧ n ≠ "" ∧
        ((∃ k, t.kind = .core k ∧ 1 ≤ k ∧ k ≤ 5) ∨ (∃ es, t.kind = .enum es) ∨ (∃ b', t.kind = .user b')) := by
  unfold typeNameOf
  cases hf : findDt dts b with
  | none => simp
  | some t =>
    simp only [Option.some.injEq, exists_eq_left']
    by_cases hn : t.name = ""
    · simp only [hn, beq_self_eq_true, if_true]
      constructor
      · intro h; cases h
      · rintro ⟨h1, h2, _⟩; exact absurd h1.symm h2
    · have hb : (t.name == "") = false := by simp [hn]
      simp only [hb, Bool.false_eq_true, if_false]
      cases hk : t.kind with
      | core k =>
        simp only
        constructor
        · intro h
          split at h
          · rename_i hk'; cases h; exact ⟨rfl, hn, Or.inl ⟨k, rfl, hk'.1, hk'.2⟩⟩
          · cases h
        · rintro ⟨h1, _, h3⟩
          rcases h3 with ⟨k', hk', h1', h5'⟩ | ⟨es, he⟩ | ⟨b', hb'⟩
          · cases hk'; simp [h1', h5', h1]
          · cases he
          · cases hb'
      | enum es =>
        simp only [Option.some.injEq]
        constructor
        · intro h; exact ⟨h, h ▸ hn, Or.inr (Or.inl ⟨es, rfl⟩)⟩
        · rintro ⟨h1, _, _⟩; exact h1
      | user b' =>
        simp only [Option.some.injEq]
        constructor
        · intro h; exact ⟨h, h ▸ hn, Or.inr (Or.inr ⟨b', rfl⟩)⟩
        · rintro ⟨h1, _, _⟩; exact h1
      | other =>
        simp only
        constructor
        · intro h; cases h
        · rintro ⟨_, _, h3⟩
          rcases h3 with ⟨k', hk', _⟩ | ⟨es, he⟩ | ⟨b', hb'⟩
          · cases hk'
          · cases he
          · cases hb'

/-- the declared class elements, relationally: exactly the classes whose containment chain reaches the component -/
theorem xsd_classes_rel {d : ClassDiagram} (tree : TreeOk d.containers) (comp : Nat) (xc : XClass) :
    xc ∈ (xsdSpec d comp).classes ↔ ∃ c ∈ d.classes, Reaches d.containers comp c.parent ∧ xc = xclassAll d c := by
  simp only [xsdSpec, List.mem_map, List.mem_filter]
  constructor
  · rintro ⟨c, ⟨hc, hs⟩, rfl⟩
    exact ⟨c, hc, (contained_iff tree comp _).mp hs, rfl⟩
  · rintro ⟨c, hc, hr, rfl⟩
    exact ⟨c, ⟨hc, (contained_iff tree comp _).mpr hr⟩, rfl⟩

/-- the declared simple types, relationally: the declarable data types that have no component on their containment
    chain (global) or whose chain reaches the requested component -/
theorem xsd_types_rel {d : ClassDiagram} (tree : TreeOk d.containers) (comp : Nat) (x : XType) :
    x ∈ (xsdSpec d comp).types ↔
      ∃ t ∈ d.dts, (¬ InComp d.containers t.parent ∨ Reaches d.containers comp t.parent) ∧ xtypeOf d.dts t = some x := by
  simp only [xsdSpec, List.mem_append, List.mem_filterMap, List.mem_filter]
  constructor
  · rintro (⟨t, ⟨ht, hg⟩, hx⟩ | ⟨t, ⟨ht, hc⟩, hx⟩)
    · exact ⟨t, ht, Or.inl ((global_iff tree _).mp hg), hx⟩
    · exact ⟨t, ht, Or.inr ((contained_iff tree comp _).mp hc), hx⟩
  · rintro ⟨t, ht, hs | hs, hx⟩
    · exact Or.inl ⟨t, ⟨ht, (global_iff tree _).mpr hs⟩, hx⟩
    · exact Or.inr ⟨t, ⟨ht, (contained_iff tree comp _).mpr hs⟩, hx⟩

/-- a data type is never declared twice: global and contained exclude each other -/
theorem global_contained_disjoint {cs : List Container} {root : Nat} {p : Parent} (h : Reaches cs root p) : InComp cs p :=
  reaches_inComp h

/-! ### the two type loops of `build_schema` are disjoint -/

/-- what is contained in a component is not global: both walks follow the same containers, and the one that reaches the
    component passes a C_C row, where `is_global` stops with False (no hypothesis on the containment needed) -/
theorem containedFuel_not_global (cs : List Container) (root : Nat) :
    ∀ (f : Nat) (p : Parent), containedFuel cs root f p = true → globalFuel cs f p = false := by
  intro f
  induction f with
  | zero => intro p h; simp [containedFuel] at h
  | succ f ih =>
    intro p h
    cases p with
    | none => simp [containedFuel] at h
    | pkg q =>
      simp only [containedFuel] at h
      simp only [globalFuel]
      cases hk : findContainer cs false q with
      | none => simp [hk] at h
      | some k => simp only [hk] at h ⊢; exact ih _ h
    | comp c =>
      simp only [containedFuel] at h
      simp only [globalFuel]
      cases hk : findContainer cs true c with
      | none => simp [hk] at h
      | some k => simp

theorem contained_not_global (cs : List Container) (root : Nat) (p : Parent) (h : containedIn cs root p = true) :
    isGlobal cs p = false :=
  containedFuel_not_global cs root _ p h

end Pyx.Extract
