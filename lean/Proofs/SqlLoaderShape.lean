import PyxModel.Sql.Loader
import Proofs.SqlBuildShape

/-!
  C12 source tie of the three remaining tables of Gen/BuildShape.lean: GENERIC interpreters of
  * `buildMetamodel` (the statement list of `ModelLoader.build_metamodel`),
  * `inputSteps` (the order of "parse the whole text" / "extend self.statements" in `ModelLoader.input`),
  * `associationCalls` (the calls `populate_associations` makes per CREATE ROP statement),
  and the lemmas showing that the hand-written model (`build`, `Loader.input`, `popAssocs`) equals that interpretation
  of the tables generated from the current source, for all inputs.

  In all three interpreters `none` stands for an outcome the model does not have (a statement form the interpreter
  does not know, a name read before it is bound - NameError -, a function that ends without `return`).
-/
namespace Pyx.Sql
open Gen.BuildShape (Phase)

/-! ### `build_metamodel` -/

/-- the statement forms `build_metamodel` may consist of (over the translator's normalised local names) -/
inductive BMStmt where
  | create (v : String)        -- v = xtuml.MetaModel(id_generator)
  | populate (v : String)      -- self.populate(v)
  | ret (v : String)           -- return v
  | unknown
  deriving DecidableEq, Repr

def bmStmt : String → BMStmt
  | "v0 = xtuml.MetaModel(id_generator)" => .create "v0"
  | "v1 = xtuml.MetaModel(id_generator)" => .create "v1"
  | "self.populate(v0)" => .populate "v0"
  | "self.populate(v1)" => .populate "v1"
  | "return v0" => .ret "v0"
  | "return v1" => .ret "v1"
  | _ => .unknown

abbrev BMEnv := List (String × BState)

def bmGet (env : BMEnv) (v : String) : Option BState := (env.find? (fun p => p.1 == v)).map (·.2)

/-- `v = value` / mutation of the object bound to `v` -/
def bmSet (env : BMEnv) (v : String) (m : BState) : BMEnv := (v, m) :: env.filter (fun p => !(p.1 == v))

/-- run the statements of `build_metamodel`; `populate` is the generic phase runner on the generated phase order, it
    mutates the metamodel bound to its argument; an exception it raises ends the function (there is no handler in the
    statement list): NOTHING is returned, whatever the earlier phases did to the metamodel is unreachable -/
def iBuildMetamodel (u : UC) (stmts : List Stmt) (order : List Phase) : List String → BMEnv → Option (Except BuildErr BState)
  | [], _ => none
  | st :: rest, env =>
    match bmStmt st with
    | .create v => iBuildMetamodel u stmts order rest (bmSet env v BState.empty)
    | .populate v =>
      match bmGet env v with
      | none => none
      | some m =>
        match runPhases u stmts order m with
        | .error e => some (.error e)
        | .ok m' => iBuildMetamodel u stmts order rest (bmSet env v m')
    | .ret v => (bmGet env v).map .ok
    | .unknown => none

theorem build_eq_iBuildMetamodel (u : UC) (stmts : List Stmt) :
    iBuildMetamodel u stmts Gen.BuildShape.populateOrder Gen.BuildShape.buildMetamodel [] = some (build u stmts) := by
  rw [build_eq_runPhases]
  simp only [Gen.BuildShape.buildMetamodel, iBuildMetamodel, bmStmt, bmSet, bmGet]
  cases h : runPhases u stmts Gen.BuildShape.populateOrder BState.empty with
  | error e => simp [h]
  | ok m => simp [h]

/-- the generic phase runner, split at the first phase that raises: the phases before it ran (on the metamodel that is
    then dropped), the phases after it never run, and the exception is the result -/
theorem runPhases_raises (u : UC) (stmts : List Stmt) (p : Phase) (post : List Phase) (e : BuildErr) :
    ∀ (pre : List Phase) (s s' : BState), runPhases u stmts pre s = .ok s' → phaseFn u stmts p s' = .error e →
      runPhases u stmts (pre ++ p :: post) s = .error e
  | [], s, s', h, he => by
    simp only [runPhases, Except.ok.injEq] at h
    subst h
    simp [runPhases, he]
  | q :: pre, s, s', h, he => by
    simp only [List.cons_append, runPhases] at h ⊢
    cases hq : phaseFn u stmts q s with
    | error e' => simp [hq] at h
    | ok s1 =>
      simp only [hq] at h ⊢
      exact runPhases_raises u stmts p post e pre s1 s' h he

theorem runPhases_append (u : UC) (stmts : List Stmt) (post : List Phase) :
    ∀ (pre : List Phase) (s s' : BState), runPhases u stmts pre s = .ok s' →
      runPhases u stmts (pre ++ post) s = runPhases u stmts post s'
  | [], s, s', h => by
    simp only [runPhases, Except.ok.injEq] at h
    subst h
    rfl
  | q :: pre, s, s', h => by
    simp only [List.cons_append, runPhases] at h ⊢
    cases hq : phaseFn u stmts q s with
    | error e' => simp [hq] at h
    | ok s1 =>
      simp only [hq] at h ⊢
      exact runPhases_append u stmts post pre s1 s' h

/-! ### `input` -/

/-- `input`'s steps: `v = self.parser.parse(… input=data …)` parses the WHOLE text (an exception ends the call: the steps
    after it do not run), `self.statements.extend(v)` appends what `v` is bound to -/
def iInputSteps (u : UC) (text : Text) : List (String × String) → Loader → List (String × List Stmt) → Option (Loader × InputOutcome)
  | [], l, _ => some (l, .accepted)
  | (step, v) :: rest, l, env =>
    if step = "parse" then
      match classify u text with
      | .parsing => some (l, .parsing)
      | .accepted stmts => iInputSteps u text rest l ((v, stmts) :: env.filter (fun p => !(p.1 == v)))
    else if step = "extend" then
      match env.find? (fun p => p.1 == v) with
      | none => none
      | some p => iInputSteps u text rest ⟨l.statements ++ p.2⟩ env
    else none

theorem input_eq_iInputSteps (u : UC) (l : Loader) (text : Text) :
    iInputSteps u text Gen.BuildShape.inputSteps l [] = some (l.input u text) := by
  unfold Loader.input
  simp only [Gen.BuildShape.inputSteps, iInputSteps]
  cases h : classify u text with
  | parsing => simp
  | accepted stmts => simp

/-! ### `populate_associations` -/

/-- `MetaModel.define_association`: both classes are looked up, a reserved referential name, key lists of different
    lengths and a target key that names no attribute are refused, otherwise the association is recorded and returned -/
def defineAssocCall (u : UC) (s : BState) (a : AssocB) : Except BuildErr (BState × AssocB) :=
  match s.find? u a.srcKind, s.find? u a.tgtKind with
  | some _, some t =>
    if a.srcKeys.any isDunder then .error .metaErr
    else if a.srcKeys.length != a.tgtKeys.length then .error .metaErr
    else if a.tgtKeys.all (fun k => (t.attrs.map (fun x => u.upper x.1)).contains (u.upper k)) then
      .ok ({ s with assocs := s.assocs ++ [a] }, a)
    else .error .metaErr
  | _, _ => .error .metaErr

/-- `Association.formalize`: the source keys become referential attributes of the source class (it raises nothing) -/
def formalizeCall (u : UC) (s : BState) (a : AssocB) : BState :=
  s.update u a.srcKind (fun c => { c with referential := c.referential ++ a.srcKeys })

/-- the calls made for ONE CREATE ROP statement, in the listed order; `ass` = the association `define_association`
    returned (`formalize` is a method of it: without it, `none`) -/
def iAssocCalls (u : UC) (a : AssocB) : List String → BState → Option AssocB → Option (Except BuildErr BState)
  | [], s, _ => some (.ok s)
  | call :: rest, s, ass =>
    if call = "define_association" then
      match defineAssocCall u s a with
      | .error e => some (.error e)
      | .ok (s', r) => iAssocCalls u a rest s' (some r)
    else if call = "formalize" then
      match ass with
      | none => none
      | some r => iAssocCalls u a rest (formalizeCall u s r) ass
    else none

/-- `for stmt in self.statements: if not isinstance(stmt, CreateAssociationStmt): continue; <calls>` -/
def iPopAssocs (u : UC) (calls : List String) : List Stmt → BState → Option (Except BuildErr BState)
  | [], s => some (.ok s)
  | .createRop rel sk sc skeys sp tk tc tkeys tp :: rest, s =>
    match iAssocCalls u ⟨rel, sk, sc, skeys, sp, tk, tc, tkeys, tp⟩ calls s none with
    | none => none
    | some (.error e) => some (.error e)
    | some (.ok s') => iPopAssocs u calls rest s'
  | _ :: rest, s => iPopAssocs u calls rest s

theorem popAssocs_eq_iPopAssocs (u : UC) : ∀ (stmts : List Stmt) (s : BState),
    iPopAssocs u Gen.BuildShape.associationCalls stmts s = some (popAssocs u stmts s)
  | [], s => rfl
  | .createTable _ _ :: rest, s => by simp only [iPopAssocs, popAssocs]; exact popAssocs_eq_iPopAssocs u rest s
  | .createIndex _ _ _ :: rest, s => by simp only [iPopAssocs, popAssocs]; exact popAssocs_eq_iPopAssocs u rest s
  | .insert _ _ _ :: rest, s => by simp only [iPopAssocs, popAssocs]; exact popAssocs_eq_iPopAssocs u rest s
  | .createRop rel sk sc skeys sp tk tc tkeys tp :: rest, s => by
    simp only [iPopAssocs, popAssocs, Gen.BuildShape.associationCalls, iAssocCalls, defineAssocCall]
    cases h1 : s.find? u sk with
    | none => simp
    | some c1 =>
      cases h2 : s.find? u tk with
      | none => simp
      | some t =>
        simp only
        by_cases hd : skeys.any isDunder = true
        · simp [hd]
        · simp only [hd, Bool.false_eq_true, ↓reduceIte]
          by_cases hl : (skeys.length != tkeys.length) = true
          · simp [hl]
          · simp only [hl, Bool.false_eq_true, ↓reduceIte]
            by_cases hk : (tkeys.all fun k => (t.attrs.map fun x => u.upper x.1).contains (u.upper k)) = true
            · simp only [hk, ↓reduceIte]
              have := popAssocs_eq_iPopAssocs u rest
                { (s.update u sk fun c => { c with referential := c.referential ++ skeys }) with
                  assocs := (s.update u sk fun c => { c with referential := c.referential ++ skeys }).assocs ++
                    [⟨rel, sk, sc, skeys, sp, tk, tc, tkeys, tp⟩] }
              simpa [formalizeCall, BState.update, decide_true, Gen.BuildShape.associationCalls] using this
            · simp only [hk, Bool.false_eq_true, ↓reduceIte]

end Pyx.Sql
