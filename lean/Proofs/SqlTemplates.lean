import PyxModel.Sql.Printer

/-!
  The statement printers of the model (`Item.print`, PyxModel/Sql/Printer.lean) are, for EVERY item, what Python's
  `%` / `str.join` / `str.replace` make of the string constants that Gen/Persist.lean (`templates`) reads off
  xtuml/persist.py.  `pyFmt` is a generic interpreter of `template % args` for templates whose conversions are `%s`.
-/
namespace Pyx.Sql

/-- the `i`-th string constant (source order) of function `fn` of xtuml/persist.py, from the generated table -/
def tpl (fn : String) (i : Nat) : Text :=
  match Gen.Persist.templates.lookup fn with
  | some l => (l[i]?.getD "<no such constant>").toList
  | none => "<no such function>".toList

/-- the literal pieces of a format string between its `%s` conversions; `none`: another conversion (not interpreted) -/
def splitFmt : Text → Option (List Text)
  | [] => some [[]]
  | '%' :: 's' :: r => (splitFmt r).map ([] :: ·)
  | '%' :: _ => none
  | c :: r => (splitFmt r).map (fun ps => match ps with
      | [] => [[c]]
      | p :: ps => (c :: p) :: ps)

/-- pieces and arguments interleaved; `none`: Python's TypeError (too few / too many arguments) -/
def fillFmt : List Text → List Text → Option Text
  | [p], [] => some p
  | p :: q :: ps, a :: as => (fillFmt (q :: ps) as).map (fun r => p ++ a ++ r)
  | _, _ => none

/-- `template % (args…)` for `str` arguments -/
def pyFmt (t : Text) (args : List Text) : Option Text := (splitFmt t).bind (fun ps => fillFmt ps args)

/-- a list comprehension of calls that may raise -/
def mapOpt {α β : Type} (f : α → Option β) : List α → Option (List β)
  | [] => some []
  | a :: l =>
    match f a, mapOpt f l with
    | some b, some bs => some (b :: bs)
    | _, _ => none

theorem mapOpt_some {α β : Type} (f : α → Option β) (g : α → β) (h : ∀ a, f a = some (g a)) (l : List α) :
    mapOpt f l = some (l.map g) := by
  induction l with
  | nil => rfl
  | cons a l ih => simp [mapOpt, h, ih]

/-- `v.replace("'", "''")` computed by the generic `str.replace` -/
theorem replaceAllF_quote (s : Text) : ∀ f, s.length ≤ f → replaceAllF ['\''] ['\'', '\''] f s = escapeQ s := by
  induction s with
  | nil => intro f _; cases f <;> rfl
  | cons c cs ih =>
    intro f hf
    cases f with
    | zero => simp at hf
    | succ f =>
      have hf' : cs.length ≤ f := by simpa using hf
      simp only [replaceAllF, stripPrefix?]
      by_cases hc : '\'' = c
      · subst hc; simp [escapeQ, ih f hf']
      · have hc' : ¬ c = '\'' := fun h => hc h.symm
        simp [hc, hc', escapeQ, ih f hf']

theorem replaceAll_quote (s : Text) : replaceAll ['\''] ['\'', '\''] s = escapeQ s := by
  unfold replaceAll
  simp only [List.isEmpty_cons, Bool.false_eq_true, if_false]
  exact replaceAllF_quote s _ (Nat.le_refl _)

/-! ### the interpretation of each statement function over the generated constants -/

/-- `serialize_class`: the comprehension `'%s %s' % (name, ty.upper())`, the head, the join and the tail -/
def srcSerializeClass (u : UC) (kind : Name) (attrs : List (Name × Name)) : Option Text :=
  (mapOpt (fun a : Name × Name => pyFmt (tpl "serialize_class" 0) [a.1, u.upper a.2]) attrs).bind fun as =>
  (pyFmt (tpl "serialize_class" 1) [kind]).map fun s =>
    s ++ joinWith (tpl "serialize_class" 2) as ++ tpl "serialize_class" 3

/-- `s1` / `s2` of `serialize_association`; `k` = index of the end's first constant (0 / 5);
    `if phrase:` is Python's truth of a string: not empty -/
def srcEnd (k : Nat) (e : EndM) : Option Text :=
  (pyFmt (tpl "serialize_association" k)
      [cardText e.many e.cond, e.kind, joinWith (tpl "serialize_association" (k + 1)) e.keys]).bind fun s =>
  if e.phrase.isEmpty then some s
  else (pyFmt (tpl "serialize_association" (k + 2))
      [replaceAll (tpl "serialize_association" (k + 3)) (tpl "serialize_association" (k + 4)) e.phrase]).map fun p => s ++ p

def srcSerializeAssociation (rel : Name) (s t : EndM) : Option Text :=
  (srcEnd 0 s).bind fun s1 => (srcEnd 5 t).bind fun s2 => pyFmt (tpl "serialize_association" 10) [rel, s1, s2]

/-- the `CREATE UNIQUE INDEX` line of function `fn` whose `', '` constant has index `k` -/
def srcIndexLine (fn : String) (k : Nat) (name kind : Name) (attrs : List Name) : Option Text :=
  pyFmt (tpl fn (k + 1)) [name, kind, joinWith (tpl fn k) attrs]

/-- the loop of `serialize_instance`: `count` = `attr_count` before the iteration, `total` = `len(metaclass.attributes)` -/
def srcInstLoop (u : UC) (total : Nat) : Nat → List (Name × Name) → List (Option Val) → Option Text
  | _, [], _ => some []
  | _, _ :: _, [] => none
  | count, (name, ty) :: attrs, v :: vs =>
    match cellText u ty v,
      pyFmt (if count + 1 < total then tpl "serialize_instance" 2 else tpl "serialize_instance" 3) [name, ty],
      srcInstLoop u total (count + 1) attrs vs with
    | some txt, some cm, some rest => some (tpl "serialize_instance" 1 ++ txt ++ cm ++ rest)
    | _, _, _ => none

def srcSerializeInstance (u : UC) (kind : Name) (attrs : List (Name × Name)) (vals : List (Option Val)) : Option Text :=
  (pyFmt (tpl "serialize_instance" 0) [kind]).bind fun h =>
  (srcInstLoop u attrs.length 0 attrs vals).map fun ls => h ++ ls ++ tpl "serialize_instance" 4

theorem fmt_class0 (a b : Text) : pyFmt (tpl "serialize_class" 0) [a, b] = some (a ++ ' ' :: b) := by
  have h : splitFmt (tpl "serialize_class" 0) = some [[], [' '], []] := by decide
  simp [pyFmt, h, fillFmt]

theorem fmt_class1 (a : Text) : pyFmt (tpl "serialize_class" 1) [a] = some ("CREATE TABLE ".toList ++ a ++ " (\n    ".toList) := by
  have h : splitFmt (tpl "serialize_class" 1) = some ["CREATE TABLE ".toList, " (\n    ".toList] := by decide
  simp [pyFmt, h, fillFmt]

theorem srcSerializeClass_eq (u : UC) (kind : Name) (attrs : List (Name × Name)) :
    srcSerializeClass u kind attrs = (Item.cls kind attrs).print u := by
  unfold srcSerializeClass
  rw [mapOpt_some _ (fun a : Name × Name => a.1 ++ ' ' :: u.upper a.2) (fun a => fmt_class0 _ _)]
  simp only [Option.bind_some, fmt_class1, Option.map_some, Item.print]
  have h2 : tpl "serialize_class" 2 = ",\n    ".toList := by decide
  have h3 : tpl "serialize_class" 3 = "\n);\n".toList := by decide
  rw [h2, h3]

theorem fmt_end (k : Nat) (hk : k = 0 ∨ k = 5) (a b c : Text) :
    pyFmt (tpl "serialize_association" k) [a, b, c] = some (a ++ ' ' :: b ++ [' ', '('] ++ c ++ [')']) := by
  have h : splitFmt (tpl "serialize_association" k) = some [[], [' '], [' ', '('], [')']] := by
    rcases hk with rfl | rfl <;> decide
  simp [pyFmt, h, fillFmt]

theorem fmt_phrase (k : Nat) (hk : k = 0 ∨ k = 5) (a : Text) :
    pyFmt (tpl "serialize_association" (k + 2)) [a] = some (" PHRASE '".toList ++ a ++ ['\'']) := by
  have h : splitFmt (tpl "serialize_association" (k + 2)) = some [" PHRASE '".toList, ['\'']] := by
    rcases hk with rfl | rfl <;> decide
  simp [pyFmt, h, fillFmt]

theorem srcEnd_eq (k : Nat) (hk : k = 0 ∨ k = 5) (e : EndM) : srcEnd k e = some (endText e) := by
  have h1 : tpl "serialize_association" (k + 1) = [',', ' '] := by rcases hk with rfl | rfl <;> decide
  have h3 : tpl "serialize_association" (k + 3) = ['\''] := by rcases hk with rfl | rfl <;> decide
  have h4 : tpl "serialize_association" (k + 4) = ['\'', '\''] := by rcases hk with rfl | rfl <;> decide
  unfold srcEnd endText
  rw [fmt_end k hk, fmt_phrase k hk, h1, h3, h4, replaceAll_quote]
  by_cases hp : e.phrase.isEmpty <;> simp [hp]

theorem fmt_rop (a b c : Text) : pyFmt (tpl "serialize_association" 10) [a, b, c] =
    some ("CREATE ROP REF_ID ".toList ++ a ++ " FROM ".toList ++ b ++ " TO ".toList ++ c ++ ";\n".toList) := by
  have h : splitFmt (tpl "serialize_association" 10) =
      some ["CREATE ROP REF_ID ".toList, " FROM ".toList, " TO ".toList, ";\n".toList] := by decide
  simp [pyFmt, h, fillFmt]

theorem srcSerializeAssociation_eq (u : UC) (rel : Name) (s t : EndM) :
    srcSerializeAssociation rel s t = (Item.assoc rel s t).print u := by
  unfold srcSerializeAssociation
  rw [srcEnd_eq 0 (Or.inl rfl), srcEnd_eq 5 (Or.inr rfl)]
  simp only [Option.bind_some, fmt_rop, Item.print]

theorem srcIndexLine_eq (u : UC) (fn : String) (k : Nat)
    (h : (fn = "serialize_unique_identifiers" ∨ fn = "persist_unique_identifiers" ∨ fn = "persist_database") ∧ k = 1)
    (name kind : Name) (attrs : List Name) :
    srcIndexLine fn k name kind attrs = (Item.index name kind attrs).print u := by
  have hs : splitFmt (tpl fn (k + 1)) = some ["CREATE UNIQUE INDEX ".toList, " ON ".toList, " (".toList, ");\n".toList] := by
    rcases h with ⟨rfl | rfl | rfl, rfl⟩ <;> decide
  have hj : tpl fn k = [',', ' '] := by rcases h with ⟨rfl | rfl | rfl, rfl⟩ <;> decide
  unfold srcIndexLine
  simp [pyFmt, hs, hj, fillFmt, Item.print]

theorem fmt_comment (last : Bool) (a b : Text) :
    pyFmt (if last then tpl "serialize_instance" 3 else tpl "serialize_instance" 2) [a, b] =
      some ((if last then " -- ".toList else ", -- ".toList) ++ a ++ " : ".toList ++ b) := by
  cases last
  · have h : splitFmt (tpl "serialize_instance" 2) = some [", -- ".toList, " : ".toList, []] := by decide
    simp [pyFmt, h, fillFmt]
  · have h : splitFmt (tpl "serialize_instance" 3) = some [" -- ".toList, " : ".toList, []] := by decide
    simp [pyFmt, h, fillFmt]

theorem srcInstLoop_eq (u : UC) (total : Nat) : ∀ (attrs : List (Name × Name)) (vals : List (Option Val)) (count : Nat),
    count + attrs.length = total → srcInstLoop u total count attrs vals = valueLines u attrs vals := by
  intro attrs
  induction attrs with
  | nil => intro vals count _; simp [srcInstLoop, valueLines]
  | cons a attrs ih =>
    intro vals count hc
    obtain ⟨name, ty⟩ := a
    cases vals with
    | nil => simp [srcInstLoop, valueLines]
    | cons v vs =>
      have hlast : (if count + 1 < total then tpl "serialize_instance" 2 else tpl "serialize_instance" 3) =
          (if attrs.isEmpty then tpl "serialize_instance" 3 else tpl "serialize_instance" 2) := by
        cases attrs with
        | nil => simp at hc; simp [← hc]
        | cons b bs => simp at hc; have : count + 1 < total := by omega
                       simp [this]
      have h1 : tpl "serialize_instance" 1 = "\n    ".toList := by decide
      simp only [srcInstLoop, valueLines, hlast, fmt_comment, h1]
      rw [ih vs (count + 1) (by simp at hc; omega)]
      cases cellText u ty v <;> cases valueLines u attrs vs <;> simp

theorem srcSerializeInstance_eq (u : UC) (kind : Name) (attrs : List (Name × Name)) (vals : List (Option Val)) :
    srcSerializeInstance u kind attrs vals = (Item.inst kind attrs vals).print u := by
  have h0 : ∀ a, pyFmt (tpl "serialize_instance" 0) [a] = some ("INSERT INTO ".toList ++ a ++ " VALUES (".toList) := by
    intro a
    have h : splitFmt (tpl "serialize_instance" 0) = some ["INSERT INTO ".toList, " VALUES (".toList] := by decide
    simp [pyFmt, h, fillFmt]
  have h4 : tpl "serialize_instance" 4 = "\n);\n".toList := by decide
  unfold srcSerializeInstance
  rw [h0, srcInstLoop_eq u attrs.length attrs vals 0 (by simp), h4]
  simp only [Option.bind_some, Item.print]
  cases valueLines u attrs vals <;> simp

/-! ### the loop iterables of the routes, from the generated `orderings` -/

/-- the `i`-th loop iterable / sort key (source order) of function `fn` -/
def ord (fn : String) (i : Nat) : String :=
  match Gen.Persist.orderings.lookup fn with
  | some l => l[i]?.getD "<no such iterable>"
  | none => "<no such function>"

/-- what an iterable expression over the metaclasses denotes; `none`: an expression this interpreter does not know -/
def srcClassIter (u : UC) (m : MM) (e : String) : Option (List ClassM) :=
  if e = "sorted(metamodel.metaclasses.keys())" then some (m.sortedClasses u)
  else if e = "metamodel.metaclasses.values()" then some m.classes
  else none

/-- what an iterable expression over the associations denotes, given the text of the key lambda it names -/
def srcAssocIter (m : MM) (e key : String) : Option (List AssocM) :=
  if e = "sorted(metamodel.associations, key=orderby)" ∧ key = "lambda x: (x.rel_id, x.target_link.from_metaclass.kind)"
    then some m.assocsByIdKind
  else if e = "sorted(metamodel.associations, key=lambda x: x.rel_id)" ∧ key = "lambda x: x.rel_id" then some m.assocsById
  else none

/-- `metamodel.instances`: class by class in dict order, each class's storage in order -/
def srcInstIter (m : MM) (e : String) : Option (List Item) :=
  if e = "metamodel.instances" then some (m.classes.flatMap ClassM.instItems) else none

/-- `metaclass.indices.items()` -/
def srcIndexIter (c : ClassM) (e : String) : Option (List Item) :=
  if e = "metaclass.indices.items()" then some c.indexItems else none

theorem routes_orderings (u : UC) (m : MM) :
    (srcClassIter u m (ord "serialize_classes" 0)).map (·.map ClassM.item) = some (m.serializeClasses u) ∧
    (srcAssocIter m (ord "serialize_associations" 1) (ord "serialize_associations" 0)).map (·.map AssocM.item) =
      some m.serializeAssociations ∧
    srcInstIter m (ord "serialize_instances" 0) = some m.serializeInstances ∧
    (srcClassIter u m (ord "serialize_unique_identifiers" 0)).bind
        (fun cs => (mapOpt (fun c => srcIndexIter c (ord "serialize_unique_identifiers" 1)) cs).map List.flatten) =
      some (m.serializeUniqueIdentifiers u) ∧
    srcInstIter m (ord "persist_instances" 0) = some m.persistInstances ∧
    ((srcClassIter u m (ord "persist_schema" 0)).bind fun cs =>
      (srcAssocIter m (ord "persist_schema" 1) (ord "persist_schema" 2)).map fun as =>
        cs.map ClassM.item ++ as.map AssocM.item) = some (m.persistSchema u) ∧
    (srcClassIter u m (ord "persist_unique_identifiers" 0)).bind
        (fun cs => (mapOpt (fun c => srcIndexIter c (ord "persist_unique_identifiers" 1)) cs).map List.flatten) =
      some m.persistUniqueIdentifiers ∧
    ((srcClassIter u m (ord "persist_database" 0)).bind fun cs =>
      (mapOpt (fun c => (srcIndexIter c (ord "persist_database" 1)).map (c.item :: ·)) cs).bind fun cis =>
      (srcAssocIter m (ord "persist_database" 2) (ord "persist_database" 3)).bind fun as =>
      (srcInstIter m (ord "persist_database" 4)).map fun is =>
        cis.flatten ++ as.map AssocM.item ++ is) = some (m.persistDatabase u) := by
  have e1 : ord "serialize_classes" 0 = "sorted(metamodel.metaclasses.keys())" := by decide
  have e2 : ord "serialize_associations" 1 = "sorted(metamodel.associations, key=orderby)" := by decide
  have e3 : ord "serialize_associations" 0 = "lambda x: (x.rel_id, x.target_link.from_metaclass.kind)" := by decide
  have e4 : ord "serialize_instances" 0 = "metamodel.instances" := by decide
  have e5 : ord "serialize_unique_identifiers" 0 = "sorted(metamodel.metaclasses.keys())" := by decide
  have e6 : ord "serialize_unique_identifiers" 1 = "metaclass.indices.items()" := by decide
  have e7 : ord "persist_instances" 0 = "metamodel.instances" := by decide
  have e8 : ord "persist_schema" 0 = "sorted(metamodel.metaclasses.keys())" := by decide
  have e9 : ord "persist_schema" 1 = "sorted(metamodel.associations, key=lambda x: x.rel_id)" := by decide
  have e10 : ord "persist_schema" 2 = "lambda x: x.rel_id" := by decide
  have e11 : ord "persist_unique_identifiers" 0 = "metamodel.metaclasses.values()" := by decide
  have e12 : ord "persist_unique_identifiers" 1 = "metaclass.indices.items()" := by decide
  have e13 : ord "persist_database" 0 = "sorted(metamodel.metaclasses.keys())" := by decide
  have e14 : ord "persist_database" 1 = "metaclass.indices.items()" := by decide
  have e15 : ord "persist_database" 2 = "sorted(metamodel.associations, key=lambda x: x.rel_id)" := by decide
  have e16 : ord "persist_database" 3 = "lambda x: x.rel_id" := by decide
  have e17 : ord "persist_database" 4 = "metamodel.instances" := by decide
  rw [e1, e2, e3, e4, e5, e6, e7, e8, e9, e10, e11, e12, e13, e14, e15, e16, e17]
  have hi : ∀ cs : List ClassM, mapOpt (fun c => srcIndexIter c "metaclass.indices.items()") cs = some (cs.map ClassM.indexItems) :=
    fun cs => mapOpt_some _ _ (fun c => by simp [srcIndexIter]) cs
  have hj : ∀ cs : List ClassM, mapOpt (fun c => (srcIndexIter c "metaclass.indices.items()").map (c.item :: ·)) cs =
      some (cs.map (fun c => c.item :: c.indexItems)) :=
    fun cs => mapOpt_some _ _ (fun c => by simp [srcIndexIter]) cs
  simp [srcClassIter, srcAssocIter, srcInstIter, hi, hj, MM.serializeClasses, MM.serializeAssociations, MM.serializeInstances,
    MM.serializeUniqueIdentifiers, MM.persistInstances, MM.persistSchema, MM.persistUniqueIdentifiers, MM.persistDatabase,
    List.flatMap_def]

end Pyx.Sql
