import PyxModel.Sql.Chars

/-! helper lemmas: numerals and character classes of PyxModel/Sql/Chars.lean -/
namespace Pyx.Sql

/-! ### digit characters -/

theorem digitChar_isAsciiDigit (d : Nat) : isAsciiDigit (digitChar d) = true := by
  unfold digitChar; split <;> decide

theorem digitVal_digitChar {d : Nat} (h : d < 10) : digitVal (digitChar d) = d := by
  match d, h with
  | 0, _ => decide | 1, _ => decide | 2, _ => decide | 3, _ => decide | 4, _ => decide
  | 5, _ => decide | 6, _ => decide | 7, _ => decide | 8, _ => decide | 9, _ => decide

theorem hexChar_isAsciiHex (d : Nat) : isAsciiHex (hexChar d) = true := by
  unfold hexChar; split <;> decide

theorem hexVal_hexChar {d : Nat} (h : d < 16) : hexVal (hexChar d) = d := by
  match d, h with
  | 0, _ => decide | 1, _ => decide | 2, _ => decide | 3, _ => decide | 4, _ => decide
  | 5, _ => decide | 6, _ => decide | 7, _ => decide | 8, _ => decide | 9, _ => decide
  | 10, _ => decide | 11, _ => decide | 12, _ => decide | 13, _ => decide | 14, _ => decide | 15, _ => decide
  | n + 16, h => exact absurd h (by omega)

theorem hexChar_ne_dash (d : Nat) : hexChar d ≠ '-' := by
  unfold hexChar; split <;> decide

theorem hexChar_ne_u (d : Nat) : hexChar d ≠ 'u' := by
  unfold hexChar; split <;> decide

theorem hexChar_not_brace (d : Nat) : (hexChar d = '{' || hexChar d = '}') = false := by
  unfold hexChar; split <;> decide

theorem hexChar_ne_dquote (d : Nat) : hexChar d ≠ '"' := by
  unfold hexChar; split <;> decide

theorem hexChar_ne_backslash (d : Nat) : hexChar d ≠ '\\' := by
  unfold hexChar; split <;> decide

theorem hexChar_ne_newline (d : Nat) : hexChar d ≠ '\n' := by
  unfold hexChar; split <;> decide

/-- an ASCII digit differs from every character that is not an ASCII digit -/
theorem ne_of_isAsciiDigit {c x : Char} (hc : isAsciiDigit c = true) (hx : isAsciiDigit x = false) : c ≠ x := by
  intro h; subst h; rw [hc] at hx; exact Bool.noConfusion hx

theorem isAsciiDigit_lt_128 {c : Char} (hc : isAsciiDigit c = true) : c.toNat < 128 := by
  simp only [isAsciiDigit, Bool.and_eq_true, decide_eq_true_eq] at hc; omega

theorem UC.isDigit_of_ascii (u : UC) {c : Char} (hc : isAsciiDigit c = true) : u.isDigit c = true := by
  unfold UC.isDigit; rw [if_pos (isAsciiDigit_lt_128 hc)]; exact hc

theorem UC.isDigit_ascii_eq (u : UC) {c : Char} (h : c.toNat < 128) : u.isDigit c = isAsciiDigit c := by
  unfold UC.isDigit; rw [if_pos h]

theorem UC.isWord_ascii_eq (u : UC) {c : Char} (h : c.toNat < 128) : u.isWord c = isAsciiWord c := by
  unfold UC.isWord; rw [if_pos h]

theorem isAsciiWord_lt_128 {c : Char} (hc : isAsciiWord c = true) : c.toNat < 128 := by
  simp only [isAsciiWord, isAsciiAlpha, isAsciiUpper, isAsciiLower, isAsciiDigit, Bool.or_eq_true, Bool.and_eq_true,
    decide_eq_true_eq, beq_iff_eq] at hc
  rcases hc with ((⟨_, _⟩ | ⟨_, _⟩) | ⟨_, _⟩) | h
  · omega
  · omega
  · omega
  · subst h; decide

theorem UC.isWord_of_ascii (u : UC) {c : Char} (hc : isAsciiWord c = true) : u.isWord c = true := by
  rw [u.isWord_ascii_eq (isAsciiWord_lt_128 hc)]; exact hc

theorem isAsciiWord_of_digit {c : Char} (hc : isAsciiDigit c = true) : isAsciiWord c = true := by
  simp [isAsciiWord, hc]

/-! ### decimal numerals -/

theorem digitsRev_lt (n : Nat) : ∀ d ∈ digitsRev n, d < 10 := by
  induction n using Nat.strongRecOn with
  | _ n ih =>
    intro d hd
    rw [digitsRev] at hd
    split at hd
    · simp at hd; omega
    · simp only [List.mem_cons] at hd
      rcases hd with h | h
      · omega
      · exact ih (n / 10) (by omega) d h

theorem digits_lt (n : Nat) : ∀ d ∈ digits n, d < 10 := by
  intro d hd; exact digitsRev_lt n d (by simpa [digits] using hd)

theorem digitsRev_ne_nil (n : Nat) : digitsRev n ≠ [] := by
  rw [digitsRev]; split <;> simp

theorem digits_ne_nil (n : Nat) : digits n ≠ [] := by
  simp [digits, digitsRev_ne_nil]

/-- value of a little-endian digit list -/
def ofDigitsRev : List Nat → Nat
  | [] => 0
  | d :: ds => d + 10 * ofDigitsRev ds

theorem ofDigitsB_append (b : Nat) (xs : List Nat) (d : Nat) : ofDigitsB b (xs ++ [d]) = b * ofDigitsB b xs + d := by
  simp [ofDigitsB, List.foldl_append]

theorem ofDigits_reverse (ds : List Nat) : ofDigits ds.reverse = ofDigitsRev ds := by
  induction ds with
  | nil => rfl
  | cons d ds ih =>
    rw [List.reverse_cons, ofDigits, ofDigitsB_append]
    change 10 * ofDigits ds.reverse + d = _
    rw [ih, ofDigitsRev]; omega

theorem ofDigitsRev_digitsRev (n : Nat) : ofDigitsRev (digitsRev n) = n := by
  induction n using Nat.strongRecOn with
  | _ n ih =>
    rw [digitsRev]
    split
    · simp [ofDigitsRev]
    · rw [ofDigitsRev, ih (n / 10) (by omega)]; omega

/-- the decimal numeral of `n` denotes `n` -/
theorem ofDigits_digits (n : Nat) : ofDigits (digits n) = n := by
  rw [digits, ofDigits_reverse, ofDigitsRev_digitsRev]

theorem map_digitVal_map_digitChar (ds : List Nat) (h : ∀ d ∈ ds, d < 10) : (ds.map digitChar).map digitVal = ds := by
  induction ds with
  | nil => rfl
  | cons d ds ih =>
    simp only [List.map_cons]
    rw [digitVal_digitChar (h d (by simp)), ih (fun x hx => h x (by simp [hx]))]

/-- reading back `'%d' % n` -/
theorem natOfText_natText (n : Nat) : natOfText (natText n) = n := by
  rw [natOfText, natText, map_digitVal_map_digitChar _ (digits_lt n), ofDigits_digits]

theorem natText_all_digit (n : Nat) : ∀ c ∈ natText n, isAsciiDigit c = true := by
  intro c hc
  simp only [natText, List.mem_map] at hc
  obtain ⟨d, _, rfl⟩ := hc
  exact digitChar_isAsciiDigit d

theorem natText_ne_nil (n : Nat) : natText n ≠ [] := by
  simp [natText, digits_ne_nil]

/-! ### fixed-width numerals -/

theorem fixedDigits_length (b w n : Nat) : (fixedDigits b w n).length = w := by
  induction w generalizing n with
  | zero => rfl
  | succ w ih => simp [fixedDigits, ih]

theorem fixedDigits_lt (b : Nat) (hb : 0 < b) (w n : Nat) : ∀ d ∈ fixedDigits b w n, d < b := by
  induction w generalizing n with
  | zero => intro d hd; simp [fixedDigits] at hd
  | succ w ih =>
    intro d hd
    simp only [fixedDigits, List.mem_append, List.mem_singleton] at hd
    rcases hd with h | h
    · exact ih _ d h
    · subst h; exact Nat.mod_lt _ hb

theorem ofDigitsB_fixedDigits (b : Nat) (hb : 0 < b) (w n : Nat) (h : n < b ^ w) :
    ofDigitsB b (fixedDigits b w n) = n := by
  induction w generalizing n with
  | zero => simp [fixedDigits, ofDigitsB] at *; omega
  | succ w ih =>
    rw [fixedDigits, ofDigitsB_append, ih (n / b)]
    · exact Nat.div_add_mod n b
    · rw [Nat.div_lt_iff_lt_mul hb]; rw [Nat.pow_succ] at h; exact h

/-! ### takeWhile / dropWhile -/

theorem takeWhile_append_of_all {α : Type} (p : α → Bool) (xs ys : List α) (h : ∀ x ∈ xs, p x = true) :
    (xs ++ ys).takeWhile p = xs ++ ys.takeWhile p := by
  induction xs with
  | nil => rfl
  | cons x xs ih =>
    simp only [List.cons_append, List.takeWhile_cons, h x (by simp), if_true]
    rw [ih (fun y hy => h y (by simp [hy]))]

theorem dropWhile_append_of_all {α : Type} (p : α → Bool) (xs ys : List α) (h : ∀ x ∈ xs, p x = true) :
    (xs ++ ys).dropWhile p = ys.dropWhile p := by
  induction xs with
  | nil => rfl
  | cons x xs ih =>
    simp only [List.cons_append, List.dropWhile_cons, h x (by simp), if_true]
    exact ih (fun y hy => h y (by simp [hy]))

theorem takeWhile_of_head_false {α : Type} (p : α → Bool) (ys : List α) (h : ∀ y, ys.head? = some y → p y = false) :
    ys.takeWhile p = [] := by
  cases ys with
  | nil => rfl
  | cons y ys => simp [h y rfl]

theorem dropWhile_of_head_false {α : Type} (p : α → Bool) (ys : List α) (h : ∀ y, ys.head? = some y → p y = false) :
    ys.dropWhile p = ys := by
  cases ys with
  | nil => rfl
  | cons y ys => simp [h y rfl]

/-- a run of `p` characters followed by a text that does not start with one -/
theorem takeWhile_run {α : Type} (p : α → Bool) (xs ys : List α) (h : ∀ x ∈ xs, p x = true)
    (hy : ∀ y, ys.head? = some y → p y = false) : (xs ++ ys).takeWhile p = xs := by
  rw [takeWhile_append_of_all p xs ys h, takeWhile_of_head_false p ys hy, List.append_nil]

theorem dropWhile_run {α : Type} (p : α → Bool) (xs ys : List α) (h : ∀ x ∈ xs, p x = true)
    (hy : ∀ y, ys.head? = some y → p y = false) : (xs ++ ys).dropWhile p = ys := by
  rw [dropWhile_append_of_all p xs ys h, dropWhile_of_head_false p ys hy]

end Pyx.Sql
