import PyxModel.Interp.Spec
import Proofs.InterpCalls

/-!
  The value of the executed return, through any nesting.

  `RetInv`: whenever a statement — however deeply the `return` sits in blocks, ifs, elifs, loops — completes with the
  outcome `ret`, a "return event" happened (some expression was evaluated to a value `v` and the register set to `v`), and
  everything that ran AFTER the event (only the unwinding: leaving blocks) changed neither the state nor the register.
  Together with `presRet` (no `ret` outcome ⇒ register untouched) this pins the result of an invocation down:
  it is the value of the one executed `return <expr>`, else nothing.
-/
set_option linter.unusedSectionVars false
namespace Pyx.Interp
open M

/-- an expression was evaluated to `v` and the return register set to `v` -/
def RetEvent (rec : Oracle) (c1 : Cfg) : Prop :=
  ∃ e c0 v cE, rec.eval e c0 = some (.ok (v, cE)) ∧ c1 = { cE with fr := { cE.fr with ret := v } }

/-- same state, same register -/
def SameSR (c1 c' : Cfg) : Prop := c'.st = c1.st ∧ c'.fr.ret = c1.fr.ret

def RetInv (rec : Oracle) (m : M Out) : Prop :=
  ∀ c o c', m c = some (.ok (o, c')) → o = .ret → ∃ c1, RetEvent rec c1 ∧ SameSR c1 c'

theorem retInv_pure {rec : Oracle} (o : Out) (ho : o ≠ .ret) : RetInv rec (pure o) := by
  intro c o' c' h hr
  have : M.ret' o c = some (.ok (o', c')) := h
  simp [M.ret'] at this
  exact absurd (this.1.trans hr) ho

theorem retInv_fail {rec : Oracle} (msg : String) : RetInv rec (fail msg) := by
  intro c o c' h; simp [fail] at h

theorem retInv_bind {α : Type} {rec : Oracle} (m : M α) {f : α → M Out} (hf : ∀ a, RetInv rec (f a)) :
    RetInv rec (m >>= f) := by
  intro c o c' h hr
  obtain ⟨a, c1, _, h2⟩ := bind_ok_inv h
  exact hf a c1 o c' h2 hr

theorem retInv_seq {rec : Oracle} {m : M Out} {g : Out → M Out} (hm : RetInv rec m)
    (hg : ∀ o, o ≠ .ret → RetInv rec (g o))
    (hret : ∀ c1 o c', g .ret c1 = some (.ok (o, c')) → SameSR c1 c') : RetInv rec (m >>= g) := by
  intro c o c' h hr
  obtain ⟨o1, c1, h1, h2⟩ := bind_ok_inv h
  by_cases ho1 : o1 = .ret
  · subst ho1
    obtain ⟨ce, hev, hs⟩ := hm c .ret c1 h1 rfl
    have hs2 := hret c1 o c' h2
    exact ⟨ce, hev, hs2.1.trans hs.1, hs2.2.trans hs.2⟩
  · exact hg o1 ho1 c1 o c' h2 hr

theorem sameSR_pure {c1 c' : Cfg} {o o' : Out} (h : (pure o : M Out) c1 = some (.ok (o', c'))) : SameSR c1 c' := by
  have : M.ret' o c1 = some (.ok (o', c')) := h
  simp [M.ret'] at this
  rw [← this.2]; exact ⟨rfl, rfl⟩

section
variable {C : Ctx} {r : Oracle} (hs : ∀ s, RetInv r (r.exec s))
include hs

theorem retInv_execList : ∀ l, RetInv r (execList r l)
  | [] => retInv_pure _ (by decide)
  | s :: rest => by
    unfold execList
    apply retInv_seq (hs s)
    · intro o ho
      cases o <;> first | exact retInv_execList rest | exact retInv_pure _ (by decide) | exact absurd rfl ho
    · intro c1 o c' h; exact sameSR_pure h

theorem retInv_execBlock (b : Block) : RetInv r (execBlock r b) := by
  unfold execBlock
  apply retInv_bind; intro _
  apply retInv_seq (retInv_execList hs b)
  · intro o ho
    apply retInv_bind; intro _
    exact retInv_pure o ho
  · intro c1 o c' h
    obtain ⟨_, c2, h1, h2⟩ := bind_ok_inv h
    rw [popBlock_run c1] at h1
    simp at h1
    have := sameSR_pure h2
    rw [← h1] at this
    exact this

theorem retInv_execElifs : ∀ l els, RetInv r (execElifs r l els)
  | [], none => retInv_pure _ (by decide)
  | [], some b => retInv_execBlock hs b
  | (c, b) :: rest, els => by
    unfold execElifs
    apply retInv_bind; intro v
    apply retInv_bind; intro t
    cases t
    · exact retInv_execElifs rest els
    · exact retInv_execBlock hs b

theorem retInv_forItems (v : String) (body : Block) : ∀ l, RetInv r (forItems r v body l)
  | [] => retInv_pure _ (by decide)
  | i :: rest => by
    unfold forItems
    apply retInv_bind; intro _
    apply retInv_seq (retInv_execBlock hs body)
    · intro o ho
      cases o <;> first | exact retInv_forItems v body rest | exact retInv_pure _ (by decide) | exact absurd rfl ho
    · intro c1 o c' h; exact sameSR_pure h

/-- statements that complete normally after a sequence of actions -/
syntax "ret_normal" : tactic
macro_rules
  | `(tactic| ret_normal) => `(tactic| repeat (first | exact retInv_pure _ (by decide) | exact retInv_fail _ | (apply retInv_bind; intro _)))

theorem retInv_execStep (s : Stmt) : RetInv r (execStep C r s) := by
  cases s with
  | assignVar x e => unfold execStep; ret_normal
  | assignField hx name e => unfold execStep; ret_normal
  | ifS c thn elifs els =>
    unfold execStep
    apply retInv_bind; intro v
    apply retInv_bind; intro t
    cases t
    · exact retInv_execElifs hs _ _
    · exact retInv_execBlock hs _
  | whileS c body =>
    unfold execStep
    apply retInv_bind; intro v
    apply retInv_bind; intro t
    cases t
    · exact retInv_pure _ (by decide)
    · simp only [if_true]
      apply retInv_seq (retInv_execBlock hs body)
      · intro o ho
        cases o <;> first | exact hs _ | exact retInv_pure _ (by decide) | exact absurd rfl ho
      · intro c1 o c' h; exact sameSR_pure h
  | forEach v setv body =>
    unfold execStep
    apply retInv_bind; intro s
    cases s <;> first | exact retInv_forItems hs _ _ _ | exact retInv_fail _
  | brk => exact retInv_pure _ (by decide)
  | cont => exact retInv_pure _ (by decide)
  | stop => exact retInv_pure _ (by decide)
  | ret e =>
    cases e with
    | none => exact retInv_pure _ (by decide)
    | some e =>
      intro c o c' h _
      simp only [execStep] at h
      obtain ⟨v, c1, h1, h2⟩ := bind_ok_inv h
      have h3 : (some (Except.ok (Out.ret, { c1 with fr := { c1.fr with ret := v } })) : Res Out) = some (.ok (o, c')) := h2
      simp at h3
      exact ⟨c', ⟨e, c, v, c1, h1, h3.2.symm⟩, rfl, rfl⟩
  | create v cls =>
    unfold execStep
    apply retInv_bind; intro i
    cases v <;> simp only <;> ret_normal
  | delete v => unfold execStep; ret_normal
  | relate a b rel phrase => unfold execStep; ret_normal
  | relateUsing a b rel phrase u => unfold execStep; ret_normal
  | unrelate a b rel phrase => unfold execStep; ret_normal
  | unrelateUsing a b rel phrase u => unfold execStep; ret_normal
  | selectFrom many v cls wh => unfold execStep; ret_normal
  | selectRelated many v hx chain wh => unfold execStep; ret_normal
  | invoke e => unfold execStep; ret_normal

end

theorem retEvent_mono {r r' : Oracle} (h : Oracle.le r r') {c1 : Cfg} (he : RetEvent r c1) : RetEvent r' c1 := by
  obtain ⟨e, c0, v, cE, h1, h2⟩ := he
  exact ⟨e, c0, v, cE, h.1 e c0 _ h1, h2⟩

theorem retInv_mono {r r' : Oracle} (h : Oracle.le r r') {m : M Out} (hm : RetInv r m) : RetInv r' m := by
  intro c o c' hc hr
  obtain ⟨c1, he, hs⟩ := hm c o c' hc hr
  exact ⟨c1, retEvent_mono h he, hs⟩

theorem retInv_run (C : Ctx) : ∀ n s, RetInv (run C n) ((run C n).exec s)
  | 0 => fun _ _ _ _ h => by simp [run] at h
  | n + 1 => fun s =>
    retInv_mono (run_le_succ C n) (retInv_execStep (C := C) (retInv_run C n) s)

/-- **the result of an invocation is the value of the executed `return <expr>`**, wherever in the body — nested in
    blocks, if / elif / else, while, for each — that return sits: either the body completed without a value return and
    the invocation delivers nothing, or some expression was evaluated to exactly the delivered value (and after that
    evaluation nothing but unwinding happened: same state, same register) -/
theorem invoke_delivers_executed_return {C : Ctx} {n : Nat} {kind : WalkerKind} {body : Block}
    {kw : List (String × Val)} {self : Val} {c c2 : Cfg} {v : Val} (hk : NotDerived kind)
    (h : invoke (run C n) kind body kw self c = some (.ok (v, c2))) :
    (v = .none ∧ ∃ o c', execBlock (run C n) body { fr := mkFrame kind kw self, st := c.st } = some (.ok (o, c')) ∧ o ≠ .ret) ∨
    (∃ e c0 cE c', (run C n).eval e c0 = some (.ok (v, cE)) ∧
        execBlock (run C n) body { fr := mkFrame kind kw self, st := c.st } = some (.ok (.ret, c')) ∧
        c'.st = cE.st ∧ c2.st = cE.st) := by
  obtain ⟨c', hrb, hv', hc2⟩ := invoke_ok_inv h
  unfold runBody at hrb
  obtain ⟨o, c1, hb, hrest⟩ := bind_ok_inv hrb
  have hc : c' = c1 := by
    cases o <;> first
      | (have : M.ret' () c1 = some (.ok ((), c')) := hrest
         simp [M.ret'] at this; exact this.symm)
      | (simp [fail] at hrest)
  subst hc
  by_cases ho : o = .ret
  · subst ho
    right
    have hinv := retInv_execBlock (retInv_run C n) body _ .ret c' hb rfl
    obtain ⟨ce, ⟨e, c0, w, cE, hev, hce⟩, hs1, hs2⟩ := hinv
    have hvw : v = w := by rw [hv', hs2, hce]
    subst hvw
    refine ⟨e, c0, cE, c', hev, hb, ?_, ?_⟩
    · rw [hs1, hce]
    · rw [hc2]; show c'.st = cE.st; rw [hs1, hce]
  · left
    have hp := presRet_execBlock (rfr_run C n) (presRet_run C n) body _ o c' hb hk
    exact ⟨by rw [hv', hp.2 ho]; rfl, o, c', hb, ho⟩

/-! ### for the non-vacuity examples of Props/C15.lean -/

def valOfR {α : Type} (r : Res α) : Option α := match r with | some (.ok (v, _)) => some v | _ => none

theorem ok_of_valOfR {α : Type} {r : Res α} {v : α} (h : valOfR r = some v) : ∃ c', r = some (.ok (v, c')) := by
  unfold valOfR at h
  split at h
  · rename_i w c; cases h; exact ⟨c, rfl⟩
  · cases h

end Pyx.Interp
