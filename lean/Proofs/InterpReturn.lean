import PyxModel.Interp.Spec
import Proofs.InterpCalls
import Proofs.InterpEffects

/-!
  The value of the executed return, through any nesting — with the witness TIED to the body.

  `RetInv`: whenever a statement — however deeply the `return` sits in blocks, ifs, elifs, loops — completes with the
  outcome `ret`, there is a statement `return e` that OCCURS in it (`Occ`, the sub-statement relation), whose
  expression `e` was evaluated in a configuration `c0` that is LINKED to the configuration the statement started in
  (`Rlink`: same walker kind, same parameters, same `self` — the same frame identity — and a state reached from the
  start state by a history of successful state operations), to the value `v` that is in the register at the end; and
  after that evaluation only unwinding happened (the final state is the state right after the evaluation).
-/
set_option linter.unusedSectionVars false
set_option linter.unusedVariables false
namespace Pyx.Interp
open M

/-! ### sub-statements -/

/-- `t` occurs in `s`: `s` itself, or (recursively) a statement of one of its blocks -/
inductive Occ (t : Stmt) : Stmt → Prop
  | self : Occ t t
  | ifThen {c : Expr} {thn : Block} {elifs : List (Expr × Block)} {els : Option Block} {s : Stmt} :
      s ∈ thn → Occ t s → Occ t (.ifS c thn elifs els)
  | ifElif {c : Expr} {thn : Block} {elifs : List (Expr × Block)} {els : Option Block} {p : Expr × Block} {s : Stmt} :
      p ∈ elifs → s ∈ p.2 → Occ t s → Occ t (.ifS c thn elifs els)
  | ifElse {c : Expr} {thn : Block} {elifs : List (Expr × Block)} {b : Block} {s : Stmt} :
      s ∈ b → Occ t s → Occ t (.ifS c thn elifs (some b))
  | whileB {c : Expr} {body : Block} {s : Stmt} : s ∈ body → Occ t s → Occ t (.whileS c body)
  | forB {v setv : String} {body : Block} {s : Stmt} : s ∈ body → Occ t s → Occ t (.forEach v setv body)

/-- `t` occurs in the block `b` -/
def OccB (t : Stmt) (b : Block) : Prop := ∃ s ∈ b, Occ t s

/-! ### the link between two configurations of one activation -/

/-- the frame identity: walker kind, parameters, self (variables and the return register may differ) -/
def Rid (c c' : Cfg) : Prop := c'.fr.kind = c.fr.kind ∧ c'.fr.params = c.fr.params ∧ c'.fr.self = c.fr.self

/-- same activation, and the state of `c'` is reached from the state of `c` by a history of state operations -/
def Rlink (C : Ctx) (c c' : Cfg) : Prop := Rid c c' ∧ Reach C c.st c'.st

theorem Rlink_po (C : Ctx) : PreOrder (Rlink C) :=
  ⟨fun c => ⟨⟨rfl, rfl, rfl⟩, (reach_ops C).refl _⟩,
   fun a b c h1 h2 => ⟨⟨h2.1.1.trans h1.1.1, h2.1.2.1.trans h1.1.2.1, h2.1.2.2.trans h1.1.2.2⟩,
     (reach_ops C).trans _ _ _ h1.2 h2.2⟩⟩

section
variable {C : Ctx}

theorem NL {α : Type} {m : M α} (h : Neutral m) : Pres (Rlink C) m := pres_of_neutral (Rlink_po C) h

/-- frame kept entirely (`Rfr` / `StateOnly`) + the state relation -/
theorem rl_of_rfr {α : Type} {m : M α} (h1 : Pres Rfr m) (h2 : Pres (RS (Reach C)) m) : Pres (Rlink C) m := by
  intro c a c' hc
  have hf := h1 c a c' hc
  unfold Rfr at hf
  exact ⟨by rw [Rid, hf]; exact ⟨rfl, rfl, rfl⟩, h2 c a c' hc⟩

theorem rl_setEnv (env : Env) : Pres (Rlink C) (setEnv env) := by
  intro c a c' h
  simp [setEnv] at h; rw [← h]; exact ⟨⟨rfl, rfl, rfl⟩, (reach_ops C).refl _⟩

theorem rl_setRet (v : Val) : Pres (Rlink C) (setRet v) := by
  intro c a c' h
  simp [setRet] at h; rw [← h]; exact ⟨⟨rfl, rfl, rfl⟩, (reach_ops C).refl _⟩

theorem rl_install (x : String) (v : Val) : Pres (Rlink C) (install x v) := by
  unfold install
  apply pres_bind (Rlink_po C) (NL neutral_getFr); intro _
  exact rl_setEnv _

theorem rl_pushBlock : Pres (Rlink C) pushBlock := by
  unfold pushBlock
  apply pres_bind (Rlink_po C) (NL neutral_getFr); intro _
  exact rl_setEnv _

theorem rl_popBlock : Pres (Rlink C) popBlock := by
  unfold popBlock
  apply pres_bind (Rlink_po C) (NL neutral_getFr); intro _
  exact rl_setEnv _

theorem rl_modifySt {f : State → Except Err State} (hf : ∀ st st', f st = .ok st' → Reach C st st') :
    Pres (Rlink C) (modifySt f) :=
  rl_of_rfr (fun c a c' h => stateOnly_modifySt f c a c' h) (rs_modifySt (reach_ops C) hf)

theorem rl_modifyGet {α : Type} {f : State → Except Err (α × State)}
    (hf : ∀ st a st', f st = .ok (a, st') → Reach C st st') : Pres (Rlink C) (M.modifyGet f) :=
  rl_of_rfr (fun c a c' h => stateOnly_modifyGet f c a c' h) (rs_modifyGet (reach_ops C) hf)

end

/-! ### the invariant -/

/-- `In t`: the statements that count as "occurring" in what `m` executes -/
def RetInv (C : Ctx) (rec : Oracle) (In : Stmt → Prop) (m : M Out) : Prop :=
  ∀ c o c', m c = some (.ok (o, c')) →
    Rlink C c c' ∧
    (o = .ret → ∃ e c0 v cE, In (.ret (some e)) ∧ Rlink C c c0 ∧ rec.eval e c0 = some (.ok (v, cE)) ∧
      c'.st = cE.st ∧ c'.fr.ret = v)

section
variable {C : Ctx} {rec : Oracle}

theorem retInv_weaken {In In' : Stmt → Prop} (h : ∀ t, In t → In' t) {m : M Out} (hm : RetInv C rec In m) :
    RetInv C rec In' m := by
  intro c o c' hc
  obtain ⟨hl, hev⟩ := hm c o c' hc
  refine ⟨hl, fun ho => ?_⟩
  obtain ⟨e, c0, v, cE, hin, h1, h2, h3, h4⟩ := hev ho
  exact ⟨e, c0, v, cE, h _ hin, h1, h2, h3, h4⟩

theorem retInv_pure {In : Stmt → Prop} (o : Out) (ho : o ≠ .ret) : RetInv C rec In (pure o) := by
  intro c o' c' h
  have : M.ret' o c = some (.ok (o', c')) := h
  simp [M.ret'] at this
  obtain ⟨rfl, rfl⟩ := this
  exact ⟨(Rlink_po C).refl _, fun hr => absurd hr ho⟩

theorem retInv_fail {In : Stmt → Prop} (msg : String) : RetInv C rec In (fail msg) := by
  intro c o c' h; simp [fail] at h

theorem retInv_bind {α : Type} {In : Stmt → Prop} {m : M α} {f : α → M Out} (hm : Pres (Rlink C) m)
    (hf : ∀ a, RetInv C rec In (f a)) : RetInv C rec In (m >>= f) := by
  intro c o c' h
  obtain ⟨a, c1, h1, h2⟩ := bind_ok_inv h
  have l1 := hm c a c1 h1
  obtain ⟨l2, hev⟩ := hf a c1 o c' h2
  refine ⟨(Rlink_po C).trans _ _ _ l1 l2, fun ho => ?_⟩
  obtain ⟨e, c0, v, cE, hin, hl0, he, hs, hr⟩ := hev ho
  exact ⟨e, c0, v, cE, hin, (Rlink_po C).trans _ _ _ l1 hl0, he, hs, hr⟩

theorem retInv_of_link {α : Type} {In : Stmt → Prop} {m : M α} (o : Out) (ho : o ≠ .ret) (h : Pres (Rlink C) m) :
    RetInv C rec In (m >>= fun _ => pure o) :=
  retInv_bind h (fun _ => retInv_pure o ho)

/-- after a statement: continue with `g`; after `return` only unwind -/
theorem retInv_seq {In : Stmt → Prop} {m : M Out} {g : Out → M Out} (hm : RetInv C rec In m)
    (hg : ∀ o, o ≠ .ret → RetInv C rec In (g o))
    (hret : ∀ c1 o c', g .ret c1 = some (.ok (o, c')) → Rlink C c1 c' ∧ c'.st = c1.st ∧ c'.fr.ret = c1.fr.ret) :
    RetInv C rec In (m >>= g) := by
  intro c o c' h
  obtain ⟨o1, c1, h1, h2⟩ := bind_ok_inv h
  obtain ⟨l1, hev1⟩ := hm c o1 c1 h1
  by_cases ho1 : o1 = .ret
  · subst ho1
    obtain ⟨l2, hs2, hr2⟩ := hret c1 o c' h2
    refine ⟨(Rlink_po C).trans _ _ _ l1 l2, fun _ => ?_⟩
    obtain ⟨e, c0, v, cE, hin, hl0, he, hs, hr⟩ := hev1 rfl
    exact ⟨e, c0, v, cE, hin, hl0, he, hs2.trans hs, hr2.trans hr⟩
  · obtain ⟨l2, hev⟩ := hg o1 ho1 c1 o c' h2
    refine ⟨(Rlink_po C).trans _ _ _ l1 l2, fun ho => ?_⟩
    obtain ⟨e, c0, v, cE, hin, hl0, he, hs, hr⟩ := hev ho
    exact ⟨e, c0, v, cE, hin, (Rlink_po C).trans _ _ _ l1 hl0, he, hs, hr⟩

theorem pure_unwind {c1 c' : Cfg} {o o' : Out} (h : (pure o : M Out) c1 = some (.ok (o', c'))) :
    Rlink C c1 c' ∧ c'.st = c1.st ∧ c'.fr.ret = c1.fr.ret := by
  have : M.ret' o c1 = some (.ok (o', c')) := h
  simp [M.ret'] at this
  rw [← this.2]; exact ⟨(Rlink_po C).refl _, rfl, rfl⟩

end

section
variable {C : Ctx} {r : Oracle}
variable (he : ∀ e, Pres Rfr (r.eval e)) (he2 : ∀ e, Pres (RS (Reach C)) (r.eval e))
variable (hs2 : ∀ s, Pres (RS (Reach C)) (r.exec s))
variable (hs : ∀ s, RetInv C r (fun t => Occ t s) (r.exec s))
include he he2 hs2 hs

theorem rl_eval (e : Expr) : Pres (Rlink C) (r.eval e) := rl_of_rfr (he e) (he2 e)

theorem retInv_execList : ∀ l, RetInv C r (fun t => OccB t l) (execList r l)
  | [] => retInv_pure _ (by decide)
  | s :: rest => by
    unfold execList
    apply retInv_seq (retInv_weaken (fun t ht => ⟨s, List.mem_cons_self, ht⟩) (hs s))
    · intro o ho
      cases o <;> first
        | exact retInv_weaken (fun t ⟨s', hm, ht⟩ => ⟨s', List.mem_cons_of_mem _ hm, ht⟩) (retInv_execList rest)
        | exact retInv_pure _ (by decide)
        | exact absurd rfl ho
    · intro c1 o c' h; exact pure_unwind h

theorem retInv_execBlock (b : Block) : RetInv C r (fun t => OccB t b) (execBlock r b) := by
  unfold execBlock
  apply retInv_bind rl_pushBlock; intro _
  apply retInv_seq (retInv_execList he he2 hs2 hs b)
  · intro o ho
    exact retInv_of_link o ho rl_popBlock
  · intro c1 o c' h
    obtain ⟨_, c2, h1, h2⟩ := bind_ok_inv h
    have hl := rl_popBlock (C := C) c1 _ c2 h1
    rw [popBlock_run c1] at h1
    simp at h1
    obtain ⟨l2, hs', hr'⟩ := pure_unwind (C := C) h2
    refine ⟨(Rlink_po C).trans _ _ _ hl l2, ?_, ?_⟩
    · rw [hs', ← h1]
    · rw [hr', ← h1]

/-- the statements of an elif chain with its else part -/
def InElifs (l : List (Expr × Block)) (els : Option Block) (t : Stmt) : Prop :=
  (∃ p ∈ l, OccB t p.2) ∨ (∃ b, els = some b ∧ OccB t b)

theorem retInv_execElifs : ∀ l els, RetInv C r (InElifs l els) (execElifs r l els)
  | [], none => retInv_pure _ (by decide)
  | [], some b => retInv_weaken (fun t ht => Or.inr ⟨b, rfl, ht⟩) (retInv_execBlock he he2 hs2 hs b)
  | (c, b) :: rest, els => by
    unfold execElifs
    apply retInv_bind (rl_eval he he2 hs2 hs c); intro v
    apply retInv_bind (NL (neutral_asBool v)); intro t
    cases t
    · apply retInv_weaken _ (retInv_execElifs rest els)
      intro t ht
      rcases ht with ⟨p, hp, ho⟩ | h
      · exact Or.inl ⟨p, List.mem_cons_of_mem _ hp, ho⟩
      · exact Or.inr h
    · exact retInv_weaken (fun t ht => Or.inl ⟨(c, b), List.mem_cons_self, ht⟩) (retInv_execBlock he he2 hs2 hs b)

theorem retInv_forItems (v : String) (body : Block) : ∀ l, RetInv C r (fun t => OccB t body) (forItems r v body l)
  | [] => retInv_pure _ (by decide)
  | i :: rest => by
    unfold forItems
    apply retInv_bind (rl_install _ _); intro _
    apply retInv_seq (retInv_execBlock he he2 hs2 hs body)
    · intro o ho
      cases o <;> first | exact retInv_forItems v body rest | exact retInv_pure _ (by decide) | exact absurd rfl ho
    · intro c1 o c' h; exact pure_unwind h

theorem rl_evalWhere (wh : Expr) (c : Inst) : Pres (Rlink C) (evalWhere r wh c) := by
  unfold evalWhere
  apply pres_bind (Rlink_po C) rl_pushBlock; intro _
  apply pres_bind (Rlink_po C) (rl_install _ _); intro _
  apply pres_bind (Rlink_po C) (rl_eval he he2 hs2 hs wh); intro v
  apply pres_bind (Rlink_po C) rl_popBlock; intro _
  exact NL (neutral_asBool v)

theorem rl_filterAll (wh : Expr) : ∀ l, Pres (Rlink C) (filterAll r wh l)
  | [] => NL (neutral_pure _)
  | c :: rest => by
    unfold filterAll
    apply pres_bind (Rlink_po C) (rl_evalWhere he he2 hs2 hs wh c); intro t
    apply pres_bind (Rlink_po C) (rl_filterAll wh rest); intro _
    exact NL (neutral_pure _)

theorem rl_filterFirst (wh : Expr) : ∀ l, Pres (Rlink C) (filterFirst r wh l)
  | [] => NL (neutral_pure _)
  | c :: rest => by
    unfold filterFirst
    apply pres_bind (Rlink_po C) (rl_evalWhere he he2 hs2 hs wh c); intro t
    cases t
    · exact rl_filterFirst wh rest
    · exact NL (neutral_pure _)

theorem rl_selectResult (many : Bool) (cands : List Inst) (wh : Option Expr) :
    Pres (Rlink C) (selectResult r many cands wh) := by
  unfold selectResult
  cases many <;> cases wh <;> simp only
  · exact NL (neutral_pure _)
  · apply pres_bind (Rlink_po C) (rl_filterFirst he he2 hs2 hs _ _); intro _; exact NL (neutral_pure _)
  · exact NL (neutral_pure _)
  · apply pres_bind (Rlink_po C) (rl_filterAll he he2 hs2 hs _ _); intro _; exact NL (neutral_pure _)

theorem rl_writeField (i : Inst) (name : String) (v : Val) : Pres (Rlink C) (writeField C i name v) := by
  unfold writeField
  apply pres_bind (Rlink_po C) (NL neutral_getFr); intro fr
  cases regHit fr i name
  · simp only [Bool.false_eq_true, if_false]
    split
    · exact NL (neutral_fail _)
    · exact rl_modifySt (fun _ _ h => (reach_ops C).setAttr trivial h)
  · exact rl_setRet _

theorem retInv_execStep (s : Stmt) : RetInv C r (fun t => Occ t s) (execStep C r s) := by
  have E : ∀ e, Pres (Rlink C) (r.eval e) := rl_eval he he2 hs2 hs
  cases s with
  | assignVar x e =>
    unfold execStep
    apply retInv_bind (E e); intro _
    exact retInv_of_link _ (by decide) (rl_install _ _)
  | assignField hx name e =>
    unfold execStep
    apply retInv_bind (E e); intro _
    apply retInv_bind (E hx); intro v
    apply retInv_bind (NL (neutral_asInst v)); intro _
    exact retInv_of_link _ (by decide) (rl_writeField he he2 hs2 hs _ _ _)
  | ifS c thn elifs els =>
    unfold execStep
    apply retInv_bind (E c); intro v
    apply retInv_bind (NL (neutral_asBool v)); intro t
    cases t
    · apply retInv_weaken _ (retInv_execElifs he he2 hs2 hs elifs els)
      intro t ht
      rcases ht with ⟨p, hp, s', hs', ho⟩ | ⟨b, rfl, s', hs', ho⟩
      · exact Occ.ifElif hp hs' ho
      · exact Occ.ifElse hs' ho
    · exact retInv_weaken (fun t ⟨s', hs', ho⟩ => Occ.ifThen hs' ho) (retInv_execBlock he he2 hs2 hs thn)
  | whileS c body =>
    unfold execStep
    apply retInv_bind (E c); intro v
    apply retInv_bind (NL (neutral_asBool v)); intro t
    cases t
    · exact retInv_pure _ (by decide)
    · simp only [if_true]
      apply retInv_seq (retInv_weaken (fun t ⟨s', hs', ho⟩ => Occ.whileB hs' ho) (retInv_execBlock he he2 hs2 hs body))
      · intro o ho
        cases o <;> first | exact hs _ | exact retInv_pure _ (by decide) | exact absurd rfl ho
      · intro c1 o c' h; exact pure_unwind h
  | forEach v setv body =>
    unfold execStep
    apply retInv_bind (NL (neutral_lookupVar C _)); intro s
    cases s <;> first
      | exact retInv_weaken (fun t ⟨s', hs', ho⟩ => Occ.forB hs' ho) (retInv_forItems he he2 hs2 hs _ _ _)
      | exact retInv_fail _
  | brk => exact retInv_pure _ (by decide)
  | cont => exact retInv_pure _ (by decide)
  | stop => exact retInv_pure _ (by decide)
  | ret e =>
    cases e with
    | none => exact retInv_pure _ (by decide)
    | some e =>
      intro c o c' h
      simp only [execStep] at h
      obtain ⟨v, c1, h1, h2⟩ := bind_ok_inv h
      have l1 := E e c v c1 h1
      have h3 : (some (Except.ok (Out.ret, { c1 with fr := { c1.fr with ret := v } })) : Res Out) = some (.ok (o, c')) := h2
      simp at h3
      obtain ⟨_, rfl⟩ := h3
      refine ⟨⟨l1.1, l1.2⟩, fun _ => ⟨e, c, v, c1, Occ.self, (Rlink_po C).refl _, h1, rfl, rfl⟩⟩
  | create v cls =>
    unfold execStep
    apply retInv_bind (rl_modifyGet (fun _ _ _ h => (reach_ops C).newInst h)); intro i
    cases v with
    | none =>
      simp only
      first
        | exact retInv_pure _ (by decide)
        | exact retInv_of_link _ (by decide) (NL (neutral_pure _))
    | some x => simp only; exact retInv_of_link _ (by decide) (rl_install _ _)
  | delete v =>
    unfold execStep
    apply retInv_bind (NL (neutral_lookupVar C _)); intro x
    apply retInv_bind (NL (neutral_asInst x)); intro i
    exact retInv_of_link _ (by decide) (rl_modifySt (fun _ _ h => (reach_ops C).deleteInst h))
  | relate a b rel phrase =>
    unfold execStep
    apply retInv_bind (NL (neutral_lookupVar C _)); intro x
    apply retInv_bind (NL (neutral_asInst x)); intro _
    apply retInv_bind (NL (neutral_lookupVar C _)); intro y
    apply retInv_bind (NL (neutral_asInst y)); intro _
    exact retInv_of_link _ (by decide) (rl_modifySt (fun _ _ h => (reach_ops C).relate h))
  | relateUsing a b rel phrase u =>
    unfold execStep
    apply retInv_bind (NL (neutral_lookupVar C _)); intro x
    apply retInv_bind (NL (neutral_asInst x)); intro _
    apply retInv_bind (NL (neutral_lookupVar C _)); intro y
    apply retInv_bind (NL (neutral_asInst y)); intro _
    apply retInv_bind (NL (neutral_lookupVar C _)); intro w
    apply retInv_bind (NL (neutral_asInst w)); intro _
    exact retInv_of_link _ (by decide) (rl_modifySt (fun _ _ h => (reach_ops C).relateUsing h))
  | unrelate a b rel phrase =>
    unfold execStep
    apply retInv_bind (NL (neutral_lookupVar C _)); intro x
    apply retInv_bind (NL (neutral_asInst x)); intro _
    apply retInv_bind (NL (neutral_lookupVar C _)); intro y
    apply retInv_bind (NL (neutral_asInst y)); intro _
    exact retInv_of_link _ (by decide) (rl_modifySt (fun _ _ h => (reach_ops C).unrelate h))
  | unrelateUsing a b rel phrase u =>
    unfold execStep
    apply retInv_bind (NL (neutral_lookupVar C _)); intro x
    apply retInv_bind (NL (neutral_asInst x)); intro _
    apply retInv_bind (NL (neutral_lookupVar C _)); intro y
    apply retInv_bind (NL (neutral_asInst y)); intro _
    apply retInv_bind (NL (neutral_lookupVar C _)); intro w
    apply retInv_bind (NL (neutral_asInst w)); intro _
    exact retInv_of_link _ (by decide) (rl_modifySt (fun _ _ h => (reach_ops C).unrelateUsing h))
  | selectFrom many v cls wh =>
    unfold execStep
    apply retInv_bind (NL (neutral_querySt _)); intro _
    apply retInv_bind (rl_selectResult he he2 hs2 hs _ _ _); intro _
    exact retInv_of_link _ (by decide) (rl_install _ _)
  | selectRelated many v hx chain wh =>
    unfold execStep
    apply retInv_bind (E hx); intro hv
    apply retInv_bind (NL (neutral_startOf hv)); intro _
    apply retInv_bind (NL (neutral_querySt _)); intro _
    apply retInv_bind (rl_selectResult he he2 hs2 hs _ _ _); intro _
    exact retInv_of_link _ (by decide) (rl_install _ _)
  | invoke e =>
    unfold execStep
    exact retInv_of_link _ (by decide) (E e)

end

theorem retInv_mono {C : Ctx} {r r' : Oracle} (h : Oracle.le r r') {In : Stmt → Prop} {m : M Out}
    (hm : RetInv C r In m) : RetInv C r' In m := by
  intro c o c' hc
  obtain ⟨hl, hev⟩ := hm c o c' hc
  refine ⟨hl, fun ho => ?_⟩
  obtain ⟨e, c0, v, cE, hin, h1, h2, h3, h4⟩ := hev ho
  exact ⟨e, c0, v, cE, hin, h1, h.1 e c0 _ h2, h3, h4⟩

theorem retInv_run (C : Ctx) : ∀ n s, RetInv C (run C n) (fun t => Occ t s) ((run C n).exec s)
  | 0 => fun _ _ _ _ h => by simp [run] at h
  | n + 1 => fun s =>
    retInv_mono (run_le_succ C n)
      (retInv_execStep (C := C) (rfr_run C n) (reach_run C n).1 (reach_run C n).2 (retInv_run C n) s)

/-- the same for the body of a callable -/
theorem retInv_body (C : Ctx) (n : Nat) (b : Block) : RetInv C (run C n) (fun t => OccB t b) (execBlock (run C n) b) :=
  retInv_execBlock (rfr_run C n) (reach_run C n).1 (reach_run C n).2 (retInv_run C n) b

/-- **the result of an invocation is the value of a `return <expr>` of ITS body, evaluated in ITS activation**:
    either the body completed without a value return and the invocation delivers nothing, or there is a statement
    `return e` occurring in the body (at any depth: blocks, if / elif / else, while, for each) whose expression was
    evaluated — in a configuration `c0` of the callee's own activation (its walker kind, its parameters bound by
    name, its self) whose state is reached from the state at the call by a history of state operations — to exactly
    the delivered value; after that evaluation nothing but unwinding happened: the state handed back to the caller
    is the state right after the evaluation. -/
theorem invoke_delivers_executed_return {C : Ctx} {n : Nat} {kind : WalkerKind} {body : Block}
    {kw : List (String × Val)} {self : Val} {c c2 : Cfg} {v : Val} (hk : NotDerived kind)
    (h : invoke (run C n) kind body kw self c = some (.ok (v, c2))) :
    (v = .none ∧ ∃ o c', execBlock (run C n) body { fr := mkFrame kind kw self, st := c.st } = some (.ok (o, c')) ∧ o ≠ .ret) ∨
    (∃ e c0 cE c', OccB (.ret (some e)) body ∧
        c0.fr.kind = kind ∧ c0.fr.params = paramsOf kw ∧ c0.fr.self = self ∧ Reach C c.st c0.st ∧
        (run C n).eval e c0 = some (.ok (v, cE)) ∧
        execBlock (run C n) body { fr := mkFrame kind kw self, st := c.st } = some (.ok (.ret, c')) ∧
        c'.st = cE.st ∧ c2.st = cE.st) := by
  obtain ⟨c', hrb, hv', hc2⟩ := invoke_ok_inv h
  unfold runBody at hrb
  obtain ⟨o, c1, hb, hrest⟩ := bind_ok_inv hrb
  have hc : c' = c1 := by
    cases o <;> first
      | (have : M.ret' () c1 = some (.ok ((), c')) := hrest
         simp [M.ret'] at this; exact this.symm)
      | (simp [fail] at hrest)
  subst hc
  by_cases ho : o = .ret
  · subst ho
    right
    obtain ⟨_, hev⟩ := retInv_body C n body _ .ret c' hb
    obtain ⟨e, c0, w, cE, hin, hl, hev', hs1, hs2⟩ := hev rfl
    have hvw : v = w := by rw [hv', hs2]
    subst hvw
    exact ⟨e, c0, cE, c', hin, hl.1.1, hl.1.2.1, hl.1.2.2, hl.2, hev', hb, hs1, by rw [hc2]; exact hs1⟩
  · left
    have hp := presRet_execBlock (rfr_run C n) (presRet_run C n) body _ o c' hb hk
    exact ⟨by rw [hv', hp.2 ho]; rfl, o, c', hb, ho⟩

/-! ### for the non-vacuity examples of Props/C15.lean -/

def valOfR {α : Type} (r : Res α) : Option α := match r with | some (.ok (v, _)) => some v | _ => none

theorem ok_of_valOfR {α : Type} {r : Res α} {v : α} (h : valOfR r = some v) : ∃ c', r = some (.ok (v, c')) := by
  unfold valOfR at h
  split at h
  · rename_i w c; cases h; exact ⟨c, rfl⟩
  · cases h

end Pyx.Interp
