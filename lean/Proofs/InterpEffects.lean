import PyxModel.Interp.Spec
import Proofs.InterpPres
import Proofs.InterpWF

/-!
  Every change a program makes to the relational state is made by one of the state operations
  (`newInst`, `deleteInst`, `relate`, `unrelate`, `setAttr`; `relate … using` / `unrelate … using` are two of them).

  Part 1 is the preservation proof of `Proofs/InterpWF.lean` once more, for an ARBITRARY reflexive-transitive relation
  `P` on states that the state operations respect (`StateOps C N P`; attribute writes only for the attribute names `N`
  allows): then every evaluation, every ALLOWED statement (`Ok`, a predicate closed under sub-statements whose
  attribute assignments name `N`-attributes only — `OkClosed`) and every whole run respects `P` — whatever the nesting,
  the calls, the fuel.
  Part 2 instantiates `P` with "reachable by a history of successful state operations" (`Reach C`, every statement
  allowed) and with "… whose attribute writes name `N`-attributes only" (`ReachN C N`, the statements `StmtOk N`).
-/
set_option linter.unusedSectionVars false
set_option linter.unusedVariables false
namespace Pyx.Interp
open M

/-- a relation on relational states that is reflexive, transitive and respected by every state operation of `Spec` -/
structure StateOps (C : Ctx) (N : String → Prop) (P : State → State → Prop) : Prop where
  refl : ∀ st, P st st
  trans : ∀ a b c, P a b → P b c → P a c
  newInst : ∀ {cls st i st'}, newInst C cls st = .ok (i, st') → P st st'
  deleteInst : ∀ {i st st'}, deleteInst i st = .ok st' → P st st'
  relate : ∀ {x y rel phrase st st'}, relate C x y rel phrase st = .ok st' → P st st'
  unrelate : ∀ {x y rel phrase st st'}, unrelate C x y rel phrase st = .ok st' → P st st'
  setAttr : ∀ {i name v st st'}, N name → setAttr C i name v st = .ok st' → P st st'

/-- which statements are allowed: closed under sub-statements; an attribute assignment names an attribute `N` allows -/
structure OkClosed (N : String → Prop) (Ok : Stmt → Prop) : Prop where
  assignField : ∀ {h name e}, Ok (.assignField h name e) → N name
  ifThen : ∀ {c thn elifs els}, Ok (.ifS c thn elifs els) → ∀ s ∈ thn, Ok s
  ifElif : ∀ {c thn elifs els}, Ok (.ifS c thn elifs els) → ∀ p ∈ elifs, ∀ s ∈ p.2, Ok s
  ifElse : ∀ {c thn elifs b}, Ok (.ifS c thn elifs (some b)) → ∀ s ∈ b, Ok s
  whileB : ∀ {c body}, Ok (.whileS c body) → ∀ s ∈ body, Ok s
  forB : ∀ {v setv body}, Ok (.forEach v setv body) → ∀ s ∈ body, Ok s

theorem mem_of_findCallable {C : Ctx} {p : Callable → Bool} {f : Callable} (h : findCallable C p = some f) :
    f ∈ C.callables := List.mem_of_find?_eq_some h

theorem mem_of_resolveNs {C : Ctx} {ns name : String} {f : Callable} (h : resolveNs C ns name = some f) :
    f ∈ C.callables := by
  unfold resolveNs at h
  split at h
  · rename_i g hg; cases h; exact mem_of_findCallable hg
  · exact mem_of_findCallable h

/-- `P` lifted to configurations (the frame is free) -/
def RS (P : State → State → Prop) (c c' : Cfg) : Prop := P c.st c'.st

section
variable {C : Ctx} {N : String → Prop} {P : State → State → Prop} (H : StateOps C N P)
include H

theorem rs_po : PreOrder (RS P) := ⟨fun c => H.refl c.st, fun a b c h1 h2 => H.trans _ _ _ h1 h2⟩

theorem StateOps.relateUsing {x y w : Inst} {rel phrase : String} {st st' : State}
    (h : relateUsing C x y w rel phrase st = .ok st') : P st st' := by
  unfold Pyx.Interp.relateUsing at h
  split at h
  · cases h
  · rename_i st1 h1; exact H.trans _ _ _ (H.relate h1) (H.relate h)

theorem StateOps.unrelateUsing {x y w : Inst} {rel phrase : String} {st st' : State}
    (h : unrelateUsing C x y w rel phrase st = .ok st') : P st st' := by
  unfold Pyx.Interp.unrelateUsing at h
  split at h
  · cases h
  · rename_i st1 h1; exact H.trans _ _ _ (H.unrelate h1) (H.unrelate h)

theorem rs_of_frameOnly {α : Type} {m : M α} (h : FrameOnly m) : Pres (RS P) m := by
  intro c a c' hc
  show P c.st c'.st
  rw [h c a c' hc]; exact H.refl _

theorem rs_install (x : String) (v : Val) : Pres (RS P) (install x v) := by
  unfold install
  apply pres_bind (rs_po H) (pres_of_neutral (rs_po H) neutral_getFr); intro fr
  exact rs_of_frameOnly H (frameOnly_setEnv _)

theorem rs_pushBlock : Pres (RS P) pushBlock := by
  unfold pushBlock
  apply pres_bind (rs_po H) (pres_of_neutral (rs_po H) neutral_getFr); intro fr
  exact rs_of_frameOnly H (frameOnly_setEnv _)

theorem rs_popBlock : Pres (RS P) popBlock := by
  unfold popBlock
  apply pres_bind (rs_po H) (pres_of_neutral (rs_po H) neutral_getFr); intro fr
  exact rs_of_frameOnly H (frameOnly_setEnv _)

theorem rs_modifySt {f : State → Except Err State}
    (hf : ∀ st st', f st = .ok st' → P st st') : Pres (RS P) (modifySt f) := by
  intro c a c' h
  show P c.st c'.st
  unfold modifySt at h
  split at h
  · rename_i st' hst
    simp at h
    rw [← h]
    exact hf _ _ hst
  · simp at h

theorem rs_modifyGet {α : Type} {f : State → Except Err (α × State)}
    (hf : ∀ st a st', f st = .ok (a, st') → P st st') : Pres (RS P) (M.modifyGet f) := by
  intro c a c' h
  show P c.st c'.st
  unfold M.modifyGet at h
  split at h
  · rename_i a' st' hst
    simp at h
    rw [← h.2]
    exact hf _ _ _ hst
  · simp at h

theorem NN {α : Type} {m : M α} (h : Neutral m) : Pres (RS P) m := pres_of_neutral (rs_po H) h


section
variable {Ok : Stmt → Prop} (K : OkClosed N Ok) (COk : ∀ f ∈ C.callables, ∀ s ∈ f.body, Ok s)
variable {r : Oracle} (he : ∀ e, Pres (RS P) (r.eval e)) (hs : ∀ s, Ok s → Pres (RS P) (r.exec s))
include K COk he hs

theorem rs_execList : ∀ l, (∀ s ∈ l, Ok s) → Pres (RS P) (execList r l)
  | [], _ => NN H (neutral_pure _)
  | s :: rest, hl => by
    unfold execList
    apply pres_bind (rs_po H) (hs s (hl s List.mem_cons_self)); intro o
    cases o <;> first
      | exact rs_execList rest (fun s' h' => hl s' (List.mem_cons_of_mem _ h'))
      | exact NN H (neutral_pure _)

theorem rs_execBlock (b : Block) (hb : ∀ s ∈ b, Ok s) : Pres (RS P) (execBlock r b) := by
  unfold execBlock
  apply pres_bind (rs_po H) (rs_pushBlock H); intro _
  apply pres_bind (rs_po H) (rs_execList H K COk he hs b hb); intro _
  apply pres_bind (rs_po H) (rs_popBlock H); intro _
  exact NN H (neutral_pure _)

theorem rs_execElifs : ∀ l els, (∀ p ∈ l, ∀ s ∈ p.2, Ok s) → (∀ b, els = some b → ∀ s ∈ b, Ok s) →
    Pres (RS P) (execElifs r l els)
  | [], none, _, _ => NN H (neutral_pure _)
  | [], some b, _, he' => rs_execBlock H K COk he hs b (he' b rfl)
  | (c, b) :: rest, els, hl, he' => by
    unfold execElifs
    apply pres_bind (rs_po H) (he c); intro v
    apply pres_bind (rs_po H) (NN H (neutral_asBool v)); intro t
    cases t
    · exact rs_execElifs rest els (fun p hp => hl p (List.mem_cons_of_mem _ hp)) he'
    · exact rs_execBlock H K COk he hs b (hl (c, b) List.mem_cons_self)

theorem rs_forItems (v : String) (body : Block) (hb : ∀ s ∈ body, Ok s) : ∀ l, Pres (RS P) (forItems r v body l)
  | [] => NN H (neutral_pure _)
  | i :: rest => by
    unfold forItems
    apply pres_bind (rs_po H) ((rs_install H) _ _); intro _
    apply pres_bind (rs_po H) (rs_execBlock H K COk he hs body hb); intro o
    cases o <;> first | exact rs_forItems v body hb rest | exact NN H (neutral_pure _)

theorem rs_evalWhere (wh : Expr) (c : Inst) : Pres (RS P) (evalWhere r wh c) := by
  unfold evalWhere
  apply pres_bind (rs_po H) (rs_pushBlock H); intro _
  apply pres_bind (rs_po H) ((rs_install H) _ _); intro _
  apply pres_bind (rs_po H) (he wh); intro v
  apply pres_bind (rs_po H) (rs_popBlock H); intro _
  exact NN H (neutral_asBool v)

theorem rs_filterAll (wh : Expr) : ∀ l, Pres (RS P) (filterAll r wh l)
  | [] => NN H (neutral_pure _)
  | c :: rest => by
    unfold filterAll
    apply pres_bind (rs_po H) (rs_evalWhere H K COk he hs wh c); intro t
    apply pres_bind (rs_po H) (rs_filterAll wh rest); intro _
    exact NN H (neutral_pure _)

theorem rs_filterFirst (wh : Expr) : ∀ l, Pres (RS P) (filterFirst r wh l)
  | [] => NN H (neutral_pure _)
  | c :: rest => by
    unfold filterFirst
    apply pres_bind (rs_po H) (rs_evalWhere H K COk he hs wh c); intro t
    cases t
    · exact rs_filterFirst wh rest
    · exact NN H (neutral_pure _)

theorem rs_selectResult (many : Bool) (cands : List Inst) (wh : Option Expr) :
    Pres (RS P) (selectResult r many cands wh) := by
  unfold selectResult
  cases many <;> cases wh <;> simp only
  · exact NN H (neutral_pure _)
  · apply pres_bind (rs_po H) (rs_filterFirst H K COk he hs _ _); intro _; exact NN H (neutral_pure _)
  · exact NN H (neutral_pure _)
  · apply pres_bind (rs_po H) (rs_filterAll H K COk he hs _ _); intro _; exact NN H (neutral_pure _)

theorem rs_evalArgs : ∀ l, Pres (RS P) (evalArgs r l)
  | [] => NN H (neutral_pure _)
  | (n, e) :: rest => by
    unfold evalArgs
    apply pres_bind (rs_po H) (he e); intro _
    apply pres_bind (rs_po H) (rs_evalArgs rest); intro _
    exact NN H (neutral_pure _)

theorem rs_runBody (body : Block) (hb : ∀ s ∈ body, Ok s) : Pres (RS P) (runBody r body) := by
  unfold runBody
  apply pres_bind (rs_po H) (rs_execBlock H K COk he hs body hb); intro o
  cases o <;> first | exact NN H (neutral_pure _) | exact NN H (neutral_fail _)

theorem rs_invoke (kind : WalkerKind) (body : Block) (kw : List (String × Val)) (self : Val) (hbody : ∀ s ∈ body, Ok s) :
    Pres (RS P) (invoke r kind body kw self) := by
  intro c a c' h
  show P c.st c'.st
  unfold invoke at h
  split at h
  · cases h
  · cases h
  · rename_i u c1 hb
    simp at h
    rw [← h.2]
    exact rs_runBody H K COk he hs body hbody { fr := mkFrame kind kw self, st := c.st } u c1 hb

theorem rs_readField (i : Inst) (name : String) : Pres (RS P) (readField C r i name) := by
  unfold readField
  apply pres_bind (rs_po H) (NN H neutral_getFr); intro fr
  cases regHit fr i name
  · simp only [Bool.false_eq_true, if_false]
    split
    · rename_i f hf
      exact rs_invoke H K COk he hs _ _ _ _ (COk f (mem_of_findCallable hf))
    · exact NN H (neutral_querySt _)
  · exact NN H (neutral_pure _)

theorem rs_writeField (i : Inst) (name : String) (v : Val) (hN : N name) : Pres (RS P) (writeField C i name v) := by
  unfold writeField
  apply pres_bind (rs_po H) (NN H neutral_getFr); intro fr
  cases regHit fr i name
  · simp only [Bool.false_eq_true, if_false]
    split
    · exact NN H (neutral_fail _)
    · exact (rs_modifySt H) (fun _ _ h => H.setAttr hN h)
  · exact (rs_of_frameOnly H) (frameOnly_setRet _)

theorem rs_evalStep (e : Expr) : Pres (RS P) (evalStep C r e) := by
  cases e with
  | int i => exact NN H (neutral_pure _)
  | str s => exact NN H (neutral_pure _)
  | bool b => exact NN H (neutral_pure _)
  | var x => exact NN H (neutral_lookupVar C x)
  | selected => exact NN H (neutral_lookupVar C _)
  | self =>
    unfold evalStep
    apply pres_bind (rs_po H) (NN H neutral_getFr); intro fr
    split <;> first | exact NN H (neutral_pure _) | exact NN H (neutral_fail _)
  | param x =>
    unfold evalStep
    apply pres_bind (rs_po H) (NN H neutral_getFr); intro fr
    split
    · exact NN H (neutral_fail _)
    · split <;> first | exact NN H (neutral_pure _) | exact NN H (neutral_fail _)
  | field hx name =>
    unfold evalStep
    apply pres_bind (rs_po H) (he hx); intro v
    apply pres_bind (rs_po H) (NN H (neutral_asInst v)); intro _
    exact rs_readField H K COk he hs _ _
  | bin op l rr =>
    unfold evalStep
    apply pres_bind (rs_po H) (he l); intro _
    apply pres_bind (rs_po H) (he rr); intro _
    exact NN H (neutral_liftE _)
  | un op e =>
    unfold evalStep
    apply pres_bind (rs_po H) (he e); intro _
    exact NN H (neutral_liftE _)
  | enumOrConst ns name =>
    simp only [evalStep]
    split
    · split <;> first | exact NN H (neutral_pure _) | exact NN H (neutral_fail _)
    · exact NN H (neutral_fail _)
  | call k name args =>
    cases k with
    | function =>
      simp only [evalStep]
      apply pres_bind (rs_po H) (rs_evalArgs H K COk he hs args); intro kw
      split
      · rename_i f hf
        exact rs_invoke H K COk he hs _ _ _ _ (COk f (mem_of_findCallable hf))
      · exact NN H (neutral_fail _)
    | implicit ns =>
      simp only [evalStep]
      apply pres_bind (rs_po H) (rs_evalArgs H K COk he hs args); intro kw
      split
      · rename_i f hf
        split <;> exact rs_invoke H K COk he hs _ _ _ _ (COk f (mem_of_resolveNs hf))
      · exact NN H (neutral_fail _)
    | classOp ns =>
      simp only [evalStep]
      split
      · rename_i f hf
        apply pres_bind (rs_po H) (rs_evalArgs H K COk he hs args); intro kw
        exact rs_invoke H K COk he hs _ _ _ _ (COk f (mem_of_findCallable hf))
      · exact NN H (neutral_fail _)
    | bridge ns =>
      simp only [evalStep]
      apply pres_bind (rs_po H) (rs_evalArgs H K COk he hs args); intro kw
      split
      · rename_i f hf
        split <;> exact rs_invoke H K COk he hs _ _ _ _ (COk f (mem_of_resolveNs hf))
      · exact NN H (neutral_fail _)
  | callInst hx name args =>
    unfold evalStep
    apply pres_bind (rs_po H) (he hx); intro v
    apply pres_bind (rs_po H) (NN H (neutral_asInst v)); intro i
    split
    · rename_i f hf
      apply pres_bind (rs_po H) (rs_evalArgs H K COk he hs args); intro _
      exact rs_invoke H K COk he hs _ _ _ _ (COk f (mem_of_findCallable hf))
    · exact NN H (neutral_fail _)

theorem rs_execStep (s : Stmt) (hok : Ok s) : Pres (RS P) (execStep C r s) := by
  cases s with
  | assignVar x e =>
    unfold execStep
    apply pres_bind (rs_po H) (he e); intro _
    apply pres_bind (rs_po H) ((rs_install H) _ _); intro _
    exact NN H (neutral_pure _)
  | assignField hx name e =>
    unfold execStep
    apply pres_bind (rs_po H) (he e); intro _
    apply pres_bind (rs_po H) (he hx); intro v
    apply pres_bind (rs_po H) (NN H (neutral_asInst v)); intro _
    apply pres_bind (rs_po H) (rs_writeField H K COk he hs _ _ _ (K.assignField hok)); intro _
    exact NN H (neutral_pure _)
  | ifS c thn elifs els =>
    unfold execStep
    apply pres_bind (rs_po H) (he c); intro v
    apply pres_bind (rs_po H) (NN H (neutral_asBool v)); intro t
    cases t
    · exact rs_execElifs H K COk he hs _ _ (K.ifElif hok) (fun b hb => by subst hb; exact K.ifElse hok)
    · exact rs_execBlock H K COk he hs _ (K.ifThen hok)
  | whileS c body =>
    unfold execStep
    apply pres_bind (rs_po H) (he c); intro v
    apply pres_bind (rs_po H) (NN H (neutral_asBool v)); intro t
    cases t
    · exact NN H (neutral_pure _)
    · simp only [if_true]
      apply pres_bind (rs_po H) (rs_execBlock H K COk he hs body (K.whileB hok)); intro o
      cases o <;> first | exact hs _ hok | exact NN H (neutral_pure _)
  | forEach v setv body =>
    unfold execStep
    apply pres_bind (rs_po H) (NN H (neutral_lookupVar C _)); intro s
    cases s <;> first | exact rs_forItems H K COk he hs _ _ (K.forB hok) _ | exact NN H (neutral_fail _)
  | brk => exact NN H (neutral_pure _)
  | cont => exact NN H (neutral_pure _)
  | stop => exact NN H (neutral_pure _)
  | ret e =>
    cases e with
    | none => exact NN H (neutral_pure _)
    | some e =>
      unfold execStep
      apply pres_bind (rs_po H) (he e); intro _
      apply pres_bind (rs_po H) ((rs_of_frameOnly H) (frameOnly_setRet _)); intro _
      exact NN H (neutral_pure _)
  | create v cls =>
    unfold execStep
    apply pres_bind (rs_po H) ((rs_modifyGet H) (fun _ _ _ h => H.newInst h)); intro i
    cases v with
    | none =>
      simp only
      first
        | exact NN H (neutral_pure _)
        | (apply pres_bind (rs_po H) (NN H (neutral_pure _)); intro _; exact NN H (neutral_pure _))
    | some x => simp only; apply pres_bind (rs_po H) ((rs_install H) _ _); intro _; exact NN H (neutral_pure _)
  | delete v =>
    unfold execStep
    apply pres_bind (rs_po H) (NN H (neutral_lookupVar C _)); intro x
    apply pres_bind (rs_po H) (NN H (neutral_asInst x)); intro i
    apply pres_bind (rs_po H) ((rs_modifySt H) (fun _ _ h => H.deleteInst h)); intro _
    exact NN H (neutral_pure _)
  | relate a b rel phrase =>
    unfold execStep
    apply pres_bind (rs_po H) (NN H (neutral_lookupVar C _)); intro x
    apply pres_bind (rs_po H) (NN H (neutral_asInst x)); intro _
    apply pres_bind (rs_po H) (NN H (neutral_lookupVar C _)); intro y
    apply pres_bind (rs_po H) (NN H (neutral_asInst y)); intro _
    apply pres_bind (rs_po H) ((rs_modifySt H) (fun _ _ h => H.relate h)); intro _
    exact NN H (neutral_pure _)
  | relateUsing a b rel phrase u =>
    unfold execStep
    apply pres_bind (rs_po H) (NN H (neutral_lookupVar C _)); intro x
    apply pres_bind (rs_po H) (NN H (neutral_asInst x)); intro _
    apply pres_bind (rs_po H) (NN H (neutral_lookupVar C _)); intro y
    apply pres_bind (rs_po H) (NN H (neutral_asInst y)); intro _
    apply pres_bind (rs_po H) (NN H (neutral_lookupVar C _)); intro w
    apply pres_bind (rs_po H) (NN H (neutral_asInst w)); intro _
    apply pres_bind (rs_po H) ((rs_modifySt H) (fun _ _ h => H.relateUsing h)); intro _
    exact NN H (neutral_pure _)
  | unrelate a b rel phrase =>
    unfold execStep
    apply pres_bind (rs_po H) (NN H (neutral_lookupVar C _)); intro x
    apply pres_bind (rs_po H) (NN H (neutral_asInst x)); intro _
    apply pres_bind (rs_po H) (NN H (neutral_lookupVar C _)); intro y
    apply pres_bind (rs_po H) (NN H (neutral_asInst y)); intro _
    apply pres_bind (rs_po H) ((rs_modifySt H) (fun _ _ h => H.unrelate h)); intro _
    exact NN H (neutral_pure _)
  | unrelateUsing a b rel phrase u =>
    unfold execStep
    apply pres_bind (rs_po H) (NN H (neutral_lookupVar C _)); intro x
    apply pres_bind (rs_po H) (NN H (neutral_asInst x)); intro _
    apply pres_bind (rs_po H) (NN H (neutral_lookupVar C _)); intro y
    apply pres_bind (rs_po H) (NN H (neutral_asInst y)); intro _
    apply pres_bind (rs_po H) (NN H (neutral_lookupVar C _)); intro w
    apply pres_bind (rs_po H) (NN H (neutral_asInst w)); intro _
    apply pres_bind (rs_po H) ((rs_modifySt H) (fun _ _ h => H.unrelateUsing h)); intro _
    exact NN H (neutral_pure _)
  | selectFrom many v cls wh =>
    unfold execStep
    apply pres_bind (rs_po H) (NN H (neutral_querySt _)); intro _
    apply pres_bind (rs_po H) (rs_selectResult H K COk he hs _ _ _); intro _
    apply pres_bind (rs_po H) ((rs_install H) _ _); intro _
    exact NN H (neutral_pure _)
  | selectRelated many v hx chain wh =>
    unfold execStep
    apply pres_bind (rs_po H) (he hx); intro hv
    apply pres_bind (rs_po H) (NN H (neutral_startOf hv)); intro _
    apply pres_bind (rs_po H) (NN H (neutral_querySt _)); intro _
    apply pres_bind (rs_po H) (rs_selectResult H K COk he hs _ _ _); intro _
    apply pres_bind (rs_po H) ((rs_install H) _ _); intro _
    exact NN H (neutral_pure _)
  | invoke e =>
    unfold execStep
    apply pres_bind (rs_po H) (he e); intro _
    exact NN H (neutral_pure _)

end

section
variable {Ok : Stmt → Prop} (K : OkClosed N Ok) (COk : ∀ f ∈ C.callables, ∀ s ∈ f.body, Ok s)
include K COk

theorem rs_run : ∀ n, (∀ e, Pres (RS P) ((run C n).eval e)) ∧ (∀ s, Ok s → Pres (RS P) ((run C n).exec s))
  | 0 => ⟨fun _ _ _ _ h => by simp [run] at h, fun _ _ _ _ _ h => by simp [run] at h⟩
  | n + 1 =>
    have ih := rs_run n
    ⟨fun e => rs_evalStep H K COk ih.1 ih.2 e, fun s hok => rs_execStep H K COk ih.1 ih.2 s hok⟩

/-- a whole run relates its initial to its final state -/
theorem runFunction_rs (fuel : Nat) (body : Block) (hbody : ∀ s ∈ body, Ok s) (kw : List (String × Val)) (st st' : State) (v : Val)
    (h : runFunction C fuel body kw st = some (.ok (v, st'))) : P st st' := by
  unfold runFunction at h
  split at h
  · cases h
  · cases h
  · rename_i u c hb
    simp at h
    rw [← h.2]
    have ih := rs_run H K COk fuel
    exact rs_runBody H K COk ih.1 ih.2 body hbody _ _ _ hb

end

end

/-! ## Part 2: histories of state operations -/

/-- one successful state operation, on named instances -/
inductive Eff where
  | new (cls : String)
  | delete (i : Inst)
  | relate (x y : Inst) (rel phrase : String)
  | unrelate (x y : Inst) (rel phrase : String)
  | set (i : Inst) (name : String) (v : Val)

def applyEff (C : Ctx) : Eff → State → Except Err State
  | .new cls, st => match newInst C cls st with | .ok (_, st') => .ok st' | .error e => .error e
  | .delete i, st => deleteInst i st
  | .relate x y r p, st => relate C x y r p st
  | .unrelate x y r p, st => unrelate C x y r p st
  | .set i n v, st => setAttr C i n v st

/-- a history: every operation has to succeed -/
def applyEffs (C : Ctx) : List Eff → State → Except Err State
  | [], st => .ok st
  | e :: es, st => match applyEff C e st with | .ok st1 => applyEffs C es st1 | .error err => .error err

/-- `st'` is reached from `st` by a history of successful state operations -/
def Reach (C : Ctx) (st st' : State) : Prop := ∃ es, applyEffs C es st = .ok st'

theorem applyEffs_append (C : Ctx) : ∀ (es1 es2 : List Eff) (st st1 st2 : State),
    applyEffs C es1 st = .ok st1 → applyEffs C es2 st1 = .ok st2 → applyEffs C (es1 ++ es2) st = .ok st2
  | [], _, _, _, _, h1, h2 => by simp [applyEffs] at h1; subst h1; exact h2
  | e :: es1, es2, st, st1, st2, h1, h2 => by
    simp only [applyEffs, List.cons_append] at h1 ⊢
    cases he : applyEff C e st with
    | error err => rw [he] at h1; cases h1
    | ok sta =>
      rw [he] at h1
      simp only at h1 ⊢
      exact applyEffs_append C es1 es2 sta st1 st2 h1 h2

theorem reach_one {C : Ctx} {e : Eff} {st st' : State} (h : applyEff C e st = .ok st') : Reach C st st' :=
  ⟨[e], by simp [applyEffs, h]⟩

theorem reach_ops (C : Ctx) : StateOps C (fun _ => True) (Reach C) where
  refl := fun st => ⟨[], rfl⟩
  trans := fun a b c ⟨e1, h1⟩ ⟨e2, h2⟩ => ⟨e1 ++ e2, applyEffs_append C e1 e2 a b c h1 h2⟩
  newInst := fun {cls st i st'} h => reach_one (e := .new cls) (by simp [applyEff, h])
  deleteInst := fun {i st st'} h => reach_one (e := .delete i) h
  relate := fun {x y rel phrase st st'} h => reach_one (e := .relate x y rel phrase) h
  unrelate := fun {x y rel phrase st st'} h => reach_one (e := .unrelate x y rel phrase) h
  setAttr := fun {i name v st st'} _ h => reach_one (e := .set i name v) h

/-- every statement is allowed -/
theorem okTrue : OkClosed (fun _ => True) (fun _ => True) :=
  ⟨fun _ => trivial, fun _ _ _ => trivial, fun _ _ _ _ _ => trivial, fun _ _ _ => trivial, fun _ _ _ => trivial,
   fun _ _ _ => trivial⟩

theorem reach_run (C : Ctx) (n : Nat) :
    (∀ e, Pres (RS (Reach C)) ((run C n).eval e)) ∧ (∀ s, Pres (RS (Reach C)) ((run C n).exec s)) :=
  ⟨(rs_run (reach_ops C) okTrue (fun _ _ _ _ => trivial) n).1,
   fun s => (rs_run (reach_ops C) okTrue (fun _ _ _ _ => trivial) n).2 s trivial⟩

/-- **whatever a program does to the relational state is a history of state operations**: a run (any nesting, calls,
    loops, any fuel) that ends normally reaches its final state from the initial one through a finite list of
    successful `create` / `delete` / `relate` / `unrelate` / attribute-write operations on named instances -/
theorem runFunction_effects (C : Ctx) (fuel : Nat) (body : Block) (kw : List (String × Val)) (st st' : State) (v : Val)
    (h : runFunction C fuel body kw st = some (.ok (v, st'))) : ∃ es, applyEffs C es st = .ok st' :=
  runFunction_rs (reach_ops C) okTrue (fun _ _ _ _ => trivial) fuel body (fun _ _ => trivial) kw st st' v h

/-- the same for a single statement and a single expression -/
theorem exec_effects (C : Ctx) (n : Nat) (s : Stmt) (c c' : Cfg) (o : Out)
    (h : (run C n).exec s c = some (.ok (o, c'))) : ∃ es, applyEffs C es c.st = .ok c'.st :=
  (reach_run C n).2 s c o c' h

theorem eval_effects (C : Ctx) (n : Nat) (e : Expr) (c c' : Cfg) (v : Val)
    (h : (run C n).eval e c = some (.ok (v, c'))) : ∃ es, applyEffs C es c.st = .ok c'.st :=
  (reach_run C n).1 e c v c' h

/-! ### histories whose attribute writes name allowed attributes only -/

/-- the statements whose attribute assignments (at any depth) name an attribute `N` allows -/
inductive StmtOk (N : String → Prop) : Stmt → Prop
  | assignVar (x e) : StmtOk N (.assignVar x e)
  | assignField (h name e) : N name → StmtOk N (.assignField h name e)
  | ifS (c thn elifs els) : (∀ s ∈ thn, StmtOk N s) → (∀ p ∈ elifs, ∀ s ∈ p.2, StmtOk N s) →
      (∀ b, els = some b → ∀ s ∈ b, StmtOk N s) → StmtOk N (.ifS c thn elifs els)
  | whileS (c body) : (∀ s ∈ body, StmtOk N s) → StmtOk N (.whileS c body)
  | forEach (v setv body) : (∀ s ∈ body, StmtOk N s) → StmtOk N (.forEach v setv body)
  | brk : StmtOk N .brk
  | cont : StmtOk N .cont
  | stop : StmtOk N .stop
  | ret (e) : StmtOk N (.ret e)
  | create (v cls) : StmtOk N (.create v cls)
  | delete (v) : StmtOk N (.delete v)
  | relate (a b rel phrase) : StmtOk N (.relate a b rel phrase)
  | relateUsing (a b rel phrase u) : StmtOk N (.relateUsing a b rel phrase u)
  | unrelate (a b rel phrase) : StmtOk N (.unrelate a b rel phrase)
  | unrelateUsing (a b rel phrase u) : StmtOk N (.unrelateUsing a b rel phrase u)
  | selectFrom (many v cls wh) : StmtOk N (.selectFrom many v cls wh)
  | selectRelated (many v hx chain wh) : StmtOk N (.selectRelated many v hx chain wh)
  | invoke (e) : StmtOk N (.invoke e)

theorem stmtOk_closed (N : String → Prop) : OkClosed N (StmtOk N) where
  assignField := fun h => by cases h; assumption
  ifThen := fun h => by cases h; assumption
  ifElif := fun h => by cases h; assumption
  ifElse := fun h => by cases h with | ifS _ _ _ _ _ _ he => exact he _ rfl
  whileB := fun h => by cases h; assumption
  forB := fun h => by cases h; assumption

/-- the attribute writes of a history name allowed attributes only -/
def SetsOnly (N : String → Prop) : Eff → Prop
  | .set _ name _ => N name
  | _ => True

def ReachN (C : Ctx) (N : String → Prop) (st st' : State) : Prop :=
  ∃ es, (∀ e ∈ es, SetsOnly N e) ∧ applyEffs C es st = .ok st'

theorem reachN_one {C : Ctx} {N : String → Prop} {e : Eff} {st st' : State} (hN : SetsOnly N e)
    (h : applyEff C e st = .ok st') : ReachN C N st st' :=
  ⟨[e], fun e' he' => by simp at he'; subst he'; exact hN, by simp [applyEffs, h]⟩

theorem reachN_ops (C : Ctx) (N : String → Prop) : StateOps C N (ReachN C N) where
  refl := fun st => ⟨[], fun _ h => (by cases h), rfl⟩
  trans := fun a b c ⟨e1, n1, h1⟩ ⟨e2, n2, h2⟩ =>
    ⟨e1 ++ e2, fun e he => by
        rcases List.mem_append.1 he with h | h
        · exact n1 e h
        · exact n2 e h,
      applyEffs_append C e1 e2 a b c h1 h2⟩
  newInst := fun {cls st i st'} h => reachN_one (e := .new cls) trivial (by simp [applyEff, h])
  deleteInst := fun {i st st'} h => reachN_one (e := .delete i) trivial h
  relate := fun {x y rel phrase st st'} h => reachN_one (e := .relate x y rel phrase) trivial h
  unrelate := fun {x y rel phrase st st'} h => reachN_one (e := .unrelate x y rel phrase) trivial h
  setAttr := fun {i name v st st'} hN h => reachN_one (e := .set i name v) hN h

/-- **the history of a program whose attribute assignments name `N`-attributes only** (its own statements and the
    bodies of the callables of the context, at any depth) **writes `N`-attributes only** -/
theorem runFunction_effectsN (C : Ctx) (N : String → Prop) (hC : ∀ f ∈ C.callables, ∀ s ∈ f.body, StmtOk N s)
    (fuel : Nat) (body : Block) (hbody : ∀ s ∈ body, StmtOk N s) (kw : List (String × Val)) (st st' : State) (v : Val)
    (h : runFunction C fuel body kw st = some (.ok (v, st'))) :
    ∃ es, (∀ e ∈ es, SetsOnly N e) ∧ applyEffs C es st = .ok st' :=
  runFunction_rs (reachN_ops C N) (stmtOk_closed N) hC fuel body hbody kw st st' v h

end Pyx.Interp
