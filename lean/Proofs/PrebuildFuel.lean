import Proofs.PrebuildStmtRT

/-
  C05 helper lemmas: the fuel `parseGen` derives from the token count is enough for any supported tree.
-/
namespace Pyx.Prebuild
open Tok Kw Pn

mutual
  theorem szE_le (ctx : Ctx) : ∀ e : Expr, wfExpr ctx e = true → szE e + 1 ≤ 3 * (genExpr e).length
    | .int _, _ => by simp [szE, genExpr]
    | .real _, _ => by simp [szE, genExpr]
    | .str _, _ => by simp [szE, genExpr]
    | .bool _, _ => by simp [szE, genExpr]
    | .enum _ _, _ => by simp [szE, genExpr]
    | .var _, _ => by simp [szE, genExpr]
    | .self, _ => by simp [szE, genExpr]
    | .selected, _ => by simp [szE, genExpr]
    | .param _, _ => by simp [szE, genExpr]
    | .field h _, hw => by
        have hw' : isAccess h = true ∧ wfExpr ctx h = true := by simpa [wfExpr] using hw
        have := szE_le ctx h hw'.2
        simp only [szE, genExpr, List.length_append, List.length_cons, List.length_nil]; omega
    | .index h i, hw => by
        have hw' : (isAccess h = true ∧ wfExpr ctx h = true) ∧ wfExpr ctx i = true := by simpa [wfExpr] using hw
        have := szE_le ctx h hw'.1.2
        have := szE_le ctx i hw'.2
        simp only [szE, genExpr, List.length_append, List.length_cons, List.length_nil]; omega
    | .un op e, hw => by
        have hw' : inTable unOps op = true ∧ wfExpr ctx e = true := by simpa [wfExpr] using hw
        have := szE_le ctx e hw'.2
        simp only [szE, genExpr, List.length_append, List.length_cons, List.length_nil]; omega
    | .bin l op r, hw => by
        have hw' : (inTable binOps op = true ∧ wfExpr ctx l = true) ∧ wfExpr ctx r = true := by
          simpa [wfExpr] using hw
        have := szE_le ctx l hw'.1.2
        have := szE_le ctx r hw'.2
        simp only [szE, genExpr, List.length_append, List.length_cons, List.length_nil]; omega
    | .call .func nsp _ ps, hw => by
        have hw' : nsp = "" ∧ wfParams ctx ps = true := by simpa [wfExpr] using hw
        have := szP_le ctx ps hw'.2
        simp only [szE, genExpr, List.length_append, List.length_cons, List.length_nil]; omega
    | .call .bridge nsp _ ps, hw => by
        have hw' : resolve ctx nsp = .bridge ∧ wfParams ctx ps = true := by simpa [wfExpr] using hw
        have := szP_le ctx ps hw'.2
        simp only [szE, genExpr, List.length_append, List.length_cons, List.length_nil]; omega
    | .call .classop nsp _ ps, hw => by
        have hw' : resolve ctx nsp = .classop ∧ wfParams ctx ps = true := by simpa [wfExpr] using hw
        have := szP_le ctx ps hw'.2
        simp only [szE, genExpr, List.length_append, List.length_cons, List.length_nil]; omega
    | .call .implicit _ _ _, hw => by simp [wfExpr] at hw
    | .call .port _ _ _, hw => by simp [wfExpr] at hw
    | .icall h _ ps, hw => by
        have hw' : isVarOrSelf h = true ∧ wfParams ctx ps = true := by simpa [wfExpr] using hw
        have := szP_le ctx ps hw'.2
        have hh : szE h + 1 ≤ 3 * (genExpr h).length := by
          cases h <;> simp [isVarOrSelf] at hw' <;> simp [szE, genExpr]
        simp only [szE, genExpr, List.length_append, List.length_cons, List.length_nil]; omega
  theorem szP_le (ctx : Ctx) : ∀ ps : Params, wfParams ctx ps = true → szP ps ≤ 3 * (genParams ps).length + 1
    | .nil, _ => by simp [szP, genParams]
    | .cons _ e .nil, hw => by
        have hw' : wfExpr ctx e = true := by simpa [wfParams] using hw
        have := szE_le ctx e hw'
        simp only [szP, genParams, List.length_append, List.length_cons, List.length_nil]; omega
    | .cons n e (.cons n2 e2 r2), hw => by
        have hw' : wfExpr ctx e = true ∧ wfParams ctx (.cons n2 e2 r2) = true := by simpa [wfParams] using hw
        have := szE_le ctx e hw'.1
        have := szP_le ctx (.cons n2 e2 r2) hw'.2
        have hgen : genParams (.cons n e (.cons n2 e2 r2)) =
            [ident n, p colon] ++ genExpr e ++ [p comma] ++ genParams (.cons n2 e2 r2) := by
          rw [genParams]; intro h; cases h
        rw [hgen]
        simp only [szP, List.length_append, List.length_cons, List.length_nil] at *; omega
end

theorem chain_len : ∀ chain : List Step, chain.length ≤ (genChain chain).length
  | [] => by simp [genChain]
  | s :: more => by
      have := chain_len more
      simp only [genChain, genStep, List.length_append, List.length_cons, List.length_nil]; omega

mutual
  theorem szS_le (ctx : Ctx) : ∀ s : Stmt, wfStmt ctx s = true → szS s ≤ 3 * (genStmt s).length
    | .assign l r, hw => by
        have hw' : wfExpr ctx l = true ∧ wfExpr ctx r = true := by simpa [wfStmt] using hw
        have := szE_le ctx l hw'.1
        have := szE_le ctx r hw'.2
        simp only [szS, genStmt, List.length_append, List.length_cons, List.length_nil]; omega
    | .ret none, _ => by simp [szS, genStmt]
    | .ret (some e), hw => by
        have hw' : wfExpr ctx e = true := by simpa [wfStmt] using hw
        have := szE_le ctx e hw'
        simp only [szS, genStmt, List.length_append, List.length_cons, List.length_nil]; omega
    | .brk, _ => by simp [szS, genStmt]
    | .cont, _ => by simp [szS, genStmt]
    | .ctl, _ => by simp [szS, genStmt]
    | .create _ _, _ => by simp [szS, genStmt]
    | .createNV _, _ => by simp [szS, genStmt]
    | .delete _, _ => by simp [szS, genStmt]
    | .relate _ _ _ _, _ => by simp only [szS, genStmt, List.length_append, List.length_cons]; omega
    | .relateU _ _ _ _ _, _ => by simp only [szS, genStmt, List.length_append, List.length_cons]; omega
    | .unrelate _ _ _ _, _ => by simp only [szS, genStmt, List.length_append, List.length_cons]; omega
    | .unrelateU _ _ _ _ _, _ => by simp only [szS, genStmt, List.length_append, List.length_cons]; omega
    | .selFrom _ _ _, _ => by simp [szS, genStmt]
    | .selFromW card _ _ w, hw => by
        have hw' : (card = "any" ∨ card = "many") ∧ wfExpr ctx w = true := by simpa [wfStmt] using hw
        have := szE_le ctx w hw'.2
        simp only [szS, genStmt, List.length_append, List.length_cons, List.length_nil]; omega
    | .selRel card _ h chain, hw => by
        have hw' : (inTable cards card = true ∧ wfExpr ctx h = true) ∧ chain ≠ [] := by
          simpa [wfStmt] using hw
        have := szE_le ctx h hw'.1.2
        have := chain_len chain
        simp only [szS, genStmt, List.length_append, List.length_cons, List.length_nil]; omega
    | .selRelW card _ h chain w, hw => by
        have hw' : ((inTable cards card = true ∧ wfExpr ctx h = true) ∧ chain ≠ []) ∧ wfExpr ctx w = true := by
          simpa [wfStmt] using hw
        have := szE_le ctx h hw'.1.1.2
        have := szE_le ctx w hw'.2
        have := chain_len chain
        simp only [szS, genStmt, List.length_append, List.length_cons, List.length_nil]; omega
    | .forEach _ _ b, hw => by
        have hw' : wfBlock ctx b = true := by simpa [wfStmt] using hw
        have := szB_le ctx b hw'
        simp only [szS, genStmt, List.length_append, List.length_cons, List.length_nil]; omega
    | .while_ e b, hw => by
        have hw' : wfExpr ctx e = true ∧ wfBlock ctx b = true := by simpa [wfStmt] using hw
        have := szE_le ctx e hw'.1
        have := szB_le ctx b hw'.2
        simp only [szS, genStmt, List.length_append, List.length_cons, List.length_nil]; omega
    | .if_ e b el els, hw => by
        have hw' : ((wfExpr ctx e = true ∧ wfBlock ctx b = true) ∧ wfElifs ctx el = true) ∧
            wfElse ctx els = true := by simpa [wfStmt] using hw
        have := szE_le ctx e hw'.1.1.1
        have := szB_le ctx b hw'.1.1.2
        have := szEl_le ctx el hw'.1.2
        have := szElse_le ctx els hw'.2
        simp only [szS, genStmt, List.length_append, List.length_cons, List.length_nil]; omega
    | .invoke e, hw => by
        have hw' : isInvocation e = true ∧ wfExpr ctx e = true := by simpa [wfStmt] using hw
        have he := szE_le ctx e hw'.2
        cases e with
        | call k a b c =>
          cases k with
          | func => rw [genStmt_invoke_func]; simp only [szS]; omega
          | bridge => rw [genStmt]; simp only [szS, List.length_cons]; omega
          | classop => rw [genStmt_invoke_classop]; simp only [szS]; omega
          | implicit => simp [isInvocation] at hw'
          | port => simp [isInvocation] at hw'
        | icall h n ps => rw [genStmt]; simp only [szS, List.length_cons]; omega
        | _ => simp [isInvocation] at hw'
    | .genEvt _ m d tgt, hw => by
        have hw' : (m.isSome = true ∧ wfParams ctx d = true) ∧ wfTo tgt = true := by simpa [wfStmt] using hw
        obtain ⟨mm, rfl⟩ := Option.isSome_iff_exists.mp hw'.1.1
        have := szP_le ctx d hw'.1.2
        simp only [szS, genStmt, genEvtSpec, List.length_append, List.length_cons, List.length_nil]; omega
    | .createEvt _ _ m d tgt, hw => by
        have hw' : (m.isSome = true ∧ wfParams ctx d = true) ∧ wfTo tgt = true := by simpa [wfStmt] using hw
        obtain ⟨mm, rfl⟩ := Option.isSome_iff_exists.mp hw'.1.1
        have := szP_le ctx d hw'.1.2
        simp only [szS, genStmt, genEvtSpec, List.length_append, List.length_cons, List.length_nil]; omega
    | .genPre e, hw => by
        cases e <;> simp [wfStmt] at hw
        simp [szS, szE, genStmt, genExpr]
  theorem szB_le (ctx : Ctx) : ∀ b : Block, wfBlock ctx b = true → szB b ≤ 3 * (genBlock b).length + 1
    | .nil, _ => by simp [szB, genBlock]
    | .cons s more, hw => by
        have hw' : wfStmt ctx s = true ∧ wfBlock ctx more = true := by simpa [wfBlock] using hw
        have := szS_le ctx s hw'.1
        have := szB_le ctx more hw'.2
        simp only [szB, genBlock, List.length_append, List.length_cons, List.length_nil]; omega
  theorem szEl_le (ctx : Ctx) : ∀ el : Elifs, wfElifs ctx el = true → szEl el ≤ 3 * (genElifs el).length + 1
    | .nil, _ => by simp [szEl, genElifs]
    | .cons e b more, hw => by
        have hw' : (wfExpr ctx e = true ∧ wfBlock ctx b = true) ∧ wfElifs ctx more = true := by
          simpa [wfElifs] using hw
        have := szE_le ctx e hw'.1.1
        have := szB_le ctx b hw'.1.2
        have := szEl_le ctx more hw'.2
        simp only [szEl, genElifs, List.length_append, List.length_cons, List.length_nil]; omega
  theorem szElse_le (ctx : Ctx) : ∀ els : Else, wfElse ctx els = true → szElse els ≤ 3 * (genElse els).length + 1
    | .none, _ => by simp [szElse, genElse]
    | .some b, hw => by
        have hw' : wfBlock ctx b = true := by simpa [wfElse] using hw
        have := szB_le ctx b hw'
        simp only [szElse, genElse, List.length_append, List.length_cons, List.length_nil]; omega
end

/-- the fuel `parseGen` takes from the token count suffices -/
theorem fuel_enough (ctx : Ctx) (b : Block) (hw : wfBlock ctx b = true) : szB b ≤ fuelFor (genBlock b) := by
  have := szB_le ctx b hw
  unfold fuelFor; omega

/-- a supported body in normal form is read back from its regenerated tokens -/
theorem parseGen_genTokens (ctx : Ctx) (b : Block) (hw : supported ctx b = true) :
    parseGen ctx (genTokens b) = some b := by
  unfold parseGen genTokens
  have h := blockRT ctx b hw [] (fuelFor (genBlock b)) rfl (fuel_enough ctx b hw)
  rw [List.append_nil] at h
  rw [h]

end Pyx.Prebuild
