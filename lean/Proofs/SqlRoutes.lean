import Proofs.SqlCharRoundtrip

set_option linter.unusedSimpArgs false

/-! the writer routes of xtuml/persist.py are lists of items of the metamodel; canonical (reloaded) form of an item -/
namespace Pyx.Sql
open Gen.SqlLex (Rule Kw)
open Gen.Persist (Ty)

/-! ### sorting keeps the elements -/

theorem mem_insertBy {α : Type} (le : α → α → Bool) (x y : α) (l : List α) : y ∈ insertBy le x l ↔ y = x ∨ y ∈ l := by
  induction l with
  | nil => simp [insertBy]
  | cons z zs ih =>
    simp only [insertBy]
    split
    · simp only [List.mem_cons, ih]; constructor
      · rintro (h | h | h)
        · exact Or.inr (Or.inl h)
        · exact Or.inl h
        · exact Or.inr (Or.inr h)
      · rintro (h | h | h)
        · exact Or.inr (Or.inl h)
        · exact Or.inl h
        · exact Or.inr (Or.inr h)
    · simp only [List.mem_cons]

theorem mem_foldl_insertBy {α : Type} (le : α → α → Bool) (y : α) : ∀ (xs acc : List α),
    y ∈ xs.foldl (fun acc x => insertBy le x acc) acc ↔ y ∈ xs ∨ y ∈ acc := by
  intro xs
  induction xs with
  | nil => intro acc; simp
  | cons x xs ih =>
    intro acc
    simp only [List.foldl_cons, ih, mem_insertBy, List.mem_cons]
    constructor
    · rintro (h | h | h)
      · exact Or.inl (Or.inr h)
      · exact Or.inl (Or.inl h)
      · exact Or.inr h
    · rintro ((h | h) | h)
      · exact Or.inr (Or.inl h)
      · exact Or.inl h
      · exact Or.inr (Or.inr h)

theorem mem_sortBy {α : Type} (le : α → α → Bool) (y : α) (xs : List α) : y ∈ sortBy le xs ↔ y ∈ xs := by
  simp [sortBy, mem_foldl_insertBy]

/-! ### well-formed metamodels -/

/-- the persistable domain: every class, identifier, row and association of the metamodel prints as a well-formed item -/
structure MM.WF (u : UC) (m : MM) : Prop where
  classes : ∀ c ∈ m.classes, c.item.WF u
  indices : ∀ c ∈ m.classes, ∀ it ∈ c.indexItems, it.WF u
  rows : ∀ c ∈ m.classes, ∀ it ∈ c.instItems, it.WF u
  assocs : ∀ a ∈ m.assocs, a.item.WF u

/-- the eight writer routes -/
def MM.routes (u : UC) (m : MM) : List (List Item) :=
  [m.serializeDatabase u, m.serializeSchema u, m.serializeInstances, m.serializeUniqueIdentifiers u,
   m.persistDatabase u, m.persistSchema u, m.persistInstances, m.persistUniqueIdentifiers]

theorem MM.route_items_wf (u : UC) (m : MM) (hw : m.WF u) : ∀ r ∈ m.routes u, ∀ it ∈ r, it.WF u := by
  have hc : ∀ it ∈ (m.sortedClasses u).map ClassM.item, it.WF u := by
    intro it hit
    simp only [List.mem_map, MM.sortedClasses, mem_sortBy] at hit
    obtain ⟨c, hcm, rfl⟩ := hit; exact hw.classes c hcm
  have ha1 : ∀ it ∈ m.assocsByIdKind.map AssocM.item, it.WF u := by
    intro it hit
    simp only [List.mem_map, MM.assocsByIdKind, mem_sortBy] at hit
    obtain ⟨a, ham, rfl⟩ := hit; exact hw.assocs a ham
  have ha2 : ∀ it ∈ m.assocsById.map AssocM.item, it.WF u := by
    intro it hit
    simp only [List.mem_map, MM.assocsById, mem_sortBy] at hit
    obtain ⟨a, ham, rfl⟩ := hit; exact hw.assocs a ham
  have hi : ∀ it ∈ m.classes.flatMap ClassM.instItems, it.WF u := by
    intro it hit
    simp only [List.mem_flatMap] at hit
    obtain ⟨c, hcm, hin⟩ := hit; exact hw.rows c hcm it hin
  have hx1 : ∀ it ∈ (m.sortedClasses u).flatMap ClassM.indexItems, it.WF u := by
    intro it hit
    simp only [List.mem_flatMap, MM.sortedClasses, mem_sortBy] at hit
    obtain ⟨c, hcm, hin⟩ := hit; exact hw.indices c hcm it hin
  have hx2 : ∀ it ∈ m.classes.flatMap ClassM.indexItems, it.WF u := by
    intro it hit
    simp only [List.mem_flatMap] at hit
    obtain ⟨c, hcm, hin⟩ := hit; exact hw.indices c hcm it hin
  have hcx : ∀ it ∈ (m.sortedClasses u).flatMap (fun c => c.item :: c.indexItems), it.WF u := by
    intro it hit
    simp only [List.mem_flatMap, MM.sortedClasses, mem_sortBy, List.mem_cons] at hit
    obtain ⟨c, hcm, (rfl | hin)⟩ := hit
    · exact hw.classes c hcm
    · exact hw.indices c hcm it hin
  intro r hr it hit
  simp only [MM.routes, List.mem_cons, List.mem_nil_iff, or_false] at hr
  rcases hr with rfl | rfl | rfl | rfl | rfl | rfl | rfl | rfl
  · simp only [MM.serializeDatabase, MM.serializeSchema, MM.serializeClasses, MM.serializeAssociations, MM.serializeInstances,
      MM.serializeUniqueIdentifiers, List.mem_append] at hit
    rcases hit with ((h | h) | h) | h
    · exact hc it h
    · exact ha1 it h
    · exact hi it h
    · exact hx1 it h
  · simp only [MM.serializeSchema, MM.serializeClasses, MM.serializeAssociations, List.mem_append] at hit
    rcases hit with h | h
    · exact hc it h
    · exact ha1 it h
  · exact hi it hit
  · exact hx1 it hit
  · simp only [MM.persistDatabase, List.mem_append] at hit
    rcases hit with (h | h) | h
    · exact hcx it h
    · exact ha2 it h
    · exact hi it h
  · simp only [MM.persistSchema, List.mem_append] at hit
    rcases hit with h | h
    · exact hc it h
    · exact ha2 it h
  · exact hi it hit
  · exact hx2 it hit

/-- every writer route of a well-formed metamodel produces a text the loader accepts, and the statements it parses are
    exactly the statements of the route's items, in the route's order -/
theorem route_roundtrip (u : UC) (m : MM) (hw : m.WF u) (r : List Item) (hr : r ∈ m.routes u) (text : Text)
    (hp : printItems u r = some text) : ∃ stmts, itemsStmts u r = some stmts ∧ classify u text = .accepted stmts :=
  classify_items u r text (m.route_items_wf u hw r hr) hp

theorem printItems_append (u : UC) : ∀ (a b : List Item) (ta tb : Text), printItems u a = some ta → printItems u b = some tb →
    printItems u (a ++ b) = some (ta ++ tb) := by
  intro a
  induction a with
  | nil => intro b ta tb ha hb; simp only [printItems, Option.some.injEq] at ha; subst ha; simpa using hb
  | cons x xs ih =>
    intro b ta tb ha hb
    simp only [printItems] at ha
    cases hx : x.print u with
    | none => simp [hx] at ha
    | some tx =>
      cases hxs : printItems u xs with
      | none => simp [hx, hxs] at ha
      | some txs =>
        simp only [hx, hxs, Option.some.injEq] at ha; subst ha
        simp only [List.cons_append, printItems, hx, ih b txs tb hxs hb, List.append_assoc]

theorem itemsStmts_append (u : UC) : ∀ (a b : List Item) (sa sb : List Stmt), itemsStmts u a = some sa → itemsStmts u b = some sb →
    itemsStmts u (a ++ b) = some (sa ++ sb) := by
  intro a
  induction a with
  | nil => intro b sa sb ha hb; simp only [itemsStmts, Option.some.injEq] at ha; subst ha; simpa using hb
  | cons x xs ih =>
    intro b sa sb ha hb
    simp only [itemsStmts] at ha
    cases hx : x.stmt u with
    | none => simp [hx] at ha
    | some sx =>
      cases hxs : itemsStmts u xs with
      | none => simp [hx, hxs] at ha
      | some sxs =>
        simp only [hx, hxs, Option.some.injEq] at ha; subst ha
        simp only [List.cons_append, itemsStmts, hx, ih b sxs sb hxs hb]

/-- concatenating texts concatenates statements -/
theorem classify_concat (u : UC) (a b : List Item) (ta tb : Text) (ha : ∀ it ∈ a, it.WF u) (hb : ∀ it ∈ b, it.WF u)
    (hpa : printItems u a = some ta) (hpb : printItems u b = some tb) :
    ∃ sa sb, itemsStmts u a = some sa ∧ itemsStmts u b = some sb ∧ classify u (ta ++ tb) = .accepted (sa ++ sb) := by
  obtain ⟨s, hs, hc⟩ := classify_items u (a ++ b) (ta ++ tb) (by
    intro it hit; simp only [List.mem_append] at hit; rcases hit with h | h
    · exact ha it h
    · exact hb it h) (printItems_append u a b ta tb hpa hpb)
  obtain ⟨sa, hsa, _⟩ := classify_items u a ta ha hpa
  obtain ⟨sb, hsb, _⟩ := classify_items u b tb hb hpb
  refine ⟨sa, sb, hsa, hsb, ?_⟩
  rw [itemsStmts_append u a b sa sb hsa hsb] at hs
  simp only [Option.some.injEq] at hs; subst hs; exact hc

end Pyx.Sql
