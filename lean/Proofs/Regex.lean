import PyxModel.Regex

/-!
  Generic lemmas about the regex matcher of PyxModel/Regex.lean (nothing about a particular lexer): one unfolding
  equation per construct - stated so that `rw` unfolds exactly one step - and the closed form of a greedy repetition
  of a character class.  Used by Proofs/OalRegex.lean; meant to be reused by proofs about other rule tables.
-/
namespace Pyx.Regex
open Pyx.Regex.Regex

/-- length of the longest prefix whose characters all satisfy `p` -/
def runLen (p : Char → Bool) : List Char → Nat
  | [] => 0
  | c :: cs => if p c then runLen p cs + 1 else 0

theorem matchK_eps (cs : List Char) (k : List Char → Option Nat) : matchK .eps cs k = k cs := by simp only [matchK]
theorem matchK_seq (a b : Regex) (cs : List Char) (k : List Char → Option Nat) :
    matchK (.seq a b) cs k = matchK a cs (fun cs' => matchK b cs' k) := by simp only [matchK]
theorem matchK_alt (a b : Regex) (cs : List Char) (k : List Char → Option Nat) :
    matchK (.alt a b) cs k = match matchK a cs k with
      | some v => some v
      | none => matchK b cs k := by simp only [matchK]; cases matchK a cs k <;> rfl
theorem matchK_group (r : Regex) (cs : List Char) (k : List Char → Option Nat) :
    matchK (.group r) cs k = matchK r cs k := by simp only [matchK]
theorem matchK_star (g : Bool) (r : Regex) (cs : List Char) (k : List Char → Option Nat) :
    matchK (.star g r) cs k = starLoop (matchK r) g (cs.length + 1) cs k := by simp only [matchK]
theorem matchK_cls_cons (s : CSet) (c : Char) (r : List Char) (k : List Char → Option Nat) :
    matchK (.cls s) (c :: r) k = if s.mem c = true then k r else none := by simp only [matchK]
theorem matchK_cls_nil (s : CSet) (k : List Char → Option Nat) : matchK (.cls s) [] k = none := by simp only [matchK]
theorem matchK_look (r : Regex) (cs : List Char) (k : List Char → Option Nat) :
    matchK (.look r) cs k = match matchK r cs (fun _ => some 0) with
      | some _ => k cs
      | none => none := by simp only [matchK]; cases matchK r cs (fun _ => some 0) <;> rfl
theorem matchK_nlook (r : Regex) (cs : List Char) (k : List Char → Option Nat) :
    matchK (.nlook r) cs k = match matchK r cs (fun _ => some 0) with
      | some _ => none
      | none => k cs := by simp only [matchK]; cases matchK r cs (fun _ => some 0) <;> rfl

theorem starLoop_zero (step : List Char → (List Char → Option Nat) → Option Nat) (g : Bool) (cs : List Char)
    (k : List Char → Option Nat) : starLoop step g 0 cs k = k cs := by simp only [starLoop]

/-- greedy: one more iteration first, the continuation when that fails -/
theorem starLoop_greedy_succ (step : List Char → (List Char → Option Nat) → Option Nat) (f : Nat) (cs : List Char)
    (k : List Char → Option Nat) :
    starLoop step true (f + 1) cs k = match step cs (fun cs' => starLoop step true f cs' k) with
      | some v => some v
      | none => k cs := by
  simp only [starLoop, if_true]
  cases step cs (fun cs' => starLoop step true f cs' k) <;> rfl

/-- lazy: the continuation first, one more iteration when that fails -/
theorem starLoop_lazy_succ (step : List Char → (List Char → Option Nat) → Option Nat) (f : Nat) (cs : List Char)
    (k : List Char → Option Nat) :
    starLoop step false (f + 1) cs k = match k cs with
      | some v => some v
      | none => step cs (fun cs' => starLoop step false f cs' k) := by
  simp only [starLoop, Bool.false_eq_true, if_false]
  cases k cs <;> rfl

/-- `matchPrefix` of an alternation: the second alternative is tried when the first has no match at all -/
theorem matchPrefix_alt (a b : Regex) (cs : List Char) :
    matchPrefix (.alt a b) cs = match matchPrefix a cs with
      | some v => some v
      | none => matchPrefix b cs := rfl

/-- a greedy repetition of a one-character step takes the whole run when the continuation either succeeds after the
    run or cannot start with a character of the class (so that giving characters back cannot help) -/
theorem starLoop_step (s : CSet) (step : List Char → (List Char → Option Nat) → Option Nat)
    (hstep : ∀ cs k, step cs k = match cs with
      | c :: rest => if s.mem c = true then k rest else none
      | [] => none)
    (k : List Char → Option Nat) :
    ∀ (cs : List Char) (fuel : Nat), cs.length < fuel →
      ((k (cs.drop (runLen s.mem cs))).isSome = true ∨ ∀ x rest, s.mem x = true → k (x :: rest) = none) →
      starLoop step true fuel cs k = k (cs.drop (runLen s.mem cs)) := by
  intro cs
  induction cs with
  | nil =>
    intro fuel hf _
    cases fuel with
    | zero => simp at hf
    | succ f => simp [starLoop, hstep, runLen]
  | cons x cs ih =>
    intro fuel hf h
    cases fuel with
    | zero => simp at hf
    | succ f =>
      simp only [List.length_cons, Nat.add_lt_add_iff_right] at hf
      by_cases hx : s.mem x = true
      · have hsp : runLen s.mem (x :: cs) = runLen s.mem cs + 1 := by simp [runLen, hx]
        rw [hsp, List.drop_succ_cons] at h ⊢
        have := ih f hf h
        simp only [starLoop, if_true, hstep, hx]
        rw [this]
        cases hk : k (cs.drop (runLen s.mem cs)) with
        | some v => rfl
        | none =>
          simp only
          rcases h with h | h
          · rw [hk] at h; simp at h
          · exact h x cs hx
      · have hx' : s.mem x = false := by simpa using hx
        simp [starLoop, hstep, runLen, hx']

theorem starLoop_cls (s : CSet) (k : List Char → Option Nat) (cs : List Char) (fuel : Nat) (hf : cs.length < fuel)
    (h : (k (cs.drop (runLen s.mem cs))).isSome = true ∨ ∀ x rest, s.mem x = true → k (x :: rest) = none) :
    starLoop (matchK (.cls s)) true fuel cs k = k (cs.drop (runLen s.mem cs)) :=
  starLoop_step s (matchK (.cls s)) (by intro cs k; cases cs <;> simp [matchK]) k cs fuel hf h

end Pyx.Regex
