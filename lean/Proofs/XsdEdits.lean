import Proofs.Xsd

/-!
  C20 — retype, add attribute, enumerator edits, add user type.
-/

namespace Pyx.Extract

/-! ### retype -/

section retype
variable {d : ClassDiagram} (wf : WF d) {c a dt : Nat} {kc : Class} {xa : Attr} {ty : String}
  (hc : findClass d c = some kc) (ha : kc.findAttr a = some xa)
  (hnr : ∀ c' b, xa.kind ≠ .ref c' b)

include wf hc ha hnr in
/-- the data type of every attribute after the retype: the new one at the sites, the old one elsewhere -/
theorem rt_attrDt {k : Class} (hk : k ∈ d.classes) {x : Attr} (hx : x ∈ k.attrs) :
    attrDt { d with classes := d.classes.map (rtG c a dt) } (if k.id == c then rtH a dt x else x) =
      if isSite c a k x then some dt else attrDt d x := by
  have hkind : ∀ x' : Attr, attrDt { d with classes := d.classes.map (rtG c a dt) } x' =
      match x'.kind with
      | .base t => some t
      | .derived t => some t
      | .ref c' b => if c' = c ∧ b = a then some dt else attrDt d x' := by
    intro x'
    rw [attrDt_eq, attrDt_eq]
    cases hk' : x'.kind with
    | base t => rfl
    | derived t => rfl
    | ref c' b =>
      simp only [rt_attrKindAt wf hc ha]
      by_cases hcb : c' = c ∧ b = a
      · simp only [hcb, and_self, if_true]
        cases hxk : xa.kind with
        | base t => simp [AttrKind.retype]
        | derived t => simp [AttrKind.retype]
        | ref c'' b' => exact absurd hxk (hnr c'' b')
      · simp only [hcb, if_false]
  by_cases h1 : k.id = c ∧ x.id = a
  · have hkk : k = kc := wf.id_inj hk (findClass_mem hc) (by rw [h1.1, findClass_id hc])
    subst hkk
    have hxx : x = xa := eq_of_key_eq (fun (y : Attr) => y.id) (wf.attrIds k hk) hx (findAttr_mem ha)
      (by rw [h1.2, findAttr_id ha])
    subst hxx
    have hs : isSite c a k x = true := by simp [isSite, h1.1, h1.2]
    simp only [h1.1, beq_self_eq_true, if_true, hs]
    rw [hkind]
    simp only [rtH, h1.2, beq_self_eq_true, if_true]
    cases hxk : x.kind with
    | base t => simp [AttrKind.retype]
    | derived t => simp [AttrKind.retype]
    | ref c'' b' => exact absurd hxk (hnr c'' b')
  · have hsame : (if k.id == c then rtH a dt x else x).kind = x.kind := by
      by_cases hkc : k.id = c
      · have : x.id ≠ a := fun he => h1 ⟨hkc, he⟩
        simp [hkc, rtH, this]
      · simp [hkc]
    have hfirst : (k.id == c && x.id == a) = false := by
      by_cases hkc : k.id = c
      · have : x.id ≠ a := fun he => h1 ⟨hkc, he⟩
        simp [this]
      · simp [hkc]
    rw [hkind, hsame]
    unfold isSite
    rw [hfirst, Bool.false_or]
    cases hxk : x.kind with
    | base t =>
      have : (AttrKind.base t == AttrKind.ref c a) = false := by simp
      simp only [this, Bool.false_eq_true, if_false]
      rw [attrDt_eq, hxk]
    | derived t =>
      have : (AttrKind.derived t == AttrKind.ref c a) = false := by simp
      simp only [this, Bool.false_eq_true, if_false]
      rw [attrDt_eq, hxk]
    | ref c' b =>
      by_cases hcb : c' = c ∧ b = a
      · simp [hcb]
      · have : (AttrKind.ref c' b == AttrKind.ref c a) = false := by
          simp only [beq_eq_false_iff_ne, ne_eq, AttrKind.ref.injEq]; exact hcb
        simp only [hcb, this, Bool.false_eq_true, if_false]
        exact attrDt_congr hsame (fun _ _ => rfl)

include hc ha hnr in
theorem attrDt_dependent {x : Attr} (hx : x.kind = .ref c a) : attrDt d x = attrDt d xa := by
  rw [attrDt_eq, attrDt_eq, hx]
  simp only [attrKindAt_found hc ha]
  cases hk : xa.kind with
  | base t => rfl
  | derived t => rfl
  | ref c' b => exact absurd hk (hnr c' b)

variable (hty : baseTypeName d.dts dt = some ty)
  (hold : ((attrDt d xa).bind (baseTypeName d.dts)).isSome = true)

include wf hc ha hnr hold in
theorem xsite_old_supported {k : Class} (hk : k ∈ d.classes) {x : Attr} (hx : x ∈ k.attrs)
    (hs : isSite c a k x = true) : ((attrDt d x).bind (baseTypeName d.dts)).isSome = true := by
  unfold isSite at hs
  rcases Bool.or_eq_true_iff.mp hs with h | h
  · have h' := Bool.and_eq_true_iff.mp h
    have h1 : k.id = c := by simpa using h'.1
    have h2 : x.id = a := by simpa using h'.2
    have hkk : k = kc := wf.id_inj hk (findClass_mem hc) (by rw [h1, findClass_id hc])
    subst hkk
    have hxx : x = xa := eq_of_key_eq (fun (y : Attr) => y.id) (wf.attrIds k hk) hx (findAttr_mem ha)
      (by rw [h2, findAttr_id ha])
    subst hxx
    exact hold
  · have : x.kind = .ref c a := by simpa using h
    rw [attrDt_dependent hc ha hnr this]
    exact hold

include wf hc ha hnr hty hold in
theorem rt_xattr {k : Class} (hk : k ∈ d.classes) {x : Attr} (hx : x ∈ k.attrs) :
    xattr { d with classes := d.classes.map (rtG c a dt) } (if k.id == c then rtH a dt x else x) =
      (xattr d x).map (fun s =>
        if ((kc.kl, xa.name) :: dependents d c a).contains (k.kl, s.name) then { s with ty := ty } else s) := by
  have hder : (if k.id == c then rtH a dt x else x).isDerived = x.isDerived := by
    split
    · exact rtH_isDerived x
    · rfl
  have hname : (if k.id == c then rtH a dt x else x).name = x.name := by
    split
    · exact rtH_name x
    · rfl
  unfold xattr
  rw [hder, rt_attrDt wf hc ha hnr hk hx, hname]
  have hdts : ({ d with classes := d.classes.map (rtG c a dt) } : ClassDiagram).dts = d.dts := rfl
  rw [hdts]
  have hsc := sites_contains wf hc ha hk hx
  by_cases hd : x.isDerived = true
  · simp [hd]
  · simp only [hd]
    by_cases hs : isSite c a k x = true
    · have hsup := xsite_old_supported wf hc ha hnr hold hk hx hs
      obtain ⟨old, hold'⟩ := Option.isSome_iff_exists.mp hsup
      simp only [hs, if_true, hold', Option.bind_some, hty, Option.map_some, Bool.false_eq_true, if_false, hsc]
    · have hsf : isSite c a k x = false := by simpa using hs
      cases ht : (attrDt d x).bind (baseTypeName d.dts) with
      | none => simp [hsf, ht]
      | some t => simp only [hsf, Bool.false_eq_true, if_false, ht, Option.map_some, hsc]

include wf hc ha hnr hty hold in
theorem rt_xclassOf {k : Class} (hk : k ∈ d.classes) :
    xclassOf { d with classes := d.classes.map (rtG c a dt) } (rtG c a dt k) =
      (fun (s : XClass) => { s with attrs := s.attrs.map (fun a' =>
        if ((kc.kl, xa.name) :: dependents d c a).contains (s.kl, a'.name) then { a' with ty := ty } else a') })
        (xclassOf d k) := by
  unfold xclassOf
  rw [rtG_kl]
  simp only [XClass.mk.injEq, true_and]
  have hat : (rtG c a dt k).attrs = k.attrs.map (fun x => if k.id == c then rtH a dt x else x) := by
    unfold rtG
    by_cases h : (k.id == c) = true
    · simp [h]
    · simp [h]
  rw [hat, List.filterMap_map, List.map_filterMap]
  apply filterMap_congr'
  intro x hx
  exact rt_xattr wf hc ha hnr hty hold hk hx

end retype

theorem xretype_commutes {d : ClassDiagram} (wf : WF d) (c a dt : Nat) (comp : Nat)
    (hok : ∀ kc xa, findClass d c = some kc → kc.findAttr a = some xa → (∀ c' b, xa.kind ≠ .ref c' b) →
      (baseTypeName d.dts dt).isSome = true ∧ ((attrDt d xa).bind (baseTypeName d.dts)).isSome = true) :
    xsdSpecChained (applyXEdit (.retypeAttr c a dt) d) comp =
      specEdit (xresolve d comp (.retypeAttr c a dt)) (xsdSpecChained d comp) := by
  simp only [xresolve]
  cases hc : findClass d c with
  | none =>
    have : applyXEdit (.retypeAttr c a dt) d = d := by
      unfold applyXEdit applyEdit
      exact mapClass_self (fun k hk he => absurd he (findClass_none_ne hc k hk))
    rw [this]; rfl
  | some kc =>
    dsimp only
    cases ha : kc.findAttr a with
    | none =>
      have : applyXEdit (.retypeAttr c a dt) d = d := by
        unfold applyXEdit applyEdit
        apply mapClass_self
        intro k hk he
        have hkk : k = kc := wf.id_inj hk (findClass_mem hc) (by rw [he, findClass_id hc])
        subst hkk
        exact mapAttr_self (findAttr_none_ne ha)
      rw [this]; rfl
    | some xa =>
      by_cases hnr : ∀ c' b, xa.kind ≠ .ref c' b
      · obtain ⟨h1, hold⟩ := hok kc xa hc ha hnr
        obtain ⟨ty, hty⟩ := Option.isSome_iff_exists.mp h1
        rw [hty]
        dsimp only
        have main : xsdSpecChained (applyXEdit (.retypeAttr c a dt) d) comp =
            specEdit (XSEdit.retype ((kc.kl, xa.name) :: dependents d c a) ty) (xsdSpecChained d comp) := by
          have happ : applyXEdit (.retypeAttr c a dt) d = { d with classes := d.classes.map (rtG c a dt) } := rfl
          rw [happ]
          apply xspec_ext
          · rfl
          · rfl
          · show ((d.classes.map (rtG c a dt)).filter (fun k => containedIn d.containers d.pkgrefs comp k.parent)).map
                (xclassOf { d with classes := d.classes.map (rtG c a dt) }) = _
            rw [List.filter_map, List.map_map]
            have hpar : ((fun (k : Class) => containedIn d.containers d.pkgrefs comp k.parent) ∘ rtG c a dt) =
                (fun (k : Class) => containedIn d.containers d.pkgrefs comp k.parent) := by
              funext k; simp only [Function.comp]; unfold rtG; split <;> rfl
            rw [hpar]
            show _ = ((d.classes.filter (fun k => containedIn d.containers d.pkgrefs comp k.parent)).map (xclassOf d)).map _
            rw [List.map_map]
            apply List.map_congr_left
            intro k hk
            exact rt_xclassOf wf hc ha hnr hty hold (List.mem_filter.mp hk).1
        split
        · rename_i heq
          exact absurd heq (hnr _ _)
        · exact main
      · have ⟨c', b, hk⟩ : ∃ c' b, xa.kind = .ref c' b := by
          cases hk : xa.kind with
          | base t => exact absurd (fun c' b => by simp [hk]) hnr
          | derived t => exact absurd (fun c' b => by simp [hk]) hnr
          | ref c' b => exact ⟨c', b, rfl⟩
        have : applyXEdit (.retypeAttr c a dt) d = d := by
          unfold applyXEdit applyEdit
          apply mapClass_self
          intro k hk' he
          have hkk : k = kc := wf.id_inj hk' (findClass_mem hc) (by rw [he, findClass_id hc])
          subst hkk
          unfold Class.mapAttr
          have : k.attrs.map (fun x => if x.id == a then ({ x with kind := x.kind.retype dt } : Attr) else x) = k.attrs := by
            conv => rhs; rw [← List.map_id k.attrs]
            apply List.map_congr_left
            intro x hx
            by_cases hxa : x.id = a
            · have hxx : x = xa := eq_of_key_eq (fun (y : Attr) => y.id) (wf.attrIds k hk') hx (findAttr_mem ha)
                (by rw [hxa, findAttr_id ha])
              subst hxx
              have hb : (x.id == a) = true := by simp [hxa]
              simp only [hb, if_true, id]
              exact retype_ref_self x dt hk
            · simp [hxa]
          rw [this]
        rw [this]
        cases baseTypeName d.dts dt with
        | none => rfl
        | some ty =>
          dsimp only
          split
          · rfl
          · rename_i hne
            exact absurd hk (hne c' b)

end Pyx.Extract

namespace Pyx.Extract

/-! ### add an attribute -/

section addAttr
variable {d : ClassDiagram} (wf : WF d) {c : Nat} {x : Attr}

def adG (c : Nat) (x : Attr) (k : Class) : Class := if k.id == c then { k with attrs := k.attrs ++ [x] } else k

theorem adG_keepsId : KeepsId (adG c x) := by intro k; unfold adG; split <;> rfl
theorem adG_kl (k : Class) : (adG c x k).kl = k.kl := by unfold adG; split <;> rfl

theorem adG_findAttr (k : Class) (b : Nat) (hb : ¬ (k.id = c ∧ b = x.id)) :
    (adG c x k).findAttr b = k.findAttr b := by
  unfold adG
  by_cases h : k.id = c
  · have hbx : b ≠ x.id := fun he => hb ⟨h, he⟩
    simp only [h, beq_self_eq_true, if_true]
    unfold Class.findAttr
    simp only [List.find?_append]
    have : [x].find? (fun a => a.id == b) = none := by
      have : (x.id == b) = false := by simp [Ne.symm hbx]
      simp [List.find?_cons, this]
    rw [this]; simp
  · simp [h]

/-- nothing refers to the new Attr_ID yet -/
def FreshAttr (d : ClassDiagram) (c : Nat) (x : Attr) : Prop :=
  (∀ k ∈ d.classes, ∀ y ∈ k.attrs, y.kind ≠ .ref c x.id) ∧ x.kind ≠ .ref c x.id

theorem ad_attrKindAt (c' b : Nat) (hb : ¬ (c' = c ∧ b = x.id)) :
    attrKindAt { d with classes := d.classes.map (adG c x) } c' b = attrKindAt d c' b := by
  unfold attrKindAt
  rw [findClass_map adG_keepsId]
  cases hf : findClass d c' with
  | none => rfl
  | some k =>
    simp only [Option.map_some, Option.bind_some]
    rw [adG_findAttr k b (by rw [findClass_id hf]; exact hb)]

theorem ad_attrDt (y : Attr) (hy : y.kind ≠ .ref c x.id) :
    attrDt { d with classes := d.classes.map (adG c x) } y = attrDt d y := by
  rw [attrDt_eq, attrDt_eq]
  cases hk : y.kind with
  | base t => rfl
  | derived t => rfl
  | ref c' b =>
    have : ¬ (c' = c ∧ b = x.id) := by
      intro h; apply hy; rw [hk, h.1, h.2]
    simp only [ad_attrKindAt c' b this]

include wf in
theorem xaddAttr_commutes (c : Nat) (x : Attr) (comp : Nat) (fresh : FreshAttr d c x) :
    xsdSpecChained (applyXEdit (.addAttr c x) d) comp =
      specEdit (xresolve d comp (.addAttr c x)) (xsdSpecChained d comp) := by
  simp only [xresolve]
  cases hc : findClass d c with
  | none =>
    have : applyXEdit (.addAttr c x) d = d := by
      unfold applyXEdit
      exact mapClass_self (fun k hk he => absurd he (findClass_none_ne hc k hk))
    rw [this]; rfl
  | some kc =>
    dsimp only
    have happ : applyXEdit (.addAttr c x) d = { d with classes := d.classes.map (adG c x) } := rfl
    rw [happ]
    have hxa : ∀ k ∈ d.classes, ∀ y ∈ k.attrs,
        xattr { d with classes := d.classes.map (adG c x) } y = xattr d y := by
      intro k hk y hy
      exact xattr_same (by rw [ad_attrDt y (fresh.1 k hk y hy)])
    have hxx : xattr { d with classes := d.classes.map (adG c x) } x = xattr d x :=
      xattr_same (by rw [ad_attrDt x fresh.2])
    have hcls : ∀ k ∈ d.classes, xclassOf { d with classes := d.classes.map (adG c x) } (adG c x k) =
        if k.kl == kc.kl then { xclassOf d k with attrs := (xclassOf d k).attrs ++ (xattr d x).toList }
        else xclassOf d k := by
      intro k hk
      rw [← id_eq_iff_kl_eq wf hc hk]
      unfold xclassOf
      rw [adG_kl]
      by_cases h : k.id = c
      · have hat : (adG c x k).attrs = k.attrs ++ [x] := by unfold adG; simp [h]
        simp only [h, beq_self_eq_true, if_true, hat, List.filterMap_append, XClass.mk.injEq, true_and]
        rw [filterMap_congr' (hxa k hk)]
        simp only [List.filterMap_cons, List.filterMap_nil, hxx]
        cases xattr d x <;> rfl
      · have hat : (adG c x k).attrs = k.attrs := by unfold adG; simp [h]
        have hne : (k.id == c) = false := by simp [h]
        simp only [hne, Bool.false_eq_true, if_false, hat, XClass.mk.injEq, true_and]
        exact filterMap_congr' (hxa k hk)
    have hclasses : (xsdSpecChained { d with classes := d.classes.map (adG c x) } comp).classes =
        (xsdSpecChained d comp).classes.map (fun s =>
          if s.kl == kc.kl then { s with attrs := s.attrs ++ (xattr d x).toList } else s) := by
      show ((d.classes.map (adG c x)).filter (fun k => containedIn d.containers d.pkgrefs comp k.parent)).map
          (xclassOf { d with classes := d.classes.map (adG c x) }) = _
      rw [List.filter_map, List.map_map]
      have hpar : ((fun (k : Class) => containedIn d.containers d.pkgrefs comp k.parent) ∘ adG c x) =
          (fun (k : Class) => containedIn d.containers d.pkgrefs comp k.parent) := by
        funext k; simp only [Function.comp]; unfold adG; split <;> rfl
      rw [hpar]
      show _ = ((d.classes.filter (fun k => containedIn d.containers d.pkgrefs comp k.parent)).map (xclassOf d)).map _
      rw [List.map_map]
      apply List.map_congr_left
      intro k hk
      exact hcls k (List.mem_filter.mp hk).1
    cases hx : xattr d x with
    | none =>
      dsimp only
      apply xspec_ext
      · rfl
      · rfl
      · rw [hclasses, hx]
        show _ = (xsdSpecChained d comp).classes
        conv => rhs; rw [← List.map_id (xsdSpecChained d comp).classes]
        apply List.map_congr_left
        intro s _
        simp
    | some xa =>
      dsimp only
      apply xspec_ext
      · rfl
      · rfl
      · rw [hclasses, hx]
        rfl

end addAttr
end Pyx.Extract

namespace Pyx.Extract

/-! ### enumerator edits -/

section enums
variable {d : ClassDiagram} {t : Nat} {F : List String → List String}

def enG (t : Nat) (F : List String → List String) (x : DataType) : DataType :=
  if x.id == t then { x with kind := x.kind.mapEnum F } else x

theorem enG_id (x : DataType) : (enG t F x).id = x.id := by unfold enG; split <;> rfl
theorem enG_name (x : DataType) : (enG t F x).name = x.name := by unfold enG; split <;> rfl
theorem enG_parent (x : DataType) : (enG t F x).parent = x.parent := by unfold enG; split <;> rfl

theorem findDt_map (dts : List DataType) (i : Nat) :
    findDt (dts.map (enG t F)) i = (findDt dts i).map (enG t F) := by
  unfold findDt
  simp only [List.find?_map]
  congr 1
  apply find?_congr'
  intro a _
  simp [enG_id]

theorem enG_kind_cases (x : DataType) :
    (∀ n, x.kind = .core n → (enG t F x).kind = .core n) ∧
    (∀ b, x.kind = .user b → (enG t F x).kind = .user b) ∧
    (x.kind = .other → (enG t F x).kind = .other) ∧
    (∀ es, x.kind = .enum es → ∃ es', (enG t F x).kind = .enum es') := by
  unfold enG
  refine ⟨?_, ?_, ?_, ?_⟩
  · intro n h; split <;> simp [h, DtKind.mapEnum]
  · intro b h; split <;> simp [h, DtKind.mapEnum]
  · intro h; split <;> simp [h, DtKind.mapEnum]
  · intro es h; split
    · exact ⟨F es, by simp [h, DtKind.mapEnum]⟩
    · exact ⟨es, h⟩

theorem en_typeNameOf (dts : List DataType) (i : Nat) :
    typeNameOf (dts.map (enG t F)) i = typeNameOf dts i := by
  unfold typeNameOf
  rw [findDt_map]
  cases hf : findDt dts i with
  | none => rfl
  | some x =>
    simp only [Option.map_some]
    rw [enG_name]
    obtain ⟨h1, h2, h3, h4⟩ := enG_kind_cases (t := t) (F := F) x
    cases hk : x.kind with
    | core n => rw [h1 n hk]
    | user b => rw [h2 b hk]
    | other => rw [h3 hk]
    | enum es => obtain ⟨es', he⟩ := h4 es hk; rw [he]

theorem en_baseTypeFuel (dts : List DataType) (f i : Nat) :
    baseTypeFuel (dts.map (enG t F)) f i = baseTypeFuel dts f i := by
  induction f generalizing i with
  | zero => rfl
  | succ f ih =>
    simp only [baseTypeFuel]
    rw [findDt_map]
    cases hf : findDt dts i with
    | none => rfl
    | some x =>
      simp only [Option.map_some]
      rw [enG_name]
      obtain ⟨h1, h2, h3, h4⟩ := enG_kind_cases (t := t) (F := F) x
      cases hk : x.kind with
      | core n => rw [h1 n hk]
      | user b => rw [h2 b hk]; exact ih b
      | other => rw [h3 hk]
      | enum es => obtain ⟨es', he⟩ := h4 es hk; rw [he]

theorem en_baseTypeName (dts : List DataType) (i : Nat) :
    baseTypeName (dts.map (enG t F)) i = baseTypeName dts i := by
  unfold baseTypeName
  rw [List.length_map, en_baseTypeFuel]

theorem en_xattr (a : Attr) : xattr { d with dts := d.dts.map (enG t F) } a = xattr d a := by
  apply xattr_same
  have : attrDt { d with dts := d.dts.map (enG t F) } a = attrDt d a := rfl
  rw [this]
  show (attrDt d a).bind (baseTypeName (d.dts.map (enG t F))) = _
  rw [funext (en_baseTypeName d.dts)]

theorem en_classes (comp : Nat) :
    (xsdSpecChained { d with dts := d.dts.map (enG t F) } comp).classes = (xsdSpecChained d comp).classes := by
  show (d.classes.filter (fun k => containedIn d.containers d.pkgrefs comp k.parent)).map
      (xclassOf { d with dts := d.dts.map (enG t F) }) = _
  apply List.map_congr_left
  intro k _
  unfold xclassOf
  simp only [XClass.mk.injEq, true_and]
  apply filterMap_congr'
  intro a _
  exact en_xattr a

theorem mapDt_self {d : ClassDiagram} {t : Nat} {f : DataType → DataType}
    (h : ∀ x ∈ d.dts, x.id = t → f x = x) : mapDt d t f = d := by
  unfold mapDt
  have : d.dts.map (fun x => if x.id == t then f x else x) = d.dts := by
    conv => rhs; rw [← List.map_id d.dts]
    apply List.map_congr_left
    intro x hx
    by_cases he : x.id = t
    · simp [he, h x hx he]
    · simp [he]
  rw [this]

theorem findDt_mem {dts : List DataType} {i : Nat} {x : DataType} (h : findDt dts i = some x) : x ∈ dts :=
  List.mem_of_find?_eq_some h

theorem findDt_id {dts : List DataType} {i : Nat} {x : DataType} (h : findDt dts i = some x) : x.id = i := by
  have := List.find?_some h; simpa using this

/-- both enumerator edits: the enumerators of data type `t` become `F es` -/
theorem enumEdit_commutes (xwf : XWF d) (comp : Nat) :
    xsdSpecChained (mapDt d t (fun x => { x with kind := x.kind.mapEnum F })) comp =
      specEdit (match findDt d.dts t with
        | some x =>
          match x.kind with
          | .enum es => .setEnum x.name (F es)
          | _ => .nop
        | none => .nop) (xsdSpecChained d comp) := by
  cases hf : findDt d.dts t with
  | none =>
    have : mapDt d t (fun x => { x with kind := x.kind.mapEnum F }) = d := by
      apply mapDt_self
      intro x hx he
      have := List.find?_eq_none.mp hf x hx
      simp [he] at this
    rw [this]; rfl
  | some tx =>
    dsimp only
    have htm := findDt_mem hf
    have hti := findDt_id hf
    have huniq : ∀ x ∈ d.dts, x.id = t → x = tx := by
      intro x hx he
      exact eq_of_key_eq (fun (y : DataType) => y.id) xwf.dtIds hx htm (by rw [he, hti])
    cases hk : tx.kind with
    | enum es0 =>
      dsimp only
      have happ : mapDt d t (fun x => { x with kind := x.kind.mapEnum F }) = { d with dts := d.dts.map (enG t F) } := rfl
      rw [happ]
      have hpt : ∀ x ∈ d.dts, xtypeOf (d.dts.map (enG t F)) (enG t F x) =
          (xtypeOf d.dts x).map (XType.setEnum tx.name (F es0)) := by
        intro x hx
        by_cases he : x.id = t
        · have := huniq x hx he
          subst this
          have : enG t F x = { x with kind := .enum (F es0) } := by
            unfold enG; simp [he, hk, DtKind.mapEnum]
          rw [this]
          unfold xtypeOf
          simp [hk, XType.setEnum]
        · have hg : enG t F x = x := by unfold enG; simp [he]
          rw [hg]
          have hname : x.name ≠ tx.name := by
            intro hn
            have := eq_of_key_eq (fun (y : DataType) => y.name) xwf.dtNames hx htm hn
            exact he (by rw [this, hti])
          unfold xtypeOf
          cases hxk : x.kind with
          | core n => simp only; cases coreXs x.name <;> simp [XType.setEnum]
          | enum es => simp [XType.setEnum, hname]
          | user b => simp only [en_typeNameOf]; cases typeNameOf d.dts b <;> simp [XType.setEnum]
          | other => rfl
      apply xspec_ext
      · show ((d.dts.map (enG t F)).filter (fun x => isGlobal d.containers x.parent)).filterMap
            (xtypeOf (d.dts.map (enG t F))) ++
          ((d.dts.map (enG t F)).filter (fun x => containedIn d.containers d.pkgrefs comp x.parent && !isGlobal d.containers x.parent)).filterMap
            (xtypeOf (d.dts.map (enG t F))) = ((xsdSpecChained d comp).types).map (XType.setEnum tx.name (F es0))
        rw [List.filter_map, List.filter_map, List.filterMap_map, List.filterMap_map]
        have hp1 : ((fun (x : DataType) => isGlobal d.containers x.parent) ∘ enG t F) =
            (fun (x : DataType) => isGlobal d.containers x.parent) := by
          funext x; simp only [Function.comp, enG_parent]
        have hp2 : ((fun (x : DataType) => containedIn d.containers d.pkgrefs comp x.parent && !isGlobal d.containers x.parent) ∘ enG t F) =
            (fun (x : DataType) => containedIn d.containers d.pkgrefs comp x.parent && !isGlobal d.containers x.parent) := by
          funext x; simp only [Function.comp, enG_parent]
        rw [hp1, hp2]
        show _ = ((d.dts.filter (fun x => isGlobal d.containers x.parent)).filterMap (xtypeOf d.dts) ++
          (d.dts.filter (fun x => containedIn d.containers d.pkgrefs comp x.parent && !isGlobal d.containers x.parent)).filterMap (xtypeOf d.dts)).map _
        rw [List.map_append, List.map_filterMap, List.map_filterMap]
        congr 1
        · apply filterMap_congr'
          intro x hx
          exact hpt x (List.mem_filter.mp hx).1
        · apply filterMap_congr'
          intro x hx
          exact hpt x (List.mem_filter.mp hx).1
      · rfl
      · exact en_classes comp
    | core n =>
      have : mapDt d t (fun x => { x with kind := x.kind.mapEnum F }) = d := by
        apply mapDt_self
        intro x hx he
        have := huniq x hx he
        subst this
        cases x; simp_all [DtKind.mapEnum]
      rw [this]; rfl
    | user b =>
      have : mapDt d t (fun x => { x with kind := x.kind.mapEnum F }) = d := by
        apply mapDt_self
        intro x hx he
        have := huniq x hx he
        subst this
        cases x; simp_all [DtKind.mapEnum]
      rw [this]; rfl
    | other =>
      have : mapDt d t (fun x => { x with kind := x.kind.mapEnum F }) = d := by
        apply mapDt_self
        intro x hx he
        have := huniq x hx he
        subst this
        cases x; simp_all [DtKind.mapEnum]
      rw [this]; rfl

theorem xaddEnum_commutes (xwf : XWF d) (t : Nat) (name : String) (comp : Nat) :
    xsdSpecChained (applyXEdit (.addEnum t name) d) comp = specEdit (xresolve d comp (.addEnum t name)) (xsdSpecChained d comp) :=
  enumEdit_commutes (F := fun es => es ++ [name]) xwf comp

theorem xpermEnums_commutes (xwf : XWF d) (t : Nat) (perm : List Nat) (comp : Nat) :
    xsdSpecChained (applyXEdit (.permEnums t perm) d) comp = specEdit (xresolve d comp (.permEnums t perm)) (xsdSpecChained d comp) :=
  enumEdit_commutes (F := permute perm) xwf comp

end enums
end Pyx.Extract

namespace Pyx.Extract

/-! ### add a data type -/

section addType
variable {d : ClassDiagram} {t : DataType}

/-- the new DT_ID is unused: no data type has it, no user type is based on it (nor the new type on
    itself), no attribute is typed by it -/
structure FreshType (d : ClassDiagram) (t : DataType) : Prop where
  noDt : ∀ x ∈ d.dts, x.id ≠ t.id
  noBase : ∀ x ∈ d.dts, x.kind ≠ .user t.id
  noSelf : t.kind ≠ .user t.id
  noAttr : ∀ k ∈ d.classes, ∀ y ∈ k.attrs, y.kind ≠ .base t.id ∧ y.kind ≠ .derived t.id

/-- WITHOUT package references a global element is in no component (with them it can be: `is_global` does not follow
    EP_PKGREF rows, `is_contained_in` does) -/
theorem global_not_contained (cs : List Container) (root : Nat) (f : Nat) (p : Parent)
    (h : globalFuel cs f p = true) : containedFuel cs [] root f p = false := by
  induction f generalizing p with
  | zero => rfl
  | succ f ih =>
    cases p with
    | none => rfl
    | comp c =>
      simp only [globalFuel, Option.isNone_iff_eq_none] at h
      simp only [containedFuel, h]
    | pkg q =>
      simp only [globalFuel] at h
      simp only [containedFuel]
      cases hf : findContainer cs false q with
      | none => rfl
      | some k =>
        rw [hf] at h
        simp only [List.any_nil, Bool.or_false]
        exact ih k.parent h

theorem findDt_append_ne (dts : List DataType) (t : DataType) (i : Nat) (h : i ≠ t.id) :
    findDt (dts ++ [t]) i = findDt dts i := by
  unfold findDt
  simp only [List.find?_append]
  have : [t].find? (fun x => x.id == i) = none := by
    have : (t.id == i) = false := by simp [Ne.symm h]
    simp [this]
  rw [this]; simp

theorem at_typeNameOf (i : Nat) (h : i ≠ t.id) : typeNameOf (d.dts ++ [t]) i = typeNameOf d.dts i := by
  unfold typeNameOf; rw [findDt_append_ne _ _ _ h]

theorem at_xtypeOf (x : DataType) (h : x.kind ≠ .user t.id) : xtypeOf (d.dts ++ [t]) x = xtypeOf d.dts x := by
  unfold xtypeOf
  cases hk : x.kind with
  | user b =>
    have : b ≠ t.id := by intro hb; apply h; rw [hk, hb]
    simp only [at_typeNameOf b this]
  | _ => rfl

theorem at_baseTypeFuel (fr : FreshType d t) (f i : Nat) (h : i ≠ t.id) :
    baseTypeFuel (d.dts ++ [t]) f i = baseTypeFuel d.dts f i := by
  induction f generalizing i with
  | zero => rfl
  | succ f ih =>
    simp only [baseTypeFuel]
    rw [findDt_append_ne _ _ _ h]
    cases hf : findDt d.dts i with
    | none => rfl
    | some x =>
      simp only
      cases hk : x.kind with
      | user b =>
        have : b ≠ t.id := by intro hb; exact fr.noBase x (findDt_mem hf) (by rw [hk, hb])
        exact ih b this
      | _ => rfl

theorem at_baseTypeName (chain : DtChainOk d.dts) (fr : FreshType d t) (i : Nat) (h : i ≠ t.id) :
    baseTypeName (d.dts ++ [t]) i = baseTypeName d.dts i := by
  unfold baseTypeName
  rw [List.length_append, List.length_singleton, at_baseTypeFuel fr _ i h]
  obtain ⟨depth, hdec, hb⟩ := chain.ex
  exact baseTypeFuel_stable depth hdec _ _ i (by have := hb i; omega) (by have := hb i; omega)

theorem attrDt_ne_fresh (fr : FreshType d t) {k : Class} (hk : k ∈ d.classes) {y : Attr} (hy : y ∈ k.attrs)
    {dt : Nat} (h : attrDt d y = some dt) : dt ≠ t.id := by
  rw [attrDt_eq] at h
  cases hyk : y.kind with
  | base u =>
    rw [hyk] at h; simp only [Option.some.injEq] at h
    intro he; exact (fr.noAttr k hk y hy).1 (by rw [hyk, h, he])
  | derived u =>
    rw [hyk] at h; simp only [Option.some.injEq] at h
    intro he; exact (fr.noAttr k hk y hy).2 (by rw [hyk, h, he])
  | ref c b =>
    rw [hyk] at h
    simp only at h
    unfold attrKindAt at h
    cases hc : findClass d c with
    | none => simp [hc] at h
    | some k' =>
      cases hb : k'.findAttr b with
      | none => simp [hc, hb] at h
      | some z =>
        simp only [hc, hb, Option.bind_some, Option.map_some] at h
        have hzm := findAttr_mem hb
        have hk'm := findClass_mem hc
        cases hzk : z.kind with
        | base u =>
          rw [hzk] at h; simp only [Option.some.injEq] at h
          intro he; exact (fr.noAttr k' hk'm z hzm).1 (by rw [hzk, h, he])
        | derived u =>
          rw [hzk] at h; simp only [Option.some.injEq] at h
          intro he; exact (fr.noAttr k' hk'm z hzm).2 (by rw [hzk, h, he])
        | ref c' b' => rw [hzk] at h; simp at h

theorem at_xattr (chain : DtChainOk d.dts) (fr : FreshType d t) {k : Class} (hk : k ∈ d.classes) {y : Attr} (hy : y ∈ k.attrs) :
    xattr { d with dts := d.dts ++ [t] } y = xattr d y := by
  apply xattr_same
  have : attrDt { d with dts := d.dts ++ [t] } y = attrDt d y := rfl
  rw [this]
  show (attrDt d y).bind (baseTypeName (d.dts ++ [t])) = _
  cases h : attrDt d y with
  | none => rfl
  | some dt =>
    simp only [Option.bind_some]
    exact at_baseTypeName chain fr dt (attrDt_ne_fresh fr hk hy h)

theorem xaddType_commutes (chain : DtChainOk d.dts) (fr : FreshType d t) (comp : Nat) :
    xsdSpecChained (applyXEdit (.addType t) d) comp = specEdit (xresolve d comp (.addType t)) (xsdSpecChained d comp) := by
  have happ : applyXEdit (.addType t) d = { d with dts := d.dts ++ [t] } := rfl
  rw [happ]
  have hxall : ∀ x ∈ d.dts, xtypeOf (d.dts ++ [t]) x = xtypeOf d.dts x :=
    fun x hx => at_xtypeOf x (fr.noBase x hx)
  have hxt : xtypeOf (d.dts ++ [t]) t = xtypeOf d.dts t := at_xtypeOf t fr.noSelf
  have hclasses : (xsdSpecChained { d with dts := d.dts ++ [t] } comp).classes = (xsdSpecChained d comp).classes := by
    show (d.classes.filter (fun k => containedIn d.containers d.pkgrefs comp k.parent)).map
        (xclassOf { d with dts := d.dts ++ [t] }) = _
    apply List.map_congr_left
    intro k hk
    unfold xclassOf
    simp only [XClass.mk.injEq, true_and]
    apply filterMap_congr'
    intro y hy
    exact at_xattr chain fr (List.mem_filter.mp hk).1 hy
  have htypes : (xsdSpecChained { d with dts := d.dts ++ [t] } comp).types =
      ((d.dts.filter (fun x => isGlobal d.containers x.parent)).filterMap (xtypeOf d.dts) ++
        (if isGlobal d.containers t.parent then (xtypeOf d.dts t).toList else [])) ++
      ((d.dts.filter (fun x => containedIn d.containers d.pkgrefs comp x.parent && !isGlobal d.containers x.parent)).filterMap (xtypeOf d.dts) ++
        (if (containedIn d.containers d.pkgrefs comp t.parent && !isGlobal d.containers t.parent) = true
          then (xtypeOf d.dts t).toList else [])) := by
    show ((d.dts ++ [t]).filter (fun x => isGlobal d.containers x.parent)).filterMap (xtypeOf (d.dts ++ [t])) ++
      ((d.dts ++ [t]).filter (fun x => containedIn d.containers d.pkgrefs comp x.parent && !isGlobal d.containers x.parent)).filterMap (xtypeOf (d.dts ++ [t])) = _
    simp only [List.filter_append, List.filterMap_append]
    rw [filterMap_congr' (l := d.dts.filter (fun x => isGlobal d.containers x.parent))
          (fun x hx' => hxall x (List.mem_filter.mp hx').1),
        filterMap_congr' (l := d.dts.filter (fun x => containedIn d.containers d.pkgrefs comp x.parent && !isGlobal d.containers x.parent))
          (fun x hx' => hxall x (List.mem_filter.mp hx').1)]
    congr 1
    · congr 1
      simp only [List.filter_cons, List.filter_nil]
      split
      · simp only [List.filterMap_cons, List.filterMap_nil, hxt]
        cases xtypeOf d.dts t <;> rfl
      · rfl
    · congr 1
      simp only [List.filter_cons, List.filter_nil]
      split
      · simp only [List.filterMap_cons, List.filterMap_nil, hxt]
        cases xtypeOf d.dts t <;> rfl
      · rfl
  simp only [xresolve]
  cases hxo : xtypeOf d.dts t with
  | none =>
    dsimp only
    apply xspec_ext
    · rw [htypes, hxo]
      show _ = (xsdSpecChained d comp).types
      simp [xsdSpecChained]
    · rfl
    · exact hclasses
  | some x =>
    dsimp only
    by_cases hg : isGlobal d.containers t.parent = true
    · simp only [hg, if_true]
      apply xspec_ext
      · rw [htypes, hxo, hg]
        simp only [Bool.not_true, Bool.and_false, Bool.false_eq_true, if_false]
        show _ = insertAt _ x ((d.dts.filter (fun x => isGlobal d.containers x.parent)).filterMap (xtypeOf d.dts) ++
          (d.dts.filter (fun x => containedIn d.containers d.pkgrefs comp x.parent && !isGlobal d.containers x.parent)).filterMap (xtypeOf d.dts))
        rw [insertAt_length]
        simp
      · rfl
      · exact hclasses
    · have hgf : isGlobal d.containers t.parent = false := by simpa using hg
      simp only [hgf, Bool.false_eq_true, if_false]
      by_cases hcn : containedIn d.containers d.pkgrefs comp t.parent = true
      · simp only [hcn, if_true]
        apply xspec_ext
        · rw [htypes, hxo, hgf, hcn]
          simp only [Bool.not_false, Bool.and_true, if_true]
          show _ = insertAt _ x ((d.dts.filter (fun x => isGlobal d.containers x.parent)).filterMap (xtypeOf d.dts) ++
            (d.dts.filter (fun x => containedIn d.containers d.pkgrefs comp x.parent && !isGlobal d.containers x.parent)).filterMap (xtypeOf d.dts))
          rw [← List.length_append]
          have := insertAt_length x ((d.dts.filter (fun x => isGlobal d.containers x.parent)).filterMap (xtypeOf d.dts) ++
            (d.dts.filter (fun x => containedIn d.containers d.pkgrefs comp x.parent && !isGlobal d.containers x.parent)).filterMap (xtypeOf d.dts)) []
          rw [List.append_nil] at this
          rw [this]
          simp
        · rfl
        · exact hclasses
      · have hcf : containedIn d.containers d.pkgrefs comp t.parent = false := by simpa using hcn
        simp only [hcf, Bool.false_eq_true, if_false]
        apply xspec_ext
        · rw [htypes, hgf, hcf]
          simp only [Bool.false_and, Bool.false_eq_true, if_false]
          show _ = (xsdSpecChained d comp).types
          simp [xsdSpecChained]
        · rfl
        · exact hclasses

end addType
end Pyx.Extract
