import PyxModel.Prebuild.Mech

/-
  C06 helper lemmas: the typing mechanism (`buildExpr`: R820 obtained by navigating from the operands' values)
  produces exactly the rows of the specification walk, and R820 of the value of `e` is `typeOf e`.
-/
namespace Pyx.Prebuild

/-- the generic instance-reference type is not the reference type of a modelled class -/
def GenericFree (c : TCtx) : Prop := c.classOfType (some "inst_ref<Object>") = none

theorem fieldRow_ne_slr (cls : Option ClassInfo) (a : String) : ((fieldRow cls a).1 == "V_SLR") = false := by
  unfold fieldRow
  cases cls with
  | some ci => simp only; decide
  | none => simp only; split <;> decide

theorem kindOf_ne_slr (c : TCtx) (env : Env) (sel : Option String) (h : Expr) (hs : h ≠ .selected) :
    (kindOf c env sel h == "V_SLR") = false := by
  cases h with
  | selected => exact absurd rfl hs
  | var n =>
    simp only [kindOf]
    split
    · decide
    · decide
    · decide
    · split <;> decide
  | enum nsp n =>
    simp only [kindOf]
    split
    · split <;> decide
    · decide
  | field hh aa =>
    simp only [kindOf]
    split <;> exact fieldRow_ne_slr _ _
  | call k a b ps => cases k <;> (simp only [kindOf]; decide)
  | _ => simp only [kindOf]; decide

theorem field_ok (c : TCtx) (env : Env) (sel : Option String) (hg : GenericFree c) (h : Expr) (a : String) :
    fieldRow (fieldClass c sel (typeOf c env sel h) (kindOf c env sel h)) a =
      (kindOf c env sel (.field h a), typeOf c env sel (.field h a)) := by
  by_cases hs : h = .selected
  · subst hs
    have h0 : tyClass c (some "inst_ref<Object>") = none := by
      unfold tyClass; rw [show c.classOfType (some "inst_ref<Object>") = none from hg]
    simp [typeOf, fieldClass, kindOf, h0, attrTy]
  · have hk := kindOf_ne_slr c env sel h hs
    have e1 : typeOf c env sel (.field h a) = (fieldRow (tyClass c (typeOf c env sel h)) a).2 := by
      cases h <;> first | exact absurd rfl hs | simp only [typeOf, attrTy]
    have e2 : kindOf c env sel (.field h a) = (fieldRow (tyClass c (typeOf c env sel h)) a).1 := by
      cases h <;> first | exact absurd rfl hs | simp only [kindOf]
    rw [e1, e2]
    have e3 : fieldClass c sel (typeOf c env sel h) (kindOf c env sel h) = tyClass c (typeOf c env sel h) := by
      simp only [fieldClass, hk]
      cases tyClass c (typeOf c env sel h) <;> rfl
    rw [e3]

/-! ### list facts -/

theorem get_new (l : List Row) (x : Row) : (l ++ [x])[l.length]? = some x := by simp

theorem get_stable {l : List Row} {i : Nat} {x : Row} (m : List Row) (h : l[i]? = some x) :
    (l ++ m)[i]? = some x := by
  have hi : i < l.length := by
    cases hlt : decide (i < l.length) with
    | true => exact of_decide_eq_true hlt
    | false =>
      have : l.length ≤ i := Nat.le_of_not_lt (of_decide_eq_false hlt)
      rw [List.getElem?_eq_none this] at h; cases h
  rw [List.getElem?_append_left hi]; exact h

theorem r820_of {p : Pop} {i : Nat} {k : String} {t : Ty} (h : p.vals[i]? = some (k, t)) : p.r820 i = t := by
  simp [Pop.r820, h]

theorem kind_of {p : Pop} {i : Nat} {k : String} {t : Ty} (h : p.vals[i]? = some (k, t)) : p.kind i = k := by
  simp [Pop.kind, h]

theorem typeOf_call_nil (c : TCtx) (env : Env) (sel : Option String) (k : CallKind) (nsp n : String) (ps : Params) :
    typeOf c env sel (.call k nsp n .nil) = typeOf c env sel (.call k nsp n ps) := by
  cases k <;> simp [typeOf]

/-- the invariant: the mechanism appends exactly the rows of the specification walk, and the instance it
    returns for `e` carries `kindOf e` and, across R820, `typeOf e` -/
def Good (c : TCtx) (env : Env) (sel : Option String) (e : Expr) (p : Pop) (r : Nat × Pop) : Prop :=
  r.2.vals = p.vals ++ walkExpr c env sel e ∧
  r.2.vals[r.1]? = some (kindOf c env sel e, typeOf c env sel e)

theorem good_leaf (c : TCtx) (env : Env) (sel : Option String) (e : Expr) (p : Pop)
    (hw : walkExpr c env sel e = [(kindOf c env sel e, typeOf c env sel e)]) :
    Good c env sel e p (p.newVal (kindOf c env sel e) (typeOf c env sel e)) := by
  refine ⟨by simp [Pop.newVal, hw], ?_⟩
  simp [Pop.newVal]

mutual
  theorem buildExpr_good (c : TCtx) (env : Env) (sel : Option String) (hg : GenericFree c) :
      ∀ (e : Expr) (p : Pop), Good c env sel e p (buildExpr c env sel e p)
    | .int v, p => by simpa [buildExpr] using good_leaf c env sel (.int v) p (by simp [walkExpr])
    | .real v, p => by simpa [buildExpr] using good_leaf c env sel (.real v) p (by simp [walkExpr])
    | .str v, p => by simpa [buildExpr] using good_leaf c env sel (.str v) p (by simp [walkExpr])
    | .bool v, p => by simpa [buildExpr] using good_leaf c env sel (.bool v) p (by simp [walkExpr])
    | .enum a b, p => by simpa [buildExpr] using good_leaf c env sel (.enum a b) p (by simp [walkExpr])
    | .var n, p => by simpa [buildExpr] using good_leaf c env sel (.var n) p (by simp [walkExpr])
    | .self, p => by simpa [buildExpr] using good_leaf c env sel .self p (by simp [walkExpr])
    | .selected, p => by simpa [buildExpr] using good_leaf c env sel .selected p (by simp [walkExpr])
    | .param n, p => by simpa [buildExpr] using good_leaf c env sel (.param n) p (by simp [walkExpr])
    | .field h a, p => by
        obtain ⟨h1, h2⟩ := buildExpr_good c env sel hg h p
        have ht := r820_of h2
        have hk := kind_of h2
        simp only [buildExpr, Good, Pop.newVal, ht, hk, field_ok c env sel hg h a]
        refine ⟨by rw [h1]; simp [walkExpr], ?_⟩
        simp
    | .index h i, p => by
        obtain ⟨h1, h2⟩ := buildExpr_good c env sel hg h p
        obtain ⟨i1, _⟩ := buildExpr_good c env sel hg i (buildExpr c env sel h p).2
        have h2' := get_stable (walkExpr c env sel i) h2
        rw [← i1] at h2'
        have ht := r820_of h2'
        simp only [buildExpr, Good, Pop.newVal, ht]
        refine ⟨by rw [i1, h1]; simp [walkExpr, kindOf, typeOf], ?_⟩
        simp [kindOf, typeOf]
    | .un op e, p => by
        obtain ⟨h1, h2⟩ := buildExpr_good c env sel hg e p
        have ht := r820_of h2
        simp only [buildExpr, Good, Pop.newVal, ht]
        have hty : opType op (typeOf c env sel e) = typeOf c env sel (.un op e) := by simp [opType, typeOf]
        refine ⟨by rw [h1, hty]; simp [walkExpr, kindOf], ?_⟩
        simp [kindOf, hty]
    | .bin l op r, p => by
        obtain ⟨h1, h2⟩ := buildExpr_good c env sel hg l p
        obtain ⟨r1, _⟩ := buildExpr_good c env sel hg r (buildExpr c env sel l p).2
        have h2' := get_stable (walkExpr c env sel r) h2
        rw [← r1] at h2'
        have ht := r820_of h2'
        simp only [buildExpr, Good, Pop.newVal, ht]
        have hty : binType op (typeOf c env sel l) = typeOf c env sel (.bin l op r) := by simp [binType, typeOf]
        refine ⟨by rw [r1, h1, hty]; simp [walkExpr, kindOf], ?_⟩
        simp [kindOf, hty]
    | .call k nsp n ps, p => by
        have hp := buildParams_good c env sel hg ps (p.newVal (kindOf c env sel (.call k nsp n ps))
          (typeOf c env sel (.call k nsp n .nil))).2
        have hnil := typeOf_call_nil c env sel k nsp n ps
        simp only [buildExpr, Good]
        rw [hp, hnil]
        simp only [Pop.newVal]
        refine ⟨by simp [walkExpr], ?_⟩
        exact get_stable _ (get_new _ _)
    | .icall h n ps, p => by
        obtain ⟨h1, h2⟩ := buildExpr_good c env sel hg h p
        have ht := r820_of h2
        have hp := buildParams_good c env sel hg ps
          ((buildExpr c env sel h p).2.newVal "V_TRV" (opTy (tyClass c (typeOf c env sel h)) n)).2
        simp only [buildExpr, Good, ht]
        rw [hp]
        simp only [Pop.newVal]
        refine ⟨by rw [h1]; simp [walkExpr, kindOf, typeOf], ?_⟩
        simp [kindOf, typeOf]
  theorem buildParams_good (c : TCtx) (env : Env) (sel : Option String) (hg : GenericFree c) :
      ∀ (ps : Params) (p : Pop), (buildParamsRev c env sel ps p).vals = p.vals ++ walkParamsRev c env sel ps
    | .nil, p => by simp [buildParamsRev, walkParamsRev]
    | .cons n e rest, p => by
        obtain ⟨h1, _⟩ := buildExpr_good c env sel hg e (buildParamsRev c env sel rest p)
        simp only [buildParamsRev, walkParamsRev]
        rw [h1, buildParams_good c env sel hg rest p, List.append_assoc]
end

/-- R820 of the value the mechanism builds for `e` is `typeOf e`, its R801 subtype is `kindOf e`, and the values
    it creates are, in creation order, the rows of the specification walk -/
theorem mechanism_types (c : TCtx) (env : Env) (sel : Option String) (hg : GenericFree c) (e : Expr) (p : Pop) :
    let r := buildExpr c env sel e p
    r.2.r820 r.1 = typeOf c env sel e ∧ r.2.kind r.1 = kindOf c env sel e ∧
    r.2.vals = p.vals ++ walkExpr c env sel e := by
  obtain ⟨h1, h2⟩ := buildExpr_good c env sel hg e p
  exact ⟨r820_of h2, kind_of h2, h1⟩

end Pyx.Prebuild
