import Proofs.SqlRoutes

set_option linter.unusedSimpArgs false

/-! the canonical form an item has after one reload (type names upper-cased, unset values replaced by the null value):
    it denotes the same statement as the original and is its own canonical form -/
namespace Pyx.Sql
open Gen.SqlLex (Rule Kw)
open Gen.Persist (Ty)

def AsciiText (w : Text) : Prop := ∀ c ∈ w, c.toNat < 128

theorem toNat_ofNat_valid (n : Nat) (h : n.isValidChar) : (Char.ofNat n).toNat = n := by
  unfold Char.ofNat
  rw [dif_pos h]
  unfold Char.ofNatAux Char.toNat
  simp

theorem asciiUpper_lt (c : Char) (h : c.toNat < 128) : (asciiUpper c).toNat < 128 := by
  unfold asciiUpper
  split
  · rename_i hl
    simp only [isAsciiLower, Bool.and_eq_true, decide_eq_true_eq] at hl
    have hv : (c.toNat - 32).isValidChar := by left; omega
    have : (Char.ofNat (c.toNat - 32)).toNat = c.toNat - 32 := toNat_ofNat_valid _ hv
    omega
  · exact h

theorem asciiUpper_idem (c : Char) (h : c.toNat < 128) : asciiUpper (asciiUpper c) = asciiUpper c := by
  unfold asciiUpper
  split
  · rename_i hl
    simp only [isAsciiLower, Bool.and_eq_true, decide_eq_true_eq] at hl
    have hv : (c.toNat - 32).isValidChar := by left; omega
    have hn : (Char.ofNat (c.toNat - 32)).toNat = c.toNat - 32 := toNat_ofNat_valid _ hv
    have : isAsciiLower (Char.ofNat (c.toNat - 32)) = false := by
      simp only [isAsciiLower, hn, Bool.and_eq_false_iff, decide_eq_false_iff_not]; omega
    simp [this]
  · rename_i hl; simp [hl]

theorem upper_ascii (u : UC) (w : Text) (h : AsciiText w) : u.upper w = w.map asciiUpper := by
  induction w with
  | nil => rfl
  | cons c cs ih =>
    have hc : c.toNat < 128 := h c (by simp)
    simp only [UC.upper, List.flatMap_cons, UC.up, hc, if_true, List.map_cons, List.singleton_append]
    have := ih (fun x hx => h x (by simp [hx]))
    simp only [UC.upper] at this
    rw [this]

theorem upper_idem (u : UC) (w : Text) (h : AsciiText w) : u.upper (u.upper w) = u.upper w := by
  have h1 := upper_ascii u w h
  have h2 : AsciiText (w.map asciiUpper) := by
    intro c hc
    simp only [List.mem_map] at hc
    obtain ⟨d, hd, rfl⟩ := hc
    exact asciiUpper_lt d (h d hd)
  rw [h1, upper_ascii u _ h2, List.map_map]
  apply List.map_congr_left
  intro c hc
  exact asciiUpper_idem c (h c hc)

theorem tyOfName_upper (u : UC) (ty : Name) (h : AsciiText ty) : tyOfName u (u.upper ty) = tyOfName u ty := by
  simp only [tyOfName, upper_idem u ty h]

/-- the value a cell holds after a reload: an unset cell holds the null value of its type -/
def canonVal (u : UC) (ty : Name) (v : Option Val) : Option Val :=
  match tyOfName u ty with
  | some t => resolveVal t v
  | none => v

def canonVals (u : UC) : List (Name × Name) → List (Option Val) → List (Option Val)
  | a :: attrs, v :: vs => canonVal u a.2 v :: canonVals u attrs vs
  | _, vs => vs

/-- the item as it is printed from the reloaded metamodel -/
def canonItem (u : UC) : Item → Item
  | .cls kind attrs => .cls kind (attrs.map fun a => (a.1, u.upper a.2))
  | .inst kind attrs vals => .inst kind (attrs.map fun a => (a.1, u.upper a.2)) (canonVals u attrs vals)
  | it => it

theorem resolveVal_idem (t : Ty) (v : Option Val) : resolveVal t (resolveVal t v) = resolveVal t v := by
  cases v with
  | some x => rfl
  | none =>
    simp only [resolveVal]
    cases h : nullOf t with
    | none => simp [resolveVal, h]
    | some x => rfl

theorem cellText_canon (u : UC) (ty : Name) (h : AsciiText ty) (v : Option Val) :
    cellText u (u.upper ty) (canonVal u ty v) = cellText u ty v := by
  unfold cellText canonVal
  rw [tyOfName_upper u ty h]
  cases ht : tyOfName u ty with
  | none => rfl
  | some t => simp only [printValue_eq, resolveVal_idem]

theorem rowTexts_canon (u : UC) : ∀ (attrs : List (Name × Name)) (vals : List (Option Val)),
    (∀ a ∈ attrs, AsciiText a.2) →
    rowTexts u (attrs.map fun a => (a.1, u.upper a.2)) (canonVals u attrs vals) = rowTexts u attrs vals := by
  intro attrs
  induction attrs with
  | nil => intro vals _; rfl
  | cons a attrs ih =>
    intro vals h
    obtain ⟨name, ty⟩ := a
    cases vals with
    | nil => rfl
    | cons v vs =>
      simp only [List.map_cons, canonVals, rowTexts, cellText_canon u ty (h (name, ty) (by simp)) v,
        ih vs (fun a ha => h a (by simp [ha]))]

/-- type names are ASCII (true of every identifier of the persistable domain) -/
def Item.AsciiTypes : Item → Prop
  | .cls _ attrs => ∀ a ∈ attrs, AsciiText a.2
  | .inst _ attrs _ => ∀ a ∈ attrs, AsciiText a.2
  | _ => True

/-- the reloaded form of an item denotes the SAME statement as the original: loading the text written from the
    reloaded metamodel gives the same statements again -/
theorem canon_stmt (u : UC) (it : Item) (h : it.AsciiTypes) : (canonItem u it).stmt u = it.stmt u := by
  cases it with
  | cls kind attrs =>
    simp only [canonItem, Item.stmt, List.map_map, Option.some.injEq, Stmt.createTable.injEq, true_and]
    apply List.map_congr_left
    intro a ha
    simp only [Function.comp, upper_idem u a.2 (h a ha)]
  | inst kind attrs vals => simp only [canonItem, Item.stmt, rowTexts_canon u attrs vals h]
  | assoc _ _ _ => rfl
  | index _ _ _ => rfl

theorem canonVal_idem (u : UC) (ty : Name) (h : AsciiText ty) (v : Option Val) :
    canonVal u (u.upper ty) (canonVal u ty v) = canonVal u ty v := by
  unfold canonVal
  rw [tyOfName_upper u ty h]
  cases ht : tyOfName u ty with
  | none => rfl
  | some t => exact resolveVal_idem t v

theorem canonVals_idem (u : UC) : ∀ (attrs : List (Name × Name)) (vals : List (Option Val)),
    (∀ a ∈ attrs, AsciiText a.2) →
    canonVals u (attrs.map fun a => (a.1, u.upper a.2)) (canonVals u attrs vals) = canonVals u attrs vals := by
  intro attrs
  induction attrs with
  | nil => intro vals _; cases vals <;> rfl
  | cons a attrs ih =>
    intro vals h
    cases vals with
    | nil => rfl
    | cons v vs =>
      simp only [List.map_cons, canonVals, canonVal_idem u a.2 (h a (by simp)) v, ih vs (fun a ha => h a (by simp [ha]))]

/-- canonicalising twice is canonicalising once: the text written from the reloaded metamodel is reproduced by
    loading and writing it again -/
theorem canon_idem (u : UC) (it : Item) (h : it.AsciiTypes) : canonItem u (canonItem u it) = canonItem u it := by
  cases it with
  | cls kind attrs =>
    simp only [canonItem, List.map_map, Item.cls.injEq, true_and]
    apply List.map_congr_left
    intro a ha
    simp only [Function.comp, upper_idem u a.2 (h a ha)]
  | inst kind attrs vals =>
    simp only [canonItem, List.map_map, Item.inst.injEq, true_and]
    refine ⟨?_, ?_⟩
    · apply List.map_congr_left
      intro a ha
      simp only [Function.comp, upper_idem u a.2 (h a ha)]
    · exact canonVals_idem u attrs vals h
  | assoc _ _ _ => rfl
  | index _ _ _ => rfl

end Pyx.Sql
