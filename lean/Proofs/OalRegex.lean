import Proofs.OalLayout
import PyxModel.Regex
import Proofs.Regex
import PyxModel.Oal.LexRx

/-!
  The hand-written scanners of the OAL lexer model ARE the regexes of the rule docstrings.

  `Pyx.Regex.Regex.matchPrefix` is a generic backtracking matcher with Python's semantics; `Gen.OalLex.rx` holds, for
  every rule, the AST Python's own regex parser gives for the rule's SOURCE regex.  This file proves, rule by rule,
  that the deterministic pattern (`Pat`) the proved lexer model uses for the rule returns on EVERY input what
  `matchPrefix` returns on the generated AST (`scanner_is_regex_*` in Props/C13.lean).

  Method: `toPat` reads a regex as a deterministic pattern (ordered choice without backtracking into a finished
  alternative, greedy class repetition without giving characters back).  `peg_eq`: the backtracking matcher agrees
  with that reading whenever the continuation is `Safe` - after a greedy class repetition the continuation either
  never fails or cannot start with a character of the class (so giving characters back cannot help), and after an
  alternative that matched, a failing continuation also fails after the later alternatives.
-/
namespace Pyx.OalLex
open Pyx.Regex Pyx.Regex.Regex

/-! ## the repetition of a character class -/

theorem spanLen_eq_runLen (p : Char → Bool) (cs : List Char) : spanLen p cs = runLen p cs := by
  induction cs with
  | nil => rfl
  | cons c cs ih => simp only [spanLen, runLen, ih]

theorem starLoop_cls (s : CSet) (k : List Char → Option Nat) (cs : List Char) (fuel : Nat) (hf : cs.length < fuel)
    (h : (k (cs.drop (spanLen s.mem cs))).isSome = true ∨ ∀ x rest, s.mem x = true → k (x :: rest) = none) :
    starLoop (matchK (.cls s)) true fuel cs k = k (cs.drop (spanLen s.mem cs)) := by
  rw [spanLen_eq_runLen] at h ⊢
  exact Pyx.Regex.starLoop_cls s k cs fuel hf h

/-! ## reading a regex as a deterministic pattern -/

/-- the class of a regex that is one character class, possibly inside groups -/
def asCls : Regex → Option CSet
  | .cls s => some s
  | .group r => asCls r
  | _ => none

/-- the literal string a regex spells (sequence of one-character positive classes), if it is one -/
def litOf : Regex → Option (List Char)
  | .eps => some []
  | .cls s => match s.neg, s.items with
    | false, [.ch c] => some [c]
    | _, _ => none
  | .seq a b => match litOf a, litOf b with
    | some x, some y => some (x ++ y)
    | _, _ => none
  | .group r => litOf r
  | _ => none

def toPat : Regex → Pat
  | .eps => .eps
  | .cls s => .ch s.mem
  | .seq a b => .seq (toPat a) (toPat b)
  | .alt a b => .alt (toPat a) (toPat b)
  | .star _ r => match asCls r with
    | some s => .many s.mem
    | none => .eps
  | .group r => toPat r
  | .look r => .look ((litOf r).getD [])
  | .nlook _ => .eps

theorem matchK_asCls (r : Regex) (s : CSet) (h : asCls r = some s) : matchK r = matchK (.cls s) := by
  induction r with
  | cls s' => simp only [asCls, Option.some.injEq] at h; rw [h]
  | group r ih =>
    simp only [asCls] at h
    funext cs k
    have hg : matchK (.group r) cs k = matchK r cs k := by simp only [matchK]
    rw [hg, ih h]
  | eps => simp [asCls] at h
  | seq _ _ _ _ => simp [asCls] at h
  | alt _ _ _ _ => simp [asCls] at h
  | star _ _ _ => simp [asCls] at h
  | look _ _ => simp [asCls] at h
  | nlook _ _ => simp [asCls] at h

theorem hasPrefix_append (a b cs : List Char) :
    hasPrefix (a ++ b) cs = (hasPrefix a cs && hasPrefix b (cs.drop a.length)) := by
  induction a generalizing cs with
  | nil => simp [hasPrefix]
  | cons x a ih =>
    cases cs with
    | nil => simp [hasPrefix]
    | cons c cs => simp only [List.cons_append, hasPrefix, List.length_cons, List.drop_succ_cons, ih, Bool.and_assoc]

theorem matchK_lit (r : Regex) : ∀ (l : List Char), litOf r = some l → ∀ (cs : List Char) (k : List Char → Option Nat),
    matchK r cs k = if hasPrefix l cs then k (cs.drop l.length) else none := by
  induction r with
  | eps => intro l h cs k; simp only [litOf, Option.some.injEq] at h; subst h; simp [matchK, hasPrefix]
  | cls s =>
    intro l h cs k
    obtain ⟨neg, items⟩ := s
    simp only [litOf] at h
    split at h
    · next c hneg hitems =>
      simp only [Option.some.injEq] at h; subst h
      cases cs with
      | nil => simp [matchK, hasPrefix]
      | cons x cs => simp [matchK, hasPrefix, CSet.mem, CItem.mem]
    · simp at h
  | seq a b iha ihb =>
    intro l h cs k
    simp only [litOf] at h
    cases ha : litOf a with
    | none => simp [ha] at h
    | some x =>
      cases hb : litOf b with
      | none => simp [ha, hb] at h
      | some y =>
        simp only [ha, hb, Option.some.injEq] at h; subst h
        simp only [matchK, iha x ha, hasPrefix_append]
        by_cases hx : hasPrefix x cs = true
        · simp only [hx, if_true, Bool.true_and, ihb y hb, List.length_append, List.drop_drop]
        · have : hasPrefix x cs = false := by simpa using hx
          simp [this]
  | group r ih => intro l h cs k; simp only [litOf] at h; simp only [matchK]; exact ih l h cs k
  | alt _ _ _ _ => intro l h; simp [litOf] at h
  | star _ _ _ => intro l h; simp [litOf] at h
  | look _ _ => intro l h; simp [litOf] at h
  | nlook _ _ => intro l h; simp [litOf] at h

/-- continuation after a pattern result -/
def contAt (k : List Char → Option Nat) (cs : List Char) : Option Nat → Option Nat
  | some n => k (cs.drop n)
  | none => none

/-- the continuation `k` is harmless after `r`: no point of `r` where backtracking could find something the
    deterministic reading misses -/
def Safe : Regex → (List Char → Option Nat) → Prop
  | .eps, _ => True
  | .cls _, _ => True
  | .seq a b, k => Safe b k ∧ Safe a (fun cs => matchK b cs k)
  | .alt a b, k => Safe a k ∧ Safe b k ∧
      ∀ cs n, (toPat a).run cs = some n → k (cs.drop n) = none → contAt k cs ((toPat b).run cs) = none
  | .star g r, k => g = true ∧ ∃ s, asCls r = some s ∧
      ((∀ x rest, s.mem x = true → k (x :: rest) = none) ∨ ∀ cs, (k cs).isSome = true)
  | .group r, k => Safe r k
  | .look r, _ => (litOf r).isSome = true
  | .nlook _, _ => False

/-- peg_eq: under `Safe`, Python's backtracking matcher computes the deterministic reading -/
theorem peg_eq (r : Regex) : ∀ (cs : List Char) (k : List Char → Option Nat), Safe r k →
    matchK r cs k = contAt k cs ((toPat r).run cs) := by
  induction r with
  | eps => intro cs k _; simp [matchK, toPat, Pat.run, contAt]
  | cls s =>
    intro cs k _
    cases cs with
    | nil => simp [matchK, toPat, Pat.run, contAt]
    | cons x cs => by_cases hx : s.mem x = true <;> simp [matchK, toPat, Pat.run, contAt, hx]
  | seq a b iha ihb =>
    intro cs k h
    simp only [Safe] at h
    simp only [matchK, toPat, Pat.run]
    rw [iha cs _ h.2]
    cases ha : (toPat a).run cs with
    | none => simp [contAt]
    | some n =>
      simp only [contAt]
      rw [ihb _ k h.1]
      cases hb : (toPat b).run (cs.drop n) with
      | none => simp [contAt]
      | some m => simp [contAt, List.drop_drop]
  | alt a b iha ihb =>
    intro cs k h
    simp only [Safe] at h
    obtain ⟨h1, h2, h3⟩ := h
    simp only [matchK, toPat, Pat.run]
    rw [iha cs k h1, ihb cs k h2]
    cases ha : (toPat a).run cs with
    | none => simp [contAt]
    | some n =>
      simp only [contAt]
      cases hk : k (cs.drop n) with
      | some v => rfl
      | none => simp only; exact h3 cs n ha hk
  | star g r _ =>
    intro cs k h
    simp only [Safe] at h
    obtain ⟨rfl, s, hs, hk⟩ := h
    simp only [matchK, toPat, hs, Pat.run, contAt]
    rw [matchK_asCls r s hs]
    apply starLoop_cls s k cs _ (by omega)
    rcases hk with hk | hk
    · exact Or.inr hk
    · exact Or.inl (hk _)
  | group r ih => intro cs k h; simp only [Safe] at h; simp only [matchK, toPat]; exact ih cs k h
  | look r _ =>
    intro cs k h
    simp only [Safe] at h
    obtain ⟨l, hl⟩ := Option.isSome_iff_exists.mp h
    simp only [matchK, toPat, hl, Option.getD_some, Pat.run]
    rw [matchK_lit r l hl]
    by_cases hp : hasPrefix l cs = true <;> simp [hp, contAt]
  | nlook r _ => intro cs k h; simp [Safe] at h

/-- the final continuation of `matchPrefix` -/
def kFin (cs : List Char) : List Char → Option Nat := fun rest => some (cs.length - rest.length)

theorem kFin_isSome (cs cs' : List Char) : (kFin cs cs').isSome = true := rfl

/-- for a regex that is `Safe` under the final continuation, `matchPrefix` is the deterministic reading -/
theorem matchPrefix_eq_run (r : Regex) (cs : List Char) (h : Safe r (kFin cs)) :
    matchPrefix r cs = (toPat r).run cs := by
  unfold matchPrefix
  have := peg_eq r cs (kFin cs) h
  unfold kFin at this
  rw [this]
  cases hr : (toPat r).run cs with
  | none => rfl
  | some n =>
    have hn := Pat.run_le _ cs n hr
    simp only [contAt, List.length_drop, Option.some.injEq]
    omega

/-! ## deterministic patterns that differ only in how their classes are written -/

inductive PatEq : Pat → Pat → Prop
  | eps : PatEq .eps .eps
  | ch (f g : Char → Bool) : (∀ c, f c = g c) → PatEq (.ch f) (.ch g)
  | many (f g : Char → Bool) : (∀ c, f c = g c) → PatEq (.many f) (.many g)
  | seq (a a' b b' : Pat) : PatEq a a' → PatEq b b' → PatEq (.seq a b) (.seq a' b')
  | alt (a a' b b' : Pat) : PatEq a a' → PatEq b b' → PatEq (.alt a b) (.alt a' b')
  | look (l : List Char) : PatEq (.look l) (.look l)

theorem spanLen_congr (f g : Char → Bool) (h : ∀ c, f c = g c) (cs : List Char) : spanLen f cs = spanLen g cs := by
  induction cs with
  | nil => rfl
  | cons c cs ih => simp only [spanLen, h c, ih]

theorem PatEq.run {p q : Pat} (h : PatEq p q) : ∀ cs, p.run cs = q.run cs := by
  induction h with
  | eps => intro cs; rfl
  | ch f g hfg =>
    intro cs
    cases cs with
    | nil => rfl
    | cons c cs => simp only [Pat.run, hfg c]
  | many f g hfg => intro cs; simp only [Pat.run, spanLen_congr f g hfg]
  | seq a a' b b' _ _ iha ihb => intro cs; simp only [Pat.run, iha, ihb]
  | alt a a' b b' _ _ iha ihb => intro cs; simp only [Pat.run, iha, ihb]
  | look l => intro cs; rfl


/-! ## character classes of the generated ASTs against the predicates of the scanners -/

theorem mem_ch (x c : Char) : CSet.mem { neg := false, items := [.ch x] } c = (c == x) := by
  simp [CSet.mem, CItem.mem]

theorem mem_nch (x c : Char) : CSet.mem { neg := true, items := [.ch x] } c = !(c == x) := by
  simp [CSet.mem, CItem.mem]

theorem mem_nch2 (x y c : Char) : CSet.mem { neg := true, items := [.ch x, .ch y] } c = (!(c == x) && !(c == y)) := by
  simp [CSet.mem, CItem.mem]

theorem mem_ch2 (x y c : Char) : CSet.mem { neg := false, items := [.ch x, .ch y] } c = (c == x || c == y) := by
  simp [CSet.mem, CItem.mem]

theorem mem_digit (c : Char) : CSet.mem { neg := false, items := [.cat .digit] } c = isDigit c := by
  simp [CSet.mem, CItem.mem, Cat.mem]; rfl

theorem mem_space (c : Char) : CSet.mem { neg := false, items := [.cat .space] } c = isSpace c := by
  simp [CSet.mem, CItem.mem, Cat.mem]; rfl

theorem beq_iff_toNat (a b : Char) : (a == b) = true ↔ a.toNat = b.toNat := by
  simp [Char.toNat_inj]

/-- `[Xx]` is "lower-cases to x" -/
theorem mem_ci (X x c : Char) (hx : 97 ≤ x.toNat ∧ x.toNat ≤ 122) (hX : X.toNat + 32 = x.toNat) :
    CSet.mem { neg := false, items := [.ch X, .ch x] } c = (lowerAscii c == x) := by
  rw [mem_ch2, Bool.eq_iff_iff, Bool.or_eq_true, beq_iff_toNat, beq_iff_toNat, beq_iff_toNat]
  rcases lower_cases c with ⟨h, e⟩ | ⟨h, e⟩
  · omega
  · rw [e]; omega

theorem mem_ci' (X x c : Char) (hx : 97 ≤ x.toNat ∧ x.toNat ≤ 122) (hX : X.toNat + 32 = x.toNat) :
    CSet.mem { neg := false, items := [.ch x, .ch X] } c = (lowerAscii c == x) := by
  rw [← mem_ci X x c hx hX, mem_ch2, mem_ch2, Bool.or_comm]

theorem mem_word (c : Char) :
    CSet.mem { neg := false, items := [.range '0' '9', .range 'a' 'z', .range 'A' 'Z', .ch '_'] } c = isWord c := by
  have h0 : ('0' : Char).toNat = 48 := rfl
  have h9 : ('9' : Char).toNat = 57 := rfl
  have ha : ('a' : Char).toNat = 97 := rfl
  have hz : ('z' : Char).toNat = 122 := rfl
  have hA : ('A' : Char).toNat = 65 := rfl
  have hZ : ('Z' : Char).toNat = 90 := rfl
  have hu : c = '_' ↔ c.toNat = 95 := ⟨fun h => by rw [h]; rfl, fun h => Char.toNat_inj.mp (by rw [h]; rfl)⟩
  rw [Bool.eq_iff_iff]
  simp only [CSet.mem, CItem.mem, List.any_cons, List.any_nil, isWord, isLetterA, isUpperA, isLowerA, h0, h9, ha, hz,
    hA, hZ, Bool.or_false, bne_iff_ne, ne_eq, Bool.or_eq_true, Bool.and_eq_true, decide_eq_true_eq,
    Bool.not_eq_false, beq_iff_eq, hu]
  omega

theorem mem_idStart (c : Char) :
    CSet.mem { neg := false, items := [.range 'a' 'z', .range 'A' 'Z', .ch '_'] } c = isIdStart c := by
  have ha : ('a' : Char).toNat = 97 := rfl
  have hz : ('z' : Char).toNat = 122 := rfl
  have hA : ('A' : Char).toNat = 65 := rfl
  have hZ : ('Z' : Char).toNat = 90 := rfl
  have hu : c = '_' ↔ c.toNat = 95 := ⟨fun h => by rw [h]; rfl, fun h => Char.toNat_inj.mp (by rw [h]; rfl)⟩
  rw [Bool.eq_iff_iff]
  simp only [CSet.mem, CItem.mem, List.any_cons, List.any_nil, isIdStart, isLetterA, isUpperA, isLowerA, ha, hz,
    hA, hZ, Bool.or_false, bne_iff_ne, ne_eq, Bool.or_eq_true, Bool.and_eq_true, decide_eq_true_eq,
    Bool.not_eq_false, beq_iff_eq, hu]
  omega

/-! ## continuations -/

/-- the continuation never fails -/
def NeverFails (k : List Char → Option Nat) : Prop := ∀ cs, (k cs).isSome = true
/-- the continuation fails on every input that starts with a character of the class -/
def RejectsCls (s : CSet) (k : List Char → Option Nat) : Prop := ∀ x rest, s.mem x = true → k (x :: rest) = none

theorem nf_kFin (cs : List Char) : NeverFails (kFin cs) := fun _ => rfl

theorem nf_opt (r : Regex) (k : List Char → Option Nat) (h : NeverFails k) :
    NeverFails (fun cs => matchK (.alt r .eps) cs k) := by
  intro cs
  simp only [matchK]
  cases matchK r cs k with
  | some v => rfl
  | none => exact h cs

theorem safe_star (r : Regex) (s : CSet) (k : List Char → Option Nat) (hs : asCls r = some s)
    (h : RejectsCls s k ∨ NeverFails k) : Safe (.star true r) k := ⟨rfl, s, hs, h⟩

theorem safe_alt_nf (a b : Regex) (k : List Char → Option Nat) (ha : Safe a k) (hb : Safe b k) (h : NeverFails k) :
    Safe (.alt a b) k := by
  refine ⟨ha, hb, ?_⟩
  intro cs n _ hk
  have := h (cs.drop n)
  rw [hk] at this
  simp at this

/-- a continuation that starts with a class disjoint from `s` rejects `s` -/
theorem rejects_cls (s t : CSet) (k : List Char → Option Nat) (h : ∀ x, s.mem x = true → t.mem x = false) :
    RejectsCls s (fun cs => matchK (.cls t) cs k) := by
  intro x rest hx
  simp [matchK, h x hx]

theorem rejects_seq_cls (s t : CSet) (b : Regex) (k : List Char → Option Nat)
    (h : ∀ x, s.mem x = true → t.mem x = false) : RejectsCls s (fun cs => matchK (.seq (.cls t) b) cs k) := by
  intro x rest hx
  simp [matchK, h x hx]

/-- regexes without repetition, choice and look-ahead -/
def simple : Regex → Bool
  | .eps => true
  | .cls _ => true
  | .seq a b => simple a && simple b
  | .group r => simple r
  | _ => false

theorem safe_simple (r : Regex) : ∀ k, simple r = true → Safe r k := by
  induction r with
  | eps => intro _ _; trivial
  | cls _ => intro _ _; trivial
  | seq a b iha ihb =>
    intro k h
    simp only [simple, Bool.and_eq_true] at h
    exact ⟨ihb _ h.2, iha _ h.1⟩
  | group r ih => intro k h; exact ih k h
  | alt _ _ _ _ => intro _ h; simp [simple] at h
  | star _ _ _ => intro _ h; simp [simple] at h
  | look _ _ => intro _ h; simp [simple] at h
  | nlook _ _ => intro _ h; simp [simple] at h

theorem safe_seq_cls (s : CSet) (b : Regex) (k : List Char → Option Nat) (h : Safe b k) : Safe (.seq (.cls s) b) k :=
  ⟨h, trivial⟩

/-- `[class]+` before a continuation -/
theorem safe_plus (s : CSet) (k : List Char → Option Nat) (h : RejectsCls s k ∨ NeverFails k) :
    Safe (.seq (.cls s) (.star true (.cls s))) k := ⟨safe_star _ _ _ rfl h, trivial⟩

/-! ## the rules of the generated table -/

open Gen.OalLex

/-- `\d+` -/
theorem scanner_number (cs : List Char) : matchPrefix rx_NUMBER cs = patNumber.run cs := by
  rw [matchPrefix_eq_run]
  · apply PatEq.run
    simp only [rx_NUMBER, toPat, asCls, patNumber, Pat.many1]
    exact .seq _ _ _ _ (.ch _ _ mem_digit) (.many _ _ mem_digit)
  · exact ⟨safe_star _ _ _ rfl (Or.inr (nf_kFin cs)), trivial⟩

/-- `\n+` -/
theorem scanner_newline (cs : List Char) : matchPrefix rx_newline cs = patNewline.run cs := by
  rw [matchPrefix_eq_run]
  · apply PatEq.run
    simp only [rx_newline, toPat, asCls, patNewline, Pat.many1]
    exact .seq _ _ _ _ (.ch _ _ (mem_ch _)) (.many _ _ (mem_ch _))
  · exact ⟨safe_star _ _ _ rfl (Or.inr (nf_kFin cs)), trivial⟩

/-- `"[^"\n]*"` -/
theorem scanner_string (cs : List Char) : matchPrefix rx_STRING cs = patString.run cs := by
  rw [matchPrefix_eq_run]
  · apply PatEq.run
    simp only [rx_STRING, toPat, asCls, patString, Pat.seqs, Pat.lit]
    exact .seq _ _ _ _ (.ch _ _ (mem_ch _)) (.seq _ _ _ _ (.many _ _ (mem_nch2 _ _)) (.ch _ _ (mem_ch _)))
  · refine ⟨⟨trivial, safe_star _ _ _ rfl (Or.inl (rejects_cls _ _ _ ?_))⟩, trivial⟩
    intro x hx
    rw [mem_nch2, Bool.and_eq_true] at hx
    rw [mem_ch]
    simpa using hx.1

/-- `\'[^\']*\'` -/
theorem scanner_ticked (cs : List Char) : matchPrefix rx_TICKED_PHRASE cs = patTicked.run cs := by
  rw [matchPrefix_eq_run]
  · apply PatEq.run
    simp only [rx_TICKED_PHRASE, toPat, asCls, patTicked, Pat.seqs, Pat.lit]
    exact .seq _ _ _ _ (.ch _ _ (mem_ch _)) (.seq _ _ _ _ (.many _ _ (mem_nch _)) (.ch _ _ (mem_ch _)))
  · refine ⟨⟨trivial, safe_star _ _ _ rfl (Or.inl (rejects_cls _ _ _ ?_))⟩, trivial⟩
    intro x hx
    rw [mem_nch] at hx
    rw [mem_ch]
    simpa using hx

/-- `\/\/.*\n` -/
theorem scanner_slString (cs : List Char) : matchPrefix rx_SL_STRING cs = patSlString.run cs := by
  rw [matchPrefix_eq_run]
  · apply PatEq.run
    simp only [rx_SL_STRING, toPat, asCls, patSlString, Pat.seqs, Pat.lit]
    exact .seq _ _ _ _ (.ch _ _ (mem_ch _)) (.seq _ _ _ _ (.ch _ _ (mem_ch _))
      (.seq _ _ _ _ (.many _ _ (mem_nch _)) (.ch _ _ (mem_ch _))))
  · refine ⟨⟨⟨trivial, safe_star _ _ _ rfl (Or.inl (rejects_cls _ _ _ ?_))⟩, trivial⟩, trivial⟩
    intro x hx
    rw [mem_nch] at hx
    rw [mem_ch]
    simpa using hx


/-- a rule whose regex spells a literal: the scanner compares with that literal -/
theorem matchPrefix_lit (r : Regex) (l : List Char) (h : litOf r = some l) (hne : l.isEmpty = false) (cs : List Char) :
    matchPrefix r cs = scanLit l cs := by
  unfold matchPrefix scanLit
  rw [matchK_lit r l h, hne]
  by_cases hp : hasPrefix l cs = true
  · have := congrArg List.length (hasPrefix_take l cs hp)
    simp only [List.length_take] at this
    simp only [hp, if_true, Bool.false_eq_true, if_false, List.length_drop, Option.some.injEq]
    omega
  · simp [hp]

/-- a digit / blank / word character is none of the punctuation the continuations start with -/
theorem digit_ne (x y : Char) (hy : isDigit y = false) (hx : isDigit x = true) : (x == y) = false := by
  cases h : x == y with
  | false => rfl
  | true => rw [beq_iff_eq] at h; subst h; rw [hy] at hx; cases hx

theorem space_ne (x y : Char) (hy : isSpace y = false) (hx : isSpace x = true) : (x == y) = false := by
  cases h : x == y with
  | false => rfl
  | true => rw [beq_iff_eq] at h; subst h; rw [hy] at hx; cases hx

theorem word_ne (x y : Char) (hy : isWord y = false) (hx : isWord x = true) : (x == y) = false := by
  cases h : x == y with
  | false => rfl
  | true => rw [beq_iff_eq] at h; subst h; rw [hy] at hx; cases hx

/-- `[Ee][Nn][Dd][\s]+` then the per-letter classes of a word -/
theorem scanner_endFor (cs : List Char) : matchPrefix rx_END_FOR cs = (patEnd ['f', 'o', 'r']).run cs := by
  rw [matchPrefix_eq_run]
  · apply PatEq.run
    simp only [rx_END_FOR, toPat, asCls, patEnd, Pat.seqs, Pat.ci, Pat.many1, List.map, List.cons_append, List.nil_append]
    exact .seq _ _ _ _ (.ch _ _ fun c => mem_ci 'E' 'e' c (by decide) (by decide))
      (.seq _ _ _ _ (.ch _ _ fun c => mem_ci 'N' 'n' c (by decide) (by decide))
      (.seq _ _ _ _ (.ch _ _ fun c => mem_ci 'D' 'd' c (by decide) (by decide))
      (.seq _ _ _ _ (.seq _ _ _ _ (.ch _ _ mem_space) (.many _ _ mem_space))
      (.seq _ _ _ _ (.ch _ _ fun c => mem_ci 'F' 'f' c (by decide) (by decide))
      (.seq _ _ _ _ (.ch _ _ fun c => mem_ci 'O' 'o' c (by decide) (by decide))
        (.ch _ _ fun c => mem_ci 'R' 'r' c (by decide) (by decide)))))))
  · refine safe_seq_cls _ _ _ (safe_seq_cls _ _ _ (safe_seq_cls _ _ _ ⟨safe_simple _ _ rfl,
      safe_plus _ _ (Or.inl (rejects_seq_cls _ _ _ _ ?_))⟩))
    intro x hx
    rw [mem_space] at hx
    rw [mem_ch2, space_ne x 'F' (by decide) hx, space_ne x 'f' (by decide) hx]; rfl

theorem scanner_endIf (cs : List Char) : matchPrefix rx_END_IF cs = (patEnd ['i', 'f']).run cs := by
  rw [matchPrefix_eq_run]
  · apply PatEq.run
    simp only [rx_END_IF, toPat, asCls, patEnd, Pat.seqs, Pat.ci, Pat.many1, List.map, List.cons_append, List.nil_append]
    exact .seq _ _ _ _ (.ch _ _ fun c => mem_ci 'E' 'e' c (by decide) (by decide))
      (.seq _ _ _ _ (.ch _ _ fun c => mem_ci 'N' 'n' c (by decide) (by decide))
      (.seq _ _ _ _ (.ch _ _ fun c => mem_ci 'D' 'd' c (by decide) (by decide))
      (.seq _ _ _ _ (.seq _ _ _ _ (.ch _ _ mem_space) (.many _ _ mem_space))
      (.seq _ _ _ _ (.ch _ _ fun c => mem_ci 'I' 'i' c (by decide) (by decide))
        (.ch _ _ fun c => mem_ci 'F' 'f' c (by decide) (by decide))))))
  · refine safe_seq_cls _ _ _ (safe_seq_cls _ _ _ (safe_seq_cls _ _ _ ⟨safe_simple _ _ rfl,
      safe_plus _ _ (Or.inl (rejects_seq_cls _ _ _ _ ?_))⟩))
    intro x hx
    rw [mem_space] at hx
    rw [mem_ch2, space_ne x 'I' (by decide) hx, space_ne x 'i' (by decide) hx]; rfl

theorem scanner_endWhile (cs : List Char) :
    matchPrefix rx_END_WHILE cs = (patEnd ['w', 'h', 'i', 'l', 'e']).run cs := by
  rw [matchPrefix_eq_run]
  · apply PatEq.run
    simp only [rx_END_WHILE, toPat, asCls, patEnd, Pat.seqs, Pat.ci, Pat.many1, List.map, List.cons_append,
      List.nil_append]
    exact .seq _ _ _ _ (.ch _ _ fun c => mem_ci 'E' 'e' c (by decide) (by decide))
      (.seq _ _ _ _ (.ch _ _ fun c => mem_ci 'N' 'n' c (by decide) (by decide))
      (.seq _ _ _ _ (.ch _ _ fun c => mem_ci 'D' 'd' c (by decide) (by decide))
      (.seq _ _ _ _ (.seq _ _ _ _ (.ch _ _ mem_space) (.many _ _ mem_space))
      (.seq _ _ _ _ (.ch _ _ fun c => mem_ci 'W' 'w' c (by decide) (by decide))
      (.seq _ _ _ _ (.ch _ _ fun c => mem_ci 'H' 'h' c (by decide) (by decide))
      (.seq _ _ _ _ (.ch _ _ fun c => mem_ci 'I' 'i' c (by decide) (by decide))
      (.seq _ _ _ _ (.ch _ _ fun c => mem_ci 'L' 'l' c (by decide) (by decide))
        (.ch _ _ fun c => mem_ci 'E' 'e' c (by decide) (by decide)))))))))
  · refine safe_seq_cls _ _ _ (safe_seq_cls _ _ _ (safe_seq_cls _ _ _ ⟨safe_simple _ _ rfl,
      safe_plus _ _ (Or.inl (rejects_seq_cls _ _ _ _ ?_))⟩))
    intro x hx
    rw [mem_space] at hx
    rw [mem_ch2, space_ne x 'W' (by decide) hx, space_ne x 'w' (by decide) hx]; rfl


/-- `([0-9a-zA-Z_])+(?=::)` -/
theorem scanner_namespace (cs : List Char) : matchPrefix rx_NAMESPACE cs = patNamespace.run cs := by
  rw [matchPrefix_eq_run]
  · apply PatEq.run
    simp only [rx_NAMESPACE, toPat, asCls, litOf, patNamespace, Pat.many1, Option.getD_some, List.cons_append,
      List.nil_append]
    exact .seq _ _ _ _ (.seq _ _ _ _ (.ch _ _ mem_word) (.many _ _ mem_word)) (.look _)
  · refine ⟨rfl, safe_star _ _ _ rfl (Or.inl ?_), trivial⟩
    intro x rest hx
    rw [mem_word] at hx
    simp [matchK, mem_ch, word_ne x ':' (by decide) hx]

/-- `[a-zA-Z_][0-9a-zA-Z_]*|[a-zA-Z][0-9a-zA-Z_]*[0-9a-zA-Z_]+`: the second alternative never gets a chance - when
    the first one fails, the input does not start with `[a-zA-Z_]` -/
theorem scanner_id (cs : List Char) : matchPrefix rx_ID cs = patId.run cs := by
  unfold rx_ID
  rw [matchPrefix_alt, matchPrefix_eq_run _ _ (safe_seq_cls _ _ _ (safe_star _ _ _ rfl (Or.inr (nf_kFin cs))))]
  have hp : ∀ cs, (toPat (.seq (.cls { neg := false, items := [.range 'a' 'z', .range 'A' 'Z', .ch '_'] })
      (.star true (.cls { neg := false, items := [.range '0' '9', .range 'a' 'z', .range 'A' 'Z', .ch '_'] })))).run cs
      = patId.run cs := by
    apply PatEq.run
    simp only [toPat, asCls, patId]
    exact .seq _ _ _ _ (.ch _ _ mem_idStart) (.many _ _ mem_word)
  rw [hp]
  cases hr : patId.run cs with
  | some n => rfl
  | none =>
    simp only
    cases cs with
    | nil => simp [matchPrefix, matchK]
    | cons c rest =>
      have hc : isIdStart c = false := by
        cases h : isIdStart c with
        | false => rfl
        | true => simp [patId, Pat.run, h] at hr
      have hl : CSet.mem { neg := false, items := [.range 'a' 'z', .range 'A' 'Z'] } c = false := by
        rw [← mem_idStart] at hc
        simp only [CSet.mem, List.any_cons, List.any_nil, Bool.or_false, bne_eq_false_iff_eq, Bool.or_eq_false_iff]
          at hc ⊢
        exact ⟨hc.1, hc.2.1⟩
      simp [matchPrefix, matchK, hl]


/-! ### FRACTION: the same deterministic pattern, bracketed differently -/

/-- patterns with the same result on every input -/
def Pat.Same (a b : Pat) : Prop := ∀ cs, a.run cs = b.run cs

theorem same_seq {a a' b b' : Pat} (ha : Pat.Same a a') (hb : Pat.Same b b') : Pat.Same (.seq a b) (.seq a' b') := by
  intro cs; simp only [Pat.run, ha cs, hb _]

theorem same_alt {a a' b b' : Pat} (ha : Pat.Same a a') (hb : Pat.Same b b') : Pat.Same (.alt a b) (.alt a' b') := by
  intro cs; simp only [Pat.run, ha cs, hb cs]

theorem same_refl (a : Pat) : Pat.Same a a := fun _ => rfl

theorem same_seq_assoc (a b c : Pat) : Pat.Same (.seq (.seq a b) c) (.seq a (.seq b c)) := by
  intro cs
  simp only [Pat.run]
  cases a.run cs with
  | none => rfl
  | some n =>
    simp only
    cases b.run (cs.drop n) with
    | none => rfl
    | some m =>
      simp only [Option.map_some, List.drop_drop]
      cases c.run (cs.drop (n + m)) with
      | none => rfl
      | some l => simp [Nat.add_assoc]

theorem same_alt_assoc (a b c : Pat) : Pat.Same (.alt (.alt a b) c) (.alt a (.alt b c)) := by
  intro cs
  simp only [Pat.run]
  cases a.run cs with
  | none => rfl
  | some n => rfl

/-- `[-+]?\d+`: giving the sign back does not help, a sign is not a digit -/
theorem same_optSign (s d : Char → Bool) (h : ∀ x, s x = true → d x = false) :
    Pat.Same (.seq (.alt (.ch s) .eps) (Pat.many1 d)) (.alt (.seq (.ch s) (Pat.many1 d)) (Pat.many1 d)) := by
  intro cs
  cases cs with
  | nil => simp [Pat.run, Pat.many1]
  | cons x r =>
    by_cases hs : s x = true
    · have hM : (Pat.many1 d).run (x :: r) = none := by simp [Pat.many1, Pat.run, h x hs]
      simp only [Pat.run, hs, if_true, List.drop_succ_cons, List.drop_zero, hM]
      cases (Pat.many1 d).run r <;> rfl
    · have hs' : s x = false := by simpa using hs
      by_cases hd : d x = true <;> simp [Pat.run, Pat.many1, hs', hd]

theorem mem_fl (c : Char) : CSet.mem { neg := false, items := [.ch 'F', .ch 'f', .ch 'L', .ch 'l'] } c =
    (lowerAscii c == 'f' || lowerAscii c == 'l') := by
  rw [← mem_ci 'F' 'f' c (by decide) (by decide), ← mem_ci 'L' 'l' c (by decide) (by decide)]
  simp [CSet.mem, Bool.or_assoc]

theorem mem_sign (c : Char) : CSet.mem { neg := false, items := [.ch '-', .ch '+'] } c = (c == '-' || c == '+') :=
  mem_ch2 _ _ c

/-- the exponent `[eE][-+]?\d+` is safe before a continuation that never fails -/
theorem safe_exp (k : List Char → Option Nat) (nf : NeverFails k) :
    Safe (.seq (.cls { neg := false, items := [.ch 'e', .ch 'E'] })
      (.seq (.alt (.cls { neg := false, items := [.ch '-', .ch '+'] }) .eps)
        (.seq (.cls { neg := false, items := [.cat .digit] }) (.star true (.cls { neg := false, items := [.cat .digit] })))))
      k := by
  refine safe_seq_cls _ _ _ ⟨safe_plus _ _ (Or.inr nf), trivial, trivial, ?_⟩
  intro cs n hr _
  cases cs with
  | nil => simp [toPat, Pat.run] at hr
  | cons x r =>
    cases hx : CSet.mem { neg := false, items := [.ch '-', .ch '+'] } x with
    | false => simp [toPat, Pat.run, hx] at hr
    | true =>
      have hd : isDigit x = false := by
        rw [mem_sign, Bool.or_eq_true, beq_iff_eq, beq_iff_eq] at hx
        rcases hx with h | h <;> subst h <;> decide
      simp [toPat, Pat.run, contAt, matchK, mem_digit, hd]

theorem digit_not_dot (x : Char) (hx : CSet.mem { neg := false, items := [.cat .digit] } x = true) :
    CSet.mem { neg := false, items := [.ch '.'] } x = false := by
  rw [mem_digit] at hx
  rw [mem_ch]
  exact digit_ne x '.' (by decide) hx

/-- `(((\d*\.\d+)|(\d+\.)([eE][-+]?\d+)?)|(\d+([eE][-+]?\d+)))[FfLl]?` -/
theorem scanner_fraction (cs : List Char) : matchPrefix rx_FRACTION cs = patFraction.run cs := by
  rw [matchPrefix_eq_run]
  · -- the deterministic reading of the AST is `patFraction`, bracketed differently
    have hE : ∀ c, CSet.mem { neg := false, items := [.ch 'e', .ch 'E'] } c = (lowerAscii c == 'e') :=
      fun c => mem_ci' 'E' 'e' c (by decide) (by decide)
    have hX : Pat.Same
        (.seq (.ch (CSet.mem { neg := false, items := [.ch 'e', .ch 'E'] }))
          (.seq (.alt (.ch (CSet.mem { neg := false, items := [.ch '-', .ch '+'] })) .eps)
            (.seq (.ch (CSet.mem { neg := false, items := [.cat .digit] }))
              (.many (CSet.mem { neg := false, items := [.cat .digit] })))))
        patExp := by
      intro cs
      rw [PatEq.run (.seq _ _ _ _ (.ch _ _ hE) (.seq _ _ _ _ (.alt _ _ _ _ (.ch _ _ mem_sign) .eps)
        (.seq _ _ _ _ (.ch _ _ mem_digit) (.many _ _ mem_digit))))]
      exact same_seq (same_refl _) (same_optSign _ _ (by
        intro x hx
        rw [Bool.or_eq_true, beq_iff_eq, beq_iff_eq] at hx
        rcases hx with h | h <;> subst h <;> decide)) cs
    have hM : Pat.Same (.seq (.ch (CSet.mem { neg := false, items := [.cat .digit] }))
        (.many (CSet.mem { neg := false, items := [.cat .digit] }))) (Pat.many1 isDigit) :=
      PatEq.run (.seq _ _ _ _ (.ch _ _ mem_digit) (.many _ _ mem_digit))
    have hDot : Pat.Same (.ch (CSet.mem { neg := false, items := [.ch '.'] })) (Pat.lit '.') :=
      PatEq.run (.ch _ _ (mem_ch _))
    simp only [rx_FRACTION, toPat, asCls, patFraction, Pat.seqs, Pat.opt]
    refine same_seq ?_ (same_alt (PatEq.run (.ch _ _ mem_fl)) (same_refl _)) cs
    intro cs
    rw [same_alt_assoc]
    refine same_alt ?_ (same_alt ?_ (same_seq hM hX)) cs
    · exact same_seq (PatEq.run (.many _ _ mem_digit)) (same_seq hDot hM)
    · intro cs
      rw [same_seq_assoc]
      exact same_seq hM (same_seq hDot (same_alt hX (same_refl _))) cs
  · have nf1 := nf_opt (.cls { neg := false, items := [.ch 'F', .ch 'f', .ch 'L', .ch 'l'] }) _ (nf_kFin cs)
    refine ⟨safe_alt_nf _ _ _ trivial trivial (nf_kFin cs), safe_alt_nf _ _ _ (safe_alt_nf _ _ _ ?_ ?_ nf1) ?_ nf1⟩
    · -- \d*\.\d+
      exact ⟨safe_seq_cls _ _ _ (safe_plus _ _ (Or.inr nf1)),
        safe_star _ _ _ rfl (Or.inl (rejects_seq_cls _ _ _ _ digit_not_dot))⟩
    · -- (\d+\.)([eE][-+]?\d+)?
      exact ⟨safe_alt_nf _ _ _ (safe_exp _ nf1) trivial nf1,
        trivial, safe_plus _ _ (Or.inl (rejects_cls _ _ _ digit_not_dot))⟩
    · -- \d+([eE][-+]?\d+)
      refine ⟨safe_exp _ nf1, safe_plus _ _ (Or.inl ?_)⟩
      intro x rest hx
      have : CSet.mem { neg := false, items := [.ch 'e', .ch 'E'] } x = false := by
        rw [mem_digit] at hx
        rw [mem_ch2, digit_ne x 'e' (by decide) hx, digit_ne x 'E' (by decide) hx]; rfl
      simp [matchK, this]


/-! ### COMMENT: a repetition of an alternation, against the hand automaton `commentBody` -/

theorem contAt_shift (k : List Char → Option Nat) (cs : List Char) (j : Nat) (o : Option Nat) :
    contAt k cs (o.map (· + j)) = contAt k (cs.drop j) o := by
  cases o with
  | none => rfl
  | some n => simp [contAt, List.drop_drop, Nat.add_comm]

def isStar (c : Char) : Bool := c == '*'

theorem mem_star (c : Char) : CSet.mem { neg := false, items := [.ch '*'] } c = isStar c := mem_ch _ c

/-- what follows a maximal run does not continue it -/
theorem spanLen_drop (p : Char → Bool) (cs : List Char) (d : Char) (rest : List Char)
    (h : cs.drop (spanLen p cs) = d :: rest) : p d = false := by
  induction cs with
  | nil => simp [spanLen] at h
  | cons x cs ih =>
    by_cases hx : p x = true
    · simp only [spanLen, hx, if_true, List.drop_succ_cons] at h; exact ih h
    · have hx' : p x = false := by simpa using hx
      simp only [spanLen, hx', Bool.false_eq_true, if_false, List.drop_zero, List.cons.injEq] at h
      rw [← h.1]; exact hx'

/-- `\*+` before a continuation that cannot start with '*': the whole run of '*' -/
theorem matchK_stars (k : List Char → Option Nat)
    (hk : RejectsCls { neg := false, items := [.ch '*'] } k) (cs : List Char) :
    matchK (.seq (.cls { neg := false, items := [.ch '*'] }) (.star true (.cls { neg := false, items := [.ch '*'] }))) cs k =
      match cs with
      | c :: r => if isStar c = true then k (r.drop (spanLen isStar r)) else none
      | [] => none := by
  rw [matchK_seq]
  cases cs with
  | nil => rw [matchK_cls_nil]
  | cons c r =>
    rw [matchK_cls_cons, mem_star]
    by_cases hc : isStar c = true
    · simp only [hc, if_true]
      rw [matchK_star, starLoop_cls _ k r _ (Nat.lt_succ_self _) (Or.inr hk), spanLen_congr _ _ mem_star]
    · simp [hc]

/-- the automaton after a run of '*' -/
theorem commentBody_stars (k : List Char → Option Nat) (r : List Char) :
    contAt k r (commentBody r true) = match r.drop (spanLen isStar r) with
      | [] => none
      | d :: r' => if (d == '/') = true then k r' else contAt k r' (commentBody r' false) := by
  induction r with
  | nil => simp [commentBody, contAt, spanLen]
  | cons x r ih =>
    by_cases hx : isStar x = true
    · have hx' : (x == '*') = true := hx
      simp only [commentBody, hx', if_true, spanLen, hx, List.drop_succ_cons]
      rw [contAt_shift, List.drop_succ_cons, List.drop_zero]
      exact ih
    · have hx' : (x == '*') = false := by simpa [isStar] using hx
      have hx'' : isStar x = false := by simpa using hx
      simp only [commentBody, hx', Bool.false_eq_true, if_false, spanLen, hx'', List.drop_zero, Bool.and_true]
      by_cases hs : (x == '/') = true
      · simp [hs, contAt]
      · have hs' : (x == '/') = false := by simpa using hs
        simp only [hs', Bool.false_eq_true, if_false]
        rw [contAt_shift, List.drop_succ_cons, List.drop_zero]

/-- the repeated part `[^*]|(\*+[^*/])` -/
def rxCommentAlt : Regex :=
  .group (.alt (.cls { neg := true, items := [.ch '*'] })
    (.group (.seq (.seq (.cls { neg := false, items := [.ch '*'] }) (.star true (.cls { neg := false, items := [.ch '*'] })))
      (.cls { neg := true, items := [.ch '*', .ch '/'] }))))

/-- the closing `\*+/` -/
def rxCommentClose : Regex :=
  .seq (.seq (.cls { neg := false, items := [.ch '*'] }) (.star true (.cls { neg := false, items := [.ch '*'] })))
    (.cls { neg := false, items := [.ch '/'] })

theorem matchK_commentAlt (k : List Char → Option Nat) (cs : List Char) :
    matchK rxCommentAlt cs k = match cs with
      | [] => none
      | c :: r =>
        if isStar c = true then
          match r.drop (spanLen isStar r) with
          | [] => none
          | d :: r' => if (d == '/') = true then none else k r'
        else k r := by
  have hrej : RejectsCls { neg := false, items := [.ch '*'] }
      (fun cs' => matchK (.cls { neg := true, items := [.ch '*', .ch '/'] }) cs' k) := by
    apply rejects_cls
    intro x hx
    rw [mem_ch] at hx
    rw [mem_nch2, hx]; rfl
  unfold rxCommentAlt
  rw [matchK_group, matchK_alt, matchK_group, matchK_seq, matchK_stars _ hrej]
  cases cs with
  | nil => rw [matchK_cls_nil]
  | cons c r =>
    rw [matchK_cls_cons, mem_nch]
    by_cases hc : isStar c = true
    · have hc' : (c == '*') = true := hc
      simp only [hc', Bool.not_true, Bool.false_eq_true, if_false, hc, if_true]
      cases hd : r.drop (spanLen isStar r) with
      | nil => simp only [matchK_cls_nil]
      | cons d r' =>
        have hds : (d == '*') = false := spanLen_drop isStar r d r' hd
        simp only [matchK_cls_cons, mem_nch2, hds, Bool.not_false, Bool.true_and]
        by_cases hs : (d == '/') = true
        · simp [hs]
        · have hs' : (d == '/') = false := by simpa using hs
          simp [hs']
    · have hc' : (c == '*') = false := by simpa [isStar] using hc
      have hc'' : isStar c = false := by simpa using hc
      simp only [hc', Bool.not_false, if_true, hc'', Bool.false_eq_true, if_false]
      cases k r <;> rfl

theorem matchK_commentClose (k : List Char → Option Nat) (cs : List Char) :
    matchK rxCommentClose cs k = match cs with
      | [] => none
      | c :: r =>
        if isStar c = true then
          match r.drop (spanLen isStar r) with
          | [] => none
          | d :: r' => if (d == '/') = true then k r' else none
        else none := by
  have hrej : RejectsCls { neg := false, items := [.ch '*'] }
      (fun cs' => matchK (.cls { neg := false, items := [.ch '/'] }) cs' k) := by
    apply rejects_cls
    intro x hx
    rw [mem_ch] at hx ⊢
    rw [beq_iff_eq] at hx; subst hx; rfl
  unfold rxCommentClose
  rw [matchK_seq, matchK_stars _ hrej]
  cases cs with
  | nil => rfl
  | cons c r =>
    by_cases hc : isStar c = true
    · simp only [hc, if_true]
      cases r.drop (spanLen isStar r) with
      | nil => simp only [matchK_cls_nil]
      | cons d r' => simp only [matchK_cls_cons, mem_ch]
    · simp [hc]

/-- the loop `([^*]|(\*+[^*/]))*` followed by the closing `\*+/` is the automaton -/
theorem comment_loop (k K : List Char → Option Nat) (hK : ∀ cs, K cs = matchK rxCommentClose cs k) :
    ∀ (n : Nat) (cs : List Char) (fuel : Nat), cs.length ≤ n → cs.length < fuel →
    starLoop (matchK rxCommentAlt) true fuel cs K = contAt k cs (commentBody cs false) := by
  intro n
  induction n with
  | zero =>
    intro cs fuel hn hf
    have : cs = [] := List.eq_nil_of_length_eq_zero (by omega)
    subst this
    cases fuel with
    | zero => simp at hf
    | succ f =>
      rw [starLoop_greedy_succ, matchK_commentAlt, hK, matchK_commentClose]
      simp [commentBody, contAt]
  | succ n ih =>
    intro cs fuel hn hf
    cases fuel with
    | zero => simp at hf
    | succ f =>
      rw [starLoop_greedy_succ, matchK_commentAlt, hK, matchK_commentClose]
      cases cs with
      | nil => simp [commentBody, contAt]
      | cons c r =>
        simp only [List.length_cons, Nat.add_le_add_iff_right, Nat.add_lt_add_iff_right] at hn hf
        by_cases hc : isStar c = true
        · have hc' : (c == '*') = true := hc
          simp only [hc, if_true, commentBody, hc']
          rw [contAt_shift, List.drop_succ_cons, List.drop_zero, commentBody_stars]
          cases hd : r.drop (spanLen isStar r) with
          | nil => rfl
          | cons d r' =>
            have hlen : r'.length < r.length := by
              have := congrArg List.length hd
              simp only [List.length_drop, List.length_cons] at this
              omega
            by_cases hs : (d == '/') = true
            · simp [hs]
            · have hs' : (d == '/') = false := by simpa using hs
              simp only [hs', Bool.false_eq_true, if_false]
              rw [ih r' f (by omega) (by omega)]
              cases contAt k r' (commentBody r' false) <;> rfl
        · have hc' : (c == '*') = false := by simpa [isStar] using hc
          have hc'' : isStar c = false := by simpa using hc
          simp only [hc'', Bool.false_eq_true, if_false, commentBody, hc', Bool.and_false]
          rw [contAt_shift, List.drop_succ_cons, List.drop_zero, ih r f hn hf]
          cases contAt k r (commentBody r false) <;> rfl

theorem commentBody_le : ∀ (cs : List Char) (b : Bool) (n : Nat), commentBody cs b = some n → n ≤ cs.length := by
  intro cs
  induction cs with
  | nil => intro b n h; simp [commentBody] at h
  | cons c r ih =>
    intro b n h
    simp only [commentBody] at h
    split at h
    · cases hb : commentBody r true with
      | none => simp [hb] at h
      | some m => simp only [hb, Option.map_some, Option.some.injEq] at h; have := ih _ _ hb; simp only [List.length_cons]; omega
    · split at h
      · simp only [Option.some.injEq] at h; simp only [List.length_cons]; omega
      · cases hb : commentBody r false with
        | none => simp [hb] at h
        | some m => simp only [hb, Option.map_some, Option.some.injEq] at h; have := ih _ _ hb; simp only [List.length_cons]; omega

/-- `/\*([^*]|(\*+[^*/]))*\*+/` -/
theorem scanner_comment (cs : List Char) : matchPrefix rx_COMMENT cs = scanComment cs := by
  have h : ∀ k, matchK rx_COMMENT cs k = match cs with
      | c1 :: c2 :: r => if (c1 == '/' && c2 == '*') = true then
          starLoop (matchK rxCommentAlt) true (r.length + 1) r (fun cs' => matchK rxCommentClose cs' k) else none
      | _ => none := by
    intro k
    match cs with
    | [] => simp [rx_COMMENT, matchK]
    | [c1] => by_cases h1 : (c1 == '/') = true <;> simp [rx_COMMENT, matchK, mem_ch, h1]
    | c1 :: c2 :: r =>
      by_cases h1 : (c1 == '/') = true <;> by_cases h2 : (c2 == '*') = true <;>
        simp [rx_COMMENT, matchK, mem_ch, h1, h2, rxCommentAlt, rxCommentClose]
  unfold matchPrefix
  rw [h]
  match cs with
  | [] => rfl
  | [c1] => rfl
  | c1 :: c2 :: r =>
    simp only [scanComment]
    by_cases hc : (c1 == '/' && c2 == '*') = true
    · simp only [hc, if_true]
      rw [comment_loop _ _ (fun _ => rfl) r.length r _ (Nat.le_refl _) (by omega)]
      cases hb : commentBody r false with
      | none => rfl
      | some n =>
        have := commentBody_le r false n hb
        simp only [contAt, List.length_cons, List.length_drop, Option.map_some, Option.some.injEq]
        omega
    · simp [hc]


/-! ## every rule of the generated table -/

/-- the generated AST the hand scanner of a modelled regex is proved against -/
def rxOf : RegexId → Option Regex
  | .comment => some rx_COMMENT
  | .slString => some rx_SL_STRING
  | .ticked => some rx_TICKED_PHRASE
  | .string => some rx_STRING
  | .endFor => some rx_END_FOR
  | .endIf => some rx_END_IF
  | .endWhile => some rx_END_WHILE
  | .namespace_ => some rx_NAMESPACE
  | .id => some rx_ID
  | .fraction => some rx_FRACTION
  | .number => some rx_NUMBER
  | .newline => some rx_newline
  | .unknown => none

theorem scanById_is_regex (rid : RegexId) (x : Regex) (h : rxOf rid = some x) (cs : List Char) :
    scanById rid cs = matchPrefix x cs := by
  cases rid <;> simp only [rxOf, Option.some.injEq, reduceCtorEq] at h <;> subst h <;> simp only [scanById]
  · exact (scanner_comment cs).symm
  · exact (scanner_slString cs).symm
  · exact (scanner_ticked cs).symm
  · exact (scanner_string cs).symm
  · exact (scanner_endFor cs).symm
  · exact (scanner_endIf cs).symm
  · exact (scanner_endWhile cs).symm
  · exact (scanner_namespace cs).symm
  · exact (scanner_id cs).symm
  · exact (scanner_fraction cs).symm
  · exact (scanner_number cs).symm
  · exact (scanner_newline cs).symm

/-- a rule and the AST generated for its regex fit: a literal rule's AST spells that literal, any other rule's regex
    text is one of the modelled ones and the AST is the one its scanner is proved against -/
def tiedOk (p : Rule × Regex) : Bool :=
  match p.1.lit with
  | some s => litOf p.2 == some s && !s.isEmpty
  | none => rxOf (regexId p.1.regex) == some p.2

theorem table_tied : (List.zip Gen.OalLex.rules Gen.OalLex.rx).all tiedOk = true ∧
    Gen.OalLex.rules.length = Gen.OalLex.rx.length := by decide

/-- on EVERY input, the scanner the lexer model uses for a rule of the table returns what the generic regex matcher
    returns on the AST Python's regex parser gives for the rule's source regex -/
theorem scanner_is_regex (p : Rule × Regex) (hp : p ∈ List.zip Gen.OalLex.rules Gen.OalLex.rx) (cs : List Char) :
    scanOf p.1 cs = matchPrefix p.2 cs := by
  have h := List.all_eq_true.mp table_tied.1 p hp
  unfold tiedOk at h
  unfold scanOf
  cases hl : p.1.lit with
  | some s =>
    rw [hl] at h
    simp only [Bool.and_eq_true, beq_iff_eq, Bool.not_eq_true'] at h
    exact (matchPrefix_lit _ _ h.1 h.2 cs).symm
  | none =>
    rw [hl] at h
    simp only [beq_iff_eq] at h
    exact scanById_is_regex _ _ h cs

theorem firstMatchF_eq : ∀ (rs : List Rule) (xs : List Regex),
    (∀ p ∈ List.zip rs xs, ∀ cs, scanOf p.1 cs = matchPrefix p.2 cs) → rs.length = xs.length → ∀ cs,
    firstMatchF (List.zipWith (fun r x => (r, matchPrefix x)) rs xs) cs = firstMatch rs cs := by
  intro rs
  induction rs with
  | nil => intro xs _ _ cs; simp [firstMatchF, firstMatch]
  | cons r rs ih =>
    intro xs h hlen cs
    cases xs with
    | nil => simp at hlen
    | cons x xs =>
      have h0 := h (r, x) (by simp) cs
      have ih' := ih xs (fun p hp => h p (by simp only [List.zip_cons_cons, List.mem_cons]; exact Or.inr hp))
        (by simpa using hlen) cs
      simp only [List.zipWith_cons_cons, firstMatchF, firstMatch, ← h0, ih']
      cases scanOf r cs <;> rfl

theorem lexRunF_eq (cfg : LexCfg) (fs : List (Rule × (List Char → Option Nat)))
    (h : ∀ cs, firstMatchF fs cs = firstMatch cfg.rules cs) : ∀ (fuel : Nat) (cs : List Char) (off line : Nat),
    lexRunF cfg fs fuel cs off line = lexRun cfg fuel cs off line := by
  intro fuel
  induction fuel with
  | zero => intro cs off line; rfl
  | succ fuel ih =>
    intro cs off line
    cases cs with
    | nil => rfl
    | cons c cs =>
      simp only [lexRunF, lexRun, h, ih]
      cases firstMatch cfg.rules (c :: cs) with
      | none => rfl
      | some p => obtain ⟨r, n⟩ := p; rfl

/-- the lexer model that takes its lexemes from the generic regex matcher on the generated ASTs IS the proved lexer
    model, on every text -/
theorem lexRx_eq_lex (text : List Char) : lexRx text = lex text := by
  unfold lexRx lex lexWith
  rw [lexRunF_eq]
  exact firstMatchF_eq _ _ scanner_is_regex table_tied.2


/-- the rule called `n` in the generated table, with the generated AST of its regex -/
def ruleRx (n : String) : Option (Rule × Regex) :=
  (List.zip Gen.OalLex.rules Gen.OalLex.rx).find? (fun p => p.1.name == n.toList)

/-- the table has a rule called `n`, and on EVERY input the scanner the lexer model uses for it returns what the
    generic regex matcher returns on the AST generated from the rule's source regex -/
def ScannerIsRegex (n : String) : Prop :=
  ∃ p, ruleRx n = some p ∧ ∀ cs, scanOf p.1 cs = matchPrefix p.2 cs

theorem scannerIsRegex_of (n : String) (p : Rule × Regex) (h : ruleRx n = some p) : ScannerIsRegex n :=
  ⟨p, h, scanner_is_regex p (List.mem_of_find?_eq_some h)⟩

end Pyx.OalLex
