import Proofs.LoadBuild

/-! Helper lemmas for C03, part 4: equivalence of the metamodels built from permuted statement lists. -/

namespace Pyx.Load

/-- two metaclasses (or their absence) agree up to the order of identifiers and instances -/
def ClsEquiv : Option Cls → Option Cls → Prop
  | none, none => True
  | some c1, some c2 =>
    c1.kind = c2.kind ∧ c1.attrs = c2.attrs ∧ c1.indices.Perm c2.indices ∧ c1.rows.Perm c2.rows
  | _, _ => False

/-- identifier names are not reused inside a class (otherwise `indices[name] = …` keeps the last definition) -/
def UniqNamesOk (ss : List Stmt) : Prop := ∀ k, ((uniqOf ss k).map (·.1)).Nodup

/-- the inferred-schema guard: all INSERTs of a kind without CREATE TABLE infer the same class -/
def InferAgree (ss : List Stmt) : Prop :=
  ∀ k, findCls (popClasses ss) k = none →
    ∀ x ∈ insOf ss k, ∀ y ∈ insOf ss k, inferAttrs x.1 x.2 = inferAttrs y.1 y.2

theorem uniqNamesOk_perm {s1 s2 : List Stmt} (h : s1.Perm s2) (h1 : UniqNamesOk s1) : UniqNamesOk s2 :=
  fun k => (((uniqOf_perm h k).map _).nodup_iff).mp (h1 k)

theorem kinds_nodup_of_accepted {ss : List Stmt} (h : accepted ss = true) : ((popClasses ss).map (·.kind)).Nodup := by
  unfold accepted at h
  simp only [Bool.and_eq_true, decide_eq_true_eq] at h
  exact h.1

theorem applyUniqs_indices (c : Cls) (hc : c.indices = []) (us : List (String × List String))
    (hn : (us.map (·.1)).Nodup) : (applyUniqs c us).indices = us := by
  unfold applyUniqs
  simp only [hc]
  exact dictOfPairs_eq_self us hn

theorem clsSpec_perm {s1 s2 : List Stmt} (h : s1.Perm s2) (hacc : accepted s1 = true)
    (hu : UniqNamesOk s1) (hi : InferAgree s1) (k : String) :
    ClsEquiv (clsSpec s1 k) (clsSpec s2 k) := by
  have hn := kinds_nodup_of_accepted hacc
  have hf := findCls_perm (popClasses_perm h) hn k
  have hins := insOf_perm h k
  unfold clsSpec
  rw [← hf]
  cases hc : findCls (popClasses s1) k with
  | some c =>
    have hr := popClasses_rows_nil s1 c (List.mem_of_find?_eq_some hc)
    simp only [ClsEquiv]
    refine ⟨by first | rfl | trivial, by first | rfl | trivial, ?_, hins.map _⟩
    show (applyUniqs c (uniqOf s1 k)).indices.Perm (applyUniqs c (uniqOf s2 k)).indices
    rw [applyUniqs_indices c hr.2 _ (hu k), applyUniqs_indices c hr.2 _ (uniqNamesOk_perm h hu k)]
    exact uniqOf_perm h k
  | none =>
    simp only
    cases h1 : insOf s1 k with
    | nil =>
      rw [h1] at hins
      rw [List.nil_perm.mp hins]
      trivial
    | cons x xs =>
      cases h2 : insOf s2 k with
      | nil =>
        rw [h2] at hins
        have := List.perm_nil.mp hins
        rw [h1] at this
        cases this
      | cons y ys =>
        simp only [ClsEquiv]
        have hy : y ∈ insOf s1 k := by
          rw [hins.mem_iff, h2]; exact List.mem_cons_self
        have hx : x ∈ insOf s1 k := by rw [h1]; exact List.mem_cons_self
        have he : inferAttrs x.1 x.2 = inferAttrs y.1 y.2 := hi k hc x hx y hy
        refine ⟨by first | rfl | trivial, he, List.Perm.refl _, ?_⟩
        rw [← he, ← h1, ← h2]
        exact hins.map _

/-- when the INSERTs of the kind keep their order, the class is the same up to identifier order -/
theorem clsSpec_rows_eq {s1 s2 : List Stmt} (h : s1.Perm s2) (hacc : accepted s1 = true) (k : String)
    (hord : insOf s1 k = insOf s2 k) :
    (match clsSpec s1 k, clsSpec s2 k with
     | some c1, some c2 => c1.rows = c2.rows ∧ c1.attrs = c2.attrs
     | none, none => True
     | _, _ => False) := by
  have hn := kinds_nodup_of_accepted hacc
  have hf := findCls_perm (popClasses_perm h) hn k
  unfold clsSpec
  rw [← hf, ← hord]
  cases hc : findCls (popClasses s1) k with
  | some c => simp [applyUniqs]
  | none =>
    simp only
    cases h1 : insOf s1 k with
    | nil => trivial
    | cons x xs => simp

theorem rowsOf_buildCore (ss : List Stmt) (k : String) :
    rowsOf (buildCore ss).classes k = match clsSpec ss k with | some c => c.rows | none => [] := by
  unfold rowsOf
  rw [findCls_buildCore]
  cases clsSpec ss k <;> rfl

theorem rowsOf_perm {s1 s2 : List Stmt} (h : s1.Perm s2) (hacc : accepted s1 = true)
    (hu : UniqNamesOk s1) (hi : InferAgree s1) (k : String) :
    (rowsOf (buildCore s1).classes k).Perm (rowsOf (buildCore s2).classes k) := by
  rw [rowsOf_buildCore, rowsOf_buildCore]
  have := clsSpec_perm h hacc hu hi k
  cases h1 : clsSpec s1 k <;> cases h2 : clsSpec s2 k <;> simp only [h1, h2, ClsEquiv] at this
  · exact List.Perm.refl _
  · exact this.2.2.2

theorem rowsOf_eq_of_order {s1 s2 : List Stmt} (h : s1.Perm s2) (hacc : accepted s1 = true) (k : String)
    (hord : insOf s1 k = insOf s2 k) :
    rowsOf (buildCore s1).classes k = rowsOf (buildCore s2).classes k := by
  rw [rowsOf_buildCore, rowsOf_buildCore]
  have := clsSpec_rows_eq h hacc k hord
  cases h1 : clsSpec s1 k <;> cases h2 : clsSpec s2 k <;> simp only [h1, h2] at this
  · rfl
  · exact this.1

/-! ### the links of a build -/

theorem zip_map_self {α β : Type} (l : List α) (f : α → β) : l.zip (l.map f) = l.map (fun a => (a, f a)) := by
  induction l with
  | nil => rfl
  | cons x xs ih => simp [ih]

theorem buildCore_assocs (ss : List Stmt) (hk : ∀ a ∈ popAssocs ss, KeysOk a) :
    (buildCore ss).assocs = (popAssocs ss).map (fun a =>
      (a, nestedJoin a (rowsOf (buildCore ss).classes a.srcKind) (rowsOf (buildCore ss).classes a.tgtKind))) := by
  show (popAssocs ss).zip (connectAll (rowsOf (buildCore ss).classes) [] (popAssocs ss)) = _
  rw [connectAll_eq_nested _ [] _ (by intro e he; cases he) hk, zip_map_self]

theorem mem_nestedJoin_tgt (a : AssocStmt) (S T : List Row) (i j : Nat) :
    j ∈ (nestedJoin a S T).tgt i ↔ ∃ s t, S[i]? = some s ∧ T[j]? = some t ∧ matchesB a s t = true := by
  unfold nestedJoin
  simp only
  cases hs : S[i]? with
  | none => simp
  | some s =>
    have := mem_selectIdx_zero T (fun t => matchesB a s t) j
    unfold selectIdx at this
    rw [this]
    constructor
    · rintro ⟨x, hx, hm⟩; exact ⟨s, x, rfl, hx, hm⟩
    · rintro ⟨s1, t, h1, ht, hm⟩
      cases h1
      exact ⟨t, ht, hm⟩

theorem mem_nestedJoin_src (a : AssocStmt) (S T : List Row) (i j : Nat) :
    i ∈ (nestedJoin a S T).src j ↔ ∃ s t, S[i]? = some s ∧ T[j]? = some t ∧ matchesB a s t = true := by
  unfold nestedJoin
  simp only
  cases ht : T[j]? with
  | none => simp
  | some t =>
    have := mem_selectIdx_zero S (fun s => matchesB a s t) i
    unfold selectIdx at this
    rw [this]
    simp

theorem selectIdx_sorted {α : Type} (n : Nat) (l : List α) (c : α → Bool) :
    (selectIdx n l c).Pairwise (· < ·) := by
  rw [selectIdx_eq_map]
  have hs : (((enumFrom n l).filter (fun p => c p.2)).map (·.1)).Sublist ((enumFrom n l).map (·.1)) :=
    (List.filter_sublist).map _
  rw [enumFrom_map_fst] at hs
  exact (List.pairwise_lt_range').sublist hs

theorem nestedJoin_tgt_sorted (a : AssocStmt) (S T : List Row) (i : Nat) :
    ((nestedJoin a S T).tgt i).Pairwise (· < ·) := by
  unfold nestedJoin
  simp only
  cases S[i]? with
  | none => exact List.Pairwise.nil
  | some s => exact selectIdx_sorted 0 T (fun t => matchesB a s t)

theorem nestedJoin_src_sorted (a : AssocStmt) (S T : List Row) (j : Nat) :
    ((nestedJoin a S T).src j).Pairwise (· < ·) := by
  unfold nestedJoin
  simp only
  cases T[j]? with
  | none => exact List.Pairwise.nil
  | some t => exact selectIdx_sorted 0 S (fun s => matchesB a s t)

end Pyx.Load
