import Proofs.ExtractEdits

/-!
  C14 — edits of relationships (Mult, Cond, Txt_Phrs of an end; moving a relationship) commute with
  extraction.
-/

namespace Pyx.Extract

theorem groupOf_rels (d : ClassDiagram) (rs : List Rel) (r : Rel) :
    groupOf { d with rels := rs } r = groupOf d r := rfl

theorem classOf_rels (d : ClassDiagram) (rs : List Rel) (drv : Bool) (k : Class) :
    classOf { d with rels := rs } drv k = classOf d drv k := rfl

theorem groupOf_rel {d : ClassDiagram} {k : Rel} {g : SGroup} (h : groupOf d k = some g) : g.rel = k.numb := by
  unfold groupOf at h
  cases hk : k.kind with
  | simple form part refs =>
    simp only [hk] at h
    cases hf : findClass d form.cls <;> cases hp : findClass d part.cls <;> simp [hf, hp] at h
    rw [← h]
  | linked one oth link r1 r2 =>
    simp only [hk] at h
    cases hl : findClass d link <;> cases ho : findClass d one.cls <;> cases ht : findClass d oth.cls <;>
      simp [hl, ho, ht] at h
    rw [← h]
  | subsup sup subs =>
    simp only [hk] at h
    cases hs : findClass d sup <;> simp [hs] at h
    rw [← h]
  | derived =>
    simp only [hk] at h
    simp at h
    rw [← h]

theorem rel_eq_of_id {d : ClassDiagram} (wf : WF d) {r : Nat} {k kr : Rel} (hr : findRel d r = some kr)
    (hk : k ∈ d.rels) (he : k.id = r) : k = kr :=
  eq_of_key_eq (fun (x : Rel) => x.id) wf.relIds hk (findRel_mem hr) (by rw [he, findRel_id hr])

/-- the list plumbing shared by the three end edits -/
theorem relEdit_commutes {d : ClassDiagram} (wf : WF d) {r : Nat} {f : Rel → Rel} {F : List SAssoc → List SAssoc}
    {kr : Rel} (hr : findRel d r = some kr) (hpar : (f kr).parent = kr.parent)
    (hpt : groupOf d (f kr) = (groupOf d kr).map (fun g => { g with items := F g.items }))
    (comp : Option Nat) (drv : Bool) :
    extract (mapRel d r f) comp drv = mapGroup (extract d comp drv) kr.numb F := by
  unfold extract mapGroup mapRel
  simp only [Schema.mk.injEq]
  rw [List.filter_map, List.filterMap_map, List.map_filterMap]
  have hp : ∀ k ∈ d.rels, ((fun (x : Rel) => inScope d.containers d.pkgrefs comp x.parent) ∘
      (fun k => if k.id == r then f k else k)) k = inScope d.containers d.pkgrefs comp k.parent := by
    intro k hk
    simp only [Function.comp]
    by_cases he : k.id = r
    · have := rel_eq_of_id wf hr hk he
      subst this
      simp [he, hpar]
    · simp [he]
  rw [filter_congr' hp]
  refine ⟨rfl, ?_⟩
  apply filterMap_congr'
  intro k hk
  have hkm := (List.mem_filter.mp hk).1
  simp only [Function.comp]
  rw [groupOf_rels]
  by_cases he : k.id = r
  · have := rel_eq_of_id wf hr hkm he
    subst this
    simp only [he, beq_self_eq_true, if_true]
    rw [hpt]
    cases hg : groupOf d k with
    | none => rfl
    | some g => simp [groupOf_rel hg]
  · have hne : (k.id == r) = false := by simp [he]
    simp only [hne, Bool.false_eq_true, if_false]
    cases hg : groupOf d k with
    | none => rfl
    | some g =>
      have : g.rel ≠ kr.numb := by
        rw [groupOf_rel hg]
        intro hn
        have := wf.numb_inj hkm (findRel_mem hr) hn
        exact he (by rw [this, findRel_id hr])
      simp [this]

theorem mapEnd_not_fits {k : RelKind} {sel : EndSel} (f : End → End) (h : k.fits sel = false) :
    k.mapEnd sel f = k := by
  cases k <;> cases sel <;> simp_all [RelKind.fits, RelKind.mapEnd]

theorem relEdit_nop {d : ClassDiagram} (wf : WF d) {r : Nat} {sel : EndSel} {fe : End → End}
    (h : ∀ kr, findRel d r = some kr → kr.kind.fits sel = false) :
    mapRel d r (fun k => { k with kind := k.kind.mapEnd sel fe }) = d := by
  apply mapRel_self
  intro k hk he
  cases hr : findRel d r with
  | none => exact absurd he (findRel_none_ne hr k hk)
  | some kr =>
    have := rel_eq_of_id wf hr hk he
    subst this
    rw [mapEnd_not_fits fe (h k hr)]

end Pyx.Extract

namespace Pyx.Extract

theorem setMult_point {d : ClassDiagram} {kr : Rel} {sel : EndSel} {v : Bool} (hfit : kr.kind.fits sel = true) :
    groupOf d { kr with kind := kr.kind.mapEnd sel (fun x => { x with mult := v }) } =
      (groupOf d kr).map (fun g => { g with items := itemsSetMult sel v g.items }) := by
  unfold groupOf
  cases hk : kr.kind with
  | simple form part refs =>
    cases sel <;> simp [RelKind.fits, hk] at hfit <;> simp only [RelKind.mapEnd] <;>
      cases hf : findClass d form.cls <;> cases hp : findClass d part.cls <;>
      simp [itemsSetMult, SAssoc.mapSrc, SAssoc.mapTgt]
  | linked one oth link r1 r2 =>
    cases sel <;> simp [RelKind.fits, hk] at hfit <;> simp only [RelKind.mapEnd] <;>
      cases hl : findClass d link <;> cases ho : findClass d one.cls <;> cases ht : findClass d oth.cls <;>
      simp [itemsSetMult, SAssoc.mapSrc, SAssoc.mapTgt]
  | subsup sup subs => simp [RelKind.fits, hk] at hfit
  | derived => simp [RelKind.fits, hk] at hfit

theorem setCond_point {d : ClassDiagram} {kr : Rel} {sel : EndSel} {v : Bool} (hfit : kr.kind.fits sel = true) :
    groupOf d { kr with kind := kr.kind.mapEnd sel (fun x => { x with cond := v }) } =
      (groupOf d kr).map (fun g => { g with items := itemsSetCond sel v g.items }) := by
  unfold groupOf
  cases hk : kr.kind with
  | simple form part refs =>
    cases sel <;> simp [RelKind.fits, hk] at hfit <;> simp only [RelKind.mapEnd] <;>
      cases hf : findClass d form.cls <;> cases hp : findClass d part.cls <;>
      simp [itemsSetCond, SAssoc.mapSrc, SAssoc.mapTgt]
  | linked one oth link r1 r2 =>
    cases sel <;> simp [RelKind.fits, hk] at hfit <;> simp only [RelKind.mapEnd] <;>
      cases hl : findClass d link <;> cases ho : findClass d one.cls <;> cases ht : findClass d oth.cls <;>
      simp [itemsSetCond, SAssoc.mapSrc, SAssoc.mapTgt]
  | subsup sup subs => simp [RelKind.fits, hk] at hfit
  | derived => simp [RelKind.fits, hk] at hfit

end Pyx.Extract

namespace Pyx.Extract

theorem same_cls_iff {d : ClassDiagram} (wf : WF d) {i j : Nat} {a b : Class}
    (ha : findClass d i = some a) (hb : findClass d j = some b) : (i == j) = (a.kl == b.kl) := by
  by_cases h : i = j
  · subst h
    rw [ha] at hb
    cases hb
    simp
  · have : a.kl ≠ b.kl := by
      intro he
      have := wf.kl_inj (findClass_mem ha) (findClass_mem hb) he
      subst this
      exact h (by rw [← findClass_id ha, findClass_id hb])
    have h1 : (i == j) = false := by simp [h]
    have h2 : (a.kl == b.kl) = false := by simp [this]
    rw [h1, h2]

theorem same_cls_iff' {d : ClassDiagram} (wf : WF d) {i j : Nat} {a b : Class}
    (ha : findClass d i = some a) (hb : findClass d j = some b) : i = j ↔ a.kl = b.kl := by
  have := same_cls_iff wf ha hb
  constructor
  · intro h; simpa [h] using this.symm
  · intro h; simpa [h] using this

theorem setPhrase_point {d : ClassDiagram} (wf : WF d) {kr : Rel} {sel : EndSel} {v : String}
    (hfit : kr.kind.fits sel = true) :
    groupOf d { kr with kind := kr.kind.mapEnd sel (fun x => { x with phrase := v }) } =
      (groupOf d kr).map (fun g => { g with items := itemsSetPhrase sel v g.items }) := by
  unfold groupOf
  cases hk : kr.kind with
  | simple form part refs =>
    cases sel <;> simp [RelKind.fits, hk] at hfit <;> simp only [RelKind.mapEnd] <;>
      cases hf : findClass d form.cls <;> cases hp : findClass d part.cls <;>
      simp [itemsSetPhrase, SAssoc.mapSrc, SAssoc.mapTgt] <;>
      (have hiff := same_cls_iff' wf hf hp
       by_cases hs : form.cls = part.cls
       · have hh := hiff.mp hs; simp [hs, hh, phraseIf]
       · have hh : ¬ _ := fun he => hs (hiff.mpr he); simp [hs, hh, phraseIf])
  | linked one oth link r1 r2 =>
    cases sel <;> simp [RelKind.fits, hk] at hfit <;> simp only [RelKind.mapEnd] <;>
      cases hl : findClass d link <;> cases ho : findClass d one.cls <;> cases ht : findClass d oth.cls <;>
      simp [itemsSetPhrase, SAssoc.mapSrc, SAssoc.mapTgt] <;>
      (have hiff := same_cls_iff' wf ho ht
       by_cases hs : one.cls = oth.cls
       · have hh := hiff.mp hs; simp [hs, hh, phraseIf]
       · have hh : ¬ _ := fun he => hs (hiff.mpr he); simp [hs, hh, phraseIf])
  | subsup sup subs => simp [RelKind.fits, hk] at hfit
  | derived => simp [RelKind.fits, hk] at hfit

end Pyx.Extract

namespace Pyx.Extract

section ends
variable {d : ClassDiagram} (wf : WF d)

include wf in
theorem setMult_commutes (r : Nat) (sel : EndSel) (v : Bool) (comp : Option Nat) (drv : Bool) :
    extract (applyEdit (.setMult r sel v) d) comp drv =
      schemaEdit (resolve d comp drv (.setMult r sel v)) (extract d comp drv) := by
  simp only [resolve]
  cases hr : findRel d r with
  | none =>
    have : applyEdit (.setMult r sel v) d = d :=
      mapRel_self (fun k hk he => absurd he (findRel_none_ne hr k hk))
    rw [this]; rfl
  | some kr =>
    dsimp only
    by_cases hfit : kr.kind.fits sel = true
    · simp only [hfit, if_true]
      exact relEdit_commutes wf hr rfl (setMult_point hfit) comp drv
    · have hf : kr.kind.fits sel = false := by simpa using hfit
      simp only [hf, Bool.false_eq_true, if_false]
      have : applyEdit (.setMult r sel v) d = d :=
        relEdit_nop wf (fun k hk => by rw [hr] at hk; cases hk; exact hf)
      rw [this]; rfl

include wf in
theorem setCond_commutes (r : Nat) (sel : EndSel) (v : Bool) (comp : Option Nat) (drv : Bool) :
    extract (applyEdit (.setCond r sel v) d) comp drv =
      schemaEdit (resolve d comp drv (.setCond r sel v)) (extract d comp drv) := by
  simp only [resolve]
  cases hr : findRel d r with
  | none =>
    have : applyEdit (.setCond r sel v) d = d :=
      mapRel_self (fun k hk he => absurd he (findRel_none_ne hr k hk))
    rw [this]; rfl
  | some kr =>
    dsimp only
    by_cases hfit : kr.kind.fits sel = true
    · simp only [hfit, if_true]
      exact relEdit_commutes wf hr rfl (setCond_point hfit) comp drv
    · have hf : kr.kind.fits sel = false := by simpa using hfit
      simp only [hf, Bool.false_eq_true, if_false]
      have : applyEdit (.setCond r sel v) d = d :=
        relEdit_nop wf (fun k hk => by rw [hr] at hk; cases hk; exact hf)
      rw [this]; rfl

include wf in
theorem setPhrase_commutes (r : Nat) (sel : EndSel) (v : String) (comp : Option Nat) (drv : Bool) :
    extract (applyEdit (.setPhrase r sel v) d) comp drv =
      schemaEdit (resolve d comp drv (.setPhrase r sel v)) (extract d comp drv) := by
  simp only [resolve]
  cases hr : findRel d r with
  | none =>
    have : applyEdit (.setPhrase r sel v) d = d :=
      mapRel_self (fun k hk he => absurd he (findRel_none_ne hr k hk))
    rw [this]; rfl
  | some kr =>
    dsimp only
    by_cases hfit : kr.kind.fits sel = true
    · simp only [hfit, if_true]
      exact relEdit_commutes wf hr rfl (setPhrase_point wf hfit) comp drv
    · have hf : kr.kind.fits sel = false := by simpa using hfit
      simp only [hf, Bool.false_eq_true, if_false]
      have : applyEdit (.setPhrase r sel v) d = d :=
        relEdit_nop wf (fun k hk => by rw [hr] at hk; cases hk; exact hf)
      rw [this]; rfl

end ends
end Pyx.Extract

namespace Pyx.Extract

theorem filter_filterMap_split {α β : Type} (q : α → Bool) (h : α → Option β) (l1 l2 : List α) (x : α) :
    ((l1 ++ x :: l2).filter q).filterMap h =
      (l1.filter q).filterMap h ++ (if q x then (h x).toList else []) ++ (l2.filter q).filterMap h := by
  simp only [List.filter_append, List.filter_cons, List.filterMap_append]
  cases hq : q x
  · simp
  · simp only [if_true, List.filterMap_cons]
    cases h x <;> simp

section moveRel
variable {d : ClassDiagram} (wf : WF d)

theorem groupOf_parent (d : ClassDiagram) (k : Rel) (p : Parent) :
    groupOf d { k with parent := p } = groupOf d k := rfl

include wf in
theorem moveRel_commutes (r : Nat) (p : Parent) (comp : Option Nat) (drv : Bool) :
    extract (applyEdit (.moveRel r p) d) comp drv =
      schemaEdit (resolve d comp drv (.moveRel r p)) (extract d comp drv) := by
  simp only [resolve]
  cases hr : findRel d r with
  | none =>
    have : applyEdit (.moveRel r p) d = d :=
      mapRel_self (fun k hk he => absurd he (findRel_none_ne hr k hk))
    rw [this]; rfl
  | some kr =>
    dsimp only
    obtain ⟨l1, l2, hl, hkr, h1, h2⟩ := split_at_key (fun (k : Rel) => k.id) wf.relIds hr
    have hschema : ∀ (s s' : Schema), s.classes = s'.classes → s.groups = s'.groups → s = s' := by
      intro s s' a b; cases s; cases s'; simp_all
    have hclasses : (extract (applyEdit (.moveRel r p) d) comp drv).classes = (extract d comp drv).classes := rfl
    have hnew : (extract (applyEdit (.moveRel r p) d) comp drv).groups =
        ((l1.filter (fun k => inScope d.containers d.pkgrefs comp k.parent)).filterMap (groupOf d)) ++
        (if inScope d.containers d.pkgrefs comp p then (groupOf d kr).toList else []) ++
        ((l2.filter (fun k => inScope d.containers d.pkgrefs comp k.parent)).filterMap (groupOf d)) := by
      show ((d.rels.map (fun k => if k.id == r then { k with parent := p } else k)).filter
        (fun k => inScope d.containers d.pkgrefs comp k.parent)).filterMap (groupOf d) = _
      rw [hl, List.map_append, List.map_cons]
      have e1 : l1.map (fun k => if k.id == r then { k with parent := p } else k) = l1 := by
        conv => rhs; rw [← List.map_id l1]
        apply List.map_congr_left
        intro k hk; simp [h1 k hk]
      have e2 : l2.map (fun k => if k.id == r then { k with parent := p } else k) = l2 := by
        conv => rhs; rw [← List.map_id l2]
        apply List.map_congr_left
        intro k hk; simp [h2 k hk]
      rw [e1, e2, filter_filterMap_split]
      simp only [hkr, beq_self_eq_true, if_true]
      rfl
    have hold : (extract d comp drv).groups =
        ((l1.filter (fun k => inScope d.containers d.pkgrefs comp k.parent)).filterMap (groupOf d)) ++
        (if inScope d.containers d.pkgrefs comp kr.parent then (groupOf d kr).toList else []) ++
        ((l2.filter (fun k => inScope d.containers d.pkgrefs comp k.parent)).filterMap (groupOf d)) := by
      show (d.rels.filter (fun k => inScope d.containers d.pkgrefs comp k.parent)).filterMap (groupOf d) = _
      conv => lhs; rw [hl]
      rw [filter_filterMap_split]
    have hrel1 : ∀ g ∈ (l1.filter (fun k => inScope d.containers d.pkgrefs comp k.parent)).filterMap (groupOf d),
        g.rel ≠ kr.numb := by
      intro g hg he
      obtain ⟨k, hk, hgk⟩ := List.mem_filterMap.mp hg
      have hkl : k ∈ l1 := (List.mem_filter.mp hk).1
      have hm : k ∈ d.rels := by rw [hl]; simp [hkl]
      have := wf.numb_inj hm (findRel_mem hr) (by rw [← groupOf_rel hgk, he])
      exact h1 k hkl (by rw [this, hkr])
    have hrel2 : ∀ g ∈ (l2.filter (fun k => inScope d.containers d.pkgrefs comp k.parent)).filterMap (groupOf d),
        g.rel ≠ kr.numb := by
      intro g hg he
      obtain ⟨k, hk, hgk⟩ := List.mem_filterMap.mp hg
      have hkl : k ∈ l2 := (List.mem_filter.mp hk).1
      have hm : k ∈ d.rels := by rw [hl]; simp [hkl]
      have := wf.numb_inj hm (findRel_mem hr) (by rw [← groupOf_rel hgk, he])
      exact h2 k hkl (by rw [this, hkr])
    cases hg : groupOf d kr with
    | none =>
      cases hin : inScope d.containers d.pkgrefs comp kr.parent <;> cases hout : inScope d.containers d.pkgrefs comp p <;>
        dsimp only <;> apply hschema _ _ hclasses <;> rw [hnew, hout] <;>
        show _ = (extract d comp drv).groups <;> rw [hold, hin, hg] <;> simp
    | some g =>
      have hgrel : g.rel = kr.numb := groupOf_rel hg
      cases hin : inScope d.containers d.pkgrefs comp kr.parent <;> cases hout : inScope d.containers d.pkgrefs comp p
      · dsimp only
        apply hschema _ _ hclasses
        rw [hnew, hout]
        show _ = (extract d comp drv).groups
        rw [hold, hin]
      · dsimp only
        apply hschema _ (schemaEdit _ (extract d comp drv)) hclasses
        rw [hnew, hout]
        show _ = insertAt _ g (extract d comp drv).groups
        rw [hold, hin, hg]
        have htw : d.rels.takeWhile (fun x => x.id != r) = l1 := by
          rw [hl]; exact takeWhile_split (fun (k : Rel) => k.id) r l1 l2 kr h1 hkr
        rw [htw]
        simp only [if_true, Bool.false_eq_true, if_false, List.append_nil, Option.toList_some,
          List.append_assoc, List.singleton_append]
        rw [insertAt_length]
      · dsimp only
        apply hschema _ (schemaEdit _ (extract d comp drv)) hclasses
        rw [hnew, hout]
        show _ = (extract d comp drv).groups.filter (fun g => g.rel != kr.numb)
        rw [hold, hin, hg]
        simp only [if_true, Bool.false_eq_true, if_false, List.append_nil, Option.toList_some,
          List.filter_append, List.filter_cons, List.append_assoc, List.singleton_append]
        have f1 := List.filter_eq_self.mpr (fun g' hg' => by
          have := hrel1 g' hg'; simpa using this :
          ∀ g' ∈ (l1.filter (fun k => inScope d.containers d.pkgrefs comp k.parent)).filterMap (groupOf d),
            (fun (g : SGroup) => g.rel != kr.numb) g' = true)
        have f2 := List.filter_eq_self.mpr (fun g' hg' => by
          have := hrel2 g' hg'; simpa using this :
          ∀ g' ∈ (l2.filter (fun k => inScope d.containers d.pkgrefs comp k.parent)).filterMap (groupOf d),
            (fun (g : SGroup) => g.rel != kr.numb) g' = true)
        rw [f1, f2]
        simp [hgrel]
      · dsimp only
        apply hschema _ _ hclasses
        rw [hnew, hout]
        show _ = (extract d comp drv).groups
        rw [hold, hin]

end moveRel
end Pyx.Extract
