import Proofs.XsdEdits

/-!
  C20 — reading the declarations back off the XML tree; the tree uses the fixed vocabulary.
-/

namespace Pyx.Extract

def XType.base : XType → String
  | .restriction _ b => b
  | .enumeration _ _ => "xs:string"

def XType.values : XType → List String
  | .restriction _ _ => []
  | .enumeration _ vs => vs

/-- the `base` attributes of the restrictions of a simple type -/
def restrictionBases (t : XmlTree) : List (Option String) :=
  (t.childrenTagged "xs:restriction").map (·.attr "base")

theorem filter_tag_all {α : Type} (f : α → XmlTree) (tg : String) (l : List α) (h : ∀ x, (f x).tag = tg) :
    (l.map f).filter (fun c => c.tag == tg) = l.map f := by
  apply List.filter_eq_self.mpr
  intro c hc
  obtain ⟨x, _, rfl⟩ := List.mem_map.mp hc
  simp [h x]

theorem filter_tag_none {α : Type} (f : α → XmlTree) (tg : String) (l : List α) (h : ∀ x, (f x).tag ≠ tg) :
    (l.map f).filter (fun c => c.tag == tg) = [] := by
  apply List.filter_eq_nil_iff.mpr
  intro c hc
  obtain ⟨x, _, rfl⟩ := List.mem_map.mp hc
  simp [h x]

theorem renderType_tag (x : XType) : (renderType x).tag = "xs:simpleType" := by cases x <;> rfl
theorem renderClass_tag (c : XClass) : (renderClass c).tag = "xs:element" := rfl
theorem renderAttr_tag (a : XAttr) : (renderAttr a).tag = "xs:attribute" := rfl

theorem simpleTypeNodes_render (s : XsdSpec) : simpleTypeNodes (render s) = s.types.map renderType := by
  unfold simpleTypeNodes XmlTree.childrenTagged render
  simp only [XmlTree.children, List.filter_append]
  rw [filter_tag_all renderType "xs:simpleType" s.types renderType_tag]
  have : ([renderComp s.comp s.classes].filter (fun c => c.tag == "xs:simpleType")) = [] := by
    simp only [List.filter_cons, List.filter_nil]
    have : ((renderComp s.comp s.classes).tag == "xs:simpleType") = false := by
      show ("xs:element" == "xs:simpleType") = false; decide
    rw [this]; rfl
  rw [this, List.append_nil]

theorem classNodes_render (s : XsdSpec) : classNodes (render s) = s.classes.map renderClass := by
  unfold classNodes XmlTree.childrenTagged render
  simp only [XmlTree.children, List.filter_append]
  rw [filter_tag_none renderType "xs:element" s.types (fun x => by rw [renderType_tag]; decide)]
  have h1 : ([renderComp s.comp s.classes].filter (fun c => c.tag == "xs:element")) = [renderComp s.comp s.classes] := by
    simp only [List.filter_cons, List.filter_nil]
    have : ((renderComp s.comp s.classes).tag == "xs:element") = true := by
      show ("xs:element" == "xs:element") = true; decide
    rw [this]; rfl
  rw [h1]
  simp only [List.nil_append, List.flatMap_cons, List.flatMap_nil, List.append_nil]
  unfold renderComp
  simp only [XmlTree.children, List.filter_cons, List.filter_nil, XmlTree.tag]
  have d1 : ("xs:complexType" == "xs:complexType") = true := by decide
  have d2 : ("xs:sequence" == "xs:sequence") = true := by decide
  simp only [d1, d2, if_true, List.flatMap_cons, List.flatMap_nil, List.append_nil, XmlTree.children,
    List.filter_cons, List.filter_nil, XmlTree.tag]
  exact filter_tag_all renderClass "xs:element" s.classes renderClass_tag

theorem attributeNodes_renderClass (c : XClass) : attributeNodes (renderClass c) = c.attrs.map renderAttr := by
  unfold attributeNodes XmlTree.childrenTagged renderClass
  simp only [XmlTree.children, List.filter_cons, List.filter_nil, XmlTree.tag]
  have d1 : ("xs:complexType" == "xs:complexType") = true := by decide
  simp only [d1, if_true, List.flatMap_cons, List.flatMap_nil, List.append_nil, XmlTree.children]
  exact filter_tag_all renderAttr "xs:attribute" c.attrs renderAttr_tag

theorem renderClass_name (c : XClass) : (renderClass c).attr "name" = some c.kl := by
  unfold XmlTree.attr renderClass XmlTree.attrs
  have : ("name" == "name") = true := by decide
  simp [List.find?_cons, this]

theorem renderAttr_name (a : XAttr) : (renderAttr a).attr "name" = some a.name := by
  unfold XmlTree.attr renderAttr leaf XmlTree.attrs
  have : ("name" == "name") = true := by decide
  simp [List.find?_cons, this]

theorem renderAttr_type (a : XAttr) : (renderAttr a).attr "type" = some a.ty := by
  unfold XmlTree.attr renderAttr leaf XmlTree.attrs
  have h1 : ("name" == "type") = false := by decide
  have h2 : ("type" == "type") = true := by decide
  simp [List.find?_cons, h1, h2]

theorem renderType_name (x : XType) : (renderType x).attr "name" = some x.name := by
  have : ("name" == "name") = true := by decide
  cases x <;> simp [XmlTree.attr, renderType, XmlTree.attrs, List.find?_cons, this, XType.name]

theorem renderType_bases (x : XType) : restrictionBases (renderType x) = [some x.base] := by
  have h1 : ("xs:restriction" == "xs:restriction") = true := by decide
  have h2 : ("base" == "base") = true := by decide
  cases x <;>
    simp [restrictionBases, XmlTree.childrenTagged, renderType, leaf, XmlTree.children, XmlTree.tag, h1,
      XmlTree.attr, XmlTree.attrs, List.find?_cons, h2, XType.base]

theorem renderType_values (x : XType) : enumerationValues (renderType x) = x.values.map some := by
  have h1 : ("xs:restriction" == "xs:restriction") = true := by decide
  cases x with
  | restriction n b =>
    simp [enumerationValues, XmlTree.childrenTagged, renderType, leaf, XmlTree.children, XmlTree.tag, h1, XType.values]
  | enumeration n vs =>
    have e1 : (renderType (.enumeration n vs)).childrenTagged "xs:restriction" =
        [.node "xs:restriction" [("base", "xs:string")] (vs.map (fun v => leaf "xs:enumeration" [("value", v)]))] := by
      simp [XmlTree.childrenTagged, renderType, XmlTree.children, XmlTree.tag, h1]
    unfold enumerationValues
    rw [e1]
    simp only [List.flatMap_cons, List.flatMap_nil, List.append_nil, XType.values]
    unfold XmlTree.childrenTagged
    simp only [XmlTree.children]
    rw [filter_tag_all (fun v => leaf "xs:enumeration" [("value", v)]) "xs:enumeration" vs (fun _ => rfl)]
    rw [List.map_map]
    apply List.map_congr_left
    intro v _
    have h2 : ("value" == "value") = true := by decide
    simp [Function.comp, XmlTree.attr, leaf, XmlTree.attrs, List.find?_cons, h2]

theorem xattr_eq_some {d : ClassDiagram} {a : Attr} {x : XAttr} :
    xattr d a = some x ↔
      a.isDerived = false ∧ x.name = a.name ∧ ∃ dt, attrDt d a = some dt ∧ baseTypeName d.dts dt = some x.ty := by
  unfold xattr
  cases x with
  | mk n t =>
    cases hd : a.isDerived
    · simp only [Bool.false_eq_true, if_false, true_and]
      cases hdt : attrDt d a with
      | none => simp
      | some dt =>
        simp only [Option.bind_some, Option.some.injEq, exists_eq_left']
        cases hb : baseTypeName d.dts dt with
        | none => simp
        | some nm => simp [eq_comm]
    · simp

/-! ### the fixed vocabulary -/

def tagVocab : List String :=
  ["xs:schema", "xs:simpleType", "xs:restriction", "xs:enumeration", "xs:element", "xs:complexType", "xs:sequence",
   "xs:attribute"]

def keyVocab : List String := ["xmlns:xs", "name", "base", "value", "minOccurs", "maxOccurs", "type"]

/-- every tag and every attribute key of the tree is from the fixed vocabulary, every attribute VALUE
    satisfies `P` -/
inductive WellFormed (P : String → Prop) : XmlTree → Prop where
  | node (tag : String) (attrs : List (String × String)) (children : List XmlTree) :
      tag ∈ tagVocab → (∀ p ∈ attrs, p.1 ∈ keyVocab ∧ P p.2) → (∀ c ∈ children, WellFormed P c) →
      WellFormed P (.node tag attrs children)

/-- the strings of the declarations: constants of the generator and names of the model -/
def XsdSpec.strings (s : XsdSpec) : List String :=
  ["http://www.w3.org/2001/XMLSchema", "xs:string", "0", "unbounded", s.comp] ++
  s.types.flatMap (fun x => x.name :: x.base :: x.values) ++
  s.classes.flatMap (fun c => c.kl :: c.attrs.flatMap (fun a => [a.name, a.ty]))

theorem render_wellFormed (s : XsdSpec) : WellFormed (fun v => v ∈ s.strings) (render s) := by
  have hconst : ∀ v ∈ ["http://www.w3.org/2001/XMLSchema", "xs:string", "0", "unbounded", s.comp], v ∈ s.strings := by
    intro v hv; unfold XsdSpec.strings; simp only [List.mem_append]; left; left; exact hv
  have htype : ∀ x ∈ s.types, ∀ v ∈ x.name :: x.base :: x.values, v ∈ s.strings := by
    intro x hx v hv
    unfold XsdSpec.strings
    simp only [List.mem_append]
    left; right
    exact List.mem_flatMap.mpr ⟨x, hx, hv⟩
  have hclass : ∀ c ∈ s.classes, ∀ v ∈ c.kl :: c.attrs.flatMap (fun a => [a.name, a.ty]), v ∈ s.strings := by
    intro c hc v hv
    unfold XsdSpec.strings
    simp only [List.mem_append]
    right
    exact List.mem_flatMap.mpr ⟨c, hc, hv⟩
  unfold render
  apply WellFormed.node
  · decide
  · intro p hp
    simp only [List.mem_cons, List.not_mem_nil, or_false] at hp
    subst hp
    exact ⟨by simp [keyVocab], hconst _ (by simp)⟩
  · intro c hc
    rcases List.mem_append.mp hc with hc | hc
    · obtain ⟨x, hx, rfl⟩ := List.mem_map.mp hc
      cases x with
      | restriction n b =>
        unfold renderType leaf
        apply WellFormed.node _ _ _ (by decide)
        · intro p hp
          simp only [List.mem_cons, List.not_mem_nil, or_false] at hp
          subst hp
          exact ⟨by simp [keyVocab], htype _ hx n (by simp [XType.name])⟩
        · intro c hc
          simp only [List.mem_cons, List.not_mem_nil, or_false] at hc
          subst hc
          apply WellFormed.node _ _ _ (by decide)
          · intro p hp
            simp only [List.mem_cons, List.not_mem_nil, or_false] at hp
            subst hp
            exact ⟨by simp [keyVocab], htype _ hx b (by simp [XType.base])⟩
          · intro c hc; cases hc
      | enumeration n vs =>
        unfold renderType
        apply WellFormed.node _ _ _ (by decide)
        · intro p hp
          simp only [List.mem_cons, List.not_mem_nil, or_false] at hp
          subst hp
          exact ⟨by simp [keyVocab], htype _ hx n (by simp [XType.name])⟩
        · intro c hc
          simp only [List.mem_cons, List.not_mem_nil, or_false] at hc
          subst hc
          apply WellFormed.node _ _ _ (by decide)
          · intro p hp
            simp only [List.mem_cons, List.not_mem_nil, or_false] at hp
            subst hp
            exact ⟨by simp [keyVocab], hconst _ (by simp)⟩
          · intro c hc
            obtain ⟨v, hv, rfl⟩ := List.mem_map.mp hc
            unfold leaf
            apply WellFormed.node _ _ _ (by decide)
            · intro p hp
              simp only [List.mem_cons, List.not_mem_nil, or_false] at hp
              subst hp
              exact ⟨by simp [keyVocab], htype _ hx v (by simp [XType.values, hv])⟩
            · intro c hc; cases hc
    · simp only [List.mem_cons, List.not_mem_nil, or_false] at hc
      subst hc
      unfold renderComp
      apply WellFormed.node _ _ _ (by decide)
      · intro p hp
        simp only [List.mem_cons, List.not_mem_nil, or_false] at hp
        subst hp
        exact ⟨by simp [keyVocab], hconst _ (by simp)⟩
      · intro c hc
        simp only [List.mem_cons, List.not_mem_nil, or_false] at hc
        subst hc
        apply WellFormed.node _ _ _ (by decide)
        · intro p hp; cases hp
        · intro c hc
          simp only [List.mem_cons, List.not_mem_nil, or_false] at hc
          subst hc
          apply WellFormed.node _ _ _ (by decide)
          · intro p hp; cases hp
          · intro c hc
            obtain ⟨k, hk, rfl⟩ := List.mem_map.mp hc
            unfold renderClass
            apply WellFormed.node _ _ _ (by decide)
            · intro p hp
              simp only [List.mem_cons, List.not_mem_nil, or_false] at hp
              rcases hp with rfl | rfl | rfl
              · exact ⟨by simp [keyVocab], hclass k hk _ (by simp)⟩
              · exact ⟨by simp [keyVocab], hconst _ (by simp)⟩
              · exact ⟨by simp [keyVocab], hconst _ (by simp)⟩
            · intro c hc
              simp only [List.mem_cons, List.not_mem_nil, or_false] at hc
              subst hc
              apply WellFormed.node _ _ _ (by decide)
              · intro p hp; cases hp
              · intro c hc
                obtain ⟨a, ha, rfl⟩ := List.mem_map.mp hc
                unfold renderAttr leaf
                apply WellFormed.node _ _ _ (by decide)
                · intro p hp
                  simp only [List.mem_cons, List.not_mem_nil, or_false] at hp
                  rcases hp with rfl | rfl
                  · exact ⟨by simp [keyVocab], hclass k hk _ (by
                      simp only [List.mem_cons]; right
                      exact List.mem_flatMap.mpr ⟨a, ha, by simp⟩)⟩
                  · exact ⟨by simp [keyVocab], hclass k hk _ (by
                      simp only [List.mem_cons]; right
                      exact List.mem_flatMap.mpr ⟨a, ha, by simp⟩)⟩
                · intro c hc; cases hc

end Pyx.Extract
