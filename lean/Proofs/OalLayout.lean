import Proofs.OalLex
import PyxModel.Oal.LexClass

/-!
  Layout irrelevance of the OAL lexer model (for property C07, re-exported there):
  well-formed lexemes separated by non-empty layout (blanks, tabs, CR, LF, block comments, line comments) are
  returned by `lex` exactly - no token is split, merged or swallowed.

  The statements are about `Pyx.OalLex.lex`, i.e. the rule table GENERATED from bridgepoint/oal.py
  (Gen/OalLex.lean): the proofs use the rule ORDER of that table (which rules can start with a given
  character, computed by `decide`), so a reordered or changed rule breaks them.

  Main results (end of the file):
    layout_irrelevant        tokens only
    layout_irrelevant_ws     the same, first separator over white space only
    layout_irrelevant_units  tokens and the fused unit `NS::` (NAMESPACE immediately followed by `::`)
  Structure: `lexKL`/`lexAll` (token stream without positions, independent of the fuel); `startOk`/`cands`
  (rules that can start with a character of a given class, by `decide` on the table); `Pat.run_extend`
  (a pattern none of whose classes accepts the next character behaves as on the isolated lexeme);
  one `step_*` lemma per token class ("the lexeme's own rule matches exactly the lexeme and no earlier rule
  matches"); `lexAll_skip` (a layout string is consumed without producing a token).

  Side conditions that are lexical facts of this language, not proof artefacts: the bare word `end` is not an
  identifier lexeme here (`end` + white space + `if|for|while` is ONE token); a `/` token must not be directly
  followed by a comment (`//`, `/*` start comments); separators between tokens are NON-EMPTY.
  The `tight` variant (no separator where the pairwise test `tightOk` allows it: `a+b`, `f(x)`, `x.y[1]`) is
  proved in Proofs/OalTight.lean.
-/
namespace Pyx.OalLex

/-! ## the token stream without positions, and independence of the fuel -/

/-- kinds and lexemes of `lexRun`, without offsets and lines -/
def lexKL (cfg : LexCfg) : Nat → List Char → List (List Char × List Char)
  | 0, _ => []
  | _ + 1, [] => []
  | fuel + 1, c :: cs =>
    if cfg.ignore.contains c then lexKL cfg fuel cs
    else
      match firstMatch cfg.rules (c :: cs) with
      | some (r, n) =>
        if r.returnsTok then (kindOf cfg r ((c :: cs).take n), (c :: cs).take n) :: lexKL cfg fuel ((c :: cs).drop n)
        else lexKL cfg fuel ((c :: cs).drop n)
      | none => lexKL cfg fuel cs

theorem lexRun_kl (cfg : LexCfg) : ∀ (fuel : Nat) (cs : List Char) (off line : Nat),
    (lexRun cfg fuel cs off line).1.map (fun t => (t.kind, t.lexeme)) = lexKL cfg fuel cs := by
  intro fuel
  induction fuel with
  | zero => intro cs off line; simp [lexRun, lexKL]
  | succ fuel ih =>
    intro cs off line
    cases cs with
    | nil => simp [lexRun, lexKL]
    | cons c cs =>
      simp only [lexRun, lexKL]
      by_cases hig : cfg.ignore.contains c = true
      · simp only [hig, if_true]; exact ih _ _ _
      · have hig' : cfg.ignore.contains c = false := by simpa using hig
        simp only [hig', Bool.false_eq_true, if_false]
        cases hfm : firstMatch cfg.rules (c :: cs) with
        | none => exact ih _ _ _
        | some p =>
          obtain ⟨r, n⟩ := p
          cases hret : r.returnsTok with
          | true => simp only [hret, if_true, List.map_cons, mkTok, ih]
          | false => simp only [hret, Bool.false_eq_true, if_false]; exact ih _ _ _

theorem lexKL_succ (cfg : LexCfg) : ∀ (fuel : Nat) (cs : List Char), cs.length ≤ fuel →
    lexKL cfg (fuel + 1) cs = lexKL cfg fuel cs := by
  intro fuel
  induction fuel with
  | zero =>
    intro cs h
    have : cs = [] := List.length_eq_zero_iff.mp (by omega)
    subst this; simp [lexKL]
  | succ fuel ih =>
    intro cs h
    cases cs with
    | nil => simp [lexKL]
    | cons c cs =>
      simp only [List.length_cons] at h
      rw [lexKL, lexKL]
      split
      · exact ih cs (by omega)
      · split
        · next r n hfm =>
          obtain ⟨_, _, hn⟩ := firstMatch_some hfm
          have hlen : ((c :: cs).drop n).length ≤ fuel := by
            simp only [List.length_drop, List.length_cons]; omega
          rw [ih _ hlen]
        · exact ih cs (by omega)

theorem lexKL_fuel (cfg : LexCfg) (cs : List Char) : ∀ (fuel : Nat), cs.length ≤ fuel →
    lexKL cfg fuel cs = lexKL cfg cs.length cs := by
  intro fuel h
  obtain ⟨d, rfl⟩ : ∃ d, fuel = cs.length + d := ⟨fuel - cs.length, by omega⟩
  induction d with
  | zero => rfl
  | succ d ih => rw [← Nat.add_assoc, lexKL_succ cfg _ cs (by omega)]; exact ih (by omega)

/-- the (kind, lexeme) stream of a whole text -/
def lexAll (cfg : LexCfg) (cs : List Char) : List (List Char × List Char) := lexKL cfg cs.length cs

theorem lexWith_kl (cfg : LexCfg) (text : List Char) :
    (lexWith cfg text).map (fun t => (t.kind, t.lexeme)) = lexAll cfg text := lexRun_kl cfg _ _ _ _

theorem lexAll_nil (cfg : LexCfg) : lexAll cfg [] = [] := rfl

theorem lexAll_ignore (cfg : LexCfg) (c : Char) (cs : List Char) (h : cfg.ignore.contains c = true) :
    lexAll cfg (c :: cs) = lexAll cfg cs := by
  simp only [lexAll, List.length_cons, lexKL, h, if_true]

theorem lexAll_match (cfg : LexCfg) (c : Char) (cs : List Char) (r : Rule) (n : Nat)
    (hi : cfg.ignore.contains c = false) (hfm : firstMatch cfg.rules (c :: cs) = some (r, n)) :
    lexAll cfg (c :: cs) =
      if r.returnsTok then (kindOf cfg r ((c :: cs).take n), (c :: cs).take n) :: lexAll cfg ((c :: cs).drop n)
      else lexAll cfg ((c :: cs).drop n) := by
  obtain ⟨_, _, hn⟩ := firstMatch_some hfm
  have hlen : ((c :: cs).drop n).length ≤ cs.length := by
    simp only [List.length_drop, List.length_cons]; omega
  simp only [lexAll, List.length_cons, lexKL, hi, Bool.false_eq_true, if_false, hfm,
    lexKL_fuel cfg _ _ hlen]

/-! ## rules that cannot start with a given character -/

theorem firstMatch_filter (p : Rule → Bool) (rules : List Rule) (cs : List Char)
    (h : ∀ r ∈ rules, p r = false → scanOf r cs = none) :
    firstMatch rules cs = firstMatch (rules.filter p) cs := by
  induction rules with
  | nil => rfl
  | cons r rs ih =>
    have ih' := ih (fun r' hr' => h r' (List.mem_cons_of_mem _ hr'))
    cases hp : p r with
    | false =>
      rw [List.filter_cons_of_neg (by simp [hp])]
      simp only [firstMatch, h r (by simp) hp]
      exact ih'
    | true =>
      rw [List.filter_cons_of_pos hp]
      simp only [firstMatch, ih']

theorem run_seq_ch_none (f : Char → Bool) (b : Pat) (x : Char) (cs : List Char) (h : f x = false) :
    Pat.run (.seq (.ch f) b) (x :: cs) = none := by
  simp [Pat.run, h]

theorem charClass_E (x : Char) : (charClass x == Cls.E) = (lowerAscii x == 'e') := by
  unfold charClass
  by_cases h : (lowerAscii x == 'e') = true
  · simp [h]
  · simp only [h, Bool.false_eq_true, if_false]
    split
    · simp
    · split
      · simp
      · split <;> simp

theorem isDigit_not_idStart (x : Char) (h : isDigit x = true) :
    (lowerAscii x == 'e') = false ∧ isIdStart x = false := by
  have hnl : isLetterA x = false ∧ (x.toNat == 95) = false := by
    unfold isDigit at h
    split at h
    · simp only [Bool.and_eq_true, decide_eq_true_eq] at h
      simp only [isLetterA, isUpperA, isLowerA, Bool.or_eq_false_iff, Bool.and_eq_false_iff,
        decide_eq_false_iff_not, beq_eq_false_iff_ne, ne_eq]
      omega
    · next hge =>
      simp only [isLetterA, isUpperA, isLowerA, Bool.or_eq_false_iff, Bool.and_eq_false_iff,
        decide_eq_false_iff_not, beq_eq_false_iff_ne, ne_eq]
      omega
  refine ⟨?_, by simp [isIdStart, hnl.1, hnl.2]⟩
  rcases lower_cases x with ⟨hu, _⟩ | ⟨_, e⟩
  · have : isLetterA x = true := by
      simp only [isLetterA, isUpperA, Bool.or_eq_true, Bool.and_eq_true, decide_eq_true_eq]; omega
    rw [hnl.1] at this; simp at this
  · rw [e, beq_eq_false_iff_ne]
    intro he; subst he
    simp [isLetterA, isLowerA, isUpperA] at hnl

theorem charClass_digit (x : Char) (h : isDigit x = true) : charClass x = .D ∨ charClass x = .U := by
  obtain ⟨h1, h2⟩ := isDigit_not_idStart x h
  unfold charClass
  simp only [h1, Bool.false_eq_true, if_false, h2, h, if_true]
  split <;> simp

theorem charClass_idStart (x : Char) (h : isIdStart x = true) : charClass x = .E ∨ charClass x = .L := by
  unfold charClass
  split
  · simp
  · simp [h]

theorem charClass_word (x : Char) (h : isWord x = true) :
    charClass x = .E ∨ charClass x = .L ∨ charClass x = .D := by
  by_cases hi : isIdStart x = true
  · rcases charClass_idStart x hi with h1 | h1 <;> simp [h1]
  · have hi' : isIdStart x = false := by simpa using hi
    have hd : (48 ≤ x.toNat && x.toNat ≤ 57) = true := by
      simp only [isIdStart, Bool.or_eq_false_iff] at hi'
      simp only [isWord, hi'.1, hi'.2, Bool.or_false, Bool.or_eq_true] at h
      exact h
    have hne : (lowerAscii x == 'e') = false := by
      have hdig : isDigit x = true := by
        unfold isDigit
        simp only [Bool.and_eq_true, decide_eq_true_eq] at hd
        rw [if_pos (by omega)]
        simp only [Bool.and_eq_true, decide_eq_true_eq]; exact hd
      exact (isDigit_not_idStart x hdig).1
    right; right
    unfold charClass
    simp [hne, hi', hd]

theorem charClass_other (x y : Char) (h : charClass y = .other y) (hxy : (x == y) = true) :
    charClass x = .other y := by
  have : x = y := by simpa using hxy
  subst this; exact h

/-- a rule whose necessary first-character condition fails does not match -/
theorem startOk_sound (r : Rule) (x : Char) (cs : List Char) (h : startOk r (charClass x) = false) :
    scanOf r (x :: cs) = none := by
  unfold startOk at h
  unfold scanOf
  cases hl : r.lit with
  | some l =>
    simp only [hl] at h ⊢
    cases l with
    | nil => simp [scanLit]
    | cons hd tl =>
      simp only at h
      have hne : (x == hd) = false := by
        rw [beq_eq_false_iff_ne]; intro e; subst e; simp at h
      simp [scanLit, hasPrefix, hne]
  | none =>
    simp only [hl] at h ⊢
    cases hid : regexId r.regex <;> simp only [hid, idStart, scanById] at h ⊢
    · -- comment
      have hx : (x == '/') = false := by
        rw [beq_eq_false_iff_ne]; intro e; subst e; revert h; decide
      cases cs with
      | nil => rfl
      | cons c2 r2 => simp [scanComment, hx]
    · have hx : (x == '/') = false := by
        rw [beq_eq_false_iff_ne]; intro e; subst e; revert h; decide
      exact run_seq_ch_none _ _ _ _ hx
    · have hx : (x == '\'') = false := by
        rw [beq_eq_false_iff_ne]; intro e; subst e; revert h; decide
      exact run_seq_ch_none _ _ _ _ hx
    · have hx : (x == '"') = false := by
        rw [beq_eq_false_iff_ne]; intro e; subst e; revert h; decide
      exact run_seq_ch_none _ _ _ _ hx
    · rw [charClass_E] at h; exact run_seq_ch_none _ _ _ _ h
    · rw [charClass_E] at h; exact run_seq_ch_none _ _ _ _ h
    · rw [charClass_E] at h; exact run_seq_ch_none _ _ _ _ h
    · -- namespace
      have hw : isWord x = false := by
        cases hw : isWord x with
        | false => rfl
        | true => rcases charClass_word x hw with h1 | h1 | h1 <;> simp [h1] at h
      simp [patNamespace, Pat.many1, Pat.run, hw]
    · have hw : isIdStart x = false := by
        cases hw : isIdStart x with
        | false => rfl
        | true => rcases charClass_idStart x hw with h1 | h1 <;> simp [h1] at h
      exact run_seq_ch_none _ _ _ _ hw
    · -- fraction
      have hd : isDigit x = false := by
        cases hd : isDigit x with
        | false => rfl
        | true => rcases charClass_digit x hd with h1 | h1 <;> simp [h1] at h
      have hdot : (x == '.') = false := by
        rw [beq_eq_false_iff_ne]; intro e; subst e; revert h; decide
      simp [patFraction, Pat.seqs, Pat.many1, Pat.lit, Pat.run, spanLen, hd, hdot]
    · have hd : isDigit x = false := by
        cases hd : isDigit x with
        | false => rfl
        | true => rcases charClass_digit x hd with h1 | h1 <;> simp [h1] at h
      exact run_seq_ch_none _ _ _ _ hd
    · have hx : (x == '\n') = false := by
        rw [beq_eq_false_iff_ne]; intro e; subst e; revert h; decide
      exact run_seq_ch_none _ _ _ _ hx

/-- the rules of the generated table that can start with a character of class `k`, in table order -/
def cands (k : Cls) : List Rule := Gen.OalLex.rules.filter (fun r => startOk r k)

theorem firstMatch_cands (x : Char) (cs : List Char) :
    firstMatch Gen.OalLex.rules (x :: cs) = firstMatch (cands (charClass x)) (x :: cs) :=
  firstMatch_filter _ _ _ (fun r _ h => startOk_sound r x cs h)


/-! ## what follows a lexeme: nothing, or a character that starts layout -/

def LayoutStart (c : Char) : Prop := c = ' ' ∨ c = '\t' ∨ c = '\r' ∨ c = '\n' ∨ c = '/'

inductive TailOk : List Char → Prop
  | nil : TailOk []
  | cons (c : Char) (rest : List Char) : LayoutStart c → TailOk (c :: rest)

theorem spanLen_all (f : Char → Bool) (s : List Char) (h : ∀ y ∈ s, f y = true) : spanLen f s = s.length := by
  induction s with
  | nil => rfl
  | cons x s ih =>
    simp only [spanLen, h x (by simp), if_true, List.length_cons]
    rw [ih (fun y hy => h y (by simp [hy]))]

theorem spanLen_append_stop (f : Char → Bool) (a : List Char) (c : Char) (r : List Char)
    (h : ∀ y ∈ a, f y = true) (hc : f c = false) : spanLen f (a ++ c :: r) = a.length := by
  induction a with
  | nil => simp [spanLen, hc]
  | cons x a ih =>
    simp only [List.cons_append, spanLen, h x (by simp), if_true, List.length_cons]
    rw [ih (fun y hy => h y (by simp [hy]))]

theorem spanLen_append_reject (f : Char → Bool) (s : List Char) (c : Char) (rest : List Char)
    (h : f c = false) : spanLen f (s ++ c :: rest) = spanLen f s := by
  induction s with
  | nil => simp [spanLen, h]
  | cons x s ih => simp only [List.cons_append, spanLen, ih]

theorem hasPrefix_append_reject (l s : List Char) (c : Char) (rest : List Char) (h : c ∉ l) :
    hasPrefix l (s ++ c :: rest) = hasPrefix l s := by
  induction l generalizing s with
  | nil => simp [hasPrefix]
  | cons x l ih =>
    have hx : (c == x) = false := by
      rw [beq_eq_false_iff_ne]; intro e; exact h (by simp [e])
    cases s with
    | nil => simp [hasPrefix, hx]
    | cons y s =>
      simp only [List.cons_append, hasPrefix]
      rw [ih s (fun hm => h (by simp [hm]))]

namespace Pat

/-- no character class of the pattern accepts `c`, no look-ahead literal contains it: what the pattern does on
    a text does not change when a tail starting with `c` is appended -/
def Rejects (c : Char) : Pat → Prop
  | eps => True
  | ch f => f c = false
  | many f => f c = false
  | seq a b => Rejects c a ∧ Rejects c b
  | alt a b => Rejects c a ∧ Rejects c b
  | look l => c ∉ l

theorem run_extend (c : Char) (rest : List Char) (p : Pat) :
    ∀ (s : List Char), Rejects c p → run p (s ++ c :: rest) = run p s := by
  induction p with
  | eps => intro s _; rfl
  | ch f =>
    intro s h
    cases s with
    | nil => simp only [Rejects] at h; simp [run, h]
    | cons x s => rfl
  | many f => intro s h; simp only [run, spanLen_append_reject f s c rest h]
  | seq a b iha ihb =>
    intro s h
    simp only [run, iha s h.1]
    cases ha : run a s with
    | none => rfl
    | some n =>
      have hn := run_le a s n ha
      simp only [List.drop_append_of_le_length hn, ihb _ h.2]
  | alt a b iha ihb => intro s h; simp only [run, iha s h.1, ihb s h.2]
  | look l => intro s h; simp only [run, hasPrefix_append_reject l s c rest h]

theorem run_tail (p : Pat) (hp : ∀ c, LayoutStart c → Rejects c p) (s t : List Char) (ht : TailOk t) :
    run p (s ++ t) = run p s := by
  cases ht with
  | nil => simp
  | cons c rest hc => exact run_extend c rest p s (hp c hc)

end Pat
open Pat

macro "layout_cases" h:ident : tactic =>
  `(tactic| (unfold LayoutStart at $h:ident; rcases $h:ident with h1 | h1 | h1 | h1 | h1 <;> subst h1))

theorem rejects_namespace (c : Char) (h : LayoutStart c) : Rejects c patNamespace := by
  layout_cases h <;> (simp only [patNamespace, many1, Rejects]; refine ⟨⟨?_, ?_⟩, ?_⟩ <;> decide)

theorem rejects_id (c : Char) (h : LayoutStart c) : Rejects c patId := by
  layout_cases h <;> (simp only [patId, Rejects]; refine ⟨?_, ?_⟩ <;> decide)

theorem rejects_number (c : Char) (h : LayoutStart c) : Rejects c patNumber := by
  layout_cases h <;> (simp only [patNumber, many1, Rejects]; refine ⟨?_, ?_⟩ <;> decide)

theorem rejects_fraction (c : Char) (h : LayoutStart c) : Rejects c patFraction := by
  layout_cases h <;>
    (simp only [patFraction, patExp, seqs, many1, opt, lit, ci, Rejects]
     refine ⟨⟨⟨?_, ?_, ?_, ?_⟩, ⟨⟨?_, ?_⟩, ?_, ⟨?_, ⟨?_, ?_, ?_⟩, ?_, ?_⟩, trivial⟩, ⟨?_, ?_⟩, ?_, ⟨?_, ?_, ?_⟩, ?_, ?_⟩,
      ?_, trivial⟩ <;> decide)

/-! ## the rules by position in the generated table -/

theorem cands_E : cands .E = [R 4, R 5, R 6, R 7, R 8] := by decide
theorem cands_L : cands .L = [R 7, R 8] := by decide
theorem cands_D : cands .D = [R 7, R 9, R 10] := by decide
theorem cands_U : cands .U = [R 9, R 10] := by decide
theorem cands_dot : cands (.other '.') = [R 9, R 19] := by decide
theorem cands_quote : cands (.other '\'') = [R 2] := by decide
theorem cands_dquote : cands (.other '"') = [R 3] := by decide
theorem cands_slash : cands (.other '/') = [R 0, R 1, R 33] := by decide
theorem cands_nl : cands (.other '\n') = [R 37] := by decide

theorem scanOf_regex (r : Rule) (rid : RegexId) (h1 : r.lit = none) (h2 : regexId r.regex = rid) :
    scanOf r = scanById rid := by
  funext cs; simp only [scanOf, h1, h2]

theorem scan_R0 : scanOf (R 0) = scanComment := scanOf_regex _ .comment (by decide) (by decide)
theorem scan_R1 : scanOf (R 1) = patSlString.run := scanOf_regex _ .slString (by decide) (by decide)
theorem scan_R2 : scanOf (R 2) = patTicked.run := scanOf_regex _ .ticked (by decide) (by decide)
theorem scan_R3 : scanOf (R 3) = patString.run := scanOf_regex _ .string (by decide) (by decide)
theorem scan_R4 : scanOf (R 4) = (patEnd ['f', 'o', 'r']).run := scanOf_regex _ .endFor (by decide) (by decide)
theorem scan_R5 : scanOf (R 5) = (patEnd ['i', 'f']).run := scanOf_regex _ .endIf (by decide) (by decide)
theorem scan_R6 : scanOf (R 6) = (patEnd ['w', 'h', 'i', 'l', 'e']).run :=
  scanOf_regex _ .endWhile (by decide) (by decide)
theorem scan_R7 : scanOf (R 7) = patNamespace.run := scanOf_regex _ .namespace_ (by decide) (by decide)
theorem scan_R8 : scanOf (R 8) = patId.run := scanOf_regex _ .id (by decide) (by decide)
theorem scan_R9 : scanOf (R 9) = patFraction.run := scanOf_regex _ .fraction (by decide) (by decide)
theorem scan_R10 : scanOf (R 10) = patNumber.run := scanOf_regex _ .number (by decide) (by decide)
theorem scan_R37 : scanOf (R 37) = patNewline.run := scanOf_regex _ .newline (by decide) (by decide)


/-! ## one lemma per token class: at the start of a well-formed lexeme followed by layout (or by the end of
    the text) the first matching rule of the generated table is the lexeme's own rule, and it matches exactly
    the lexeme -/

theorem layoutStart_not_letter (c : Char) (h : LayoutStart c) :
    (lowerAscii c == 'e') = false ∧ (lowerAscii c == 'n') = false ∧ (lowerAscii c == 'd') = false := by
  layout_cases h <;> decide

theorem isWord_not_space (y : Char) (h : isWord y = true) : isSpace y = false := by
  unfold isSpace
  simp only [isWord, isLetterA, isUpperA, isLowerA, Bool.or_eq_true, Bool.and_eq_true, decide_eq_true_eq,
    beq_iff_eq] at h
  rw [if_pos (by omega)]
  simp only [Bool.or_eq_false_iff, Bool.and_eq_false_iff, decide_eq_false_iff_not]
  omega

theorem hasPrefix_false_of_notin (x : Char) (l u : List Char) (h : x ∉ u) : hasPrefix (x :: l) u = false := by
  cases u with
  | nil => rfl
  | cons y u =>
    have : (y == x) = false := by
      rw [beq_eq_false_iff_ne]; intro e; exact h (by simp [e])
    simp [hasPrefix, this]

/-- the NAMESPACE rule needs `::` right after the word: it fails on any text without a colon up to the layout -/
theorem namespace_fails (s t : List Char) (h : ':' ∉ s) (ht : TailOk t) : patNamespace.run (s ++ t) = none := by
  rw [run_tail patNamespace rejects_namespace s t ht]
  simp only [patNamespace, Pat.run]
  cases hr : Pat.run (many1 isWord) s with
  | none => rfl
  | some n =>
    have : ':' ∉ s.drop n := fun hm => h (List.mem_of_mem_drop hm)
    simp [hasPrefix_false_of_notin ':' [':'] _ this]

/-- END_FOR / END_IF / END_WHILE need `e n d` (any case) followed by a white-space character -/
theorem end_needs (w0 : Char) (w : List Char) (u : List Char) (n : Nat)
    (h : (patEnd (w0 :: w)).run u = some n) :
    ∃ a b c y rest, u = a :: b :: c :: y :: rest ∧ (lowerAscii a == 'e') = true ∧ (lowerAscii b == 'n') = true ∧
      (lowerAscii c == 'd') = true ∧ isSpace y = true := by
  simp only [patEnd, List.map_cons, List.cons_append, List.nil_append, seqs, ci, many1] at h
  match u, h with
  | [], h => simp [Pat.run] at h
  | [a], h => by_cases ha : (lowerAscii a == 'e') = true <;> simp [Pat.run, ha] at h
  | [a, b], h =>
    by_cases ha : (lowerAscii a == 'e') = true <;> by_cases hb : (lowerAscii b == 'n') = true <;>
      simp [Pat.run, ha, hb] at h
  | [a, b, c], h =>
    by_cases ha : (lowerAscii a == 'e') = true <;> by_cases hb : (lowerAscii b == 'n') = true <;>
      by_cases hc : (lowerAscii c == 'd') = true <;> simp [Pat.run, ha, hb, hc] at h
  | a :: b :: c :: y :: rest, h =>
    by_cases ha : (lowerAscii a == 'e') = true <;> by_cases hb : (lowerAscii b == 'n') = true <;>
      by_cases hc : (lowerAscii c == 'd') = true <;> by_cases hy : isSpace y = true <;>
      simp [Pat.run, ha, hb, hc, hy] at h
    exact ⟨a, b, c, y, rest, rfl, ha, hb, hc, hy⟩

theorem tail_head (t : List Char) (ht : TailOk t) (c : Char) (rest : List Char) (h : t = c :: rest) :
    LayoutStart c := by
  cases ht with
  | nil => simp at h
  | cons c' rest' hc => simp only [List.cons.injEq] at h; rw [← h.1]; exact hc

/-- an identifier-like word other than `end` is not the beginning of an END_* token -/
theorem end_fails_word (w0 : Char) (w : List Char) (s t : List Char) (hs : ∀ y ∈ s, isWord y = true)
    (hne : s.map lowerAscii ≠ ['e', 'n', 'd']) (ht : TailOk t) : (patEnd (w0 :: w)).run (s ++ t) = none := by
  cases hr : (patEnd (w0 :: w)).run (s ++ t) with
  | none => rfl
  | some n =>
    exfalso
    obtain ⟨a, b, c, y, rest, hu, ha, hb, hc, hy⟩ := end_needs w0 w _ n hr
    match s, hs, hne, hu with
    | [], _, _, hu =>
      have := layoutStart_not_letter a (tail_head t ht a _ hu)
      simp [this.1] at ha
    | [s1], _, _, hu =>
      simp only [List.cons_append, List.nil_append, List.cons.injEq] at hu
      have := layoutStart_not_letter b (tail_head t ht b _ hu.2)
      simp [this.2.1] at hb
    | [s1, s2], _, _, hu =>
      simp only [List.cons_append, List.nil_append, List.cons.injEq] at hu
      have := layoutStart_not_letter c (tail_head t ht c _ hu.2.2)
      simp [this.2.2] at hc
    | [s1, s2, s3], _, hne, hu =>
      simp only [List.cons_append, List.nil_append, List.cons.injEq] at hu
      obtain ⟨rfl, rfl, rfl, _⟩ := hu
      apply hne
      simp only [List.map_cons, List.map_nil]
      rw [beq_iff_eq.mp ha, beq_iff_eq.mp hb, beq_iff_eq.mp hc]
    | s1 :: s2 :: s3 :: s4 :: s', hs, _, hu =>
      simp only [List.cons_append, List.cons.injEq] at hu
      obtain ⟨_, _, _, rfl, _⟩ := hu
      have := isWord_not_space s4 (hs s4 (by simp))
      rw [this] at hy; simp at hy

/-- an identifier or keyword spelling: `[a-zA-Z_][0-9a-zA-Z_]*`, not the word `end` in any letter case
    (`end` + white space + `if|for|while` is ONE token of this language) -/
structure WellWord (s : List Char) : Prop where
  shape : ∃ x s', s = x :: s' ∧ isIdStart x = true ∧ ∀ y ∈ s', isWord y = true
  notEnd : s.map lowerAscii ≠ ['e', 'n', 'd']

theorem isIdStart_isWord (x : Char) (h : isIdStart x = true) : isWord x = true := by
  simp only [isIdStart, Bool.or_eq_true] at h
  simp only [isWord, Bool.or_eq_true]
  rcases h with h | h
  · exact Or.inl (Or.inr h)
  · exact Or.inr h

theorem word_no_colon (s : List Char) (hs : ∀ y ∈ s, isWord y = true) : ':' ∉ s := by
  intro hm
  have := hs _ hm
  revert this; decide

theorem step_word (s : List Char) (h : WellWord s) (t : List Char) (ht : TailOk t) :
    firstMatch Gen.OalLex.rules (s ++ t) = some (R 8, s.length) := by
  obtain ⟨⟨x, s', rfl, hx, hs'⟩, hne⟩ := h
  have hall : ∀ y ∈ x :: s', isWord y = true := by
    intro y hy
    rcases List.mem_cons.mp hy with rfl | hy
    · exact isIdStart_isWord _ hx
    · exact hs' y hy
  have hns : patNamespace.run ((x :: s') ++ t) = none := namespace_fails _ t (word_no_colon _ hall) ht
  have hid : patId.run ((x :: s') ++ t) = some (x :: s').length := by
    rw [run_tail patId rejects_id _ t ht]
    simp [patId, Pat.run, hx, spanLen_all isWord s' hs', Nat.add_comm]
  have hE := fun w0 w => end_fails_word w0 w (x :: s') t hall hne ht
  rw [List.cons_append] at hns hid hE ⊢
  rw [firstMatch_cands]
  rcases charClass_idStart x hx with hc | hc <;> rw [hc]
  · rw [cands_E]
    simp [firstMatch, scan_R4, scan_R5, scan_R6, scan_R7, scan_R8, hE, hns, hid]
  · rw [cands_L]
    simp [firstMatch, scan_R7, scan_R8, hns, hid]


/-- a number: a non-empty run of decimal digits (`\d+`) -/
structure WellNumber (s : List Char) : Prop where
  nonempty : s ≠ []
  digits : ∀ y ∈ s, isDigit y = true

theorem digits_no_colon (s : List Char) (hs : ∀ y ∈ s, isDigit y = true) : ':' ∉ s := by
  intro hm
  have := hs _ hm
  revert this; decide

/-- the FRACTION rule needs a '.' or an exponent: it fails on a bare run of digits -/
theorem run_seq_of (a b : Pat) (s : List Char) (n : Nat) (h : Pat.run a s = some n) :
    Pat.run (.seq a b) s = (Pat.run b (s.drop n)).map (n + ·) := by simp [Pat.run, h]

theorem run_seq_none (a b : Pat) (s : List Char) (h : Pat.run a s = none) : Pat.run (.seq a b) s = none := by
  simp [Pat.run, h]

theorem run_alt_none (a b : Pat) (s : List Char) (ha : Pat.run a s = none) (hb : Pat.run b s = none) :
    Pat.run (.alt a b) s = none := by simp [Pat.run, ha, hb]

theorem run_many1_all (f : Char → Bool) (x : Char) (s' : List Char) (hx : f x = true)
    (hs : ∀ y ∈ s', f y = true) : Pat.run (many1 f) (x :: s') = some (x :: s').length := by
  simp [many1, Pat.run, hx, spanLen_all f s' hs, Nat.add_comm]

theorem fraction_fails_digits (x : Char) (s' : List Char) (hx : isDigit x = true)
    (hs : ∀ y ∈ s', isDigit y = true) : patFraction.run (x :: s') = none := by
  have hall : ∀ y ∈ x :: s', isDigit y = true := by
    intro y hy; rcases List.mem_cons.mp hy with rfl | hy
    · exact hx
    · exact hs y hy
  have hm : Pat.run (.many isDigit) (x :: s') = some (x :: s').length := by
    simp only [Pat.run, spanLen_all isDigit _ hall]
  have hm1 := run_many1_all isDigit x s' hx hs
  have hdot : ∀ b, Pat.run (.seq (lit '.') b) [] = none := by intro b; simp [Pat.run, lit]
  have hexp : Pat.run patExp [] = none := by simp [Pat.run, patExp, ci]
  have hA1 : Pat.run (seqs [.many isDigit, lit '.', many1 isDigit]) (x :: s') = none := by
    simp only [seqs]; rw [run_seq_of _ _ _ _ hm, List.drop_length, hdot]; rfl
  have hA2 : Pat.run (seqs [many1 isDigit, lit '.', opt patExp]) (x :: s') = none := by
    simp only [seqs]; rw [run_seq_of _ _ _ _ hm1, List.drop_length, hdot]; rfl
  have hA3 : Pat.run (.seq (many1 isDigit) patExp) (x :: s') = none := by
    rw [run_seq_of _ _ _ _ hm1, List.drop_length, hexp]; rfl
  unfold patFraction
  apply run_seq_none
  exact run_alt_none _ _ _ hA1 (run_alt_none _ _ _ hA2 hA3)

theorem step_number (s : List Char) (h : WellNumber s) (t : List Char) (ht : TailOk t) :
    firstMatch Gen.OalLex.rules (s ++ t) = some (R 10, s.length) := by
  obtain ⟨hne, hd⟩ := h
  cases s with
  | nil => exact absurd rfl hne
  | cons x s' =>
    have hx := hd x (by simp)
    have hs' : ∀ y ∈ s', isDigit y = true := fun y hy => hd y (by simp [hy])
    have hns : patNamespace.run ((x :: s') ++ t) = none := namespace_fails _ t (digits_no_colon _ hd) ht
    have hfr : patFraction.run ((x :: s') ++ t) = none := by
      rw [run_tail patFraction rejects_fraction _ t ht]; exact fraction_fails_digits x s' hx hs'
    have hnum : patNumber.run ((x :: s') ++ t) = some (x :: s').length := by
      rw [run_tail patNumber rejects_number _ t ht]
      simp [patNumber, many1, Pat.run, hx, spanLen_all isDigit s' hs', Nat.add_comm]
    rw [List.cons_append] at hns hfr hnum ⊢
    rw [firstMatch_cands]
    rcases charClass_digit x hx with hc | hc <;> rw [hc]
    · rw [cands_D]; simp [firstMatch, scan_R7, scan_R9, scan_R10, hns, hfr, hnum]
    · rw [cands_U]; simp [firstMatch, scan_R9, scan_R10, hfr, hnum]

/-- a fraction: a non-empty string the FRACTION regex matches entirely -/
structure WellFraction (s : List Char) : Prop where
  nonempty : s ≠ []
  whole : patFraction.run s = some s.length

theorem fraction_no_colon (s : List Char) (n : Nat) (h : patFraction.run s = some n) : ':' ∉ s.take n := by
  have := Pat.run_classes (fun c => c ≠ ':') patFraction s n h (by
    simp only [patFraction, patExp, seqs, many1, opt, lit, ci, Pat.ClassesIn]
    refine ⟨⟨⟨?_, ?_, ?_, ?_⟩, ⟨⟨?_, ?_⟩, ?_, ⟨?_, ⟨?_, ?_, ?_⟩, ?_, ?_⟩, trivial⟩, ⟨?_, ?_⟩, ?_, ⟨?_, ?_, ?_⟩, ?_, ?_⟩,
      ?_, trivial⟩ <;> (intro c h e; subst e; revert h; decide))
  intro hm; exact this _ hm rfl

theorem step_fraction (s : List Char) (h : WellFraction s) (t : List Char) (ht : TailOk t) :
    firstMatch Gen.OalLex.rules (s ++ t) = some (R 9, s.length) := by
  obtain ⟨hne, hw⟩ := h
  cases s with
  | nil => exact absurd rfl hne
  | cons x s' =>
    have hfr : patFraction.run ((x :: s') ++ t) = some (x :: s').length := by
      rw [run_tail patFraction rejects_fraction _ t ht]; exact hw
    have hcol : ':' ∉ x :: s' := by
      have := fraction_no_colon _ _ hw
      rwa [List.take_length] at this
    have hns : patNamespace.run ((x :: s') ++ t) = none := namespace_fails _ t hcol ht
    have hstart : startOk (R 9) (charClass x) = true := by
      cases hso : startOk (R 9) (charClass x) with
      | true => rfl
      | false =>
        have := startOk_sound (R 9) x s' hso
        rw [scan_R9, hw] at this; simp at this
    have hcls : (charClass x = .D ∨ charClass x = .U) ∨ charClass x = .other '.' := by
      have h9 : startOk (R 9) (charClass x) = idStart .fraction (charClass x) := by
        simp only [startOk, show (R 9).lit = none from by decide,
          show regexId (R 9).regex = RegexId.fraction from by decide]
      rw [h9] at hstart
      simpa [idStart] using hstart
    rw [List.cons_append] at hns hfr ⊢
    rw [firstMatch_cands]
    rcases hcls with (hc | hc) | hc <;> rw [hc]
    · rw [cands_D]; simp [firstMatch, scan_R7, scan_R9, hns, hfr]
    · rw [cands_U]; simp [firstMatch, scan_R9, hfr]
    · rw [cands_dot]; simp [firstMatch, scan_R9, hfr]

/-- a string literal: `"` body `"` where the body has no `"` and no newline -/
structure WellString (s : List Char) : Prop where
  shape : ∃ body, s = '"' :: body ++ ['"'] ∧ ∀ y ∈ body, y ≠ '"' ∧ y ≠ '\n'

theorem step_string (s : List Char) (h : WellString s) (t : List Char) :
    firstMatch Gen.OalLex.rules (s ++ t) = some (R 3, s.length) := by
  obtain ⟨body, rfl, hb⟩ := h
  have hspan : spanLen (fun c => !(c == '"') && !(c == '\n')) (body ++ '"' :: t) = body.length :=
    spanLen_append_stop _ body '"' t (fun y hy => by
      have := hb y hy
      simp [this.1, this.2]) (by decide)
  have hrun : patString.run ('"' :: (body ++ '"' :: t)) = some (body.length + 2) := by
    simp [patString, seqs, lit, Pat.run, hspan]; omega
  have : ('"' :: body ++ ['"']) ++ t = '"' :: (body ++ '"' :: t) := by simp
  rw [this, firstMatch_cands, show charClass '"' = .other '"' from by decide, cands_dquote]
  simp [firstMatch, scan_R3, hrun]

/-- a ticked phrase: `'` body `'` where the body has no `'` (it may contain newlines) -/
structure WellTicked (s : List Char) : Prop where
  shape : ∃ body, s = '\'' :: body ++ ['\''] ∧ ∀ y ∈ body, y ≠ '\''

theorem step_ticked (s : List Char) (h : WellTicked s) (t : List Char) :
    firstMatch Gen.OalLex.rules (s ++ t) = some (R 2, s.length) := by
  obtain ⟨body, rfl, hb⟩ := h
  have hspan : spanLen (fun c => !(c == '\'')) (body ++ '\'' :: t) = body.length :=
    spanLen_append_stop _ body '\'' t (fun y hy => by simp [hb y hy]) (by decide)
  have hrun : patTicked.run ('\'' :: (body ++ '\'' :: t)) = some (body.length + 2) := by
    simp [patTicked, seqs, lit, Pat.run, hspan]; omega
  have : ('\'' :: body ++ ['\'']) ++ t = '\'' :: (body ++ '\'' :: t) := by simp
  rw [this, firstMatch_cands, show charClass '\'' = .other '\'' from by decide, cands_quote]
  simp [firstMatch, scan_R2, hrun]


/-! ### `end` + white space + `if|for|while` -/

theorem run_cis (w : List Char) : ∀ (l t : List Char), l.map lowerAscii = w → w ≠ [] →
    Pat.run (seqs (w.map ci)) (l ++ t) = some l.length := by
  induction w with
  | nil => intro l t _ h; exact absurd rfl h
  | cons w0 w ih =>
    intro l t hl _
    cases l with
    | nil => simp at hl
    | cons l0 l =>
      simp only [List.map_cons, List.cons.injEq] at hl
      have h0 : (lowerAscii l0 == w0) = true := by simp [hl.1]
      cases w with
      | nil =>
        have : l = [] := by simpa using hl.2
        subst this
        simp [seqs, ci, Pat.run, h0]
      | cons w1 w =>
        have ih' := ih l t hl.2 (by simp)
        simp only [List.map_cons] at ih'
        simp only [List.map_cons, seqs, List.cons_append, List.length_cons]
        rw [run_seq_of _ _ _ 1 (by simp [ci, Pat.run, h0])]
        simp only [List.drop_succ_cons, List.drop_zero, ih', Option.map_some]
        congr 1; omega

theorem run_cis_fail (w0 : Char) (w : List Char) (u0 : Char) (u : List Char)
    (h : (lowerAscii u0 == w0) = false) : Pat.run (seqs ((w0 :: w).map ci)) (u0 :: u) = none := by
  cases w with
  | nil => simp [seqs, ci, Pat.run, h]
  | cons w1 w => simp only [List.map_cons, seqs]; exact run_seq_ch_none _ _ _ _ h

/-- `end`, white space, and the word `w` (given in lower case), each letter in any case -/
structure WellEnd (w : List Char) (s : List Char) : Prop where
  shape : ∃ a b c y ws l, s = a :: b :: c :: y :: ws ++ l ∧
    (lowerAscii a == 'e') = true ∧ (lowerAscii b == 'n') = true ∧ (lowerAscii c == 'd') = true ∧
    isSpace y = true ∧ (∀ z ∈ ws, isSpace z = true) ∧ l.map lowerAscii = w

theorem end_prefix (P : Pat) (a b c y : Char) (ws : List Char) (l0 : Char) (rest : List Char)
    (ha : (lowerAscii a == 'e') = true) (hb : (lowerAscii b == 'n') = true) (hc : (lowerAscii c == 'd') = true)
    (hy : isSpace y = true) (hws : ∀ z ∈ ws, isSpace z = true) (hl0 : isSpace l0 = false) :
    Pat.run (.seq (ci 'e') (.seq (ci 'n') (.seq (ci 'd') (.seq (many1 isSpace) P))))
        (a :: b :: c :: y :: ws ++ l0 :: rest) =
      (Pat.run P (l0 :: rest)).map (fun k => 4 + ws.length + k) := by
  have hsp : Pat.run (many1 isSpace) (y :: ws ++ l0 :: rest) = some (1 + ws.length) := by
    have := spanLen_append_stop isSpace ws l0 rest hws hl0
    simp [many1, Pat.run, hy, this]
  rw [run_seq_of _ _ _ 1 (by simp [ci, Pat.run, ha])]
  simp only [List.cons_append, List.drop_succ_cons, List.drop_zero]
  rw [run_seq_of _ _ _ 1 (by simp [ci, Pat.run, hb])]
  simp only [List.drop_succ_cons, List.drop_zero]
  rw [run_seq_of _ _ _ 1 (by simp [ci, Pat.run, hc])]
  simp only [List.drop_succ_cons, List.drop_zero]
  rw [← List.cons_append, run_seq_of _ _ _ _ hsp]
  have hdrop : List.drop (1 + ws.length) (y :: ws ++ l0 :: rest) = l0 :: rest := by
    rw [Nat.add_comm, List.cons_append, List.drop_succ_cons, List.drop_left]
  rw [hdrop]
  cases Pat.run P (l0 :: rest) with
  | none => rfl
  | some k => simp only [Option.map_some]; congr 1; omega

theorem patEnd_unfold (w0 : Char) (w : List Char) :
    patEnd (w0 :: w) = .seq (ci 'e') (.seq (ci 'n') (.seq (ci 'd') (.seq (many1 isSpace) (seqs ((w0 :: w).map ci))))) := by
  simp [patEnd, seqs]

/-- the END rule for the word `w` on an END lexeme for the word `v` -/
theorem end_run (w0 : Char) (w : List Char) (v : List Char) (s : List Char) (hs : WellEnd v s) (t : List Char)
    (hv : ∀ x ∈ v, isSpace x = false) :
    (v = w0 :: w → (patEnd (w0 :: w)).run (s ++ t) = some s.length) ∧
    ((∃ v0 v', v = v0 :: v' ∧ v0 ≠ w0) → (patEnd (w0 :: w)).run (s ++ t) = none) := by
  obtain ⟨a, b, c, y, ws, l, rfl, ha, hb, hc, hy, hws, hl⟩ := hs
  rw [patEnd_unfold]
  constructor
  · intro hvw
    subst hvw
    cases l with
    | nil => simp at hl
    | cons l0 l' =>
      have hl0 : isSpace l0 = false := by
        have h1 : lowerAscii l0 = w0 := by simpa using (List.cons.inj hl).1
        rw [← caseBlind_isSpace l0, h1]; exact hv w0 (by simp)
      have hP := run_cis (w0 :: w) (l0 :: l') t hl (by simp)
      have : (a :: b :: c :: y :: ws ++ l0 :: l') ++ t = a :: b :: c :: y :: ws ++ l0 :: (l' ++ t) := by simp
      rw [this, end_prefix _ a b c y ws l0 _ ha hb hc hy hws hl0, ← List.cons_append, hP]
      simp only [Option.map_some, List.length_cons, List.length_append]
      congr 1; omega
  · rintro ⟨v0, v', rfl, hne⟩
    cases l with
    | nil => simp at hl
    | cons l0 l' =>
      have h1 : lowerAscii l0 = v0 := by simpa using (List.cons.inj hl).1
      have hl0 : isSpace l0 = false := by
        rw [← caseBlind_isSpace l0, h1]; exact hv v0 (by simp)
      have hne' : (lowerAscii l0 == w0) = false := by rw [h1]; simpa using hne
      have : (a :: b :: c :: y :: ws ++ l0 :: l') ++ t = a :: b :: c :: y :: ws ++ l0 :: (l' ++ t) := by simp
      rw [this, end_prefix _ a b c y ws l0 _ ha hb hc hy hws hl0, run_cis_fail w0 w l0 _ hne']
      rfl

theorem charClass_of_e (a : Char) (h : (lowerAscii a == 'e') = true) : charClass a = .E := by
  unfold charClass; simp [h]

theorem wellEnd_length (v s : List Char) (hs : WellEnd v s) : ∃ a s', s = a :: s' ∧ (lowerAscii a == 'e') = true := by
  obtain ⟨a, b, c, y, ws, l, rfl, ha, _⟩ := hs
  exact ⟨a, _, rfl, ha⟩

theorem step_end_for (s : List Char) (h : WellEnd ['f', 'o', 'r'] s) (t : List Char) :
    firstMatch Gen.OalLex.rules (s ++ t) = some (R 4, s.length) := by
  have h4 := (end_run 'f' ['o', 'r'] _ s h t (by decide)).1 rfl
  obtain ⟨a, s', rfl, ha⟩ := wellEnd_length _ _ h
  rw [List.cons_append] at h4 ⊢
  rw [firstMatch_cands, charClass_of_e a ha, cands_E]
  simp [firstMatch, scan_R4, h4]

theorem step_end_if (s : List Char) (h : WellEnd ['i', 'f'] s) (t : List Char) :
    firstMatch Gen.OalLex.rules (s ++ t) = some (R 5, s.length) := by
  have h4 := (end_run 'f' ['o', 'r'] _ s h t (by decide)).2 ⟨'i', ['f'], rfl, by decide⟩
  have h5 := (end_run 'i' ['f'] _ s h t (by decide)).1 rfl
  obtain ⟨a, s', rfl, ha⟩ := wellEnd_length _ _ h
  rw [List.cons_append] at h4 h5 ⊢
  rw [firstMatch_cands, charClass_of_e a ha, cands_E]
  simp [firstMatch, scan_R4, scan_R5, h4, h5]

theorem step_end_while (s : List Char) (h : WellEnd ['w', 'h', 'i', 'l', 'e'] s) (t : List Char) :
    firstMatch Gen.OalLex.rules (s ++ t) = some (R 6, s.length) := by
  have h4 := (end_run 'f' ['o', 'r'] _ s h t (by decide)).2 ⟨'w', ['h', 'i', 'l', 'e'], rfl, by decide⟩
  have h5 := (end_run 'i' ['f'] _ s h t (by decide)).2 ⟨'w', ['h', 'i', 'l', 'e'], rfl, by decide⟩
  have h6 := (end_run 'w' ['h', 'i', 'l', 'e'] _ s h t (by decide)).1 rfl
  obtain ⟨a, s', rfl, ha⟩ := wellEnd_length _ _ h
  rw [List.cons_append] at h4 h5 h6 ⊢
  rw [firstMatch_cands, charClass_of_e a ha, cands_E]
  simp [firstMatch, scan_R4, scan_R5, scan_R6, h4, h5, h6]


/-! ### the fixed-string tokens -/

def layoutStarts : List Char := [' ', '\t', '\r', '\n', '/']

theorem layoutStart_mem (c : Char) (h : LayoutStart c) : c ∈ layoutStarts := by
  layout_cases h <;> decide

/-- regexes whose match does not depend on what follows, when that starts with a layout character -/
def tailFree : RegexId → Bool
  | .namespace_ | .id | .fraction | .number => true
  | _ => false

/-- the rule behaves on `lexeme ++ c :: rest` as on the isolated lexeme: it cannot start with the lexeme's first
    character, or it is a literal without `c`, or a regex that no layout character can extend -/
def stableB (r : Rule) (k : Cls) (c : Char) : Bool :=
  !startOk r k || (match r.lit with
    | some l => !l.contains c
    | none => tailFree (regexId r.regex))

theorem stable_sound (r : Rule) (x : Char) (s' : List Char) (c : Char) (rest : List Char)
    (hc : LayoutStart c) (h : stableB r (charClass x) c = true) :
    scanOf r ((x :: s') ++ c :: rest) = scanOf r (x :: s') := by
  unfold stableB at h
  cases hso : startOk r (charClass x) with
  | false => rw [List.cons_append, startOk_sound r x _ hso, startOk_sound r x _ hso]
  | true =>
    simp only [hso, Bool.not_true, Bool.false_or] at h
    unfold scanOf
    cases hl : r.lit with
    | some l =>
      simp only [hl, Bool.not_eq_true'] at h ⊢
      have hn : c ∉ l := contains_false_iff.mp h
      simp only [scanLit, hasPrefix_append_reject l _ c rest hn]
    | none =>
      simp only [hl] at h ⊢
      cases hid : regexId r.regex <;> simp only [hid, tailFree, Bool.false_eq_true] at h <;>
        simp only [scanById]
      · exact Pat.run_extend c rest _ _ (rejects_namespace c hc)
      · exact Pat.run_extend c rest _ _ (rejects_id c hc)
      · exact Pat.run_extend c rest _ _ (rejects_fraction c hc)
      · exact Pat.run_extend c rest _ _ (rejects_number c hc)

/-- rule `i` is a literal rule whose lexeme, followed by layout, is matched by rule `i` and by no earlier rule:
    every rule is stable at that position and rule `i` is the first match on the isolated lexeme
    (all computed on the generated table) -/
def litGood (i : Nat) : Bool :=
  match (R i).lit with
  | some (x :: l') =>
    (layoutStarts.all fun c => Gen.OalLex.rules.all fun r => stableB r (charClass x) c) &&
    decide (firstMatch Gen.OalLex.rules (x :: l') = some (R i, (x :: l').length)) &&
    (R i).returnsTok && decide ((R i).name ≠ idName) && !Gen.OalLex.ignore.contains x
  | _ => false

theorem litIndexes_good : litIndexes.all litGood = true := by decide

theorem step_lit (i : Nat) (hi : litGood i = true) (l : List Char) (hl : (R i).lit = some l)
    (t : List Char) (ht : TailOk t) :
    firstMatch Gen.OalLex.rules (l ++ t) = some (R i, l.length) ∧ (R i).returnsTok = true ∧
      (R i).name ≠ idName ∧ ∃ x l', l = x :: l' ∧ Gen.OalLex.ignore.contains x = false := by
  unfold litGood at hi
  rw [hl] at hi
  cases l with
  | nil => simp at hi
  | cons x l' =>
    simp only [Bool.and_eq_true, List.all_eq_true, decide_eq_true_eq, Bool.not_eq_true'] at hi
    obtain ⟨⟨⟨⟨hst, hfm⟩, hret⟩, hname⟩, hig⟩ := hi
    refine ⟨?_, hret, hname, x, l', rfl, hig⟩
    cases ht with
    | nil => rw [List.append_nil]; exact hfm
    | cons c rest hc =>
      rw [← hfm]
      exact firstMatch_congr (fun r hr => stable_sound r x l' c rest hc (hst c (layoutStart_mem c hc) r hr))

/-- `/` followed by layout that does not itself start with `/` -/
theorem step_div (t : List Char) (ht : TailOk t) (hns : ∀ rest, t ≠ '/' :: rest) :
    firstMatch Gen.OalLex.rules (['/'] ++ t) = some (R 33, 1) := by
  have h33 : scanOf (R 33) = scanLit ['/'] := by
    funext cs; simp only [scanOf, show (R 33).lit = some ['/'] from by decide]
  rw [List.singleton_append, firstMatch_cands, show charClass '/' = .other '/' from by decide, cands_slash]
  cases ht with
  | nil => simp [firstMatch, scan_R0, scan_R1, h33, scanComment, patSlString, seqs, lit, Pat.run, scanLit, hasPrefix]
  | cons c rest hc =>
    have hc' : (c == '*') = false ∧ (c == '/') = false := by
      have hne : c ≠ '/' := fun e => hns rest (by rw [e])
      unfold LayoutStart at hc
      rcases hc with h1 | h1 | h1 | h1 | h1
      · subst h1; decide
      · subst h1; decide
      · subst h1; decide
      · subst h1; decide
      · exact absurd h1 hne
    simp [firstMatch, scan_R0, scan_R1, h33, scanComment, patSlString, seqs, lit, Pat.run, scanLit, hasPrefix,
      hc'.1, hc'.2]


/-! ## well-formed lexemes and their kinds -/

/-- `WellLexeme k s`: `s` is a complete lexeme of token kind `k`.
    Rule positions in the generated table: 2 TICKED_PHRASE, 3 STRING, 4 END_FOR, 5 END_IF, 6 END_WHILE,
    9 FRACTION, 10 NUMBER, 33 DIV, `litIndexes` the other fixed-string tokens. -/
inductive WellLexeme : List Char → List Char → Prop
  | word (s : List Char) (h : WellWord s) : WellLexeme (wordKind s) s
  | number (s : List Char) (h : WellNumber s) : WellLexeme (R 10).name s
  | fraction (s : List Char) (h : WellFraction s) : WellLexeme (R 9).name s
  | string (s : List Char) (h : WellString s) : WellLexeme (R 3).name s
  | ticked (s : List Char) (h : WellTicked s) : WellLexeme (R 2).name s
  | endFor (s : List Char) (h : WellEnd ['f', 'o', 'r'] s) : WellLexeme (R 4).name s
  | endIf (s : List Char) (h : WellEnd ['i', 'f'] s) : WellLexeme (R 5).name s
  | endWhile (s : List Char) (h : WellEnd ['w', 'h', 'i', 'l', 'e'] s) : WellLexeme (R 6).name s
  | lit (i : Nat) (hi : i ∈ litIndexes) (l : List Char) (hl : (R i).lit = some l) : WellLexeme (R i).name l
  | div : WellLexeme (R 33).name ['/']

theorem kindOf_other (r : Rule) (h : r.name ≠ idName) (s : List Char) : kindOf Gen.OalLex.cfg r s = r.name := by
  simp [kindOf, h]

theorem kindOf_R8 (s : List Char) : kindOf Gen.OalLex.cfg (R 8) s = wordKind s := by
  simp [kindOf, show (R 8).name = idName from by decide, Gen.OalLex.cfg, Gen.OalLex.idUpper, wordKind]

theorem not_ignored (f : Char → Bool) (hf : (Gen.OalLex.ignore.all fun c => !f c) = true) (x : Char)
    (hx : f x = true) : Gen.OalLex.cfg.ignore.contains x = false := by
  rw [contains_false_iff]
  intro hm
  have := List.all_eq_true.mp hf x hm
  rw [hx] at this; simp at this

/-- the step of the lexer at a well-formed lexeme followed by the end of the text or by layout -/
theorem tok_step (k s : List Char) (h : WellLexeme k s) (t : List Char) (ht : TailOk t)
    (hdiv : s = ['/'] → ∀ rest, t ≠ '/' :: rest) :
    ∃ r x s', s = x :: s' ∧ Gen.OalLex.cfg.ignore.contains x = false ∧
      firstMatch Gen.OalLex.cfg.rules (s ++ t) = some (r, s.length) ∧ r.returnsTok = true ∧
      kindOf Gen.OalLex.cfg r s = k := by
  cases h with
  | word s h =>
    obtain ⟨x, s', rfl, hx, _⟩ := h.shape
    exact ⟨R 8, x, s', rfl, not_ignored isIdStart (by decide) x hx, step_word _ h t ht, by decide, kindOf_R8 _⟩
  | number s h =>
    cases s with
    | nil => exact absurd rfl h.nonempty
    | cons x s' =>
      exact ⟨R 10, x, s', rfl, not_ignored isDigit (by decide) x (h.digits x (by simp)), step_number _ h t ht,
        by decide, kindOf_other _ (by decide) _⟩
  | fraction s h =>
    cases s with
    | nil => exact absurd rfl h.nonempty
    | cons x s' =>
      have hx : (fun c => isDigit c || c == '.') x = true := by
        cases hso : startOk (R 9) (charClass x) with
        | false =>
          have := startOk_sound (R 9) x s' hso
          rw [scan_R9, h.whole] at this; simp at this
        | true =>
          have h9 : startOk (R 9) (charClass x) = idStart .fraction (charClass x) := by
            simp only [startOk, show (R 9).lit = none from by decide,
              show regexId (R 9).regex = RegexId.fraction from by decide]
          rw [h9] at hso
          by_cases hd : isDigit x = true
          · simp [hd]
          · have hd' : isDigit x = false := by simpa using hd
            have hcls : charClass x = .other x := by
              unfold charClass at hso ⊢
              split
              · next he => rw [if_pos he] at hso; simp [idStart] at hso
              · next he =>
                rw [if_neg he] at hso
                split
                · next hi => rw [if_pos hi] at hso; simp [idStart] at hso
                · next hi =>
                  rw [if_neg hi] at hso
                  split
                  · next hdd =>
                    exfalso
                    simp only [Bool.and_eq_true, decide_eq_true_eq] at hdd
                    unfold isDigit at hd'
                    rw [if_pos (by omega)] at hd'
                    simp only [Bool.and_eq_false_iff, decide_eq_false_iff_not] at hd'
                    omega
                  · simp [hd']
            rw [hcls] at hso
            simp only [idStart, Bool.or_eq_true, beq_iff_eq, Cls.other.injEq] at hso
            simp only [reduceCtorEq, false_or] at hso
            simp [hso]
      exact ⟨R 9, x, s', rfl, not_ignored (fun c => isDigit c || c == '.') (by decide) x hx, step_fraction _ h t ht, by decide,
        kindOf_other _ (by decide) _⟩
  | string s h =>
    obtain ⟨body, rfl, _⟩ := h.shape
    exact ⟨R 3, '"', body ++ ['"'], rfl, by decide, step_string _ h t, by decide, kindOf_other _ (by decide) _⟩
  | ticked s h =>
    obtain ⟨body, rfl, _⟩ := h.shape
    exact ⟨R 2, '\'', body ++ ['\''], rfl, by decide, step_ticked _ h t, by decide, kindOf_other _ (by decide) _⟩
  | endFor s h =>
    obtain ⟨a, s', rfl, ha⟩ := wellEnd_length _ _ h
    exact ⟨R 4, a, s', rfl, not_ignored (fun c => lowerAscii c == 'e') (by decide) a ha, step_end_for _ h t,
      by decide, kindOf_other _ (by decide) _⟩
  | endIf s h =>
    obtain ⟨a, s', rfl, ha⟩ := wellEnd_length _ _ h
    exact ⟨R 5, a, s', rfl, not_ignored (fun c => lowerAscii c == 'e') (by decide) a ha, step_end_if _ h t,
      by decide, kindOf_other _ (by decide) _⟩
  | endWhile s h =>
    obtain ⟨a, s', rfl, ha⟩ := wellEnd_length _ _ h
    exact ⟨R 6, a, s', rfl, not_ignored (fun c => lowerAscii c == 'e') (by decide) a ha, step_end_while _ h t,
      by decide, kindOf_other _ (by decide) _⟩
  | lit i hi l hl =>
    have hg : litGood i = true := List.all_eq_true.mp litIndexes_good i hi
    obtain ⟨hfm, hret, hname, x, l', rfl, hig⟩ := step_lit i hg _ hl t ht
    exact ⟨R i, x, l', rfl, hig, hfm, hret, kindOf_other _ hname _⟩
  | div =>
    exact ⟨R 33, '/', [], rfl, by decide, step_div t ht (hdiv rfl), by decide, kindOf_other _ (by decide) _⟩

theorem lexAll_tok (k s : List Char) (h : WellLexeme k s) (t : List Char) (ht : TailOk t)
    (hdiv : s = ['/'] → ∀ rest, t ≠ '/' :: rest) :
    lexAll Gen.OalLex.cfg (s ++ t) = (k, s) :: lexAll Gen.OalLex.cfg t := by
  obtain ⟨r, x, s', rfl, hig, hfm, hret, hk⟩ := tok_step k s h t ht hdiv
  rw [List.cons_append] at hfm ⊢
  rw [lexAll_match _ x (s' ++ t) r _ hig hfm, hret]
  simp only [if_true, ← List.cons_append, List.take_left', List.drop_left', hk]


/-! ## layout is skipped entirely -/

/-- a (possibly empty) layout string: blanks, tabs, CR, LF, block comments `/* ... */` (the body, up to and
    including the closing `*/`, is what the COMMENT automaton accepts - so it contains no earlier `*/`), and line
    comments `// ... \n` -/
inductive Layout0 : List Char → Prop
  | nil : Layout0 []
  | ws (c : Char) (rest : List Char) : (c = ' ' ∨ c = '\t' ∨ c = '\r' ∨ c = '\n') → Layout0 rest → Layout0 (c :: rest)
  | comment (body rest : List Char) : commentBody body false = some body.length → Layout0 rest →
      Layout0 ('/' :: '*' :: body ++ rest)
  | lineComment (body rest : List Char) : (∀ y ∈ body, y ≠ '\n') → Layout0 rest →
      Layout0 ('/' :: '/' :: body ++ '\n' :: rest)

theorem layout0_head (c : Char) (rest : List Char) (h : Layout0 (c :: rest)) : LayoutStart c := by
  unfold LayoutStart
  cases h with
  | ws _ _ hc _ => rcases hc with h | h | h | h <;> simp [h]
  | comment body rest' _ _ => simp
  | lineComment body rest' _ _ => simp

theorem layout0_tail (sep more : List Char) (h : Layout0 sep) (hne : sep ≠ []) : TailOk (sep ++ more) := by
  cases sep with
  | nil => exact absurd rfl hne
  | cons c rest => exact TailOk.cons c _ (layout0_head c rest h)

theorem layout0_of_ws (sep : List Char) (h : ∀ c ∈ sep, c = ' ' ∨ c = '\t' ∨ c = '\r' ∨ c = '\n') : Layout0 sep := by
  induction sep with
  | nil => exact .nil
  | cons c rest ih => exact .ws c rest (h c (by simp)) (ih (fun y hy => h y (by simp [hy])))

theorem commentBody_append (body tail : List Char) : ∀ (st : Bool) (n : Nat),
    commentBody body st = some n → commentBody (body ++ tail) st = some n := by
  induction body with
  | nil => intro st n h; simp [commentBody] at h
  | cons c body ih =>
    intro st n h
    simp only [List.cons_append, commentBody] at h ⊢
    split at h
    · next hc =>
      rw [if_pos hc]
      cases hb : commentBody body true with
      | none => simp [hb] at h
      | some m => rw [ih true m hb]; rw [hb] at h; exact h
    · next hc =>
      rw [if_neg hc]
      split at h
      · next hs => rw [if_pos hs]; exact h
      · next hs =>
        rw [if_neg hs]
        cases hb : commentBody body false with
        | none => simp [hb] at h
        | some m => rw [ih false m hb]; rw [hb] at h; exact h

theorem lexAll_newline (w : List Char) : lexAll Gen.OalLex.cfg ('\n' :: w) = lexAll Gen.OalLex.cfg w := by
  have step : ∀ v, lexAll Gen.OalLex.cfg ('\n' :: v) =
      lexAll Gen.OalLex.cfg (v.drop (spanLen (fun c => c == '\n') v)) := by
    intro v
    have hrun : patNewline.run ('\n' :: v) = some (spanLen (fun c => c == '\n') v + 1) := by
      simp [patNewline, many1, Pat.run, Nat.add_comm]
    have hfm : firstMatch Gen.OalLex.cfg.rules ('\n' :: v) = some (R 37, spanLen (fun c => c == '\n') v + 1) := by
      show firstMatch Gen.OalLex.rules ('\n' :: v) = _
      rw [firstMatch_cands, show charClass '\n' = .other '\n' from by decide, cands_nl]
      simp [firstMatch, scan_R37, hrun]
    rw [lexAll_match _ '\n' v (R 37) _ (by decide) hfm, show (R 37).returnsTok = false from by decide]
    simp
  rw [step]
  induction w with
  | nil => rfl
  | cons c w ih =>
    by_cases hc : c = '\n'
    · subst hc
      simp only [spanLen, beq_self_eq_true, if_true, List.drop_succ_cons]
      rw [ih, step]; exact ih.symm
    · have : (c == '\n') = false := by simpa using hc
      simp [spanLen, this]

theorem lexAll_comment (body more : List Char) (h : commentBody body false = some body.length) :
    lexAll Gen.OalLex.cfg ('/' :: '*' :: body ++ more) = lexAll Gen.OalLex.cfg more := by
  have hsc : scanComment ('/' :: '*' :: (body ++ more)) = some (body.length + 2) := by
    simp [scanComment, commentBody_append body more false _ h]
  have hfm : firstMatch Gen.OalLex.cfg.rules ('/' :: ('*' :: (body ++ more))) = some (R 0, body.length + 2) := by
    show firstMatch Gen.OalLex.rules _ = _
    rw [firstMatch_cands, show charClass '/' = .other '/' from by decide, cands_slash]
    simp [firstMatch, scan_R0, hsc]
  rw [List.cons_append, List.cons_append, lexAll_match _ '/' _ (R 0) _ (by decide) hfm,
    show (R 0).returnsTok = false from by decide]
  simp

theorem lexAll_lineComment (body more : List Char) (h : ∀ y ∈ body, y ≠ '\n') :
    lexAll Gen.OalLex.cfg ('/' :: '/' :: body ++ '\n' :: more) = lexAll Gen.OalLex.cfg more := by
  have hspan : spanLen (fun c => !(c == '\n')) (body ++ '\n' :: more) = body.length :=
    spanLen_append_stop _ body '\n' more (fun y hy => by simp [h y hy]) (by decide)
  have hrun : patSlString.run ('/' :: '/' :: (body ++ '\n' :: more)) = some (body.length + 3) := by
    simp [patSlString, seqs, lit, Pat.run, hspan]; omega
  have hfm : firstMatch Gen.OalLex.cfg.rules ('/' :: ('/' :: (body ++ '\n' :: more))) = some (R 1, body.length + 3) := by
    show firstMatch Gen.OalLex.rules _ = _
    rw [firstMatch_cands, show charClass '/' = .other '/' from by decide, cands_slash]
    simp [firstMatch, scan_R0, scan_R1, scanComment, hrun]
  rw [List.cons_append, List.cons_append, lexAll_match _ '/' _ (R 1) _ (by decide) hfm,
    show (R 1).returnsTok = false from by decide]
  have : List.drop (body.length + 3) ('/' :: '/' :: (body ++ '\n' :: more)) = more := by
    rw [show body.length + 3 = (body.length + 1) + 1 + 1 from rfl, List.drop_succ_cons, List.drop_succ_cons,
      show body ++ '\n' :: more = (body ++ ['\n']) ++ more from by simp]
    have : (body ++ ['\n']).length = body.length + 1 := by simp
    rw [← this, List.drop_left]
  simp [this]

/-- a layout string produces no token and is consumed completely -/
theorem lexAll_skip (sep : List Char) (h : Layout0 sep) (more : List Char) :
    lexAll Gen.OalLex.cfg (sep ++ more) = lexAll Gen.OalLex.cfg more := by
  induction h with
  | nil => rfl
  | ws c rest hc _ ih =>
    rw [List.cons_append]
    rcases hc with rfl | rfl | rfl | rfl
    · rw [lexAll_ignore _ _ _ (by decide)]; exact ih
    · rw [lexAll_ignore _ _ _ (by decide)]; exact ih
    · rw [lexAll_ignore _ _ _ (by decide)]; exact ih
    · rw [lexAll_newline]; exact ih
  | comment body rest hb _ ih =>
    rw [show ('/' :: '*' :: body ++ rest) ++ more = '/' :: '*' :: body ++ (rest ++ more) from by simp,
      lexAll_comment body _ hb]
    exact ih
  | lineComment body rest hb _ ih =>
    rw [show ('/' :: '/' :: body ++ '\n' :: rest) ++ more = '/' :: '/' :: body ++ '\n' :: (rest ++ more) from by simp,
      lexAll_lineComment body _ hb]
    exact ih

/-! ## layout irrelevance -/

/-- the text of a list of (kind, lexeme, separator after it) -/
def render : List (List Char × List Char × List Char) → List Char
  | [] => []
  | (_, s, sep) :: rest => s ++ sep ++ render rest

/-- every lexeme is well-formed for its kind; every separator is a layout string, non-empty except after the
    last lexeme; a `/` token is not directly followed by a comment (`//` and `/*` start comments) -/
inductive ItemsOk : List (List Char × List Char × List Char) → Prop
  | nil : ItemsOk []
  | cons (k s sep : List Char) (rest : List (List Char × List Char × List Char)) :
      WellLexeme k s → Layout0 sep → (sep = [] → rest = []) → (s = ['/'] → ∀ r, sep ≠ '/' :: r) →
      ItemsOk rest → ItemsOk ((k, s, sep) :: rest)

theorem lexAll_items (items : List (List Char × List Char × List Char)) (h : ItemsOk items) :
    lexAll Gen.OalLex.cfg (render items) = items.map (fun i => (i.1, i.2.1)) := by
  induction h with
  | nil => rfl
  | cons k s sep rest hw hsep hne hdiv _ ih =>
    simp only [render, List.map_cons, List.append_assoc]
    have htail : TailOk (sep ++ render rest) := by
      by_cases he : sep = []
      · rw [he, hne he]; exact TailOk.nil
      · exact layout0_tail sep _ hsep he
    have hd : s = ['/'] → ∀ r, sep ++ render rest ≠ '/' :: r := by
      intro hs r
      by_cases he : sep = []
      · rw [he, hne he]; simp [render]
      · cases sep with
        | nil => exact absurd rfl he
        | cons c sep' =>
          intro heq
          simp only [List.cons_append, List.cons.injEq] at heq
          exact hdiv hs sep' (by rw [heq.1])
    rw [lexAll_tok k s hw _ htail hd, lexAll_skip sep hsep, ih]

/-- layout_irrelevant: well-formed lexemes separated by non-empty layout (blanks, tabs, CR, LF, block and line
    comments; layout before the first and after the last lexeme may be empty) are returned by the lexer of the
    generated rule table exactly, in order, with their kinds - no token is split, merged or swallowed -/
theorem layout_irrelevant (sep0 : List Char) (items : List (List Char × List Char × List Char))
    (h0 : Layout0 sep0) (h : ItemsOk items) :
    (lex (sep0 ++ render items)).map (fun t => (t.kind, t.lexeme)) = items.map (fun i => (i.1, i.2.1)) := by
  unfold lex
  rw [lexWith_kl, lexAll_skip sep0 h0, lexAll_items items h]

/-- the same for separators over white space only -/
theorem layout_irrelevant_ws (sep0 : List Char) (items : List (List Char × List Char × List Char))
    (h0 : ∀ c ∈ sep0, c = ' ' ∨ c = '\t' ∨ c = '\r' ∨ c = '\n')
    (h : ItemsOk items) :
    (lex (sep0 ++ render items)).map (fun t => (t.kind, t.lexeme)) = items.map (fun i => (i.1, i.2.1)) :=
  layout_irrelevant sep0 items (layout0_of_ws sep0 h0) h


/-! ## the fused unit `NS::` (the NAMESPACE rule is "a word immediately followed by `::`") -/

/-- a namespace word: `[0-9a-zA-Z_]+` -/
structure WellNs (n : List Char) : Prop where
  nonempty : n ≠ []
  word : ∀ y ∈ n, isWord y = true

theorem end_fails_ns (w0 : Char) (w : List Char) (s t : List Char) (hs : ∀ y ∈ s, isWord y = true) :
    (patEnd (w0 :: w)).run (s ++ ':' :: ':' :: t) = none := by
  cases hr : (patEnd (w0 :: w)).run (s ++ ':' :: ':' :: t) with
  | none => rfl
  | some n =>
    exfalso
    obtain ⟨a, b, c, y, rest, hu, ha, hb, hc, hy⟩ := end_needs w0 w _ n hr
    match s, hs, hu with
    | [], _, hu =>
      simp only [List.nil_append, List.cons.injEq] at hu
      rw [← hu.1] at ha; revert ha; decide
    | [s1], _, hu =>
      simp only [List.cons_append, List.nil_append, List.cons.injEq] at hu
      rw [← hu.2.1] at hb; revert hb; decide
    | [s1, s2], _, hu =>
      simp only [List.cons_append, List.nil_append, List.cons.injEq] at hu
      rw [← hu.2.2.1] at hc; revert hc; decide
    | [s1, s2, s3], _, hu =>
      simp only [List.cons_append, List.nil_append, List.cons.injEq] at hu
      rw [← hu.2.2.2.1] at hy; revert hy; decide
    | s1 :: s2 :: s3 :: s4 :: s', hs, hu =>
      simp only [List.cons_append, List.cons.injEq] at hu
      obtain ⟨_, _, _, rfl, _⟩ := hu
      have := isWord_not_space s4 (hs s4 (by simp))
      rw [this] at hy; simp at hy

theorem step_ns (n : List Char) (h : WellNs n) (t : List Char) :
    firstMatch Gen.OalLex.rules (n ++ ':' :: ':' :: t) = some (R 7, n.length) := by
  obtain ⟨hne, hw⟩ := h
  cases n with
  | nil => exact absurd rfl hne
  | cons x n' =>
    have hx := hw x (by simp)
    have hn' : ∀ y ∈ n', isWord y = true := fun y hy => hw y (by simp [hy])
    have hrun : patNamespace.run (x :: (n' ++ ':' :: ':' :: t)) = some (x :: n').length := by
      have hspan := spanLen_append_stop isWord n' ':' (':' :: t) hn' (by decide)
      simp [patNamespace, many1, Pat.run, hx, hspan, hasPrefix, Nat.add_comm]
    have hE := fun w0 w => end_fails_ns w0 w (x :: n') t hw
    rw [List.cons_append] at hE ⊢
    rw [firstMatch_cands]
    rcases charClass_word x hx with hc | hc | hc <;> rw [hc]
    · rw [cands_E]; simp [firstMatch, scan_R4, scan_R5, scan_R6, scan_R7, hE, hrun]
    · rw [cands_L]; simp [firstMatch, scan_R7, hrun]
    · rw [cands_D]; simp [firstMatch, scan_R7, hrun]

theorem lexAll_ns (n : List Char) (h : WellNs n) (t : List Char) (ht : TailOk t) :
    lexAll Gen.OalLex.cfg (n ++ ':' :: ':' :: t) =
      ((R 7).name, n) :: ((R 11).name, [':', ':']) :: lexAll Gen.OalLex.cfg t := by
  have hfm := step_ns n h t
  cases n with
  | nil => exact absurd rfl h.nonempty
  | cons x n' =>
    rw [List.cons_append] at hfm ⊢
    rw [lexAll_match _ x _ (R 7) _ (not_ignored isWord (by decide) x (h.word x (by simp))) hfm,
      show (R 7).returnsTok = true from by decide]
    simp only [if_true, ← List.cons_append, List.take_left', List.drop_left',
      kindOf_other (R 7) (by decide)]
    have := lexAll_tok (R 11).name [':', ':'] (WellLexeme.lit 11 (by decide) _ (by decide)) t ht (fun h => absurd h (by decide))
    rw [show ':' :: ':' :: t = [':', ':'] ++ t from rfl, this]

/-- a unit of text: one token, or the fused pair `NS::` -/
inductive Item where
  | tok (k s : List Char)
  | ns (n : List Char)

def Item.text : Item → List Char
  | .tok _ s => s
  | .ns n => n ++ [':', ':']

def Item.toks : Item → List (List Char × List Char)
  | .tok k s => [(k, s)]
  | .ns n => [((R 7).name, n), ((R 11).name, [':', ':'])]

def Item.Well : Item → Prop
  | .tok k s => WellLexeme k s
  | .ns n => WellNs n

def renderUnits : List (Item × List Char) → List Char
  | [] => []
  | (i, sep) :: rest => i.text ++ sep ++ renderUnits rest

inductive UnitsOk : List (Item × List Char) → Prop
  | nil : UnitsOk []
  | cons (i : Item) (sep : List Char) (rest : List (Item × List Char)) :
      i.Well → Layout0 sep → (sep = [] → rest = []) → (i.text = ['/'] → ∀ r, sep ≠ '/' :: r) →
      UnitsOk rest → UnitsOk ((i, sep) :: rest)

theorem lexAll_units (units : List (Item × List Char)) (h : UnitsOk units) :
    lexAll Gen.OalLex.cfg (renderUnits units) = (units.map (fun u => u.1.toks)).flatten := by
  induction h with
  | nil => rfl
  | cons i sep rest hw hsep hne hdiv _ ih =>
    simp only [renderUnits, List.map_cons, List.flatten_cons, List.append_assoc]
    have htail : TailOk (sep ++ renderUnits rest) := by
      by_cases he : sep = []
      · rw [he, hne he]; exact TailOk.nil
      · exact layout0_tail sep _ hsep he
    cases i with
    | tok k s =>
      have hd : s = ['/'] → ∀ r, sep ++ renderUnits rest ≠ '/' :: r := by
        intro hs r
        by_cases he : sep = []
        · rw [he, hne he]; simp [renderUnits]
        · cases sep with
          | nil => exact absurd rfl he
          | cons c sep' =>
            intro heq
            simp only [List.cons_append, List.cons.injEq] at heq
            exact hdiv hs sep' (by rw [heq.1])
      simp only [Item.text, Item.toks]
      rw [lexAll_tok k s hw _ htail hd, lexAll_skip sep hsep, ih]; rfl
    | ns n =>
      simp only [Item.text, Item.toks, List.append_assoc, List.cons_append, List.nil_append]
      rw [lexAll_ns n hw _ htail, lexAll_skip sep hsep, ih]; rfl

/-- layout_irrelevant with the fused unit `NS::` among the tokens -/
theorem layout_irrelevant_units (sep0 : List Char) (units : List (Item × List Char))
    (h0 : Layout0 sep0) (h : UnitsOk units) :
    (lex (sep0 ++ renderUnits units)).map (fun t => (t.kind, t.lexeme)) = (units.map (fun u => u.1.toks)).flatten := by
  unfold lex
  rw [lexWith_kl, lexAll_skip sep0 h0, lexAll_units units h]

/-! ## non-vacuity: a concrete text that meets the hypotheses -/

/-- `If 12/**/⇥LOG::x ;` with a blank, a comment + tab, nothing after `::`... each separator non-empty -/
def sampleUnits : List (Item × List Char) :=
  [(.tok (wordKind ['I', 'f']) ['I', 'f'], [' ']),
   (.tok (R 10).name ['1', '2'], ['/', '*', '*', '/', '\t']),
   (.ns ['L', 'O', 'G'], ['\n']),
   (.tok (wordKind ['x']) ['x'], [' ', '/', '/', 'c', '\n']),
   (.tok (R 17).name [';'], [])]

theorem sampleUnits_ok : UnitsOk sampleUnits := by
  refine .cons _ _ _ (WellLexeme.word _ ⟨⟨'I', ['f'], rfl, by decide, by decide⟩, by decide⟩)
    (.ws ' ' [] (Or.inl rfl) .nil) (by decide) (fun h => absurd h (by decide)) ?_
  refine .cons _ _ _ (WellLexeme.number _ ⟨by decide, by decide⟩)
    (.comment ['*', '/'] ['\t'] (by decide) (.ws '\t' [] (Or.inr (Or.inl rfl)) .nil)) (by decide) (fun h => absurd h (by decide)) ?_
  refine .cons _ _ _ (show Item.Well (.ns _) from ⟨by decide, by decide⟩)
    (.ws '\n' [] (Or.inr (Or.inr (Or.inr rfl))) .nil) (by decide) (fun h => absurd h (by decide)) ?_
  refine .cons _ _ _ (WellLexeme.word _ ⟨⟨'x', [], rfl, by decide, by decide⟩, by decide⟩)
    (.ws ' ' _ (Or.inl rfl) (.lineComment ['c'] [] (by decide) .nil)) (by decide) (fun h => absurd h (by decide)) ?_
  exact .cons _ _ _ (WellLexeme.lit 17 (by decide) _ (by decide)) .nil (by intro; rfl) (fun h => absurd h (by decide)) .nil

example : (lex "If 12/**/\tLOG::\nx //c\n;".toList).map (fun t => (String.ofList t.kind, String.ofList t.lexeme)) =
    [("IF", "If"), ("NUMBER", "12"), ("NAMESPACE", "LOG"), ("DOUBLECOLON", "::"), ("ID", "x"), ("SEMICOLON", ";")] := by
  have h := layout_irrelevant_units [] sampleUnits .nil sampleUnits_ok
  have ht : ([] : List Char) ++ renderUnits sampleUnits = "If 12/**/\tLOG::\nx //c\n;".toList := by decide
  rw [ht] at h
  have := congrArg (List.map fun p : List Char × List Char => (String.ofList p.1, String.ofList p.2)) h
  simp only [List.map_map] at this
  rw [show ((fun p : List Char × List Char => (String.ofList p.1, String.ofList p.2)) ∘
    fun t : Tok => (t.kind, t.lexeme)) = fun t => (String.ofList t.kind, String.ofList t.lexeme) from rfl] at this
  rw [this]; decide

end Pyx.OalLex
