import PyxModel.Query
import PyxModel.Reflexive
import Gen.QueryShape

/-!
  Source tie of the QUERY side (C09, C16, C11): a GENERIC interpreter of the first-order IR that
  translator/gen_queryshape.py extracts from xtuml/meta.py, and the lemmas showing that the models of
  PyxModel/Query.lean and PyxModel/Reflexive.lean equal that interpretation of the IR generated from the
  current source.  The interpreter is defined once, for ANY IR value; only the `…_eq` lemmas mention the
  generated constants.
-/
namespace Pyx.QShape
open Pyx.Meta Pyx.Query Pyx.Reflexive Pyx.Gen.QueryShape

def evalB {α : Type} (v : α → Bool) : BExp α → Bool
  | .atom a => v a
  | .and l r => evalB v l && evalB v r
  | .or l r => evalB v l || evalB v r
  | .not e => !(evalB v e)

/-! ### query operators -/

/-- the Python type of an operator value -/
inductive PyType where
  | whereEqual          -- WhereEqual (a dict subclass), what where_eq(...) returns
  | orderBy             -- OrderBy (a list subclass)
  | callable            -- a plain filter function
  deriving DecidableEq, Repr

def typeOf : QOp → PyType
  | .whereEq _ => .whereEqual
  | .orderBy _ _ => .orderBy
  | .pred _ => .callable

def testHolds : OpTest → PyType → Bool
  | .isWhereEqual, t => decide (t = .whereEqual)
  | .isOrderBy, t => decide (t = .orderBy)
  | .isDict, t => decide (t = .whereEqual)           -- WhereEqual is a dict

/-- the first test of the chain that holds decides, else the `else:` branch -/
def pickAct (dispatch : List (OpTest × OpAct)) (els : OpAct) (t : PyType) : OpAct :=
  ((dispatch.find? (fun d => testHolds d.1 t)).map (·.2)).getD els

/-- `WhereEqual.__call__`: for each instance in order, the inner loop over the items breaks on the first item whose
    comparison holds; the instance is yielded according to how the loop ended -/
def iWhere (ws : WhereShape) (val : Valuation) (pairs : List (String × Option Int)) (l : List Inst) : List Inst :=
  l.filter (fun x =>
    let broke := pairs.any (fun p => match ws.breakWhen with
      | .ne => !(val x p.1 == p.2)
      | .eq => val x p.1 == p.2)
    match ws.yieldWhen with
    | .completed => !broke
    | .broke => broke)

/-- `OrderBy.__call__`: a stable sort on the lexicographic key; the reverse flag, when it is passed to `sorted`,
    reverses the comparison INSIDE the stable sort (ties keep their order) -/
def iOrder (os : OrderShape) (val : Valuation) (attrs : List String) (rev : Bool) (l : List Inst) : List Inst :=
  if os.passesReverseFlag && rev then sortStable (fun a b => keyLt (keyOf val attrs b) (keyOf val attrs a)) l
  else sortStable (fun a b => keyLt (keyOf val attrs a) (keyOf val attrs b)) l

def iApplyOp (dispatch : List (OpTest × OpAct)) (els : OpAct) (ws : WhereShape) (os : OrderShape)
    (val : Valuation) (l : List Inst) (op : QOp) : List Inst :=
  match pickAct dispatch els (typeOf op), op with
  | .callOp, .whereEq pairs => iWhere ws val pairs l
  | .callOp, .orderBy attrs rev => iOrder os val attrs rev l
  | .wrapWhereEqual, .whereEq pairs => iWhere ws val pairs l
  | .filterWith, .pred p => l.filter (fun x => evalPred val x p)
  | _, _ => l                                       -- combinations the source never produces

def iApplyOps (dispatch : List (OpTest × OpAct)) (els : OpAct) (ws : WhereShape) (os : OrderShape)
    (val : Valuation) (l : List Inst) (ops : List QOp) : List Inst :=
  ops.foldl (iApplyOp dispatch els ws os val) l

/-- a set-valued result -/
def iMany : ResultForm → List Inst → List Inst
  | .querySet, l => dedupFirst l
  | .firstOrNone, l => l.head?.toList

/-- a single-valued result -/
def iOne : ResultForm → List Inst → Option Inst
  | .firstOrNone, l => l.head?
  | .querySet, l => (dedupFirst l).head?

/-! ### navigation -/

def iNavigate (skip : BExp AssocAtom) (sch : Schema) (s : State) (x : Inst) (toKind : Kind) (rel phrase : String) :
    Option (List Inst) :=
  let d := linkDict sch (s.kindOf x)
  match lookupKey d toKind rel phrase with
  | some e => some (followEntry s e x)
  | none =>
    match d.findSome? (fun l1 =>
        if !(evalB (fun a => match a with
            | .relDiffers => l1.rel != rel
            | .phraseDiffers => l1.phrase != phrase) skip) then
          (lookupKey (linkDict sch l1.toKind) toKind rel phrase).map (fun l2 => (l1, l2))
        else none) with
    | some (l1, l2) => some (unionAll ((followEntry s l1 x).map (followEntry s l2)))
    | none => none

/-- one `_nav` step: for each handle element in order, every result of the per-instance navigation is yielded
    (duplicates kept); an exception in any of them aborts -/
def iNavStep (inner : NavInner) (nav : Inst → Option (List Inst)) (l : List Inst) : Option (List Inst) :=
  match inner with
  | .yieldEach => l.foldl (fun acc x => match acc, nav x with
      | some a, some r => some (a ++ r)
      | _, _ => none) (some [])

def iNavSeq (inner : NavInner) (skip : BExp AssocAtom) (sch : Schema) (s : State) (h : List Inst) (steps : List Step) :
    Option (List Inst) :=
  steps.foldl (fun acc st => match acc with
    | some l => iNavStep inner (fun x => iNavigate skip sch s x st.toKind st.rel st.phrase) l
    | none => none) (some h)

def iNavSubtypeFrom (skip : BExp SubAtom) (nav : Kind → Option (List Inst)) (rel : String) :
    List LinkEntry → Option (Option Inst)
  | [] => some none
  | e :: rest =>
    if !(evalB (fun a => match a with | .relDiffers => e.rel != rel) skip) then
      match nav e.toKind with
      | none => none
      | some l =>
        match l.head? with
        | some y => some (some y)
        | none => iNavSubtypeFrom skip nav rel rest
    else iNavSubtypeFrom skip nav rel rest

/-! ### sort_reflexive -/

def navFn (across back : Inst → Option Inst) : PhraseSel → Inst → Option Inst
  | .given => across
  | .other => back

structure WState where
  inst : Option Inst
  out : List Inst
  broke : Bool

def iWStmt (across back : Inst → Option Inst) (set : List Inst) (first : Inst) (st : WState) : WStmt → WState
  | .yieldIfInSet =>
    match st.inst with
    | some x => if x ∈ set then { st with out := st.out ++ [x] } else st
    | none => st
  | .advance p => { st with inst := st.inst.bind (navFn across back p) }       -- navigate_one(None)…() is None
  | .breakIfIsFirst => if st.inst = some first then { st with broke := true } else st

/-- one pass through the body of `while inst:`; after a `break` the remaining statements are not executed -/
def iBody (body : List WStmt) (across back : Inst → Option Inst) (set : List Inst) (first cur : Inst) : WState :=
  body.foldl (fun st w => if st.broke then st else iWStmt across back set first st w) ⟨some cur, [], false⟩

def iWalk (body : List WStmt) (across back : Inst → Option Inst) (set : List Inst) (first : Inst) : Nat → Inst → List Inst
  | 0, _ => []
  | fuel + 1, cur =>
    let st := iBody body across back set first cur
    st.out ++ (if st.broke then [] else
      match st.inst with
      | some n => iWalk body across back set first fuel n
      | none => [])

def iFirsts (neg : Bool) (p : PhraseSel) (across back : Inst → Option Inst) (set : List Inst) : List Inst :=
  let fs := set.filter (fun x => if neg then !(navFn across back p x).isSome else (navFn across back p x).isSome)
  if fs.isEmpty then set.take 1 else fs

def iSort (neg : Bool) (p : PhraseSel) (body : List WStmt) (across back : Inst → Option Inst) (set : List Inst)
    (fuel : Nat) : List Inst :=
  dedupFirst ((iFirsts neg p across back set).flatMap (fun first => iWalk body across back set first fuel first))

/-- the other-phrase search: the first link of the class that none of the skip conditions rejects -/
def iOtherPhrase (skips : List (BExp OtherAtom)) (sch : Schema) (k : Kind) (rel phrase : String) : Option String :=
  ((linkDict sch k).find? (fun e => !(skips.any (evalB (fun a => match a with
      | .leadsElsewhere => e.toKind != k
      | .relDiffers => e.rel != rel
      | .phraseSame => e.phrase == phrase))))).map (·.phrase)

/-! ### the models equal the interpretation of the IR generated from the current source -/

theorem applyOp_eq (val : Valuation) (l : List Inst) (op : QOp) :
    applyOp val l op = iApplyOp opDispatch opElse whereShape orderShape val l op := by
  cases op with
  | whereEq pairs =>
    simp only [applyOp, iApplyOp, pickAct, opDispatch, typeOf, testHolds, List.find?_cons, decide_true,
      Option.map_some, Option.getD_some, iWhere, whereShape]
    apply List.filter_congr
    intro x _
    induction pairs with
    | nil => rfl
    | cons p ps ih => simp only [List.all_cons, List.any_cons, Bool.not_or, Bool.not_not, ih]
  | orderBy attrs rev =>
    cases rev <;> rfl
  | pred p => rfl

theorem applyOps_eq (val : Valuation) (l : List Inst) (ops : List QOp) :
    applyOps val l ops = iApplyOps opDispatch opElse whereShape orderShape val l ops := by
  unfold applyOps iApplyOps
  congr 1
  funext l' op
  exact applyOp_eq val l' op

theorem selectMany_eq (val : Valuation) (s : State) (k : Kind) (ops : List QOp) :
    selectMany val s k ops = iMany selectManyResult (iApplyOps opDispatch opElse whereShape orderShape val (s.pool k) ops) := by
  unfold selectMany; rw [applyOps_eq]; rfl

theorem selectOne_eq (val : Valuation) (s : State) (k : Kind) (ops : List QOp) :
    selectOne val s k ops = iOne selectOneResult (iApplyOps opDispatch opElse whereShape orderShape val (s.pool k) ops) := by
  unfold selectOne; rw [applyOps_eq]; rfl

theorem navigate_eq (sch : Schema) (s : State) (x : Inst) (toKind : Kind) (rel phrase : String) :
    navigate sch s x toKind rel phrase = iNavigate assocSkip sch s x toKind rel phrase := by
  unfold navigate iNavigate
  have hfun : (fun l1 : LinkEntry =>
        if (l1.rel == rel && l1.phrase == phrase) = true then
          (lookupKey (linkDict sch l1.toKind) toKind rel phrase).map (fun l2 => (l1, l2))
        else none) =
      (fun l1 : LinkEntry =>
        if (!(evalB (fun a => match a with
            | .relDiffers => l1.rel != rel
            | .phraseDiffers => l1.phrase != phrase) assocSkip)) = true then
          (lookupKey (linkDict sch l1.toKind) toKind rel phrase).map (fun l2 => (l1, l2))
        else none) := by
    funext l1
    have : (!(evalB (fun a => match a with
            | .relDiffers => l1.rel != rel
            | .phraseDiffers => l1.phrase != phrase) assocSkip)) = (l1.rel == rel && l1.phrase == phrase) := by
      simp only [assocSkip, evalB, bne, Bool.not_or, Bool.not_not]
    rw [this]
  simp only [hfun]
  rfl

theorem navStep_eq' (sch : Schema) (s : State) (l : List Inst) (st : Step) :
    navStep sch s l st = iNavStep navInner (fun x => iNavigate assocSkip sch s x st.toKind st.rel st.phrase) l := by
  unfold navStep iNavStep
  show List.foldl _ _ _ = List.foldl _ _ _
  congr 1
  funext acc x
  unfold navAcc
  rw [navigate_eq]
  rfl

theorem navSeq_eq (sch : Schema) (s : State) (h : List Inst) (steps : List Step) :
    navSeq sch s h steps = iNavSeq navInner assocSkip sch s h steps := by
  unfold navSeq iNavSeq
  congr 1
  funext acc st
  cases acc with
  | none => rfl
  | some l => exact navStep_eq' sch s l st

theorem navMany_eq (sch : Schema) (val : Valuation) (s : State) (h : List Inst) (steps : List Step) (ops : List QOp) :
    navMany sch val s h steps ops = (iNavSeq navInner assocSkip sch s h steps).map
      (fun l => iMany navManyResult (iApplyOps opDispatch opElse whereShape orderShape val l ops)) := by
  unfold navMany
  rw [navSeq_eq]
  congr 1
  funext l
  rw [applyOps_eq]; rfl

theorem navOne_eq (sch : Schema) (val : Valuation) (s : State) (h : List Inst) (steps : List Step) (ops : List QOp) :
    navOne sch val s h steps ops = (iNavSeq navInner assocSkip sch s h steps).map
      (fun l => iOne navOneResult (iApplyOps opDispatch opElse whereShape orderShape val l ops)) := by
  unfold navOne
  rw [navSeq_eq]
  congr 1
  funext l
  rw [applyOps_eq]; rfl

theorem navSubtypeFrom_eq (sch : Schema) (s : State) (x : Inst) (rel : String) : ∀ (d : List LinkEntry),
    navSubtypeFrom sch s x rel d =
      iNavSubtypeFrom subtypeSkip (fun k => iNavigate assocSkip sch s x k rel "") rel d
  | [] => rfl
  | e :: rest => by
    unfold navSubtypeFrom iNavSubtypeFrom
    rw [navSubtypeFrom_eq sch s x rel rest, navigate_eq]
    have : (!(evalB (fun a => match a with | .relDiffers => e.rel != rel) subtypeSkip)) = (e.rel == rel) := by
      simp only [subtypeSkip, evalB, bne, Bool.not_not]
    rw [this]
    rfl

theorem walk_eq (across back : Inst → Option Inst) (set : List Inst) (first : Inst) : ∀ (fuel : Nat) (x : Inst),
    walk back set first fuel x = iWalk walkBody across back set first fuel x
  | 0, _ => rfl
  | fuel + 1, x => by
    unfold walk iWalk
    cases hb : back x with
    | none => by_cases hx : x ∈ set <;> simp [iBody, walkBody, iWStmt, navFn, hx, hb]
    | some y =>
      by_cases hy : y = first
      · by_cases hx : x ∈ set <;> simp [iBody, walkBody, iWStmt, navFn, hx, hb, hy]
      · have ih := walk_eq across back set first fuel y
        by_cases hx : x ∈ set <;> simp [iBody, walkBody, iWStmt, navFn, hx, hb, hy, ih]

theorem firsts_eq (across back : Inst → Option Inst) (set : List Inst) :
    firsts across set = iFirsts firstFiltNegated firstFiltPhrase across back set := by
  unfold firsts iFirsts
  have : set.filter (fun x => (across x).isNone) =
      set.filter (fun x => if firstFiltNegated then !(navFn across back firstFiltPhrase x).isSome
        else (navFn across back firstFiltPhrase x).isSome) := by
    apply List.filter_congr
    intro x _
    simp only [firstFiltNegated, firstFiltPhrase, navFn, ↓reduceIte]
    cases across x <;> rfl
  simp only [this]

theorem sortReflexive_eq (across back : Inst → Option Inst) (set : List Inst) (fuel : Nat) :
    sortReflexive across back set fuel = iSort firstFiltNegated firstFiltPhrase walkBody across back set fuel := by
  unfold sortReflexive iSort
  rw [firsts_eq across back]
  congr 2
  funext first
  exact walk_eq across back set first fuel first

theorem otherPhrase_eq (sch : Schema) (k : Kind) (rel phrase : String) :
    otherPhrase sch k rel phrase = iOtherPhrase otherSkips sch k rel phrase := by
  unfold otherPhrase iOtherPhrase
  congr 2
  funext e
  simp only [otherSkips, List.any_cons, List.any_nil, evalB, Bool.or_false, bne, Bool.not_or, Bool.not_not]
  cases (e.toKind == k) <;> cases (e.rel == rel) <;> cases (e.phrase == phrase) <;> rfl

end Pyx.QShape
