import Proofs.SqlParser

set_option linter.unusedSimpArgs false

/-! token level: parsing the token list of printed items gives back their statements -/
namespace Pyx.Sql
open Gen.SqlLex (Rule Kw)
open Gen.Persist (Ty)

def cardToks (u : UC) (many cond : Bool) : List Tok :=
  match many, cond with
  | false, false => [⟨.NUMBER, ['1']⟩]
  | false, true => [⟨.CARDINALITY, ['1', 'C']⟩]
  | true, false => [wordTok u ['M']]
  | true, true => [wordTok u ['M', 'C']]

def phraseToks (phrase : Text) : List Tok :=
  if phrase.isEmpty then [] else [kwTok .PHRASE, ⟨.STRING, strText phrase⟩]

def endToks (u : UC) (e : EndM) : List Tok :=
  cardToks u e.many e.cond ++ wordTok u e.kind :: lparenTok ::
    (sepToks (e.keys.map fun n => [wordTok u n]) ++ rparenTok :: phraseToks e.phrase)

/-- text and tokens of the cells of one row -/
def rowCells (u : UC) : List (Name × Name) → List (Option Val) → Option (List (Text × List Tok))
  | [], _ => some []
  | _ :: _, [] => none
  | (_, ty) :: attrs, v :: vs =>
    match cellToks u ty v, rowCells u attrs vs with
    | some c, some cs => some (c :: cs)
    | _, _ => none

/-- the token list a printed item is lexed to -/
def Item.toks (u : UC) : Item → Option (List Tok)
  | .cls kind attrs =>
    some (kwTok .CREATE :: kwTok .TABLE :: wordTok u kind :: lparenTok ::
      (sepToks (attrs.map fun a => [wordTok u a.1, wordTok u (u.upper a.2)]) ++ [rparenTok, semiTok]))
  | .assoc rel s t =>
    some (kwTok .CREATE :: kwTok .ROP :: kwTok .REF_ID :: ⟨.RELID, rel⟩ :: kwTok .FROM ::
      (endToks u s ++ kwTok .TO :: (endToks u t ++ [semiTok])))
  | .inst kind attrs vals =>
    match rowCells u attrs vals with
    | some cells =>
      some (kwTok .INSERT :: kwTok .INTO :: wordTok u kind :: kwTok .VALUES :: lparenTok ::
        (sepToks (cells.map fun c => c.2) ++ [rparenTok, semiTok]))
    | none => none
  | .index name kind attrs =>
    some (kwTok .CREATE :: kwTok .UNIQUE :: kwTok .INDEX :: wordTok u name :: kwTok .ON :: wordTok u kind :: lparenTok ::
      (sepToks (attrs.map fun n => [wordTok u n]) ++ [rparenTok, semiTok]))

/-! ### cells -/

theorem cellToks_text (u : UC) (ty : Name) (v : Option Val) (c : Text × List Tok) (h : cellToks u ty v = some c) :
    cellText u ty v = some c.1 := by
  unfold cellToks at h
  unfold cellText
  split at h
  · simp at h
  · rename_i t ht
    rw [ht]
    simp only [printValue_eq]
    split at h
    · simp at h
    · rename_i x hx
      rw [hx]
      split at h
      · rename_i txt ts hf hv
        simp only [Option.some.injEq] at h; subst h
        simpa using hf
      · simp at h

theorem rowCells_texts (u : UC) : ∀ (attrs : List (Name × Name)) (vals : List (Option Val)) (cells : List (Text × List Tok)),
    rowCells u attrs vals = some cells → rowTexts u attrs vals = some (cells.map fun c => c.1) := by
  intro attrs
  induction attrs with
  | nil => intro vals cells h; simp [rowCells] at h; subst h; simp [rowTexts]
  | cons a attrs ih =>
    intro vals cells h
    cases vals with
    | nil => simp [rowCells] at h
    | cons v vs =>
      obtain ⟨nm, ty⟩ := a
      simp only [rowCells] at h
      split at h
      · rename_i c cs hc hcs
        simp only [Option.some.injEq] at h; subst h
        simp only [rowTexts, cellToks_text u ty v c hc, ih vs cs hcs, List.map_cons]
      · simp at h

theorem length_flatMap_cells_ge (cs : List (Text × List Tok)) (tail : List Tok) :
    cs.length ≤ ((cs.flatMap fun c => commaTok :: c.2) ++ tail).length :=
  length_flatMap_ge (fun c : Text × List Tok => c.2) cs tail

/-- the value sequence of a row reads back as the printed texts -/
theorem valueSeq_roundtrip (cells : List (Text × List Tok)) (hc : ∀ c ∈ cells, ∀ r, valueAt (c.2 ++ r) = some (c.1, r))
    (rest : List Tok) :
    seqP valueAt (sepToks (cells.map fun c => c.2) ++ rparenTok :: rest) = some (cells.map (fun c => c.1), rparenTok :: rest) := by
  cases cells with
  | nil =>
    simp only [List.map_nil, sepToks, List.nil_append, seqP, valueAt_rparen]
    exact seqTail_rparen valueAt _ rest
  | cons c cs =>
    have tail : ∀ (cs : List (Text × List Tok)) (fuel : Nat), (∀ c ∈ cs, ∀ r, valueAt (c.2 ++ r) = some (c.1, r)) →
        cs.length ≤ fuel →
        seqTail valueAt fuel ((cs.flatMap fun c => commaTok :: c.2) ++ rparenTok :: rest) =
          some (cs.map (fun c => c.1), rparenTok :: rest) := by
      intro cs
      induction cs with
      | nil => intro fuel _ _; exact seqTail_rparen valueAt fuel rest
      | cons d ds ih =>
        intro fuel hd hf
        cases fuel with
        | zero => simp at hf
        | succ f =>
          simp only [List.flatMap_cons, List.cons_append, List.append_assoc]
          rw [seqTail.eq_def]
          simp only [show commaTok.kind = Kind.COMMA from rfl, if_true, hd d (by simp),
            ih f (fun c hc => hd c (by simp [hc])) (by simpa using hf), List.map_cons]
    have e := sepToks_cons (fun c : Text × List Tok => c.2) c cs
    rw [e, List.append_assoc, seqP, hc c (by simp)]
    simp only [tail cs _ (fun c' hc' => hc c' (by simp [hc'])) (length_flatMap_cells_ge cs _), List.map_cons]

/-! ### association ends -/

theorem mkTok_M (u : UC) : wordTok u ['M'] = ⟨.ID, ['M']⟩ := by
  simp [wordTok, mkTok, Rule.retypesReserved, kwOf, UC.upper, UC.up, asciiUpper, isAsciiLower, ruleKind, Kw.all, Kw.chars]

theorem mkTok_MC (u : UC) : wordTok u ['M', 'C'] = ⟨.ID, ['M', 'C']⟩ := by
  simp [wordTok, mkTok, Rule.retypesReserved, kwOf, UC.upper, UC.up, asciiUpper, isAsciiLower, ruleKind, Kw.all, Kw.chars]

theorem cardAt_cardToks (u : UC) (many cond : Bool) (r : List Tok) :
    cardAt (cardToks u many cond ++ r) = some (cardText many cond, r) := by
  cases many <;> cases cond <;> simp [cardToks, cardAt, cardText, mkTok_M, mkTok_MC]

theorem stripEnds_phrase (p : Text) : unescapeQ (stripEnds (strText p)) = p := by
  rw [strText, stripEnds_quoted, unescapeQ_escapeQ]

/-- an association end followed by `TO` or `;` -/
theorem endAt_roundtrip (u : UC) (e : EndM) (next : Tok) (rest : List Tok)
    (hnext : next.kind ≠ .kw .PHRASE) :
    endAt (endToks u e ++ next :: rest) = some (⟨e.kind, cardText e.many e.cond, e.keys, e.phrase⟩, next :: rest) := by
  unfold endAt endToks
  simp only [List.append_assoc, List.cons_append, cardAt_cardToks, Option.bind_eq_bind, Option.bind_some, identAt_word,
    expectK_lparen, identSeq_roundtrip u e.keys _, expectK_rparen]
  unfold phraseToks
  by_cases hp : e.phrase.isEmpty
  · have : e.phrase = [] := by simpa using hp
    simp only [hp, if_true, List.nil_append]
    split
    · rename_i t s r' heq
      simp only [List.cons.injEq] at heq
      exact absurd (by rw [heq.1]) hnext
    · rw [this]
  · simp only [hp, Bool.false_eq_true, if_false, List.cons_append, List.nil_append, kwTok]
    simp only [stripEnds_phrase]

/-! ### statements -/

theorem kwTok_kind (k : Kw) : (kwTok k).kind = .kw k := rfl

theorem pCreateTable_roundtrip (u : UC) (kind : Name) (attrs : List (Name × Name)) (rest : List Tok) :
    pCreateTable (kwTok .CREATE :: kwTok .TABLE :: wordTok u kind :: lparenTok ::
      (sepToks (attrs.map fun a => [wordTok u a.1, wordTok u (u.upper a.2)]) ++ [rparenTok, semiTok]) ++ rest) =
    some (.createTable kind (attrs.map fun a => (a.1, u.upper a.2)), rest) := by
  have hseq := attrSeq_roundtrip u (attrs.map fun a => (a.1, u.upper a.2)) (semiTok :: rest)
  simp only [List.map_map] at hseq
  unfold pCreateTable
  simp only [List.cons_append, List.append_assoc, List.nil_append, expectK_kw, Option.bind_eq_bind, Option.bind_some,
    identAt_word, expectK_lparen]
  rw [show (sepToks (attrs.map fun a => [wordTok u a.1, wordTok u (u.upper a.2)]) ++ (rparenTok :: semiTok :: rest)) =
      (sepToks (List.map ((fun a => [wordTok u a.1, wordTok u a.2]) ∘ fun a => (a.1, u.upper a.2)) attrs) ++
        rparenTok :: semiTok :: rest) from rfl, hseq]
  simp only [Option.bind_some, expectK_rparen, expectK_semi]

theorem pCreateIndex_roundtrip (u : UC) (name kind : Name) (attrs : List Name) (rest : List Tok) :
    pCreateIndex (kwTok .CREATE :: kwTok .UNIQUE :: kwTok .INDEX :: wordTok u name :: kwTok .ON :: wordTok u kind ::
      lparenTok :: (sepToks (attrs.map fun n => [wordTok u n]) ++ [rparenTok, semiTok]) ++ rest) =
    some (.createIndex kind name attrs, rest) := by
  unfold pCreateIndex
  simp only [List.cons_append, List.append_assoc, List.nil_append, expectK_kw, Option.bind_eq_bind, Option.bind_some,
    identAt_word, expectK_lparen, identSeq_roundtrip u attrs _, expectK_rparen, expectK_semi]

theorem pInsertOrdered_roundtrip (u : UC) (kind : Name) (cells : List (Text × List Tok))
    (hc : ∀ c ∈ cells, ∀ r, valueAt (c.2 ++ r) = some (c.1, r)) (rest : List Tok) :
    pInsertOrdered (kwTok .INSERT :: kwTok .INTO :: wordTok u kind :: kwTok .VALUES :: lparenTok ::
      (sepToks (cells.map fun c => c.2) ++ [rparenTok, semiTok]) ++ rest) =
    some (.insert kind (cells.map fun c => c.1) none, rest) := by
  unfold pInsertOrdered
  simp only [List.cons_append, List.append_assoc, List.nil_append, expectK_kw, Option.bind_eq_bind, Option.bind_some,
    identAt_word, expectK_lparen, valueSeq_roundtrip cells hc _, expectK_rparen, expectK_semi]

theorem pCreateRop_roundtrip (u : UC) (rel : Name) (s t : EndM) (rest : List Tok) :
    pCreateRop (kwTok .CREATE :: kwTok .ROP :: kwTok .REF_ID :: ⟨.RELID, rel⟩ :: kwTok .FROM ::
      (endToks u s ++ kwTok .TO :: (endToks u t ++ [semiTok])) ++ rest) =
    some (.createRop rel s.kind (cardText s.many s.cond) s.keys s.phrase t.kind (cardText t.many t.cond) t.keys t.phrase, rest) := by
  unfold pCreateRop
  have e1 := endAt_roundtrip u s (kwTok .TO) (endToks u t ++ semiTok :: rest) (by simp [kwTok])
  have e2 := endAt_roundtrip u t semiTok rest (by simp [semiTok])
  simp only [List.cons_append, List.append_assoc, List.nil_append, expectK_kw, Option.bind_eq_bind, Option.bind_some,
    relidAt, if_true, e1, e2, expectK_semi]

theorem rowCells_length (u : UC) : ∀ (attrs : List (Name × Name)) (vals : List (Option Val)) (cells : List (Text × List Tok)),
    rowCells u attrs vals = some cells → cells.length = attrs.length := by
  intro attrs
  induction attrs with
  | nil => intro vals cells h; simp [rowCells] at h; subst h; rfl
  | cons a attrs ih =>
    intro vals cells h
    cases vals with
    | nil => simp [rowCells] at h
    | cons v vs =>
      obtain ⟨nm, ty⟩ := a
      simp only [rowCells] at h
      split at h
      · rename_i c cs hc hcs
        simp only [Option.some.injEq] at h; subst h
        simp [ih vs cs hcs]
      · simp at h

theorem rowCells_valueAt (u : UC) : ∀ (attrs : List (Name × Name)) (vals : List (Option Val)) (cells : List (Text × List Tok)),
    rowCells u attrs vals = some cells → ∀ c ∈ cells, ∀ r, valueAt (c.2 ++ r) = some (c.1, r) := by
  intro attrs
  induction attrs with
  | nil => intro vals cells h; simp [rowCells] at h; subst h; simp
  | cons a attrs ih =>
    intro vals cells h
    cases vals with
    | nil => simp [rowCells] at h
    | cons v vs =>
      obtain ⟨nm, ty⟩ := a
      simp only [rowCells] at h
      split at h
      · rename_i c cs hc hcs
        simp only [Option.some.injEq] at h; subst h
        intro c' hc' r
        simp only [List.mem_cons] at hc'
        rcases hc' with rfl | hc'
        · exact cellToks_valueAt u ty v c'.1 c'.2 hc r
        · exact ih vs cs hcs c' hc' r
      · simp at h

/-- parsing the tokens of one printed item (followed by anything) gives back its statement -/
theorem stmtAt_item (u : UC) (it : Item) (toks : List Tok) (rest : List Tok)
    (ht : it.toks u = some toks) :
    ∃ st, it.stmt u = some st ∧ stmtAt (toks ++ rest) = some (st, rest) := by
  cases it with
  | cls kind attrs =>
    simp only [Item.toks, Option.some.injEq] at ht; subst ht
    refine ⟨_, rfl, ?_⟩
    simp only [stmtAt, pCreateTable_roundtrip u kind attrs rest, Option.orElse_some]
  | assoc rel s t =>
    simp only [Item.toks, Option.some.injEq] at ht; subst ht
    refine ⟨_, rfl, ?_⟩
    have h1 : pCreateTable (kwTok .CREATE :: kwTok .ROP :: kwTok .REF_ID :: ⟨.RELID, rel⟩ :: kwTok .FROM ::
        (endToks u s ++ kwTok .TO :: (endToks u t ++ [semiTok])) ++ rest) = none := by
      simp [pCreateTable, expectK, kwTok]
    simp only [stmtAt, h1, Option.orElse_none, pCreateRop_roundtrip u rel s t rest, Option.orElse_some]
  | inst kind attrs vals =>
    simp only [Item.toks] at ht
    split at ht
    · rename_i cells hcells
      simp only [Option.some.injEq] at ht; subst ht
      refine ⟨.insert kind (cells.map fun c => c.1) none, by simp [Item.stmt, rowCells_texts u attrs vals cells hcells], ?_⟩
      have h1 : pCreateTable (kwTok .INSERT :: kwTok .INTO :: wordTok u kind :: kwTok .VALUES :: lparenTok ::
          (sepToks (cells.map fun c => c.2) ++ [rparenTok, semiTok]) ++ rest) = none := by
        simp [pCreateTable, expectK, kwTok]
      have h2 : pCreateRop (kwTok .INSERT :: kwTok .INTO :: wordTok u kind :: kwTok .VALUES :: lparenTok ::
          (sepToks (cells.map fun c => c.2) ++ [rparenTok, semiTok]) ++ rest) = none := by
        simp [pCreateRop, expectK, kwTok]
      have h3 : pCreateIndex (kwTok .INSERT :: kwTok .INTO :: wordTok u kind :: kwTok .VALUES :: lparenTok ::
          (sepToks (cells.map fun c => c.2) ++ [rparenTok, semiTok]) ++ rest) = none := by
        simp [pCreateIndex, expectK, kwTok]
      simp only [stmtAt, h1, h2, h3, Option.orElse_none,
        pInsertOrdered_roundtrip u kind cells (rowCells_valueAt u attrs vals cells hcells) rest, Option.orElse_some]
    · simp at ht
  | index name kind attrs =>
    simp only [Item.toks, Option.some.injEq] at ht; subst ht
    refine ⟨_, rfl, ?_⟩
    have h1 : pCreateTable (kwTok .CREATE :: kwTok .UNIQUE :: kwTok .INDEX :: wordTok u name :: kwTok .ON :: wordTok u kind ::
        lparenTok :: (sepToks (attrs.map fun n => [wordTok u n]) ++ [rparenTok, semiTok]) ++ rest) = none := by
      simp [pCreateTable, expectK, kwTok]
    have h2 : pCreateRop (kwTok .CREATE :: kwTok .UNIQUE :: kwTok .INDEX :: wordTok u name :: kwTok .ON :: wordTok u kind ::
        lparenTok :: (sepToks (attrs.map fun n => [wordTok u n]) ++ [rparenTok, semiTok]) ++ rest) = none := by
      simp [pCreateRop, expectK, kwTok]
    simp only [stmtAt, h1, h2, Option.orElse_none, pCreateIndex_roundtrip u name kind attrs rest, Option.orElse_some]

/-- token list and statement list of a list of items -/
def itemsToks (u : UC) : List Item → Option (List Tok)
  | [] => some []
  | it :: rest =>
    match it.toks u, itemsToks u rest with
    | some a, some b => some (a ++ b)
    | _, _ => none

def itemsStmts (u : UC) : List Item → Option (List Stmt)
  | [] => some []
  | it :: rest =>
    match it.stmt u, itemsStmts u rest with
    | some a, some b => some (a :: b)
    | _, _ => none

theorem Item.toks_ne_nil (u : UC) (it : Item) (toks : List Tok) (h : it.toks u = some toks) : toks ≠ [] := by
  cases it <;> simp only [Item.toks] at h
  · simp only [Option.some.injEq] at h; subst h; simp
  · simp only [Option.some.injEq] at h; subst h; simp
  · split at h
    · simp only [Option.some.injEq] at h; subst h; simp
    · simp at h
  · simp only [Option.some.injEq] at h; subst h; simp

/-- TOKEN LEVEL ROUND TRIP: for every list of items, parsing the tokens of the printed items gives exactly
    their statements (any fuel that covers the number of items) -/
theorem parseFuel_items (u : UC) : ∀ (items : List Item) (toks : List Tok) (fuel : Nat),
    itemsToks u items = some toks → items.length ≤ fuel →
    ∃ stmts, itemsStmts u items = some stmts ∧ parseFuel fuel toks = some stmts := by
  intro items
  induction items with
  | nil =>
    intro toks fuel h _
    simp only [itemsToks, Option.some.injEq] at h; subst h
    exact ⟨[], rfl, by cases fuel <;> rfl⟩
  | cons it items ih =>
    intro toks fuel h hf
    simp only [itemsToks] at h
    split at h
    · rename_i a b ha hb
      simp only [Option.some.injEq] at h; subst h
      obtain ⟨st, hst, hparse⟩ := stmtAt_item u it a b ha
      cases fuel with
      | zero => simp at hf
      | succ f =>
        obtain ⟨stmts, hss, hp⟩ := ih b f hb (by simpa using hf)
        refine ⟨st :: stmts, by simp [itemsStmts, hst, hss], ?_⟩
        have hne := Item.toks_ne_nil u it a ha
        cases a with
        | nil => exact absurd rfl hne
        | cons t r =>
          simp only [List.cons_append] at hparse ⊢
          simp only [parseFuel, hparse, hp]
    · simp at h

theorem itemsToks_length (u : UC) : ∀ (items : List Item) (toks : List Tok), itemsToks u items = some toks →
    items.length ≤ toks.length := by
  intro items
  induction items with
  | nil => intro toks _; simp
  | cons it items ih =>
    intro toks h
    simp only [itemsToks] at h
    split at h
    · rename_i a b ha hb
      simp only [Option.some.injEq] at h; subst h
      have h1 := ih b hb
      have h2 : 0 < a.length := List.length_pos_iff.mpr (Item.toks_ne_nil u it a ha)
      simp only [List.length_cons, List.length_append]; omega
    · simp at h

/-- `parse` of the tokens of printed items -/
theorem parse_items (u : UC) (items : List Item) (toks : List Tok) (h : itemsToks u items = some toks) :
    ∃ stmts, itemsStmts u items = some stmts ∧ parse toks = some stmts :=
  parseFuel_items u items toks toks.length h (itemsToks_length u items toks h)

end Pyx.Sql
