import Proofs.ExtractEdits

/-!
  C14 — reordering and retyping attributes commute with extraction.
-/

namespace Pyx.Extract

/-! ### lookups by a key that occurs once do not depend on the order of the rows -/

theorem find?_perm_of_nodup_key {α : Type} (key : α → Nat) {l l' : List α} (hp : l.Perm l')
    (nd : (l.map key).Nodup) (i : Nat) :
    l.find? (fun y => key y == i) = l'.find? (fun y => key y == i) := by
  have nd' : (l'.map key).Nodup := (hp.map key).nodup_iff.mp nd
  cases h : l.find? (fun y => key y == i) with
  | some x =>
    have hx := List.mem_of_find?_eq_some h
    have hk : key x = i := by have := List.find?_some h; simpa using this
    have := find?_key_of_mem key nd' (hp.mem_iff.mp hx)
    rw [hk] at this
    exact this.symm
  | none =>
    symm
    apply List.find?_eq_none.mpr
    intro x hx
    exact List.find?_eq_none.mp h x (hp.mem_iff.mpr hx)

theorem filterMap_findAttr_ids {k : Class} (nd : (k.attrs.map (·.id)).Nodup) :
    (k.attrs.map (·.id)).filterMap k.findAttr = k.attrs := by
  rw [List.filterMap_map]
  have : ∀ x ∈ k.attrs, (k.findAttr ∘ fun (y : Attr) => y.id) x = some x := by
    intro x hx; exact findAttr_of_mem nd hx
  rw [filterMap_congr' this]
  simp

theorem reorder_perm {k : Class} (nd : (k.attrs.map (·.id)).Nodup) {perm : List Nat}
    (hp : perm.Perm (k.attrs.map (·.id))) : (perm.filterMap k.findAttr).Perm k.attrs := by
  have := hp.filterMap k.findAttr
  rw [filterMap_findAttr_ids nd] at this
  exact this

theorem reorder_findAttr {k : Class} (nd : (k.attrs.map (·.id)).Nodup) {perm : List Nat}
    (hp : perm.Perm (k.attrs.map (·.id))) (i : Nat) :
    ({ k with attrs := perm.filterMap k.findAttr } : Class).findAttr i = k.findAttr i := by
  unfold Class.findAttr
  have hperm := reorder_perm nd hp
  have nd' : ((perm.filterMap k.findAttr).map (fun (y : Attr) => y.id)).Nodup :=
    (hperm.map _).nodup_iff.mpr nd
  exact find?_perm_of_nodup_key (fun (y : Attr) => y.id) hperm nd' i

/-- in a list with pairwise different names, looking a kept attribute up by name finds it -/
theorem find_by_name {f : Attr → Option SAttr} (hf : ∀ y s, f y = some s → s.name = y.name)
    {l : List Attr} (nd : (l.map (·.name)).Nodup) {x : Attr} (hx : x ∈ l) :
    (l.filterMap f).find? (fun s => s.name == x.name) = f x := by
  induction l with
  | nil => cases hx
  | cons a t ih =>
    simp only [List.map_cons, List.nodup_cons] at nd
    rcases List.mem_cons.mp hx with rfl | hxt
    · cases hfa : f x with
      | some s =>
        simp only [List.filterMap_cons, hfa, List.find?_cons]
        simp [hf x s hfa]
      | none =>
        simp only [List.filterMap_cons, hfa]
        apply List.find?_eq_none.mpr
        intro s hs
        obtain ⟨y, hy, hys⟩ := List.mem_filterMap.mp hs
        have : y.name ≠ x.name := fun he => nd.1 (he ▸ List.mem_map_of_mem hy)
        simp [hf y s hys, this]
    · have hne : a.name ≠ x.name := fun he => nd.1 (he ▸ List.mem_map_of_mem hxt)
      cases hfa : f a with
      | some s =>
        simp only [List.filterMap_cons, hfa, List.find?_cons]
        have : (s.name == x.name) = false := by simp [hf a s hfa, hne]
        rw [this]
        exact ih nd.2 hxt
      | none =>
        simp only [List.filterMap_cons, hfa]
        exact ih nd.2 hxt

theorem identOf_congr {drv : Bool} {k k' : Class} (hf : ∀ i, k'.findAttr i = k.findAttr i) :
    identOf drv k' = identOf drv k := by
  funext i
  unfold identOf
  have : k'.findAttr = k.findAttr := funext hf
  rw [this]

/-! ### reorder -/

section reorder
variable {d : ClassDiagram} (wf : WF d) {c : Nat} {perm : List Nat} {kc : Class}
  (hc : findClass d c = some kc) (hp : perm.Perm (kc.attrs.map (·.id)))

def roG (c : Nat) (perm : List Nat) (k : Class) : Class :=
  if k.id == c then { k with attrs := perm.filterMap k.findAttr } else k

theorem roG_keepsId : KeepsId (roG c perm) := by
  intro k; unfold roG; split <;> rfl

theorem roG_kl (k : Class) : (roG c perm k).kl = k.kl := by unfold roG; split <;> rfl
theorem roG_idents (k : Class) : (roG c perm k).idents = k.idents := by unfold roG; split <;> rfl

include wf hc hp in
theorem roG_findAttr {k : Class} (hk : k ∈ d.classes) (i : Nat) : (roG c perm k).findAttr i = k.findAttr i := by
  unfold roG
  by_cases h : k.id = c
  · have hkk : k = kc := wf.id_inj hk (findClass_mem hc) (by rw [h, findClass_id hc])
    subst hkk
    simp only [h, beq_self_eq_true, if_true]
    exact reorder_findAttr (wf.attrIds k hk) hp i
  · simp [h]

include wf hc hp in
theorem ro_attrTy (x : Attr) :
    attrTy { d with classes := d.classes.map (roG c perm) } x = attrTy d x :=
  attrTy_congr rfl rfl (attrKindAt_map roG_keepsId (fun k hk b => by rw [roG_findAttr wf hc hp hk]))

include wf hc hp in
theorem ro_groupOf (r : Rel) :
    groupOf { d with classes := d.classes.map (roG c perm) } r = groupOf d r :=
  groupOf_map_same roG_keepsId
    (fun k hk ids m cd ph => mkEnd_congr (roG_kl k) (fun i => by rw [roG_findAttr wf hc hp hk]) ids m cd ph) r

include wf hc hp in
theorem ro_classOf {drv : Bool} {k : Class} (hk : k ∈ d.classes) :
    classOf { d with classes := d.classes.map (roG c perm) } drv (roG c perm k) =
      (fun (s : SClass) => if s.kl == kc.kl then
          s.reorder (perm.filterMap (fun i => (kc.findAttr i).map (fun x => x.name))) else s)
        (classOf d drv k) := by
  have hkl : (classOf d drv k).kl = k.kl := rfl
  simp only [hkl]
  rw [← id_eq_iff_kl_eq wf hc hk]
  have hio : identOf drv (roG c perm k) = identOf drv k := identOf_congr (roG_findAttr wf hc hp hk)
  by_cases h : k.id = c
  · have hkk : k = kc := wf.id_inj hk (findClass_mem hc) (by rw [h, findClass_id hc])
    subst hkk
    simp only [h, beq_self_eq_true, if_true]
    unfold classOf SClass.reorder
    rw [hio, roG_kl, roG_idents]
    simp only [SClass.mk.injEq, true_and, and_true]
    have hat : (roG c perm k).attrs = perm.filterMap k.findAttr := by unfold roG; simp [h]
    rw [hat, List.filterMap_filterMap, List.filterMap_filterMap]
    apply filterMap_congr'
    intro i _
    cases hf : k.findAttr i with
    | none => rfl
    | some x =>
      simp only [Option.bind_some, Option.map_some]
      rw [find_by_name (fun y s hs => sattr_name hs) (wf.attrNames k hk) (findAttr_mem hf)]
      exact sattr_same (ro_attrTy wf hc hp x)
  · have hg : roG c perm k = k := by unfold roG; simp [h]
    have hne : (k.id == c) = false := by simp [h]
    rw [hg, hne]
    simp only [Bool.false_eq_true, if_false]
    exact classOf_congr rfl rfl rfl (ro_attrTy wf hc hp)

include wf in
theorem reorder_commutes (c : Nat) (perm : List Nat) (comp : Option Nat) (drv : Bool)
    (hperm : ∀ kc, findClass d c = some kc → perm.Perm (kc.attrs.map (·.id))) :
    extract (applyEdit (.reorderAttrs c perm) d) comp drv =
      schemaEdit (resolve d comp drv (.reorderAttrs c perm)) (extract d comp drv) := by
  simp only [resolve]
  cases hc : findClass d c with
  | none =>
    have : applyEdit (.reorderAttrs c perm) d = d := by
      unfold applyEdit
      exact mapClass_self (fun k hk he => absurd he (findClass_none_ne hc k hk))
    rw [this]; rfl
  | some kc =>
    dsimp only
    have hp := hperm kc hc
    have happ : applyEdit (.reorderAttrs c perm) d = { d with classes := d.classes.map (roG c perm) } := rfl
    rw [happ]
    unfold extract schemaEdit mapSClass
    simp only [Schema.mk.injEq]
    constructor
    · rw [List.filter_map, List.map_map, List.map_map]
      have hpar : ((fun (c_1 : Class) => inScope d.containers d.pkgrefs comp c_1.parent) ∘ roG c perm) =
          (fun (c_1 : Class) => inScope d.containers d.pkgrefs comp c_1.parent) := by
        funext k; simp only [Function.comp]; unfold roG; split <;> rfl
      rw [hpar]
      apply List.map_congr_left
      intro k hk
      exact ro_classOf wf hc hp (List.mem_filter.mp hk).1
    · rw [funext (ro_groupOf wf hc hp)]

end reorder
end Pyx.Extract

namespace Pyx.Extract

/-! ### retype -/

theorem retype_isDerived (x : Attr) (dt : Nat) :
    ({ x with kind := x.kind.retype dt } : Attr).isDerived = x.isDerived := by
  unfold Attr.isDerived AttrKind.retype
  cases x.kind <;> rfl

section retype
variable {d : ClassDiagram} (wf : WF d) {c a dt : Nat} {kc : Class} {xa : Attr} {ty : String}
  (hc : findClass d c = some kc) (ha : kc.findAttr a = some xa)

def rtH (a dt : Nat) (x : Attr) : Attr := if x.id == a then { x with kind := x.kind.retype dt } else x

def rtG (c a dt : Nat) (k : Class) : Class := if k.id == c then { k with attrs := k.attrs.map (rtH a dt) } else k

theorem rtH_id (x : Attr) : (rtH a dt x).id = x.id := by unfold rtH; split <;> rfl
theorem rtH_name (x : Attr) : (rtH a dt x).name = x.name := by unfold rtH; split <;> rfl
theorem rtH_isDerived (x : Attr) : (rtH a dt x).isDerived = x.isDerived := by
  unfold rtH; split
  · exact retype_isDerived x dt
  · rfl

theorem rtG_keepsId : KeepsId (rtG c a dt) := by intro k; unfold rtG; split <;> rfl
theorem rtG_kl (k : Class) : (rtG c a dt k).kl = k.kl := by unfold rtG; split <;> rfl
theorem rtG_idents (k : Class) : (rtG c a dt k).idents = k.idents := by unfold rtG; split <;> rfl

theorem rtG_findAttr (k : Class) (i : Nat) :
    (rtG c a dt k).findAttr i = (k.findAttr i).map (fun x => if k.id == c then rtH a dt x else x) := by
  unfold rtG
  by_cases h : (k.id == c) = true
  · simp only [h, if_true]
    exact findAttr_map rtH_id i
  · simp only [h]
    simp

theorem rt_mkEnd (k : Class) (ids : List Nat) (m cd : Bool) (ph : String) :
    mkEnd (rtG c a dt k) ids m cd ph = mkEnd k ids m cd ph := by
  apply mkEnd_congr (rtG_kl k)
  intro i
  rw [rtG_findAttr]
  cases k.findAttr i with
  | none => rfl
  | some x =>
    simp only [Option.map_some, Option.some.injEq]
    split
    · exact rtH_name x
    · rfl

theorem rt_identOf {drv : Bool} (k : Class) : identOf drv (rtG c a dt k) = identOf drv k := by
  funext i
  unfold identOf
  have has : i.attrs.filterMap (rtG c a dt k).findAttr =
      (i.attrs.filterMap k.findAttr).map (fun x => if k.id == c then rtH a dt x else x) := by
    rw [List.map_filterMap]
    apply filterMap_congr'
    intro j _
    exact rtG_findAttr k j
  simp only [has]
  have hd : ∀ x : Attr, (if k.id == c then rtH a dt x else x).isDerived = x.isDerived := by
    intro x; split
    · exact rtH_isDerived x
    · rfl
  have hn : ∀ x : Attr, (if k.id == c then rtH a dt x else x).name = x.name := by
    intro x; split
    · exact rtH_name x
    · rfl
  have hany : ((i.attrs.filterMap k.findAttr).map (fun x => if k.id == c then rtH a dt x else x)).any Attr.isDerived =
      (i.attrs.filterMap k.findAttr).any Attr.isDerived := by
    rw [List.any_map]
    congr 1
    funext x
    exact hd x
  rw [hany]
  simp only [List.isEmpty_map, List.map_map]
  have : ((fun (a : Attr) => a.name) ∘ fun x => if k.id == c then rtH a dt x else x) = fun (a : Attr) => a.name := by
    funext x; exact hn x
  rw [this]

/-- the attribute (class k, attribute x) gets the new type: the retyped attribute itself or a
    referential attribute based on it -/
def isSite (c a : Nat) (k : Class) (x : Attr) : Bool := (k.id == c && x.id == a) || x.kind == .ref c a

include wf hc ha in
theorem rt_attrKindAt (c' b : Nat) :
    attrKindAt { d with classes := d.classes.map (rtG c a dt) } c' b =
      if c' = c ∧ b = a then some (xa.kind.retype dt) else attrKindAt d c' b := by
  unfold attrKindAt
  rw [findClass_map rtG_keepsId]
  by_cases hcc : c' = c
  · subst hcc
    rw [hc]
    simp only [Option.map_some, Option.bind_some, true_and]
    rw [rtG_findAttr]
    have hid : (kc.id == c') = true := by simp [findClass_id hc]
    simp only [hid, if_true]
    by_cases hb : b = a
    · subst hb
      rw [ha]
      simp [rtH, findAttr_id ha]
    · simp only [hb, if_false]
      cases hf : kc.findAttr b with
      | none => rfl
      | some x =>
        have : x.id ≠ a := by rw [findAttr_id hf]; exact hb
        simp [rtH, this]
  · simp only [hcc, false_and, if_false]
    cases hf : findClass d c' with
    | none => rfl
    | some k =>
      have : (k.id == c) = false := by simp [findClass_id hf, hcc]
      simp only [Option.map_some, Option.bind_some]
      rw [rtG_findAttr]
      simp [this]

end retype
end Pyx.Extract

namespace Pyx.Extract

section retype
variable {d : ClassDiagram} (wf : WF d) {c a dt : Nat} {kc : Class} {xa : Attr} {ty : String}
  (hc : findClass d c = some kc) (ha : kc.findAttr a = some xa)
  (hnr : ∀ c' b, xa.kind ≠ .ref c' b) (hty : dtTypeName d.dts dt = some ty)

theorem attrKindAt_found (hc : findClass d c = some kc) (ha : kc.findAttr a = some xa) :
    attrKindAt d c a = some xa.kind := by
  unfold attrKindAt; rw [hc]; simp [ha]

include hc ha hnr in
/-- a referential attribute based on (c, a) has the type of (c, a) -/
theorem attrTy_dependent {x : Attr} (hx : x.kind = .ref c a) : attrTy d x = attrTy d xa := by
  unfold attrTy
  rw [attrDt_eq, attrDt_eq, hx]
  simp only [attrKindAt_found hc ha]
  cases hk : xa.kind with
  | base t => rfl
  | derived t => rfl
  | ref c' b => exact absurd hk (hnr c' b)

include wf hc ha hnr hty in
theorem rt_attrTy {k : Class} (hk : k ∈ d.classes) {x : Attr} (hx : x ∈ k.attrs) :
    attrTy { d with classes := d.classes.map (rtG c a dt) } (if k.id == c then rtH a dt x else x) =
      if isSite c a k x then some ty else attrTy d x := by
  have hkind : ∀ x' : Attr, attrTy { d with classes := d.classes.map (rtG c a dt) } x' =
      match x'.kind with
      | .base t => dtTypeName d.dts t
      | .derived t => dtTypeName d.dts t
      | .ref c' b => if c' = c ∧ b = a then some ty else attrTy d x' := by
    intro x'
    unfold attrTy
    rw [attrDt_eq, attrDt_eq]
    cases hk' : x'.kind with
    | base t => rfl
    | derived t => rfl
    | ref c' b =>
      simp only [rt_attrKindAt wf hc ha]
      by_cases hcb : c' = c ∧ b = a
      · simp only [hcb, and_self, if_true]
        cases hxk : xa.kind with
        | base t => simp [AttrKind.retype, hty]
        | derived t => simp [AttrKind.retype, hty]
        | ref c'' b' => exact absurd hxk (hnr c'' b')
      · simp only [hcb, if_false]
  by_cases h1 : k.id = c ∧ x.id = a
  · -- the retyped attribute itself
    have hkk : k = kc := wf.id_inj hk (findClass_mem hc) (by rw [h1.1, findClass_id hc])
    subst hkk
    have hxx : x = xa := eq_of_key_eq (fun (y : Attr) => y.id) (wf.attrIds k hk) hx (findAttr_mem ha)
      (by rw [h1.2, findAttr_id ha])
    subst hxx
    have hs : isSite c a k x = true := by simp [isSite, h1.1, h1.2]
    simp only [h1.1, beq_self_eq_true, if_true, hs]
    rw [hkind]
    simp only [rtH, h1.2, beq_self_eq_true, if_true]
    cases hxk : x.kind with
    | base t => simp [AttrKind.retype, hty]
    | derived t => simp [AttrKind.retype, hty]
    | ref c'' b' => exact absurd hxk (hnr c'' b')
  · -- any other attribute keeps its kind
    have hsame : (if k.id == c then rtH a dt x else x).kind = x.kind := by
      by_cases hkc : k.id = c
      · have : x.id ≠ a := fun he => h1 ⟨hkc, he⟩
        simp [hkc, rtH, this]
      · simp [hkc]
    have hfirst : (k.id == c && x.id == a) = false := by
      by_cases hkc : k.id = c
      · have : x.id ≠ a := fun he => h1 ⟨hkc, he⟩
        simp [this]
      · simp [hkc]
    rw [hkind, hsame]
    unfold isSite
    rw [hfirst, Bool.false_or]
    cases hxk : x.kind with
    | base t =>
      have : (AttrKind.base t == AttrKind.ref c a) = false := by simp
      simp only [this, Bool.false_eq_true, if_false]
      unfold attrTy; rw [attrDt_eq, hxk]; rfl
    | derived t =>
      have : (AttrKind.derived t == AttrKind.ref c a) = false := by simp
      simp only [this, Bool.false_eq_true, if_false]
      unfold attrTy; rw [attrDt_eq, hxk]; rfl
    | ref c' b =>
      by_cases hcb : c' = c ∧ b = a
      · simp [hcb]
      · have : (AttrKind.ref c' b == AttrKind.ref c a) = false := by
          simp only [beq_eq_false_iff_ne, ne_eq, AttrKind.ref.injEq]; exact hcb
        simp only [hcb, this, Bool.false_eq_true, if_false]
        have hk2 : x.kind = ({ x with kind := x.kind } : Attr).kind := rfl
        exact attrTy_congr (d := d) (d' := d) (a := x) (a' := if k.id == c then rtH a dt x else x) hsame rfl
          (fun _ _ => rfl) ▸ rfl

end retype
end Pyx.Extract

namespace Pyx.Extract

section retype
variable {d : ClassDiagram} (wf : WF d) {c a dt : Nat} {kc : Class} {xa : Attr} {ty : String}
  (hc : findClass d c = some kc) (ha : kc.findAttr a = some xa)
  (hnr : ∀ c' b, xa.kind ≠ .ref c' b) (hty : dtTypeName d.dts dt = some ty)
  (hold : (attrTy d xa).isSome = true)

include wf hc ha hnr hold in
theorem site_old_supported {k : Class} (hk : k ∈ d.classes) {x : Attr} (hx : x ∈ k.attrs)
    (hs : isSite c a k x = true) : (attrTy d x).isSome = true := by
  unfold isSite at hs
  rcases Bool.or_eq_true_iff.mp hs with h | h
  · have h' := Bool.and_eq_true_iff.mp h
    have h1 : k.id = c := by simpa using h'.1
    have h2 : x.id = a := by simpa using h'.2
    have hkk : k = kc := wf.id_inj hk (findClass_mem hc) (by rw [h1, findClass_id hc])
    subst hkk
    have hxx : x = xa := eq_of_key_eq (fun (y : Attr) => y.id) (wf.attrIds k hk) hx (findAttr_mem ha)
      (by rw [h2, findAttr_id ha])
    subst hxx
    exact hold
  · have : x.kind = .ref c a := by simpa using h
    rw [attrTy_dependent hc ha hnr this]
    exact hold

include wf hc ha in
theorem sites_contains {k : Class} (hk : k ∈ d.classes) {x : Attr} (hx : x ∈ k.attrs) :
    ((kc.kl, xa.name) :: dependents d c a).contains (k.kl, x.name) = isSite c a k x := by
  have hkc := findClass_mem hc
  have hxa := findAttr_mem ha
  by_cases hs : isSite c a k x = true
  · rw [hs]
    unfold isSite at hs
    rcases Bool.or_eq_true_iff.mp hs with h | h
    · have h' := Bool.and_eq_true_iff.mp h
      have h1 : k.id = c := by simpa using h'.1
      have h2 : x.id = a := by simpa using h'.2
      have hkk : k = kc := wf.id_inj hk hkc (by rw [h1, findClass_id hc])
      subst hkk
      have hxx : x = xa := eq_of_key_eq (fun (y : Attr) => y.id) (wf.attrIds k hk) hx hxa
        (by rw [h2, findAttr_id ha])
      subst hxx
      simp
    · have hkind : x.kind = .ref c a := by simpa using h
      simp only [List.contains_cons, Bool.or_eq_true]
      right
      simp only [List.contains_eq_mem, decide_eq_true_eq]
      unfold dependents
      apply List.mem_flatten.mpr
      refine ⟨_, List.mem_map.mpr ⟨k, hk, rfl⟩, ?_⟩
      apply List.mem_map.mpr
      exact ⟨x, List.mem_filter.mpr ⟨hx, by simp [hkind]⟩, rfl⟩
  · have hsf : isSite c a k x = false := by simpa using hs
    rw [hsf]
    apply Bool.eq_false_iff.mpr
    intro hcon
    apply hs
    simp only [List.contains_cons, Bool.or_eq_true] at hcon
    rcases hcon with h | h
    · have hpair : (k.kl, x.name) = (kc.kl, xa.name) := by simpa using h
      have h1 : k.kl = kc.kl := (Prod.mk.injEq .. ▸ hpair).1
      have h2 : x.name = xa.name := (Prod.mk.injEq .. ▸ hpair).2
      have hkk : k = kc := wf.kl_inj hk hkc h1
      subst hkk
      have hxx : x = xa := eq_of_key_eq (fun (y : Attr) => y.name) (wf.attrNames k hk) hx hxa h2
      subst hxx
      simp [isSite, findClass_id hc, findAttr_id ha]
    · simp only [List.contains_eq_mem, decide_eq_true_eq] at h
      unfold dependents at h
      obtain ⟨l, hl, hmem⟩ := List.mem_flatten.mp h
      obtain ⟨k', hk', rfl⟩ := List.mem_map.mp hl
      obtain ⟨x', hx', hpair⟩ := List.mem_map.mp hmem
      have hx'm := (List.mem_filter.mp hx').1
      have hx'k : x'.kind = .ref c a := by simpa using (List.mem_filter.mp hx').2
      have h1 : k'.kl = k.kl := (Prod.mk.injEq .. ▸ hpair).1
      have h2 : x'.name = x.name := (Prod.mk.injEq .. ▸ hpair).2
      have hkk : k' = k := wf.kl_inj hk' hk h1
      subst hkk
      have hxx : x' = x := eq_of_key_eq (fun (y : Attr) => y.name) (wf.attrNames k' hk') hx'm hx h2
      subst hxx
      simp [isSite, hx'k]

include wf hc ha hnr hty hold in
theorem rt_sattr {drv : Bool} {k : Class} (hk : k ∈ d.classes) {x : Attr} (hx : x ∈ k.attrs) :
    sattr { d with classes := d.classes.map (rtG c a dt) } drv (if k.id == c then rtH a dt x else x) =
      (sattr d drv x).map (fun s =>
        if ((kc.kl, xa.name) :: dependents d c a).contains (k.kl, s.name) then { s with ty := ty } else s) := by
  have hder : (if k.id == c then rtH a dt x else x).isDerived = x.isDerived := by
    split
    · exact rtH_isDerived x
    · rfl
  have hname : (if k.id == c then rtH a dt x else x).name = x.name := by
    split
    · exact rtH_name x
    · rfl
  unfold sattr
  rw [hder, rt_attrTy wf hc ha hnr hty hk hx, hname]
  by_cases hd : (!drv && x.isDerived) = true
  · simp [hd]
  · simp only [hd]
    by_cases hs : isSite c a k x = true
    · have hsup := site_old_supported wf hc ha hnr hold hk hx hs
      obtain ⟨old, hold'⟩ := Option.isSome_iff_exists.mp hsup
      have hsc := sites_contains wf hc ha hk hx
      simp only [hs, if_true, hold', Option.map_some, Bool.false_eq_true, if_false, hsc]
    · have hsf : isSite c a k x = false := by simpa using hs
      have hsc := sites_contains wf hc ha hk hx
      cases ht : attrTy d x with
      | none => simp [hsf]
      | some t => simp only [hsf, Bool.false_eq_true, if_false, Option.map_some, hsc]

include wf hc ha hnr hty hold in
theorem rt_classOf {drv : Bool} {k : Class} (hk : k ∈ d.classes) :
    classOf { d with classes := d.classes.map (rtG c a dt) } drv (rtG c a dt k) =
      SClass.retype ((kc.kl, xa.name) :: dependents d c a) ty (classOf d drv k) := by
  unfold classOf SClass.retype
  rw [rt_identOf, rtG_kl, rtG_idents]
  simp only [SClass.mk.injEq, true_and, and_true]
  have hat : (rtG c a dt k).attrs = k.attrs.map (fun x => if k.id == c then rtH a dt x else x) := by
    unfold rtG
    by_cases h : (k.id == c) = true
    · simp [h]
    · simp [h]
  rw [hat, List.filterMap_map, List.map_filterMap]
  apply filterMap_congr'
  intro x hx
  exact rt_sattr wf hc ha hnr hty hold hk hx

end retype

end Pyx.Extract

namespace Pyx.Extract

section retype
variable {d : ClassDiagram} (wf : WF d)

theorem retype_ref_self (x : Attr) (dt : Nat) {c' b : Nat} (h : x.kind = .ref c' b) :
    ({ x with kind := x.kind.retype dt } : Attr) = x := by
  cases x with
  | mk id name kind =>
    simp only at h
    subst h
    rfl

include wf in
theorem retype_commutes (c a dt : Nat) (comp : Option Nat) (drv : Bool)
    (hok : ∀ kc xa, findClass d c = some kc → kc.findAttr a = some xa → (∀ c' b, xa.kind ≠ .ref c' b) →
      (dtTypeName d.dts dt).isSome = true ∧ (attrTy d xa).isSome = true) :
    extract (applyEdit (.retypeAttr c a dt) d) comp drv =
      schemaEdit (resolve d comp drv (.retypeAttr c a dt)) (extract d comp drv) := by
  simp only [resolve]
  cases hc : findClass d c with
  | none =>
    have : applyEdit (.retypeAttr c a dt) d = d := by
      unfold applyEdit
      exact mapClass_self (fun k hk he => absurd he (findClass_none_ne hc k hk))
    rw [this]; rfl
  | some kc =>
    dsimp only
    cases ha : kc.findAttr a with
    | none =>
      have : applyEdit (.retypeAttr c a dt) d = d := by
        unfold applyEdit
        apply mapClass_self
        intro k hk he
        have hkk : k = kc := wf.id_inj hk (findClass_mem hc) (by rw [he, findClass_id hc])
        subst hkk
        exact mapAttr_self (findAttr_none_ne ha)
      rw [this]; rfl
    | some xa =>
      by_cases hnr : ∀ c' b, xa.kind ≠ .ref c' b
      · obtain ⟨h1, hold⟩ := hok kc xa hc ha hnr
        obtain ⟨ty, hty⟩ := Option.isSome_iff_exists.mp h1
        rw [hty]
        dsimp only
        have main : extract (applyEdit (.retypeAttr c a dt) d) comp drv =
            schemaEdit (SEdit.retype ((kc.kl, xa.name) :: dependents d c a) ty) (extract d comp drv) := by
          have happ : applyEdit (.retypeAttr c a dt) d = { d with classes := d.classes.map (rtG c a dt) } := rfl
          rw [happ]
          unfold extract schemaEdit
          simp only [Schema.mk.injEq]
          constructor
          · rw [List.filter_map, List.map_map, List.map_map]
            have hpar : ((fun (c_1 : Class) => inScope d.containers d.pkgrefs comp c_1.parent) ∘ rtG c a dt) =
                (fun (c_1 : Class) => inScope d.containers d.pkgrefs comp c_1.parent) := by
              funext k; simp only [Function.comp]; unfold rtG; split <;> rfl
            rw [hpar]
            apply List.map_congr_left
            intro k hk
            exact rt_classOf wf hc ha hnr hty hold (List.mem_filter.mp hk).1
          · have hgr : ∀ r, groupOf { d with classes := d.classes.map (rtG c a dt) } r = groupOf d r :=
              groupOf_map_same rtG_keepsId (fun k _ ids m cd ph => rt_mkEnd k ids m cd ph)
            rw [funext hgr]
        split
        · rename_i heq
          exact absurd heq (hnr _ _)
        · exact main
      · -- a referential attribute: nothing to retype
        have ⟨c', b, hk⟩ : ∃ c' b, xa.kind = .ref c' b := by
          cases hk : xa.kind with
          | base t => exact absurd (fun c' b => by simp [hk]) hnr
          | derived t => exact absurd (fun c' b => by simp [hk]) hnr
          | ref c' b => exact ⟨c', b, rfl⟩
        have : applyEdit (.retypeAttr c a dt) d = d := by
          unfold applyEdit
          apply mapClass_self
          intro k hk' he
          have hkk : k = kc := wf.id_inj hk' (findClass_mem hc) (by rw [he, findClass_id hc])
          subst hkk
          unfold Class.mapAttr
          have : k.attrs.map (fun x => if x.id == a then ({ x with kind := x.kind.retype dt } : Attr) else x) = k.attrs := by
            conv => rhs; rw [← List.map_id k.attrs]
            apply List.map_congr_left
            intro x hx
            by_cases hxa : x.id = a
            · have hxx : x = xa := eq_of_key_eq (fun (y : Attr) => y.id) (wf.attrIds k hk') hx (findAttr_mem ha)
                (by rw [hxa, findAttr_id ha])
              subst hxx
              have hb : (x.id == a) = true := by simp [hxa]
              simp only [hb, if_true, id]
              exact retype_ref_self x dt hk
            · simp [hxa]
          rw [this]
        rw [this]
        cases dtTypeName d.dts dt with
        | none => rfl
        | some ty =>
          dsimp only
          split
          · rfl
          · rename_i hne
            exact absurd hk (hne c' b)

end retype
end Pyx.Extract
