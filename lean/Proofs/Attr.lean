import PyxModel.Attr

/-! helper lemmas for C10: the attribute store behaves as one cell per case-folded declared name -/
namespace Pyx.Attr

/-! ### association-list dictionary -/

theorem dget_dset (d : Dict) (k n : Name) (v : Val) :
    dget (dset d k v) n = if n = k then some v else dget d n := by
  induction d with
  | nil =>
    by_cases h : n = k
    · subst h; simp [dset, dget]
    · have h' : ¬ k = n := fun e => h e.symm
      simp [dset, dget, h, h']
  | cons kv r ih =>
    obtain ⟨k0, w⟩ := kv
    by_cases h0 : k0 = k
    · subst h0
      by_cases h : n = k0
      · subst h; simp [dset, dget]
      · have h' : ¬ k0 = n := fun e => h e.symm
        simp [dset, dget, h, h']
    · by_cases h : n = k
      · subst h; simp [dset, dget, h0, ih]
      · simp only [dset, h0, ↓reduceIte, dget, ih, h]

theorem dget_ddel (d : Dict) (k n : Name) :
    dget (ddel d k) n = if n = k then none else dget d n := by
  induction d with
  | nil => simp [ddel, dget]
  | cons kv r ih =>
    obtain ⟨k0, w⟩ := kv
    unfold ddel at ih ⊢
    by_cases h0 : k0 = k
    · subst h0
      simp only [List.filter_cons, ne_eq, not_true_eq_false, decide_false, Bool.false_eq_true, ↓reduceIte, ih]
      by_cases h : n = k0
      · simp [h]
      · have h' : ¬ k0 = n := fun e => h e.symm
        simp [dget, h, h']
    · simp only [List.filter_cons, ne_eq, h0, not_false_eq_true, decide_true, ↓reduceIte, dget, ih]
      by_cases h : k0 = n
      · subst h; simp [h0]
      · simp [h]

theorem mem_keys_dset (d : Dict) (k n : Name) (v : Val) :
    n ∈ keys (dset d k v) ↔ n ∈ keys d ∨ n = k := by
  induction d with
  | nil => simp [dset, keys]
  | cons kv r ih =>
    obtain ⟨k0, w⟩ := kv
    unfold keys at ih ⊢
    by_cases h0 : k0 = k
    · subst h0
      simp only [dset, ↓reduceIte, List.map_cons, List.mem_cons]
      constructor
      · intro h; exact Or.inl h
      · rintro (h | h)
        · exact h
        · exact Or.inl h
    · simp only [dset, h0, ↓reduceIte, List.map_cons, List.mem_cons, ih]
      constructor
      · rintro (h | h | h) <;> simp [h]
      · rintro ((h | h) | h) <;> simp [h]

theorem mem_keys_ddel (d : Dict) (k n : Name) : n ∈ keys (ddel d k) ↔ n ∈ keys d ∧ n ≠ k := by
  unfold keys ddel
  simp only [List.mem_map, List.mem_filter, decide_eq_true_eq]
  constructor
  · rintro ⟨kv, ⟨hm, hne⟩, rfl⟩; exact ⟨⟨kv, hm, rfl⟩, hne⟩
  · rintro ⟨⟨kv, hm, rfl⟩, hne⟩; exact ⟨kv, ⟨hm, hne⟩, rfl⟩

theorem dget_none_iff (d : Dict) (n : Name) : dget d n = none ↔ n ∉ keys d := by
  induction d with
  | nil => simp [dget, keys]
  | cons kv r ih =>
    obtain ⟨k0, w⟩ := kv
    unfold keys at ih ⊢
    by_cases h : k0 = n
    · subst h; simp [dget]
    · have h' : ¬ n = k0 := fun e => h e.symm
      simp [dget, h, h', ih]

theorem dget_some_mem {d : Dict} {n : Name} {v : Val} (h : dget d n = some v) : n ∈ keys d := by
  apply Classical.byContradiction
  intro hn
  rw [(dget_none_iff d n).mpr hn] at h
  cases h

/-! ### well-formed class, good dictionary -/

/-- declared names are distinct after case folding; the referential names are declared names -/
def WF (c : Cls) : Prop := (c.names.map fold).Nodup ∧ ∀ r ∈ c.refs, r ∈ c.names

/-- `__dict__` holds no key that folds to a declared name other than that declared name itself, and no
    referential attribute is stored -/
def Good (c : Cls) (d : Dict) : Prop :=
  (∀ k ∈ keys d, ∀ a ∈ c.names, fold k = fold a → k = a) ∧ (∀ k ∈ keys d, k ∉ c.refs)

theorem inj_of_nodup_map {α β : Type} (f : α → β) : ∀ (l : List α), (l.map f).Nodup →
    ∀ x ∈ l, ∀ y ∈ l, f x = f y → x = y
  | [], _, _, hx, _, _, _ => by simp at hx
  | a :: l, hn, x, hx, y, hy, hf => by
    simp only [List.map_cons, List.nodup_cons, List.mem_map, not_exists, not_and] at hn
    simp only [List.mem_cons] at hx hy
    rcases hx with rfl | hx <;> rcases hy with rfl | hy
    · rfl
    · exact absurd hf.symm (hn.1 y hy)
    · exact absurd hf (hn.1 x hx)
    · exact inj_of_nodup_map f l hn.2 x hx y hy hf

theorem WF.inj {c : Cls} (hwf : WF c) {a b : Name} (ha : a ∈ c.names) (hb : b ∈ c.names)
    (h : fold a = fold b) : a = b :=
  inj_of_nodup_map fold c.names hwf.1 a ha b hb h

theorem declMatch_eq {c : Cls} (hwf : WF c) {a sp : Name} (ha : a ∈ c.names) (h : fold sp = fold a) :
    declMatch c sp = some a := by
  unfold declMatch
  cases hf : c.names.find? (fun x => decide (fold x = fold sp)) with
  | none =>
    have := List.find?_eq_none.mp hf a ha
    simp [h] at this
  | some x =>
    have hx := List.find?_some hf
    have hm := List.mem_of_find?_eq_some hf
    simp only [decide_eq_true_eq] at hx
    rw [hwf.inj hm ha (hx.trans h)]

def cellRead : Option Val → Read
  | some v => .val v
  | none => .attrError

/-- reading a non-referential declared attribute under any spelling reads the cell of its declared name -/
theorem getattr_plain {c : Cls} (hwf : WF c) {d : Dict} (hg : Good c d) {a sp : Name}
    (ha : a ∈ c.names) (hr : a ∉ c.refs) (h : fold sp = fold a) :
    getattr c d sp = cellRead (dget d a) := by
  have hsp : sp ∉ c.refs := by
    intro hs
    have := hwf.inj (hwf.2 sp hs) ha h
    exact hr (this ▸ hs)
  unfold getattr
  rw [if_neg hsp]
  cases hd : dget d sp with
  | some v =>
    have : sp = a := hg.1 sp (dget_some_mem hd) a ha h
    subst this
    rw [hd]; rfl
  | none =>
    simp only [declMatch_eq hwf ha h, hr, ↓reduceIte]
    cases hda : dget d a with
    | some v => rfl
    | none => rfl

theorem setattr_plain {c : Cls} (hwf : WF c) (d : Dict) {a sp : Name} (v : Val)
    (ha : a ∈ c.names) (hr : a ∉ c.refs) (h : fold sp = fold a) :
    setattr c d sp v = (dset d a v, .ok) := by
  unfold setattr
  simp only [declMatch_eq hwf ha h, hr, ↓reduceIte]

/-- writing a referential attribute under any spelling raises and leaves `__dict__` untouched -/
theorem setattr_ref {c : Cls} (hwf : WF c) {d : Dict} (hg : Good c d) {a sp : Name} (v : Val)
    (hr : a ∈ c.refs) (h : fold sp = fold a) :
    setattr c d sp v = (d, .metaExc) := by
  have ha : a ∈ c.names := hwf.2 a hr
  have _hnk : dget d a = none := (dget_none_iff d a).mpr (fun hk => hg.2 a hk hr)
  unfold setattr
  simp only [declMatch_eq hwf ha h, hr, ↓reduceIte]

/-- `__dict__` holds no key that folds to a declared name other than that declared name itself (the first half of
    `Good`): what an instance created BEFORE `formalize` still satisfies, although it stores the referential value -/
def NoStray (c : Cls) (d : Dict) : Prop := ∀ k ∈ keys d, ∀ a ∈ c.names, fold k = fold a → k = a

/-- a referential attribute is read through its property under EVERY spelling, whatever `__dict__` holds under the
    declared name -/
theorem getattr_ref_shadow {c : Cls} (hwf : WF c) {d : Dict} (hn : NoStray c d) {a sp : Name}
    (hr : a ∈ c.refs) (h : fold sp = fold a) : getattr c d sp = .prop a := by
  have ha : a ∈ c.names := hwf.2 a hr
  unfold getattr
  by_cases hsp : sp ∈ c.refs
  · rw [if_pos hsp, hwf.inj (hwf.2 sp hsp) ha h]
  · rw [if_neg hsp]
    cases hd : dget d sp with
    | some v =>
      exfalso
      have : sp = a := hn sp (dget_some_mem hd) a ha h
      exact hsp (this ▸ hr)
    | none => simp only [declMatch_eq hwf ha h, hr, ↓reduceIte]

/-- writing a referential attribute under any spelling raises and leaves `__dict__` untouched, whatever it holds -/
theorem setattr_ref_any {c : Cls} (hwf : WF c) (d : Dict) {a sp : Name} (v : Val)
    (hr : a ∈ c.refs) (h : fold sp = fold a) : setattr c d sp v = (d, .metaExc) := by
  unfold setattr
  simp only [declMatch_eq hwf (hwf.2 a hr) h, hr, ↓reduceIte]

theorem declMatch_some {c : Cls} {sp a : Name} (h : declMatch c sp = some a) : a ∈ c.names ∧ fold a = fold sp := by
  unfold declMatch at h
  have hx := List.find?_some h
  simp only [decide_eq_true_eq] at hx
  exact ⟨List.mem_of_find?_eq_some h, hx⟩

theorem declMatch_none {c : Cls} {sp : Name} (h : declMatch c sp = none) : ∀ a ∈ c.names, fold a ≠ fold sp := by
  intro a ha hf
  unfold declMatch at h
  have := List.find?_eq_none.mp h a ha
  simp [hf] at this

/-- a name that is no spelling of a declared attribute is stored under the given spelling -/
theorem setattr_undeclared (c : Cls) (d : Dict) {sp : Name} (v : Val) (h : declMatch c sp = none) :
    setattr c d sp v = (dset d sp v, .ok) := by
  unfold setattr; rw [h]

/-- deleting under any spelling of a non-referential attribute that holds a value removes exactly its key -/
theorem delattr_plain {c : Cls} {d : Dict} (hg : Good c d) {a sp : Name}
    (ha : a ∈ c.names) (h : fold sp = fold a) (hp : dget d a ≠ none) :
    delattr d sp = (ddel d a, .ok) := by
  unfold delattr
  have hk : a ∈ keys d := by
    apply Classical.byContradiction
    intro hn; exact hp ((dget_none_iff d a).mpr hn)
  cases hf : d.find? (fun kv => decide (fold kv.1 = fold sp)) with
  | none =>
    obtain ⟨kv, hm, hkv⟩ := List.mem_map.mp hk
    have := List.find?_eq_none.mp hf kv hm
    simp [hkv, h] at this
  | some kv =>
    have hx := List.find?_some hf
    have hm := List.mem_of_find?_eq_some hf
    simp only [decide_eq_true_eq] at hx
    show (ddel d kv.1, DelRes.ok) = (ddel d a, DelRes.ok)
    rw [hg.1 kv.1 (List.mem_map.mpr ⟨kv, hm, rfl⟩) a ha (hx.trans h)]

/-- deleting under any spelling of a declared attribute that holds no value (a referential attribute never
    does) raises AttributeError and leaves the dictionary untouched -/
theorem delattr_absent {c : Cls} {d : Dict} (hg : Good c d) {a sp : Name}
    (ha : a ∈ c.names) (h : fold sp = fold a) (hp : dget d a = none) :
    delattr d sp = (d, .attrError) := by
  unfold delattr
  cases hf : d.find? (fun kv => decide (fold kv.1 = fold sp)) with
  | none => rfl
  | some kv =>
    exfalso
    have hx := List.find?_some hf
    have hm := List.mem_of_find?_eq_some hf
    simp only [decide_eq_true_eq] at hx
    have hkey : kv.1 ∈ keys d := List.mem_map.mpr ⟨kv, hm, rfl⟩
    have : kv.1 = a := hg.1 kv.1 hkey a ha (hx.trans h)
    exact (dget_none_iff d a).mp hp (this ▸ hkey)

theorem good_dset {c : Cls} (hwf : WF c) {d : Dict} (hg : Good c d) {a : Name} (v : Val)
    (ha : a ∈ c.names) (hr : a ∉ c.refs) : Good c (dset d a v) := by
  constructor
  · intro k hk b hb hf
    rcases (mem_keys_dset d a k v).mp hk with hk | rfl
    · exact hg.1 k hk b hb hf
    · exact hwf.inj ha hb hf
  · intro k hk
    rcases (mem_keys_dset d a k v).mp hk with hk | rfl
    · exact hg.2 k hk
    · exact hr

theorem good_ddel {c : Cls} {d : Dict} (hg : Good c d) (a : Name) : Good c (ddel d a) :=
  ⟨fun k hk => hg.1 k ((mem_keys_ddel d a k).mp hk).1, fun k hk => hg.2 k ((mem_keys_ddel d a k).mp hk).1⟩

theorem good_nil (c : Cls) : Good c [] := ⟨fun k hk => by simp [keys] at hk, fun k hk => by simp [keys] at hk⟩

/-! ### abstract cells: one optional value per case-folded name -/

abbrev Cells := Name → Option Val

def cupd (m : Cells) (u : Name) (x : Option Val) : Cells := fun z => if z = u then x else m z

/-- `sp` is a spelling of a referential attribute -/
def isRefSp (c : Cls) (sp : Name) : Bool := c.refs.any (fun r => decide (fold r = fold sp))

/-- `sp` is a spelling of a declared attribute -/
def Declared (c : Cls) (sp : Name) : Prop := ∃ a ∈ c.names, fold sp = fold a

/-- `sp` is a spelling of a declared, non-referential attribute -/
def Plain (c : Cls) (sp : Name) : Prop := ∃ a ∈ c.names, a ∉ c.refs ∧ fold sp = fold a

def absStep (c : Cls) (m : Cells) : Op → Cells
  | .write sp v => if isRefSp c sp then m else cupd m (fold sp) (some v)
  | .read _ => m
  | .delete sp => cupd m (fold sp) none

def absRun (c : Cls) (m : Cells) (h : List Op) : Cells := h.foldl (absStep c) m

/-- the cells a dictionary denotes -/
def absOf (c : Cls) (d : Dict) : Cells := fun u =>
  match c.names.find? (fun a => decide (fold a = u)) with
  | some a => dget d a
  | none => none

def Sim (c : Cls) (d : Dict) (m : Cells) : Prop := ∀ a ∈ c.names, dget d a = m (fold a)

theorem sim_absOf {c : Cls} (hwf : WF c) (d : Dict) : Sim c d (absOf c d) := by
  intro a ha
  unfold absOf
  have := declMatch_eq hwf ha (rfl : fold a = fold a)
  unfold declMatch at this
  rw [this]

theorem isRefSp_iff {c : Cls} (hwf : WF c) {a sp : Name} (ha : a ∈ c.names) (h : fold sp = fold a) :
    isRefSp c sp = true ↔ a ∈ c.refs := by
  unfold isRefSp
  simp only [List.any_eq_true, decide_eq_true_eq]
  constructor
  · rintro ⟨r, hr, hf⟩
    have := hwf.inj (hwf.2 r hr) ha (hf.trans h)
    exact this ▸ hr
  · intro hr; exact ⟨a, hr, h.symm⟩

theorem sim_dset {c : Cls} (hwf : WF c) {d : Dict} {m : Cells} (hs : Sim c d m) {a : Name} (v : Val)
    (ha : a ∈ c.names) : Sim c (dset d a v) (cupd m (fold a) (some v)) := by
  intro b hb
  rw [dget_dset]
  unfold cupd
  by_cases h : b = a
  · subst h; simp
  · have : ¬ fold b = fold a := fun hf => h (hwf.inj hb ha hf)
    simp [h, this, hs b hb]

theorem sim_ddel {c : Cls} (hwf : WF c) {d : Dict} {m : Cells} (hs : Sim c d m) {a : Name}
    (ha : a ∈ c.names) : Sim c (ddel d a) (cupd m (fold a) none) := by
  intro b hb
  rw [dget_ddel]
  unfold cupd
  by_cases h : b = a
  · subst h; simp
  · have : ¬ fold b = fold a := fun hf => h (hwf.inj hb ha hf)
    simp [h, this, hs b hb]

theorem isRefSp_undeclared {c : Cls} (hwf : WF c) {sp : Name} (h : declMatch c sp = none) : isRefSp c sp = false := by
  cases hr : isRefSp c sp with
  | false => rfl
  | true =>
    exfalso
    unfold isRefSp at hr
    simp only [List.any_eq_true, decide_eq_true_eq] at hr
    obtain ⟨r, hrm, hf⟩ := hr
    exact declMatch_none h r (hwf.2 r hrm) hf

/-- ANY step: the dictionary stays good and keeps denoting the abstract cells -/
theorem step_sim {c : Cls} (hwf : WF c) {d : Dict} {m : Cells} (hg : Good c d) (hs : Sim c d m)
    (op : Op) : Good c (step c d op) ∧ Sim c (step c d op) (absStep c m op) := by
  cases op with
  | read sp => exact ⟨hg, hs⟩
  | write sp v =>
    cases hdm : declMatch c sp with
    | some a =>
      obtain ⟨ha, hfa⟩ := declMatch_some hdm
      have hf : fold sp = fold a := hfa.symm
      by_cases hr : a ∈ c.refs
      · have h1 : isRefSp c sp = true := (isRefSp_iff hwf ha hf).mpr hr
        simp only [step, absStep, setattr_ref hwf hg v hr hf, h1, ↓reduceIte]
        exact ⟨hg, hs⟩
      · have h1 : ¬ isRefSp c sp = true := fun h => hr ((isRefSp_iff hwf ha hf).mp h)
        simp only [step, absStep, setattr_plain hwf d v ha hr hf, h1, hf]
        exact ⟨good_dset hwf hg v ha hr, sim_dset hwf hs v ha⟩
    | none =>
      have hnd := declMatch_none hdm
      simp only [step, absStep, setattr_undeclared c d v hdm, isRefSp_undeclared hwf hdm]
      refine ⟨⟨?_, ?_⟩, ?_⟩
      · intro k hk a ha hf
        rcases (mem_keys_dset d sp k v).mp hk with hk | rfl
        · exact hg.1 k hk a ha hf
        · exact absurd hf.symm (hnd a ha)
      · intro k hk
        rcases (mem_keys_dset d sp k v).mp hk with hk | rfl
        · exact hg.2 k hk
        · exact fun hr => hnd k (hwf.2 k hr) rfl
      · intro b hb
        have hne : b ≠ sp := fun e => hnd b hb (e ▸ rfl)
        have hnf : ¬ fold b = fold sp := hnd b hb
        rw [dget_dset]
        simp [cupd, hne, hnf, hs b hb]
  | delete sp =>
    simp only [step, absStep, delattr]
    cases hf : d.find? (fun kv => decide (fold kv.1 = fold sp)) with
    | none =>
      refine ⟨hg, ?_⟩
      intro b hb
      unfold cupd
      by_cases hfb : fold b = fold sp
      · simp only [hfb, ↓reduceIte]
        apply (dget_none_iff d b).mpr
        intro hk
        obtain ⟨kv, hm, hkv⟩ := List.mem_map.mp hk
        have := List.find?_eq_none.mp hf kv hm
        simp [hkv, hfb] at this
      · simp [hfb, hs b hb]
    | some kv =>
      have hx := List.find?_some hf
      have hm := List.mem_of_find?_eq_some hf
      simp only [decide_eq_true_eq] at hx
      have hkey : kv.1 ∈ keys d := List.mem_map.mpr ⟨kv, hm, rfl⟩
      refine ⟨good_ddel hg kv.1, ?_⟩
      intro b hb
      rw [dget_ddel]
      unfold cupd
      by_cases hbk : b = kv.1
      · subst hbk; simp [hx]
      · have hnf : ¬ fold b = fold sp := by
          intro hfb
          exact hbk (hg.1 kv.1 hkey b hb (hx.trans hfb.symm)).symm
        simp [hbk, hnf, hs b hb]

theorem run_sim {c : Cls} (hwf : WF c) : ∀ (h : List Op) (d : Dict) (m : Cells), Good c d → Sim c d m →
    Good c (run c d h) ∧ Sim c (run c d h) (absRun c m h)
  | [], _, _, hg, hs => ⟨hg, hs⟩
  | op :: h, d, m, hg, hs => by
    obtain ⟨hg', hs'⟩ := step_sim hwf hg hs op
    exact run_sim hwf h (step c d op) (absStep c m op) hg' hs'


/-- the last event on the case-folded name `u`: a write (to a non-referential spelling) sets the value,
    a delete empties the cell; `cur` is what the cell held before the history -/
def lastValue (c : Cls) (u : Name) : Option Val → List Op → Option Val
  | cur, [] => cur
  | cur, .write sp v :: h => lastValue c u (if fold sp = u ∧ isRefSp c sp = false then some v else cur) h
  | cur, .read _ :: h => lastValue c u cur h
  | cur, .delete sp :: h => lastValue c u (if fold sp = u then none else cur) h

theorem absRun_eq_lastValue (c : Cls) (u : Name) : ∀ (h : List Op) (m : Cells),
    absRun c m h u = lastValue c u (m u) h
  | [], _ => rfl
  | op :: h, m => by
    show absRun c (absStep c m op) h u = _
    rw [absRun_eq_lastValue c u h]
    cases op with
    | read sp => rfl
    | write sp v =>
      simp only [absStep, lastValue]
      by_cases hr : isRefSp c sp = true
      · simp [hr]
      · by_cases hu : fold sp = u
        · subst hu; simp [hr, cupd]
        · have hu' : ¬ u = fold sp := fun e => hu e.symm
          simp [hr, hu, hu', cupd]
    | delete sp =>
      simp only [absStep, lastValue]
      by_cases hu : fold sp = u
      · subst hu; simp [cupd]
      · have hu' : ¬ u = fold sp := fun e => hu e.symm
        simp [hu, hu', cupd]

/-! ### constructor loops = a history of writes -/

/-- an item name as the constructor loops see it: a declared name in its declared spelling, or no spelling of
    any declared attribute (keyword names are resolved first, `resolveKw`) -/
def Resolved (c : Cls) (n : Name) : Prop := n ∈ c.names ∨ declMatch c n = none

theorem resolved_resolveKw (c : Cls) (kw : Name × Val) : Resolved c (resolveKw c kw).1 := by
  unfold resolveKw
  cases h : declMatch c kw.1 with
  | some a => exact Or.inl (declMatch_some h).1
  | none => exact Or.inr (by simpa using h)

theorem fold_resolveKw (c : Cls) (kw : Name × Val) : fold (resolveKw c kw).1 = fold kw.1 := by
  unfold resolveKw
  cases h : declMatch c kw.1 with
  | some a => exact (declMatch_some h).2
  | none => rfl

theorem resolved_not_refSp {c : Cls} (hwf : WF c) {n : Name} (hr : Resolved c n) (hn : n ∉ c.refs) :
    isRefSp c n = false := by
  rcases hr with h | h
  · cases hi : isRefSp c n with
    | false => rfl
    | true => exact absurd ((isRefSp_iff hwf h rfl).mp hi) hn
  · exact isRefSp_undeclared hwf h

/-- the writes an item list amounts to: items whose name is (exactly) referential go to the local dict -/
def writesOf (c : Cls) (items : List (Name × Val)) : List Op :=
  (items.filter fun it => !(decide (it.1 ∈ c.refs))).map fun it => Op.write it.1 it.2

/-- the assignment loops never raise on resolved names; the dictionary is the history of the writes to the
    names that are not referential -/
theorem assignAll_resolved {c : Cls} (hwf : WF c) : ∀ (items : List (Name × Val)) (acc : NewAcc),
    (∀ it ∈ items, Resolved c it.1) →
    ∃ rd, assignAll c acc items = (⟨run c acc.dict (writesOf c items), rd⟩, .ok)
  | [], acc, _ => ⟨acc.refd, rfl⟩
  | (n, v) :: r, acc, hp => by
    by_cases hn : n ∈ c.refs
    · obtain ⟨rd, ih⟩ := assignAll_resolved hwf r ⟨acc.dict, dset acc.refd n v⟩ (fun it hi => hp it (by simp [hi]))
      refine ⟨rd, ?_⟩
      simp only [assignAll, assignArg, hn, ↓reduceIte, ih, writesOf, List.filter_cons, decide_true, Bool.not_true,
        Bool.false_eq_true]
    · have hset : setattr c acc.dict n v = (dset acc.dict n v, .ok) := by
        rcases hp (n, v) (by simp) with h | h
        · exact setattr_plain hwf acc.dict v h hn rfl
        · exact setattr_undeclared c acc.dict v h
      obtain ⟨rd, ih⟩ := assignAll_resolved hwf r ⟨dset acc.dict n v, acc.refd⟩ (fun it hi => hp it (by simp [hi]))
      refine ⟨rd, ?_⟩
      simp only [assignAll, assignArg, hn, ↓reduceIte, hset, ih, writesOf,
        List.filter_cons, decide_false, Bool.not_false, List.map_cons, run, List.foldl_cons, step]


/-! ### class table -/

theorem clsGet_append_ne (cs : Classes) (k n : Name) (c : Cls) (h : k ≠ n) :
    clsGet (cs ++ [(k, c)]) n = clsGet cs n := by
  induction cs with
  | nil => simp [clsGet, h]
  | cons kc r ih =>
    obtain ⟨k0, c0⟩ := kc
    simp only [List.cons_append, clsGet, ih]

theorem clsGet_append_some (cs : Classes) (k n : Name) (c x : Cls) (h : clsGet cs n = some x) :
    clsGet (cs ++ [(k, c)]) n = some x := by
  induction cs with
  | nil => simp [clsGet] at h
  | cons kc r ih =>
    obtain ⟨k0, c0⟩ := kc
    simp only [List.cons_append, clsGet] at h ⊢
    by_cases h0 : k0 = n
    · simpa [h0] using h
    · simp only [h0, ↓reduceIte] at h ⊢; exact ih h

theorem clsGet_append_self (cs : Classes) (k : Name) (c : Cls) (h : clsGet cs k = none) :
    clsGet (cs ++ [(k, c)]) k = some c := by
  induction cs with
  | nil => simp [clsGet]
  | cons kc r ih =>
    obtain ⟨k0, c0⟩ := kc
    simp only [List.cons_append, clsGet] at h ⊢
    by_cases h0 : k0 = k
    · simp [h0] at h
    · simp only [h0, ↓reduceIte] at h ⊢; exact ih h

/-- the first definition in the sequence whose kind folds to `u` and whose attribute names are acceptable (a
    definition with reserved or colliding attribute names is rejected and defines nothing) -/
def firstDef (u : Name) : List (Name × List (Name × Name)) → Option Cls
  | [] => none
  | (k, as) :: r =>
    if fold k = u ∧ badNames (as.map (·.1)) = false then some { kind := k, attrs := as, refs := [] } else firstDef u r

theorem defineAll_get (u : Name) : ∀ (defs : List (Name × List (Name × Name))) (cs : Classes),
    clsGet (defineAll cs defs) u = match clsGet cs u with
      | some c => some c
      | none => firstDef u defs
  | [], cs => by simp only [defineAll]; cases clsGet cs u <;> rfl
  | (k, as) :: r, cs => by
    unfold defineAll defineClass
    cases hk : clsGet cs (fold k) with
    | some c0 =>
      simp only [defineAll_get u r cs]
      cases hu : clsGet cs u with
      | some c => rfl
      | none =>
        have : ¬ fold k = u := by intro e; rw [e] at hk; rw [hk] at hu; cases hu
        simp [firstDef, this]
    | none =>
      cases hd : badNames (as.map (·.1)) with
      | true =>
        simp only [↓reduceIte, defineAll_get u r cs]
        cases hu : clsGet cs u with
        | some c => rfl
        | none => simp [firstDef, hd]
      | false =>
        simp only [Bool.false_eq_true, ↓reduceIte, defineAll_get u r]
        by_cases e : fold k = u
        · subst e
          rw [clsGet_append_self cs _ _ hk, hk]
          simp [firstDef, hd]
        · rw [clsGet_append_ne cs _ _ _ e]
          cases hu : clsGet cs u with
          | some c => rfl
          | none => simp [firstDef, e]

/-- a class that `define_class` accepts has attribute names that are distinct after case folding -/
theorem nodup_of_not_dupFold : ∀ (l : List Name), dupFold l = false → (l.map fold).Nodup
  | [], _ => by simp
  | n :: r, h => by
    simp only [dupFold, Bool.or_eq_false_iff] at h
    simp only [List.map_cons, List.nodup_cons, List.mem_map, not_exists, not_and]
    refine ⟨?_, nodup_of_not_dupFold r h.2⟩
    intro m hm hf
    have := List.any_eq_false.mp h.1 m hm
    simp [hf] at this

end Pyx.Attr
