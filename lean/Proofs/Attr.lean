import PyxModel.Attr

/-! helper lemmas for C10: the attribute store behaves as one cell per case-folded declared name -/
namespace Pyx.Attr

/-! ### association-list dictionary -/

theorem dget_dset (d : Dict) (k n : Name) (v : Val) :
    dget (dset d k v) n = if n = k then some v else dget d n := by
  induction d with
  | nil =>
    by_cases h : n = k
    · subst h; simp [dset, dget]
    · have h' : ¬ k = n := fun e => h e.symm
      simp [dset, dget, h, h']
  | cons kv r ih =>
    obtain ⟨k0, w⟩ := kv
    by_cases h0 : k0 = k
    · subst h0
      by_cases h : n = k0
      · subst h; simp [dset, dget]
      · have h' : ¬ k0 = n := fun e => h e.symm
        simp [dset, dget, h, h']
    · by_cases h : n = k
      · subst h; simp [dset, dget, h0, ih]
      · simp only [dset, h0, ↓reduceIte, dget, ih, h]

theorem dget_ddel (d : Dict) (k n : Name) :
    dget (ddel d k) n = if n = k then none else dget d n := by
  induction d with
  | nil => simp [ddel, dget]
  | cons kv r ih =>
    obtain ⟨k0, w⟩ := kv
    unfold ddel at ih ⊢
    by_cases h0 : k0 = k
    · subst h0
      simp only [List.filter_cons, ne_eq, not_true_eq_false, decide_false, Bool.false_eq_true, ↓reduceIte, ih]
      by_cases h : n = k0
      · simp [h]
      · have h' : ¬ k0 = n := fun e => h e.symm
        simp [dget, h, h']
    · simp only [List.filter_cons, ne_eq, h0, not_false_eq_true, decide_true, ↓reduceIte, dget, ih]
      by_cases h : k0 = n
      · subst h; simp [h0]
      · simp [h]

theorem mem_keys_dset (d : Dict) (k n : Name) (v : Val) :
    n ∈ keys (dset d k v) ↔ n ∈ keys d ∨ n = k := by
  induction d with
  | nil => simp [dset, keys]
  | cons kv r ih =>
    obtain ⟨k0, w⟩ := kv
    unfold keys at ih ⊢
    by_cases h0 : k0 = k
    · subst h0
      simp only [dset, ↓reduceIte, List.map_cons, List.mem_cons]
      constructor
      · intro h; exact Or.inl h
      · rintro (h | h)
        · exact h
        · exact Or.inl h
    · simp only [dset, h0, ↓reduceIte, List.map_cons, List.mem_cons, ih]
      constructor
      · rintro (h | h | h) <;> simp [h]
      · rintro ((h | h) | h) <;> simp [h]

theorem mem_keys_ddel (d : Dict) (k n : Name) : n ∈ keys (ddel d k) ↔ n ∈ keys d ∧ n ≠ k := by
  unfold keys ddel
  simp only [List.mem_map, List.mem_filter, decide_eq_true_eq]
  constructor
  · rintro ⟨kv, ⟨hm, hne⟩, rfl⟩; exact ⟨⟨kv, hm, rfl⟩, hne⟩
  · rintro ⟨⟨kv, hm, rfl⟩, hne⟩; exact ⟨kv, ⟨hm, hne⟩, rfl⟩

theorem dget_none_iff (d : Dict) (n : Name) : dget d n = none ↔ n ∉ keys d := by
  induction d with
  | nil => simp [dget, keys]
  | cons kv r ih =>
    obtain ⟨k0, w⟩ := kv
    unfold keys at ih ⊢
    by_cases h : k0 = n
    · subst h; simp [dget]
    · have h' : ¬ n = k0 := fun e => h e.symm
      simp [dget, h, h', ih]

theorem dget_some_mem {d : Dict} {n : Name} {v : Val} (h : dget d n = some v) : n ∈ keys d := by
  apply Classical.byContradiction
  intro hn
  rw [(dget_none_iff d n).mpr hn] at h
  cases h

/-! ### well-formed class, good dictionary -/

/-- declared names are distinct after case folding; the referential names are declared names -/
def WF (c : Cls) : Prop := (c.names.map fold).Nodup ∧ ∀ r ∈ c.refs, r ∈ c.names

/-- `__dict__` holds no key that folds to a declared name other than that declared name itself, and no
    referential attribute is stored -/
def Good (c : Cls) (d : Dict) : Prop :=
  (∀ k ∈ keys d, ∀ a ∈ c.names, fold k = fold a → k = a) ∧ (∀ k ∈ keys d, k ∉ c.refs)

theorem inj_of_nodup_map {α β : Type} (f : α → β) : ∀ (l : List α), (l.map f).Nodup →
    ∀ x ∈ l, ∀ y ∈ l, f x = f y → x = y
  | [], _, _, hx, _, _, _ => by simp at hx
  | a :: l, hn, x, hx, y, hy, hf => by
    simp only [List.map_cons, List.nodup_cons, List.mem_map, not_exists, not_and] at hn
    simp only [List.mem_cons] at hx hy
    rcases hx with rfl | hx <;> rcases hy with rfl | hy
    · rfl
    · exact absurd hf.symm (hn.1 y hy)
    · exact absurd hf (hn.1 x hx)
    · exact inj_of_nodup_map f l hn.2 x hx y hy hf

theorem WF.inj {c : Cls} (hwf : WF c) {a b : Name} (ha : a ∈ c.names) (hb : b ∈ c.names)
    (h : fold a = fold b) : a = b :=
  inj_of_nodup_map fold c.names hwf.1 a ha b hb h

theorem declMatch_eq {c : Cls} (hwf : WF c) {a sp : Name} (ha : a ∈ c.names) (h : fold sp = fold a) :
    declMatch c sp = some a := by
  unfold declMatch
  cases hf : c.names.find? (fun x => decide (fold x = fold sp)) with
  | none =>
    have := List.find?_eq_none.mp hf a ha
    simp [h] at this
  | some x =>
    have hx := List.find?_some hf
    have hm := List.mem_of_find?_eq_some hf
    simp only [decide_eq_true_eq] at hx
    rw [hwf.inj hm ha (hx.trans h)]

def cellRead : Option Val → Read
  | some v => .val v
  | none => .attrError

/-- reading a non-referential declared attribute under any spelling reads the cell of its declared name -/
theorem getattr_plain {c : Cls} (hwf : WF c) {d : Dict} (hg : Good c d) {a sp : Name}
    (ha : a ∈ c.names) (hr : a ∉ c.refs) (h : fold sp = fold a) :
    getattr c d sp = cellRead (dget d a) := by
  have hsp : sp ∉ c.refs := by
    intro hs
    have := hwf.inj (hwf.2 sp hs) ha h
    exact hr (this ▸ hs)
  unfold getattr
  rw [if_neg hsp]
  cases hd : dget d sp with
  | some v =>
    have : sp = a := hg.1 sp (dget_some_mem hd) a ha h
    subst this
    rw [hd]; rfl
  | none =>
    simp only [declMatch_eq hwf ha h]
    cases hda : dget d a with
    | some v => rfl
    | none => simp [hr, cellRead]

theorem setattr_plain {c : Cls} (hwf : WF c) (d : Dict) {a sp : Name} (v : Val)
    (ha : a ∈ c.names) (hr : a ∉ c.refs) (h : fold sp = fold a) :
    setattr c d sp v = (dset d a v, .ok) := by
  unfold setattr
  simp only [declMatch_eq hwf ha h]
  cases dget d a <;> simp [hr]

/-- writing a referential attribute under any spelling raises and leaves `__dict__` untouched -/
theorem setattr_ref {c : Cls} (hwf : WF c) {d : Dict} (hg : Good c d) {a sp : Name} (v : Val)
    (hr : a ∈ c.refs) (h : fold sp = fold a) :
    setattr c d sp v = (d, .metaExc) := by
  have ha : a ∈ c.names := hwf.2 a hr
  have hnk : dget d a = none := (dget_none_iff d a).mpr (fun hk => hg.2 a hk hr)
  unfold setattr
  simp only [declMatch_eq hwf ha h, hnk, hr, ↓reduceIte]

theorem delTarget_plain {c : Cls} {d : Dict} (hg : Good c d) {a sp : Name}
    (ha : a ∈ c.names) (h : fold sp = fold a) (hp : dget d a ≠ none) : delTarget d sp = a := by
  unfold delTarget
  have hk : a ∈ keys d := by
    apply Classical.byContradiction
    intro hn; exact hp ((dget_none_iff d a).mpr hn)
  cases hf : d.find? (fun kv => decide (fold kv.1 = fold sp)) with
  | none =>
    obtain ⟨kv, hm, hkv⟩ := List.mem_map.mp hk
    have := List.find?_eq_none.mp hf kv hm
    simp [hkv, h] at this
  | some kv =>
    have hx := List.find?_some hf
    have hm := List.mem_of_find?_eq_some hf
    simp only [decide_eq_true_eq] at hx
    exact hg.1 kv.1 (List.mem_map.mpr ⟨kv, hm, rfl⟩) a ha (hx.trans h)

theorem delattr_plain {c : Cls} {d : Dict} (hg : Good c d) {a sp : Name}
    (ha : a ∈ c.names) (h : fold sp = fold a) (hp : dget d a ≠ none) :
    delattr d sp = (ddel d a, .ok) := by
  unfold delattr
  rw [delTarget_plain hg ha h hp]
  cases hd : dget d a with
  | none => exact absurd hd hp
  | some v => rfl

theorem good_dset {c : Cls} (hwf : WF c) {d : Dict} (hg : Good c d) {a : Name} (v : Val)
    (ha : a ∈ c.names) (hr : a ∉ c.refs) : Good c (dset d a v) := by
  constructor
  · intro k hk b hb hf
    rcases (mem_keys_dset d a k v).mp hk with hk | rfl
    · exact hg.1 k hk b hb hf
    · exact hwf.inj ha hb hf
  · intro k hk
    rcases (mem_keys_dset d a k v).mp hk with hk | rfl
    · exact hg.2 k hk
    · exact hr

theorem good_ddel {c : Cls} {d : Dict} (hg : Good c d) (a : Name) : Good c (ddel d a) :=
  ⟨fun k hk => hg.1 k ((mem_keys_ddel d a k).mp hk).1, fun k hk => hg.2 k ((mem_keys_ddel d a k).mp hk).1⟩

theorem good_nil (c : Cls) : Good c [] := ⟨fun k hk => by simp [keys] at hk, fun k hk => by simp [keys] at hk⟩

/-! ### abstract cells: one optional value per case-folded name -/

abbrev Cells := Name → Option Val

def cupd (m : Cells) (u : Name) (x : Option Val) : Cells := fun z => if z = u then x else m z

/-- `sp` is a spelling of a referential attribute -/
def isRefSp (c : Cls) (sp : Name) : Bool := c.refs.any (fun r => decide (fold r = fold sp))

/-- `sp` is a spelling of a declared attribute -/
def Declared (c : Cls) (sp : Name) : Prop := ∃ a ∈ c.names, fold sp = fold a

/-- `sp` is a spelling of a declared, non-referential attribute -/
def Plain (c : Cls) (sp : Name) : Prop := ∃ a ∈ c.names, a ∉ c.refs ∧ fold sp = fold a

def absStep (c : Cls) (m : Cells) : Op → Cells
  | .write sp v => if isRefSp c sp then m else cupd m (fold sp) (some v)
  | .read _ => m
  | .delete sp => cupd m (fold sp) none

def absRun (c : Cls) (m : Cells) (h : List Op) : Cells := h.foldl (absStep c) m

/-- the histories `one_cell` covers: writes address declared attributes (referential ones are rejected),
    reads are unrestricted, a delete addresses a non-referential attribute THAT CURRENTLY HOLDS A VALUE -/
def Valid (c : Cls) : Cells → List Op → Prop
  | _, [] => True
  | m, .write sp v :: h => Declared c sp ∧ Valid c (absStep c m (.write sp v)) h
  | m, .read sp :: h => Valid c (absStep c m (.read sp)) h
  | m, .delete sp :: h => Plain c sp ∧ m (fold sp) ≠ none ∧ Valid c (absStep c m (.delete sp)) h

/-- the cells a dictionary denotes -/
def absOf (c : Cls) (d : Dict) : Cells := fun u =>
  match c.names.find? (fun a => decide (fold a = u)) with
  | some a => dget d a
  | none => none

def Sim (c : Cls) (d : Dict) (m : Cells) : Prop := ∀ a ∈ c.names, dget d a = m (fold a)

theorem sim_absOf {c : Cls} (hwf : WF c) (d : Dict) : Sim c d (absOf c d) := by
  intro a ha
  unfold absOf
  have := declMatch_eq hwf ha (rfl : fold a = fold a)
  unfold declMatch at this
  rw [this]

theorem isRefSp_iff {c : Cls} (hwf : WF c) {a sp : Name} (ha : a ∈ c.names) (h : fold sp = fold a) :
    isRefSp c sp = true ↔ a ∈ c.refs := by
  unfold isRefSp
  simp only [List.any_eq_true, decide_eq_true_eq]
  constructor
  · rintro ⟨r, hr, hf⟩
    have := hwf.inj (hwf.2 r hr) ha (hf.trans h)
    exact this ▸ hr
  · intro hr; exact ⟨a, hr, h.symm⟩

theorem sim_dset {c : Cls} (hwf : WF c) {d : Dict} {m : Cells} (hs : Sim c d m) {a : Name} (v : Val)
    (ha : a ∈ c.names) : Sim c (dset d a v) (cupd m (fold a) (some v)) := by
  intro b hb
  rw [dget_dset]
  unfold cupd
  by_cases h : b = a
  · subst h; simp
  · have : ¬ fold b = fold a := fun hf => h (hwf.inj hb ha hf)
    simp [h, this, hs b hb]

theorem sim_ddel {c : Cls} (hwf : WF c) {d : Dict} {m : Cells} (hs : Sim c d m) {a : Name}
    (ha : a ∈ c.names) : Sim c (ddel d a) (cupd m (fold a) none) := by
  intro b hb
  rw [dget_ddel]
  unfold cupd
  by_cases h : b = a
  · subst h; simp
  · have : ¬ fold b = fold a := fun hf => h (hwf.inj hb ha hf)
    simp [h, this, hs b hb]

/-- one valid step: the dictionary stays good and keeps denoting the abstract cells -/
theorem step_sim {c : Cls} (hwf : WF c) {d : Dict} {m : Cells} (hg : Good c d) (hs : Sim c d m)
    (op : Op) (hv : Valid c m [op]) : Good c (step c d op) ∧ Sim c (step c d op) (absStep c m op) := by
  cases op with
  | read sp => exact ⟨hg, hs⟩
  | write sp v =>
    obtain ⟨⟨a, ha, hf⟩, _⟩ := hv
    by_cases hr : a ∈ c.refs
    · have h1 : isRefSp c sp = true := (isRefSp_iff hwf ha hf).mpr hr
      simp only [step, absStep, setattr_ref hwf hg v hr hf, h1, ↓reduceIte]
      exact ⟨hg, hs⟩
    · have h1 : ¬ isRefSp c sp = true := fun h => hr ((isRefSp_iff hwf ha hf).mp h)
      simp only [step, absStep, setattr_plain hwf d v ha hr hf, h1, hf]
      exact ⟨good_dset hwf hg v ha hr, sim_dset hwf hs v ha⟩
  | delete sp =>
    obtain ⟨⟨a, ha, _, hf⟩, hp, _⟩ := hv
    have hp' : dget d a ≠ none := by rw [hs a ha, ← hf]; exact hp
    simp only [step, absStep, delattr_plain hg ha hf hp', hf]
    exact ⟨good_ddel hg a, sim_ddel hwf hs ha⟩

theorem valid_head {c : Cls} {m : Cells} {op : Op} {h : List Op} (hv : Valid c m (op :: h)) :
    Valid c m [op] ∧ Valid c (absStep c m op) h := by
  cases op with
  | read sp => exact ⟨trivial, hv⟩
  | write sp v => exact ⟨⟨hv.1, trivial⟩, hv.2⟩
  | delete sp => exact ⟨⟨hv.1, hv.2.1, trivial⟩, hv.2.2⟩

theorem run_sim {c : Cls} (hwf : WF c) : ∀ (h : List Op) (d : Dict) (m : Cells), Good c d → Sim c d m →
    Valid c m h → Good c (run c d h) ∧ Sim c (run c d h) (absRun c m h)
  | [], _, _, hg, hs, _ => ⟨hg, hs⟩
  | op :: h, d, m, hg, hs, hv => by
    obtain ⟨h1, h2⟩ := valid_head hv
    obtain ⟨hg', hs'⟩ := step_sim hwf hg hs op h1
    exact run_sim hwf h (step c d op) (absStep c m op) hg' hs' h2

/-- every prefix of a covered history is a covered history (so the conclusions hold at every moment) -/
theorem valid_append {c : Cls} : ∀ (h1 h2 : List Op) (m : Cells), Valid c m (h1 ++ h2) → Valid c m h1
  | [], _, _, _ => trivial
  | op :: h1, h2, m, hv => by
    obtain ⟨ha, hb⟩ := valid_head (by simpa using hv : Valid c m (op :: (h1 ++ h2)))
    have ih := valid_append h1 h2 _ hb
    cases op with
    | read sp => exact ih
    | write sp v => exact ⟨ha.1, ih⟩
    | delete sp => exact ⟨ha.1, ha.2.1, ih⟩

/-- the last event on the case-folded name `u`: a write (to a non-referential spelling) sets the value,
    a delete empties the cell; `cur` is what the cell held before the history -/
def lastValue (c : Cls) (u : Name) : Option Val → List Op → Option Val
  | cur, [] => cur
  | cur, .write sp v :: h => lastValue c u (if fold sp = u ∧ isRefSp c sp = false then some v else cur) h
  | cur, .read _ :: h => lastValue c u cur h
  | cur, .delete sp :: h => lastValue c u (if fold sp = u then none else cur) h

theorem absRun_eq_lastValue (c : Cls) (u : Name) : ∀ (h : List Op) (m : Cells),
    absRun c m h u = lastValue c u (m u) h
  | [], _ => rfl
  | op :: h, m => by
    show absRun c (absStep c m op) h u = _
    rw [absRun_eq_lastValue c u h]
    cases op with
    | read sp => rfl
    | write sp v =>
      simp only [absStep, lastValue]
      by_cases hr : isRefSp c sp = true
      · simp [hr]
      · by_cases hu : fold sp = u
        · subst hu; simp [hr, cupd]
        · have hu' : ¬ u = fold sp := fun e => hu e.symm
          simp [hr, hu, hu', cupd]
    | delete sp =>
      simp only [absStep, lastValue]
      by_cases hu : fold sp = u
      · subst hu; simp [cupd]
      · have hu' : ¬ u = fold sp := fun e => hu e.symm
        simp [hu, hu', cupd]

/-! ### constructor loops = a history of writes -/

theorem assignAll_plain {c : Cls} (hwf : WF c) : ∀ (items : List (Name × Val)) (acc : NewAcc),
    (∀ it ∈ items, Plain c it.1) →
    assignAll c acc items = (⟨run c acc.dict (items.map fun it => Op.write it.1 it.2), acc.refd⟩, .ok)
  | [], _, _ => rfl
  | (n, v) :: r, acc, hp => by
    obtain ⟨a, ha, hr, hf⟩ := hp (n, v) (by simp)
    have hn : n ∉ c.refs := by
      intro hs
      have := hwf.inj (hwf.2 n hs) ha hf
      exact hr (this ▸ hs)
    have ih := assignAll_plain hwf r ⟨dset acc.dict a v, acc.refd⟩ (fun it hi => hp it (by simp [hi]))
    simp only [assignAll, assignArg, hn, ↓reduceIte, setattr_plain hwf acc.dict v ha hr hf, ih,
      List.map_cons, run, List.foldl_cons, step]

theorem valid_writes {c : Cls} : ∀ (items : List (Name × Val)) (m : Cells), (∀ it ∈ items, Plain c it.1) →
    Valid c m (items.map fun it => Op.write it.1 it.2)
  | [], _, _ => trivial
  | (n, v) :: r, m, hp => by
    obtain ⟨a, ha, _, hf⟩ := hp (n, v) (by simp)
    exact ⟨⟨a, ha, hf⟩, valid_writes r _ (fun it hi => hp it (by simp [hi]))⟩

/-! ### class table -/

theorem clsGet_append_ne (cs : Classes) (k n : Name) (c : Cls) (h : k ≠ n) :
    clsGet (cs ++ [(k, c)]) n = clsGet cs n := by
  induction cs with
  | nil => simp [clsGet, h]
  | cons kc r ih =>
    obtain ⟨k0, c0⟩ := kc
    simp only [List.cons_append, clsGet, ih]

theorem clsGet_append_some (cs : Classes) (k n : Name) (c x : Cls) (h : clsGet cs n = some x) :
    clsGet (cs ++ [(k, c)]) n = some x := by
  induction cs with
  | nil => simp [clsGet] at h
  | cons kc r ih =>
    obtain ⟨k0, c0⟩ := kc
    simp only [List.cons_append, clsGet] at h ⊢
    by_cases h0 : k0 = n
    · simpa [h0] using h
    · simp only [h0, ↓reduceIte] at h ⊢; exact ih h

theorem clsGet_append_self (cs : Classes) (k : Name) (c : Cls) (h : clsGet cs k = none) :
    clsGet (cs ++ [(k, c)]) k = some c := by
  induction cs with
  | nil => simp [clsGet]
  | cons kc r ih =>
    obtain ⟨k0, c0⟩ := kc
    simp only [List.cons_append, clsGet] at h ⊢
    by_cases h0 : k0 = k
    · simp [h0] at h
    · simp only [h0, ↓reduceIte] at h ⊢; exact ih h

/-- the first definition in the sequence whose kind folds to `u` -/
def firstDef (u : Name) : List (Name × List (Name × Name)) → Option Cls
  | [] => none
  | (k, as) :: r => if fold k = u then some { kind := k, attrs := as, refs := [] } else firstDef u r

theorem defineAll_get (u : Name) : ∀ (defs : List (Name × List (Name × Name))) (cs : Classes),
    clsGet (defineAll cs defs) u = match clsGet cs u with
      | some c => some c
      | none => firstDef u defs
  | [], cs => by simp only [defineAll]; cases clsGet cs u <;> rfl
  | (k, as) :: r, cs => by
    unfold defineAll defineClass
    cases hk : clsGet cs (fold k) with
    | some c0 =>
      simp only [defineAll_get u r cs]
      cases hu : clsGet cs u with
      | some c => rfl
      | none =>
        have : ¬ fold k = u := by intro e; rw [e] at hk; rw [hk] at hu; cases hu
        simp [firstDef, this]
    | none =>
      simp only [defineAll_get u r]
      by_cases e : fold k = u
      · subst e
        rw [clsGet_append_self cs _ _ hk, hk]
        simp [firstDef]
      · rw [clsGet_append_ne cs _ _ _ e]
        cases hu : clsGet cs u with
        | some c => rfl
        | none => simp [firstDef, e]

end Pyx.Attr
