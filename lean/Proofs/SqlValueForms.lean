import Proofs.SqlBuildCause
import Proofs.SqlParserTotal

set_option linter.unusedSimpArgs false

/-!
  Every value text that the lexer and the parser hand to the loader has one of the lexical forms `guess_type_name`
  knows: `ValuesGuessable` (hypothesis of `build_documented`, Proofs/SqlBuildCause.lean) holds for the statements of
  every accepted text.  So the `None.upper()` of an inferred class with an unclassifiable value cannot happen.
-/
namespace Pyx.Sql
open Gen.SqlLex (Rule Kw)
open Gen.Persist (Ty)

def Guessable (u : UC) (v : Text) : Prop := (guessType u v).isSome = true

theorem isDigit_ne_minus (u : UC) (c : Char) (h : u.isDigit c = true) : c ≠ '-' := by
  intro e; subst e
  have : u.isDigit '-' = false := by simp [UC.isDigit, isAsciiDigit]
  rw [this] at h; cases h

/-- a text that begins with a digit (`\d`) is classified -/
theorem guess_digit_head (u : UC) (c : Char) (rest : Text) (hd : u.isDigit c = true) : Guessable u (c :: rest) := by
  unfold Guessable guessType
  simp only
  split
  · rfl
  · have hs : stripMinus (c :: rest) = c :: rest := by simp [stripMinus, isDigit_ne_minus u c hd]
    rw [hs]
    have : ((c :: rest).takeWhile u.isDigit).isEmpty = false := by simp [List.takeWhile_cons, hd]
    simp only [this, Bool.not_false, if_true]
    split
    · split <;> rfl
    · rfl

/-- … and so is `-` followed by such a text -/
theorem guess_minus (u : UC) (c : Char) (rest : Text) (hd : u.isDigit c = true) : Guessable u ('-' :: c :: rest) := by
  unfold Guessable guessType
  simp only
  split
  · rfl
  · have hs : stripMinus ('-' :: c :: rest) = c :: rest := by simp [stripMinus]
    rw [hs]
    have : ((c :: rest).takeWhile u.isDigit).isEmpty = false := by simp [List.takeWhile_cons, hd]
    simp only [this, Bool.not_false, if_true]
    split
    · split <;> rfl
    · rfl

theorem guess_quoted (u : UC) (v : Text) (h : (mString v).isSome = true ∨ (mGuid v).isSome = true) : Guessable u v := by
  unfold Guessable guessType
  simp only
  split
  · rfl
  · split
    · split
      · split <;> rfl
      · rfl
    · rcases h with h | h
      · simp [h]
      · by_cases hs : (mString v).isSome = true
        · simp [hs]
        · simp [hs, h]

theorem guess_bool (u : UC) (v : Text) (h : u.upper v = Kw.TRUE.chars ∨ u.upper v = Kw.FALSE.chars) : Guessable u v := by
  unfold Guessable guessType
  simp only [h, if_true]; rfl

/-! ### the lexeme of a STRING / GUID token is matched by its own rule again -/

theorem scanStr_quote : (scanStr ['\'']).isSome = true := by simp [scanStr]

theorem scanStr_body : ∀ (cs b rest : Text), scanStr cs = some (b, rest) → (scanStr (b ++ ['\''])).isSome = true := by
  intro cs
  induction cs using scanStr.induct <;> intro b rest h
  · simp [scanStr] at h
  · simp [scanStr] at h; obtain ⟨rfl, rfl⟩ := h; exact scanStr_quote
  · rename_i r' b' rr hs ih
    simp [scanStr, hs] at h; obtain ⟨rfl, rfl⟩ := h
    have := ih b' rr hs
    cases h2 : scanStr (b' ++ ['\'']) with
    | none => rw [h2] at this; cases this
    | some p => obtain ⟨p1, p2⟩ := p; simp [scanStr, h2]
  · rename_i r' hs ih
    simp [scanStr, hs] at h; obtain ⟨rfl, rfl⟩ := h; exact scanStr_quote
  · rename_i e r' he
    simp [scanStr, he] at h; obtain ⟨rfl, rfl⟩ := h; exact scanStr_quote
  · rename_i c r' hc b' rr hs ih
    unfold scanStr at h
    simp [hc, hs] at h; obtain ⟨rfl, rfl⟩ := h
    have := ih b' rr hs
    cases h2 : scanStr (b' ++ ['\'']) with
    | none => rw [h2] at this; cases this
    | some p =>
      obtain ⟨p1, p2⟩ := p
      show (scanStr (c :: (b' ++ ['\'']))).isSome = true
      rw [scanStr.eq_def]; simp [hc, h2]
  · rename_i c r' hc hs ih
    unfold scanStr at h
    simp [hc, hs] at h

theorem scanGuid_quote : (scanGuid ['"']).isSome = true := by simp [scanGuid]

theorem scanGuid_body : ∀ (cs b rest : Text), scanGuid cs = some (b, rest) → (scanGuid (b ++ ['"'])).isSome = true := by
  intro cs
  induction cs using scanGuid.induct <;> intro b rest h
  · simp [scanGuid] at h
  · unfold scanGuid at h; simp at h; obtain ⟨rfl, rfl⟩ := h; exact scanGuid_quote
  · unfold scanGuid at h; simp at h
  · unfold scanGuid at h; simp at h
  · unfold scanGuid at h; simp at h
  · rename_i e r' he b' rr hs h1 h2 ih
    simp [scanGuid, he, hs] at h; obtain ⟨rfl, rfl⟩ := h
    have := ih b' rr hs
    cases h3 : scanGuid (b' ++ ['"']) with
    | none => rw [h3] at this; cases this
    | some p =>
      obtain ⟨p1, p2⟩ := p
      show (scanGuid ('\\' :: e :: (b' ++ ['"']))).isSome = true
      rw [scanGuid.eq_def]; simp [he, h3]
  · rename_i e r' he hs _ _ ih
    unfold scanGuid at h; simp [he, hs] at h
  · rename_i c r' h1 h2 h3 b' rr hs ih
    unfold scanGuid at h
    simp [h1, h2, h3, hs] at h; obtain ⟨rfl, rfl⟩ := h
    have := ih b' rr hs
    cases h4 : scanGuid (b' ++ ['"']) with
    | none => rw [h4] at this; cases this
    | some p =>
      obtain ⟨p1, p2⟩ := p
      show (scanGuid (c :: (b' ++ ['"']))).isSome = true
      rw [scanGuid.eq_def]; simp [h1, h2, h3, h4]
  · rename_i c r' h1 h2 h3 hs ih
    unfold scanGuid at h
    simp [h1, h2, h3, hs] at h

/-! ### the tokens the lexer returns -/

/-- what the parser's value production relies on: the lexeme of a value token is classified by `guess_type_name`; the
    lexeme of a number token begins with a digit; the lexeme of MINUS is `-` -/
def TokOk (u : UC) (t : Tok) : Prop :=
  (isPlainValueTok t = true → Guessable u t.text) ∧
  (isNumTok t = true → ∃ c rest, t.text = c :: rest ∧ u.isDigit c = true) ∧
  (t.kind = .MINUS → t.text = ['-'])

theorem findSome_matches (u : UC) (cs : Text) (rules : List Rule) (r : Rule) (l rest : Text)
    (h : rules.findSome? (fun r => (matchRule u r cs).map (fun p => (r, p.1, p.2))) = some (r, l, rest)) :
    matchRule u r cs = some (l, rest) := by
  induction rules with
  | nil => simp at h
  | cons x xs ih =>
    rw [List.findSome?_cons] at h
    cases hm : matchRule u x cs with
    | none => simp [hm] at h; exact ih h
    | some p =>
      simp [hm] at h
      obtain ⟨rfl, rfl, rfl⟩ := h
      exact hm

theorem asciiDigit_isDigit (u : UC) (c : Char) (h : isAsciiDigit c = true) : u.isDigit c = true := by
  simp [UC.isDigit, isAsciiDigit_lt_128 h, h]

theorem takeWhile_head {p : Char → Bool} {cs : Text} (h : (cs.takeWhile p).isEmpty = false) :
    ∃ c rest, cs = c :: rest ∧ p c = true ∧ cs.takeWhile p = c :: rest.takeWhile p := by
  cases cs with
  | nil => simp at h
  | cons c rest =>
    cases hp : p c with
    | false => simp [List.takeWhile_cons, hp] at h
    | true => exact ⟨c, rest, rfl, hp, by simp [List.takeWhile_cons, hp]⟩

theorem mkTok_plain (u : UC) (r : Rule) (l : Text) (h : r.retypesReserved = false) : mkTok u r l = ⟨ruleKind r, l⟩ := by
  simp [mkTok, h]

theorem tokOk_other (u : UC) (t : Tok) (h1 : isPlainValueTok t = false) (h2 : isNumTok t = false) (h3 : t.kind ≠ .MINUS) :
    TokOk u t := by
  refine ⟨fun h => ?_, fun h => ?_, fun h => absurd h h3⟩
  · rw [h1] at h; cases h
  · rw [h2] at h; cases h

theorem matched_tokOk (u : UC) (r : Rule) (cs l rest : Text) (hm : matchRule u r cs = some (l, rest))
    (hr : r.returnsToken = true) : TokOk u (mkTok u r l) := by
  cases r with
  | comment => cases hr
  | newline => cases hr
  | COMMA => rw [mkTok_plain u _ l rfl]; exact tokOk_other u _ rfl rfl (by simp [ruleKind])
  | RELID => rw [mkTok_plain u _ l rfl]; exact tokOk_other u _ rfl rfl (by simp [ruleKind])
  | CARDINALITY => rw [mkTok_plain u _ l rfl]; exact tokOk_other u _ rfl rfl (by simp [ruleKind])
  | LPAREN => rw [mkTok_plain u _ l rfl]; exact tokOk_other u _ rfl rfl (by simp [ruleKind])
  | RPAREN => rw [mkTok_plain u _ l rfl]; exact tokOk_other u _ rfl rfl (by simp [ruleKind])
  | SEMICOLON => rw [mkTok_plain u _ l rfl]; exact tokOk_other u _ rfl rfl (by simp [ruleKind])
  | MINUS =>
    rw [mkTok_plain u _ l rfl]
    refine ⟨fun h => by simp [isPlainValueTok, ruleKind] at h, fun h => by simp [isNumTok, ruleKind] at h, fun _ => ?_⟩
    simp only [matchRule] at hm
    cases cs with
    | nil => simp [mChar] at hm
    | cons c r =>
      simp only [mChar] at hm
      split at hm
      · rename_i hc
        simp only [Option.some.injEq, Prod.mk.injEq] at hm
        obtain ⟨rfl, _⟩ := hm; rw [hc]
      · cases hm
  | NUMBER =>
    rw [mkTok_plain u _ l rfl]
    simp only [matchRule, mNumber] at hm
    split at hm
    · cases hm
    · rename_i hne
      simp only [Option.some.injEq, Prod.mk.injEq] at hm
      obtain ⟨rfl, _⟩ := hm
      obtain ⟨c, rest', _, hc, htw⟩ := takeWhile_head (by simpa using hne)
      have hd := asciiDigit_isDigit u c hc
      refine ⟨fun _ => ?_, fun _ => ⟨c, _, htw, hd⟩, fun h => by simp [ruleKind] at h⟩
      show Guessable u (cs.takeWhile isAsciiDigit)
      rw [htw]; exact guess_digit_head u c _ hd
  | FRACTION =>
    rw [mkTok_plain u _ l rfl]
    simp only [matchRule, mFraction] at hm
    split at hm
    · cases hm
    · rename_i hne
      split at hm
      · cases hm
      · split at hm
        · split at hm
          · cases hm
          · simp only [Option.some.injEq, Prod.mk.injEq] at hm
            obtain ⟨rfl, _⟩ := hm
            obtain ⟨c, rest', _, hc, htw⟩ := takeWhile_head (by simpa using hne)
            refine ⟨fun _ => ?_, fun _ => ⟨c, _, by rw [htw]; rfl, hc⟩, fun h => by simp [ruleKind] at h⟩
            show Guessable u (cs.takeWhile u.isDigit ++ _)
            rw [htw]; exact guess_digit_head u c _ hc
        · cases hm
  | STRING =>
    rw [mkTok_plain u _ l rfl]
    refine ⟨fun _ => ?_, fun h => by simp [isNumTok, ruleKind] at h, fun h => by simp [ruleKind] at h⟩
    show Guessable u l
    apply guess_quoted u l; left
    simp only [matchRule] at hm
    cases cs with
    | nil => simp [mString] at hm
    | cons c r =>
      simp only [mString] at hm
      split at hm
      · cases hs : scanStr r with
        | none => rw [hs] at hm; cases hm
        | some p =>
          obtain ⟨b, rr⟩ := p
          rw [hs] at hm
          simp only [Option.some.injEq, Prod.mk.injEq] at hm
          obtain ⟨rfl, _⟩ := hm
          have := scanStr_body r b rr hs
          cases h2 : scanStr (b ++ ['\'']) with
          | none => rw [h2] at this; cases this
          | some q => simp [mString, h2]
      · cases hm
  | GUID =>
    rw [mkTok_plain u _ l rfl]
    refine ⟨fun _ => ?_, fun h => by simp [isNumTok, ruleKind] at h, fun h => by simp [ruleKind] at h⟩
    show Guessable u l
    apply guess_quoted u l; right
    simp only [matchRule] at hm
    cases cs with
    | nil => simp [mGuid] at hm
    | cons c r =>
      simp only [mGuid] at hm
      split at hm
      · cases hs : scanGuid r with
        | none => rw [hs] at hm; cases hm
        | some p =>
          obtain ⟨b, rr⟩ := p
          rw [hs] at hm
          simp only [Option.some.injEq, Prod.mk.injEq] at hm
          obtain ⟨rfl, _⟩ := hm
          have := scanGuid_body r b rr hs
          cases h2 : scanGuid (b ++ ['"']) with
          | none => rw [h2] at this; cases this
          | some q => simp [mGuid, h2]
      · cases hm
  | ID =>
    unfold mkTok
    simp only [Rule.retypesReserved, if_true]
    cases hk : kwOf (u.upper l) with
    | none => exact tokOk_other u _ rfl rfl (by simp [ruleKind])
    | some k =>
      simp only
      have hkc : k.chars = u.upper l := by
        unfold kwOf at hk
        have := List.find?_some hk
        simpa using this
      refine ⟨fun h => ?_, fun h => by simp [isNumTok] at h, fun h => by simp at h⟩
      show Guessable u l
      apply guess_bool
      cases k <;> simp [isPlainValueTok] at h
      · right; exact hkc.symm
      · left; exact hkc.symm

theorem step_tokOk (u : UC) (cs rest : Text) (t : Tok) (h : step u cs = .emit t rest) : TokOk u t := by
  unfold step at h
  split at h
  · simp at h
  · rename_i c r
    split at h
    · simp at h
    · split at h
      · simp at h
      · rename_i rule lexeme rest' hm
        split at h
        · rename_i hr
          simp only [Step.emit.injEq] at h; obtain ⟨rfl, _⟩ := h
          exact matched_tokOk u rule (c :: r) lexeme rest' (findSome_matches u _ _ rule lexeme rest' hm) hr
        · simp at h

theorem lexFuel_tokOk (u : UC) : ∀ (n : Nat) (cs : Text) (toks : List Tok), lexFuel u n cs = some toks → ∀ t ∈ toks, TokOk u t := by
  intro n
  induction n with
  | zero => intro cs toks h; simp [lexFuel] at h
  | succ n ih =>
    intro cs toks h
    simp only [lexFuel] at h
    cases hs : step u cs with
    | eof => rw [hs] at h; simp only [Option.some.injEq] at h; subst h; simp
    | skip rest => rw [hs] at h; exact ih rest toks h
    | illegal => rw [hs] at h; cases h
    | emit t rest =>
      rw [hs] at h
      simp only [Option.map_eq_some_iff] at h
      obtain ⟨ts, hts, rfl⟩ := h
      intro x hx
      simp only [List.mem_cons] at hx
      rcases hx with rfl | hx
      · exact step_tokOk u cs rest x hs
      · exact ih rest ts hts x hx

/-- every token the lexer returns has the form the value production relies on -/
theorem lex_tokOk (u : UC) (cs : Text) (toks : List Tok) (h : lex u cs = some toks) : ∀ t ∈ toks, TokOk u t :=
  lexFuel_tokOk u _ cs toks h

/-! ### the parser only ever looks at a suffix of the token list -/

theorem expectK_suffix (k : Kind) (toks r : List Tok) (h : expectK k toks = some r) : r <:+ toks := by
  cases toks with
  | nil => simp [expectK] at h
  | cons t ts =>
    simp only [expectK] at h
    split at h
    · simp only [Option.some.injEq] at h; subst h; exact List.suffix_cons _ _
    · cases h

theorem identAt_suffix (toks : List Tok) (x : Name × List Tok) (h : identAt toks = some x) : x.2 <:+ toks := by
  cases toks with
  | nil => simp [identAt] at h
  | cons t ts =>
    simp only [identAt] at h
    split at h
    · simp only [Option.some.injEq] at h; subst h; exact List.suffix_cons _ _
    · cases h

theorem relidAt_suffix (toks : List Tok) (x : Name × List Tok) (h : relidAt toks = some x) : x.2 <:+ toks := by
  cases toks with
  | nil => simp [relidAt] at h
  | cons t ts =>
    simp only [relidAt] at h
    split at h
    · simp only [Option.some.injEq] at h; subst h; exact List.suffix_cons _ _
    · cases h

theorem cardAt_suffix (toks : List Tok) (x : Text × List Tok) (h : cardAt toks = some x) : x.2 <:+ toks := by
  cases toks with
  | nil => simp [cardAt] at h
  | cons t ts =>
    simp only [cardAt] at h
    split at h
    · split at h
      · simp only [Option.some.injEq] at h; subst h; exact List.suffix_cons _ _
      · cases h
    · split at h
      · simp only [Option.some.injEq] at h; subst h; exact List.suffix_cons _ _
      · cases h
    · simp only [Option.some.injEq] at h; subst h; exact List.suffix_cons _ _
    · cases h

theorem attrAt_suffix (toks : List Tok) (x : (Name × Name) × List Tok) (h : attrAt toks = some x) : x.2 <:+ toks := by
  unfold attrAt at h
  split at h
  · split at h
    · simp only [Option.some.injEq] at h; subst h
      exact (List.suffix_cons _ _).trans (List.suffix_cons _ _)
    · cases h
  · cases h

theorem valueAt_suffix (toks : List Tok) (x : Text × List Tok) (h : valueAt toks = some x) : x.2 <:+ toks := by
  unfold valueAt at h
  split at h
  · split at h
    · simp only [Option.some.injEq] at h; subst h; exact List.suffix_cons _ _
    · split at h
      · split at h
        · split at h
          · simp only [Option.some.injEq] at h; subst h
            exact (List.suffix_cons _ _).trans (List.suffix_cons _ _)
          · cases h
        · cases h
      · cases h
  · cases h

theorem seqTail_suffix {α : Type} (elem : List Tok → Option (α × List Tok))
    (he : ∀ toks x, elem toks = some x → x.2 <:+ toks) :
    ∀ (fuel : Nat) (toks : List Tok) (x : List α × List Tok), seqTail elem fuel toks = some x → x.2 <:+ toks := by
  intro fuel
  induction fuel with
  | zero =>
    intro toks x h
    cases toks with
    | nil => rw [seqTail.eq_def] at h; simp only [Option.some.injEq] at h; subst h; exact List.suffix_refl _
    | cons t r =>
      rw [seqTail.eq_def] at h
      simp only at h
      split at h
      · cases h
      · simp only [Option.some.injEq] at h; subst h; exact List.suffix_refl _
  | succ f ih =>
    intro toks x h
    cases toks with
    | nil => rw [seqTail.eq_def] at h; simp only [Option.some.injEq] at h; subst h; exact List.suffix_refl _
    | cons t r =>
      rw [seqTail.eq_def] at h
      simp only at h
      split at h
      · cases hel : elem r with
        | none => rw [hel] at h; cases h
        | some y =>
          rw [hel] at h; simp only at h
          cases hs : seqTail elem f y.2 with
          | none => rw [hs] at h; cases h
          | some z =>
            rw [hs] at h; simp only [Option.some.injEq] at h; subst h
            exact ((ih y.2 z hs).trans (he r y hel)).trans (List.suffix_cons _ _)
      · simp only [Option.some.injEq] at h; subst h; exact List.suffix_refl _

theorem seqP_suffix {α : Type} (elem : List Tok → Option (α × List Tok))
    (he : ∀ toks x, elem toks = some x → x.2 <:+ toks)
    (toks : List Tok) (x : List α × List Tok) (h : seqP elem toks = some x) : x.2 <:+ toks := by
  unfold seqP at h
  split at h
  · rename_i y r hy
    split at h
    · rename_i xs r' hs
      simp only [Option.some.injEq] at h; subst h
      exact (seqTail_suffix elem he _ r (xs, r') hs).trans (he toks (y, r) hy)
    · cases h
  · exact seqTail_suffix elem he _ toks x h

theorem endAt_suffix (toks : List Tok) (x : EndP × List Tok) (h : endAt toks = some x) : x.2 <:+ toks := by
  simp only [endAt, Option.bind_eq_bind, Option.bind_eq_some_iff] at h
  obtain ⟨a, h1, b, h2, c, h3, d, h4, e, h5, h6⟩ := h
  have l1 := cardAt_suffix _ _ h1
  have l2 := identAt_suffix _ _ h2
  have l3 := expectK_suffix _ _ _ h3
  have l4 := seqP_suffix identAt identAt_suffix _ _ h4
  have l5 := expectK_suffix _ _ _ h5
  have l := (((l5.trans l4).trans l3).trans l2).trans l1
  split at h6
  · simp only [Option.some.injEq] at h6; subst h6
    exact ((List.suffix_cons _ _).trans (List.suffix_cons _ _)).trans l
  · simp only [Option.some.injEq] at h6; subst h6; exact l

theorem stmtAt_suffix (toks : List Tok) (x : Stmt × List Tok) (h : stmtAt toks = some x) : x.2 <:+ toks := by
  unfold stmtAt at h
  cases h1 : pCreateTable toks with
  | some y =>
    simp [h1] at h; subst h
    simp only [pCreateTable, Option.bind_eq_bind, Option.bind_eq_some_iff] at h1
    obtain ⟨a, g1, b, g2, c, g3, d, g4, e, g5, f, g6, g, g7, g8⟩ := h1
    simp only [Option.some.injEq] at g8; subst g8
    exact ((((((expectK_suffix _ _ _ g7).trans (expectK_suffix _ _ _ g6)).trans (seqP_suffix attrAt attrAt_suffix _ _ g5)).trans
      (expectK_suffix _ _ _ g4)).trans (identAt_suffix _ _ g3)).trans (expectK_suffix _ _ _ g2)).trans (expectK_suffix _ _ _ g1)
  | none =>
    cases h2 : pCreateRop toks with
    | some y =>
      simp [h1, h2] at h; subst h
      simp only [pCreateRop, Option.bind_eq_bind, Option.bind_eq_some_iff] at h2
      obtain ⟨a, g1, b, g2, c, g3, d, g4, e, g5, f, g6, g, g7, i, g8, j, g9, g10⟩ := h2
      simp only [Option.some.injEq] at g10; subst g10
      exact ((((((((expectK_suffix _ _ _ g9).trans (endAt_suffix _ _ g8)).trans (expectK_suffix _ _ _ g7)).trans
        (endAt_suffix _ _ g6)).trans (expectK_suffix _ _ _ g5)).trans (relidAt_suffix _ _ g4)).trans
        (expectK_suffix _ _ _ g3)).trans (expectK_suffix _ _ _ g2)).trans (expectK_suffix _ _ _ g1)
    | none =>
      cases h3 : pCreateIndex toks with
      | some y =>
        simp [h1, h2, h3] at h; subst h
        simp only [pCreateIndex, Option.bind_eq_bind, Option.bind_eq_some_iff] at h3
        obtain ⟨a, g1, b, g2, c, g3, d, g4, e, g5, f, g6, g, g7, i, g8, j, g9, k, g10, g11⟩ := h3
        simp only [Option.some.injEq] at g11; subst g11
        exact (((((((((expectK_suffix _ _ _ g10).trans (expectK_suffix _ _ _ g9)).trans
          (seqP_suffix identAt identAt_suffix _ _ g8)).trans (expectK_suffix _ _ _ g7)).trans (identAt_suffix _ _ g6)).trans
          (expectK_suffix _ _ _ g5)).trans (identAt_suffix _ _ g4)).trans (expectK_suffix _ _ _ g3)).trans
          (expectK_suffix _ _ _ g2)).trans (expectK_suffix _ _ _ g1)
      | none =>
        cases h4 : pInsertOrdered toks with
        | some y =>
          simp [h1, h2, h3, h4] at h; subst h
          simp only [pInsertOrdered, Option.bind_eq_bind, Option.bind_eq_some_iff] at h4
          obtain ⟨a, g1, b, g2, c, g3, d, g4, e, g5, f, g6, g, g7, i, g8, g9⟩ := h4
          simp only [Option.some.injEq] at g9; subst g9
          exact (((((((expectK_suffix _ _ _ g8).trans (expectK_suffix _ _ _ g7)).trans
            (seqP_suffix valueAt valueAt_suffix _ _ g6)).trans (expectK_suffix _ _ _ g5)).trans (expectK_suffix _ _ _ g4)).trans
            (identAt_suffix _ _ g3)).trans (expectK_suffix _ _ _ g2)).trans (expectK_suffix _ _ _ g1)
        | none =>
          simp [h1, h2, h3, h4] at h
          simp only [pInsertNamed, Option.bind_eq_bind, Option.bind_eq_some_iff] at h
          obtain ⟨a, g1, b, g2, c, g3, d, g4, e, g5, f, g6, g, g7, i, g8, j, g9, k, g10, l, g11, g12⟩ := h
          simp only [Option.some.injEq] at g12; subst g12
          exact ((((((((((expectK_suffix _ _ _ g11).trans (expectK_suffix _ _ _ g10)).trans
            (seqP_suffix valueAt valueAt_suffix _ _ g9)).trans (expectK_suffix _ _ _ g8)).trans (expectK_suffix _ _ _ g7)).trans
            (expectK_suffix _ _ _ g6)).trans (seqP_suffix identAt identAt_suffix _ _ g5)).trans (expectK_suffix _ _ _ g4)).trans
            (identAt_suffix _ _ g3)).trans (expectK_suffix _ _ _ g2)).trans (expectK_suffix _ _ _ g1)

/-! ### the values of the statements -/

def AllOk (u : UC) (toks : List Tok) : Prop := ∀ t ∈ toks, TokOk u t

theorem AllOk.suffix {u : UC} {r toks : List Tok} (h : AllOk u toks) (hs : r <:+ toks) : AllOk u r :=
  fun t ht => h t (hs.subset ht)

theorem valueAt_guessable (u : UC) (toks : List Tok) (x : Text × List Tok) (ha : AllOk u toks) (h : valueAt toks = some x) :
    Guessable u x.1 := by
  unfold valueAt at h
  split at h
  · rename_i t r
    split at h
    · rename_i hp
      simp only [Option.some.injEq] at h; subst h
      exact (ha t (by simp)).1 hp
    · split at h
      · rename_i hk
        split at h
        · rename_i t2 r2
          split at h
          · rename_i hn
            simp only [Option.some.injEq] at h; subst h
            have hm := (ha t (by simp)).2.2 hk
            obtain ⟨c, rest, htx, hd⟩ := (ha t2 (by simp)).2.1 hn
            show Guessable u (t.text ++ t2.text)
            rw [hm, htx]; exact guess_minus u c rest hd
          · cases h
        · cases h
      · cases h
  · cases h

theorem seqTail_guessable (u : UC) : ∀ (fuel : Nat) (toks : List Tok) (x : List Text × List Tok), AllOk u toks →
    seqTail valueAt fuel toks = some x → ∀ v ∈ x.1, Guessable u v := by
  intro fuel
  induction fuel with
  | zero =>
    intro toks x _ h
    cases toks with
    | nil => rw [seqTail.eq_def] at h; simp only [Option.some.injEq] at h; subst h; simp
    | cons t r =>
      rw [seqTail.eq_def] at h
      simp only at h
      split at h
      · cases h
      · simp only [Option.some.injEq] at h; subst h; simp
  | succ f ih =>
    intro toks x ha h
    cases toks with
    | nil => rw [seqTail.eq_def] at h; simp only [Option.some.injEq] at h; subst h; simp
    | cons t r =>
      rw [seqTail.eq_def] at h
      simp only at h
      split at h
      · have har : AllOk u r := ha.suffix (List.suffix_cons _ _)
        cases hel : valueAt r with
        | none => rw [hel] at h; cases h
        | some y =>
          rw [hel] at h; simp only at h
          cases hs : seqTail valueAt f y.2 with
          | none => rw [hs] at h; cases h
          | some z =>
            rw [hs] at h; simp only [Option.some.injEq] at h; subst h
            intro v hv
            simp only [List.mem_cons] at hv
            rcases hv with rfl | hv
            · exact valueAt_guessable u r y har hel
            · exact ih y.2 z (har.suffix (valueAt_suffix r y hel)) hs v hv
      · simp only [Option.some.injEq] at h; subst h; simp

theorem seqP_guessable (u : UC) (toks : List Tok) (x : List Text × List Tok) (ha : AllOk u toks)
    (h : seqP valueAt toks = some x) : ∀ v ∈ x.1, Guessable u v := by
  unfold seqP at h
  split at h
  · rename_i y r hy
    split at h
    · rename_i xs r' hs
      simp only [Option.some.injEq] at h; subst h
      intro v hv
      simp only [List.mem_cons] at hv
      rcases hv with rfl | hv
      · exact valueAt_guessable u toks (v, r) ha hy
      · exact seqTail_guessable u _ r (xs, r') (ha.suffix (valueAt_suffix toks (y, r) hy)) hs v hv
    · cases h
  · exact seqTail_guessable u _ toks x ha h

/-- the values of one parsed statement are classified -/
def StmtGuessable (u : UC) : Stmt → Prop
  | .insert _ values _ => ∀ v ∈ values, Guessable u v
  | _ => True

theorem stmtAt_guessable (u : UC) (toks : List Tok) (x : Stmt × List Tok) (ha : AllOk u toks) (h : stmtAt toks = some x) :
    StmtGuessable u x.1 := by
  unfold stmtAt at h
  cases h1 : pCreateTable toks with
  | some y =>
    simp [h1] at h; subst h
    simp only [pCreateTable, Option.bind_eq_bind, Option.bind_eq_some_iff] at h1
    obtain ⟨a, g1, b, g2, c, g3, d, g4, e, g5, f, g6, g, g7, g8⟩ := h1
    simp only [Option.some.injEq] at g8; subst g8; trivial
  | none =>
    cases h2 : pCreateRop toks with
    | some y =>
      simp [h1, h2] at h; subst h
      simp only [pCreateRop, Option.bind_eq_bind, Option.bind_eq_some_iff] at h2
      obtain ⟨a, g1, b, g2, c, g3, d, g4, e, g5, f, g6, g, g7, i, g8, j, g9, g10⟩ := h2
      simp only [Option.some.injEq] at g10; subst g10; trivial
    | none =>
      cases h3 : pCreateIndex toks with
      | some y =>
        simp [h1, h2, h3] at h; subst h
        simp only [pCreateIndex, Option.bind_eq_bind, Option.bind_eq_some_iff] at h3
        obtain ⟨a, g1, b, g2, c, g3, d, g4, e, g5, f, g6, g, g7, i, g8, j, g9, k, g10, g11⟩ := h3
        simp only [Option.some.injEq] at g11; subst g11; trivial
      | none =>
        cases h4 : pInsertOrdered toks with
        | some y =>
          simp [h1, h2, h3, h4] at h; subst h
          simp only [pInsertOrdered, Option.bind_eq_bind, Option.bind_eq_some_iff] at h4
          obtain ⟨a, g1, b, g2, c, g3, d, g4, e, g5, f, g6, g, g7, i, g8, g9⟩ := h4
          simp only [Option.some.injEq] at g9; subst g9
          have hsuf := ((((expectK_suffix _ _ _ g5).trans (expectK_suffix _ _ _ g4)).trans
            (identAt_suffix _ _ g3)).trans (expectK_suffix _ _ _ g2)).trans (expectK_suffix _ _ _ g1)
          exact seqP_guessable u e f (ha.suffix hsuf) g6
        | none =>
          simp [h1, h2, h3, h4] at h
          simp only [pInsertNamed, Option.bind_eq_bind, Option.bind_eq_some_iff] at h
          obtain ⟨a, g1, b, g2, c, g3, d, g4, e, g5, f, g6, g, g7, i, g8, j, g9, k, g10, l, g11, g12⟩ := h
          simp only [Option.some.injEq] at g12; subst g12
          have hsuf := (((((((expectK_suffix _ _ _ g8).trans (expectK_suffix _ _ _ g7)).trans
            (expectK_suffix _ _ _ g6)).trans (seqP_suffix identAt identAt_suffix _ _ g5)).trans (expectK_suffix _ _ _ g4)).trans
            (identAt_suffix _ _ g3)).trans (expectK_suffix _ _ _ g2)).trans (expectK_suffix _ _ _ g1)
          exact seqP_guessable u i j (ha.suffix hsuf) g9

theorem parseFuel_guessable (u : UC) : ∀ (n : Nat) (toks : List Tok) (stmts : List Stmt), AllOk u toks →
    parseFuel n toks = some stmts → ∀ st ∈ stmts, StmtGuessable u st := by
  intro n
  induction n with
  | zero =>
    intro toks stmts _ h
    cases toks with
    | nil => simp only [parseFuel, Option.some.injEq] at h; subst h; simp
    | cons t r => simp [parseFuel] at h
  | succ n ih =>
    intro toks stmts ha h
    cases toks with
    | nil => simp only [parseFuel, Option.some.injEq] at h; subst h; simp
    | cons t r =>
      simp only [parseFuel] at h
      cases hs : stmtAt (t :: r) with
      | none => rw [hs] at h; cases h
      | some x =>
        rw [hs] at h; simp only at h
        cases hp : parseFuel n x.2 with
        | none => rw [hp] at h; cases h
        | some ss =>
          rw [hp] at h; simp only [Option.some.injEq] at h; subst h
          intro st hst
          simp only [List.mem_cons] at hst
          rcases hst with rfl | hst
          · exact stmtAt_guessable u (t :: r) x ha hs
          · exact ih x.2 ss (ha.suffix (stmtAt_suffix (t :: r) x hs)) hp st hst

/-- EVERY VALUE OF AN ACCEPTED TEXT IS CLASSIFIED by `guess_type_name` -/
theorem accepted_guessable (u : UC) (text : Text) (stmts : List Stmt) (h : classify u text = .accepted stmts) :
    ValuesGuessable u stmts := by
  unfold classify at h
  cases hl : lex u text with
  | none => simp [hl] at h
  | some toks =>
    simp only [hl] at h
    cases hp : parse toks with
    | none => simp [hp] at h
    | some ss =>
      simp only [hp, Classified.accepted.injEq] at h; subst h
      intro kind values names hm v hv
      exact parseFuel_guessable u _ toks ss (lex_tokOk u text toks hl) hp _ hm v hv

theorem acceptedStmts_guessable (u : UC) (text : Text) : ValuesGuessable u (acceptedStmts u text) := by
  unfold acceptedStmts
  cases h : classify u text with
  | accepted s => exact accepted_guessable u text s h
  | parsing => intro _ _ _ hm; simp at hm

/-- … hence of everything a loader ever holds, whatever texts it was given -/
theorem inputs_guessable (u : UC) (texts : List Text) : ValuesGuessable u (Loader.inputs u Loader.fresh texts).statements := by
  rw [inputs_statements]
  intro kind values names hm v hv
  simp only [Loader.fresh, List.nil_append, List.mem_flatMap] at hm
  obtain ⟨t, _, ht⟩ := hm
  exact acceptedStmts_guessable u t kind values names ht v hv

/-- NO BUILT-IN EXCEPTION, for a loader: whatever texts were fed to it, its build returns a metamodel or raises the metamodel
    or the parsing exception -/
theorem loader_build_documented (u : UC) (texts : List Text) :
    (∃ s, (Loader.inputs u Loader.fresh texts).build u = .ok s) ∨
    (Loader.inputs u Loader.fresh texts).build u = .error .metaErr ∨
    (Loader.inputs u Loader.fresh texts).build u = .error .parseErr :=
  build_documented u _ (inputs_guessable u texts)

end Pyx.Sql
