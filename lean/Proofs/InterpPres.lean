import PyxModel.Interp.Spec

/-!
  Relational Hoare-style combinators for the interpreter monad: `Pres R m` — every successful run of
  `m` relates its start and end configuration by `R`.  Used for well-formedness preservation
  (Proofs/InterpWF.lean) and for frame / scope preservation (Proofs/InterpScope.lean).
-/
set_option linter.unusedSectionVars false
namespace Pyx.Interp
open M

/-! ### relational Hoare-style combinator: every successful run of `m` relates start and end by `R` -/

def Pres {α : Type} (R : Cfg → Cfg → Prop) (m : M α) : Prop :=
  ∀ c a c', m c = some (.ok (a, c')) → R c c'

structure PreOrder (R : Cfg → Cfg → Prop) : Prop where
  refl : ∀ c, R c c
  trans : ∀ a b c, R a b → R b c → R a c

theorem pres_bind {α β : Type} {R : Cfg → Cfg → Prop} (po : PreOrder R) {m : M α} {f : α → M β}
    (hm : Pres R m) (hf : ∀ a, Pres R (f a)) : Pres R (m >>= f) := by
  intro c b c' h
  have h' : M.bnd m f c = some (.ok (b, c')) := h
  unfold M.bnd at h'
  cases hmc : m c with
  | none => rw [hmc] at h'; cases h'
  | some x =>
    rw [hmc] at h'
    cases x with
    | error e => cases h'
    | ok p =>
      obtain ⟨a, c1⟩ := p
      exact po.trans _ _ _ (hm c a c1 hmc) (hf a c1 b c' h')

/-- an action that never changes the configuration -/
def Neutral {α : Type} (m : M α) : Prop := ∀ c a c', m c = some (.ok (a, c')) → c' = c

theorem pres_of_neutral {α : Type} {R : Cfg → Cfg → Prop} (po : PreOrder R) {m : M α} (h : Neutral m) : Pres R m := by
  intro c a c' hc
  rw [h c a c' hc]; exact po.refl c

theorem neutral_pure {α : Type} (a : α) : Neutral (pure a : M α) := by
  intro c b c' h
  have h' : M.ret' a c = some (.ok (b, c')) := h
  simp [M.ret'] at h'; exact h'.2.symm

theorem neutral_fail {α : Type} (msg : String) : Neutral (fail msg : M α) := by
  intro c b c' h; simp [fail] at h

theorem neutral_liftE {α : Type} (x : Except Err α) : Neutral (liftE x) := by
  intro c b c' h
  unfold liftE at h
  split at h
  · simp at h; exact h.2.symm
  · simp at h

theorem neutral_getFr : Neutral getFr := by
  intro c b c' h; simp [getFr] at h; exact h.2.symm

theorem neutral_getSt : Neutral getSt := by
  intro c b c' h; simp [getSt] at h; exact h.2.symm

theorem neutral_querySt {α : Type} (f : State → Except Err α) : Neutral (querySt f) := by
  intro c b c' h
  unfold querySt at h
  split at h
  · simp at h; exact h.2.symm
  · simp at h

theorem neutral_bind {α β : Type} {m : M α} {f : α → M β} (hm : Neutral m) (hf : ∀ a, Neutral (f a)) :
    Neutral (m >>= f) := by
  intro c b c' h
  have h' : M.bnd m f c = some (.ok (b, c')) := h
  unfold M.bnd at h'
  cases hmc : m c with
  | none => rw [hmc] at h'; cases h'
  | some x =>
    rw [hmc] at h'
    cases x with
    | error e => cases h'
    | ok p =>
      obtain ⟨a, c1⟩ := p
      have e1 := hm c a c1 hmc
      subst e1
      exact hf a c1 b c' h'

theorem neutral_asBool (v : Val) : Neutral (asBool v) := by
  unfold asBool; cases v <;> first | exact neutral_pure _ | exact neutral_fail _

theorem neutral_asInst (v : Val) : Neutral (asInst v) := by
  unfold asInst; cases v <;> first | exact neutral_pure _ | exact neutral_fail _

theorem neutral_startOf (v : Val) : Neutral (startOf v) := by
  unfold startOf; cases v <;> first | exact neutral_pure _ | exact neutral_fail _

theorem neutral_lookupVar (C : Ctx) (x : String) : Neutral (lookupVar C x) := by
  unfold lookupVar
  apply neutral_bind neutral_getFr; intro fr
  cases selfHit fr x
  · simp only [Bool.false_eq_true, if_false]
    split
    · exact neutral_pure _
    · split
      · exact neutral_pure _
      · exact neutral_fail _
  · exact neutral_pure _


/-- inversion of a successful bind -/
theorem bind_ok_inv {α β : Type} {m : M α} {f : α → M β} {c c' : Cfg} {b : β}
    (h : (m >>= f) c = some (.ok (b, c'))) : ∃ a c1, m c = some (.ok (a, c1)) ∧ f a c1 = some (.ok (b, c')) := by
  have h' : M.bnd m f c = some (.ok (b, c')) := h
  unfold M.bnd at h'
  cases hmc : m c with
  | none => rw [hmc] at h'; cases h'
  | some x =>
    rw [hmc] at h'
    cases x with
    | error e => cases h'
    | ok p => obtain ⟨a, c1⟩ := p; exact ⟨a, c1, rfl, h'⟩

theorem pres_weaken {α : Type} {R R' : Cfg → Cfg → Prop} (hw : ∀ c c', R c c' → R' c c') {m : M α}
    (h : Pres R m) : Pres R' m := fun c a c' hc => hw _ _ (h c a c' hc)

end Pyx.Interp
