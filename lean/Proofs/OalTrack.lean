import PyxModel.Oal.Track

/-!
  Helper lemmas for the position stamping model (Props/C13.lean): the invariant yacc's attribute computation keeps
  on every stack symbol, and exactness of the stamped span of a tracked production.
-/
namespace Pyx.OalTrack

/-- what is known about a stack symbol from the class of its grammar symbol -/
structure Valid (g : Grammar) (i : Inst) : Prop where
  /-- only symbols of empty productions lack an end position, and they cover no token -/
  noEnd : i.attr.fin = none → i.truth = none
  start : solidStart g i.sym = true → ∃ s, i.truth = some s ∧ i.attr.pos = s.start ∧ i.attr.line = s.line
  fin : solidEnd g i.sym = true → ∃ s, i.truth = some s ∧ i.attr.fin = some (s.stop, s.endLine)
  finOk : okEnd g i.sym = true → i.attr.fin = none ∨ ∃ s, i.truth = some s ∧ i.attr.fin = some (s.stop, s.endLine)

theorem valid_tok (g : Grammar) (s : Span) : Valid g (tokInst s) :=
  ⟨by intro h; simp [tokInst] at h, fun _ => ⟨s, rfl, rfl, rfl⟩, fun _ => ⟨s, rfl, rfl⟩, fun _ => Or.inr ⟨s, rfl, rfl⟩⟩

theorem firstSome_of_mem (l : List (Option Span)) (s : Span) (h : some s ∈ l) : ∃ b, firstSome l = some b := by
  induction l with
  | nil => simp at h
  | cons x l ih =>
    cases x with
    | some a => exact ⟨a, rfl⟩
    | none =>
      simp only [List.mem_cons, reduceCtorEq, false_or] at h
      simpa [firstSome] using ih h

theorem joinTruth_head (ts : List (Option Span)) (s : Span) :
    ∃ b : Span, joinTruth (some s :: ts) =
      some { start := s.start, stop := b.stop, line := s.line, endLine := b.endLine } := by
  obtain ⟨b, hb⟩ := firstSome_of_mem (ts.reverse ++ [some s]) s (by simp)
  exact ⟨b, by simp [joinTruth, firstSome, hb]⟩

theorem joinTruth_last (ts : List (Option Span)) (s : Span) :
    ∃ a : Span, joinTruth (ts ++ [some s]) =
      some { start := a.start, stop := s.stop, line := a.line, endLine := s.endLine } := by
  obtain ⟨a, ha⟩ := firstSome_of_mem (ts ++ [some s]) s (by simp)
  refine ⟨a, ?_⟩
  simp [joinTruth, ha, firstSome]

theorem yaccAttr_nil (junk : Nat × Nat) : yaccAttr junk [] = { pos := junk.1, line := junk.2, fin := none } := rfl

theorem yaccAttr_pos (junk : Nat × Nat) (k : Inst) (rest : List Inst) :
    (yaccAttr junk (k :: rest)).pos = k.attr.pos ∧ (yaccAttr junk (k :: rest)).line = k.attr.line ∧
      (yaccAttr junk (k :: rest)).fin ≠ none := by
  have : ∃ l, (k :: rest).getLast? = some l := by
    cases h : (k :: rest).getLast? with
    | none => simp at h
    | some l => exact ⟨l, rfl⟩
  obtain ⟨l, hl⟩ := this
  simp [yaccAttr, hl]

theorem yaccAttr_fin (junk : Nat × Nat) (init : List Inst) (l : Inst) (f : Nat × Nat) (hf : l.attr.fin = some f) :
    (yaccAttr junk (init ++ [l])).fin = some f := by
  have h1 : (init ++ [l]).getLast? = some l := by simp
  have h2 : ∃ k, (init ++ [l]).head? = some k := by
    cases init with
    | nil => exact ⟨l, rfl⟩
    | cons k _ => exact ⟨k, rfl⟩
  obtain ⟨k, hk⟩ := h2
  simp [yaccAttr, h1, hk, hf]

structure ProdOk (g : Grammar) (p : Prod) : Prop where
  start : g.startSolid.contains p.lhs = true → ∃ x, p.rhs.head? = some x ∧ solidStart g x = true
  fin : g.endSolid.contains p.lhs = true → ∃ x, p.rhs.getLast? = some x ∧ solidEnd g x = true
  finOk : g.endOk.contains p.lhs = true → p.rhs = [] ∨ ∃ x, p.rhs.getLast? = some x ∧ solidEnd g x = true

theorem setsOk_prod {g : Grammar} (h : setsOk g = true) {p : Prod} (hp : p ∈ g.prods) : ProdOk g p := by
  unfold setsOk at h
  have := List.all_eq_true.mp h p hp
  simp only [Bool.and_eq_true, Bool.or_eq_true, Bool.not_eq_true'] at this
  obtain ⟨⟨⟨h1, h2⟩, h3⟩, _⟩ := this
  refine ⟨?_, ?_, ?_⟩
  · intro hc
    rcases h1 with h1 | h1
    · rw [hc] at h1; simp at h1
    · cases hh : p.rhs.head? with
      | none => rw [hh] at h1; simp at h1
      | some x => rw [hh] at h1; exact ⟨x, rfl, h1⟩
  · intro hc
    rcases h2 with h2 | h2
    · rw [hc] at h2; simp at h2
    · cases hh : p.rhs.getLast? with
      | none => rw [hh] at h2; simp at h2
      | some x => rw [hh] at h2; exact ⟨x, rfl, h2⟩
  · intro hc
    rcases h3 with h3 | h3
    · rw [hc] at h3; simp at h3
    · cases hh : p.rhs.getLast? with
      | none => left; simpa using hh
      | some x => rw [hh] at h3; exact Or.inr ⟨x, rfl, h3⟩

/-- kids whose symbols end with `x` end with an instance of `x` -/
theorem kids_last (kids : List Inst) (rhs : List GSym) (hk : kids.map (·.sym) = rhs) (x : GSym)
    (hx : rhs.getLast? = some x) : ∃ init l, kids = init ++ [l] ∧ l.sym = x := by
  rcases List.eq_nil_or_concat kids with rfl | ⟨init, l, rfl⟩
  · simp at hk; subst hk; simp at hx
  · refine ⟨init, l, by simp, ?_⟩
    subst hk
    simpa using hx

theorem kids_head (kids : List Inst) (rhs : List GSym) (hk : kids.map (·.sym) = rhs) (x : GSym)
    (hx : rhs.head? = some x) : ∃ k rest, kids = k :: rest ∧ k.sym = x := by
  cases kids with
  | nil => simp at hk; subst hk; simp at hx
  | cons k rest =>
    subst hk
    exact ⟨k, rest, rfl, by simpa using hx⟩

/-- end of a right-hand side whose last symbol always has a true end -/
theorem end_of_solid_last (g : Grammar) (junk : Nat × Nat) (kids : List Inst) (rhs : List GSym)
    (hk : kids.map (·.sym) = rhs) (hv : ∀ k ∈ kids, Valid g k) (x : GSym) (hx : rhs.getLast? = some x)
    (hs : solidEnd g x = true) :
    ∃ s, joinTruth (kids.map (·.truth)) = some s ∧ (yaccAttr junk kids).fin = some (s.stop, s.endLine) := by
  obtain ⟨init, l, rfl, hl⟩ := kids_last kids rhs hk x hx
  obtain ⟨s, hts, hfs⟩ := (hv l (by simp)).fin (by rw [hl]; exact hs)
  obtain ⟨a, ha⟩ := joinTruth_last (init.map (·.truth)) s
  refine ⟨_, by simpa [hts] using ha, ?_⟩
  exact yaccAttr_fin junk init l _ hfs

/-- yacc's attribute computation keeps the invariant: one reduction from valid symbols gives a valid symbol -/
theorem reduce_valid (g : Grammar) (hs : setsOk g = true) (p : Prod) (hp : p ∈ g.prods) (kids : List Inst)
    (hk : kids.map (·.sym) = p.rhs) (hv : ∀ k ∈ kids, Valid g k) (junk : Nat × Nat) :
    Valid g { sym := .n p.lhs, attr := yaccAttr junk kids, truth := joinTruth (kids.map (·.truth)) } := by
  have pok := setsOk_prod hs hp
  have hfin : solidEnd g (.n p.lhs) = true →
      ∃ s, joinTruth (kids.map (·.truth)) = some s ∧ (yaccAttr junk kids).fin = some (s.stop, s.endLine) := by
    intro hc
    obtain ⟨x, hx, hsx⟩ := pok.fin hc
    exact end_of_solid_last g junk kids p.rhs hk hv x hx hsx
  refine ⟨?_, ?_, hfin, ?_⟩
  · intro hn
    cases kids with
    | nil => rfl
    | cons k rest => exact absurd hn (yaccAttr_pos junk k rest).2.2
  · intro hc
    obtain ⟨x, hx, hsx⟩ := pok.start hc
    obtain ⟨k, rest, rfl, hkx⟩ := kids_head kids p.rhs hk x hx
    obtain ⟨s, hts, hps, hls⟩ := (hv k (by simp)).start (by rw [hkx]; exact hsx)
    obtain ⟨b, hb⟩ := joinTruth_head (rest.map (·.truth)) s
    refine ⟨_, by simpa [hts] using hb, ?_, ?_⟩
    · simp [(yaccAttr_pos junk k rest).1, hps]
    · simp [(yaccAttr_pos junk k rest).2.1, hls]
  · intro hc
    simp only [okEnd, Bool.or_eq_true] at hc
    rcases hc with hc | hc
    · rcases pok.finOk hc with he | ⟨x, hx, hsx⟩
      · left
        have : kids = [] := by
          cases kids with
          | nil => rfl
          | cons k rest => rw [he] at hk; simp at hk
        subst this; rfl
      · exact Or.inr (end_of_solid_last g junk kids p.rhs hk hv x hx hsx)
    · exact Or.inr (hfin hc)

/-- the symbols a parse can put on the stack: exact tokens, and reductions by productions of the table -/
inductive Reach (g : Grammar) : Inst → Prop
  | tok (s : Span) : Reach g (tokInst s)
  | red (p : Prod) (hp : p ∈ g.prods) (kids : List Inst) (junk : Nat × Nat)
      (hk : kids.map (·.sym) = p.rhs) (hr : ∀ k ∈ kids, Reach g k) :
      Reach g { sym := .n p.lhs, attr := yaccAttr junk kids, truth := joinTruth (kids.map (·.truth)) }

theorem reach_valid (g : Grammar) (hs : setsOk g = true) (i : Inst) (h : Reach g i) : Valid g i := by
  induction h with
  | tok s => exact valid_tok g s
  | red p hp kids junk hk _ ih => exact reduce_valid g hs p hp kids hk ih junk

/-- scanning from the right finds the last symbol that covers a token, and its end position is exact -/
theorem scan_find (g : Grammar) (rk : List Inst) (hv : ∀ k ∈ rk, Valid g k)
    (h : endScan g (rk.map (·.sym)) = true) :
    ∃ w s, rk.find? (fun k => k.attr.fin.isSome) = some w ∧ w.attr.fin = some (s.stop, s.endLine) ∧
      firstSome (rk.map (·.truth)) = some s := by
  induction rk with
  | nil => simp [endScan] at h
  | cons x rk ih =>
    simp only [List.map_cons, endScan, Bool.or_eq_true, Bool.and_eq_true] at h
    have hx := hv x (by simp)
    have found : (∃ s, x.truth = some s ∧ x.attr.fin = some (s.stop, s.endLine)) →
        ∃ w s, (x :: rk).find? (fun k => k.attr.fin.isSome) = some w ∧ w.attr.fin = some (s.stop, s.endLine) ∧
          firstSome ((x :: rk).map (·.truth)) = some s := by
      rintro ⟨s, hts, hfs⟩
      exact ⟨x, s, by simp [List.find?, hfs], hfs, by simp [firstSome, hts]⟩
    rcases h with h | ⟨hok, hrest⟩
    · exact found (hx.fin h)
    · rcases hx.finOk hok with hn | hsome
      · obtain ⟨w, s, hw, hwf, hws⟩ := ih (fun k hk => hv k (by simp [hk])) hrest
        refine ⟨w, s, ?_, hwf, ?_⟩
        · simp [List.find?, hn, hw]
        · simp [firstSome, hx.noEnd hn, hws]
      · exact found hsome

theorem endSym_fin (g : Grammar) (k0 : Inst) (rest : List Inst) (hv : ∀ k ∈ k0 :: rest, Valid g k)
    (h : endScan g (((k0 :: rest).map (·.sym)).reverse) = true) :
    ∃ s, (endSym true k0 rest).attr.fin = some (s.stop, s.endLine) ∧
      firstSome (((k0 :: rest).map (·.truth)).reverse) = some s := by
  have h' : endScan g (((k0 :: rest).reverse).map (·.sym)) = true := by rw [List.map_reverse]; exact h
  obtain ⟨w, s, hw, hwf, hws⟩ := scan_find g (k0 :: rest).reverse (fun k hk => hv k (List.mem_reverse.mp hk)) h'
  refine ⟨s, ?_, by rw [← List.map_reverse]; exact hws⟩
  simp only [List.reverse_cons, List.find?_append] at hw
  simp only [endSym, if_true]
  cases hf : rest.reverse.find? (fun k => k.attr.fin.isSome) with
  | some x => rw [hf] at hw; simp at hw; rw [hw]; exact hwf
  | none =>
    rw [hf] at hw
    simp only [Option.none_or, List.find?] at hw
    split at hw
    · simp at hw; rw [hw]; exact hwf
    · simp at hw

/-- the span stamped on the node of a non-empty production whose table entry passes `prodStampOk` is the span of
    the tokens it covers: start of the first, end of the last -/
theorem stamp_kids (g : Grammar) (p : Prod) (hst : prodStampOk g p = true) (kids : List Inst)
    (hk : kids.map (·.sym) = p.rhs) (hv : ∀ k ∈ kids, Valid g k) :
    ∃ s, stamp g.walkBack kids = some s ∧ joinTruth (kids.map (·.truth)) = some s := by
  unfold prodStampOk at hst
  simp only [Bool.and_eq_true, Bool.not_eq_true'] at hst
  obtain ⟨hstart, hne, hend⟩ := hst
  cases kids with
  | nil =>
    have hk' : p.rhs = [] := by simpa using hk.symm
    rw [hk'] at hne; simp at hne
  | cons k0 rest =>
    have hx : p.rhs.head? = some k0.sym := by rw [← hk]; rfl
    rw [hx] at hstart
    obtain ⟨s0, ht0, hp0, hl0⟩ := (hv k0 (by simp)).start hstart
    have hend' : ∃ s, (endSym g.walkBack k0 rest).attr.fin = some (s.stop, s.endLine) ∧
        firstSome (((k0 :: rest).map (·.truth)).reverse) = some s := by
      cases hwb : g.walkBack with
      | true =>
        rw [hwb] at hend
        simp only [if_true] at hend
        exact endSym_fin g k0 rest hv (by rw [hk]; exact hend)
      | false =>
        rw [hwb] at hend
        simp only [Bool.false_eq_true, if_false] at hend
        cases hl : p.rhs.getLast? with
        | none => rw [hl] at hend; simp at hend
        | some x =>
          rw [hl] at hend
          obtain ⟨init, l, hkl, hlx⟩ := kids_last (k0 :: rest) p.rhs hk x hl
          obtain ⟨s, hts, hfs⟩ := (hv l (by rw [hkl]; simp)).fin (by rw [hlx]; exact hend)
          refine ⟨s, ?_, ?_⟩
          · have hgl : (k0 :: rest).getLast? = some l := by rw [hkl]; simp
            have : endSym false k0 rest = l := by
              simp only [endSym, Bool.false_eq_true, if_false]
              cases rest with
              | nil => simp at hgl; simp [hgl]
              | cons r rs =>
                simp only [List.getLast?_cons_cons] at hgl
                simp [hgl]
            rw [this]; exact hfs
          · rw [hkl]; simp [firstSome, hts]
    obtain ⟨s, hfin, hlast⟩ := hend'
    refine ⟨{ start := s0.start, stop := s.stop, line := s0.line, endLine := s.endLine }, ?_, ?_⟩
    · simp [stamp, hfin, hp0, hl0]
    · simp only [List.map_cons, ht0] at hlast
      simp only [joinTruth, List.map_cons, ht0, firstSome, hlast]

end Pyx.OalTrack
