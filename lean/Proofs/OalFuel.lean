import PyxModel.Oal.Stmt

/-!
  Fuel of the token-level parser (C07, audit item 5): for ARBITRARY token lists, a result obtained with any
  amount of fuel is obtained with every amount ≥ 2·(tokens consumed) + 2, and the parsers consume tokens
  (the rest is never longer than the input, strictly shorter for an operand / expression / statement).
  Consequence (`parseExprTop_complete`, `parseStmts_complete`): the fuel-free top-level parsers give `none`
  only when NO amount of fuel would give a result — a rejection by the model is never an exhaustion.
-/
set_option linter.unusedSimpArgs false
set_option linter.unusedVariables false

namespace Pyx.Oal

theorem hk_some_length {ts : List Tok} {k : Kind} (h : hk ts = some k) : 1 ≤ ts.length := by
  cases ts with
  | nil => simp at h
  | cons a r => simp

theorem length_drop1 (ts : List Tok) : (List.drop 1 ts).length = ts.length - 1 := by simp

section expr
variable (t : Tbl)

/-- at fuel `f`: results consume tokens, and are reproduced by every sufficiently large fuel -/
structure SuffE (f : Nat) : Prop where
  params : ∀ ts ps rest, parseParams t f ts = some (ps, rest) →
    rest.length ≤ ts.length ∧ ∀ g, 2 * ts.length + 1 ≤ g + 2 * rest.length → parseParams t g ts = some (ps, rest)
  suffix : ∀ h ts e rest, parseSuffix t f h ts = some (e, rest) →
    rest.length ≤ ts.length ∧ ∀ g, 2 * ts.length + 1 ≤ g + 2 * rest.length → parseSuffix t g h ts = some (e, rest)
  pre : ∀ ts e rest, parsePrefix t f ts = some (e, rest) →
    rest.length < ts.length ∧ ∀ g, 2 * ts.length + 1 ≤ g + 2 * rest.length → parsePrefix t g ts = some (e, rest)
  expr : ∀ m ts e rest, parseExpr t f m ts = some (e, rest) →
    rest.length < ts.length ∧ ∀ g, 2 * ts.length + 2 ≤ g + 2 * rest.length → parseExpr t g m ts = some (e, rest)
  loop : ∀ m na lhs ts e rest, parseLoop t f m na lhs ts = some (e, rest) →
    rest.length ≤ ts.length ∧
      ∀ g, 2 * ts.length + 1 ≤ g + 2 * rest.length → parseLoop t g m na lhs ts = some (e, rest)

theorem gsucc {g n : Nat} (h : n + 1 ≤ g) : ∃ g', g = g' + 1 := ⟨g - 1, by omega⟩

theorem suffE_loop {f : Nat} (ih : SuffE t f) : ∀ m na lhs ts e rest,
    parseLoop t (f + 1) m na lhs ts = some (e, rest) →
    rest.length ≤ ts.length ∧
      ∀ g, 2 * ts.length + 1 ≤ g + 2 * rest.length → parseLoop t g m na lhs ts = some (e, rest) := by
  intro m na lhs ts e rest h
  cases ts with
  | nil =>
    simp only [parseLoop, Option.some.injEq, Prod.mk.injEq] at h
    obtain ⟨rfl, rfl⟩ := h
    refine ⟨Nat.le_refl _, fun g hg => ?_⟩
    obtain ⟨g', rfl⟩ := gsucc (g := g) (n := 0) (by simpa using hg)
    simp only [parseLoop]
  | cons tok ts =>
    simp only [parseLoop] at h
    cases hb : t.bin tok.kind with
    | none =>
      simp only [hb, Option.some.injEq, Prod.mk.injEq] at h
      obtain ⟨rfl, rfl⟩ := h
      refine ⟨Nat.le_refl _, fun g hg => ?_⟩
      obtain ⟨g', rfl⟩ := gsucc (g := g) (n := 0) (by omega)
      simp only [parseLoop, hb]
    | some la =>
      obtain ⟨l, a⟩ := la
      simp only [hb] at h
      by_cases h1 : l < m
      · simp only [h1, ↓reduceIte, Option.some.injEq, Prod.mk.injEq] at h
        obtain ⟨rfl, rfl⟩ := h
        refine ⟨Nat.le_refl _, fun g hg => ?_⟩
        obtain ⟨g', rfl⟩ := gsucc (g := g) (n := 0) (by omega)
        simp only [parseLoop, hb, h1, ↓reduceIte]
      · simp only [h1, ↓reduceIte] at h
        by_cases h2 : na = some l
        · simp [h2] at h
        · simp only [h2, ↓reduceIte] at h
          cases he : parseExpr t f (rmin l a) ts with
          | none => simp only [he, reduceCtorEq] at h
          | some p =>
            obtain ⟨rhs, ts'⟩ := p
            simp only [he] at h
            obtain ⟨hl1, hs1⟩ := ih.expr _ _ _ _ he
            obtain ⟨hl2, hs2⟩ := ih.loop _ _ _ _ _ _ h
            refine ⟨by simp only [List.length_cons]; omega, fun g hg => ?_⟩
            simp only [List.length_cons] at hg
            obtain ⟨g', rfl⟩ := gsucc (g := g) (n := 0) (by omega)
            simp only [parseLoop, hb, h1, ↓reduceIte, h2, hs1 g' (by omega), hs2 g' (by omega)]

theorem suffE_expr {f : Nat} (ih : SuffE t f) : ∀ m ts e rest, parseExpr t (f + 1) m ts = some (e, rest) →
    rest.length < ts.length ∧ ∀ g, 2 * ts.length + 2 ≤ g + 2 * rest.length → parseExpr t g m ts = some (e, rest) := by
  intro m ts e rest h
  simp only [parseExpr] at h
  cases hp : parsePrefix t f ts with
  | none => simp only [hp, reduceCtorEq] at h
  | some p =>
    obtain ⟨lhs, ts'⟩ := p
    simp only [hp] at h
    obtain ⟨hl1, hs1⟩ := ih.pre _ _ _ hp
    obtain ⟨hl2, hs2⟩ := ih.loop _ _ _ _ _ _ h
    refine ⟨by omega, fun g hg => ?_⟩
    obtain ⟨g', rfl⟩ := gsucc (g := g) (n := 0) (by omega)
    simp only [parseExpr, hs1 g' (by omega), hs2 g' (by omega)]

theorem suffE_params {f : Nat} (ih : SuffE t f) : ∀ ts ps rest, parseParams t (f + 1) ts = some (ps, rest) →
    rest.length ≤ ts.length ∧ ∀ g, 2 * ts.length + 1 ≤ g + 2 * rest.length → parseParams t g ts = some (ps, rest) := by
  intro ts ps rest h
  match ts with
  | [] =>
    simp only [parseParams, Option.some.injEq, Prod.mk.injEq] at h
    obtain ⟨rfl, rfl⟩ := h
    refine ⟨Nat.le_refl _, fun g hg => ?_⟩
    obtain ⟨g', rfl⟩ := gsucc (g := g) (n := 0) (by simpa using hg)
    simp only [parseParams]
  | [a] =>
    simp only [parseParams, Option.some.injEq, Prod.mk.injEq] at h
    obtain ⟨rfl, rfl⟩ := h
    refine ⟨Nat.le_refl _, fun g hg => ?_⟩
    obtain ⟨g', rfl⟩ := gsucc (g := g) (n := 0) (by omega)
    simp only [parseParams]
  | nm :: col :: ts =>
    simp only [parseParams] at h
    by_cases hc : nm.kind.isIdent = true ∧ col.kind = .COLON
    · simp only [hc, and_self, ↓reduceIte] at h
      cases he : parseExpr t f 0 ts with
      | none => simp only [he, reduceCtorEq] at h
      | some p =>
        obtain ⟨e, ts'⟩ := p
        simp only [he] at h
        obtain ⟨hl1, hs1⟩ := ih.expr _ _ _ _ he
        by_cases hcm : hk ts' = some .COMMA
        · simp only [hcm, ↓reduceIte] at h
          cases hps : parseParams t f (List.drop 1 ts') with
          | none => simp only [hps, reduceCtorEq] at h
          | some q =>
            obtain ⟨ps', ts''⟩ := q
            simp only [hps, Option.some.injEq, Prod.mk.injEq] at h
            obtain ⟨rfl, rfl⟩ := h
            obtain ⟨hl2, hs2⟩ := ih.params _ _ _ hps
            have hd := length_drop1 ts'
            have h1 := hk_some_length hcm
            refine ⟨by simp only [List.length_cons]; omega, fun g hg => ?_⟩
            simp only [List.length_cons] at hg
            obtain ⟨g', rfl⟩ := gsucc (g := g) (n := 0) (by omega)
            simp only [parseParams, hc, and_self, ↓reduceIte, hs1 g' (by omega), hcm, hs2 g' (by omega)]
        · simp only [hcm, ↓reduceIte, Option.some.injEq, Prod.mk.injEq] at h
          obtain ⟨rfl, rfl⟩ := h
          refine ⟨by simp only [List.length_cons]; omega, fun g hg => ?_⟩
          simp only [List.length_cons] at hg
          obtain ⟨g', rfl⟩ := gsucc (g := g) (n := 0) (by omega)
          simp only [parseParams, hc, and_self, ↓reduceIte, hs1 g' (by omega), hcm]
    · simp only [hc, ↓reduceIte, Option.some.injEq, Prod.mk.injEq] at h
      obtain ⟨rfl, rfl⟩ := h
      refine ⟨Nat.le_refl _, fun g hg => ?_⟩
      obtain ⟨g', rfl⟩ := gsucc (g := g) (n := 0) (by omega)
      simp only [parseParams, hc, ↓reduceIte]

theorem suffE_suffix {f : Nat} (ih : SuffE t f) : ∀ h ts e rest, parseSuffix t (f + 1) h ts = some (e, rest) →
    rest.length ≤ ts.length ∧ ∀ g, 2 * ts.length + 1 ≤ g + 2 * rest.length → parseSuffix t g h ts = some (e, rest) := by
  intro h ts e rest hp
  match ts with
  | [] =>
    simp only [parseSuffix, Option.some.injEq, Prod.mk.injEq] at hp
    obtain ⟨rfl, rfl⟩ := hp
    refine ⟨Nat.le_refl _, fun g hg => ?_⟩
    obtain ⟨g', rfl⟩ := gsucc (g := g) (n := 0) (by simpa using hg)
    simp only [parseSuffix]
  | tok :: ts =>
    by_cases h1 : tok.kind = .DOT
    · simp only [parseSuffix, h1] at hp
      rcases ts with _ | ⟨nm, ts1⟩
      · simp at hp
      · simp only at hp
        by_cases hid : nm.kind.isIdent = true
        · simp only [hid, ↓reduceIte] at hp
          by_cases hlp : hk ts1 = some .LPAREN
          · simp only [hlp, ↓reduceIte] at hp
            by_cases hs : h.isStruct = true
            · simp only [hs, ↓reduceIte] at hp
              cases hps : parseParams t f (List.drop 1 ts1) with
              | none => simp only [hps, reduceCtorEq] at hp
              | some q =>
                obtain ⟨ps, ts2⟩ := q
                simp only [hps] at hp
                by_cases hrp : hk ts2 = some .RPAREN
                · simp only [hrp, ↓reduceIte, Option.some.injEq, Prod.mk.injEq] at hp
                  obtain ⟨rfl, rfl⟩ := hp
                  obtain ⟨hl2, hs2⟩ := ih.params _ _ _ hps
                  have hd1 := length_drop1 ts1
                  have hd2 := length_drop1 ts2
                  have hn1 := hk_some_length hlp
                  have hn2 := hk_some_length hrp
                  refine ⟨by simp only [List.length_cons]; omega, fun g hg => ?_⟩
                  simp only [List.length_cons] at hg
                  obtain ⟨g', rfl⟩ := gsucc (g := g) (n := 0) (by omega)
                  simp only [parseSuffix, h1, hid, ↓reduceIte, hlp, hs, hs2 g' (by omega), hrp]
                · simp [hrp] at hp
            · simp [hs] at hp
          · simp only [hlp, ↓reduceIte] at hp
            by_cases hc : h.isChain = true
            · simp only [hc, ↓reduceIte] at hp
              obtain ⟨hl2, hs2⟩ := ih.suffix _ _ _ _ hp
              refine ⟨by simp only [List.length_cons]; omega, fun g hg => ?_⟩
              simp only [List.length_cons] at hg
              obtain ⟨g', rfl⟩ := gsucc (g := g) (n := 0) (by omega)
              simp only [parseSuffix, h1, hid, ↓reduceIte, hlp, hc, hs2 g' (by omega)]
            · simp [hc] at hp
        · simp [hid] at hp
    · by_cases h2 : tok.kind = .LSQBR
      · simp only [parseSuffix, h2] at hp
        by_cases hi : h.isIndexable = true
        · simp only [hi, ↓reduceIte] at hp
          cases he : parseExpr t f 0 ts with
          | none => simp only [he, reduceCtorEq] at hp
          | some p =>
            obtain ⟨i, ts1⟩ := p
            simp only [he] at hp
            by_cases hr : hk ts1 = some .RSQBR
            · simp only [hr, ↓reduceIte] at hp
              obtain ⟨hl1, hs1⟩ := ih.expr _ _ _ _ he
              obtain ⟨hl2, hs2⟩ := ih.suffix _ _ _ _ hp
              have hd1 := length_drop1 ts1
              have hn1 := hk_some_length hr
              refine ⟨by simp only [List.length_cons]; omega, fun g hg => ?_⟩
              simp only [List.length_cons] at hg
              obtain ⟨g', rfl⟩ := gsucc (g := g) (n := 0) (by omega)
              simp only [parseSuffix, h2, hi, ↓reduceIte, hs1 g' (by omega), hr, hs2 g' (by omega)]
            · simp [hr] at hp
        · simp [hi] at hp
      · simp only [parseSuffix, h1, h2, Option.some.injEq, Prod.mk.injEq] at hp
        obtain ⟨rfl, rfl⟩ := hp
        refine ⟨Nat.le_refl _, fun g hg => ?_⟩
        obtain ⟨g', rfl⟩ := gsucc (g := g) (n := 0) (by omega)
        simp only [parseSuffix, h1, h2]

theorem suffE_param_branch {f : Nat} (ih : SuffE t f) (tok : Tok) (ts : List Tok) (e : Expr) (rest : List Tok) :
    (match ts with
      | d :: nm :: ts' =>
        if d.kind = Kind.DOT ∧ nm.kind.isVarName = true then parseSuffix t f (Expr.param nm) ts' else none
      | _ => none) = some (e, rest) →
    rest.length < (tok :: ts).length ∧ ∀ g', 2 * (tok :: ts).length ≤ g' + 2 * rest.length →
      (match ts with
      | d :: nm :: ts' =>
        if d.kind = Kind.DOT ∧ nm.kind.isVarName = true then parseSuffix t g' (Expr.param nm) ts' else none
      | _ => none) = some (e, rest) := by
  intro hp
  rcases ts with _ | ⟨d, _ | ⟨nm, ts'⟩⟩
  · simp at hp
  · simp at hp
  · simp only at hp
    by_cases hc : d.kind = .DOT ∧ nm.kind.isVarName = true
    · simp only [hc, and_self, ↓reduceIte] at hp
      obtain ⟨hl2, hs2⟩ := ih.suffix _ _ _ _ hp
      refine ⟨by simp only [List.length_cons]; omega, fun g' hg => ?_⟩
      simp only [List.length_cons] at hg
      simp only [hc, and_self, ↓reduceIte, hs2 g' (by omega)]
    · simp [hc] at hp

theorem suffE_pre {f : Nat} (ih : SuffE t f) : ∀ ts e rest, parsePrefix t (f + 1) ts = some (e, rest) →
    rest.length < ts.length ∧ ∀ g, 2 * ts.length + 1 ≤ g + 2 * rest.length → parsePrefix t g ts = some (e, rest) := by
  intro ts e rest hp
  match ts with
  | [] => simp [parsePrefix] at hp
  | tok :: ts =>
    simp only [parsePrefix] at hp
    by_cases hu : t.un tok.kind = true
    · simp only [hu, ↓reduceIte] at hp
      cases he : parseExpr t f t.ulevel ts with
      | none => simp only [he, reduceCtorEq] at hp
      | some p =>
        obtain ⟨e1, ts'⟩ := p
        simp only [he, Option.some.injEq, Prod.mk.injEq] at hp
        obtain ⟨rfl, rfl⟩ := hp
        obtain ⟨hl1, hs1⟩ := ih.expr _ _ _ _ he
        refine ⟨by simp only [List.length_cons]; omega, fun g hg => ?_⟩
        simp only [List.length_cons] at hg
        obtain ⟨g', rfl⟩ := gsucc (g := g) (n := 0) (by omega)
        simp only [parsePrefix, hu, ↓reduceIte, hs1 g' (by omega)]
    · simp only [hu, Bool.false_eq_true, ↓reduceIte] at hp
      by_cases hv : tok.kind.isVarName = true
      · simp only [hv, ↓reduceIte] at hp
        obtain ⟨hl2, hs2⟩ := ih.suffix _ _ _ _ hp
        refine ⟨by simp only [List.length_cons]; omega, fun g hg => ?_⟩
        simp only [List.length_cons] at hg
        obtain ⟨g', rfl⟩ := gsucc (g := g) (n := 0) (by omega)
        simp only [parsePrefix, hu, Bool.false_eq_true, ↓reduceIte, hv, hs2 g' (by omega)]
      · simp only [hv, Bool.false_eq_true, ↓reduceIte] at hp
        -- the shared shape of the goal once the branch of the `match` is known
        have fin : ∀ (body : Nat → Option (Expr × List Tok)),
            (∀ g', parsePrefix t (g' + 1) (tok :: ts) = body g') → rest.length < (tok :: ts).length →
            (∀ g', 2 * (tok :: ts).length ≤ g' + 2 * rest.length → body g' = some (e, rest)) →
            rest.length < (tok :: ts).length ∧
              ∀ g, 2 * (tok :: ts).length + 1 ≤ g + 2 * rest.length → parsePrefix t g (tok :: ts) = some (e, rest) := by
          intro body hb hl hbody
          refine ⟨hl, fun g hg => ?_⟩
          obtain ⟨g', rfl⟩ := gsucc (g := g) (n := 0) (by simp only [List.length_cons] at hg hl; omega)
          rw [hb g']
          exact hbody g' (by omega)
        split at hp
        · next hk' =>
          simp only [Option.some.injEq, Prod.mk.injEq] at hp
          obtain ⟨rfl, rfl⟩ := hp
          exact fin (fun _ => some (.int tok.lex, rest))
            (fun g' => by simp only [parsePrefix, hu, hv, Bool.false_eq_true, ↓reduceIte]; simp only [hk']) (by simp)
            (fun _ _ => rfl)
        · next hk' =>
          simp only [Option.some.injEq, Prod.mk.injEq] at hp
          obtain ⟨rfl, rfl⟩ := hp
          exact fin (fun _ => some (.real tok.lex, rest))
            (fun g' => by simp only [parsePrefix, hu, hv, Bool.false_eq_true, ↓reduceIte]; simp only [hk']) (by simp)
            (fun _ _ => rfl)
        · next hk' =>
          simp only [Option.some.injEq, Prod.mk.injEq] at hp
          obtain ⟨rfl, rfl⟩ := hp
          exact fin (fun _ => some (.str tok.lex, rest))
            (fun g' => by simp only [parsePrefix, hu, hv, Bool.false_eq_true, ↓reduceIte]; simp only [hk']) (by simp)
            (fun _ _ => rfl)
        · next hk' =>
          simp only [Option.some.injEq, Prod.mk.injEq] at hp
          obtain ⟨rfl, rfl⟩ := hp
          exact fin (fun _ => some (.bool true tok.lex, rest))
            (fun g' => by simp only [parsePrefix, hu, hv, Bool.false_eq_true, ↓reduceIte]; simp only [hk']) (by simp)
            (fun _ _ => rfl)
        · next hk' =>
          simp only [Option.some.injEq, Prod.mk.injEq] at hp
          obtain ⟨rfl, rfl⟩ := hp
          exact fin (fun _ => some (.bool false tok.lex, rest))
            (fun g' => by simp only [parsePrefix, hu, hv, Bool.false_eq_true, ↓reduceIte]; simp only [hk']) (by simp)
            (fun _ _ => rfl)
        · next hk' =>
          obtain ⟨hl2, hs2⟩ := ih.suffix _ _ _ _ hp
          exact fin (fun g' => parseSuffix t g' .self ts)
            (fun g' => by simp only [parsePrefix, hu, hv, Bool.false_eq_true, ↓reduceIte]; simp only [hk'])
            (by simp only [List.length_cons]; omega)
            (fun g' hg => hs2 g' (by simp only [List.length_cons] at hg; omega))
        · next hk' =>
          obtain ⟨hl2, hs2⟩ := ih.suffix _ _ _ _ hp
          exact fin (fun g' => parseSuffix t g' .selected ts)
            (fun g' => by simp only [parsePrefix, hu, hv, Bool.false_eq_true, ↓reduceIte]; simp only [hk'])
            (by simp only [List.length_cons]; omega)
            (fun g' hg => hs2 g' (by simp only [List.length_cons] at hg; omega))
        · next hk' =>
          obtain ⟨hl, hb⟩ := suffE_param_branch t ih tok ts e rest hp
          exact fin _ (fun g' => by
            simp only [parsePrefix, hu, hv, Bool.false_eq_true, ↓reduceIte]; simp only [hk']
            rcases ts with _ | ⟨d, _ | ⟨nm, ts'⟩⟩ <;> rfl) hl hb
        · next hk' =>
          obtain ⟨hl, hb⟩ := suffE_param_branch t ih tok ts e rest hp
          exact fin _ (fun g' => by
            simp only [parsePrefix, hu, hv, Bool.false_eq_true, ↓reduceIte]; simp only [hk']
            rcases ts with _ | ⟨d, _ | ⟨nm, ts'⟩⟩ <;> rfl) hl hb
        · next hk' =>
          -- NAMESPACE
          clear fin
          rcases ts with _ | ⟨dc, _ | ⟨nm, ts'⟩⟩
          · simp at hp
          · simp at hp
          · simp only at hp
            by_cases hc : dc.kind = .DOUBLECOLON ∧ nm.kind.isIdent = true
            · simp only [hc, and_self, ↓reduceIte] at hp
              by_cases hlp : hk ts' = some .LPAREN
              · simp only [hlp, ↓reduceIte] at hp
                cases hps : parseParams t f (List.drop 1 ts') with
                | none => simp only [hps, reduceCtorEq] at hp
                | some q =>
                  obtain ⟨ps, ts2⟩ := q
                  simp only [hps] at hp
                  by_cases hrp : hk ts2 = some .RPAREN
                  · simp only [hrp, ↓reduceIte, Option.some.injEq, Prod.mk.injEq] at hp
                    obtain ⟨rfl, rfl⟩ := hp
                    obtain ⟨hl2, hs2⟩ := ih.params _ _ _ hps
                    have hd1 := length_drop1 ts'
                    have hd2 := length_drop1 ts2
                    have hn1 := hk_some_length hlp
                    have hn2 := hk_some_length hrp
                    refine ⟨by simp only [List.length_cons]; omega, fun g hg => ?_⟩
                    simp only [List.length_cons] at hg
                    obtain ⟨g', rfl⟩ := gsucc (g := g) (n := 0) (by omega)
                    simp only [parsePrefix, hu, hv, Bool.false_eq_true, ↓reduceIte]
                    simp only [hk', hc, and_self, ↓reduceIte, hlp, hs2 g' (by omega), hrp]
                  · simp [hrp] at hp
              · simp only [hlp, ↓reduceIte, Option.some.injEq, Prod.mk.injEq] at hp
                obtain ⟨rfl, rfl⟩ := hp
                refine ⟨by simp only [List.length_cons]; omega, fun g hg => ?_⟩
                simp only [List.length_cons] at hg
                obtain ⟨g', rfl⟩ := gsucc (g := g) (n := 0) (by omega)
                simp only [parsePrefix, hu, hv, Bool.false_eq_true, ↓reduceIte]
                simp only [hk', hc, and_self, ↓reduceIte, hlp]
            · simp [hc] at hp
        · next hk' =>
          -- DOUBLECOLON
          clear fin
          rcases ts with _ | ⟨nm, _ | ⟨lp, ts'⟩⟩
          · simp at hp
          · simp at hp
          · simp only at hp
            by_cases hc : nm.kind.isIdent = true ∧ lp.kind = .LPAREN
            · simp only [hc, and_self, ↓reduceIte] at hp
              cases hps : parseParams t f ts' with
              | none => simp only [hps, reduceCtorEq] at hp
              | some q =>
                obtain ⟨ps, ts2⟩ := q
                simp only [hps] at hp
                by_cases hrp : hk ts2 = some .RPAREN
                · simp only [hrp, ↓reduceIte, Option.some.injEq, Prod.mk.injEq] at hp
                  obtain ⟨rfl, rfl⟩ := hp
                  obtain ⟨hl2, hs2⟩ := ih.params _ _ _ hps
                  have hd2 := length_drop1 ts2
                  have hn2 := hk_some_length hrp
                  refine ⟨by simp only [List.length_cons]; omega, fun g hg => ?_⟩
                  simp only [List.length_cons] at hg
                  obtain ⟨g', rfl⟩ := gsucc (g := g) (n := 0) (by omega)
                  simp only [parsePrefix, hu, hv, Bool.false_eq_true, ↓reduceIte]
                  simp only [hk', hc, and_self, ↓reduceIte, hs2 g' (by omega), hrp]
                · simp [hrp] at hp
            · simp [hc] at hp
        · next hk' =>
          -- LPAREN
          cases he : parseExpr t f 0 ts with
          | none => simp only [he, reduceCtorEq] at hp
          | some p =>
            obtain ⟨e1, ts'⟩ := p
            simp only [he] at hp
            by_cases hrp : hk ts' = some .RPAREN
            · simp only [hrp, ↓reduceIte, Option.some.injEq, Prod.mk.injEq] at hp
              obtain ⟨rfl, rfl⟩ := hp
              obtain ⟨hl1, hs1⟩ := ih.expr _ _ _ _ he
              have hd := length_drop1 ts'
              have hn := hk_some_length hrp
              refine ⟨by simp only [List.length_cons]; omega, fun g hg => ?_⟩
              simp only [List.length_cons] at hg
              obtain ⟨g', rfl⟩ := gsucc (g := g) (n := 0) (by omega)
              simp only [parsePrefix, hu, hv, Bool.false_eq_true, ↓reduceIte]
              simp only [hk', hs1 g' (by omega), hrp, ↓reduceIte]
            · simp [hrp] at hp
        · simp at hp

/-- the facts hold for every amount of fuel -/
theorem suffE : ∀ f, SuffE t f
  | 0 => ⟨by intro ts ps rest h; simp [parseParams] at h, by intro h ts e rest hp; simp [parseSuffix] at hp,
      by intro ts e rest h; simp [parsePrefix] at h, by intro m ts e rest h; simp [parseExpr] at h,
      by intro m na lhs ts e rest h; simp [parseLoop] at h⟩
  | f + 1 =>
    have ih := suffE f
    ⟨suffE_params t ih, suffE_suffix t ih, suffE_pre t ih, suffE_expr t ih, suffE_loop t ih⟩

/-- **sufficiency**: a result obtained with any fuel is the result of the fuel-free parser -/
theorem parseExprTop_of_fuel {f m : Nat} {ts : List Tok} {r : Expr × List Tok} (h : parseExpr t f m ts = some r) :
    parseExpr t (fuelFor ts) m ts = some r := by
  obtain ⟨e, rest⟩ := r
  obtain ⟨hl, hs⟩ := (suffE t f).expr m ts e rest h
  exact hs _ (by simp only [fuelFor]; omega)

/-- **completeness of the fuel**: when the fuel-free parser rejects, every amount of fuel rejects -/
theorem parseExprTop_complete {ts : List Tok} (h : parseExprTop t ts = none) (f : Nat) : parseExpr t f 0 ts = none := by
  cases hf : parseExpr t f 0 ts with
  | none => rfl
  | some r =>
    have := parseExprTop_of_fuel t hf
    simp only [parseExprTop] at h
    rw [h] at this
    cases this

/-- **fuel independence**: a result obtained with any fuel is the result with EVERY fuel ≥ 2·|ts| + 2 -/
theorem parseExpr_fuel_indep {f m : Nat} {ts : List Tok} {r : Expr × List Tok} (h : parseExpr t f m ts = some r)
    (g : Nat) (hg : 2 * ts.length + 2 ≤ g) : parseExpr t g m ts = some r := by
  obtain ⟨e, rest⟩ := r
  exact ((suffE t f).expr m ts e rest h).2 g (by omega)

/-- **monotonicity** above the bound: the answer (acceptance with its result, or rejection) does not depend on
    the fuel once it is ≥ 2·|ts| + 2 -/
theorem parseExpr_stable {m : Nat} {ts : List Tok} {g g' : Nat} (hg : 2 * ts.length + 2 ≤ g)
    (hg' : 2 * ts.length + 2 ≤ g') : parseExpr t g m ts = parseExpr t g' m ts := by
  cases h : parseExpr t g m ts with
  | some r => exact (parseExpr_fuel_indep t h g' hg').symm
  | none =>
    cases h' : parseExpr t g' m ts with
    | none => rfl
    | some r => rw [parseExpr_fuel_indep t h' g hg] at h; cases h

/-- the parser consumes at least one token -/
theorem parseExpr_consumes {f m : Nat} {ts : List Tok} {e : Expr} {rest : List Tok}
    (h : parseExpr t f m ts = some (e, rest)) : rest.length < ts.length :=
  ((suffE t f).expr m ts e rest h).1


/-- uniform forms (one bound for every parser) -/
theorem suf_expr {f m : Nat} {ts : List Tok} {e : Expr} {rest : List Tok} (h : parseExpr t f m ts = some (e, rest)) :
    rest.length < ts.length ∧ ∀ g, 2 * ts.length + 2 ≤ g + 2 * rest.length → parseExpr t g m ts = some (e, rest) :=
  (suffE t f).expr m ts e rest h

theorem suf_prefix {f : Nat} {ts : List Tok} {e : Expr} {rest : List Tok} (h : parsePrefix t f ts = some (e, rest)) :
    rest.length < ts.length ∧ ∀ g, 2 * ts.length + 2 ≤ g + 2 * rest.length → parsePrefix t g ts = some (e, rest) :=
  ⟨((suffE t f).pre ts e rest h).1, fun g hg => ((suffE t f).pre ts e rest h).2 g (by omega)⟩

theorem suf_params {f : Nat} {ts : List Tok} {ps : Params} {rest : List Tok} (h : parseParams t f ts = some (ps, rest)) :
    rest.length ≤ ts.length ∧ ∀ g, 2 * ts.length + 2 ≤ g + 2 * rest.length → parseParams t g ts = some (ps, rest) :=
  ⟨((suffE t f).params ts ps rest h).1, fun g hg => ((suffE t f).params ts ps rest h).2 g (by omega)⟩

end expr

/-! ### statements: the helpers without fuel only consume -/

theorem expectK_len {k : Kind} {ts r : List Tok} (h : expectK k ts = some r) : r.length + 1 = ts.length := by
  cases ts with
  | nil => simp [expectK] at h
  | cons a ts =>
    simp only [expectK] at h
    split at h <;> simp_all

theorem takeIdent_len {ts r : List Tok} {x : Tok} (h : takeIdent ts = some (x, r)) : r.length + 1 = ts.length := by
  cases ts with
  | nil => simp [takeIdent] at h
  | cons a ts =>
    simp only [takeIdent] at h
    split at h <;> simp_all

theorem takeVarName_len {ts r : List Tok} {x : Tok} (h : takeVarName ts = some (x, r)) : r.length + 1 = ts.length := by
  cases ts with
  | nil => simp [takeVarName] at h
  | cons a ts =>
    simp only [takeVarName] at h
    split at h <;> simp_all

theorem optK_len (k : Kind) (ts : List Tok) : (optK k ts).2.length ≤ ts.length := by
  simp only [optK]
  split <;> simp

theorem parseInstName_len {ts r : List Tok} {x : InstName} (h : parseInstName ts = some (x, r)) :
    r.length + 1 = ts.length := by
  cases ts with
  | nil => simp [parseInstName] at h
  | cons a ts =>
    simp only [parseInstName] at h
    split at h
    · simp_all
    · split at h <;> simp_all

theorem parsePhrase_len {ts r : List Tok} {x : Phrase} (h : parsePhrase ts = some (x, r)) :
    r.length + 1 = ts.length := by
  cases ts with
  | nil => simp [parsePhrase] at h
  | cons a ts =>
    simp only [parsePhrase] at h
    split at h
    · simp_all
    · split at h <;> simp_all

theorem parseOptPhrase_len {ts r : List Tok} {x : Option Phrase} (h : parseOptPhrase ts = some (x, r)) :
    r.length ≤ ts.length := by
  simp only [parseOptPhrase] at h
  split at h
  · split at h
    · rename_i p ts' hp
      have := parsePhrase_len hp
      have := length_drop1 ts
      simp only [Option.some.injEq, Prod.mk.injEq] at h
      obtain ⟨_, rfl⟩ := h
      omega
    · contradiction
  · simp only [Option.some.injEq, Prod.mk.injEq] at h
    obtain ⟨_, rfl⟩ := h
    exact Nat.le_refl _

theorem parseEvMeaning_len {ts r : List Tok} {x : Option Phrase} (h : parseEvMeaning ts = some (x, r)) :
    r.length ≤ ts.length := by
  simp only [parseEvMeaning] at h
  split at h
  · split at h
    · rename_i p ts' hp
      have := parsePhrase_len hp
      have := length_drop1 ts
      simp only [Option.some.injEq, Prod.mk.injEq] at h
      obtain ⟨_, rfl⟩ := h
      omega
    · contradiction
  · simp only [Option.some.injEq, Prod.mk.injEq] at h
    obtain ⟨_, rfl⟩ := h
    exact Nat.le_refl _

theorem parseCard_len {ts r : List Tok} {x : CardTok} (h : parseCard ts = some (x, r)) : r.length + 1 = ts.length := by
  cases ts with
  | nil => simp [parseCard] at h
  | cons a ts =>
    simp only [parseCard] at h
    repeat' split at h
    all_goals simp_all

theorem parseInstOf_len {ts r : List Tok} {x : Bool} (h : parseInstOf ts = some (x, r)) : r.length ≤ ts.length := by
  simp only [parseInstOf] at h
  split at h <;> simp only [Option.some.injEq, Prod.mk.injEq] at h <;> obtain ⟨_, rfl⟩ := h <;> simp

theorem parseNavStep_len {ts r : List Tok} {x : NavStep} (h : parseNavStep ts = some (x, r)) :
    r.length < ts.length := by
  simp only [parseNavStep, Option.bind_eq_bind, Option.pure_def, Option.bind_eq_some_iff, Option.some.injEq,
    Prod.mk.injEq, Prod.exists] at h
  obtain ⟨ts1, h1, kl, ts2, h2, ts3, h3, rel, ts4, h4, ph, ts5, h5, ts6, h6, _, rfl⟩ := h
  have := expectK_len h1
  have := takeIdent_len h2
  have := expectK_len h3
  have := takeIdent_len h4
  have := parseOptPhrase_len h5
  have := expectK_len h6
  omega

theorem parseRel_len {un : Bool} {ts r : List Tok} {x : Stmt} (h : parseRel un ts = some (x, r)) :
    r.length < ts.length := by
  simp only [parseRel] at h
  split at h <;> try contradiction
  rename_i a ts1 h1
  split at h <;> try contradiction
  rename_i ts2 h2
  split at h <;> try contradiction
  rename_i b ts3 h3
  split at h <;> try contradiction
  rename_i ts4 h4
  split at h <;> try contradiction
  rename_i rr ts5 h5
  split at h <;> try contradiction
  rename_i ph ts6 h6
  have := parseInstName_len h1
  have := expectK_len h2
  have := parseInstName_len h3
  have := expectK_len h4
  have := takeVarName_len h5
  have := parseOptPhrase_len h6
  split at h
  · split at h <;> try contradiction
    rename_i u ts7 h7
    have := parseInstName_len h7
    have := length_drop1 ts6
    simp only [Option.some.injEq, Prod.mk.injEq] at h
    obtain ⟨_, rfl⟩ := h
    omega
  · simp only [Option.some.injEq, Prod.mk.injEq] at h
    obtain ⟨_, rfl⟩ := h
    omega

/-- `h : some (a, b) = some (x, rest)`: substitute -/
macro "fin_inj " h:ident : tactic =>
  `(tactic| (simp only [Option.some.injEq, Prod.mk.injEq] at $h:ident; obtain ⟨rfl, rfl⟩ := $h:ident))

section stmt
variable (t : Tbl)

theorem suf_access {f : Nat} {ts : List Tok} {e : Expr} {rest : List Tok} (h : parseAccess t f ts = some (e, rest)) :
    rest.length < ts.length ∧ ∀ g, 2 * ts.length + 2 ≤ g + 2 * rest.length → parseAccess t g ts = some (e, rest) := by
  simp only [parseAccess] at h
  split at h <;> try contradiction
  rename_i hc
  obtain ⟨hl, hs⟩ := suf_prefix t h
  exact ⟨hl, fun g hg => by simp only [parseAccess, hc, ↓reduceIte, hs g hg]⟩

theorem suf_navchain : ∀ (f : Nat) (ts : List Tok) (x : List NavStep) (rest : List Tok),
    parseNavChain f ts = some (x, rest) →
    rest.length < ts.length ∧ ∀ g, 2 * ts.length + 2 ≤ g + 2 * rest.length → parseNavChain g ts = some (x, rest)
  | 0, ts, x, rest => by simp [parseNavChain]
  | f + 1, ts, x, rest => by
    intro h
    simp only [parseNavChain] at h
    split at h <;> try contradiction
    rename_i st ts' h1
    have := parseNavStep_len h1
    split at h
    · rename_i hc
      split at h <;> try contradiction
      rename_i more ts'' h2
      obtain ⟨hl, hs⟩ := suf_navchain f _ _ _ h2
      fin_inj h
      refine ⟨by omega, fun g hg => ?_⟩
      obtain ⟨g', rfl⟩ := gsucc (g := g) (n := 0) (by omega)
      simp only [parseNavChain, h1, hc, ↓reduceIte, hs g' (by omega)]
    · rename_i hc
      fin_inj h
      refine ⟨by omega, fun g hg => ?_⟩
      obtain ⟨g', rfl⟩ := gsucc (g := g) (n := 0) (by omega)
      simp only [parseNavChain, h1, hc, ↓reduceIte]

theorem suf_evdata {f : Nat} {id : Tok} {star : Bool} {meaning : Option Phrase} {ts : List Tok} {x : EvSpec}
    {rest : List Tok} (h : parseEvData t f id star meaning ts = some (x, rest)) :
    rest.length ≤ ts.length ∧
      ∀ g, 2 * ts.length + 2 ≤ g + 2 * rest.length → parseEvData t g id star meaning ts = some (x, rest) := by
  simp only [parseEvData] at h
  split at h
  · rename_i hc
    split at h <;> try contradiction
    rename_i ps ts' h1
    split at h <;> try contradiction
    rename_i ts'' h2
    fin_inj h
    obtain ⟨hl, hs⟩ := suf_params t h1
    have := expectK_len h2
    have := length_drop1 ts
    refine ⟨by omega, fun g hg => ?_⟩
    simp only [parseEvData, hc, ↓reduceIte, hs g (by omega), h2]
  · rename_i hc
    fin_inj h
    exact ⟨Nat.le_refl _, fun g hg => by simp only [parseEvData, hc, ↓reduceIte]⟩

theorem suf_evspec {f : Nat} {ts : List Tok} {x : EvSpec} {rest : List Tok} (h : parseEvSpec t f ts = some (x, rest)) :
    rest.length < ts.length ∧ ∀ g, 2 * ts.length + 2 ≤ g + 2 * rest.length → parseEvSpec t g ts = some (x, rest) := by
  simp only [parseEvSpec] at h
  split at h <;> try contradiction
  rename_i id ts1 h1
  split at h <;> try contradiction
  rename_i meaning ts2 h2
  obtain ⟨hl, hs⟩ := suf_evdata t h
  have := takeIdent_len h1
  have := optK_len .TIMES ts1
  have := parseEvMeaning_len h2
  refine ⟨by omega, fun g hg => ?_⟩
  simp only [parseEvSpec, h1, h2, hs g (by omega)]

theorem suf_evtarget {f : Nat} {ts : List Tok} {x : EvTarget} {rest : List Tok}
    (h : parseEvTarget t f ts = some (x, rest)) :
    rest.length < ts.length ∧ ∀ g, 2 * ts.length + 2 ≤ g + 2 * rest.length → parseEvTarget t g ts = some (x, rest) := by
  simp only [parseEvTarget] at h
  split at h
  · rename_i hc
    split at h <;> try contradiction
    rename_i nm w ts'
    split at h
    · rename_i hw
      fin_inj h
      exact ⟨by simp only [List.length_cons]; omega, fun g hg => by simp only [parseEvTarget, hc, and_self, ↓reduceIte, hw]⟩
    · rename_i hw
      fin_inj h
      exact ⟨by simp only [List.length_cons]; omega, fun g hg => by simp only [parseEvTarget, hc, and_self, ↓reduceIte, hw]⟩
  · rename_i hc
    split at h <;> try contradiction
    rename_i e ts' h1
    split at h <;> try contradiction
    rename_i hh
    fin_inj h
    obtain ⟨hl, hs⟩ := suf_access t h1
    exact ⟨hl, fun g hg => by simp only [parseEvTarget, hc, ↓reduceIte, hs g hg, hh]⟩

theorem suf_optwhere {f : Nat} {ts : List Tok} {x : Option Expr} {rest : List Tok}
    (h : parseOptWhere t f ts = some (x, rest)) :
    rest.length ≤ ts.length ∧ ∀ g, 2 * ts.length + 2 ≤ g + 2 * rest.length → parseOptWhere t g ts = some (x, rest) := by
  simp only [parseOptWhere] at h
  split at h
  · rename_i hc
    split at h <;> try contradiction
    rename_i e ts' h1
    fin_inj h
    obtain ⟨hl, hs⟩ := suf_expr t h1
    have := length_drop1 ts
    exact ⟨by omega, fun g hg => by simp only [parseOptWhere, hc, ↓reduceIte, hs g (by omega)]⟩
  · rename_i hc
    fin_inj h
    exact ⟨Nat.le_refl _, fun g hg => by simp only [parseOptWhere, hc, ↓reduceIte]⟩

theorem suf_selfrom {f : Nat} {card : CardTok} {v : Tok} {ts : List Tok} {x : Stmt} {rest : List Tok}
    (h : parseSelFrom t f card v ts = some (x, rest)) :
    rest.length < ts.length ∧
      ∀ g, 2 * ts.length + 2 ≤ g + 2 * rest.length → parseSelFrom t g card v ts = some (x, rest) := by
  simp only [parseSelFrom] at h
  split at h <;> try contradiction
  rename_i io ts1 h1
  split at h <;> try contradiction
  rename_i kl ts2 h2
  split at h <;> try contradiction
  rename_i w ts3 h3
  fin_inj h
  obtain ⟨hl, hs⟩ := suf_optwhere t h3
  have := parseInstOf_len h1
  have := takeIdent_len h2
  exact ⟨by omega, fun g hg => by simp only [parseSelFrom, h1, h2, hs g (by omega)]⟩

theorem suf_selrel {f : Nat} {card : CardTok} {v : Tok} {ts : List Tok} {x : Stmt} {rest : List Tok}
    (h : parseSelRel t f card v ts = some (x, rest)) :
    rest.length < ts.length ∧
      ∀ g, 2 * ts.length + 2 ≤ g + 2 * rest.length → parseSelRel t g card v ts = some (x, rest) := by
  simp only [parseSelRel] at h
  split at h <;> try contradiction
  rename_i hook ts1 h1
  split at h <;> try contradiction
  rename_i hh
  split at h <;> try contradiction
  rename_i chain ts2 h2
  split at h <;> try contradiction
  rename_i w ts3 h3
  fin_inj h
  obtain ⟨hl1, hs1⟩ := suf_access t h1
  obtain ⟨hl2, hs2⟩ := suf_navchain _ _ _ _ h2
  obtain ⟨hl3, hs3⟩ := suf_optwhere t h3
  exact ⟨by omega, fun g hg => by
    simp only [parseSelRel, hs1 g (by omega), hh, ↓reduceIte, hs2 g (by omega), hs3 g (by omega)]⟩

theorem suf_select {f : Nat} {ts : List Tok} {x : Stmt} {rest : List Tok}
    (h : parseSelect t f ts = some (x, rest)) :
    rest.length < ts.length ∧ ∀ g, 2 * ts.length + 2 ≤ g + 2 * rest.length → parseSelect t g ts = some (x, rest) := by
  simp only [parseSelect] at h
  split at h <;> try contradiction
  rename_i card ts1 h1
  split at h <;> try contradiction
  rename_i v ts2 h2
  have := parseCard_len h1
  have := takeVarName_len h2
  split at h
  · rename_i hc
    split at h <;> try contradiction
    rename_i hone
    obtain ⟨hl, hs⟩ := suf_selfrom t h
    have := length_drop1 ts2
    exact ⟨by omega, fun g hg => by simp only [parseSelect, h1, h2, hc, ↓reduceIte, hone, hs g (by omega)]⟩
  · rename_i hc
    split at h <;> try contradiction
    rename_i ts3 h3
    split at h <;> try contradiction
    rename_i ts4 h4
    obtain ⟨hl, hs⟩ := suf_selrel t h
    have := expectK_len h3
    have := expectK_len h4
    exact ⟨by omega, fun g hg => by simp only [parseSelect, h1, h2, hc, ↓reduceIte, h3, h4, hs g (by omega)]⟩

theorem suf_kw {f : Nat} {k : IKind} {ts : List Tok} {x : Stmt} {rest : List Tok}
    (h : parseKw t f k ts = some (x, rest)) :
    rest.length < ts.length ∧ ∀ g, 2 * ts.length + 2 ≤ g + 2 * rest.length → parseKw t g k ts = some (x, rest) := by
  simp only [parseKw] at h
  split at h
  · rename_i ns n ps ts' h1
    obtain ⟨hl1, hs1⟩ := suf_access t h1
    split at h
    · rename_i hc
      split at h <;> try contradiction
      rename_i e ts'' h2
      fin_inj h
      obtain ⟨hl2, hs2⟩ := suf_expr t h2
      have := length_drop1 ts'
      exact ⟨by omega, fun g hg => by simp only [parseKw, hs1 g (by omega), hc, and_self, ↓reduceIte, hs2 g (by omega)]⟩
    · rename_i hc
      fin_inj h
      exact ⟨by omega, fun g hg => by simp only [parseKw, hs1 g (by omega), hc, ↓reduceIte]⟩
  · rename_i hh n ps ts' h1
    obtain ⟨hl1, hs1⟩ := suf_access t h1
    split at h <;> try contradiction
    rename_i hc
    fin_inj h
    exact ⟨by omega, fun g hg => by simp only [parseKw, hs1 g (by omega), hc, ↓reduceIte]⟩
  · rename_i va ts' hni hno h1
    obtain ⟨hl1, hs1⟩ := suf_access t h1
    split at h <;> try contradiction
    rename_i hc
    have := length_drop1 ts'
    split at h
    · rename_i ns n ps ts'' h2
      obtain ⟨hl2, hs2⟩ := suf_access t h2
      fin_inj h
      refine ⟨by omega, fun g hg => ?_⟩
      cases va <;> simp only [Expr.isVarAccess, Bool.false_eq_true, false_and] at hc <;>
        simp only [parseKw, hs1 g (by omega), Expr.isVarAccess, hc, and_self, ↓reduceIte, hs2 g (by omega)]
    · rename_i hh n ps ts'' h2
      obtain ⟨hl2, hs2⟩ := suf_access t h2
      split at h <;> try contradiction
      rename_i hk'
      fin_inj h
      refine ⟨by omega, fun g hg => ?_⟩
      cases va <;> simp only [Expr.isVarAccess, Bool.false_eq_true, false_and] at hc <;>
        simp only [parseKw, hs1 g (by omega), Expr.isVarAccess, hc, and_self, ↓reduceIte, hs2 g (by omega), hk']
    · contradiction
  · contradiction

/-- at fuel `f`: statement-level results consume tokens and are reproduced by every sufficiently large fuel -/
structure SuffS (f : Nat) : Prop where
  stmt : ∀ ts x rest, parseStmt t f ts = some (x, rest) →
    rest.length < ts.length ∧ ∀ g, 2 * ts.length + 2 ≤ g + 2 * rest.length → parseStmt t g ts = some (x, rest)
  block : ∀ ts x rest, parseBlock t f ts = some (x, rest) →
    rest.length ≤ ts.length ∧ ∀ g, 2 * ts.length + 2 ≤ g + 2 * rest.length → parseBlock t g ts = some (x, rest)
  elifs : ∀ ts x rest, parseElifs t f ts = some (x, rest) →
    rest.length ≤ ts.length ∧ ∀ g, 2 * ts.length + 2 ≤ g + 2 * rest.length → parseElifs t g ts = some (x, rest)
  else_ : ∀ ts x rest, parseElse t f ts = some (x, rest) →
    rest.length ≤ ts.length ∧ ∀ g, 2 * ts.length + 2 ≤ g + 2 * rest.length → parseElse t g ts = some (x, rest)

set_option hygiene false in
/-- open the goal `rest.length ≤/< ts.length ∧ ∀ g, … → P g`: the length part by `omega`, then `g = g' + 1` -/
macro "enter_fuel" : tactic =>
  `(tactic| (refine ⟨by (try simp only [List.length_cons]); omega, fun g hg => ?_⟩
             try simp only [List.length_cons] at hg
             obtain ⟨g', rfl⟩ := gsucc (g := g) (n := 0) (by omega)))

theorem suffS_else {f : Nat} (ih : SuffS t f) : ∀ ts x rest, parseElse t (f + 1) ts = some (x, rest) →
    rest.length ≤ ts.length ∧ ∀ g, 2 * ts.length + 2 ≤ g + 2 * rest.length → parseElse t g ts = some (x, rest) := by
  intro ts x rest h
  simp only [parseElse] at h
  split at h
  · rename_i hc
    split at h <;> try contradiction
    rename_i b ts1 h1
    fin_inj h
    obtain ⟨hl, hs⟩ := ih.block _ _ _ h1
    have := length_drop1 ts
    have := hk_some_length hc
    enter_fuel
    simp only [parseElse, hc, ↓reduceIte, hs g' (by omega)]
  · rename_i hc
    fin_inj h
    enter_fuel
    simp only [parseElse, hc, ↓reduceIte]

theorem suffS_elifs {f : Nat} (ih : SuffS t f) : ∀ ts x rest, parseElifs t (f + 1) ts = some (x, rest) →
    rest.length ≤ ts.length ∧ ∀ g, 2 * ts.length + 2 ≤ g + 2 * rest.length → parseElifs t g ts = some (x, rest) := by
  intro ts x rest h
  simp only [parseElifs] at h
  split at h
  · rename_i hc
    split at h <;> try contradiction
    rename_i c ts1 h1
    split at h <;> try contradiction
    rename_i b ts2 h2
    split at h <;> try contradiction
    rename_i more ts3 h3
    fin_inj h
    obtain ⟨hl1, hs1⟩ := suf_expr t h1
    obtain ⟨hl2, hs2⟩ := ih.block _ _ _ h2
    obtain ⟨hl3, hs3⟩ := ih.elifs _ _ _ h3
    have := length_drop1 ts
    have := hk_some_length hc
    have := optK_len .THEN ts1
    enter_fuel
    simp only [parseElifs, hc, ↓reduceIte, hs1 g' (by omega), hs2 g' (by omega), hs3 g' (by omega)]
  · rename_i hc
    fin_inj h
    enter_fuel
    simp only [parseElifs, hc, ↓reduceIte]

theorem suffS_block {f : Nat} (ih : SuffS t f) : ∀ ts x rest, parseBlock t (f + 1) ts = some (x, rest) →
    rest.length ≤ ts.length ∧ ∀ g, 2 * ts.length + 2 ≤ g + 2 * rest.length → parseBlock t g ts = some (x, rest) := by
  intro ts x rest h
  cases ts with
  | nil =>
    simp only [parseBlock] at h
    fin_inj h
    enter_fuel
    simp only [parseBlock]
  | cons tok ts =>
    simp only [parseBlock] at h
    split at h
    · rename_i hc
      obtain ⟨hl, hs⟩ := ih.block _ _ _ h
      enter_fuel
      simp only [parseBlock, hc, ↓reduceIte, hs g' (by omega)]
    · rename_i hc
      split at h
      · rename_i hst
        split at h <;> try contradiction
        rename_i s ts1 h1
        split at h <;> try contradiction
        rename_i ts2 h2
        split at h <;> try contradiction
        rename_i b ts3 h3
        fin_inj h
        obtain ⟨hl1, hs1⟩ := ih.stmt _ _ _ h1
        obtain ⟨hl3, hs3⟩ := ih.block _ _ _ h3
        have := expectK_len h2
        simp only [List.length_cons] at hl1
        enter_fuel
        simp only [parseBlock, hc, ↓reduceIte, hst, hs1 g' (by simp only [List.length_cons]; omega), h2,
          hs3 g' (by omega)]
      · rename_i hst
        fin_inj h
        enter_fuel
        simp only [parseBlock, hc, ↓reduceIte, hst, Bool.false_eq_true]

theorem suffS_stmt {f : Nat} (ih : SuffS t f) : ∀ ts x rest, parseStmt t (f + 1) ts = some (x, rest) →
    rest.length < ts.length ∧ ∀ g, 2 * ts.length + 2 ≤ g + 2 * rest.length → parseStmt t g ts = some (x, rest) := by
  intro ts x rest h
  cases ts with
  | nil => simp [parseStmt] at h
  | cons tok ts =>
    simp only [parseStmt] at h
    split at h
    · -- an access chain or an invocation first
      rename_i hst
      split at h <;> try contradiction
      rename_i a ts' h1
      obtain ⟨hl1, hs1⟩ := (suffE t f).pre _ _ _ h1
      simp only [List.length_cons] at hl1 hs1
      split at h
      · rename_i heq
        split at h <;> try contradiction
        rename_i hva
        split at h <;> try contradiction
        rename_i e ts'' h2
        fin_inj h
        obtain ⟨hl2, hs2⟩ := suf_expr t h2
        have := length_drop1 ts'
        enter_fuel
        simp only [parseStmt, hst, ↓reduceIte, hs1 g' (by omega), heq, hva, hs2 g' (by omega)]
      · rename_i heq
        split at h <;> try contradiction
        rename_i hinv
        fin_inj h
        enter_fuel
        simp only [parseStmt, hst, ↓reduceIte, hs1 g' (by omega), heq, hinv]
    · rename_i hst
      split at h
      · -- BREAK
        rename_i hk'
        fin_inj h
        enter_fuel
        simp only [parseStmt, hst, Bool.false_eq_true, ↓reduceIte]
        simp only [hk']
      · -- CONTINUE
        rename_i hk'
        fin_inj h
        enter_fuel
        simp only [parseStmt, hst, Bool.false_eq_true, ↓reduceIte]
        simp only [hk']
      · -- CONTROL STOP
        rename_i hk'
        split at h <;> try contradiction
        rename_i ts' h1
        fin_inj h
        have := expectK_len h1
        enter_fuel
        simp only [parseStmt, hst, Bool.false_eq_true, ↓reduceIte]
        simp only [hk', h1]
      · -- RETURN
        rename_i hk'
        split at h
        · rename_i hc
          fin_inj h
          enter_fuel
          simp only [parseStmt, hst, Bool.false_eq_true, ↓reduceIte]
          simp only [hk', hc, ↓reduceIte]
        · rename_i hc
          split at h <;> try contradiction
          rename_i e ts' h1
          fin_inj h
          obtain ⟨hl1, hs1⟩ := suf_expr t h1
          enter_fuel
          simp only [parseStmt, hst, Bool.false_eq_true, ↓reduceIte]
          simp only [hk', hc, ↓reduceIte, hs1 g' (by omega)]
      · -- ASSIGN
        rename_i hk'
        split at h <;> try contradiction
        rename_i va ts' h1
        split at h <;> try contradiction
        rename_i hc
        split at h <;> try contradiction
        rename_i e ts'' h2
        fin_inj h
        obtain ⟨hl1, hs1⟩ := suf_access t h1
        obtain ⟨hl2, hs2⟩ := suf_expr t h2
        have := length_drop1 ts'
        enter_fuel
        simp only [parseStmt, hst, Bool.false_eq_true, ↓reduceIte]
        simp only [hk', hs1 g' (by omega), hc, and_self, ↓reduceIte, hs2 g' (by omega)]
      · -- BRIDGE
        rename_i hk'
        obtain ⟨hl1, hs1⟩ := suf_kw t h
        enter_fuel
        simp only [parseStmt, hst, Bool.false_eq_true, ↓reduceIte]
        simp only [hk', hs1 g' (by omega)]
      · -- TRANSFORM
        rename_i hk'
        obtain ⟨hl1, hs1⟩ := suf_kw t h
        enter_fuel
        simp only [parseStmt, hst, Bool.false_eq_true, ↓reduceIte]
        simp only [hk', hs1 g' (by omega)]
      · -- SEND
        rename_i hk'
        obtain ⟨hl1, hs1⟩ := suf_kw t h
        enter_fuel
        simp only [parseStmt, hst, Bool.false_eq_true, ↓reduceIte]
        simp only [hk', hs1 g' (by omega)]
      · -- GENERATE
        rename_i hk'
        split at h
        · rename_i hc
          split at h <;> try contradiction
          rename_i es ts1 h1
          split at h <;> try contradiction
          rename_i ts2 h2
          split at h <;> try contradiction
          rename_i tg ts3 h3
          fin_inj h
          obtain ⟨hl1, hs1⟩ := suf_evspec t h1
          obtain ⟨hl3, hs3⟩ := suf_evtarget t h3
          have := expectK_len h2
          enter_fuel
          simp only [parseStmt, hst, Bool.false_eq_true, ↓reduceIte]
          simp only [hk', hc, ↓reduceIte, hs1 g' (by omega), h2, hs3 g' (by omega)]
        · rename_i hc
          split at h <;> try contradiction
          rename_i va ts' h1
          split at h <;> try contradiction
          rename_i hva
          fin_inj h
          obtain ⟨hl1, hs1⟩ := suf_access t h1
          enter_fuel
          simp only [parseStmt, hst, Bool.false_eq_true, ↓reduceIte]
          simp only [hk', hc, Bool.false_eq_true, ↓reduceIte, hs1 g' (by omega), hva]
      · -- CREATE
        rename_i hk'
        split at h
        · rename_i hc
          split at h <;> try contradiction
          rename_i ts1 h1
          split at h <;> try contradiction
          rename_i v ts2 h2
          split at h <;> try contradiction
          rename_i ts3 h3
          split at h <;> try contradiction
          rename_i es ts4 h4
          split at h <;> try contradiction
          rename_i ts5 h5
          split at h <;> try contradiction
          rename_i tg ts6 h6
          fin_inj h
          obtain ⟨hl4, hs4⟩ := suf_evspec t h4
          obtain ⟨hl6, hs6⟩ := suf_evtarget t h6
          have := length_drop1 ts
          have := expectK_len h1
          have := takeVarName_len h2
          have := expectK_len h3
          have := expectK_len h5
          enter_fuel
          simp only [parseStmt, hst, Bool.false_eq_true, ↓reduceIte]
          simp only [hk', hc, ↓reduceIte, h1, h2, h3, hs4 g' (by omega), h5, hs6 g' (by omega)]
        · rename_i hc
          split at h <;> try contradiction
          rename_i ts1 h1
          split at h <;> try contradiction
          rename_i ts2 h2
          have := expectK_len h1
          have := expectK_len h2
          split at h
          · rename_i hof
            split at h <;> try contradiction
            rename_i kl ts3 h3
            fin_inj h
            have := length_drop1 ts2
            have := takeIdent_len h3
            enter_fuel
            simp only [parseStmt, hst, Bool.false_eq_true, ↓reduceIte]
            simp only [hk', hc, ↓reduceIte, h1, h2, hof, h3]
          · rename_i hof
            split at h <;> try contradiction
            rename_i v ts3 h3
            split at h <;> try contradiction
            rename_i ts4 h4
            split at h <;> try contradiction
            rename_i kl ts5 h5
            fin_inj h
            have := takeVarName_len h3
            have := expectK_len h4
            have := takeIdent_len h5
            enter_fuel
            simp only [parseStmt, hst, Bool.false_eq_true, ↓reduceIte]
            simp only [hk', hc, ↓reduceIte, h1, h2, hof, h3, h4, h5]
      · -- DELETE
        rename_i hk'
        split at h <;> try contradiction
        rename_i ts1 h1
        split at h <;> try contradiction
        rename_i ts2 h2
        split at h <;> try contradiction
        rename_i i ts3 h3
        fin_inj h
        have := expectK_len h1
        have := expectK_len h2
        have := parseInstName_len h3
        enter_fuel
        simp only [parseStmt, hst, Bool.false_eq_true, ↓reduceIte]
        simp only [hk', h1, h2, h3]
      · -- FOR EACH
        rename_i hk'
        split at h <;> try contradiction
        rename_i ts1 h1
        split at h <;> try contradiction
        rename_i v ts2 h2
        split at h <;> try contradiction
        rename_i ts3 h3
        split at h <;> try contradiction
        rename_i s ts4 h4
        split at h <;> try contradiction
        rename_i b ts5 h5
        split at h <;> try contradiction
        rename_i ts6 h6
        fin_inj h
        obtain ⟨hl5, hs5⟩ := ih.block _ _ _ h5
        have := expectK_len h1
        have := takeVarName_len h2
        have := expectK_len h3
        have := takeVarName_len h4
        have := optK_len .LOOP ts4
        have := expectK_len h6
        enter_fuel
        simp only [parseStmt, hst, Bool.false_eq_true, ↓reduceIte]
        simp only [hk', h1, h2, h3, h4, hs5 g' (by omega), h6]
      · -- WHILE
        rename_i hk'
        split at h <;> try contradiction
        rename_i c ts1 h1
        split at h <;> try contradiction
        rename_i b ts2 h2
        split at h <;> try contradiction
        rename_i ts3 h3
        fin_inj h
        obtain ⟨hl1, hs1⟩ := suf_expr t h1
        obtain ⟨hl2, hs2⟩ := ih.block _ _ _ h2
        have := optK_len .LOOP ts1
        have := expectK_len h3
        enter_fuel
        simp only [parseStmt, hst, Bool.false_eq_true, ↓reduceIte]
        simp only [hk', hs1 g' (by omega), hs2 g' (by omega), h3]
      · -- IF
        rename_i hk'
        split at h <;> try contradiction
        rename_i c ts1 h1
        split at h <;> try contradiction
        rename_i b ts2 h2
        split at h <;> try contradiction
        rename_i el ts3 h3
        split at h <;> try contradiction
        rename_i e ts4 h4
        split at h <;> try contradiction
        rename_i ts5 h5
        fin_inj h
        obtain ⟨hl1, hs1⟩ := suf_expr t h1
        obtain ⟨hl2, hs2⟩ := ih.block _ _ _ h2
        obtain ⟨hl3, hs3⟩ := ih.elifs _ _ _ h3
        obtain ⟨hl4, hs4⟩ := ih.else_ _ _ _ h4
        have := optK_len .THEN ts1
        have := expectK_len h5
        enter_fuel
        simp only [parseStmt, hst, Bool.false_eq_true, ↓reduceIte]
        simp only [hk', hs1 g' (by omega), hs2 g' (by omega), hs3 g' (by omega), hs4 g' (by omega), h5]
      · -- RELATE
        rename_i hk'
        have := parseRel_len h
        enter_fuel
        simp only [parseStmt, hst, Bool.false_eq_true, ↓reduceIte]
        simp only [hk', h]
      · -- UNRELATE
        rename_i hk'
        have := parseRel_len h
        enter_fuel
        simp only [parseStmt, hst, Bool.false_eq_true, ↓reduceIte]
        simp only [hk', h]
      · -- SELECT
        rename_i hk'
        obtain ⟨hl1, hs1⟩ := suf_select t h
        enter_fuel
        simp only [parseStmt, hst, Bool.false_eq_true, ↓reduceIte]
        simp only [hk', hs1 g' (by omega)]
      · contradiction

/-- the facts hold for every amount of fuel -/
theorem suffS : ∀ f, SuffS t f
  | 0 => ⟨by intro ts x rest h; simp [parseStmt] at h, by intro ts x rest h; simp [parseBlock] at h,
      by intro ts x rest h; simp [parseElifs] at h, by intro ts x rest h; simp [parseElse] at h⟩
  | f + 1 =>
    have ih := suffS f
    ⟨suffS_stmt t ih, suffS_block t ih, suffS_elifs t ih, suffS_else t ih⟩

/-- **sufficiency**: a block obtained with any fuel is the one the fuel-free parser obtains -/
theorem parseBlock_of_fuel {f : Nat} {ts : List Tok} {r : Block × List Tok} (h : parseBlock t f ts = some r) :
    parseBlock t (fuelForS ts) ts = some r := by
  obtain ⟨b, rest⟩ := r
  obtain ⟨hl, hs⟩ := (suffS t f).block ts b rest h
  exact hs _ (by simp only [fuelForS]; omega)

/-- with any fuel, `parseStmts`-like acceptance is acceptance by `parseStmts` -/
theorem parseStmts_of_fuel {f : Nat} {ts : List Tok} {b : Block} (h : parseBlock t f ts = some (b, [])) :
    parseStmts t ts = some b := by
  simp only [parseStmts, parseBlock_of_fuel t h]

/-- **completeness of the fuel**: when `parseStmts` rejects, no amount of fuel makes the block parser accept the
    whole token list -/
theorem parseStmts_complete {ts : List Tok} (h : parseStmts t ts = none) (f : Nat) (b : Block) :
    parseBlock t f ts ≠ some (b, []) := by
  intro hf
  rw [parseStmts_of_fuel t hf] at h
  cases h

/-- **fuel independence**: a result obtained with any fuel is the result with EVERY fuel ≥ 2·|ts| + 2 -/
theorem parseBlock_fuel_indep {f : Nat} {ts : List Tok} {r : Block × List Tok} (h : parseBlock t f ts = some r)
    (g : Nat) (hg : 2 * ts.length + 2 ≤ g) : parseBlock t g ts = some r := by
  obtain ⟨b, rest⟩ := r
  exact ((suffS t f).block ts b rest h).2 g (by omega)

/-- the answer (acceptance with its result, or rejection) does not depend on the fuel once it is ≥ 2·|ts| + 2 -/
theorem parseBlock_stable {ts : List Tok} {g g' : Nat} (hg : 2 * ts.length + 2 ≤ g)
    (hg' : 2 * ts.length + 2 ≤ g') : parseBlock t g ts = parseBlock t g' ts := by
  cases h : parseBlock t g ts with
  | some r => exact (parseBlock_fuel_indep t h g' hg').symm
  | none =>
    cases h' : parseBlock t g' ts with
    | none => rfl
    | some r => rw [parseBlock_fuel_indep t h' g hg] at h; cases h

end stmt

end Pyx.Oal
