import PyxModel.OSetPtr
import Gen.OSetShape

/-!
  C17 source tie at the pointer level: a GENERIC interpreter of the cell-level IR that translator/gen_osetshape.py
  extracts from `xtuml.tools.OrderedSet` (add, discard, __iter__, __reversed__), and the lemmas showing that
  PyxModel/OSetPtr.lean equals that interpretation of the IR generated from the current source.
  Cells are addresses, the sentinel is address 0, field 1 of a cell is `prev`, field 2 is `next`.
-/
namespace Pyx.OShape
open Pyx.OSetPtr Pyx.Gen.OSetShape

structure CEnv where
  curr : Nat
  prev : Nat
  next : Nat

def CEnv.get (e : CEnv) : CVar → Nat
  | .endV => 0
  | .curr => e.curr
  | .prev => e.prev
  | .next => e.next

def CEnv.set (e : CEnv) (v : CVar) (a : Nat) : CEnv :=
  match v with
  | .endV => e
  | .curr => { e with curr := a }
  | .prev => { e with prev := a }
  | .next => { e with next := a }

def fieldOf (s : Store) (i : Nat) (a : Nat) : Nat := if i = 1 then s.prev a else s.next a

def setFieldOf (s : Store) (i : Nat) (a v : Nat) : Store :=
  if i = 1 then { s with prev := upd s.prev a v } else { s with next := upd s.next a v }

def evalC (s : Store) (env : CEnv) : CExpr → Nat
  | .var v => env.get v
  | .field v i => fieldOf s i (env.get v)

def assignPlace (k a : Nat) (env : CEnv) (s : Store) : Place → Store
  | .field v i => setFieldOf s i (env.get v) a
  | .mapAtKey => { s with map := upd s.map k (some a) }

def iCStmt (k : Nat) (st : Store × CEnv) : CStmt → Store × CEnv
  | .bind v e => (st.1, st.2.set v (evalC st.1 st.2 e))
  | .allocInto f1 f2 targets =>
    let a := st.1.fresh
    let s1 : Store := { st.1 with key := upd st.1.key a k, prev := upd st.1.prev a (evalC st.1 st.2 f1),
                                  next := upd st.1.next a (evalC st.1 st.2 f2), fresh := a + 1 }
    (targets.foldl (assignPlace k a st.2) s1, st.2)
  | .popInto p n =>
    match st.1.map k with
    | some a => ({ st.1 with map := upd st.1.map k none }, (st.2.set p (st.1.prev a)).set n (st.1.next a))
    | none => st
  | .setField v i e => (setFieldOf st.1 i (st.2.get v) (evalC st.1 st.2 e), st.2)

/-- `if key [not] in self.map: <body>` -/
def iGuarded (g : Guarded) (k : Nat) (s : Store) : Store :=
  if (s.map k).isSome = g.whenPresent then (g.body.foldl (iCStmt k) (s, ⟨0, 0, 0⟩)).1 else s

/-- the generators `__iter__` / `__reversed__` -/
def iWalkCells (w : WalkShape) : Nat → Store → Nat → List Nat
  | 0, _, _ => []
  | f + 1, s, curr => if curr = 0 then [] else s.key curr :: iWalkCells w f s (fieldOf s w.stepField curr)

def iToList (w : WalkShape) (s : Store) : List Nat := iWalkCells w s.fresh s (fieldOf s w.startField 0)

/-- iteration whose consumer discards the visited element: the generator resumes by reading the step field of the
    (possibly just discarded) current cell -/
def iIterRem (w : WalkShape) (dis : Guarded) (p : Nat → Bool) : Nat → Store → Nat → List Nat × Store
  | 0, s, _ => ([], s)
  | f + 1, s, curr =>
    if curr = 0 then ([], s) else
      let k := s.key curr
      let s' := if p k then iGuarded dis k s else s
      let r := iIterRem w dis p f s' (fieldOf s' w.stepField curr)
      (k :: r.1, r.2)

/-! ### equalities -/

theorem add_eq (k : Nat) (s : Store) : add k s = iGuarded addProg k s := by
  unfold add iGuarded
  cases h : s.map k with
  | some a => simp [addProg]
  | none =>
    simp only [addProg, Option.isSome_none, ↓reduceIte, List.foldl_cons, List.foldl_nil, iCStmt, evalC, CEnv.set,
      CEnv.get, fieldOf, assignPlace, setFieldOf]
    simp

theorem discard_eq (k : Nat) (s : Store) : OSetPtr.discard k s = iGuarded discardProg k s := by
  unfold OSetPtr.discard iGuarded
  cases h : s.map k with
  | none => simp [discardProg]
  | some a =>
    simp only [discardProg, Option.isSome_some, ↓reduceIte, List.foldl_cons, List.foldl_nil, iCStmt, h, evalC,
      CEnv.set, CEnv.get, setFieldOf]
    simp [unlink]
    exact ⟨rfl, rfl⟩

theorem iter_eq : ∀ (f : Nat) (s : Store) (curr : Nat), iter f s curr = iWalkCells iterShape f s curr
  | 0, _, _ => rfl
  | f + 1, s, curr => by
    unfold iter iWalkCells
    rw [iter_eq f s (s.next curr)]
    simp [iterShape, fieldOf]

theorem reversed_eq : ∀ (f : Nat) (s : Store) (curr : Nat), reversed f s curr = iWalkCells reversedShape f s curr
  | 0, _, _ => rfl
  | f + 1, s, curr => by
    unfold reversed iWalkCells
    rw [reversed_eq f s (s.prev curr)]
    simp [reversedShape, fieldOf]

theorem toList_eq (s : Store) : toList s = iToList iterShape s ∧ toListRev s = iToList reversedShape s := by
  unfold toList toListRev iToList
  rw [iter_eq, reversed_eq]
  simp [iterShape, reversedShape, fieldOf]

theorem iterRem_eq (p : Nat → Bool) : ∀ (f : Nat) (s : Store) (curr : Nat),
    iterRem p f s curr = iIterRem iterShape discardProg p f s curr
  | 0, _, _ => rfl
  | f + 1, s, curr => by
    unfold iterRem iIterRem
    by_cases hc : curr = 0
    · simp [hc]
    · simp only [hc, ↓reduceIte]
      rw [← discard_eq]
      have hf : ∀ s' : Store, fieldOf s' iterShape.stepField curr = s'.next curr := fun s' => by simp [iterShape, fieldOf]
      rw [hf, iterRem_eq p f]

/-- `__reversed__` with removal of the visited element is the same generic walk with the `reversed` shape -/
theorem reversedRem_eq (p : Nat → Bool) : ∀ (f : Nat) (s : Store) (curr : Nat),
    reversedRem p f s curr = iIterRem reversedShape discardProg p f s curr
  | 0, _, _ => rfl
  | f + 1, s, curr => by
    unfold reversedRem iIterRem
    by_cases hc : curr = 0
    · simp [hc]
    · simp only [hc, ↓reduceIte]
      rw [← discard_eq]
      have hf : ∀ s' : Store, fieldOf s' reversedShape.stepField curr = s'.prev curr := fun s' => by simp [reversedShape, fieldOf]
      rw [hf, reversedRem_eq p f]

end Pyx.OShape
