import PyxModel.Extract.Edit

/-!
  C14 — helper lemmas: list lookups, well-formedness of a class diagram, how the lookups of the
  extractor behave under the point updates that edits make.
-/

namespace Pyx.Extract

/-! ### lists -/

theorem filterMap_congr' {α β : Type} {f g : α → Option β} {l : List α}
    (h : ∀ a ∈ l, f a = g a) : l.filterMap f = l.filterMap g := by
  induction l with
  | nil => rfl
  | cons a t ih =>
    have h1 := h a (by simp)
    have h2 := ih (fun x hx => h x (by simp [hx]))
    simp only [List.filterMap_cons, h1, h2]

theorem filter_congr' {α : Type} {p q : α → Bool} {l : List α}
    (h : ∀ a ∈ l, p a = q a) : l.filter p = l.filter q := by
  induction l with
  | nil => rfl
  | cons a t ih =>
    have h1 := h a (by simp)
    have h2 := ih (fun x hx => h x (by simp [hx]))
    simp only [List.filter_cons, h1, h2]

theorem find?_congr' {α : Type} {p q : α → Bool} {l : List α}
    (h : ∀ a ∈ l, p a = q a) : l.find? p = l.find? q := by
  induction l with
  | nil => rfl
  | cons a t ih =>
    have h1 := h a (by simp)
    have h2 := ih (fun x hx => h x (by simp [hx]))
    simp only [List.find?_cons, h1, h2]

/-- in a list whose keys are pairwise different, the element found by key is the element with that key -/
theorem find?_key_of_mem {α : Type} (key : α → Nat) {l : List α} (nd : (l.map key).Nodup)
    {x : α} (hx : x ∈ l) : l.find? (fun y => key y == key x) = some x := by
  induction l with
  | nil => cases hx
  | cons a t ih =>
    simp only [List.map_cons, List.nodup_cons] at nd
    simp only [List.find?_cons]
    rcases List.mem_cons.mp hx with rfl | hxt
    · simp
    · have hne : key a ≠ key x := by
        intro he
        exact nd.1 (he ▸ List.mem_map_of_mem hxt)
      have : (key a == key x) = false := by simp [hne]
      rw [this]
      exact ih nd.2 hxt

/-- two members with the same key are the same member -/
theorem eq_of_key_eq {α β : Type} (key : α → β) {l : List α} (nd : (l.map key).Nodup)
    {x y : α} (hx : x ∈ l) (hy : y ∈ l) (h : key x = key y) : x = y := by
  induction l with
  | nil => cases hx
  | cons a t ih =>
    simp only [List.map_cons, List.nodup_cons] at nd
    rcases List.mem_cons.mp hx with rfl | hxt <;> rcases List.mem_cons.mp hy with rfl | hyt
    · rfl
    · exact absurd (h ▸ List.mem_map_of_mem hyt) nd.1
    · exact absurd (h ▸ List.mem_map_of_mem hxt) nd.1
    · exact ih nd.2 hxt hyt

/-- split a list at the element found by a key that occurs once -/
theorem split_at_key {α : Type} (key : α → Nat) {l : List α} (nd : (l.map key).Nodup) {k : Nat} {x : α}
    (hf : l.find? (fun y => key y == k) = some x) :
    ∃ l1 l2, l = l1 ++ x :: l2 ∧ key x = k ∧ (∀ y ∈ l1, key y ≠ k) ∧ (∀ y ∈ l2, key y ≠ k) := by
  obtain ⟨hp, l1, l2, hl, hb⟩ := List.find?_eq_some_iff_append.mp hf
  have hk : key x = k := by simpa using hp
  refine ⟨l1, l2, hl, hk, ?_, ?_⟩
  · intro y hy; have := hb y hy; simpa using this
  · intro y hy he
    subst hl
    rw [List.map_append, List.map_cons] at nd
    have nd2 := (List.nodup_append.mp nd).2.1
    simp only [List.nodup_cons] at nd2
    exact nd2.1 (by rw [hk, ← he]; exact List.mem_map_of_mem hy)

/-! ### well-formed diagrams: what the edit theorems assume about the population -/

structure WF (d : ClassDiagram) : Prop where
  /-- Obj_ID identifies a class -/
  clsIds : (d.classes.map (·.id)).Nodup
  /-- key letters identify a class (`define_class` rejects a second class with the same name) -/
  kls : (d.classes.map (·.kl)).Nodup
  /-- Attr_ID identifies an attribute of a class -/
  attrIds : ∀ c ∈ d.classes, (c.attrs.map (·.id)).Nodup
  /-- attribute names are unique within a class -/
  attrNames : ∀ c ∈ d.classes, (c.attrs.map (·.name)).Nodup
  /-- Rel_ID identifies a relationship -/
  relIds : (d.rels.map (·.id)).Nodup
  /-- relationship numbers are unique -/
  relNumbs : (d.rels.map (·.numb)).Nodup

theorem findClass_mem {d : ClassDiagram} {i : Nat} {k : Class} (h : findClass d i = some k) : k ∈ d.classes :=
  List.mem_of_find?_eq_some h

theorem findClass_id {d : ClassDiagram} {i : Nat} {k : Class} (h : findClass d i = some k) : k.id = i := by
  have := List.find?_some h; simpa using this

theorem findAttr_mem {c : Class} {i : Nat} {a : Attr} (h : c.findAttr i = some a) : a ∈ c.attrs :=
  List.mem_of_find?_eq_some h

theorem findAttr_id {c : Class} {i : Nat} {a : Attr} (h : c.findAttr i = some a) : a.id = i := by
  have := List.find?_some h; simpa using this

theorem findRel_mem {d : ClassDiagram} {i : Nat} {k : Rel} (h : findRel d i = some k) : k ∈ d.rels :=
  List.mem_of_find?_eq_some h

theorem findRel_id {d : ClassDiagram} {i : Nat} {k : Rel} (h : findRel d i = some k) : k.id = i := by
  have := List.find?_some h; simpa using this

theorem findClass_of_mem {d : ClassDiagram} (wf : WF d) {k : Class} (h : k ∈ d.classes) :
    findClass d k.id = some k := find?_key_of_mem (fun (k : Class) => k.id) wf.clsIds h

theorem findAttr_of_mem {c : Class} (nd : (c.attrs.map (·.id)).Nodup) {a : Attr} (h : a ∈ c.attrs) :
    c.findAttr a.id = some a := find?_key_of_mem (fun (a : Attr) => a.id) nd h

/-- key letters determine the class -/
theorem WF.kl_inj {d : ClassDiagram} (wf : WF d) {k₁ k₂ : Class} (h₁ : k₁ ∈ d.classes) (h₂ : k₂ ∈ d.classes)
    (h : k₁.kl = k₂.kl) : k₁ = k₂ := eq_of_key_eq (fun (k : Class) => k.kl) wf.kls h₁ h₂ h

theorem WF.id_inj {d : ClassDiagram} (wf : WF d) {k₁ k₂ : Class} (h₁ : k₁ ∈ d.classes) (h₂ : k₂ ∈ d.classes)
    (h : k₁.id = k₂.id) : k₁ = k₂ := eq_of_key_eq (fun (k : Class) => k.id) wf.clsIds h₁ h₂ h

theorem WF.numb_inj {d : ClassDiagram} (wf : WF d) {r₁ r₂ : Rel} (h₁ : r₁ ∈ d.rels) (h₂ : r₂ ∈ d.rels)
    (h : r₁.numb = r₂.numb) : r₁ = r₂ := eq_of_key_eq (fun (r : Rel) => r.numb) wf.relNumbs h₁ h₂ h

/-! ### point updates of classes: what happens to the lookups -/

/-- an update of classes that keeps every class's Obj_ID -/
def KeepsId (g : Class → Class) : Prop := ∀ k, (g k).id = k.id

theorem findClass_map {d : ClassDiagram} {g : Class → Class} (hg : KeepsId g) (i : Nat) :
    findClass { d with classes := d.classes.map g } i = (findClass d i).map g := by
  unfold findClass
  simp only [List.find?_map]
  congr 1
  apply find?_congr'
  intro a _
  simp [hg a]

theorem findAttr_map {c : Class} {h : Attr → Attr} (hh : ∀ x, (h x).id = x.id) (i : Nat) :
    ({ c with attrs := c.attrs.map h } : Class).findAttr i = (c.findAttr i).map h := by
  unfold Class.findAttr
  simp only [List.find?_map]
  congr 1
  apply find?_congr'
  intro a _
  simp [hh a]

theorem mapClass_keepsId {c : Nat} {f : Class → Class} (hf : KeepsId f) :
    KeepsId (fun k => if k.id == c then f k else k) := by
  intro k; by_cases h : (k.id == c) = true <;> simp [h, hf k]

end Pyx.Extract
