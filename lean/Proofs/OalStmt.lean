import Proofs.OalExpr
import PyxModel.Oal.Stmt

/-!
  Helper lemmas for C07 (statement level): `parseStmts (printStmts s) = some s` by structural
  induction on the statement tree, one lemma per clause parser, explicit fuel bounds.
-/
set_option linter.unusedSimpArgs false

namespace Pyx.Oal

/-- the tokens that can follow an expression inside a statement: `;`, the optional words LOOP / THEN,
    the first token of the next statement (when the optional word is left out), and the block ends -/
def Kind.isAfterExpr : Kind → Bool
  | .SEMICOLON | .LOOP | .THEN | .END_WHILE | .END_IF | .END_FOR | .ELIF | .ELSE | .TO | .WHERE => true
  | k => k.isStmtStart

/-- what the statement round trip needs of the table in addition to `WF` -/
structure Tbl.StmtWF (t : Tbl) : Prop where
  /-- none of them is a binary operator -/
  afterExpr : ∀ k, k.isAfterExpr = true → t.bin k = none
  /-- `;` is not a unary operator (`return ;` is the bare return) -/
  unSemi : t.un .SEMICOLON = false

theorem noExt_afterExpr (tok : Tok) (ts : List Tok) (h : tok.kind.isAfterExpr = true) : NoExt (tok :: ts) := by
  refine ⟨?_, ?_, ?_⟩ <;>
  · intro h'
    simp only [hk_cons, Option.some.injEq] at h'
    rw [h'] at h
    cases h

theorem stops_afterExpr {t : Tbl} (swf : t.StmtWF) (m : Nat) (tok : Tok) (ts : List Tok)
    (h : tok.kind.isAfterExpr = true) : Stops t m (tok :: ts) := by
  refine ⟨noExt_afterExpr tok ts h, ?_⟩
  intro k l a hk' hb
  simp only [hk_cons, Option.some.injEq] at hk'
  subst hk'
  rw [swf.afterExpr _ h] at hb
  cases hb

theorem stops_nil (t : Tbl) (m : Nat) : Stops t m [] := by
  refine ⟨⟨by simp, by simp, by simp⟩, ?_⟩
  intro k l a h
  simp at h

/-! ### token helpers -/

@[simp] theorem expectK_tk (k : Kind) (s : String) (ts : List Tok) : expectK k (tk k s :: ts) = some ts := by
  simp only [expectK, tk_kind, ↓reduceIte]

theorem expectK_of_kind {k : Kind} {tok : Tok} (h : tok.kind = k) (ts : List Tok) :
    expectK k (tok :: ts) = some ts := by
  simp only [expectK, h, ↓reduceIte]

theorem takeIdent_of {n : Tok} (h : n.kind.isIdent = true) (ts : List Tok) : takeIdent (n :: ts) = some (n, ts) := by
  simp only [takeIdent, h, ↓reduceIte]

theorem takeVarName_of {n : Tok} (h : n.kind.isVarName = true) (ts : List Tok) :
    takeVarName (n :: ts) = some (n, ts) := by
  simp only [takeVarName, h, ↓reduceIte]

theorem isIdent_of_isVarName {k : Kind} (h : k.isVarName = true) : k.isIdent = true := by
  cases k <;> first | rfl | (simp [Kind.isVarName] at h)

theorem not_self_of_isVarName {k : Kind} (h : k.isVarName = true) : k ≠ .SELF := by
  intro he; rw [he] at h; cases h

/-- a name token is none of the punctuation the predictive decisions look for -/
theorem isIdent_not_punct {k : Kind} (h : k.isIdent = true) :
    k ≠ .EQUAL ∧ k ≠ .DOT ∧ k ≠ .LSQBR ∧ k ≠ .LPAREN ∧ k ≠ .TIMES ∧ k ≠ .COLON ∧ k ≠ .SEMICOLON ∧ k ≠ .ARROW ∧
      k ≠ .TICKED_PHRASE ∧ k ≠ .RSQBR := by
  refine ⟨?_, ?_, ?_, ?_, ?_, ?_, ?_, ?_, ?_, ?_⟩ <;> (intro he; rw [he] at h; cases h)

@[simp] theorem optK_tk (k : Kind) (s : String) (ts : List Tok) : optK k (tk k s :: ts) = (true, ts) := by
  simp only [optK, hk_cons, tk_kind, ↓reduceIte, List.drop_succ_cons, List.drop_zero]

theorem optK_absent {k : Kind} {ts : List Tok} (h : hk ts ≠ some k) : optK k ts = (false, ts) := by
  simp only [optK, h, ↓reduceIte]

/-- the optional word, whichever way it was chosen -/
theorem optK_optWord (k : Kind) (s : String) (b : Bool) {ts : List Tok} (h : hk ts ≠ some k) :
    optK k (optWord b (tk k s) ++ ts) = (b, ts) := by
  cases b
  · simpa only [optWord, Bool.false_eq_true, ↓reduceIte, List.nil_append] using optK_absent h
  · simp only [optWord, ↓reduceIte, List.cons_append, List.nil_append, optK_tk]

theorem parseInstName_print (i : InstName) (hi : i.Ok) (ts : List Tok) :
    parseInstName (printInst i :: ts) = some (i, ts) := by
  cases i with
  | var n =>
    have hn : n.kind.isVarName = true := hi
    simp [parseInstName, printInst, hn, not_self_of_isVarName hn]
  | self lex => simp [parseInstName, printInst]

theorem parsePhrase_print (p : Phrase) (hp : p.Ok) (ts : List Tok) :
    parsePhrase (printPhrase p :: ts) = some (p, ts) := by
  cases p with
  | ticked lex => simp [parsePhrase, printPhrase]
  | ident n =>
    have hn : n.kind.isIdent = true := hp
    simp [parsePhrase, printPhrase, hn, (isIdent_not_punct hn).2.2.2.2.2.2.2.2.1]

theorem parseOptPhrase_print (ph : Option Phrase) (hp : optPhraseOk ph) {ts : List Tok} (h : hk ts ≠ some .DOT) :
    parseOptPhrase (printOptPhrase ph ++ ts) = some (ph, ts) := by
  cases ph with
  | none => simp only [printOptPhrase, List.nil_append, parseOptPhrase, h, ↓reduceIte]
  | some p =>
    simp only [printOptPhrase, List.cons_append, List.nil_append, parseOptPhrase, hk_cons, tk_kind, ↓reduceIte,
      List.drop_succ_cons, List.drop_zero, parsePhrase_print p hp]

theorem parseNavStep_print (s : NavStep) (hs : s.Ok) (ts : List Tok) :
    parseNavStep (printNavStep s ++ ts) = some (s, ts) := by
  have h := parseOptPhrase_print s.phrase hs.2.2 (ts := tk .RSQBR "]" :: ts) (by simp)
  simp only [printNavStep, List.cons_append, List.append_assoc, List.nil_append, parseNavStep, expectK_tk,
    takeIdent_of hs.1, takeIdent_of hs.2.1, Option.bind_eq_bind, Option.bind_some, h, Option.pure_def]

theorem parseNavChain_print : ∀ (ch : List NavStep), ch ≠ [] → (∀ s ∈ ch, s.Ok) → ∀ {ts : List Tok},
    hk ts ≠ some .ARROW → ∀ f, ch.length ≤ f → parseNavChain f (printNavChain ch ++ ts) = some (ch, ts)
  | [], h, _, _, _, _, _ => by cases h rfl
  | [s], _, hok, ts, hts, f, hf => by
    obtain ⟨f', rfl⟩ := fuel_succ (f := f) (n := 0) (by simpa using hf)
    simp only [printNavChain, List.append_nil, parseNavChain, parseNavStep_print s (hok s (by simp)), hts, ↓reduceIte]
  | s :: s' :: more, _, hok, ts, hts, f, hf => by
    obtain ⟨f', rfl⟩ := fuel_succ (f := f) (n := 0) (by simp only [List.length_cons] at hf; omega)
    have ih := parseNavChain_print (s' :: more) (by simp) (fun x hx => hok x (List.mem_cons_of_mem _ hx)) hts f'
      (by simp only [List.length_cons] at hf ⊢; omega)
    have hstep := parseNavStep_print s (hok s (by simp)) (printNavChain (s' :: more) ++ ts)
    have hk' : hk (printNavChain (s' :: more) ++ ts) = some .ARROW := by
      simp only [printNavChain, printNavStep, List.cons_append, hk_cons, tk_kind]
    rw [show printNavChain (s :: s' :: more) = printNavStep s ++ printNavChain (s' :: more) from rfl,
      List.append_assoc]
    simp only [parseNavChain, hstep, hk', ↓reduceIte, ih]

/-! ### what an access chain / invocation begins with -/

theorem isChain_of_isStruct {h : Expr} (hs : h.isStruct = true) : h.isChain = true := by
  cases h <;> simp_all [Expr.isStruct, Expr.isChain]

theorem isChain_of_isVarAccess {e : Expr} (h : e.isVarAccess = true) : e.isChain = true := by
  cases e <;> simp_all [Expr.isVarAccess, Expr.isChain]

theorem isChain_of_isHook {e : Expr} (h : e.isHook = true) : e.isChain = true := by
  cases e <;> simp_all [Expr.isHook, Expr.isVarAccess, Expr.isSelf, Expr.isChain]

theorem isOp_of_isChain {e : Expr} (h : e.isChain = true) : e.isOp = false := by
  cases e <;> simp_all [Expr.isOp, Expr.isChain]

theorem isOp_of_isInvocation {e : Expr} (h : e.isInvocation = true) : e.isOp = false := by
  cases e <;> simp_all [Expr.isOp, Expr.isInvocation]

theorem isAccessStart_varName {k : Kind} (h : k.isVarName = true) : isAccessStart (some k) = true := by
  cases k <;> first | rfl | (simp [Kind.isVarName] at h)

/-- the first token of an access chain -/
theorem accessStart_chain (t : Tbl) : (e : Expr) → e.Ok t → e.isChain = true → ∀ rest,
    isAccessStart (hk (renderRaw t e ++ rest)) = true
  | .var n, hok, _, rest => by
    simp only [Expr.Ok] at hok
    simpa [renderRaw] using isAccessStart_varName hok
  | .self, _, _, rest => by simp [renderRaw, isAccessStart]
  | .selected, _, _, rest => by simp [renderRaw, isAccessStart]
  | .param n, _, _, rest => by simp [renderRaw, isAccessStart]
  | .field h n, hok, _, rest => by
    simp only [Expr.Ok] at hok
    rw [renderRaw_field, List.append_assoc]
    exact accessStart_chain t h hok.2.1 hok.1 _
  | .index h i, hok, _, rest => by
    simp only [Expr.Ok] at hok
    rw [renderRaw_index, List.append_assoc]
    exact accessStart_chain t h hok.2.1 (isChain_of_isIndexable hok.1) _
  | .int _, _, h, _ => by cases h
  | .real _, _, h, _ => by cases h
  | .str _, _, h, _ => by cases h
  | .bool _ _, _, h, _ => by cases h
  | .enumc _ _, _, h, _ => by cases h
  | .fcall _ _, _, h, _ => by cases h
  | .icall _ _ _, _, h, _ => by cases h
  | .ocall _ _ _, _, h, _ => by cases h
  | .un _ _, _, h, _ => by cases h
  | .bin _ _ _, _, h, _ => by cases h

theorem accessStart_invocation (t : Tbl) {e : Expr} (hok : e.Ok t) (hi : e.isInvocation = true) (rest : List Tok) :
    isAccessStart (hk (renderRaw t e ++ rest)) = true := by
  cases e with
  | fcall n ps => simp [renderRaw_fcall, isAccessStart]
  | icall ns n ps => simp [renderRaw_icall, isAccessStart]
  | ocall h n ps =>
    simp only [Expr.Ok] at hok
    rw [renderRaw_ocall, List.append_assoc]
    exact accessStart_chain t h hok.2.1 (isChain_of_isStruct hok.1) _
  | _ => simp [Expr.isInvocation] at hi

/-- a chain read by `parseAccess` -/
theorem parseAccess_chain {t : Tbl} (wf : t.WF) {e : Expr} (hok : e.Ok t) (hc : e.isChain = true)
    {rest : List Tok} (hne : NoExt rest) (f : Nat) (hf : cost e ≤ f + 1) :
    parseAccess t f (renderRaw t e ++ rest) = some (e, rest) := by
  simp only [parseAccess, accessStart_chain t e hok hc rest, ↓reduceIte]
  exact roundtrip_prefix wf hok (isOp_of_isChain hc) hne f hf

theorem parseAccess_invocation {t : Tbl} (wf : t.WF) {e : Expr} (hok : e.Ok t) (hi : e.isInvocation = true)
    {rest : List Tok} (hne : NoExt rest) (f : Nat) (hf : cost e ≤ f + 1) :
    parseAccess t f (renderRaw t e ++ rest) = some (e, rest) := by
  simp only [parseAccess, accessStart_invocation t hok hi rest, ↓reduceIte]
  exact roundtrip_prefix wf hok (isOp_of_isInvocation hi) hne f hf

/-! ### clause parsers -/

def costOpt : Option Expr → Nat
  | some e => cost e + 3
  | none => 0

theorem parseOptWhere_print {t : Tbl} (wf : t.WF) (swf : t.StmtWF) (w : Option Expr) (hok : optExprOk t w)
    (sc : Tok) (hsc : sc.kind = .SEMICOLON) (rest : List Tok) (f : Nat) (hf : costOpt w ≤ f) :
    parseOptWhere t f (printOptWhere t w ++ sc :: rest) = some (w, sc :: rest) := by
  cases w with
  | none => simp only [printOptWhere, List.nil_append, parseOptWhere, hk_cons, hsc, Option.some.injEq, reduceCtorEq,
      ↓reduceIte]
  | some e =>
    have he := roundtrip_fuel wf (e := e) hok 0 (stops_afterExpr swf 0 sc rest (by rw [hsc]; rfl)) f hf
    simp only [printOptWhere, List.cons_append, parseOptWhere, hk_cons, tk_kind, ↓reduceIte, List.drop_succ_cons,
      List.drop_zero, he]

def costEv (es : EvSpec) : Nat := costP es.data + 1

theorem parseEvData_print {t : Tbl} (wf : t.WF) (es : EvSpec) (hok : es.Ok t) (to : Tok) (hto : to.kind = .TO)
    (rest : List Tok) (f : Nat) (hf : costEv es ≤ f) :
    parseEvData t f es.id es.star es.meaning (printEvData t es.parens es.data ++ to :: rest) =
      some (es, to :: rest) := by
  obtain ⟨id, star, meaning, parens, data⟩ := es
  obtain ⟨_, _, hd, hp⟩ := hok
  simp only [costEv] at hf
  simp only at hd hp
  cases parens with
  | false =>
    have := hp rfl
    subst this
    simp only [parseEvData, printEvData, Bool.false_eq_true, ↓reduceIte, List.nil_append, hk_cons, hto,
      Option.some.injEq, reduceCtorEq]
  | true =>
    have hps := roundtrip_params wf hd RP rfl (to :: rest) f (by omega)
    simp only [parseEvData, printEvData, ↓reduceIte, List.cons_append, List.append_assoc, List.nil_append, hk_cons,
      LP_kind, List.drop_succ_cons, List.drop_zero, hps, expectK_of_kind RP_kind]

theorem parseEvMeaning_print (m : Option Phrase) (hm : optPhraseOk m) {ts : List Tok} (h : hk ts ≠ some .COLON) :
    parseEvMeaning (printEvMeaning m ++ ts) = some (m, ts) := by
  cases m with
  | none => simp only [printEvMeaning, List.nil_append, parseEvMeaning, h, ↓reduceIte]
  | some p =>
    simp only [printEvMeaning, List.cons_append, List.nil_append, parseEvMeaning, hk_cons, tk_kind, ↓reduceIte,
      List.drop_succ_cons, List.drop_zero, parsePhrase_print p hm]

theorem hk_printPhrase_ne {p : Phrase} (hp : p.Ok) {k : Kind} (hk1 : k.isIdent = false) (hk2 : k ≠ .TICKED_PHRASE)
    (ts : List Tok) : hk (printPhrase p :: ts) ≠ some k := by
  cases p with
  | ticked lex => simpa [printPhrase] using hk2.symm
  | ident n =>
    have hn : n.kind.isIdent = true := hp
    intro he
    simp only [printPhrase, hk_cons, Option.some.injEq] at he
    rw [he, hk1] at hn
    cases hn

theorem parseEvSpec_print {t : Tbl} (wf : t.WF) (es : EvSpec) (hok : es.Ok t) (to : Tok) (hto : to.kind = .TO)
    (rest : List Tok) (f : Nat) (hf : costEv es ≤ f) :
    parseEvSpec t f (printEvSpec t es ++ to :: rest) = some (es, to :: rest) := by
  have hd := parseEvData_print wf es hok to hto rest f hf
  have hcolon : hk (printEvData t es.parens es.data ++ to :: rest) ≠ some .COLON := by
    cases es.parens <;> simp [printEvData, hto]
  have hm := parseEvMeaning_print es.meaning hok.2.1 hcolon
  have htimes : hk (printEvMeaning es.meaning ++ (printEvData t es.parens es.data ++ to :: rest)) ≠ some .TIMES := by
    cases es.meaning <;> cases es.parens <;> simp [printEvMeaning, printEvData, hto]
  have hs := optK_optWord .TIMES "*" es.star htimes
  simp only [printEvSpec, parseEvSpec, List.cons_append, List.append_assoc, takeIdent_of hok.1, hs, hm, hd]

/-- shape of the beginning of an access chain followed by `X`: it is a single token, or its second token is
    `.` or `[` -/
theorem chain_shape (t : Tbl) : (e : Expr) → e.Ok t → e.isChain = true → ∀ X : List Tok,
    (∃ tok, renderRaw t e ++ X = tok :: X) ∨
    (∃ tok tok2 ts, renderRaw t e ++ X = tok :: tok2 :: ts ∧ (tok2.kind = .DOT ∨ tok2.kind = .LSQBR))
  | .var n, _, _, X => Or.inl ⟨n, by simp [renderRaw]⟩
  | .self, _, _, X => Or.inl ⟨tk .SELF "self", by simp [renderRaw]⟩
  | .selected, _, _, X => Or.inl ⟨tk .SELECTED "selected", by simp [renderRaw]⟩
  | .param n, _, _, X => Or.inr ⟨tk .PARAM "param", tk .DOT ".", n :: X, by simp [renderRaw], Or.inl rfl⟩
  | .field h n, hok, _, X => by
    simp only [Expr.Ok] at hok
    rw [renderRaw_field, List.append_assoc]
    rcases chain_shape t h hok.2.1 hok.1 ([tk .DOT ".", n] ++ X) with ⟨tok, h2⟩ | ⟨tok, tok2, ts, h3, h4⟩
    · exact Or.inr ⟨tok, tk .DOT ".", n :: X, by simpa using h2, Or.inl rfl⟩
    · exact Or.inr ⟨tok, tok2, ts, h3, h4⟩
  | .index h i, hok, _, X => by
    simp only [Expr.Ok] at hok
    rw [renderRaw_index, List.append_assoc]
    rcases chain_shape t h hok.2.1 (isChain_of_isIndexable hok.1)
      (tk .LSQBR "[" :: (render t i 0 ++ [tk .RSQBR "]"]) ++ X) with ⟨tok, h2⟩ | ⟨tok, tok2, ts, h3, h4⟩
    · exact Or.inr ⟨tok, tk .LSQBR "[", _, by simpa using h2, Or.inr rfl⟩
    · exact Or.inr ⟨tok, tok2, ts, h3, h4⟩
  | .int _, _, h, _ => by cases h
  | .real _, _, h, _ => by cases h
  | .str _, _, h, _ => by cases h
  | .bool _ _, _, h, _ => by cases h
  | .enumc _ _, _, h, _ => by cases h
  | .fcall _ _, _, h, _ => by cases h
  | .icall _ _ _, _, h, _ => by cases h
  | .ocall _ _ _, _, h, _ => by cases h
  | .un _ _, _, h, _ => by cases h
  | .bin _ _ _, _, h, _ => by cases h

/-- the token after the first token of a chain that is followed by `sc :: rest` -/
theorem chain_second (t : Tbl) {e : Expr} (hok : e.Ok t) (hc : e.isChain = true) (sc : Tok) (rest : List Tok) :
    hk ((renderRaw t e ++ sc :: rest).drop 1) = some sc.kind ∨
    hk ((renderRaw t e ++ sc :: rest).drop 1) = some .DOT ∨ hk ((renderRaw t e ++ sc :: rest).drop 1) = some .LSQBR := by
  rcases chain_shape t e hok hc (sc :: rest) with ⟨tok, h⟩ | ⟨tok, tok2, ts, h, hd⟩
  · rw [h]; exact Or.inl rfl
  · rw [h]
    rcases hd with hd | hd
    · exact Or.inr (Or.inl (by simp [hd]))
    · exact Or.inr (Or.inr (by simp [hd]))

def costTg : EvTarget → Nat
  | .inst e => cost e
  | _ => 0

theorem parseEvTarget_print {t : Tbl} (wf : t.WF) (tg : EvTarget) (hok : tg.Ok t) (sc : Tok)
    (hsc : sc.kind = .SEMICOLON) (rest : List Tok) (f : Nat) (hf : costTg tg ≤ f + 1) :
    parseEvTarget t f (printEvTarget t tg ++ sc :: rest) = some (tg, sc :: rest) := by
  cases tg with
  | cls kl assigner =>
    have hkl : kl.kind.isIdent = true := hok
    cases assigner <;>
      simp [parseEvTarget, printEvTarget, isClassWord, hkIs, hkl]
  | creator kl =>
    have hkl : kl.kind.isIdent = true := hok
    simp [parseEvTarget, printEvTarget, isClassWord, hkIs, hkl]
  | inst e =>
    obtain ⟨hh, he⟩ := hok
    have hc := isChain_of_isHook hh
    have hne : NoExt (sc :: rest) := noExt_afterExpr sc rest (by rw [hsc]; rfl)
    have hacc := parseAccess_chain wf he hc hne f hf
    have hcond : ¬ (hkIs Kind.isIdent (renderRaw t e ++ sc :: rest) = true ∧
        isClassWord (hk ((renderRaw t e ++ sc :: rest).drop 1)) = true) := by
      rintro ⟨_, h2⟩
      rcases chain_second t he hc sc rest with h | h | h <;> rw [h] at h2 <;> simp [isClassWord, hsc] at h2
    simp only [printEvTarget, parseEvTarget, hcond, ↓reduceIte, hacc, hh]

/-! ### BRIDGE / TRANSFORM / SEND -/

theorem printImplicit_eq (t : Tbl) (ns : String) (n : Tok) (ps : Params) :
    printImplicit t ns n ps = renderRaw t (.icall ns n ps) := by
  rw [renderRaw_icall]; rfl

def costOptVa : Option Expr → Nat
  | some va => cost va
  | none => 0

theorem parseKw_kwCall {t : Tbl} (wf : t.WF) (k : IKind) (va : Option Expr) (ns : String) (n : Tok) (ps : Params)
    (hva : optVarAccessOk t va) (hn : n.kind.isIdent = true) (hps : ps.Ok t) (sc : Tok) (hsc : sc.kind = .SEMICOLON)
    (rest : List Tok) (f : Nat) (hf : costOptVa va + costP ps + 2 ≤ f + 1) :
    parseKw t f k ((match va with
        | some v => renderRaw t v ++ tk .EQUAL "=" :: printImplicit t ns n ps
        | none => printImplicit t ns n ps) ++ sc :: rest) = some (.kwCall k va ns n ps, sc :: rest) := by
  have hne : NoExt (sc :: rest) := noExt_afterExpr sc rest (by rw [hsc]; rfl)
  have hiok : (Expr.icall ns n ps).Ok t := by simp only [Expr.Ok]; exact ⟨hn, hps⟩
  have hic : cost (Expr.icall ns n ps) = costP ps + 2 := by simp only [cost]
  have hto : ¬ (k = IKind.port ∧ hk (sc :: rest) = some Kind.TO) := by simp [hsc]
  cases va with
  | none =>
    have h1 := parseAccess_invocation wf hiok rfl hne f (by simp only [costOptVa] at hf; omega)
    simp only [printImplicit_eq, parseKw, h1, hto, ↓reduceIte]
  | some v =>
    obtain ⟨hv, hvok⟩ := hva
    have hne2 : NoExt (tk .EQUAL "=" :: (renderRaw t (.icall ns n ps) ++ sc :: rest)) := by
      refine ⟨?_, ?_, ?_⟩ <;> simp
    have h1 := parseAccess_chain wf hvok (isChain_of_isVarAccess hv) hne2 f (by simp only [costOptVa] at hf; omega)
    have h2 := parseAccess_invocation wf hiok rfl hne f (by simp only [costOptVa] at hf; omega)
    simp only [printImplicit_eq, List.append_assoc, List.cons_append, parseKw, h1]
    cases v <;> simp [Expr.isVarAccess] at hv <;>
      simp only [Expr.isVarAccess, hk_cons, tk_kind, and_self, ↓reduceIte, List.drop_succ_cons, List.drop_zero, h2]

theorem parseKw_trCall {t : Tbl} (wf : t.WF) (va : Option Expr) (h : Expr) (n : Tok) (ps : Params)
    (hva : optVarAccessOk t va) (hh : h.isStruct = true) (hhok : h.Ok t) (hn : n.kind.isIdent = true)
    (hps : ps.Ok t) (sc : Tok) (hsc : sc.kind = .SEMICOLON)
    (rest : List Tok) (f : Nat) (hf : costOptVa va + cost (.ocall h n ps) ≤ f + 1) :
    parseKw t f .cls ((match va with
        | some v => renderRaw t v ++ tk .EQUAL "=" :: renderRaw t (.ocall h n ps)
        | none => renderRaw t (.ocall h n ps)) ++ sc :: rest) = some (.trCall va h n ps, sc :: rest) := by
  have hne : NoExt (sc :: rest) := noExt_afterExpr sc rest (by rw [hsc]; rfl)
  have hiok : (Expr.ocall h n ps).Ok t := by simp only [Expr.Ok]; exact ⟨hh, hhok, hn, hps⟩
  cases va with
  | none =>
    have h1 := parseAccess_invocation wf hiok rfl hne f (by simp only [costOptVa] at hf; omega)
    simp only [parseKw, h1, ↓reduceIte]
  | some v =>
    obtain ⟨hv, hvok⟩ := hva
    have hne2 : NoExt (tk .EQUAL "=" :: (renderRaw t (.ocall h n ps) ++ sc :: rest)) := by
      refine ⟨?_, ?_, ?_⟩ <;> simp
    have h1 := parseAccess_chain wf hvok (isChain_of_isVarAccess hv) hne2 f (by simp only [costOptVa] at hf; omega)
    have h2 := parseAccess_invocation wf hiok rfl hne f (by simp only [costOptVa] at hf; omega)
    simp only [List.append_assoc, List.cons_append, parseKw, h1]
    cases v <;> simp [Expr.isVarAccess] at hv <;>
      simp only [Expr.isVarAccess, hk_cons, tk_kind, and_self, ↓reduceIte, List.drop_succ_cons, List.drop_zero, h2]

theorem parseKw_sendEvent {t : Tbl} (wf : t.WF) (swf : t.StmtWF) (port : String) (n : Tok) (ps : Params) (to : Expr)
    (hn : n.kind.isIdent = true) (hps : ps.Ok t) (hto : to.Ok t) (sc : Tok) (hsc : sc.kind = .SEMICOLON)
    (rest : List Tok) (f : Nat) (hf : costP ps + cost to + 5 ≤ f + 1) :
    parseKw t f .port (printImplicit t port n ps ++ tk .TO "to" :: (render t to 0 ++ sc :: rest)) =
      some (.sendEvent port n ps to, sc :: rest) := by
  have hiok : (Expr.icall port n ps).Ok t := by simp only [Expr.Ok]; exact ⟨hn, hps⟩
  have hne : NoExt (tk .TO "to" :: (render t to 0 ++ sc :: rest)) := by refine ⟨?_, ?_, ?_⟩ <;> simp
  have h1 := parseAccess_invocation wf hiok rfl hne f (by simp only [cost]; omega)
  have h2 := roundtrip_fuel wf hto 0 (stops_afterExpr swf 0 sc rest (by rw [hsc]; rfl)) f (by omega)
  simp only [printImplicit_eq, parseKw, h1, hk_cons, tk_kind, and_self, ↓reduceIte, List.drop_succ_cons,
    List.drop_zero, h2]

/-! ### RELATE / UNRELATE, SELECT -/

theorem parseRel_print (un : Bool) (a b : InstName) (r : Tok) (ph : Option Phrase) (u : Option InstName)
    (ha : a.Ok) (hb : b.Ok) (hr : r.kind.isVarName = true) (hph : optPhraseOk ph) (hu : optInstOk u)
    (sc : Tok) (hsc : sc.kind = .SEMICOLON) (rest : List Tok) :
    parseRel un (printInst a :: (if un then tk .FROM "from" else tk .TO "to") :: printInst b ::
        tk .ACROSS "across" :: r :: (printOptPhrase ph ++ (printUsing u ++ sc :: rest))) =
      some (.rel un a b r ph u, sc :: rest) := by
  have hdot : hk (printUsing u ++ sc :: rest) ≠ some .DOT := by cases u <;> simp [printUsing, hsc]
  have hph' := parseOptPhrase_print ph hph hdot
  have hex : expectK (if un then Kind.FROM else Kind.TO) ((if un then tk .FROM "from" else tk .TO "to") ::
      printInst b :: tk .ACROSS "across" :: r :: (printOptPhrase ph ++ (printUsing u ++ sc :: rest))) =
      some (printInst b :: tk .ACROSS "across" :: r :: (printOptPhrase ph ++ (printUsing u ++ sc :: rest))) := by
    cases un <;> simp
  simp only [parseRel, parseInstName_print a ha, parseInstName_print b hb, hex, expectK_tk, takeVarName_of hr, hph']
  cases u with
  | none => simp [printUsing, hsc]
  | some i =>
    have hi : i.Ok := hu
    simp [printUsing, parseInstName_print i hi]

theorem parseInstOf_print (io : Bool) {ts : List Tok}
    (h : ¬ (hk ts = some .INSTANCES ∧ hk (ts.drop 1) = some .OF)) :
    parseInstOf (printInstOf io ++ ts) = some (io, ts) := by
  cases io
  · simp only [printInstOf, Bool.false_eq_true, ↓reduceIte, List.nil_append, parseInstOf, h]
  · simp [printInstOf, parseInstOf]

theorem parseCard_print (card : CardTok) (ts : List Tok) :
    parseCard (tk card.c.kind card.lex :: ts) = some (card, ts) := by
  obtain ⟨c, lex⟩ := card
  cases c <;> simp [parseCard, Card.kind]

theorem parseSelect_selFrom {t : Tbl} (wf : t.WF) (swf : t.StmtWF) (card : CardTok) (v : Tok) (io : Bool)
    (kl : Tok) (w : Option Expr) (hc : card.c ≠ .one) (hv : v.kind.isVarName = true) (hkl : kl.kind.isIdent = true)
    (hw : optExprOk t w) (sc : Tok) (hsc : sc.kind = .SEMICOLON) (rest : List Tok) (f : Nat) (hf : costOpt w ≤ f) :
    parseSelect t f (tk card.c.kind card.lex :: v :: tk .FROM "from" ::
        (printInstOf io ++ kl :: (printOptWhere t w ++ sc :: rest))) =
      some (.selFrom card v io kl w, sc :: rest) := by
  have hof : hk (printOptWhere t w ++ sc :: rest) ≠ some .OF := by cases w <;> simp [printOptWhere, hsc]
  have hio := parseInstOf_print io (ts := kl :: (printOptWhere t w ++ sc :: rest))
    (by simp only [hk_cons, List.drop_succ_cons, List.drop_zero]; exact fun h => hof h.2)
  have hwh := parseOptWhere_print wf swf w hw sc hsc rest f hf
  simp only [parseSelect, parseCard_print, takeVarName_of hv, hk_cons, tk_kind, ↓reduceIte, hc, List.drop_succ_cons,
    List.drop_zero, parseSelFrom, hio, takeIdent_of hkl, hwh]

theorem parseSelect_selRel {t : Tbl} (wf : t.WF) (swf : t.StmtWF) (card : CardTok) (v : Tok) (hook : Expr)
    (chain : List NavStep) (w : Option Expr) (hv : v.kind.isVarName = true) (hh : hook.isHook = true)
    (hhok : hook.Ok t) (hch : chain ≠ []) (hchok : ∀ s ∈ chain, s.Ok)
    (hw : optExprOk t w) (sc : Tok) (hsc : sc.kind = .SEMICOLON) (rest : List Tok) (f : Nat)
    (hf : cost hook + chain.length + costOpt w ≤ f) :
    parseSelect t f (tk card.c.kind card.lex :: v :: tk .RELATED "related" :: tk .BY "by" ::
        (renderRaw t hook ++ (printNavChain chain ++ (printOptWhere t w ++ sc :: rest)))) =
      some (.selRel card v hook chain w, sc :: rest) := by
  have harrow : hk (printOptWhere t w ++ sc :: rest) ≠ some .ARROW := by cases w <;> simp [printOptWhere, hsc]
  have hchain := parseNavChain_print chain hch hchok harrow f (by omega)
  have hne : NoExt (printNavChain chain ++ (printOptWhere t w ++ sc :: rest)) := by
    cases chain with
    | nil => exact absurd rfl hch
    | cons s ss => refine ⟨?_, ?_, ?_⟩ <;> simp [printNavChain, printNavStep]
  have hacc := parseAccess_chain wf hhok (isChain_of_isHook hh) hne f (by omega)
  have hwh := parseOptWhere_print wf swf w hw sc hsc rest f (by omega)
  simp only [parseSelect, parseCard_print, takeVarName_of hv, hk_cons, tk_kind, Option.some.injEq, reduceCtorEq,
    ↓reduceIte, expectK_tk, parseSelRel, hacc, hh, hchain, hwh]

/-! ### first tokens -/

/-- a token list that begins with a token of a given class -/
def StartsWith (p : Kind → Bool) (l : List Tok) : Prop := ∃ tok ts, l = tok :: ts ∧ p tok.kind = true

theorem StartsWith.append {p : Kind → Bool} {l : List Tok} (h : StartsWith p l) (X : List Tok) :
    StartsWith p (l ++ X) := by
  obtain ⟨tok, ts, rfl, hp⟩ := h
  exact ⟨tok, ts ++ X, rfl, hp⟩

theorem StartsWith.mono {p q : Kind → Bool} (hpq : ∀ k, p k = true → q k = true) {l : List Tok}
    (h : StartsWith p l) : StartsWith q l := by
  obtain ⟨tok, ts, rfl, hp⟩ := h
  exact ⟨tok, ts, rfl, hpq _ hp⟩

theorem StartsWith.hk_ne {p : Kind → Bool} {l : List Tok} (h : StartsWith p l) {k : Kind} (hk' : p k = false) :
    hk l ≠ some k := by
  obtain ⟨tok, ts, rfl, hp⟩ := h
  intro he
  simp only [hk_cons, Option.some.injEq] at he
  rw [he, hk'] at hp
  cases hp

theorem startsWith_of_accessStart {l : List Tok} (h : isAccessStart (hk l) = true) :
    StartsWith (fun k => isAccessStart (some k)) l := by
  cases l with
  | nil => simp [isAccessStart] at h
  | cons tok ts => exact ⟨tok, ts, rfl, h⟩

theorem stmtStart_of_accessStart (k : Kind) (h : isAccessStart (some k) = true) : k.isStmtStart = true := by
  cases k <;> first | rfl | (simp [isAccessStart, Kind.isVarName] at h)

theorem afterExpr_of_stmtStart (k : Kind) (h : k.isStmtStart = true) : k.isAfterExpr = true := by
  cases k <;> first | rfl | (simp [Kind.isStmtStart, Kind.isVarName] at h)

/-- every statement begins with a statement-start token -/
theorem stmt_first (t : Tbl) (s : Stmt) (hok : s.Ok t) : StartsWith Kind.isStmtStart (printStmt t s) := by
  cases s with
  | brk => exact ⟨_, _, by rw [printStmt], rfl⟩
  | cont => exact ⟨_, _, by rw [printStmt], rfl⟩
  | ctrl => exact ⟨_, _, by rw [printStmt], rfl⟩
  | ret e => cases e <;> exact ⟨_, _, by rw [printStmt], rfl⟩
  | assign kw va e =>
    simp only [Stmt.Ok] at hok
    cases kw with
    | true => exact ⟨_, _, by rw [printStmt]; rfl, rfl⟩
    | false =>
      have h := startsWith_of_accessStart
        (accessStart_chain t va hok.2.1 (isChain_of_isVarAccess hok.1) (tk .EQUAL "=" :: render t e 0))
      rw [printStmt]
      simpa only [optWord, Bool.false_eq_true, ↓reduceIte, List.nil_append] using h.mono stmtStart_of_accessStart
  | invoke inv =>
    simp only [Stmt.Ok] at hok
    have h := startsWith_of_accessStart (accessStart_invocation t hok.2 hok.1 [])
    rw [printStmt]
    simpa only [List.append_nil] using h.mono stmtStart_of_accessStart
  | kwCall k va ns n ps => cases va <;> cases k <;> exact ⟨_, _, by rw [printStmt], rfl⟩
  | trCall va h n ps => cases va <;> exact ⟨_, _, by rw [printStmt], rfl⟩
  | sendEvent p n ps to => exact ⟨_, _, by rw [printStmt], rfl⟩
  | gen es tg => exact ⟨_, _, by rw [printStmt], rfl⟩
  | genPre va => exact ⟨_, _, by rw [printStmt], rfl⟩
  | crtEv v es tg => exact ⟨_, _, by rw [printStmt], rfl⟩
  | createObj v kl => exact ⟨_, _, by rw [printStmt], rfl⟩
  | createObjNoVar kl => exact ⟨_, _, by rw [printStmt], rfl⟩
  | delete i => exact ⟨_, _, by rw [printStmt], rfl⟩
  | forEach v s lp b => exact ⟨_, _, by rw [printStmt], rfl⟩
  | while_ c lp b => exact ⟨_, _, by rw [printStmt], rfl⟩
  | if_ c th b el e => exact ⟨_, _, by rw [printStmt], rfl⟩
  | rel un a b r ph u => cases un <;> exact ⟨_, _, by rw [printStmt], rfl⟩
  | selFrom card v io kl w => exact ⟨_, _, by rw [printStmt], rfl⟩
  | selRel card v hook chain w => exact ⟨_, _, by rw [printStmt], rfl⟩

/-- a block followed by `X` begins like a statement or like `X` -/
theorem block_first (t : Tbl) {p : Kind → Bool} (hp : ∀ k, k.isStmtStart = true → p k = true) (b : Block)
    (hok : b.Ok t) {X : List Tok} (hX : StartsWith p X) : StartsWith p (printBlock t b ++ X) := by
  cases b with
  | nil => simpa only [printBlock, List.nil_append] using hX
  | cons s b' =>
    simp only [Block.Ok] at hok
    rw [printBlock, List.append_assoc]
    exact ((stmt_first t s hok.1).mono hp).append _

theorem optWord_first {p : Kind → Bool} (b : Bool) (w : Tok) (hw : p w.kind = true) {X : List Tok}
    (hX : StartsWith p X) : StartsWith p (optWord b w ++ X) := by
  cases b
  · simpa only [optWord, Bool.false_eq_true, ↓reduceIte, List.nil_append] using hX
  · exact ⟨w, X, by simp [optWord], hw⟩

theorem stops_startsWith {t : Tbl} (swf : t.StmtWF) (m : Nat) {X : List Tok} (h : StartsWith Kind.isAfterExpr X) :
    Stops t m X := by
  obtain ⟨tok, ts, rfl, hp⟩ := h
  exact stops_afterExpr swf m tok ts hp

/-- an expression does not begin with `;` -/
theorem first_not_semi {t : Tbl} (swf : t.StmtWF) : (e : Expr) → e.Ok t → ∀ X : List Tok,
    hk (renderRaw t e ++ X) ≠ some .SEMICOLON
  | .int v, _, X => by simp [renderRaw]
  | .real v, _, X => by simp [renderRaw]
  | .str v, _, X => by simp [renderRaw]
  | .bool b v, _, X => by cases b <;> simp [renderRaw]
  | .enumc ns n, _, X => by simp [renderRaw]
  | .var n, hok, X => by
    simp only [Expr.Ok] at hok
    simpa [renderRaw] using (isIdent_not_punct (isIdent_of_isVarName hok)).2.2.2.2.2.2.1
  | .self, _, X => by simp [renderRaw]
  | .selected, _, X => by simp [renderRaw]
  | .param n, _, X => by simp [renderRaw]
  | .field h n, hok, X => by
    simp only [Expr.Ok] at hok
    rw [renderRaw_field, List.append_assoc]
    exact first_not_semi swf h hok.2.1 _
  | .index h i, hok, X => by
    simp only [Expr.Ok] at hok
    rw [renderRaw_index, List.append_assoc]
    exact first_not_semi swf h hok.2.1 _
  | .fcall n ps, _, X => by simp [renderRaw_fcall]
  | .icall ns n ps, _, X => by simp [renderRaw_icall]
  | .ocall h n ps, hok, X => by
    simp only [Expr.Ok] at hok
    rw [renderRaw_ocall, List.append_assoc]
    exact first_not_semi swf h hok.2.1 _
  | .un op e, hok, X => by
    simp only [Expr.Ok] at hok
    rw [renderRaw_un]
    simp only [List.cons_append, hk_cons, ne_eq, Option.some.injEq]
    intro heq
    have := hok.1
    rw [heq, swf.unSemi] at this
    cases this
  | .bin l op r, hok, X => by
    simp only [Expr.Ok] at hok
    obtain ⟨hs, hl, hr⟩ := hok
    cases hb : t.bin op.kind with
    | none => simp [hb] at hs
    | some la =>
      obtain ⟨lv, a⟩ := la
      rw [renderRaw_bin t l op r hb, List.append_assoc]
      by_cases hp : l.level t < lmin lv a
      · rw [render_paren t hp]; simp
      · rw [render_raw t hp]
        exact first_not_semi swf l hl _

theorem render_first_not_semi {t : Tbl} (swf : t.StmtWF) (e : Expr) (hok : e.Ok t) (need : Nat) (X : List Tok) :
    hk (render t e need ++ X) ≠ some .SEMICOLON := by
  by_cases hp : e.level t < need
  · rw [render_paren t hp]; simp
  · rw [render_raw t hp]
    exact first_not_semi swf e hok X

/-- after GENERATE, an event specification is recognised as one … -/
theorem startsEvSpec_print (t : Tbl) (es : EvSpec) (hid : es.id.kind.isIdent = true) (to : Tok) (hto : to.kind = .TO)
    (X : List Tok) : startsEvSpec (printEvSpec t es ++ to :: X) = true := by
  obtain ⟨id, star, meaning, parens, data⟩ := es
  simp only at hid
  cases star <;> cases meaning <;> cases parens <;>
    simp [startsEvSpec, printEvSpec, optWord, printEvMeaning, printEvData, hto, hkIs, hid]

/-- … and a variable access is not mistaken for one -/
theorem startsEvSpec_chain (t : Tbl) {e : Expr} (hok : e.Ok t) (hc : e.isChain = true) (sc : Tok)
    (hsc : sc.kind = .SEMICOLON) (X : List Tok) : startsEvSpec (renderRaw t e ++ sc :: X) = false := by
  rcases chain_second t hok hc sc X with h | h | h <;> simp only [startsEvSpec, h, hsc, Bool.and_false]

/-- a statement that begins with the first token of an access chain / invocation, followed by `=`, `.` or `[`
    (or whose first token is not a statement keyword), is read as such -/
theorem startsAccessStmt_of {tok : Tok} {ts : List Tok} (h1 : isAccessStart (some tok.kind) = true)
    (h2 : tok.kind.isStmtKeyword = false ∨ hk ts = some .EQUAL ∨ hk ts = some .DOT ∨ hk ts = some .LSQBR) :
    startsAccessStmt tok ts = true := by
  cases hk' : tok.kind <;> simp [isAccessStart, Kind.isVarName, hk'] at h1 <;>
    rcases h2 with h | h | h | h <;>
    simp [startsAccessStmt, hk', h, Kind.isVarName, Kind.isStmtKeyword] at h ⊢

/-- a statement keyword that is also a variable name is the keyword unless `=`, `.` or `[` follows -/
theorem startsAccessStmt_keyword {tok : Tok} {ts : List Tok} (h1 : tok.kind.isStmtKeyword = true)
    (h2 : hk ts ≠ some .EQUAL ∧ hk ts ≠ some .DOT ∧ hk ts ≠ some .LSQBR) : startsAccessStmt tok ts = false := by
  obtain ⟨ha, hb, hc⟩ := h2
  cases hk' : tok.kind <;> simp [Kind.isStmtKeyword, hk'] at h1 <;>
    simp only [startsAccessStmt, hk', Kind.isVarName, Kind.isStmtKeyword, Bool.not_true, Bool.false_or, Bool.true_and] <;>
    (split <;> simp_all)

/-- the first token of a chain followed by `=`: the chain starts an access statement -/
theorem chain_startsAccessStmt (t : Tbl) {e : Expr} (hok : e.Ok t) (hc : e.isChain = true) (X : List Tok)
    (hX : hk X = some .EQUAL ∨ hk X = some .DOT ∨ hk X = some .LSQBR) :
    ∃ tok ts, renderRaw t e ++ X = tok :: ts ∧ startsAccessStmt tok ts = true := by
  have hacc := accessStart_chain t e hok hc X
  rcases chain_shape t e hok hc X with ⟨tok, h⟩ | ⟨tok, tok2, ts, h, hd⟩
  · rw [h] at hacc
    exact ⟨tok, X, h, startsAccessStmt_of hacc (Or.inr hX)⟩
  · rw [h] at hacc
    refine ⟨tok, tok2 :: ts, h, startsAccessStmt_of hacc (Or.inr ?_)⟩
    rcases hd with hd | hd
    · exact Or.inr (Or.inl (by simp [hd]))
    · exact Or.inr (Or.inr (by simp [hd]))

/-- the statement parser on a statement that begins with an access chain or an invocation -/
theorem parseStmt_access (t : Tbl) (f : Nat) (tok : Tok) (ts : List Tok) (h : startsAccessStmt tok ts = true) :
    parseStmt t (f + 1) (tok :: ts) =
      match parsePrefix t f (tok :: ts) with
      | some (x, ts') =>
        if hk ts' = some .EQUAL then
          if x.isVarAccess then
            match parseExpr t f 0 (ts'.drop 1) with
            | some (e, ts'') => some (.assign false x e, ts'')
            | none => none
          else none
        else if x.isInvocation then some (.invoke x, ts')
        else none
      | none => none := by
  simp only [parseStmt, h, ↓reduceIte]
  rfl

/-- the tokens that end a block -/
def Kind.isBlockEnd : Kind → Bool
  | .END_IF | .END_FOR | .END_WHILE | .ELIF | .ELSE => true
  | _ => false

/-- what may follow a block: nothing, or one of the block-ending tokens -/
def BlockEnd (rest : List Tok) : Prop := rest = [] ∨ StartsWith Kind.isBlockEnd rest

theorem blockEnd_cons (tok : Tok) (ts : List Tok) (h : tok.kind.isBlockEnd = true) : BlockEnd (tok :: ts) :=
  Or.inr ⟨tok, ts, rfl, h⟩

theorem afterExpr_of_blockEnd (k : Kind) (h : k.isBlockEnd = true) : k.isAfterExpr = true := by
  cases k <;> simp [Kind.isBlockEnd] at h <;> rfl

theorem BlockEnd.stops {t : Tbl} (swf : t.StmtWF) (m : Nat) {rest : List Tok} (h : BlockEnd rest) : Stops t m rest := by
  rcases h with rfl | h
  · exact stops_nil t m
  · exact stops_startsWith swf m (h.mono afterExpr_of_blockEnd)

theorem BlockEnd.hk_ne {rest : List Tok} (h : BlockEnd rest) {k : Kind} (hk' : k.isBlockEnd = false) :
    hk rest ≠ some k := by
  rcases h with rfl | h
  · simp
  · exact h.hk_ne hk'

/-- a block followed by a block end begins with a statement start or a block end … -/
theorem block_then_end_first (t : Tbl) (b : Block) (hok : b.Ok t) {X : List Tok} (hX : StartsWith Kind.isBlockEnd X) :
    StartsWith (fun k => k.isStmtStart || k.isBlockEnd) (printBlock t b ++ X) :=
  block_first t (fun k h => by simp [h]) b hok (hX.mono (fun k h => by simp [h]))

/-- … so it does not begin with an optional word, and whatever precedes it was a complete expression -/
theorem block_hk_ne (t : Tbl) (b : Block) (hok : b.Ok t) {X : List Tok} (hX : StartsWith Kind.isBlockEnd X) {k : Kind}
    (h1 : k.isStmtStart = false) (h2 : k.isBlockEnd = false) : hk (printBlock t b ++ X) ≠ some k :=
  (block_then_end_first t b hok hX).hk_ne (by simp [h1, h2])

theorem block_afterExpr (t : Tbl) (b : Block) (hok : b.Ok t) {X : List Tok} (hX : StartsWith Kind.isBlockEnd X) :
    StartsWith Kind.isAfterExpr (printBlock t b ++ X) :=
  (block_then_end_first t b hok hX).mono (fun k h => by
    simp only [Bool.or_eq_true] at h
    rcases h with h | h
    · exact afterExpr_of_stmtStart k h
    · exact afterExpr_of_blockEnd k h)

/-! ### fuel -/

mutual
def costS : Stmt → Nat
  | .ret e => costOpt e + 1
  | .assign _ va e => cost va + cost e + 5
  | .invoke inv => cost inv + 1
  | .kwCall _ va _ _ ps => costOptVa va + costP ps + 3
  | .trCall va h n ps => costOptVa va + cost (.ocall h n ps) + 1
  | .sendEvent _ _ ps to => costP ps + cost to + 6
  | .gen es tg => costEv es + costTg tg + 2
  | .genPre va => cost va + 1
  | .crtEv _ es tg => costEv es + costTg tg + 2
  | .forEach _ _ _ b => costB b + 1
  | .while_ c _ b => cost c + costB b + 4
  | .if_ c _ b el e => cost c + costB b + costEl el + costElse e + 4
  | .selFrom _ _ _ _ w => costOpt w + 1
  | .selRel _ _ hook chain w => cost hook + chain.length + costOpt w + 1
  | _ => 1
def costB : Block → Nat
  | .nil => 1
  | .cons s b => costS s + costB b + 1
def costEl : Elifs → Nat
  | .nil => 1
  | .cons c _ b more => cost c + costB b + costEl more + 4
def costElse : Else → Nat
  | .none => 1
  | .some b => costB b + 1
end

/-! ### the round trip -/

def RS (t : Tbl) (s : Stmt) : Prop :=
  ∀ sc rest, sc.kind = Kind.SEMICOLON → ∀ f, costS s ≤ f →
    parseStmt t f (printStmt t s ++ sc :: rest) = some (s, sc :: rest)

def RB (t : Tbl) (b : Block) : Prop :=
  ∀ rest, BlockEnd rest → ∀ f, costB b ≤ f → parseBlock t f (printBlock t b ++ rest) = some (b, rest)

def REl (t : Tbl) (el : Elifs) : Prop :=
  ∀ rest, BlockEnd rest → hk rest ≠ some .ELIF → ∀ f, costEl el ≤ f →
    parseElifs t f (printElifs t el ++ rest) = some (el, rest)

def REs (t : Tbl) (e : Else) : Prop :=
  ∀ rest, BlockEnd rest → hk rest ≠ some .ELSE → ∀ f, costElse e ≤ f →
    parseElse t f (printElse t e ++ rest) = some (e, rest)

section simple
variable {t : Tbl}

theorem accessStart_hk_not_punct {l : List Tok} (h : isAccessStart (hk l) = true) :
    hk l ≠ some .EQUAL ∧ hk l ≠ some .DOT ∧ hk l ≠ some .LSQBR := by
  refine ⟨?_, ?_, ?_⟩ <;> (intro he; rw [he] at h; cases h)

theorem hk_ident_not_punct {n : Tok} (hn : n.kind.isIdent = true) (ts : List Tok) :
    hk (n :: ts) ≠ some .EQUAL ∧ hk (n :: ts) ≠ some .DOT ∧ hk (n :: ts) ≠ some .LSQBR := by
  have h := isIdent_not_punct hn
  simp only [hk_cons, ne_eq, Option.some.injEq]
  exact ⟨h.1, h.2.1, h.2.2.1⟩

theorem hk_printInst_not_punct {i : InstName} (hi : i.Ok) (ts : List Tok) :
    hk (printInst i :: ts) ≠ some .EQUAL ∧ hk (printInst i :: ts) ≠ some .DOT ∧
      hk (printInst i :: ts) ≠ some .LSQBR := by
  cases i with
  | var n => exact hk_ident_not_punct (isIdent_of_isVarName hi) ts
  | self lex => simp [printInst]

theorem isVarName_ne_OF {k : Kind} (h : k.isVarName = true) : k ≠ .OF := by
  intro he; rw [he] at h; cases h

theorem rs_brk : RS t .brk := by
  intro sc rest hsc f hf
  obtain ⟨f', rfl⟩ := fuel_succ (f := f) (n := 0) (by simp only [costS] at hf; omega)
  have h0 : startsAccessStmt (tk .BREAK "break") (sc :: rest) = false :=
    startsAccessStmt_keyword rfl (by simp [hsc])
  simp only [printStmt, List.cons_append, List.nil_append, parseStmt, h0, Bool.false_eq_true, ↓reduceIte, tk_kind]

theorem rs_cont : RS t .cont := by
  intro sc rest hsc f hf
  obtain ⟨f', rfl⟩ := fuel_succ (f := f) (n := 0) (by simp only [costS] at hf; omega)
  have h0 : startsAccessStmt (tk .CONTINUE "continue") (sc :: rest) = false :=
    startsAccessStmt_keyword rfl (by simp [hsc])
  simp only [printStmt, List.cons_append, List.nil_append, parseStmt, h0, Bool.false_eq_true, ↓reduceIte, tk_kind]

theorem rs_ctrl : RS t .ctrl := by
  intro sc rest _ f hf
  obtain ⟨f', rfl⟩ := fuel_succ (f := f) (n := 0) (by simp only [costS] at hf; omega)
  have h0 : startsAccessStmt (tk .CONTROL "control") (tk .STOP "stop" :: sc :: rest) = false :=
    startsAccessStmt_keyword rfl (by simp)
  simp only [printStmt, List.cons_append, List.nil_append, parseStmt, h0, Bool.false_eq_true, ↓reduceIte, tk_kind,
    expectK_tk]

theorem rs_ret (wf : t.WF) (swf : t.StmtWF) (e : Option Expr) (hok : optExprOk t e) : RS t (.ret e) := by
  intro sc rest hsc f hf
  have h0 : ∀ ts, startsAccessStmt (tk .RETURN "return") ts = false := fun _ => rfl
  cases e with
  | none =>
    obtain ⟨f', rfl⟩ := fuel_succ (f := f) (n := 0) (by simp only [costS] at hf; omega)
    simp only [printStmt, List.cons_append, List.nil_append, parseStmt, h0, Bool.false_eq_true, tk_kind, hk_cons, hsc,
      ↓reduceIte]
  | some e =>
    simp only [costS, costOpt] at hf
    obtain ⟨f', rfl⟩ := fuel_succ (f := f) (n := 0) (by omega)
    have hns := render_first_not_semi swf e hok 0 (sc :: rest)
    have he := roundtrip_fuel wf (e := e) hok 0 (stops_afterExpr swf 0 sc rest (by rw [hsc]; rfl)) f' (by omega)
    simp only [printStmt, List.cons_append, parseStmt, h0, Bool.false_eq_true, tk_kind, hns, ↓reduceIte, he]

theorem rs_createObj (v kl : Tok) (hv : v.kind.isVarName = true) (hkl : kl.kind.isIdent = true) :
    RS t (.createObj v kl) := by
  intro sc rest hsc f hf
  obtain ⟨f', rfl⟩ := fuel_succ (f := f) (n := 0) (by simp only [costS] at hf; omega)
  have h0 : startsAccessStmt (tk .CREATE "create")
      (tk .OBJECT "object" :: tk .INSTANCE "instance" :: v :: tk .OF "of" :: kl :: sc :: rest) = false :=
    startsAccessStmt_keyword rfl (by simp)
  have hof := isVarName_ne_OF hv
  simp only [printStmt, List.cons_append, List.nil_append, parseStmt, h0, Bool.false_eq_true, ↓reduceIte, tk_kind,
    hk_cons, Option.some.injEq, reduceCtorEq, expectK_tk, hof, takeVarName_of hv, takeIdent_of hkl]

theorem rs_createObjNoVar (kl : Tok) (hkl : kl.kind.isIdent = true) : RS t (.createObjNoVar kl) := by
  intro sc rest hsc f hf
  obtain ⟨f', rfl⟩ := fuel_succ (f := f) (n := 0) (by simp only [costS] at hf; omega)
  have h0 : startsAccessStmt (tk .CREATE "create")
      (tk .OBJECT "object" :: tk .INSTANCE "instance" :: tk .OF "of" :: kl :: sc :: rest) = false :=
    startsAccessStmt_keyword rfl (by simp)
  simp only [printStmt, List.cons_append, List.nil_append, parseStmt, h0, Bool.false_eq_true, ↓reduceIte, tk_kind,
    hk_cons, Option.some.injEq, reduceCtorEq, expectK_tk, List.drop_succ_cons, List.drop_zero, takeIdent_of hkl]

theorem rs_delete (i : InstName) (hi : i.Ok) : RS t (.delete i) := by
  intro sc rest hsc f hf
  obtain ⟨f', rfl⟩ := fuel_succ (f := f) (n := 0) (by simp only [costS] at hf; omega)
  have h0 : startsAccessStmt (tk .DELETE "delete")
      (tk .OBJECT "object" :: tk .INSTANCE "instance" :: printInst i :: sc :: rest) = false :=
    startsAccessStmt_keyword rfl (by simp)
  simp only [printStmt, List.cons_append, List.nil_append, parseStmt, h0, Bool.false_eq_true, ↓reduceIte, tk_kind,
    expectK_tk, parseInstName_print i hi]

theorem rs_rel (un : Bool) (a b : InstName) (r : Tok) (ph : Option Phrase) (u : Option InstName)
    (ha : a.Ok) (hb : b.Ok) (hr : r.kind.isVarName = true) (hph : optPhraseOk ph) (hu : optInstOk u) :
    RS t (.rel un a b r ph u) := by
  intro sc rest hsc f hf
  obtain ⟨f', rfl⟩ := fuel_succ (f := f) (n := 0) (by simp only [costS] at hf; omega)
  have h := parseRel_print un a b r ph u ha hb hr hph hu sc hsc rest
  have hp := hk_printInst_not_punct ha
  cases un with
  | false =>
    have h0 := startsAccessStmt_keyword (tok := tk .RELATE "relate") rfl (hp (tk .TO "to" :: printInst b ::
      tk .ACROSS "across" :: r :: (printOptPhrase ph ++ (printUsing u ++ sc :: rest))))
    simpa only [printStmt, Bool.false_eq_true, ↓reduceIte, List.cons_append, List.append_assoc, parseStmt, h0,
      tk_kind] using h
  | true =>
    have h0 := startsAccessStmt_keyword (tok := tk .UNRELATE "unrelate") rfl (hp (tk .FROM "from" :: printInst b ::
      tk .ACROSS "across" :: r :: (printOptPhrase ph ++ (printUsing u ++ sc :: rest))))
    simpa only [printStmt, Bool.false_eq_true, ↓reduceIte, List.cons_append, List.append_assoc, parseStmt, h0,
      tk_kind] using h

theorem rs_assign (wf : t.WF) (swf : t.StmtWF) (kw : Bool) (va e : Expr) (hv : va.isVarAccess = true)
    (hvok : va.Ok t) (heok : e.Ok t) : RS t (.assign kw va e) := by
  intro sc rest hsc f hf
  simp only [costS] at hf
  obtain ⟨f', rfl⟩ := fuel_succ (f := f) (n := 0) (by omega)
  have hne : NoExt (tk .EQUAL "=" :: (render t e 0 ++ sc :: rest)) := by refine ⟨?_, ?_, ?_⟩ <;> simp
  have hc := isChain_of_isVarAccess hv
  have he := roundtrip_fuel wf heok 0 (stops_afterExpr swf 0 sc rest (by rw [hsc]; rfl)) f' (by omega)
  cases kw with
  | true =>
    have ha := parseAccess_chain wf hvok hc hne f' (by omega)
    have h0 := startsAccessStmt_keyword (tok := tk .ASSIGN "assign") rfl
      (accessStart_hk_not_punct (accessStart_chain t va hvok hc (tk .EQUAL "=" :: (render t e 0 ++ sc :: rest))))
    simp only [printStmt, optWord, ↓reduceIte, List.cons_append, List.nil_append, List.append_assoc, parseStmt, h0,
      Bool.false_eq_true, tk_kind, ha, hv, hk_cons, and_self, List.drop_succ_cons, List.drop_zero, he]
  | false =>
    have hp := roundtrip_prefix wf hvok (isOp_of_isChain hc) hne f' (by omega)
    obtain ⟨tok, ts, hts, hstart⟩ := chain_startsAccessStmt t hvok hc (tk .EQUAL "=" :: (render t e 0 ++ sc :: rest))
      (Or.inl rfl)
    simp only [printStmt, optWord, Bool.false_eq_true, ↓reduceIte, List.nil_append, List.append_assoc,
      List.cons_append]
    rw [hts, parseStmt_access t f' tok ts hstart, ← hts, hp]
    simp only [hk_cons, tk_kind, ↓reduceIte, hv, List.drop_succ_cons, List.drop_zero, he]

theorem rs_invoke (wf : t.WF) (inv : Expr) (hi : inv.isInvocation = true) (hok : inv.Ok t) : RS t (.invoke inv) := by
  intro sc rest hsc f hf
  simp only [costS] at hf
  obtain ⟨f', rfl⟩ := fuel_succ (f := f) (n := 0) (by omega)
  have hne : NoExt (sc :: rest) := noExt_afterExpr sc rest (by rw [hsc]; rfl)
  have hp := roundtrip_prefix wf hok (isOp_of_isInvocation hi) hne f' (by omega)
  have hstart : ∃ tok ts, renderRaw t inv ++ sc :: rest = tok :: ts ∧ startsAccessStmt tok ts = true := by
    cases inv with
    | fcall n ps => exact ⟨_, _, by rw [renderRaw_fcall]; rfl, rfl⟩
    | icall ns n ps => exact ⟨_, _, by rw [renderRaw_icall]; rfl, rfl⟩
    | ocall h n ps =>
      simp only [Expr.Ok] at hok
      rw [renderRaw_ocall, List.append_assoc]
      exact chain_startsAccessStmt t hok.2.1 (isChain_of_isStruct hok.1) _ (Or.inr (Or.inl rfl))
    | _ => simp [Expr.isInvocation] at hi
  obtain ⟨tok, ts, hts, hst⟩ := hstart
  simp only [printStmt]
  rw [hts, parseStmt_access t f' tok ts hst, ← hts, hp]
  simp only [hk_cons, hsc, Option.some.injEq, reduceCtorEq, ↓reduceIte, hi]

theorem rs_kwCall (wf : t.WF) (k : IKind) (va : Option Expr) (ns : String) (n : Tok) (ps : Params)
    (hva : optVarAccessOk t va) (hn : n.kind.isIdent = true) (hps : ps.Ok t) : RS t (.kwCall k va ns n ps) := by
  intro sc rest hsc f hf
  simp only [costS] at hf
  obtain ⟨f', rfl⟩ := fuel_succ (f := f) (n := 0) (by omega)
  have h := parseKw_kwCall wf k va ns n ps hva hn hps sc hsc rest f' (by omega)
  have hb : ∀ ts, startsAccessStmt (tk .BRIDGE "bridge") ts = false := fun _ => rfl
  have ht : ∀ ts, startsAccessStmt (tk .TRANSFORM "transform") ts = false := fun _ => rfl
  have hs : ∀ ts, startsAccessStmt (tk .SEND "send") ts = false := fun _ => rfl
  cases va <;> cases k <;>
    simpa only [printStmt, IKind.kw, List.cons_append, List.append_assoc, parseStmt, hb, ht, hs, Bool.false_eq_true,
      ↓reduceIte, tk_kind] using h

theorem rs_trCall (wf : t.WF) (va : Option Expr) (h : Expr) (n : Tok) (ps : Params)
    (hva : optVarAccessOk t va) (hh : h.isStruct = true) (hhok : h.Ok t) (hn : n.kind.isIdent = true)
    (hps : ps.Ok t) : RS t (.trCall va h n ps) := by
  intro sc rest hsc f hf
  simp only [costS] at hf
  obtain ⟨f', rfl⟩ := fuel_succ (f := f) (n := 0) (by omega)
  have h' := parseKw_trCall wf va h n ps hva hh hhok hn hps sc hsc rest f' (by omega)
  have ht : ∀ ts, startsAccessStmt (tk .TRANSFORM "transform") ts = false := fun _ => rfl
  cases va <;>
    simpa only [printStmt, List.cons_append, List.append_assoc, parseStmt, ht, Bool.false_eq_true, ↓reduceIte,
      tk_kind] using h'

theorem rs_sendEvent (wf : t.WF) (swf : t.StmtWF) (port : String) (n : Tok) (ps : Params) (to : Expr)
    (hn : n.kind.isIdent = true) (hps : ps.Ok t) (hto : to.Ok t) : RS t (.sendEvent port n ps to) := by
  intro sc rest hsc f hf
  simp only [costS] at hf
  obtain ⟨f', rfl⟩ := fuel_succ (f := f) (n := 0) (by omega)
  have h := parseKw_sendEvent wf swf port n ps to hn hps hto sc hsc rest f' (by omega)
  have hs : ∀ ts, startsAccessStmt (tk .SEND "send") ts = false := fun _ => rfl
  simpa only [printStmt, List.cons_append, List.append_assoc, parseStmt, hs, Bool.false_eq_true, ↓reduceIte,
    tk_kind] using h

theorem rs_gen (wf : t.WF) (es : EvSpec) (tg : EvTarget) (hes : es.Ok t) (htg : tg.Ok t) : RS t (.gen es tg) := by
  intro sc rest hsc f hf
  simp only [costS] at hf
  obtain ⟨f', rfl⟩ := fuel_succ (f := f) (n := 0) (by omega)
  have h1 := startsEvSpec_print t es hes.1 (tk .TO "to") rfl (printEvTarget t tg ++ sc :: rest)
  have h2 := parseEvSpec_print wf es hes (tk .TO "to") rfl (printEvTarget t tg ++ sc :: rest) f' (by omega)
  have h3 := parseEvTarget_print wf tg htg sc hsc rest f' (by omega)
  have h0 : startsAccessStmt (tk .GENERATE "generate")
      (printEvSpec t es ++ tk .TO "to" :: (printEvTarget t tg ++ sc :: rest)) = false := by
    refine startsAccessStmt_keyword rfl ?_
    have := hk_ident_not_punct hes.1
    simpa only [printEvSpec, List.cons_append] using this _
  simp only [printStmt, List.cons_append, List.append_assoc, parseStmt, h0, Bool.false_eq_true, ↓reduceIte, tk_kind, h1,
    h2, expectK_tk, h3]

theorem rs_genPre (wf : t.WF) (va : Expr) (hv : va.isVarAccess = true) (hok : va.Ok t) : RS t (.genPre va) := by
  intro sc rest hsc f hf
  simp only [costS] at hf
  obtain ⟨f', rfl⟩ := fuel_succ (f := f) (n := 0) (by omega)
  have hc := isChain_of_isVarAccess hv
  have h1 := startsEvSpec_chain t hok hc sc hsc rest
  have hne : NoExt (sc :: rest) := noExt_afterExpr sc rest (by rw [hsc]; rfl)
  have h2 := parseAccess_chain wf hok hc hne f' (by omega)
  have h0 := startsAccessStmt_keyword (tok := tk .GENERATE "generate") rfl
    (accessStart_hk_not_punct (accessStart_chain t va hok hc (sc :: rest)))
  simp only [printStmt, List.cons_append, parseStmt, h0, tk_kind, h1, Bool.false_eq_true, ↓reduceIte, h2, hv]

theorem rs_crtEv (wf : t.WF) (v : Tok) (es : EvSpec) (tg : EvTarget) (hv : v.kind.isVarName = true) (hes : es.Ok t)
    (htg : tg.Ok t) : RS t (.crtEv v es tg) := by
  intro sc rest hsc f hf
  simp only [costS] at hf
  obtain ⟨f', rfl⟩ := fuel_succ (f := f) (n := 0) (by omega)
  have h2 := parseEvSpec_print wf es hes (tk .TO "to") rfl (printEvTarget t tg ++ sc :: rest) f' (by omega)
  have h3 := parseEvTarget_print wf tg htg sc hsc rest f' (by omega)
  have h0 : ∀ ts, startsAccessStmt (tk .CREATE "create") (tk .EVENT "event" :: ts) = false :=
    fun _ => startsAccessStmt_keyword rfl (by simp)
  simp only [printStmt, List.cons_append, List.append_assoc, parseStmt, h0, Bool.false_eq_true, tk_kind, hk_cons,
    ↓reduceIte, List.drop_succ_cons, List.drop_zero, expectK_tk, takeVarName_of hv, h2, h3]

theorem rs_selFrom (wf : t.WF) (swf : t.StmtWF) (card : CardTok) (v : Tok) (io : Bool) (kl : Tok)
    (w : Option Expr) (hc : card.c ≠ .one) (hv : v.kind.isVarName = true) (hkl : kl.kind.isIdent = true)
    (hw : optExprOk t w) : RS t (.selFrom card v io kl w) := by
  intro sc rest hsc f hf
  simp only [costS] at hf
  obtain ⟨f', rfl⟩ := fuel_succ (f := f) (n := 0) (by omega)
  have h := parseSelect_selFrom wf swf card v io kl w hc hv hkl hw sc hsc rest f' (by omega)
  have h0 : ∀ ts, startsAccessStmt (tk .SELECT "select") (tk card.c.kind card.lex :: ts) = false := by
    intro ts
    refine startsAccessStmt_keyword rfl ?_
    cases card.c <;> simp [Card.kind]
  simpa only [printStmt, List.cons_append, List.append_assoc, parseStmt, h0, Bool.false_eq_true, ↓reduceIte,
    tk_kind] using h

theorem rs_selRel (wf : t.WF) (swf : t.StmtWF) (card : CardTok) (v : Tok) (hook : Expr) (chain : List NavStep)
    (w : Option Expr) (hv : v.kind.isVarName = true) (hh : hook.isHook = true) (hhok : hook.Ok t) (hch : chain ≠ [])
    (hchok : ∀ s ∈ chain, s.Ok) (hw : optExprOk t w) : RS t (.selRel card v hook chain w) := by
  intro sc rest hsc f hf
  simp only [costS] at hf
  obtain ⟨f', rfl⟩ := fuel_succ (f := f) (n := 0) (by omega)
  have h := parseSelect_selRel wf swf card v hook chain w hv hh hhok hch hchok hw sc hsc rest f' (by omega)
  have h0 : ∀ ts, startsAccessStmt (tk .SELECT "select") (tk card.c.kind card.lex :: ts) = false := by
    intro ts
    refine startsAccessStmt_keyword rfl ?_
    cases card.c <;> simp [Card.kind]
  simpa only [printStmt, List.cons_append, List.append_assoc, parseStmt, h0, Bool.false_eq_true, ↓reduceIte,
    tk_kind] using h

end simple

/-! #### compound statements, blocks -/

section compound
variable {t : Tbl}

theorem rb_nil : RB t .nil := by
  intro rest hend f hf
  simp only [costB] at hf
  obtain ⟨f', rfl⟩ := fuel_succ (f := f) (n := 0) (by omega)
  rcases hend with rfl | ⟨tok, ts, rfl, hq⟩
  · simp only [printBlock, List.nil_append, parseBlock]
  · have h1 : tok.kind ≠ .SEMICOLON := by intro h; rw [h] at hq; cases hq
    have h2 : tok.kind.isStmtStart = false := by
      cases hkind : tok.kind <;> simp [hkind, Kind.isBlockEnd] at hq <;> rfl
    simp only [printBlock, List.nil_append, parseBlock, h1, ↓reduceIte, h2, Bool.false_eq_true]

theorem rb_cons (s : Stmt) (b : Block) (hsok : s.Ok t) (hs : RS t s) (hb : RB t b) : RB t (.cons s b) := by
  intro rest hend f hf
  simp only [costB] at hf
  obtain ⟨f', rfl⟩ := fuel_succ (f := f) (n := 0) (by omega)
  obtain ⟨tok, ts, hts, hstart⟩ := stmt_first t s hsok
  have h1 : tok.kind ≠ .SEMICOLON := by intro h; rw [h] at hstart; cases hstart
  have hs' := hs (tk .SEMICOLON ";") (printBlock t b ++ rest) rfl f' (by omega)
  have hb' := hb rest hend f' (by omega)
  rw [hts] at hs'
  simp only [List.cons_append] at hs'
  rw [printBlock, hts]
  simp only [List.cons_append, List.append_assoc, parseBlock, h1, ↓reduceIte, hstart, hs', expectK_tk, hb']

theorem rs_forEach (v st : Tok) (lp : Bool) (b : Block) (hv : v.kind.isVarName = true) (hst : st.kind.isVarName = true)
    (hbok : b.Ok t) (hb : RB t b) :
    RS t (.forEach v st lp b) := by
  intro sc rest hsc f hf
  simp only [costS] at hf
  obtain ⟨f', rfl⟩ := fuel_succ (f := f) (n := 0) (by omega)
  have hX : StartsWith Kind.isBlockEnd (tk .END_FOR "end for" :: sc :: rest) := ⟨_, _, rfl, rfl⟩
  have hlp := optK_optWord .LOOP "loop" lp (block_hk_ne t b hbok hX (k := .LOOP) rfl rfl)
  have hb' := hb (tk .END_FOR "end for" :: sc :: rest) (Or.inr hX) f' (by omega)
  have h0 : ∀ ts, startsAccessStmt (tk .FOR "for") (tk .EACH "each" :: ts) = false :=
    fun _ => startsAccessStmt_keyword rfl (by simp)
  simp only [printStmt, List.cons_append, List.append_assoc, List.nil_append, parseStmt, h0, Bool.false_eq_true,
    ↓reduceIte, tk_kind, expectK_tk, takeVarName_of hv, takeVarName_of hst, hlp, hb']

theorem rs_while (wf : t.WF) (swf : t.StmtWF) (c : Expr) (lp : Bool) (b : Block) (hcok : c.Ok t) (hbok : b.Ok t)
    (hb : RB t b) : RS t (.while_ c lp b) := by
  intro sc rest hsc f hf
  simp only [costS] at hf
  obtain ⟨f', rfl⟩ := fuel_succ (f := f) (n := 0) (by omega)
  have hX : StartsWith Kind.isBlockEnd (tk .END_WHILE "end while" :: sc :: rest) := ⟨_, _, rfl, rfl⟩
  have hlp := optK_optWord .LOOP "loop" lp (block_hk_ne t b hbok hX (k := .LOOP) rfl rfl)
  have hb' := hb (tk .END_WHILE "end while" :: sc :: rest) (Or.inr hX) f' (by omega)
  have hstop : Stops t 0 (optWord lp (tk .LOOP "loop") ++ (printBlock t b ++ tk .END_WHILE "end while" :: sc :: rest)) :=
    stops_startsWith swf 0 (optWord_first lp _ rfl (block_afterExpr t b hbok hX))
  have hc := roundtrip_fuel wf hcok 0 hstop f' (by omega)
  have h0 : ∀ ts, startsAccessStmt (tk .WHILE "while") ts = false := fun _ => rfl
  simp only [printStmt, List.cons_append, List.append_assoc, List.nil_append, parseStmt, h0, Bool.false_eq_true,
    ↓reduceIte, tk_kind, hc, hlp, hb', expectK_tk]

/-- what follows the first block of an `if` -/
theorem elifs_first (t : Tbl) (el : Elifs) (e : Else) (X : List Tok) :
    StartsWith Kind.isBlockEnd (printElifs t el ++ (printElse t e ++ tk .END_IF "end if" :: X)) := by
  cases el with
  | cons c th b more => exact ⟨_, _, by rw [printElifs]; rfl, rfl⟩
  | nil =>
    cases e with
    | none => exact ⟨_, _, by rw [printElifs, printElse]; rfl, rfl⟩
    | some b => exact ⟨_, _, by rw [printElifs, printElse]; rfl, rfl⟩

theorem else_first (t : Tbl) (e : Else) (X : List Tok) :
    StartsWith Kind.isBlockEnd (printElse t e ++ tk .END_IF "end if" :: X) := by
  cases e with
  | none => exact ⟨_, _, by rw [printElse]; rfl, rfl⟩
  | some b => exact ⟨_, _, by rw [printElse]; rfl, rfl⟩

theorem rs_if (wf : t.WF) (swf : t.StmtWF) (c : Expr) (th : Bool) (b : Block) (el : Elifs) (e : Else)
    (hcok : c.Ok t) (hbok : b.Ok t) (hb : RB t b) (hel : REl t el) (he : REs t e) : RS t (.if_ c th b el e) := by
  intro sc rest hsc f hf
  simp only [costS] at hf
  obtain ⟨f', rfl⟩ := fuel_succ (f := f) (n := 0) (by omega)
  have hX := elifs_first t el e (sc :: rest)
  have hY := else_first t e (sc :: rest)
  have hth := optK_optWord .THEN "then" th (block_hk_ne t b hbok hX (k := .THEN) rfl rfl)
  have hb' := hb _ (Or.inr hX) f' (by omega)
  have hel' := hel (printElse t e ++ tk .END_IF "end if" :: sc :: rest) (Or.inr hY)
    (by cases e <;> simp [printElse]) f' (by omega)
  have he' := he (tk .END_IF "end if" :: sc :: rest) (blockEnd_cons _ _ rfl) (by simp) f' (by omega)
  have hstop : Stops t 0 (optWord th (tk .THEN "then") ++ (printBlock t b ++
      (printElifs t el ++ (printElse t e ++ tk .END_IF "end if" :: sc :: rest)))) :=
    stops_startsWith swf 0 (optWord_first th _ rfl (block_afterExpr t b hbok hX))
  have hc := roundtrip_fuel wf hcok 0 hstop f' (by omega)
  have h0 : ∀ ts, startsAccessStmt (tk .IF "if") ts = false := fun _ => rfl
  simp only [printStmt, List.cons_append, List.append_assoc, List.nil_append, parseStmt, h0, Bool.false_eq_true,
    ↓reduceIte, tk_kind, hc, hth, hb', hel', he', expectK_tk]

theorem rel_nil : REl t .nil := by
  intro rest _ hne f hf
  simp only [costEl] at hf
  obtain ⟨f', rfl⟩ := fuel_succ (f := f) (n := 0) (by omega)
  simp only [printElifs, List.nil_append, parseElifs, hne, ↓reduceIte]

theorem rel_cons (wf : t.WF) (swf : t.StmtWF) (c : Expr) (th : Bool) (b : Block) (more : Elifs) (hcok : c.Ok t)
    (hbok : b.Ok t) (hb : RB t b) (hmore : REl t more) : REl t (.cons c th b more) := by
  intro rest hend hne f hf
  simp only [costEl] at hf
  obtain ⟨f', rfl⟩ := fuel_succ (f := f) (n := 0) (by omega)
  have hmore' := hmore rest hend hne f' (by omega)
  -- what follows the block: more elifs, or `rest`
  have hZ : BlockEnd (printElifs t more ++ rest) := by
    cases more with
    | nil => simpa only [printElifs, List.nil_append] using hend
    | cons c' th' b' more' => exact Or.inr ⟨_, _, by rw [printElifs]; rfl, rfl⟩
  have hb' := hb _ hZ f' (by omega)
  have hthen : hk (printBlock t b ++ (printElifs t more ++ rest)) ≠ some .THEN := by
    rcases hZ with hnil | hZ
    · rw [hnil, List.append_nil]
      cases b with
      | nil => simp [printBlock]
      | cons s b' =>
        simp only [Block.Ok] at hbok
        rw [printBlock]
        exact ((stmt_first t s hbok.1).append _).hk_ne rfl
    · exact block_hk_ne t b hbok hZ rfl rfl
  have hth := optK_optWord .THEN "then" th hthen
  have hstop : Stops t 0 (optWord th (tk .THEN "then") ++ (printBlock t b ++ (printElifs t more ++ rest))) := by
    rcases hZ with hnil | hZ
    · rw [hnil, List.append_nil]
      cases th with
      | true => exact stops_startsWith swf 0 ⟨tk .THEN "then", printBlock t b, by simp [optWord], rfl⟩
      | false =>
        simp only [optWord, Bool.false_eq_true, ↓reduceIte, List.nil_append]
        cases b with
        | nil => simpa only [printBlock] using stops_nil t 0
        | cons s b' =>
          simp only [Block.Ok] at hbok
          rw [printBlock]
          exact stops_startsWith swf 0 (((stmt_first t s hbok.1).mono afterExpr_of_stmtStart).append _)
    · exact stops_startsWith swf 0 (optWord_first th _ rfl (block_afterExpr t b hbok hZ))
  have hc := roundtrip_fuel wf hcok 0 hstop f' (by omega)
  simp only [printElifs, List.cons_append, List.append_assoc, parseElifs, hk_cons, tk_kind, ↓reduceIte,
    List.drop_succ_cons, List.drop_zero, hc, hth, hb', hmore']

theorem res_none : REs t .none := by
  intro rest _ hne f hf
  simp only [costElse] at hf
  obtain ⟨f', rfl⟩ := fuel_succ (f := f) (n := 0) (by omega)
  simp only [printElse, List.nil_append, parseElse, hne, ↓reduceIte]

theorem res_some (b : Block) (hb : RB t b) : REs t (.some b) := by
  intro rest hend _ f hf
  simp only [costElse] at hf
  obtain ⟨f', rfl⟩ := fuel_succ (f := f) (n := 0) (by omega)
  have hb' := hb rest hend f' (by omega)
  simp only [printElse, List.cons_append, parseElse, hk_cons, tk_kind, ↓reduceIte, List.drop_succ_cons,
    List.drop_zero, hb']

end compound

/-! #### the induction -/

mutual
theorem stmt_good {t : Tbl} (wf : t.WF) (swf : t.StmtWF) : (s : Stmt) → s.Ok t → RS t s
  | .brk, _ => rs_brk
  | .cont, _ => rs_cont
  | .ctrl, _ => rs_ctrl
  | .ret e, hok => by
    simp only [Stmt.Ok] at hok
    exact rs_ret wf swf e hok
  | .assign kw va e, hok => by
    simp only [Stmt.Ok] at hok
    exact rs_assign wf swf kw va e hok.1 hok.2.1 hok.2.2
  | .invoke inv, hok => by
    simp only [Stmt.Ok] at hok
    exact rs_invoke wf inv hok.1 hok.2
  | .kwCall k va ns n ps, hok => by
    simp only [Stmt.Ok] at hok
    exact rs_kwCall wf k va ns n ps hok.1 hok.2.1 hok.2.2
  | .trCall va h n ps, hok => by
    simp only [Stmt.Ok] at hok
    exact rs_trCall wf va h n ps hok.1 hok.2.1 hok.2.2.1 hok.2.2.2.1 hok.2.2.2.2
  | .sendEvent p n ps to, hok => by
    simp only [Stmt.Ok] at hok
    exact rs_sendEvent wf swf p n ps to hok.1 hok.2.1 hok.2.2
  | .gen es tg, hok => by
    simp only [Stmt.Ok] at hok
    exact rs_gen wf es tg hok.1 hok.2
  | .genPre va, hok => by
    simp only [Stmt.Ok] at hok
    exact rs_genPre wf va hok.1 hok.2
  | .crtEv v es tg, hok => by
    simp only [Stmt.Ok] at hok
    exact rs_crtEv wf v es tg hok.1 hok.2.1 hok.2.2
  | .createObj v kl, hok => by
    simp only [Stmt.Ok] at hok
    exact rs_createObj v kl hok.1 hok.2
  | .createObjNoVar kl, hok => by
    simp only [Stmt.Ok] at hok
    exact rs_createObjNoVar kl hok
  | .delete i, hok => by
    simp only [Stmt.Ok] at hok
    exact rs_delete i hok
  | .forEach v st lp b, hok => by
    simp only [Stmt.Ok] at hok
    exact rs_forEach v st lp b hok.1 hok.2.1 hok.2.2 (block_good wf swf b hok.2.2)
  | .while_ c lp b, hok => by
    simp only [Stmt.Ok] at hok
    exact rs_while wf swf c lp b hok.1 hok.2 (block_good wf swf b hok.2)
  | .if_ c th b el e, hok => by
    simp only [Stmt.Ok] at hok
    exact rs_if wf swf c th b el e hok.1 hok.2.1 (block_good wf swf b hok.2.1) (elifs_good wf swf el hok.2.2.1)
      (else_good wf swf e hok.2.2.2)
  | .rel un a b r ph u, hok => by
    simp only [Stmt.Ok] at hok
    exact rs_rel un a b r ph u hok.1 hok.2.1 hok.2.2.1 hok.2.2.2.1 hok.2.2.2.2
  | .selFrom card v io kl w, hok => by
    simp only [Stmt.Ok] at hok
    exact rs_selFrom wf swf card v io kl w hok.1 hok.2.1 hok.2.2.1 hok.2.2.2
  | .selRel card v hook chain w, hok => by
    simp only [Stmt.Ok] at hok
    exact rs_selRel wf swf card v hook chain w hok.1 hok.2.1 hok.2.2.1 hok.2.2.2.1 hok.2.2.2.2.1 hok.2.2.2.2.2
theorem block_good {t : Tbl} (wf : t.WF) (swf : t.StmtWF) : (b : Block) → b.Ok t → RB t b
  | .nil, _ => rb_nil
  | .cons s b, hok => by
    simp only [Block.Ok] at hok
    exact rb_cons s b hok.1 (stmt_good wf swf s hok.1) (block_good wf swf b hok.2)
theorem elifs_good {t : Tbl} (wf : t.WF) (swf : t.StmtWF) : (el : Elifs) → el.Ok t → REl t el
  | .nil, _ => rel_nil
  | .cons c th b more, hok => by
    simp only [Elifs.Ok] at hok
    exact rel_cons wf swf c th b more hok.1 hok.2.1 (block_good wf swf b hok.2.1) (elifs_good wf swf more hok.2.2)
theorem else_good {t : Tbl} (wf : t.WF) (swf : t.StmtWF) : (e : Else) → e.Ok t → REs t e
  | .none, _ => res_none
  | .some b, hok => by
    simp only [Else.Ok] at hok
    exact res_some b (block_good wf swf b hok)
end

/-! #### fuel: `fuelForS` is enough -/

theorem render_len (t : Tbl) {e : Expr} (hok : e.Ok t) (need : Nat) : cost e ≤ 6 * (render t e need).length := by
  have h1 := cost_le_len t e hok
  have h2 := wrap_length_ge (decide (e.level t < need)) (renderRaw t e)
  simp only [render]
  omega

theorem costOpt_le (t : Tbl) (w : Option Expr) (hok : optExprOk t w) : costOpt w ≤ 8 * (printOptWhere t w).length := by
  cases w with
  | none => simp [costOpt]
  | some e =>
    have := render_len t (e := e) hok 0
    simp only [costOpt, printOptWhere, List.length_cons]
    omega

theorem costOptVa_le (t : Tbl) (va : Option Expr) (hok : optVarAccessOk t va) :
    costOptVa va ≤ 6 * (match va with | some v => (renderRaw t v).length | none => 0) := by
  cases va with
  | none => simp [costOptVa]
  | some v => exact cost_le_len t v hok.2

theorem costEv_le (t : Tbl) (es : EvSpec) (hok : es.Ok t) : costEv es ≤ 8 * (printEvSpec t es).length := by
  obtain ⟨id, star, meaning, parens, data⟩ := es
  obtain ⟨_, _, hd, hp⟩ := hok
  have h := costP_le_len t data hd
  cases parens with
  | false =>
    have := hp rfl
    subst this
    simp only [costEv, costP, printEvSpec, List.length_cons]
    omega
  | true =>
    simp only [costEv, printEvSpec, printEvData, ↓reduceIte, List.length_cons, List.length_append, List.length_nil]
    omega

theorem costTg_le (t : Tbl) (tg : EvTarget) (hok : tg.Ok t) : costTg tg ≤ 6 * (printEvTarget t tg).length := by
  cases tg with
  | inst e => exact cost_le_len t e hok.2
  | cls kl a => simp [costTg]
  | creator kl => simp [costTg]

theorem printImplicit_len (t : Tbl) (ns : String) (n : Tok) (ps : Params) :
    (printImplicit t ns n ps).length = (renderParams t ps).length + 5 := by
  simp [printImplicit, LP, RP]

mutual
theorem costS_le (t : Tbl) : (s : Stmt) → s.Ok t → costS s ≤ 8 * (printStmt t s).length
  | .brk, _ => by simp [costS, printStmt]
  | .cont, _ => by simp [costS, printStmt]
  | .ctrl, _ => by simp [costS, printStmt]
  | .ret none, _ => by simp [costS, costOpt, printStmt]
  | .ret (some e), hok => by
    simp only [Stmt.Ok, optExprOk] at hok
    have := render_len t hok 0
    simp only [costS, costOpt, printStmt, List.length_cons]
    omega
  | .assign kw va e, hok => by
    simp only [Stmt.Ok] at hok
    have := cost_le_len t va hok.2.1
    have := render_len t hok.2.2 0
    simp only [costS, printStmt, List.length_cons, List.length_append]
    omega
  | .invoke inv, hok => by
    simp only [Stmt.Ok] at hok
    have := cost_le_len t inv hok.2
    have := cost_ge inv
    simp only [costS, printStmt]
    omega
  | .kwCall k none ns n ps, hok => by
    simp only [Stmt.Ok] at hok
    have := costP_le_len t ps hok.2.2
    simp only [costS, costOptVa, printStmt, List.length_cons, printImplicit_len]
    omega
  | .kwCall k (some va) ns n ps, hok => by
    simp only [Stmt.Ok, optVarAccessOk] at hok
    have := costP_le_len t ps hok.2.2
    have := cost_le_len t va hok.1.2
    simp only [costS, costOptVa, printStmt, List.length_cons, List.length_append, printImplicit_len]
    omega
  | .trCall none h n ps, hok => by
    simp only [Stmt.Ok] at hok
    have := cost_le_len t (.ocall h n ps) (by simp only [Expr.Ok]; exact hok.2)
    simp only [costS, costOptVa, printStmt, List.length_cons]
    omega
  | .trCall (some va) h n ps, hok => by
    simp only [Stmt.Ok, optVarAccessOk] at hok
    have := cost_le_len t (.ocall h n ps) (by simp only [Expr.Ok]; exact hok.2)
    have := cost_le_len t va hok.1.2
    simp only [costS, costOptVa, printStmt, List.length_cons, List.length_append]
    omega
  | .sendEvent p n ps to, hok => by
    simp only [Stmt.Ok] at hok
    have := costP_le_len t ps hok.2.1
    have := render_len t hok.2.2 0
    simp only [costS, printStmt, List.length_cons, List.length_append, printImplicit_len]
    omega
  | .gen es tg, hok => by
    simp only [Stmt.Ok] at hok
    have := costEv_le t es hok.1
    have := costTg_le t tg hok.2
    simp only [costS, printStmt, List.length_cons, List.length_append]
    omega
  | .genPre va, hok => by
    simp only [Stmt.Ok] at hok
    have := cost_le_len t va hok.2
    simp only [costS, printStmt, List.length_cons]
    omega
  | .crtEv v es tg, hok => by
    simp only [Stmt.Ok] at hok
    have := costEv_le t es hok.2.1
    have := costTg_le t tg hok.2.2
    simp only [costS, printStmt, List.length_cons, List.length_append]
    omega
  | .createObj v kl, _ => by simp [costS, printStmt]
  | .createObjNoVar kl, _ => by simp [costS, printStmt]
  | .delete i, _ => by simp [costS, printStmt]
  | .forEach v st lp b, hok => by
    simp only [Stmt.Ok] at hok
    have := costB_le t b hok.2.2
    simp only [costS, printStmt, List.length_cons, List.length_append, List.length_nil]
    omega
  | .while_ c lp b, hok => by
    simp only [Stmt.Ok] at hok
    have := costB_le t b hok.2
    have := render_len t hok.1 0
    simp only [costS, printStmt, List.length_cons, List.length_append, List.length_nil]
    omega
  | .if_ c th b el e, hok => by
    simp only [Stmt.Ok] at hok
    have := costB_le t b hok.2.1
    have := render_len t hok.1 0
    have := costEl_le t el hok.2.2.1
    have := costElse_le t e hok.2.2.2
    simp only [costS, printStmt, List.length_cons, List.length_append, List.length_nil]
    omega
  | .rel un a b r ph u, _ => by simp [costS, printStmt]; omega
  | .selFrom card v io kl w, hok => by
    simp only [Stmt.Ok] at hok
    have := costOpt_le t w hok.2.2.2
    simp only [costS, printStmt, List.length_cons, List.length_append]
    omega
  | .selRel card v hook chain w, hok => by
    simp only [Stmt.Ok] at hok
    have := costOpt_le t w hok.2.2.2.2.2
    have := cost_le_len t hook hok.2.2.1
    have hch : chain.length ≤ (printNavChain chain).length := by
      clear hok
      induction chain with
      | nil => simp
      | cons s ss ih => simp only [printNavChain, printNavStep, List.length_cons, List.length_append]; omega
    simp only [costS, printStmt, List.length_cons, List.length_append]
    omega
theorem costB_le (t : Tbl) : (b : Block) → b.Ok t → costB b ≤ 8 * (printBlock t b).length + 1
  | .nil, _ => by simp [costB]
  | .cons s b, hok => by
    simp only [Block.Ok] at hok
    have := costS_le t s hok.1
    have := costB_le t b hok.2
    simp only [costB, printBlock, List.length_cons, List.length_append]
    omega
theorem costEl_le (t : Tbl) : (el : Elifs) → el.Ok t → costEl el ≤ 8 * (printElifs t el).length + 1
  | .nil, _ => by simp [costEl]
  | .cons c th b more, hok => by
    simp only [Elifs.Ok] at hok
    have := render_len t hok.1 0
    have := costB_le t b hok.2.1
    have := costEl_le t more hok.2.2
    simp only [costEl, printElifs, List.length_cons, List.length_append]
    omega
theorem costElse_le (t : Tbl) : (e : Else) → e.Ok t → costElse e ≤ 8 * (printElse t e).length + 1
  | .none, _ => by simp [costElse]
  | .some b, hok => by
    simp only [Else.Ok] at hok
    have := costB_le t b hok
    simp only [costElse, printElse, List.length_cons]
    omega
end

/-- the statement round trip, with explicit fuel and for the fuel-free top-level parser -/
theorem block_roundtrip_fuel {t : Tbl} (wf : t.WF) (swf : t.StmtWF) (b : Block) (hok : b.Ok t) {rest : List Tok}
    (hend : BlockEnd rest) (f : Nat) (hf : costB b ≤ f) :
    parseBlock t f (printBlock t b ++ rest) = some (b, rest) :=
  block_good wf swf b hok rest hend f hf

theorem stmts_roundtrip {t : Tbl} (wf : t.WF) (swf : t.StmtWF) (b : Block) (hok : b.Ok t) :
    parseStmts t (printStmts t b) = some b := by
  have h1 := costB_le t b hok
  have h := block_roundtrip_fuel wf swf b hok (rest := []) (Or.inl rfl) (fuelForS (printBlock t b))
    (by simp only [fuelForS]; omega)
  rw [List.append_nil] at h
  simp only [parseStmts, printStmts, h]

end Pyx.Oal
