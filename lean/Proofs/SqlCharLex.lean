import Proofs.SqlTokenRoundtrip

set_option linter.unusedSimpArgs false

/-! character level: how each printed fragment lexes when it is followed by one of the characters the writers put next -/
namespace Pyx.Sql
open Gen.SqlLex (Rule Kw)
open Gen.Persist (Ty)

/-- what the writers put after a word, a number, a string, a guid: blank, comma, closing parenthesis, semicolon,
    newline (or the end of the text) -/
def Safe (rest : Text) : Prop :=
  ∀ c, rest.head? = some c → c = ' ' ∨ c = ',' ∨ c = ')' ∨ c = ';' ∨ c = '\n'

theorem Safe.cons_space (r : Text) : Safe (' ' :: r) := by intro c hc; simp at hc; simp [← hc]
theorem Safe.cons_comma (r : Text) : Safe (',' :: r) := by intro c hc; simp at hc; simp [← hc]
theorem Safe.cons_rparen (r : Text) : Safe (')' :: r) := by intro c hc; simp at hc; simp [← hc]
theorem Safe.cons_semi (r : Text) : Safe (';' :: r) := by intro c hc; simp at hc; simp [← hc]
theorem Safe.cons_newline (r : Text) : Safe ('\n' :: r) := by intro c hc; simp at hc; simp [← hc]
theorem Safe.nil : Safe [] := by intro c hc; simp at hc

theorem Safe.not_word (u : UC) {rest : Text} (h : Safe rest) : ∀ x, rest.head? = some x → u.isWord x = false := by
  intro x hx
  rcases h x hx with rfl | rfl | rfl | rfl | rfl <;> simp [UC.isWord, isAsciiWord, isAsciiAlpha, isAsciiUpper, isAsciiLower, isAsciiDigit]

theorem Safe.not_digit (u : UC) {rest : Text} (h : Safe rest) : ∀ x, rest.head? = some x → u.isDigit x = false := by
  intro x hx
  rcases h x hx with rfl | rfl | rfl | rfl | rfl <;> simp [UC.isDigit, isAsciiDigit]

theorem Safe.not_asciiDigit {rest : Text} (h : Safe rest) : ∀ x, rest.head? = some x → isAsciiDigit x = false := by
  intro x hx
  rcases h x hx with rfl | rfl | rfl | rfl | rfl <;> decide

theorem Safe.numFollow (u : UC) {rest : Text} (h : Safe rest) : NumFollow u rest := by
  intro x hx
  refine ⟨h.not_digit u x hx, ?_, ?_⟩ <;> rcases h x hx with rfl | rfl | rfl | rfl | rfl <;> decide

theorem Safe.not_quote {rest : Text} (h : Safe rest) : ∀ x, rest.head? = some x → x ≠ '\'' := by
  intro x hx
  rcases h x hx with rfl | rfl | rfl | rfl | rfl <;> decide

/-! ### identifiers of the persistable domain -/

/-- `[A-Za-z_][A-Za-z0-9_]*` that does not begin with `R` followed by a digit -/
structure IdentOk (w : Text) : Prop where
  ne : w ≠ []
  start : ∀ c, w.head? = some c → isIdStart c = true
  tail : ∀ x ∈ w.tail, isAsciiWord x = true
  notRelid : w.head? = some 'R' → ∀ d, w.tail.head? = some d → isAsciiDigit d = false

theorem lex_word (u : UC) (w : Text) (hw : IdentOk w) (rest : Text) (hs : Safe rest) :
    lex u (w ++ rest) = (lex u rest).map (fun ts => wordTok u w :: ts) := by
  cases w with
  | nil => exact absurd rfl hw.ne
  | cons c cs =>
    have hc := hw.start c rfl
    have hrel : NotRelid c (cs ++ rest) := by
      intro hR d hd
      subst hR
      cases cs with
      | nil => simp at hd; exact hs.not_asciiDigit d hd
      | cons e es => simp at hd; subst hd; exact hw.notRelid rfl e rfl
    exact lex_of_emit u _ _ _ (step_word u c cs rest hc hw.tail (hs.not_word u) hrel)

theorem kw_identOk (k : Kw) : IdentOk k.chars := by
  cases k <;> exact ⟨by decide, by decide, by decide, by decide⟩

theorem wordTok_kw (u : UC) (k : Kw) : wordTok u k.chars = kwTok k := by
  cases k <;>
    simp [wordTok, mkTok, Rule.retypesReserved, kwOf, UC.upper, UC.up, asciiUpper, isAsciiLower, Kw.all, Kw.chars, kwTok]

/-- a reserved word printed in upper case and followed by a blank -/
theorem lex_kw (u : UC) (k : Kw) (rest : Text) :
    lex u (k.chars ++ ' ' :: rest) = (lex u rest).map (fun ts => kwTok k :: ts) := by
  rw [lex_word u k.chars (kw_identOk k) _ (Safe.cons_space rest), lex_space, wordTok_kw]

/-- the same when something else that is safe follows directly (`VALUES (` is printed with a blank, `PHRASE '` too) -/
theorem lex_kw_safe (u : UC) (k : Kw) (rest : Text) (hs : Safe rest) :
    lex u (k.chars ++ rest) = (lex u rest).map (fun ts => kwTok k :: ts) := by
  rw [lex_word u k.chars (kw_identOk k) _ hs, wordTok_kw]

/-! ### punctuation -/

theorem lex_lparen (u : UC) (rest : Text) : lex u ('(' :: rest) = (lex u rest).map (fun ts => lparenTok :: ts) :=
  lex_of_emit u _ _ _ (step_lparen u rest)
theorem lex_rparen (u : UC) (rest : Text) : lex u (')' :: rest) = (lex u rest).map (fun ts => rparenTok :: ts) :=
  lex_of_emit u _ _ _ (step_rparen u rest)
theorem lex_comma (u : UC) (rest : Text) : lex u (',' :: rest) = (lex u rest).map (fun ts => commaTok :: ts) :=
  lex_of_emit u _ _ _ (step_comma u rest)
theorem lex_semi (u : UC) (rest : Text) : lex u (';' :: rest) = (lex u rest).map (fun ts => semiTok :: ts) :=
  lex_of_emit u _ _ _ (step_semicolon u rest)

/-- a trailing comment never swallows what follows the line -/
theorem lex_comment (u : UC) (body rest : Text) (h : ∀ c ∈ body, c ≠ '\n') :
    lex u ('-' :: '-' :: (body ++ '\n' :: rest)) = lex u rest :=
  lex_of_skip u _ _ (step_comment u body rest h)

/-! ### values -/

theorem lex_value (u : UC) (t : Ty) (v : Val) (txt : Text) (ts : List Tok) (hf : fmtValue t v = some txt)
    (hv : valueToks t v = some ts) (rest : Text) (hs : Safe rest) :
    lex u (txt ++ rest) = (lex u rest).map (fun more => ts ++ more) := by
  cases t <;> cases v <;> simp only [fmtValue] at hf <;> (first | (exfalso; simp at hf; done) | skip)
  · rename_i b
    simp only [Option.some.injEq] at hf; subst hf
    simp only [valueToks, Option.some.injEq] at hv; subst hv
    simpa using lex_natText u _ rest (hs.numFollow u)
  · rename_i z
    simp only [Option.some.injEq] at hf; subst hf
    simp only [valueToks, Option.some.injEq] at hv; subst hv
    exact lex_intText u z rest (hs.numFollow u)
  · rename_i neg micro
    simp only [Option.some.injEq] at hf; subst hf
    simp only [valueToks, Option.some.injEq] at hv; subst hv
    exact lex_realText u neg micro rest (hs.not_digit u)
  · rename_i s
    simp only [Option.some.injEq] at hf; subst hf
    simp only [valueToks, Option.some.injEq] at hv; subst hv
    simpa using lex_of_emit u _ _ _ (step_string u s rest hs.not_quote)
  · rename_i n
    split at hf
    · rename_i hn
      simp only [Option.some.injEq] at hf; subst hf
      simp only [valueToks, hn, if_true, Option.some.injEq] at hv; subst hv
      simpa using lex_of_emit u _ _ _ (step_guidText u n rest)
    · simp at hf

end Pyx.Sql
