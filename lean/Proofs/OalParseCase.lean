import PyxModel.Oal.Stmt
import Gen.OalPrec

/-!
  C08 at parser level (token-level parser model of C07): the parser looks at token KINDS only, so
  re-spelling the lexemes of keyword-kind tokens changes the parse result only in the fields that hold
  such a lexeme.  Core: naturality of every parser function with respect to `mapTok g`, for any `g` that
  leaves non-keyword lexemes alone.
-/
set_option linter.unusedSimpArgs false
set_option linter.unusedVariables false

namespace Pyx.Oal

/-- `g` rewrites keyword lexemes only -/
def KwOnly (g : Kind → String → String) : Prop := ∀ k, k.isKeyword = false → ∀ s, g k s = s

/-- a parse result with the tree rewritten by `F` and the remaining tokens by `m` -/
def mapRes {α : Type} (F : α → α) (m : Tok → Tok) (r : Option (α × List Tok)) : Option (α × List Tok) :=
  r.map (fun p => (F p.1, p.2.map m))

@[simp] theorem mapRes_none {α : Type} (F : α → α) (m : Tok → Tok) : mapRes F m none = none := rfl
@[simp] theorem mapRes_some {α : Type} (F : α → α) (m : Tok → Tok) (x : α) (ts : List Tok) :
    mapRes F m (some (x, ts)) = some (F x, ts.map m) := rfl

@[simp] theorem mapTok_kind (g : Kind → String → String) (tok : Tok) : (mapTok g tok).kind = tok.kind := rfl
@[simp] theorem mapTok_lex (g : Kind → String → String) (tok : Tok) : (mapTok g tok).lex = g tok.kind tok.lex := rfl

@[simp] theorem hk_map (g : Kind → String → String) (ts : List Tok) : hk (ts.map (mapTok g)) = hk ts := by
  cases ts <;> rfl

theorem drop1_map (g : Kind → String → String) (ts : List Tok) :
    List.drop 1 (ts.map (mapTok g)) = (List.drop 1 ts).map (mapTok g) := by
  cases ts <;> rfl

@[simp] theorem isStruct_mapKw (g : Kind → String → String) (e : Expr) : (e.mapKw g).isStruct = e.isStruct := by
  cases e <;> simp [Expr.mapKw, Expr.isStruct]
@[simp] theorem isChain_mapKw (g : Kind → String → String) (e : Expr) : (e.mapKw g).isChain = e.isChain := by
  cases e <;> simp [Expr.mapKw, Expr.isChain]
@[simp] theorem isIndexable_mapKw (g : Kind → String → String) (e : Expr) :
    (e.mapKw g).isIndexable = e.isIndexable := by
  cases e <;> simp [Expr.mapKw, Expr.isIndexable]

section expr
variable (t : Tbl) (g : Kind → String → String)

/-- the five mutually recursive expression parsers commute with re-spelling, at fuel `f` -/
structure NatE (f : Nat) : Prop where
  params : ∀ ts, parseParams t f (ts.map (mapTok g)) = mapRes (Params.mapKw g) (mapTok g) (parseParams t f ts)
  suffix : ∀ h ts, parseSuffix t f (h.mapKw g) (ts.map (mapTok g)) =
    mapRes (Expr.mapKw g) (mapTok g) (parseSuffix t f h ts)
  pre : ∀ ts, parsePrefix t f (ts.map (mapTok g)) = mapRes (Expr.mapKw g) (mapTok g) (parsePrefix t f ts)
  expr : ∀ m ts, parseExpr t f m (ts.map (mapTok g)) = mapRes (Expr.mapKw g) (mapTok g) (parseExpr t f m ts)
  loop : ∀ m na lhs ts, parseLoop t f m na (lhs.mapKw g) (ts.map (mapTok g)) =
    mapRes (Expr.mapKw g) (mapTok g) (parseLoop t f m na lhs ts)

theorem natE_loop {f : Nat} (ih : NatE t g f) : ∀ m na lhs ts,
    parseLoop t (f + 1) m na (lhs.mapKw g) (ts.map (mapTok g)) =
      mapRes (Expr.mapKw g) (mapTok g) (parseLoop t (f + 1) m na lhs ts) := by
  intro m na lhs ts
  cases ts with
  | nil => simp [parseLoop]
  | cons tok ts =>
    simp only [List.map_cons, parseLoop, mapTok_kind]
    cases hb : t.bin tok.kind with
    | none => simp
    | some la =>
      obtain ⟨l, a⟩ := la
      simp only
      split
      · simp
      · split
        · simp
        · rw [ih.expr]
          cases he : parseExpr t f (rmin l a) ts with
          | none => simp
          | some p =>
            obtain ⟨rhs, ts'⟩ := p
            simp only [mapRes_some]
            have := ih.loop m (if a = .nonassoc then some l else none) (.bin lhs tok rhs) ts'
            simpa [Expr.mapKw] using this

theorem natE_expr {f : Nat} (ih : NatE t g f) : ∀ m ts,
    parseExpr t (f + 1) m (ts.map (mapTok g)) = mapRes (Expr.mapKw g) (mapTok g) (parseExpr t (f + 1) m ts) := by
  intro m ts
  simp only [parseExpr]
  rw [ih.pre]
  cases hp : parsePrefix t f ts with
  | none => simp
  | some p =>
    obtain ⟨lhs, ts'⟩ := p
    simp only [mapRes_some]
    exact ih.loop m none lhs ts'

theorem natE_params (hg : KwOnly g) {f : Nat} (ih : NatE t g f) : ∀ ts,
    parseParams t (f + 1) (ts.map (mapTok g)) =
      mapRes (Params.mapKw g) (mapTok g) (parseParams t (f + 1) ts) := by
  intro ts
  match ts with
  | [] => simp [parseParams, Params.mapKw]
  | [a] => simp [parseParams, Params.mapKw]
  | nm :: col :: ts =>
    simp only [List.map_cons, parseParams, mapTok_kind, mapTok_lex]
    by_cases hc : nm.kind.isIdent = true ∧ col.kind = .COLON
    · simp only [hc, and_self, ↓reduceIte]
      rw [ih.expr]
      cases he : parseExpr t f 0 ts with
      | none => simp
      | some p =>
        obtain ⟨e, ts'⟩ := p
        simp only [mapRes_some, hk_map, drop1_map]
        by_cases hcm : hk ts' = some .COMMA
        · simp only [hcm, ↓reduceIte]
          rw [ih.params]
          cases hps : parseParams t f (List.drop 1 ts') with
          | none => simp
          | some q =>
            obtain ⟨ps, ts''⟩ := q
            simp [Params.mapKw, mapTok]
        · simp [hcm, Params.mapKw, mapTok]
    · simp [hc, Params.mapKw]

theorem natE_suffix (hg : KwOnly g) {f : Nat} (ih : NatE t g f) : ∀ h ts,
    parseSuffix t (f + 1) (h.mapKw g) (ts.map (mapTok g)) =
      mapRes (Expr.mapKw g) (mapTok g) (parseSuffix t (f + 1) h ts) := by
  intro h ts
  match ts with
  | [] => simp [parseSuffix]
  | tok :: ts =>
    by_cases h1 : tok.kind = .DOT
    · simp only [List.map_cons, parseSuffix, mapTok_kind, h1]
      match ts with
      | [] => simp
      | nm :: ts1 =>
        simp only [List.map_cons, mapTok_kind, mapTok_lex, hk_map, isStruct_mapKw, isChain_mapKw, drop1_map]
        by_cases hid : nm.kind.isIdent = true
        · simp only [hid, ↓reduceIte]
          by_cases hlp : hk ts1 = some .LPAREN
          · simp only [hlp, ↓reduceIte]
            by_cases hs : h.isStruct = true
            · simp only [hs, ↓reduceIte]
              rw [ih.params]
              cases hps : parseParams t f (List.drop 1 ts1) with
              | none => simp
              | some q =>
                obtain ⟨ps, ts2⟩ := q
                simp only [mapRes_some, hk_map, drop1_map]
                by_cases hrp : hk ts2 = some .RPAREN <;> simp [hrp, Expr.mapKw, mapTok]
            · simp [hs]
          · simp only [hlp, ↓reduceIte]
            by_cases hc : h.isChain = true
            · simp only [hc, ↓reduceIte]
              have := ih.suffix (.field h nm) ts1
              simpa [Expr.mapKw, mapTok] using this
            · simp [hc]
        · simp [hid]
    · by_cases h2 : tok.kind = .LSQBR
      · simp only [List.map_cons, parseSuffix, mapTok_kind, h2, isIndexable_mapKw]
        by_cases hi : h.isIndexable = true
        · simp only [hi, ↓reduceIte]
          rw [ih.expr]
          cases he : parseExpr t f 0 ts with
          | none => simp
          | some p =>
            obtain ⟨i, ts1⟩ := p
            simp only [mapRes_some, hk_map, drop1_map]
            by_cases hr : hk ts1 = some .RSQBR
            · simp only [hr, ↓reduceIte]
              have := ih.suffix (.index h i) (List.drop 1 ts1)
              simpa [Expr.mapKw] using this
            · simp [hr]
        · simp [hi]
      · simp only [List.map_cons, parseSuffix, mapTok_kind, h1, h2]
        simp

theorem natE_pre (hg : KwOnly g) {f : Nat} (ih : NatE t g f) : ∀ ts,
    parsePrefix t (f + 1) (ts.map (mapTok g)) = mapRes (Expr.mapKw g) (mapTok g) (parsePrefix t (f + 1) ts) := by
  intro ts
  match ts with
  | [] => simp [parsePrefix]
  | tok :: ts =>
    simp only [List.map_cons, parsePrefix, mapTok_kind, mapTok_lex]
    by_cases hu : t.un tok.kind = true
    · simp only [hu, ↓reduceIte]
      rw [ih.expr]
      cases he : parseExpr t f t.ulevel ts with
      | none => simp
      | some p =>
        obtain ⟨e, ts'⟩ := p
        simp [Expr.mapKw, mapTok]
    · simp only [hu, Bool.false_eq_true, ↓reduceIte]
      by_cases hvn : tok.kind.isVarName = true
      · simp only [hvn, ↓reduceIte]
        have := ih.suffix (.var tok) ts
        simpa [Expr.mapKw] using this
      simp only [hvn, Bool.false_eq_true, ↓reduceIte]
      have hparam : (match List.map (mapTok g) ts with
            | d :: nm :: ts' =>
              if d.kind = Kind.DOT ∧ nm.kind.isVarName = true then parseSuffix t f (Expr.param nm) ts' else none
            | _ => none) =
          mapRes (Expr.mapKw g) (mapTok g)
            (match ts with
            | d :: nm :: ts' =>
              if d.kind = Kind.DOT ∧ nm.kind.isVarName = true then parseSuffix t f (Expr.param nm) ts' else none
            | _ => none) := by
        match ts with
        | [] => simp
        | [d] => simp
        | d :: nm :: ts' =>
          simp only [List.map_cons, mapTok_kind, mapTok_lex]
          by_cases hc : d.kind = .DOT ∧ nm.kind.isVarName = true
          · simp only [hc, and_self, ↓reduceIte]
            have := ih.suffix (.param nm) ts'
            simpa [Expr.mapKw] using this
          · simp [hc]
      split
      · next hk' =>
        have := hg tok.kind (by rw [hk']; rfl) tok.lex
        simp [Expr.mapKw, this]
      · next hk' =>
        have := hg tok.kind (by rw [hk']; rfl) tok.lex
        simp [Expr.mapKw, this]
      · next hk' =>
        have := hg tok.kind (by rw [hk']; rfl) tok.lex
        simp [Expr.mapKw, this]
      · next hk' => simp [Expr.mapKw, hk']
      · next hk' => simp [Expr.mapKw, hk']
      · have := ih.suffix .self ts
        simpa [Expr.mapKw] using this
      · have := ih.suffix .selected ts
        simpa [Expr.mapKw] using this
      · exact hparam
      · exact hparam
      · next hk' =>
        have hns := hg tok.kind (by rw [hk']; rfl) tok.lex
        match ts with
        | [] => simp
        | [d] => simp
        | dc :: nm :: ts' =>
          simp only [List.map_cons, mapTok_kind, mapTok_lex, hk_map, drop1_map]
          by_cases hc : dc.kind = .DOUBLECOLON ∧ nm.kind.isIdent = true
          · simp only [hc, and_self, ↓reduceIte, hns]
            by_cases hlp : hk ts' = some .LPAREN
            · simp only [hlp, ↓reduceIte]
              rw [ih.params]
              cases hps : parseParams t f (List.drop 1 ts') with
              | none => simp
              | some q =>
                obtain ⟨ps, ts2⟩ := q
                simp only [mapRes_some, hk_map, drop1_map]
                by_cases hrp : hk ts2 = some .RPAREN <;> simp [hrp, Expr.mapKw, mapTok]
            · simp [hlp, Expr.mapKw, mapTok]
          · simp [hc]
      · match ts with
        | [] => simp
        | [d] => simp
        | nm :: lp :: ts' =>
          simp only [List.map_cons, mapTok_kind, mapTok_lex, hk_map, drop1_map]
          by_cases hc : nm.kind.isIdent = true ∧ lp.kind = .LPAREN
          · simp only [hc, and_self, ↓reduceIte]
            rw [ih.params]
            cases hps : parseParams t f ts' with
            | none => simp
            | some q =>
              obtain ⟨ps, ts2⟩ := q
              simp only [mapRes_some, hk_map, drop1_map]
              by_cases hrp : hk ts2 = some .RPAREN <;> simp [hrp, Expr.mapKw, mapTok]
          · simp [hc]
      · rw [ih.expr]
        cases he : parseExpr t f 0 ts with
        | none => simp
        | some p =>
          obtain ⟨e, ts'⟩ := p
          simp only [mapRes_some, hk_map, drop1_map]
          by_cases hrp : hk ts' = some .RPAREN <;> simp [hrp]
      · simp

/-- the expression parsers commute with re-spelling, for every amount of fuel -/
theorem natE (hg : KwOnly g) : ∀ f, NatE t g f
  | 0 => ⟨by intro ts; simp [parseParams], by intro h ts; simp [parseSuffix], by intro ts; simp [parsePrefix],
      by intro m ts; simp [parseExpr], by intro m na lhs ts; simp [parseLoop]⟩
  | f + 1 =>
    have ih := natE hg f
    ⟨natE_params t g hg ih, natE_suffix t g hg ih, natE_pre t g hg ih, natE_expr t g ih, natE_loop t g ih⟩

end expr

/-! ### clause parsers of the statement level -/

section clauses
variable (t : Tbl) (g : Kind → String → String)

theorem expectK_map (k : Kind) (ts : List Tok) :
    expectK k (ts.map (mapTok g)) = (expectK k ts).map (List.map (mapTok g)) := by
  cases ts with
  | nil => rfl
  | cons tok ts => by_cases h : tok.kind = k <;> simp [expectK, h]

theorem takeIdent_map (ts : List Tok) :
    takeIdent (ts.map (mapTok g)) = mapRes (mapTok g) (mapTok g) (takeIdent ts) := by
  cases ts with
  | nil => rfl
  | cons tok ts => by_cases h : tok.kind.isIdent = true <;> simp [takeIdent, h]

theorem takeVarName_map (ts : List Tok) :
    takeVarName (ts.map (mapTok g)) = mapRes (mapTok g) (mapTok g) (takeVarName ts) := by
  cases ts with
  | nil => rfl
  | cons tok ts => by_cases h : tok.kind.isVarName = true <;> simp [takeVarName, h]

theorem hkIs_map (p : Kind → Bool) (ts : List Tok) : hkIs p (ts.map (mapTok g)) = hkIs p ts := by
  cases ts <;> rfl

theorem optK_map (k : Kind) (ts : List Tok) :
    optK k (ts.map (mapTok g)) = ((optK k ts).1, (optK k ts).2.map (mapTok g)) := by
  by_cases h : hk ts = some k <;> simp [optK, h, drop1_map]

theorem parseInstName_map (hg : KwOnly g) (ts : List Tok) :
    parseInstName (ts.map (mapTok g)) = mapRes (InstName.mapKw g) (mapTok g) (parseInstName ts) := by
  cases ts with
  | nil => rfl
  | cons tok ts =>
    by_cases h2 : tok.kind = .SELF
    · simp [parseInstName, h2, InstName.mapKw]
    · by_cases h : tok.kind.isVarName = true <;> simp [parseInstName, h, h2, InstName.mapKw]

theorem parsePhrase_map (hg : KwOnly g) (ts : List Tok) :
    parsePhrase (ts.map (mapTok g)) = mapRes (Phrase.mapKw g) (mapTok g) (parsePhrase ts) := by
  cases ts with
  | nil => rfl
  | cons tok ts =>
    by_cases h : tok.kind = .TICKED_PHRASE
    · have := hg .TICKED_PHRASE rfl tok.lex
      simp [parsePhrase, h, this, Phrase.mapKw]
    · by_cases h2 : tok.kind.isIdent = true <;> simp [parsePhrase, h, h2, Phrase.mapKw]

theorem parseOptPhrase_map (hg : KwOnly g) (ts : List Tok) :
    parseOptPhrase (ts.map (mapTok g)) = mapRes (Option.map (Phrase.mapKw g)) (mapTok g) (parseOptPhrase ts) := by
  simp only [parseOptPhrase, hk_map, drop1_map]
  by_cases h : hk ts = some .DOT
  · simp only [h, ↓reduceIte, parsePhrase_map g hg]
    cases parsePhrase (List.drop 1 ts) with
    | none => simp
    | some p => obtain ⟨x, r⟩ := p; simp
  · simp [h]

theorem parseNavStep_map (hg : KwOnly g) (ts : List Tok) :
    parseNavStep (ts.map (mapTok g)) = mapRes (NavStep.mapKw g) (mapTok g) (parseNavStep ts) := by
  simp only [parseNavStep, expectK_map, Option.bind_eq_bind, Option.pure_def]
  cases h1 : expectK .ARROW ts with
  | none => simp
  | some ts1 =>
    simp only [Option.map_some, Option.bind_some, takeIdent_map g]
    cases h2 : takeIdent ts1 with
    | none => simp
    | some p2 =>
      obtain ⟨kl, ts2⟩ := p2
      simp only [mapRes_some, id_eq, Option.bind_some, expectK_map]
      cases h3 : expectK .LSQBR ts2 with
      | none => simp
      | some ts3 =>
        simp only [Option.map_some, Option.bind_some, takeIdent_map g]
        cases h4 : takeIdent ts3 with
        | none => simp
        | some p4 =>
          obtain ⟨r, ts4⟩ := p4
          simp only [mapRes_some, id_eq, Option.bind_some, parseOptPhrase_map g hg]
          cases h5 : parseOptPhrase ts4 with
          | none => simp
          | some p5 =>
            obtain ⟨ph, ts5⟩ := p5
            simp only [mapRes_some, id_eq, Option.bind_some, expectK_map]
            cases h6 : expectK .RSQBR ts5 with
            | none => simp
            | some ts6 => simp [NavStep.mapKw]

theorem parseNavChain_map (hg : KwOnly g) : ∀ f ts,
    parseNavChain f (ts.map (mapTok g)) = mapRes (List.map (NavStep.mapKw g)) (mapTok g) (parseNavChain f ts)
  | 0, ts => by simp [parseNavChain]
  | f + 1, ts => by
    simp only [parseNavChain, parseNavStep_map g hg]
    cases h : parseNavStep ts with
    | none => simp
    | some p =>
      obtain ⟨st, ts'⟩ := p
      simp only [mapRes_some, id_eq, hk_map]
      by_cases ha : hk ts' = some .ARROW
      · simp only [ha, ↓reduceIte, parseNavChain_map hg f]
        cases parseNavChain f ts' with
        | none => simp
        | some q => obtain ⟨more, r⟩ := q; simp
      · simp [ha]

theorem parseAccess_map (hg : KwOnly g) (f : Nat) (ts : List Tok) :
    parseAccess t f (ts.map (mapTok g)) = mapRes (Expr.mapKw g) (mapTok g) (parseAccess t f ts) := by
  simp only [parseAccess, hk_map]
  by_cases h : isAccessStart (hk ts) = true
  · simp only [h, ↓reduceIte]
    exact (natE t g hg f).pre ts
  · simp [h]

theorem parseExpr_map (hg : KwOnly g) (f m : Nat) (ts : List Tok) :
    parseExpr t f m (ts.map (mapTok g)) = mapRes (Expr.mapKw g) (mapTok g) (parseExpr t f m ts) :=
  (natE t g hg f).expr m ts

theorem parsePrefix_map (hg : KwOnly g) (f : Nat) (ts : List Tok) :
    parsePrefix t f (ts.map (mapTok g)) = mapRes (Expr.mapKw g) (mapTok g) (parsePrefix t f ts) :=
  (natE t g hg f).pre ts

theorem parseParams_map (hg : KwOnly g) (f : Nat) (ts : List Tok) :
    parseParams t f (ts.map (mapTok g)) = mapRes (Params.mapKw g) (mapTok g) (parseParams t f ts) :=
  (natE t g hg f).params ts

@[simp] theorem isVarAccess_mapKw (e : Expr) : (e.mapKw g).isVarAccess = e.isVarAccess := by
  cases e <;> simp [Expr.mapKw, Expr.isVarAccess]
@[simp] theorem isHook_mapKw (e : Expr) : (e.mapKw g).isHook = e.isHook := by
  cases e <;> simp [Expr.mapKw, Expr.isHook, Expr.isVarAccess, Expr.isSelf]
@[simp] theorem isInvocation_mapKw (e : Expr) : (e.mapKw g).isInvocation = e.isInvocation := by
  cases e <;> simp [Expr.mapKw, Expr.isInvocation]

theorem parseOptWhere_map (hg : KwOnly g) (f : Nat) (ts : List Tok) :
    parseOptWhere t f (ts.map (mapTok g)) =
      mapRes (Option.map (Expr.mapKw g)) (mapTok g) (parseOptWhere t f ts) := by
  simp only [parseOptWhere, hk_map, drop1_map, parseExpr_map t g hg]
  by_cases h : hk ts = some .WHERE
  · simp only [h, ↓reduceIte]
    cases parseExpr t f 0 (List.drop 1 ts) with
    | none => simp
    | some p => obtain ⟨e, r⟩ := p; simp
  · simp [h]

theorem parseEvMeaning_map (hg : KwOnly g) (ts : List Tok) :
    parseEvMeaning (ts.map (mapTok g)) = mapRes (Option.map (Phrase.mapKw g)) (mapTok g) (parseEvMeaning ts) := by
  simp only [parseEvMeaning, hk_map, drop1_map, parsePhrase_map g hg]
  by_cases h : hk ts = some .COLON
  · simp only [h, ↓reduceIte]
    cases parsePhrase (List.drop 1 ts) with
    | none => simp
    | some p => obtain ⟨x, r⟩ := p; simp
  · simp [h]

theorem parseEvData_map (hg : KwOnly g) (f : Nat) (id' : Tok) (star : Bool) (meaning : Option Phrase)
    (ts : List Tok) :
    parseEvData t f (mapTok g id') star (meaning.map (Phrase.mapKw g)) (ts.map (mapTok g)) =
      mapRes (EvSpec.mapKw g) (mapTok g) (parseEvData t f id' star meaning ts) := by
  simp only [parseEvData, hk_map, drop1_map, parseParams_map t g hg]
  by_cases h : hk ts = some .LPAREN
  · simp only [h, ↓reduceIte]
    cases parseParams t f (List.drop 1 ts) with
    | none => simp
    | some p =>
      obtain ⟨ps, r⟩ := p
      simp only [mapRes_some, expectK_map]
      cases expectK .RPAREN r with
      | none => simp
      | some r' => simp [EvSpec.mapKw]
  · simp [h, EvSpec.mapKw, Params.mapKw]

theorem parseEvSpec_map (hg : KwOnly g) (f : Nat) (ts : List Tok) :
    parseEvSpec t f (ts.map (mapTok g)) = mapRes (EvSpec.mapKw g) (mapTok g) (parseEvSpec t f ts) := by
  simp only [parseEvSpec, takeIdent_map g]
  cases takeIdent ts with
  | none => simp
  | some p =>
    obtain ⟨id', ts1⟩ := p
    simp only [mapRes_some, id_eq, optK_map, parseEvMeaning_map g hg]
    cases parseEvMeaning (optK .TIMES ts1).2 with
    | none => simp
    | some q =>
      obtain ⟨m, ts2⟩ := q
      simp only [mapRes_some, id_eq]
      exact parseEvData_map t g hg f id' _ m ts2

theorem startsEvSpec_map (ts : List Tok) : startsEvSpec (ts.map (mapTok g)) = startsEvSpec ts := by
  simp only [startsEvSpec, hk_map, drop1_map, hkIs_map]

theorem parseEvTarget_map (hg : KwOnly g) (f : Nat) (ts : List Tok) :
    parseEvTarget t f (ts.map (mapTok g)) = mapRes (EvTarget.mapKw g) (mapTok g) (parseEvTarget t f ts) := by
  simp only [parseEvTarget, hk_map, drop1_map, hkIs_map, parseAccess_map t g hg]
  by_cases h : hkIs Kind.isIdent ts = true ∧ isClassWord (hk (List.drop 1 ts)) = true
  · simp only [h, and_self, ↓reduceIte]
    match ts with
    | [] => simp
    | [a] => simp
    | nm :: w :: ts' =>
      by_cases hc : w.kind = .CREATOR
      · simp [hc, EvTarget.mapKw]
      · by_cases ha : w.kind = .ASSIGNER <;> simp [hc, ha, EvTarget.mapKw]
  · simp only [h, ↓reduceIte]
    cases parseAccess t f ts with
    | none => simp
    | some p =>
      obtain ⟨e, r⟩ := p
      by_cases hh : e.isHook = true <;> simp [hh, EvTarget.mapKw]

theorem parseKw_map (hg : KwOnly g) (f : Nat) (k : IKind) (ts : List Tok) :
    parseKw t f k (ts.map (mapTok g)) = mapRes (Stmt.mapKw g) (mapTok g) (parseKw t f k ts) := by
  simp only [parseKw, parseAccess_map t g hg]
  cases h1 : parseAccess t f ts with
  | none => simp
  | some p =>
    obtain ⟨e, r⟩ := p
    -- the right-hand side of `va = …`
    have hrhs : ∀ va : Expr,
        (match parseAccess t f (List.drop 1 (List.map (mapTok g) r)) with
          | some (Expr.icall ns n ps, ts'') => some (Stmt.kwCall k (some (Expr.mapKw g va)) ns n ps, ts'')
          | some (Expr.ocall h n ps, ts'') =>
            if k = IKind.cls then some (Stmt.trCall (some (Expr.mapKw g va)) h n ps, ts'') else none
          | _ => none) =
        mapRes (Stmt.mapKw g) (mapTok g)
          (match parseAccess t f (List.drop 1 r) with
          | some (Expr.icall ns n ps, ts'') => some (Stmt.kwCall k (some va) ns n ps, ts'')
          | some (Expr.ocall h n ps, ts'') => if k = IKind.cls then some (Stmt.trCall (some va) h n ps, ts'') else none
          | _ => none) := by
      intro va
      rw [drop1_map, parseAccess_map t g hg]
      cases parseAccess t f (List.drop 1 r) with
      | none => simp
      | some q =>
        obtain ⟨e2, r2⟩ := q
        cases e2 <;> simp [Expr.mapKw, Stmt.mapKw]
        by_cases hk' : k = .cls <;> simp [hk', Stmt.mapKw]
    cases e with
    | icall ns n ps =>
      simp only [mapRes_some, Expr.mapKw, hk_map, drop1_map, parseExpr_map t g hg]
      by_cases hc : k = .port ∧ hk r = some .TO
      · simp only [hc, and_self, ↓reduceIte]
        cases parseExpr t f 0 (List.drop 1 r) with
        | none => simp
        | some q => obtain ⟨e2, r2⟩ := q; simp [Stmt.mapKw]
      · simp [hc, Stmt.mapKw]
    | ocall h n ps =>
      simp only [mapRes_some, Expr.mapKw]
      by_cases hk' : k = .cls <;> simp [hk', Stmt.mapKw]
    | var n =>
      simp only [mapRes_some, Expr.mapKw, Expr.isVarAccess, hk_map, true_and]
      by_cases he : hk r = some .EQUAL
      · simp only [he, ↓reduceIte]
        exact hrhs (.var n)
      · simp [he]
    | param n =>
      simp only [mapRes_some, Expr.mapKw, Expr.isVarAccess, hk_map, true_and]
      by_cases he : hk r = some .EQUAL
      · simp only [he, ↓reduceIte]
        exact hrhs (.param n)
      · simp [he]
    | field h n =>
      simp only [mapRes_some, Expr.mapKw, Expr.isVarAccess, hk_map, true_and]
      by_cases he : hk r = some .EQUAL
      · simp only [he, ↓reduceIte]
        exact hrhs (.field h n)
      · simp [he]
    | index h i =>
      simp only [mapRes_some, Expr.mapKw, Expr.isVarAccess, hk_map, true_and]
      by_cases he : hk r = some .EQUAL
      · simp only [he, ↓reduceIte]
        exact hrhs (.index h i)
      · simp [he]
    | _ => simp [Expr.mapKw, Expr.isVarAccess]

theorem parseRel_map (hg : KwOnly g) (un : Bool) (ts : List Tok) :
    parseRel un (ts.map (mapTok g)) = mapRes (Stmt.mapKw g) (mapTok g) (parseRel un ts) := by
  simp only [parseRel, parseInstName_map g hg]
  cases parseInstName ts with
  | none => simp
  | some p1 =>
    obtain ⟨a, ts1⟩ := p1
    simp only [mapRes_some, expectK_map]
    cases expectK (if un = true then Kind.FROM else Kind.TO) ts1 with
    | none => simp
    | some ts2 =>
      simp only [Option.map_some, parseInstName_map g hg]
      cases parseInstName ts2 with
      | none => simp
      | some p3 =>
        obtain ⟨b, ts3⟩ := p3
        simp only [mapRes_some, expectK_map]
        cases expectK .ACROSS ts3 with
        | none => simp
        | some ts4 =>
          simp only [Option.map_some, takeVarName_map g]
          cases takeVarName ts4 with
          | none => simp
          | some p5 =>
            obtain ⟨r, ts5⟩ := p5
            simp only [mapRes_some, id_eq, parseOptPhrase_map g hg]
            cases parseOptPhrase ts5 with
            | none => simp
            | some p6 =>
              obtain ⟨ph, ts6⟩ := p6
              simp only [mapRes_some, id_eq, hk_map, drop1_map, parseInstName_map g hg]
              by_cases hu : hk ts6 = some .USING
              · simp only [hu, ↓reduceIte]
                cases parseInstName (List.drop 1 ts6) with
                | none => simp
                | some p7 => obtain ⟨u, ts7⟩ := p7; simp [Stmt.mapKw]
              · simp [hu, Stmt.mapKw]

theorem parseCard_map (ts : List Tok) :
    parseCard (ts.map (mapTok g)) = mapRes (CardTok.mapKw g) (mapTok g) (parseCard ts) := by
  cases ts with
  | nil => rfl
  | cons tok ts =>
    by_cases h1 : tok.kind = .ONE
    · simp [parseCard, h1, CardTok.mapKw, Card.kind]
    · by_cases h2 : tok.kind = .ANY
      · simp [parseCard, h2, CardTok.mapKw, Card.kind]
      · by_cases h3 : tok.kind = .MANY
        · simp [parseCard, h3, CardTok.mapKw, Card.kind]
        · simp [parseCard, h1, h2, h3]

theorem drop2_map (ts : List Tok) : List.drop 2 (ts.map (mapTok g)) = (List.drop 2 ts).map (mapTok g) := by
  match ts with
  | [] => rfl
  | [a] => rfl
  | a :: b :: r => rfl

theorem parseInstOf_map (ts : List Tok) :
    parseInstOf (ts.map (mapTok g)) = mapRes id (mapTok g) (parseInstOf ts) := by
  simp only [parseInstOf, hk_map, drop1_map, drop2_map]
  by_cases h : hk ts = some .INSTANCES ∧ hk (List.drop 1 ts) = some .OF
  · simp only [h, and_self, ↓reduceIte, mapRes_some, id_eq]
  · simp only [h, ↓reduceIte, mapRes_some, id_eq]

theorem parseSelFrom_map (hg : KwOnly g) (f : Nat) (card : CardTok) (v : Tok) (ts : List Tok) :
    parseSelFrom t f (card.mapKw g) (mapTok g v) (ts.map (mapTok g)) =
      mapRes (Stmt.mapKw g) (mapTok g) (parseSelFrom t f card v ts) := by
  simp only [parseSelFrom, parseInstOf_map]
  cases parseInstOf ts with
  | none => simp
  | some p1 =>
    obtain ⟨io, ts1⟩ := p1
    simp only [mapRes_some, id_eq, takeIdent_map g]
    cases takeIdent ts1 with
    | none => simp
    | some p2 =>
      obtain ⟨kl, ts2⟩ := p2
      simp only [mapRes_some, id_eq, parseOptWhere_map t g hg]
      cases parseOptWhere t f ts2 with
      | none => simp
      | some p3 => obtain ⟨w, ts3⟩ := p3; simp [Stmt.mapKw]

theorem parseSelRel_map (hg : KwOnly g) (f : Nat) (card : CardTok) (v : Tok) (ts : List Tok) :
    parseSelRel t f (card.mapKw g) (mapTok g v) (ts.map (mapTok g)) =
      mapRes (Stmt.mapKw g) (mapTok g) (parseSelRel t f card v ts) := by
  simp only [parseSelRel, parseAccess_map t g hg]
  cases parseAccess t f ts with
  | none => simp
  | some p1 =>
    obtain ⟨hook, ts1⟩ := p1
    simp only [mapRes_some, isHook_mapKw]
    by_cases hh : hook.isHook = true
    · simp only [hh, ↓reduceIte, parseNavChain_map g hg]
      cases parseNavChain f ts1 with
      | none => simp
      | some p2 =>
        obtain ⟨chain, ts2⟩ := p2
        simp only [mapRes_some, id_eq, parseOptWhere_map t g hg]
        cases parseOptWhere t f ts2 with
        | none => simp
        | some p3 => obtain ⟨w, ts3⟩ := p3; simp [Stmt.mapKw]
    · simp [hh]

theorem parseSelect_map (hg : KwOnly g) (f : Nat) (ts : List Tok) :
    parseSelect t f (ts.map (mapTok g)) = mapRes (Stmt.mapKw g) (mapTok g) (parseSelect t f ts) := by
  simp only [parseSelect, parseCard_map]
  cases parseCard ts with
  | none => simp
  | some p1 =>
    obtain ⟨card, ts1⟩ := p1
    simp only [mapRes_some, takeVarName_map g]
    cases takeVarName ts1 with
    | none => simp
    | some p2 =>
      obtain ⟨v, ts2⟩ := p2
      simp only [mapRes_some, id_eq, hk_map, drop1_map, expectK_map]
      by_cases hf : hk ts2 = some .FROM
      · simp only [hf, ↓reduceIte]
        by_cases hone : card.c = .one
        · simp [hone, CardTok.mapKw]
        · have : (card.mapKw g).c = card.c := rfl
          simp only [this, hone, ↓reduceIte]
          exact parseSelFrom_map t g hg f card v _
      · simp only [hf, ↓reduceIte]
        cases expectK .RELATED ts2 with
        | none => simp
        | some ts3 =>
          simp only [Option.map_some, expectK_map]
          cases expectK .BY ts3 with
          | none => simp
          | some ts4 =>
            simp only [Option.map_some]
            exact parseSelRel_map t g hg f card v ts4

end clauses

/-! ### statements, blocks -/

section stmts
variable (t : Tbl) (g : Kind → String → String)

structure NatS (f : Nat) : Prop where
  stmt : ∀ ts, parseStmt t f (ts.map (mapTok g)) = mapRes (Stmt.mapKw g) (mapTok g) (parseStmt t f ts)
  block : ∀ ts, parseBlock t f (ts.map (mapTok g)) = mapRes (Block.mapKw g) (mapTok g) (parseBlock t f ts)
  elifs : ∀ ts, parseElifs t f (ts.map (mapTok g)) = mapRes (Elifs.mapKw g) (mapTok g) (parseElifs t f ts)
  els : ∀ ts, parseElse t f (ts.map (mapTok g)) = mapRes (Else.mapKw g) (mapTok g) (parseElse t f ts)

set_option hygiene false in
local macro "step" : tactic => `(tactic|
  simp only [mapRes_some, mapRes_none, Option.map_some, Option.map_none, id_eq, expectK_map, takeIdent_map g,
    takeVarName_map g, hk_map,
    drop1_map, optK_map, parseExpr_map t g hg, parseAccess_map t g hg, parseEvSpec_map t g hg,
    parseEvTarget_map t g hg, parseInstName_map g hg, startsEvSpec_map, isVarAccess_mapKw, isHook_mapKw,
    isInvocation_mapKw, ih.block, ih.elifs, ih.els, ih.stmt, ↓reduceIte, Stmt.mapKw, Option.map])

theorem natS_stmt (hg : KwOnly g) {f : Nat} (ih : NatS t g f) : ∀ ts,
    parseStmt t (f + 1) (ts.map (mapTok g)) = mapRes (Stmt.mapKw g) (mapTok g) (parseStmt t (f + 1) ts) := by
  intro ts
  match ts with
  | [] => simp [parseStmt]
  | tok :: ts =>
    -- a statement that begins with an access chain or an invocation
    have hacc : (match parsePrefix t f (mapTok g tok :: List.map (mapTok g) ts) with
          | some (x, ts') =>
            if hk ts' = some Kind.EQUAL then
              if x.isVarAccess = true then
                match parseExpr t f 0 (List.drop 1 ts') with
                | some (e, ts'') => some (Stmt.assign false x e, ts'')
                | none => none
              else none
            else if x.isInvocation = true then some (Stmt.invoke x, ts') else none
          | none => none) =
        mapRes (Stmt.mapKw g) (mapTok g)
          (match parsePrefix t f (tok :: ts) with
          | some (x, ts') =>
            if hk ts' = some Kind.EQUAL then
              if x.isVarAccess = true then
                match parseExpr t f 0 (List.drop 1 ts') with
                | some (e, ts'') => some (Stmt.assign false x e, ts'')
                | none => none
              else none
            else if x.isInvocation = true then some (Stmt.invoke x, ts') else none
          | none => none) := by
      rw [← List.map_cons, parsePrefix_map t g hg]
      cases parsePrefix t f (tok :: ts) with
      | none => simp
      | some p =>
        obtain ⟨x, ts'⟩ := p
        step
        by_cases he : hk ts' = some .EQUAL
        · by_cases hv : x.isVarAccess = true
          · simp only [he, hv, ↓reduceIte]
            cases parseExpr t f 0 (List.drop 1 ts') with
            | none => simp
            | some q => obtain ⟨e, r⟩ := q; simp [Stmt.mapKw]
          · simp [he, hv]
        · by_cases hi : x.isInvocation = true <;> simp [he, hi, Stmt.mapKw]
    have hsm : startsAccessStmt (mapTok g tok) (List.map (mapTok g) ts) = startsAccessStmt tok ts := by
      simp only [startsAccessStmt, mapTok_kind, hk_map]
    simp only [List.map_cons, parseStmt, mapTok_kind, hsm]
    by_cases hsa : startsAccessStmt tok ts = true
    · simp only [hsa, ↓reduceIte]
      exact hacc
    simp only [hsa, Bool.false_eq_true, ↓reduceIte]
    split
    · simp [Stmt.mapKw]
    · simp [Stmt.mapKw]
    · step
      cases expectK .STOP ts with
      | none => simp
      | some r => simp [Stmt.mapKw]
    · step
      by_cases hs : hk ts = some .SEMICOLON
      · simp [hs, Stmt.mapKw]
      · simp only [hs, ↓reduceIte]
        cases parseExpr t f 0 ts with
        | none => simp
        | some q => obtain ⟨e, r⟩ := q; simp [Stmt.mapKw]
    · step
      cases parseAccess t f ts with
      | none => simp
      | some p =>
        obtain ⟨va, ts'⟩ := p
        step
        by_cases hc : va.isVarAccess = true ∧ hk ts' = some .EQUAL
        · simp only [hc, and_self, ↓reduceIte]
          cases parseExpr t f 0 (List.drop 1 ts') with
          | none => simp
          | some q => obtain ⟨e, r⟩ := q; simp [Stmt.mapKw]
        · simp [hc]
    · exact parseKw_map t g hg f _ ts
    · exact parseKw_map t g hg f _ ts
    · exact parseKw_map t g hg f _ ts
    · -- GENERATE
      step
      by_cases hs : startsEvSpec ts = true
      · simp only [hs, ↓reduceIte]
        cases parseEvSpec t f ts with
        | none => simp
        | some p1 =>
          obtain ⟨es, ts1⟩ := p1
          step
          cases expectK .TO ts1 with
          | none => simp
          | some ts2 =>
            step
            cases parseEvTarget t f ts2 with
            | none => simp
            | some p3 => obtain ⟨tg, ts3⟩ := p3; simp [Stmt.mapKw]
      · simp only [hs, Bool.false_eq_true, ↓reduceIte]
        cases parseAccess t f ts with
        | none => simp
        | some p =>
          obtain ⟨va, ts'⟩ := p
          step
          by_cases hv : va.isVarAccess = true <;> simp [hv, Stmt.mapKw]
    · -- CREATE
      step
      by_cases he : hk ts = some .EVENT
      · simp only [he, ↓reduceIte]
        cases expectK .INSTANCE (List.drop 1 ts) with
        | none => simp
        | some ts1 =>
          step
          cases takeVarName ts1 with
          | none => simp
          | some p2 =>
            obtain ⟨v, ts2⟩ := p2
            step
            cases expectK .OF ts2 with
            | none => simp
            | some ts3 =>
              step
              cases parseEvSpec t f ts3 with
              | none => simp
              | some p4 =>
                obtain ⟨es, ts4⟩ := p4
                step
                cases expectK .TO ts4 with
                | none => simp
                | some ts5 =>
                  step
                  cases parseEvTarget t f ts5 with
                  | none => simp
                  | some p6 => obtain ⟨tg, ts6⟩ := p6; simp [Stmt.mapKw]
      · simp only [he, ↓reduceIte]
        cases expectK .OBJECT ts with
        | none => simp
        | some ts1 =>
          step
          cases expectK .INSTANCE ts1 with
          | none => simp
          | some ts2 =>
            step
            by_cases ho : hk ts2 = some .OF
            · simp only [ho, ↓reduceIte]
              cases takeIdent (List.drop 1 ts2) with
              | none => simp
              | some p3 => obtain ⟨kl, ts3⟩ := p3; simp [Stmt.mapKw]
            · simp only [ho, ↓reduceIte]
              cases takeVarName ts2 with
              | none => simp
              | some p3 =>
                obtain ⟨v, ts3⟩ := p3
                step
                cases expectK .OF ts3 with
                | none => simp
                | some ts4 =>
                  step
                  cases takeIdent ts4 with
                  | none => simp
                  | some p5 => obtain ⟨kl, ts5⟩ := p5; simp [Stmt.mapKw]
    · -- DELETE
      step
      cases expectK .OBJECT ts with
      | none => simp
      | some ts1 =>
        step
        cases expectK .INSTANCE ts1 with
        | none => simp
        | some ts2 =>
          step
          cases parseInstName ts2 with
          | none => simp
          | some p3 => obtain ⟨i, ts3⟩ := p3; simp [Stmt.mapKw]
    · -- FOR
      step
      cases expectK .EACH ts with
      | none => simp
      | some ts1 =>
        step
        cases takeVarName ts1 with
        | none => simp
        | some p2 =>
          obtain ⟨v, ts2⟩ := p2
          step
          cases expectK .IN ts2 with
          | none => simp
          | some ts3 =>
            step
            cases takeVarName ts3 with
            | none => simp
            | some p4 =>
              obtain ⟨st, ts4⟩ := p4
              step
              cases parseBlock t f (optK .LOOP ts4).2 with
              | none => simp
              | some p5 =>
                obtain ⟨b, ts5⟩ := p5
                step
                cases expectK .END_FOR ts5 with
                | none => simp
                | some ts6 => simp [Stmt.mapKw]
    · -- WHILE
      step
      cases parseExpr t f 0 ts with
      | none => simp
      | some p1 =>
        obtain ⟨c, ts1⟩ := p1
        step
        cases parseBlock t f (optK .LOOP ts1).2 with
        | none => simp
        | some p2 =>
          obtain ⟨b, ts2⟩ := p2
          step
          cases expectK .END_WHILE ts2 with
          | none => simp
          | some ts3 => simp [Stmt.mapKw]
    · -- IF
      step
      cases parseExpr t f 0 ts with
      | none => simp
      | some p1 =>
        obtain ⟨c, ts1⟩ := p1
        step
        cases parseBlock t f (optK .THEN ts1).2 with
        | none => simp
        | some p2 =>
          obtain ⟨b, ts2⟩ := p2
          step
          cases parseElifs t f ts2 with
          | none => simp
          | some p3 =>
            obtain ⟨el, ts3⟩ := p3
            step
            cases parseElse t f ts3 with
            | none => simp
            | some p4 =>
              obtain ⟨e, ts4⟩ := p4
              step
              cases expectK .END_IF ts4 with
              | none => simp
              | some ts5 => simp [Stmt.mapKw]
    · exact parseRel_map g hg _ ts
    · exact parseRel_map g hg _ ts
    · exact parseSelect_map t g hg f ts
    · simp

theorem natS_block (hg : KwOnly g) {f : Nat} (ih : NatS t g f) : ∀ ts,
    parseBlock t (f + 1) (ts.map (mapTok g)) = mapRes (Block.mapKw g) (mapTok g) (parseBlock t (f + 1) ts) := by
  intro ts
  match ts with
  | [] => simp [parseBlock, Block.mapKw]
  | tok :: ts =>
    simp only [List.map_cons, parseBlock, mapTok_kind]
    by_cases hs : tok.kind = .SEMICOLON
    · simp only [hs, ↓reduceIte]
      exact ih.block ts
    · simp only [hs, ↓reduceIte]
      by_cases hst : tok.kind.isStmtStart = true
      · simp only [hst, ↓reduceIte]
        rw [← List.map_cons, ih.stmt]
        cases parseStmt t f (tok :: ts) with
        | none => simp
        | some p1 =>
          obtain ⟨st, ts1⟩ := p1
          step
          cases expectK .SEMICOLON ts1 with
          | none => simp
          | some ts2 =>
            step
            cases parseBlock t f ts2 with
            | none => simp
            | some p3 => obtain ⟨b, ts3⟩ := p3; simp [Block.mapKw]
      · simp [hst, Block.mapKw]

theorem natS_elifs (hg : KwOnly g) {f : Nat} (ih : NatS t g f) : ∀ ts,
    parseElifs t (f + 1) (ts.map (mapTok g)) = mapRes (Elifs.mapKw g) (mapTok g) (parseElifs t (f + 1) ts) := by
  intro ts
  simp only [parseElifs]
  step
  by_cases he : hk ts = some .ELIF
  · simp only [he, ↓reduceIte]
    cases parseExpr t f 0 (List.drop 1 ts) with
    | none => simp
    | some p1 =>
      obtain ⟨c, ts1⟩ := p1
      step
      cases parseBlock t f (optK .THEN ts1).2 with
      | none => simp
      | some p2 =>
        obtain ⟨b, ts2⟩ := p2
        step
        cases parseElifs t f ts2 with
        | none => simp
        | some p3 => obtain ⟨more, ts3⟩ := p3; simp [Elifs.mapKw]
  · simp [he, Elifs.mapKw]

theorem natS_else (hg : KwOnly g) {f : Nat} (ih : NatS t g f) : ∀ ts,
    parseElse t (f + 1) (ts.map (mapTok g)) = mapRes (Else.mapKw g) (mapTok g) (parseElse t (f + 1) ts) := by
  intro ts
  simp only [parseElse]
  step
  by_cases he : hk ts = some .ELSE
  · simp only [he, ↓reduceIte]
    cases parseBlock t f (List.drop 1 ts) with
    | none => simp
    | some p1 => obtain ⟨b, ts1⟩ := p1; simp [Else.mapKw]
  · simp [he, Else.mapKw]

/-- the statement parsers commute with re-spelling, for every amount of fuel -/
theorem natS (hg : KwOnly g) : ∀ f, NatS t g f
  | 0 => ⟨by intro ts; simp [parseStmt], by intro ts; simp [parseBlock], by intro ts; simp [parseElifs],
      by intro ts; simp [parseElse]⟩
  | f + 1 =>
    have ih := natS hg f
    ⟨natS_stmt t g hg ih, natS_block t g hg ih, natS_elifs t g hg ih, natS_else t g hg ih⟩

/-- **naturality of the whole parser**: parsing a re-spelled token list gives the re-spelled tree
    (and rejects exactly when the original is rejected) -/
theorem parseStmts_mapTok (hg : KwOnly g) (ts : List Tok) :
    parseStmts t (ts.map (mapTok g)) = (parseStmts t ts).map (Block.mapKw g) := by
  simp only [parseStmts, fuelForS, List.length_map]
  rw [(natS t g hg _).block]
  cases parseBlock t (8 * ts.length + 16) ts with
  | none => simp
  | some p =>
    obtain ⟨b, r⟩ := p
    cases r with
    | nil => simp
    | cons a r => simp

theorem parseExprTop_mapTok (hg : KwOnly g) (ts : List Tok) :
    parseExprTop t (ts.map (mapTok g)) = mapRes (Expr.mapKw g) (mapTok g) (parseExprTop t ts) := by
  simp only [parseExprTop, fuelFor, List.length_map]
  exact parseExpr_map t g hg _ 0 ts

end stmts

/-! ### re-spellings -/

/-- `b` re-spells `a`: the same kind, and the same lexeme — except that the lexeme of a keyword-kind token
    (keywords incl. and/or/not/empty/not_empty/cardinality/true/false/one/any/many/self, `end if|for|while`) may
    differ in letter case -/
def Tok.Respells (a b : Tok) : Prop :=
  a.kind = b.kind ∧ (if a.kind.isKeyword then lowerStr a.lex = lowerStr b.lex else a.lex = b.lex)

/-- two token lists related position by position -/
inductive Zip (R : Tok → Tok → Prop) : List Tok → List Tok → Prop where
  | nil : Zip R [] []
  | cons {a b : Tok} {l l' : List Tok} : R a b → Zip R l l' → Zip R (a :: l) (b :: l')

/-- token list `ts'` is `ts` with keywords possibly written in another letter case -/
def Respelling (ts ts' : List Tok) : Prop := Zip Tok.Respells ts ts'

/-- the weaker relation of the sharp form: same kinds, same lexemes on non-keyword tokens; the lexemes of
    keyword-kind tokens are ARBITRARY -/
def Tok.SameButKeyword (a b : Tok) : Prop := a.kind = b.kind ∧ (a.kind.isKeyword = false → a.lex = b.lex)

def SameButKeywords (ts ts' : List Tok) : Prop := Zip Tok.SameButKeyword ts ts'

theorem kwOnly_lowerKw : KwOnly lowerKw := by
  intro k hk' s
  simp [lowerKw, hk']

theorem kwOnly_eraseKw : KwOnly eraseKw := by
  intro k hk' s
  simp [eraseKw, hk']

theorem Respelling.sameButKeywords {ts ts' : List Tok} (h : Respelling ts ts') : SameButKeywords ts ts' := by
  induction h with
  | nil => exact .nil
  | cons hab _ ih =>
    refine .cons ⟨hab.1, ?_⟩ ih
    intro hk'
    have := hab.2
    simpa [hk'] using this

theorem Respelling.map_lower {ts ts' : List Tok} (h : Respelling ts ts') :
    ts.map (mapTok lowerKw) = ts'.map (mapTok lowerKw) := by
  induction h with
  | nil => rfl
  | @cons a b l l' hab _ ih =>
    obtain ⟨hk', hl⟩ := hab
    have : mapTok lowerKw a = mapTok lowerKw b := by
      cases a with | mk ka la =>
      cases b with | mk kb lb =>
      simp only at hk' hl
      subst hk'
      by_cases hkw : ka.isKeyword = true
      · simp only [hkw, ↓reduceIte] at hl
        simp [mapTok, lowerKw, hkw, hl]
      · simp only [hkw, Bool.false_eq_true, ↓reduceIte] at hl
        simp [mapTok, lowerKw, hkw, hl]
    simp only [List.map_cons, this, ih]

theorem SameButKeywords.map_erase {ts ts' : List Tok} (h : SameButKeywords ts ts') :
    ts.map (mapTok eraseKw) = ts'.map (mapTok eraseKw) := by
  induction h with
  | nil => rfl
  | @cons a b l l' hab _ ih =>
    obtain ⟨hk', hl⟩ := hab
    have : mapTok eraseKw a = mapTok eraseKw b := by
      cases a with | mk ka la =>
      cases b with | mk kb lb =>
      simp only at hk' hl
      subst hk'
      by_cases hkw : ka.isKeyword = true
      · simp [mapTok, eraseKw, hkw]
      · have := hl (by simpa using hkw)
        simp [mapTok, eraseKw, hkw, this]
    simp only [List.map_cons, this, ih]

/-! ### C08 at parser level -/

/-- **statements, sharp form.**  If two token lists have the same kinds and agree on the lexemes of all
    non-keyword tokens (identifiers, numbers, strings, phrases, punctuation), then either both are rejected
    or both parse, and the two trees are equal once the fields that hold the lexeme of a keyword-kind token
    (select cardinality, operator of unary / binary nodes, boolean literal value, `self` as an instance name,
    and any NAME that is a keyword token — kw_as_identifier) are blanked: every other field — names that are ID
    tokens, literals, ticked phrases, namespaces, the optional-word choices, the shape of the tree — is the same. -/
theorem parseStmts_sameButKeywords (t : Tbl) {ts ts' : List Tok} (h : SameButKeywords ts ts') :
    (parseStmts t ts').map eraseCase = (parseStmts t ts).map eraseCase := by
  have h1 := parseStmts_mapTok t eraseKw kwOnly_eraseKw ts
  have h2 := parseStmts_mapTok t eraseKw kwOnly_eraseKw ts'
  rw [h.map_erase] at h1
  exact (h2.symm.trans h1)

/-- **statements.**  Re-spelling keywords in another letter case does not change the parse result up to the
    letter case of exactly the spelling-carrying fields (`normCase` lower-cases them and nothing else). -/
theorem parseStmts_respelling (t : Tbl) {ts ts' : List Tok} (h : Respelling ts ts') :
    (parseStmts t ts').map normCase = (parseStmts t ts).map normCase := by
  have h1 := parseStmts_mapTok t lowerKw kwOnly_lowerKw ts
  have h2 := parseStmts_mapTok t lowerKw kwOnly_lowerKw ts'
  rw [h.map_lower] at h1
  exact (h2.symm.trans h1)

/-- **rejection.**  A body is rejected iff its re-spelling is (already under the weaker relation). -/
theorem parseStmts_reject_iff (t : Tbl) {ts ts' : List Tok} (h : SameButKeywords ts ts') :
    parseStmts t ts' = none ↔ parseStmts t ts = none := by
  have := parseStmts_sameButKeywords t h
  cases h1 : parseStmts t ts <;> cases h2 : parseStmts t ts' <;> simp [h1, h2] at this ⊢

theorem parseStmts_reject_iff_respelling (t : Tbl) {ts ts' : List Tok} (h : Respelling ts ts') :
    parseStmts t ts' = none ↔ parseStmts t ts = none :=
  parseStmts_reject_iff t h.sameButKeywords

/-- **expressions** (`parseExprTop` returns the tree and the unread tokens): the same three statements -/
theorem parseExprTop_sameButKeywords (t : Tbl) {ts ts' : List Tok} (h : SameButKeywords ts ts') :
    mapRes Expr.eraseCase (mapTok eraseKw) (parseExprTop t ts') =
      mapRes Expr.eraseCase (mapTok eraseKw) (parseExprTop t ts) := by
  have h1 := parseExprTop_mapTok t eraseKw kwOnly_eraseKw ts
  have h2 := parseExprTop_mapTok t eraseKw kwOnly_eraseKw ts'
  rw [h.map_erase] at h1
  exact (h2.symm.trans h1)

theorem parseExprTop_respelling (t : Tbl) {ts ts' : List Tok} (h : Respelling ts ts') :
    mapRes Expr.normCase (mapTok lowerKw) (parseExprTop t ts') =
      mapRes Expr.normCase (mapTok lowerKw) (parseExprTop t ts) := by
  have h1 := parseExprTop_mapTok t lowerKw kwOnly_lowerKw ts
  have h2 := parseExprTop_mapTok t lowerKw kwOnly_lowerKw ts'
  rw [h.map_lower] at h1
  exact (h2.symm.trans h1)

theorem parseExprTop_reject_iff (t : Tbl) {ts ts' : List Tok} (h : SameButKeywords ts ts') :
    parseExprTop t ts' = none ↔ parseExprTop t ts = none := by
  have := parseExprTop_sameButKeywords t h
  cases h1 : parseExprTop t ts <;> cases h2 : parseExprTop t ts' <;> simp [h1, h2, mapRes] at this ⊢

/-- the tree part of a successful expression parse, sharp form: the unread tokens correspond, too -/
theorem parseExprTop_tree_respelling (t : Tbl) {ts ts' : List Tok} (h : Respelling ts ts') {e e' : Expr}
    {r r' : List Tok} (h1 : parseExprTop t ts = some (e, r)) (h2 : parseExprTop t ts' = some (e', r')) :
    e'.normCase = e.normCase ∧ e'.eraseCase = e.eraseCase := by
  have ha := parseExprTop_respelling t h
  have hb := parseExprTop_sameButKeywords t h.sameButKeywords
  rw [h1, h2] at ha hb
  simp only [mapRes_some, Option.some.injEq, Prod.mk.injEq] at ha hb
  exact ⟨(_root_.Prod.mk.inj ha).1, (_root_.Prod.mk.inj hb).1⟩

/-! ### non-vacuity: a body with mixed-case keywords -/

section examples
open Pyx.Gen.OalPrec (table)

/-- `IF a AND TRUE Select Many x FROM Instances OF K; Delete Object Instance SELF; END IF; RETURN Not_Empty x;` -/
private def mixed : List Tok :=
  [tk .IF "IF", tk .ID "a", tk .AND "AND", tk .TRUE "TRUE",
   tk .SELECT "Select", tk .MANY "Many", tk .ID "x", tk .FROM "FROM", tk .INSTANCES "Instances", tk .OF "OF",
   tk .ID "K", tk .SEMICOLON ";",
   tk .DELETE "Delete", tk .OBJECT "Object", tk .INSTANCE "Instance", tk .SELF "SELF", tk .SEMICOLON ";",
   tk .END_IF "END IF", tk .SEMICOLON ";",
   tk .RETURN "RETURN", tk .NOT_EMPTY "Not_Empty", tk .ID "x", tk .SEMICOLON ";"]

/-- the same body with every keyword in lower case -/
private def lower : List Tok :=
  [tk .IF "if", tk .ID "a", tk .AND "and", tk .TRUE "true",
   tk .SELECT "select", tk .MANY "many", tk .ID "x", tk .FROM "from", tk .INSTANCES "instances", tk .OF "of",
   tk .ID "K", tk .SEMICOLON ";",
   tk .DELETE "delete", tk .OBJECT "object", tk .INSTANCE "instance", tk .SELF "self", tk .SEMICOLON ";",
   tk .END_IF "end if", tk .SEMICOLON ";",
   tk .RETURN "return", tk .NOT_EMPTY "not_empty", tk .ID "x", tk .SEMICOLON ";"]

private def treeOf (andLex trueLex manyLex selfLex neLex : String) : Block :=
  .cons (.if_ (.bin (.var (tk .ID "a")) ⟨.AND, andLex⟩ (.bool true trueLex)) false
      (.cons (.selFrom ⟨.many, manyLex⟩ (tk .ID "x") true (tk .ID "K") none) (.cons (.delete (.self selfLex)) .nil))
      .nil .none)
    (.cons (.ret (some (.un ⟨.NOT_EMPTY, neLex⟩ (.var (tk .ID "x"))))) .nil)

-- the hypothesis of the theorems holds of the pair …
example : Respelling mixed lower := by
  unfold mixed lower
  repeat (first | exact Zip.nil | refine Zip.cons ⟨rfl, by decide⟩ ?_)
-- … both parse, to trees that differ exactly in the spelling-carrying fields …
example : parseStmts table mixed = some (treeOf "AND" "TRUE" "Many" "SELF" "Not_Empty") := by rfl
example : parseStmts table lower = some (treeOf "and" "true" "many" "self" "not_empty") := by rfl
-- … and `normCase` identifies them, leaving the identifier `K` (upper case) alone
example : normCase (treeOf "AND" "TRUE" "Many" "SELF" "Not_Empty") = treeOf "and" "true" "many" "self" "not_empty" := by
  rfl
example : (parseStmts table lower).map normCase = (parseStmts table mixed).map normCase :=
  parseStmts_respelling table (by
    unfold mixed lower
    repeat (first | exact Zip.nil | refine Zip.cons ⟨rfl, by decide⟩ ?_))
-- a rejected body stays rejected in any spelling: `RETURN a < b < c;`
example : parseStmts table [tk .RETURN "RETURN", tk .ID "a", tk .LESSTHAN "<", tk .ID "b", tk .LESSTHAN "<", tk .ID "c",
    tk .SEMICOLON ";"] = none := by rfl
-- a keyword used as a NAME (`x = To;` — the grammar's kw_as_identifier alternatives) is a keyword token, so
-- `x = To;` and `x = TO;` are re-spellings of each other; the parser keeps the spelling in the name (as oal.py
-- does: VariableAccessNode('To') vs VariableAccessNode('TO')), and `normCase` lower-cases it like every other
-- keyword lexeme.  So the two trees are equal only up to the case of that NAME.
example : Respelling [tk .ID "x", tk .EQUAL "=", tk .TO "To", tk .SEMICOLON ";"]
    [tk .ID "x", tk .EQUAL "=", tk .TO "TO", tk .SEMICOLON ";"] := by
  repeat (first | exact Zip.nil | refine Zip.cons ⟨rfl, by decide⟩ ?_)
example : parseStmts table [tk .ID "x", tk .EQUAL "=", tk .TO "To", tk .SEMICOLON ";"] =
    some (.cons (.assign false (.var (tk .ID "x")) (.var (tk .TO "To"))) .nil) := by rfl
example : parseStmts table [tk .ID "x", tk .EQUAL "=", tk .TO "TO", tk .SEMICOLON ";"] =
    some (.cons (.assign false (.var (tk .ID "x")) (.var (tk .TO "TO"))) .nil) := by rfl
example : normCase (.cons (.assign false (.var (tk .ID "x")) (.var (tk .TO "To"))) .nil) =
    .cons (.assign false (.var (tk .ID "x")) (.var (tk .TO "to"))) .nil := by rfl
-- changing an IDENTIFIER's case is not a re-spelling
example : ¬ Tok.Respells (tk .ID "K") (tk .ID "k") := by
  intro h
  have := h.2
  simp [Kind.isKeyword, tk] at this

end examples

end Pyx.Oal
