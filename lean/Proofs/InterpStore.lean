import PyxModel.Interp.Spec
import Proofs.MetaDelete
import Proofs.Query

/-!
  The STORE of the reference semantics is an abstraction of the mechanism of `xtuml/meta.py`.

  `Pyx.Meta` (PyxModel/Meta.lean, proved invariant in Proofs/Meta*.lean) models the code's store: instances are
  global creation indices, every association keeps TWO directed link maps with cardinality-checked `connect`,
  `_find_link` resolves by kinds and phrase, a rejected relate is undone, delete unrelates every partner.
  `Pyx.Interp` (`Spec`) keeps, per association, ONE list of (source, target) pairs and names an instance by its
  class and its creation index within the class.

  `Refines kname ι s st`: the Spec state `st` is the abstraction of the mechanism state `s` under the instance
  naming `ι` (global index ↦ (class name, index in class)) and the class naming `kname`:
    * the pool of every class is the mechanism's pool, in order;
    * the pairs of association i are exactly the (ι y, ι x) with y ∈ (s.links i).src x, without duplicates, and
      the partners of every instance appear in the pair list in the order of its directed link set
      (both directions) — i.e. what navigation observes is identical, order included.
  The theorems: each mechanism operation (new / relate / unrelate / delete) in the domain is matched by the Spec
  operation on the named instances, acceptance AND rejection (a rejected operation changes neither side);
  one direct navigation step returns the Spec image; and by induction every history refines (`store_refines`).
-/
namespace Pyx.Interp

abbrev MState := Pyx.Meta.State
abbrev MSchema := Pyx.Meta.Schema

/-- the partners a pair list gives a target instance / a source instance (what `follow` computes) -/
def srcProj (ps : List (Inst × Inst)) (t : Inst) : List Inst := ps.filterMap (fun p => if p.2 = t then some p.1 else none)
def tgtProj (ps : List (Inst × Inst)) (s : Inst) : List Inst := ps.filterMap (fun p => if p.1 = s then some p.2 else none)

def toAssoc (kname : Nat → String) (a : Pyx.Meta.AssocSpec) : Assoc :=
  { rel := a.rel, src := kname a.srcKind, tgt := kname a.tgtKind, srcPhrase := a.srcPhrase, tgtPhrase := a.tgtPhrase,
    srcMany := a.srcMany, tgtMany := a.tgtMany, srcKeys := a.srcKeys, tgtKeys := a.tgtKeys }

/-- the Spec context of a mechanism schema: the classes `kinds` (no attributes: the store only), the associations -/
def ctxOf (kname : Nat → String) (kinds : List Nat) (sch : MSchema) : Ctx :=
  { classes := kinds.map (fun k => ⟨kname k, []⟩), assocs := sch.map (toAssoc kname) }

structure Refines (kname : Nat → String) (ι : Nat → Inst) (s : MState) (st : State) : Prop where
  cls : ∀ x, x < s.count → (ι x).cls = kname (s.kindOf x)
  below : ∀ x, x < s.count → (ι x).idx < st.next (ι x).cls
  inj : ∀ x y, x < s.count → y < s.count → ι x = ι y → x = y
  pool : ∀ k, st.live (kname k) = (s.pool k).map (fun x => (ι x).idx)
  pairs : ∀ i p, p ∈ st.links i ↔ ∃ x y, p = (ι y, ι x) ∧ y ∈ (s.links i).src x
  nodup : ∀ i, (st.links i).Nodup
  srcOrd : ∀ i x, x < s.count → srcProj (st.links i) (ι x) = ((s.links i).src x).map ι
  tgtOrd : ∀ i y, y < s.count → tgtProj (st.links i) (ι y) = ((s.links i).tgt y).map ι

/-- the initial states correspond (under any naming) -/
def initState : State :=
  { live := fun _ => [], next := fun _ => 0, attr := fun _ _ => .none, links := fun _ => [], nextId := 1 }

theorem refines_init (kname : Nat → String) (ι : Nat → Inst) : Refines kname ι Pyx.Meta.init initState := by
  refine ⟨fun x h => by simp [Pyx.Meta.init] at h, fun x h => by simp [Pyx.Meta.init] at h,
    fun x y h => by simp [Pyx.Meta.init] at h, fun k => by simp [Pyx.Meta.init, initState], ?_,
    fun i => by simp [initState], fun i x h => by simp [Pyx.Meta.init] at h, fun i x h => by simp [Pyx.Meta.init] at h⟩
  intro i p
  simp [initState, Pyx.Meta.init, Pyx.Meta.emptyLinks]

section
variable {kname : Nat → String} (hk : Function.Injective kname)
variable {ι : Nat → Inst} {s : MState} {st : State}

/-- liveness corresponds -/
theorem live_iff (R : Refines kname ι s st) (hp : Pyx.Meta.PoolInv s) {x : Nat} (hx : x < s.count) :
    st.isLive (ι x) = true ↔ Pyx.Meta.live s x := by
  rw [State.isLive, decide_eq_true_eq, R.cls x hx, R.pool]
  unfold Pyx.Meta.live
  constructor
  · intro h
    obtain ⟨z, hz, hzi⟩ := List.mem_map.1 h
    have hz' := (hp (s.kindOf x)).2 z hz
    have hc : ι z = ι x := by
      have h1 := R.cls z hz'.1
      have h2 := R.cls x hx
      rw [hz'.2] at h1
      cases hzv : ι z; cases hxv : ι x
      rw [hzv] at h1 hzi; rw [hxv] at h2 hzi
      simp only at h1 h2 hzi
      rw [h1, h2, hzi]
    have := R.inj z x hz'.1 hx hc
    subst this
    exact ⟨hx, hz⟩
  · intro h
    exact List.mem_map.2 ⟨x, h.2, rfl⟩

/-- `_find_link` resolves the same association in the same direction on both sides -/
theorem findLinkFrom_corr (hk : Function.Injective kname) (rel phrase : String) (X Y : Inst) (k1 k2 : Nat)
    (hX : X.cls = kname k1) (hY : Y.cls = kname k2) : ∀ (sch : MSchema) (n : Nat),
    findLinkFrom rel phrase X Y n (sch.map (toAssoc kname)) =
      match Pyx.Meta.findLinkFrom k1 k2 rel phrase n sch with
      | none => none
      | some (i, d) =>
        match sch[i - n]? with
        | some a => (match d with
                     | .fwd => some (i, toAssoc kname a, Y, X)
                     | .rev => some (i, toAssoc kname a, X, Y))
        | none => none
  | [], n => by simp [findLinkFrom, Pyx.Meta.findLinkFrom]
  | a :: rest, n => by
    have ih := findLinkFrom_corr hk rel phrase X Y k1 k2 hX hY rest (n + 1)
    simp only [List.map_cons, findLinkFrom, Pyx.Meta.findLinkFrom]
    have tail : ∀ r, Pyx.Meta.findLinkFrom k1 k2 rel phrase (n + 1) rest = r →
        (match r with
          | none => none
          | some (i, d) =>
            match rest[i - (n + 1)]? with
            | some a => (match d with
                         | .fwd => some (i, toAssoc kname a, Y, X)
                         | .rev => some (i, toAssoc kname a, X, Y))
            | none => none) =
        (match r with
          | none => (none : Option (Nat × Assoc × Inst × Inst))
          | some (i, d) =>
            match (a :: rest)[i - n]? with
            | some a => (match d with
                         | .fwd => some (i, toAssoc kname a, Y, X)
                         | .rev => some (i, toAssoc kname a, X, Y))
            | none => none) := by
      intro r hf
      cases r with
      | none => rfl
      | some r =>
        obtain ⟨i, d⟩ := r
        obtain ⟨b, hb, hn, _⟩ := Pyx.Meta.findLinkFrom_sound rest (n + 1) i d hf
        have e1 : i - n = (i - (n + 1)) + 1 := by omega
        simp only [e1, List.getElem?_cons_succ]
    have htail := tail _ rfl
    have e1 : ((toAssoc kname a).tgt = X.cls ∧ (toAssoc kname a).src = Y.cls ∧ (toAssoc kname a).tgtPhrase = phrase) ↔
        (a.tgtKind = k1 ∧ a.srcKind = k2 ∧ a.tgtPhrase = phrase) := by
      simp only [toAssoc, hX, hY, hk.eq_iff]
    have e2 : ((toAssoc kname a).src = X.cls ∧ (toAssoc kname a).tgt = Y.cls ∧ (toAssoc kname a).srcPhrase = phrase) ↔
        (a.srcKind = k1 ∧ a.tgtKind = k2 ∧ a.srcPhrase = phrase) := by
      simp only [toAssoc, hX, hY, hk.eq_iff]
    have e0 : (toAssoc kname a).rel = a.rel := rfl
    by_cases hrel : a.rel = rel
    · rw [if_pos (e0.trans hrel), if_neg (show ¬ (a.rel ≠ rel) from fun h => h hrel)]
      by_cases hc1 : a.tgtKind = k1 ∧ a.srcKind = k2 ∧ a.tgtPhrase = phrase
      · rw [if_pos (e1.2 hc1), if_pos hc1]
        simp
      · rw [if_neg (show ¬ _ from fun h => hc1 (e1.1 h)), if_neg hc1]
        by_cases hc2 : a.srcKind = k1 ∧ a.tgtKind = k2 ∧ a.srcPhrase = phrase
        · rw [if_pos (e2.2 hc2), if_pos hc2]
          simp
        · rw [if_neg (show ¬ _ from fun h => hc2 (e2.1 h)), if_neg hc2, ih]
          exact htail
    · rw [if_neg (show ¬ (toAssoc kname a).rel = rel from hrel), if_pos (show a.rel ≠ rel from hrel), ih]
      exact htail

theorem findLink_corr (hk : Function.Injective kname) (kinds : List Nat) (sch : MSchema) (rel phrase : String)
    (X Y : Inst) (k1 k2 : Nat) (hX : X.cls = kname k1) (hY : Y.cls = kname k2) :
    findLink (ctxOf kname kinds sch) rel phrase X Y =
      match Pyx.Meta.findLink sch k1 k2 rel phrase with
      | none => none
      | some (i, d) =>
        (match d with
         | .fwd => some (i, toAssoc kname (Pyx.Meta.specAt sch i), Y, X)
         | .rev => some (i, toAssoc kname (Pyx.Meta.specAt sch i), X, Y)) := by
  unfold findLink Pyx.Meta.findLink ctxOf
  simp only
  rw [findLinkFrom_corr hk rel phrase X Y k1 k2 hX hY sch 0]
  cases hf : Pyx.Meta.findLinkFrom k1 k2 rel phrase 0 sch with
  | none => rfl
  | some r =>
    obtain ⟨i, d⟩ := r
    obtain ⟨b, hb, _, _⟩ := Pyx.Meta.findLinkFrom_sound sch 0 i d hf
    simp only [Nat.sub_zero] at hb ⊢
    rw [hb, Pyx.Meta.specAt_of_get hb]

/-! ### (a) new -/

def extend (ι : Nat → Inst) (x : Nat) (i : Inst) : Nat → Inst := fun z => if z = x then i else ι z

theorem extend_old {ι : Nat → Inst} {x z : Nat} {i : Inst} (h : z ≠ x) : extend ι x i z = ι z := by
  simp [extend, h]

theorem extend_new {ι : Nat → Inst} {x : Nat} {i : Inst} : extend ι x i x = i := by simp [extend]

theorem findClass_ctxOf (kname : Nat → String) (sch : MSchema) (k : Nat) : ∀ (kinds : List Nat), k ∈ kinds →
    ∃ c, findClass (ctxOf kname kinds sch) (kname k) = some c ∧ c.attrs = []
  | [], h => by cases h
  | k0 :: rest, h => by
    unfold findClass ctxOf
    simp only [List.map_cons, List.find?_cons]
    by_cases h0 : kname k0 = kname k
    · simp [h0]
    · have hne : k ≠ k0 := fun e => h0 (by rw [e])
      have hmem : k ∈ rest := by
        rcases List.mem_cons.1 h with e | e
        · exact absurd e hne
        · exact e
      obtain ⟨c, hc, hca⟩ := findClass_ctxOf kname sch k rest hmem
      simp only [h0, decide_false]
      exact ⟨c, hc, hca⟩

/-- everything a link holds has been created -/
theorem links_lt {sch : MSchema} (A : Pyx.Meta.AllInv sch s) {i x y : Nat} :
    (y ∈ (s.links i).src x → x < s.count ∧ y < s.count) ∧ (x ∈ (s.links i).tgt y → x < s.count ∧ y < s.count) := by
  have key : y ∈ (s.links i).src x → x < s.count ∧ y < s.count := fun h =>
    ⟨(A.liveOnly i x y h).1.1, (A.liveOnly i x y h).2.1⟩
  exact ⟨key, fun h => key (((A.inv i).1 x y).2 h)⟩

theorem srcProj_nil_of_not_mem {ps : List (Inst × Inst)} {t : Inst} (h : ∀ p ∈ ps, p.2 ≠ t) : srcProj ps t = [] := by
  unfold srcProj
  apply List.filterMap_eq_nil_iff.2
  intro p hp
  simp [h p hp]

theorem tgtProj_nil_of_not_mem {ps : List (Inst × Inst)} {t : Inst} (h : ∀ p ∈ ps, p.1 ≠ t) : tgtProj ps t = [] := by
  unfold tgtProj
  apply List.filterMap_eq_nil_iff.2
  intro p hp
  simp [h p hp]

theorem new_refines (hk : Function.Injective kname) (kinds : List Nat) (sch : MSchema)
    (R : Refines kname ι s st) (A : Pyx.Meta.AllInv sch s) (k : Nat) (hkin : k ∈ kinds) (hasId : Bool) :
    ∃ st', newInst (ctxOf kname kinds sch) (kname k) st = .ok (⟨kname k, st.next (kname k)⟩, st') ∧
      Refines kname (extend ι s.count ⟨kname k, st.next (kname k)⟩) (Pyx.Meta.new s k hasId).1 st' := by
  obtain ⟨c, hc, hca⟩ := findClass_ctxOf kname sch k kinds hkin
  let i0 : Inst := ⟨kname k, st.next (kname k)⟩
  refine ⟨{ st with live := upd st.live (kname k) (st.live (kname k) ++ [st.next (kname k)]),
                     next := upd st.next (kname k) (st.next (kname k) + 1) }, ?_, ?_⟩
  · unfold newInst
    rw [hc]
    simp only [hca, initAttrs]
  · have hold : ∀ z, z < s.count → extend ι s.count i0 z = ι z := fun z hz => extend_old (Nat.ne_of_lt hz)
    have hkind : ∀ z, z < s.count → (Pyx.Meta.new s k hasId).1.kindOf z = s.kindOf z := by
      intro z hz
      show Pyx.Meta.upd s.kindOf s.count k z = s.kindOf z
      exact Pyx.Meta.upd_other _ _ (Nat.ne_of_lt hz)
    have hcount : (Pyx.Meta.new s k hasId).1.count = s.count + 1 := rfl
    have hlinks : (Pyx.Meta.new s k hasId).1.links = s.links := rfl
    -- the new name differs from every old name
    have hfresh : ∀ z, z < s.count → ι z ≠ i0 := by
      intro z hz e
      have hb := R.below z hz
      rw [e] at hb
      exact Nat.lt_irrefl _ hb
    constructor
    · -- cls
      intro z hz
      rw [hcount] at hz
      by_cases hzc : z = s.count
      · subst hzc
        rw [extend_new]
        show kname k = kname (Pyx.Meta.upd s.kindOf s.count k s.count)
        rw [Pyx.Meta.upd_same]
      · have hz' : z < s.count := by omega
        rw [hold z hz', hkind z hz']; exact R.cls z hz'
    · -- below
      intro z hz
      rw [hcount] at hz
      show (extend ι s.count i0 z).idx < upd st.next (kname k) (st.next (kname k) + 1) (extend ι s.count i0 z).cls
      by_cases hzc : z = s.count
      · subst hzc
        rw [extend_new]
        simp [upd, i0]
      · have hz' : z < s.count := by omega
        rw [hold z hz']
        unfold upd
        by_cases hcl : (ι z).cls = kname k
        · rw [if_pos hcl]
          have := R.below z hz'
          rw [hcl] at this
          omega
        · rw [if_neg hcl]; exact R.below z hz'
    · -- inj
      intro a b ha hb hab
      rw [hcount] at ha hb
      by_cases hac : a = s.count
      · by_cases hbc : b = s.count
        · rw [hac, hbc]
        · have hb' : b < s.count := by omega
          rw [hac, extend_new, hold b hb'] at hab
          exact absurd hab.symm (hfresh b hb')
      · have ha' : a < s.count := by omega
        by_cases hbc : b = s.count
        · rw [hbc, extend_new, hold a ha'] at hab
          exact absurd hab (hfresh a ha')
        · have hb' : b < s.count := by omega
          rw [hold a ha', hold b hb'] at hab
          exact R.inj a b ha' hb' hab
    · -- pool
      intro k'
      show upd st.live (kname k) (st.live (kname k) ++ [st.next (kname k)]) (kname k') =
        (Pyx.Meta.upd s.pool k (s.pool k ++ [s.count]) k').map (fun x => (extend ι s.count i0 x).idx)
      have hmap : ∀ k'', (s.pool k'').map (fun x => (extend ι s.count i0 x).idx) = (s.pool k'').map (fun x => (ι x).idx) := by
        intro k''
        apply List.map_congr_left
        intro z hz
        rw [hold z ((A.pool k'').2 z hz).1]
      by_cases hkk : k' = k
      · subst hkk
        rw [Pyx.Meta.upd_same]
        unfold upd
        rw [if_pos rfl, List.map_append, hmap, R.pool]
        simp [extend_new, i0]
      · rw [Pyx.Meta.upd_other _ _ hkk]
        unfold upd
        rw [if_neg (fun e => hkk (hk e)), hmap, R.pool]
    · -- pairs
      intro i p
      show p ∈ st.links i ↔ _
      rw [R.pairs i p, hlinks]
      constructor
      · rintro ⟨x, y, hp, hm⟩
        have := (links_lt A).1 hm
        exact ⟨x, y, by rw [hold x this.1, hold y this.2]; exact hp, hm⟩
      · rintro ⟨x, y, hp, hm⟩
        have := (links_lt A).1 hm
        exact ⟨x, y, by rw [hold x this.1, hold y this.2] at hp; exact hp, hm⟩
    · exact R.nodup
    · -- srcOrd
      intro i x hx
      rw [hcount] at hx
      show srcProj (st.links i) _ = _
      rw [hlinks]
      by_cases hxc : x = s.count
      · subst hxc
        have hnil : (s.links i).src s.count = [] := by
          cases hl : (s.links i).src s.count with
          | nil => rfl
          | cons y ys =>
            have : y ∈ (s.links i).src s.count := by rw [hl]; exact List.mem_cons_self
            exact absurd ((links_lt A).1 this).1 (Nat.lt_irrefl _)
        rw [hnil, extend_new, List.map_nil]
        apply srcProj_nil_of_not_mem
        intro p hp e
        obtain ⟨x', y', hpe, hm⟩ := (R.pairs i p).1 hp
        rw [hpe] at e
        exact hfresh x' ((links_lt A).1 hm).1 e
      · have hx' : x < s.count := by omega
        rw [hold x hx', R.srcOrd i x hx']
        apply List.map_congr_left
        intro y hy
        rw [hold y ((links_lt A).1 hy).2]
    · -- tgtOrd
      intro i y hy
      rw [hcount] at hy
      show tgtProj (st.links i) _ = _
      rw [hlinks]
      by_cases hyc : y = s.count
      · subst hyc
        have hnil : (s.links i).tgt s.count = [] := by
          cases hl : (s.links i).tgt s.count with
          | nil => rfl
          | cons x xs =>
            have : x ∈ (s.links i).tgt s.count := by rw [hl]; exact List.mem_cons_self
            exact absurd ((links_lt A).2 this).2 (Nat.lt_irrefl _)
        rw [hnil, extend_new, List.map_nil]
        apply tgtProj_nil_of_not_mem
        intro p hp e
        obtain ⟨x', y', hpe, hm⟩ := (R.pairs i p).1 hp
        rw [hpe] at e
        exact hfresh y' ((links_lt A).1 hm).2 e
      · have hy' : y < s.count := by omega
        rw [hold y hy', R.tgtOrd i y hy']
        apply List.map_congr_left
        intro x hx
        rw [hold x ((links_lt A).2 hx).1]

/-! ### (b) relate -/

theorem srcProj_append (a b : List (Inst × Inst)) (t : Inst) : srcProj (a ++ b) t = srcProj a t ++ srcProj b t := by
  unfold srcProj; exact List.filterMap_append

theorem tgtProj_append (a b : List (Inst × Inst)) (t : Inst) : tgtProj (a ++ b) t = tgtProj a t ++ tgtProj b t := by
  unfold tgtProj; exact List.filterMap_append

theorem any_snd_iff (ps : List (Inst × Inst)) (t : Inst) :
    ps.any (fun p => decide (p.2 = t)) = true ↔ srcProj ps t ≠ [] := by
  induction ps with
  | nil => simp [srcProj]
  | cons p rest ih =>
    unfold srcProj at ih ⊢
    by_cases hp : p.2 = t
    · simp [List.filterMap_cons, hp]
    · simp only [List.any_cons, hp, decide_false, Bool.false_or, List.filterMap_cons, if_false]
      exact ih

theorem any_fst_iff (ps : List (Inst × Inst)) (t : Inst) :
    ps.any (fun p => decide (p.1 = t)) = true ↔ tgtProj ps t ≠ [] := by
  induction ps with
  | nil => simp [tgtProj]
  | cons p rest ih =>
    unfold tgtProj at ih ⊢
    by_cases hp : p.1 = t
    · simp [List.filterMap_cons, hp]
    · simp only [List.any_cons, hp, decide_false, Bool.false_or, List.filterMap_cons, if_false]
      exact ih

/-- a pair of created instances is in the Spec list iff the mechanism holds the link -/
theorem pair_mem_iff {sch : MSchema} (R : Refines kname ι s st) (A : Pyx.Meta.AllInv sch s) (i : Nat) {x y : Nat}
    (hx : x < s.count) (hy : y < s.count) : (ι y, ι x) ∈ st.links i ↔ y ∈ (s.links i).src x := by
  rw [R.pairs]
  constructor
  · rintro ⟨x', y', hp, hm⟩
    have hlt := (links_lt A).1 hm
    simp only [Prod.mk.injEq] at hp
    have e1 := R.inj y y' hy hlt.2 hp.1
    have e2 := R.inj x x' hx hlt.1 hp.2
    rw [e1, e2]; exact hm
  · intro hm; exact ⟨x, y, rfl, hm⟩

/-- a new pair that the mechanism accepts is appended to both directed sets -/
theorem relateOn_new_ok {a : Pyx.Meta.AssocSpec} {l : Pyx.Meta.ALinks} {x y : Nat} (hsym : Pyx.Meta.Sym l)
    (hnew : y ∉ l.src x) (hok : (Pyx.Meta.relateOn a l x y).2 = .ok) :
    (Pyx.Meta.relateOn a l x y).1 =
      { src := Pyx.Meta.upd l.src x (l.src x ++ [y]), tgt := Pyx.Meta.upd l.tgt y (l.tgt y ++ [x]) } := by
  obtain ⟨s', t', hs, ht, hl⟩ := Pyx.Meta.relateOn_ok (l' := (Pyx.Meta.relateOn a l x y).1) (by rw [← hok])
  have hx : x ∉ l.tgt y := fun h => hnew ((hsym x y).2 h)
  have hs' : s' = Pyx.Meta.upd l.src x (l.src x ++ [y]) := by
    unfold Pyx.Meta.connect at hs
    simp only [hnew, ↓reduceIte] at hs
    split at hs
    · cases hs
    · cases hs; rfl
  have ht' : t' = Pyx.Meta.upd l.tgt y (l.tgt y ++ [x]) := by
    unfold Pyx.Meta.connect at ht
    simp only [hx, ↓reduceIte] at ht
    split at ht
    · cases ht
    · cases ht; rfl
  rw [hl, hs', ht']

/-- the part of Spec's `relate` after the association has been found -/
def relateBranch (rel : String) (a : Assoc) (k : Nat) (S T : Inst) (st : State) : Except Err State :=
  let ps := st.links k
  if (S, T) ∈ ps then .ok st
  else if (!a.srcMany && ps.any (fun p => decide (p.2 = T))) || (!a.tgtMany && ps.any (fun p => decide (p.1 = S)))
  then .error ⟨"relate violates the multiplicity of " ++ rel⟩
  else .ok { st with links := upd st.links k (ps ++ [(S, T)]) }

theorem relate_core {sch : MSchema} (R : Refines kname ι s st) (A : Pyx.Meta.AllInv sch s) (rel : String) (i : Nat) {xt ys : Nat}
    (hx : xt < s.count) (hy : ys < s.count) :
    let r := Pyx.Meta.relateOn (Pyx.Meta.specAt sch i) (s.links i) xt ys
    let s' : MState := { s with links := Pyx.Meta.upd s.links i r.1 }
    (r.2 = .ok → ∃ st', relateBranch rel (toAssoc kname (Pyx.Meta.specAt sch i)) i (ι ys) (ι xt) st = .ok st' ∧
        Refines kname ι s' st') ∧
    (r.2 ≠ .ok → s' = s ∧ ∃ e, relateBranch rel (toAssoc kname (Pyx.Meta.specAt sch i)) i (ι ys) (ι xt) st = .error e) := by
  intro r s'
  have hsym := (A.inv i).1
  have hmem := pair_mem_iff R A i hx hy
  by_cases hold : ys ∈ (s.links i).src xt
  · -- the pair is there already: accepted, nothing changes
    have hr : r = (s.links i, .ok) := Pyx.Meta.relateOn_idempotent hsym hold
    have hs' : s' = s := by
      show ({ s with links := Pyx.Meta.upd s.links i r.1 } : MState) = s
      rw [hr]; exact Pyx.Meta.state_links_id s i
    constructor
    · intro _
      refine ⟨st, ?_, by rw [hs']; exact R⟩
      unfold relateBranch
      simp only [hmem.2 hold, if_true]
    · intro hne; rw [hr] at hne; exact absurd rfl hne
  · have hnot : (ι ys, ι xt) ∉ st.links i := fun h => hold (hmem.1 h)
    have hcond : ((!(toAssoc kname (Pyx.Meta.specAt sch i)).srcMany && (st.links i).any (fun p => decide (p.2 = ι xt))) ||
        (!(toAssoc kname (Pyx.Meta.specAt sch i)).tgtMany && (st.links i).any (fun p => decide (p.1 = ι ys)))) = true ↔
        (((s.links i).src xt ≠ [] ∧ (Pyx.Meta.specAt sch i).srcMany = false) ∨
         ((s.links i).tgt ys ≠ [] ∧ (Pyx.Meta.specAt sch i).tgtMany = false)) := by
      have a1 := any_snd_iff (st.links i) (ι xt)
      have a2 := any_fst_iff (st.links i) (ι ys)
      rw [R.srcOrd i xt hx] at a1
      rw [R.tgtOrd i ys hy] at a2
      simp only [Bool.or_eq_true, Bool.and_eq_true, Bool.not_eq_true', toAssoc, a1, a2, ne_eq, List.map_eq_nil_iff]
      constructor
      · rintro (⟨h1, h2⟩ | ⟨h1, h2⟩)
        · exact Or.inl ⟨h2, h1⟩
        · exact Or.inr ⟨h2, h1⟩
      · rintro (⟨h1, h2⟩ | ⟨h1, h2⟩)
        · exact Or.inl ⟨h2, h1⟩
        · exact Or.inr ⟨h2, h1⟩
    have hrej := Pyx.Meta.relateOn_reject_iff (a := Pyx.Meta.specAt sch i) (l := s.links i) (x := xt) (y := ys) hsym
    by_cases hc : (((s.links i).src xt ≠ [] ∧ (Pyx.Meta.specAt sch i).srcMany = false) ∨
         ((s.links i).tgt ys ≠ [] ∧ (Pyx.Meta.specAt sch i).tgtMany = false))
    · -- rejected on both sides
      have hexc : r.2 = .relateExc := hrej.2 ⟨hold, hc⟩
      constructor
      · intro hok; rw [hexc] at hok; cases hok
      · intro _
        refine ⟨?_, ?_⟩
        · show ({ s with links := Pyx.Meta.upd s.links i r.1 } : MState) = s
          rw [show r.1 = s.links i from Pyx.Meta.relateOn_reject_atomic hsym hexc]
          exact Pyx.Meta.state_links_id s i
        · refine ⟨⟨"relate violates the multiplicity of " ++ rel⟩, ?_⟩
          unfold relateBranch
          simp only [hnot, if_false, hcond.2 hc, if_true]
    · -- accepted: appended on both sides
      have hok : r.2 = .ok := by
        rcases Pyx.Meta.relateOn_out (Pyx.Meta.specAt sch i) (s.links i) xt ys with h | h
        · exact h
        · exact absurd (hrej.1 h).2 hc
      have hr1 := relateOn_new_ok hsym hold hok
      have hcf : ¬ (((!(toAssoc kname (Pyx.Meta.specAt sch i)).srcMany && (st.links i).any (fun p => decide (p.2 = ι xt))) ||
        (!(toAssoc kname (Pyx.Meta.specAt sch i)).tgtMany && (st.links i).any (fun p => decide (p.1 = ι ys)))) = true) :=
        fun h => hc (hcond.1 h)
      constructor
      · intro _
        refine ⟨{ st with links := upd st.links i (st.links i ++ [(ι ys, ι xt)]) }, ?_, ?_⟩
        · unfold relateBranch
          simp only [hnot, if_false, hcf]
          rfl
        · have hl' : ∀ j, (s'.links j) = if j = i then r.1 else s.links j := by
            intro j; show Pyx.Meta.upd s.links i r.1 j = _; rfl
          refine ⟨R.cls, R.below, R.inj, R.pool, ?_, ?_, ?_, ?_⟩
          · intro j p
            show p ∈ upd st.links i (st.links i ++ [(ι ys, ι xt)]) j ↔ _
            unfold upd
            by_cases hj : j = i
            · subst hj
              rw [if_pos rfl, hl', if_pos rfl, hr1, List.mem_append, R.pairs]
              simp only [List.mem_singleton]
              constructor
              · rintro (⟨x', y', hp, hm⟩ | hp)
                · refine ⟨x', y', hp, ?_⟩
                  show y' ∈ Pyx.Meta.upd _ xt _ x'
                  unfold Pyx.Meta.upd
                  by_cases hxx : x' = xt
                  · rw [if_pos hxx, ← hxx]; exact List.mem_append_left _ hm
                  · rw [if_neg hxx]; exact hm
                · refine ⟨xt, ys, hp, ?_⟩
                  show ys ∈ Pyx.Meta.upd _ xt _ xt
                  rw [Pyx.Meta.upd_same]; simp
              · rintro ⟨x', y', hp, hm⟩
                have hm' : y' ∈ Pyx.Meta.upd (s.links j).src xt ((s.links j).src xt ++ [ys]) x' := hm
                unfold Pyx.Meta.upd at hm'
                by_cases hxx : x' = xt
                · rw [if_pos hxx, List.mem_append, List.mem_singleton] at hm'
                  rcases hm' with hm' | hm'
                  · exact Or.inl ⟨x', y', hp, by rw [hxx]; exact hm'⟩
                  · right; rw [hp, hxx, hm']
                · rw [if_neg hxx] at hm'
                  exact Or.inl ⟨x', y', hp, hm'⟩
            · rw [if_neg hj, hl', if_neg hj]; exact R.pairs j p
          · intro j
            show (upd st.links i (st.links i ++ [(ι ys, ι xt)]) j).Nodup
            unfold upd
            by_cases hj : j = i
            · rw [if_pos hj, List.nodup_append]
              refine ⟨R.nodup i, by simp, ?_⟩
              intro p hp q hq
              simp only [List.mem_singleton] at hq
              subst hq
              intro e; subst e; exact hnot hp
            · rw [if_neg hj]; exact R.nodup j
          · intro j z hz
            show srcProj (upd st.links i (st.links i ++ [(ι ys, ι xt)]) j) (ι z) = ((s'.links j).src z).map ι
            unfold upd
            by_cases hj : j = i
            · subst hj
              rw [if_pos rfl, hl', if_pos rfl, hr1, srcProj_append, R.srcOrd j z hz]
              show _ = (Pyx.Meta.upd (s.links j).src xt ((s.links j).src xt ++ [ys]) z).map ι
              unfold Pyx.Meta.upd
              by_cases hzz : z = xt
              · subst hzz
                rw [if_pos rfl, List.map_append]
                simp [srcProj]
              · rw [if_neg hzz]
                have : ι xt ≠ ι z := fun e => hzz (R.inj xt z hx hz e).symm
                simp [srcProj, this]
            · rw [if_neg hj, hl', if_neg hj]; exact R.srcOrd j z hz
          · intro j z hz
            show tgtProj (upd st.links i (st.links i ++ [(ι ys, ι xt)]) j) (ι z) = ((s'.links j).tgt z).map ι
            unfold upd
            by_cases hj : j = i
            · subst hj
              rw [if_pos rfl, hl', if_pos rfl, hr1, tgtProj_append, R.tgtOrd j z hz]
              show _ = (Pyx.Meta.upd (s.links j).tgt ys ((s.links j).tgt ys ++ [xt]) z).map ι
              unfold Pyx.Meta.upd
              by_cases hzz : z = ys
              · subst hzz
                rw [if_pos rfl, List.map_append]
                simp [tgtProj]
              · rw [if_neg hzz]
                have : ι ys ≠ ι z := fun e => hzz (R.inj ys z hy hz e).symm
                simp [tgtProj, this]
            · rw [if_neg hj, hl', if_neg hj]; exact R.tgtOrd j z hz
      · intro hne; exact absurd hok hne

theorem relate_eq_branch (C : Ctx) (X Y : Inst) (rel phrase : String) (st : State) :
    relate C X Y rel phrase st =
      if st.isLive X && st.isLive Y then
        match findLink C rel phrase X Y with
        | none => .error ⟨"unknown link " ++ rel⟩
        | some (k, a, S, T) => relateBranch rel a k S T st
      else .error ⟨"relate of an instance that is not in the pool"⟩ := by
  unfold relate relateBranch
  split
  · cases findLink C rel phrase X Y with
    | none => rfl
    | some q => obtain ⟨k, a, S, T⟩ := q; rfl
  · rfl

/-- **(b)** `relate` on live instances: accepted by the mechanism ⇒ accepted by Spec and the results correspond (the
    pair is added at the end of both partners' lists, or was there already); rejected by the mechanism
    (RelateException after the undo, or UnknownLink) ⇒ rejected by Spec, and neither state changes.
    Here for two live instances; `relate_refines'` covers any two created instances (a deleted one is rejected on
    both sides since the mechanism keeps its `deleted` set). -/
theorem relate_refines (hk : Function.Injective kname) (kinds : List Nat) (sch : MSchema)
    (R : Refines kname ι s st) (A : Pyx.Meta.AllInv sch s) {x y : Nat}
    (hx : Pyx.Meta.live s x) (hy : Pyx.Meta.live s y) (rel phrase : String) :
    ((Pyx.Meta.relate sch s x y rel phrase).2 = .ok →
      ∃ st', relate (ctxOf kname kinds sch) (ι x) (ι y) rel phrase st = .ok st' ∧
        Refines kname ι (Pyx.Meta.relate sch s x y rel phrase).1 st') ∧
    ((Pyx.Meta.relate sch s x y rel phrase).2 ≠ .ok →
      (Pyx.Meta.relate sch s x y rel phrase).1 = s ∧
        ∃ e, relate (ctxOf kname kinds sch) (ι x) (ι y) rel phrase st = .error e) := by
  have lx := (live_iff R A.pool hx.1).2 hx
  have ly := (live_iff R A.pool hy.1).2 hy
  have hfl := findLink_corr hk kinds sch rel phrase (ι x) (ι y) (s.kindOf x) (s.kindOf y) (R.cls x hx.1) (R.cls y hy.1)
  rw [relate_eq_branch, lx, ly]
  simp only [Bool.and_self, if_true]
  rw [hfl]
  rw [Pyx.Meta.relate_of_live hx hy]
  unfold Pyx.Meta.relateCore
  cases hf : Pyx.Meta.findLink sch (s.kindOf x) (s.kindOf y) rel phrase with
  | none =>
    simp only
    refine ⟨fun h => (by cases h), fun _ => ⟨trivial, Err.mk ("unknown link " ++ rel), rfl⟩⟩
  | some q =>
    obtain ⟨i, d⟩ := q
    cases d with
    | fwd => exact relate_core R A rel i hx.1 hy.1
    | rev => exact relate_core R A rel i hy.1 hx.1

/-- **(b')** `relate` on ANY two created instances: if one of them is not live (deleted), the mechanism rejects
    (RelateException, or UnknownLinkException when no association matches) and so does Spec; neither state changes -/
theorem relate_refines' (hk : Function.Injective kname) (kinds : List Nat) (sch : MSchema)
    (R : Refines kname ι s st) (A : Pyx.Meta.AllInv sch s) {x y : Nat}
    (hx : x < s.count) (hy : y < s.count) (rel phrase : String) :
    ((Pyx.Meta.relate sch s x y rel phrase).2 = .ok →
      ∃ st', relate (ctxOf kname kinds sch) (ι x) (ι y) rel phrase st = .ok st' ∧
        Refines kname ι (Pyx.Meta.relate sch s x y rel phrase).1 st') ∧
    ((Pyx.Meta.relate sch s x y rel phrase).2 ≠ .ok →
      (Pyx.Meta.relate sch s x y rel phrase).1 = s ∧
        ∃ e, relate (ctxOf kname kinds sch) (ι x) (ι y) rel phrase st = .error e) := by
  by_cases hl : Pyx.Meta.live s x ∧ Pyx.Meta.live s y
  · exact relate_refines hk kinds sch R A hl.1 hl.2 rel phrase
  · have hm := Pyx.Meta.relate_not_live_fst (sch := sch) hl rel phrase
    refine ⟨fun hok => absurd hok hm.2, fun _ => ⟨hm.1, ?_⟩⟩
    rw [relate_eq_branch]
    have hb : (st.isLive (ι x) && st.isLive (ι y)) = false := by
      cases hlx : st.isLive (ι x) with
      | false => rfl
      | true =>
        cases hly : st.isLive (ι y) with
        | false => rfl
        | true => exact absurd ⟨(live_iff R A.pool hx).1 hlx, (live_iff R A.pool hy).1 hly⟩ hl
    rw [hb]
    exact ⟨_, rfl⟩

/-! ### (c) unrelate -/

theorem srcProj_cons (p : Inst × Inst) (rest : List (Inst × Inst)) (t : Inst) :
    srcProj (p :: rest) t = (if p.2 = t then [p.1] else []) ++ srcProj rest t := by
  unfold srcProj
  by_cases h : p.2 = t <;> simp [List.filterMap_cons, h]

theorem tgtProj_cons (p : Inst × Inst) (rest : List (Inst × Inst)) (t : Inst) :
    tgtProj (p :: rest) t = (if p.1 = t then [p.2] else []) ++ tgtProj rest t := by
  unfold tgtProj
  by_cases h : p.1 = t <;> simp [List.filterMap_cons, h]

theorem srcProj_erase (S T t : Inst) : ∀ (ps : List (Inst × Inst)),
    srcProj (ps.erase (S, T)) t = if T = t then (srcProj ps t).erase S else srcProj ps t
  | [] => by simp [srcProj]
  | p :: rest => by
    have ih := srcProj_erase S T t rest
    by_cases hp : p = (S, T)
    · subst hp
      rw [List.erase_cons_head, srcProj_cons]
      by_cases hT : T = t
      · simp [hT]
      · simp [hT]
    · have hne : (p == (S, T)) = false := by simpa using hp
      rw [List.erase_cons_tail (by simpa using hp), srcProj_cons, srcProj_cons, ih]
      by_cases hT : T = t
      · rw [if_pos hT, if_pos hT]
        by_cases hp2 : p.2 = t
        · rw [if_pos hp2]
          have : p.1 ≠ S := by
            intro e; apply hp
            cases p; simp_all
          simp only [List.singleton_append]
          rw [List.erase_cons_tail (by simpa using this)]
        · rw [if_neg hp2]; simp
      · rw [if_neg hT, if_neg hT]

theorem tgtProj_erase (S T t : Inst) : ∀ (ps : List (Inst × Inst)),
    tgtProj (ps.erase (S, T)) t = if S = t then (tgtProj ps t).erase T else tgtProj ps t
  | [] => by simp [tgtProj]
  | p :: rest => by
    have ih := tgtProj_erase S T t rest
    by_cases hp : p = (S, T)
    · subst hp
      rw [List.erase_cons_head, tgtProj_cons]
      by_cases hT : S = t
      · simp [hT]
      · simp [hT]
    · rw [List.erase_cons_tail (by simpa using hp), tgtProj_cons, tgtProj_cons, ih]
      by_cases hT : S = t
      · rw [if_pos hT, if_pos hT]
        by_cases hp2 : p.1 = t
        · rw [if_pos hp2]
          have : p.2 ≠ T := by
            intro e; apply hp
            cases p; simp_all
          simp only [List.singleton_append]
          rw [List.erase_cons_tail (by simpa using this)]
        · rw [if_neg hp2]; simp
      · rw [if_neg hT, if_neg hT]

theorem map_erase_inj {f : Nat → Inst} (a : Nat) : ∀ (l : List Nat), (∀ z ∈ l, f z = f a → z = a) →
    (l.map f).erase (f a) = (l.erase a).map f
  | [], _ => rfl
  | z :: rest, h => by
    by_cases hz : z = a
    · subst hz; simp
    · have hf : f z ≠ f a := fun e => hz (h z List.mem_cons_self e)
      rw [List.map_cons, List.erase_cons_tail (by simpa using hf), List.erase_cons_tail (by simpa using hz), List.map_cons,
        map_erase_inj a rest (fun w hw => h w (List.mem_cons_of_mem _ hw))]

def unrelateBranch (rel : String) (k : Nat) (S T : Inst) (st : State) : Except Err State :=
  let ps := st.links k
  if (S, T) ∈ ps then .ok { st with links := upd st.links k (ps.erase (S, T)) }
  else .error ⟨"unrelate of instances that are not related across " ++ rel⟩

theorem unrelate_core {sch : MSchema} (R : Refines kname ι s st) (A : Pyx.Meta.AllInv sch s) (rel : String) (i : Nat)
    {xt ys : Nat} (hx : xt < s.count) (hy : ys < s.count) :
    ((Pyx.Meta.unrelateOn (s.links i) xt ys).2 = .ok →
      ∃ st', unrelateBranch rel i (ι ys) (ι xt) st = .ok st' ∧
        Refines kname ι { s with links := Pyx.Meta.upd s.links i (Pyx.Meta.unrelateOn (s.links i) xt ys).1 } st') ∧
    ((Pyx.Meta.unrelateOn (s.links i) xt ys).2 ≠ .ok →
      ({ s with links := Pyx.Meta.upd s.links i (Pyx.Meta.unrelateOn (s.links i) xt ys).1 } : MState) = s ∧
        ∃ e, unrelateBranch rel i (ι ys) (ι xt) st = .error e) := by
  have hsym := (A.inv i).1
  have hnd := (A.inv i).2.1
  have hmem := pair_mem_iff R A i hx hy
  have hrej := Pyx.Meta.unrelateOn_reject_iff (l := s.links i) (x := xt) (y := ys) hsym
  by_cases hold : ys ∈ (s.links i).src xt
  · have hok : (Pyx.Meta.unrelateOn (s.links i) xt ys).2 = .ok := by
      rcases Pyx.Meta.unrelateOn_out (s.links i) xt ys with h | h
      · exact h
      · exact absurd hold (hrej.1 h)
    have hxt : xt ∈ (s.links i).tgt ys := (hsym xt ys).1 hold
    have hr1 : (Pyx.Meta.unrelateOn (s.links i) xt ys).1 =
        { src := Pyx.Meta.upd (s.links i).src xt (((s.links i).src xt).erase ys),
          tgt := Pyx.Meta.upd (s.links i).tgt ys (((s.links i).tgt ys).erase xt) } := by
      unfold Pyx.Meta.unrelateOn Pyx.Meta.disconnect
      simp [hold, hxt]
    constructor
    · intro _
      refine ⟨{ st with links := upd st.links i ((st.links i).erase (ι ys, ι xt)) }, ?_, ?_⟩
      · unfold unrelateBranch
        simp only [hmem.2 hold, if_true]
      · rw [hr1]
        refine ⟨R.cls, R.below, R.inj, R.pool, ?_, ?_, ?_, ?_⟩
        · intro j p
          show p ∈ upd st.links i ((st.links i).erase (ι ys, ι xt)) j ↔
            ∃ x' y', p = (ι y', ι x') ∧ y' ∈ ((Pyx.Meta.upd s.links i _ j)).src x'
          unfold upd Pyx.Meta.upd
          by_cases hj : j = i
          · subst hj
            rw [if_pos rfl, if_pos rfl, (R.nodup j).mem_erase_iff, R.pairs]
            constructor
            · rintro ⟨hne, x', y', hp, hm⟩
              refine ⟨x', y', hp, ?_⟩
              show y' ∈ (if x' = xt then ((s.links j).src xt).erase ys else (s.links j).src x')
              by_cases hxx : x' = xt
              · rw [if_pos hxx, (hnd.1 xt).mem_erase_iff]
                refine ⟨?_, by rw [← hxx]; exact hm⟩
                intro e; apply hne; rw [hp, hxx, e]
              · rw [if_neg hxx]; exact hm
            · rintro ⟨x', y', hp, hm⟩
              have hm' : y' ∈ (if x' = xt then ((s.links j).src xt).erase ys else (s.links j).src x') := hm
              by_cases hxx : x' = xt
              · rw [if_pos hxx, (hnd.1 xt).mem_erase_iff] at hm'
                refine ⟨?_, x', y', hp, by rw [hxx]; exact hm'.2⟩
                intro e
                rw [hp] at e
                simp only [Prod.mk.injEq] at e
                have hlt := (links_lt A).1 hm'.2
                exact hm'.1 (R.inj y' ys hlt.2 hy e.1)
              · rw [if_neg hxx] at hm'
                refine ⟨?_, x', y', hp, hm'⟩
                intro e
                rw [hp] at e
                simp only [Prod.mk.injEq] at e
                have hlt := (links_lt A).1 hm'
                exact hxx (R.inj x' xt hlt.1 hx e.2)
          · rw [if_neg hj, if_neg hj]; exact R.pairs j p
        · intro j
          show (upd st.links i ((st.links i).erase (ι ys, ι xt)) j).Nodup
          unfold upd
          by_cases hj : j = i
          · rw [if_pos hj]; exact List.Nodup.erase _ (R.nodup i)
          · rw [if_neg hj]; exact R.nodup j
        · intro j z hz
          show srcProj (upd st.links i ((st.links i).erase (ι ys, ι xt)) j) (ι z) =
            (((Pyx.Meta.upd s.links i _ j)).src z).map ι
          unfold upd Pyx.Meta.upd
          by_cases hj : j = i
          · subst hj
            rw [if_pos rfl, if_pos rfl, srcProj_erase, R.srcOrd j z hz]
            show _ = (if z = xt then ((s.links j).src xt).erase ys else (s.links j).src z).map ι
            by_cases hzz : z = xt
            · subst hzz
              rw [if_pos rfl, if_pos rfl]
              exact map_erase_inj ys _ (fun w hw e => R.inj w ys ((links_lt A).1 hw).2 hy e)
            · rw [if_neg hzz, if_neg (fun e => hzz (R.inj xt z hx hz e).symm)]
          · rw [if_neg hj, if_neg hj]; exact R.srcOrd j z hz
        · intro j z hz
          show tgtProj (upd st.links i ((st.links i).erase (ι ys, ι xt)) j) (ι z) =
            (((Pyx.Meta.upd s.links i _ j)).tgt z).map ι
          unfold upd Pyx.Meta.upd
          by_cases hj : j = i
          · subst hj
            rw [if_pos rfl, if_pos rfl, tgtProj_erase, R.tgtOrd j z hz]
            show _ = (if z = ys then ((s.links j).tgt ys).erase xt else (s.links j).tgt z).map ι
            by_cases hzz : z = ys
            · subst hzz
              rw [if_pos rfl, if_pos rfl]
              exact map_erase_inj xt _ (fun w hw e => R.inj w xt ((links_lt A).2 hw).1 hx e)
            · rw [if_neg hzz, if_neg (fun e => hzz (R.inj ys z hy hz e).symm)]
          · rw [if_neg hj, if_neg hj]; exact R.tgtOrd j z hz
    · intro hne; exact absurd hok hne
  · have hexc : (Pyx.Meta.unrelateOn (s.links i) xt ys).2 = .unrelateExc := hrej.2 hold
    constructor
    · intro hok; rw [hexc] at hok; cases hok
    · intro _
      refine ⟨?_, Err.mk ("unrelate of instances that are not related across " ++ rel), ?_⟩
      · rw [Pyx.Meta.unrelateOn_reject_atomic hsym hexc]
        exact Pyx.Meta.state_links_id s i
      · unfold unrelateBranch
        have hn : (ι ys, ι xt) ∉ st.links i := fun h => hold (hmem.1 h)
        simp only [hn, if_false]

theorem unrelate_eq_branch (C : Ctx) (X Y : Inst) (rel phrase : String) (st : State) :
    unrelate C X Y rel phrase st =
      if st.isLive X && st.isLive Y then
        match findLink C rel phrase X Y with
        | none => .error ⟨"unknown link " ++ rel⟩
        | some (k, _, S, T) => unrelateBranch rel k S T st
      else .error ⟨"unrelate of an instance that is not in the pool"⟩ := by
  unfold unrelate unrelateBranch
  split
  · cases findLink C rel phrase X Y with
    | none => rfl
    | some q => obtain ⟨k, a, S, T⟩ := q; rfl
  · rfl

/-- a successful mechanism unrelate only happens between live instances -/
theorem unrelate_ok_live {sch : MSchema} (A : Pyx.Meta.AllInv sch s) {x y : Nat} {rel phrase : String}
    (h : (Pyx.Meta.unrelate sch s x y rel phrase).2 = .ok) : Pyx.Meta.live s x ∧ Pyx.Meta.live s y := by
  unfold Pyx.Meta.unrelate at h
  cases hf : Pyx.Meta.findLink sch (s.kindOf x) (s.kindOf y) rel phrase with
  | none => rw [hf] at h; cases h
  | some q =>
    obtain ⟨i, d⟩ := q
    rw [hf] at h
    simp only at h
    have hin : (Pyx.Meta.orient d x y).2 ∈ (s.links i).src (Pyx.Meta.orient d x y).1 := by
      apply Classical.byContradiction
      intro hn
      have := (Pyx.Meta.unrelateOn_reject_iff (A.inv i).1).2 hn
      rw [this] at h; cases h
    have hl := A.liveOnly i _ _ hin
    cases d with
    | fwd => exact ⟨hl.1, hl.2⟩
    | rev => exact ⟨hl.2, hl.1⟩

/-- **(c)** `unrelate` of created instances: accepted by the mechanism ⇒ accepted by Spec and the results correspond
    (the pair leaves both partners' lists, the order of the others is kept); rejected (UnrelateException / UnknownLink)
    ⇒ rejected by Spec, neither state changes.  Guard: the two handles denote created instances. -/
theorem unrelate_refines (hk : Function.Injective kname) (kinds : List Nat) (sch : MSchema)
    (R : Refines kname ι s st) (A : Pyx.Meta.AllInv sch s) {x y : Nat}
    (hx : x < s.count) (hy : y < s.count) (rel phrase : String) :
    ((Pyx.Meta.unrelate sch s x y rel phrase).2 = .ok →
      ∃ st', unrelate (ctxOf kname kinds sch) (ι x) (ι y) rel phrase st = .ok st' ∧
        Refines kname ι (Pyx.Meta.unrelate sch s x y rel phrase).1 st') ∧
    ((Pyx.Meta.unrelate sch s x y rel phrase).2 ≠ .ok →
      (Pyx.Meta.unrelate sch s x y rel phrase).1 = s ∧
        ∃ e, unrelate (ctxOf kname kinds sch) (ι x) (ι y) rel phrase st = .error e) := by
  by_cases hlive : Pyx.Meta.live s x ∧ Pyx.Meta.live s y
  · have lx := (live_iff R A.pool hx).2 hlive.1
    have ly := (live_iff R A.pool hy).2 hlive.2
    have hfl := findLink_corr hk kinds sch rel phrase (ι x) (ι y) (s.kindOf x) (s.kindOf y) (R.cls x hx) (R.cls y hy)
    rw [unrelate_eq_branch, lx, ly]
    simp only [Bool.and_self, if_true]
    rw [hfl]
    unfold Pyx.Meta.unrelate
    cases hf : Pyx.Meta.findLink sch (s.kindOf x) (s.kindOf y) rel phrase with
    | none =>
      simp only
      refine ⟨fun h => (by cases h), fun _ => ⟨trivial, Err.mk ("unknown link " ++ rel), rfl⟩⟩
    | some q =>
      obtain ⟨i, d⟩ := q
      cases d with
      | fwd => exact unrelate_core R A rel i hx hy
      | rev => exact unrelate_core R A rel i hy hx
  · have hnok : (Pyx.Meta.unrelate sch s x y rel phrase).2 ≠ .ok := fun h => hlive (unrelate_ok_live A h)
    refine ⟨fun h => absurd h hnok, fun _ => ⟨Pyx.Meta.unrelate_reject_atomic A.inv hnok, ?_⟩⟩
    rw [unrelate_eq_branch]
    have : (st.isLive (ι x) && st.isLive (ι y)) = false := by
      cases h1 : st.isLive (ι x)
      · rfl
      · cases h2 : st.isLive (ι y)
        · rfl
        · exact absurd ⟨(live_iff R A.pool hx).1 h1, (live_iff R A.pool hy).1 h2⟩ hlive
    rw [this]
    exact ⟨_, rfl⟩

/-! ### (d) delete: what exactly the mechanism's delete loop leaves behind -/

/-- a duplicate-free list has exactly one sublist with a given membership -/
theorem sublist_eq_filter {l' l : List Nat} (p : Nat → Bool) (hs : l'.Sublist l) (hn : l.Nodup)
    (hm : ∀ w, w ∈ l' ↔ w ∈ l ∧ p w = true) : l' = l.filter p := by
  induction hs with
  | slnil => rfl
  | @cons l1 l2 a hsub ih =>
    have hn' := List.nodup_cons.1 hn
    have hpa : p a = false := by
      cases hpa : p a
      · rfl
      · have : a ∈ l1 := (hm a).2 ⟨List.mem_cons_self, hpa⟩
        exact absurd (hsub.subset this) hn'.1
    rw [List.filter_cons, hpa]
    simp only [Bool.false_eq_true, if_false]
    apply ih hn'.2
    intro w
    rw [hm w]
    constructor
    · rintro ⟨hw, hpw⟩
      rcases List.mem_cons.1 hw with e | e
      · rw [e, hpa] at hpw; cases hpw
      · exact ⟨e, hpw⟩
    · rintro ⟨hw, hpw⟩; exact ⟨List.mem_cons_of_mem _ hw, hpw⟩
  | @cons_cons l1 l2 a hsub ih =>
    have hn' := List.nodup_cons.1 hn
    have hpa : p a = true := ((hm a).1 List.mem_cons_self).2
    rw [List.filter_cons, hpa]
    simp only [if_true]
    congr 1
    apply ih hn'.2
    intro w
    constructor
    · intro hw
      exact ⟨hsub.subset hw, ((hm w).1 (List.mem_cons_of_mem _ hw)).2⟩
    · rintro ⟨hw, hpw⟩
      have := (hm w).2 ⟨List.mem_cons_of_mem _ hw, hpw⟩
      rcases List.mem_cons.1 this with e | e
      · rw [e] at hw; exact absurd hw hn'.1
      · exact e

/-- `s'` arises from `s` by erasing link entries only, and every entry between instances other than `x` is kept -/
def Shrink (x : Nat) (s s' : MState) : Prop := ∀ j z,
  ((s'.links j).src z).Sublist ((s.links j).src z) ∧ ((s'.links j).tgt z).Sublist ((s.links j).tgt z) ∧
  (∀ w, z ≠ x → w ≠ x → (w ∈ (s.links j).src z → w ∈ (s'.links j).src z) ∧
                          (w ∈ (s.links j).tgt z → w ∈ (s'.links j).tgt z))

theorem shrink_refl (x : Nat) (s : MState) : Shrink x s s :=
  fun _ _ => ⟨List.Sublist.refl _, List.Sublist.refl _, fun _ _ _ => ⟨id, id⟩⟩

theorem shrink_trans {x : Nat} {a b c : MState} (h1 : Shrink x a b) (h2 : Shrink x b c) : Shrink x a c :=
  fun j z => ⟨(h2 j z).1.trans (h1 j z).1, (h2 j z).2.1.trans (h1 j z).2.1,
    fun w hz hw => ⟨fun h => ((h2 j z).2.2 w hz hw).1 (((h1 j z).2.2 w hz hw).1 h),
                    fun h => ((h2 j z).2.2 w hz hw).2 (((h1 j z).2.2 w hz hw).2 h)⟩⟩

/-- erasing `b` from the entry of `a` -/
theorem erase_entry_shrink (m : Nat → List Nat) (a b : Nat) (z : Nat) :
    (Pyx.Meta.upd m a ((m a).erase b) z).Sublist (m z) ∧
    (∀ w, (z ≠ a ∨ w ≠ b) → w ∈ m z → w ∈ Pyx.Meta.upd m a ((m a).erase b) z) := by
  unfold Pyx.Meta.upd
  by_cases hz : z = a
  · subst hz
    rw [if_pos rfl]
    refine ⟨List.erase_sublist, fun w h hw => ?_⟩
    rcases h with h | h
    · exact absurd rfl h
    · exact (List.mem_erase_of_ne h).2 hw
  · rw [if_neg hz]
    exact ⟨List.Sublist.refl _, fun _ _ hw => hw⟩

theorem unrelateOn_shrink (l : Pyx.Meta.ALinks) (a b x : Nat) (hx : a = x ∨ b = x) (z : Nat) :
    (((Pyx.Meta.unrelateOn l a b).1).src z).Sublist (l.src z) ∧ (((Pyx.Meta.unrelateOn l a b).1).tgt z).Sublist (l.tgt z) ∧
    (∀ w, z ≠ x → w ≠ x → (w ∈ l.src z → w ∈ ((Pyx.Meta.unrelateOn l a b).1).src z) ∧
                            (w ∈ l.tgt z → w ∈ ((Pyx.Meta.unrelateOn l a b).1).tgt z)) := by
  have es := erase_entry_shrink l.src a b z
  have et := erase_entry_shrink l.tgt b a z
  have cs : ∀ w, z ≠ x → w ≠ x → (z ≠ a ∨ w ≠ b) := by
    intro w hz hw
    rcases hx with e | e
    · left; rw [e]; exact hz
    · right; rw [e]; exact hw
  have ct : ∀ w, z ≠ x → w ≠ x → (z ≠ b ∨ w ≠ a) := by
    intro w hz hw
    rcases hx with e | e
    · right; rw [e]; exact hw
    · left; rw [e]; exact hz
  unfold Pyx.Meta.unrelateOn Pyx.Meta.disconnect
  by_cases h1 : b ∈ l.src a
  · by_cases h2 : a ∈ l.tgt b
    · simp only [h1, h2, if_true]
      exact ⟨es.1, et.1, fun w hz hw => ⟨es.2 w (cs w hz hw), et.2 w (ct w hz hw)⟩⟩
    · simp only [h1, h2, if_true, if_false]
      exact ⟨es.1, List.Sublist.refl _, fun w hz hw => ⟨es.2 w (cs w hz hw), id⟩⟩
  · simp only [h1, if_false]
    exact ⟨List.Sublist.refl _, List.Sublist.refl _, fun _ _ _ => ⟨id, id⟩⟩

theorem unrelate_shrink (sch : MSchema) (s : MState) (x y : Nat) (r p : String) :
    Shrink x s (Pyx.Meta.unrelate sch s x y r p).1 := by
  unfold Pyx.Meta.unrelate
  cases hf : Pyx.Meta.findLink sch (s.kindOf x) (s.kindOf y) r p with
  | none => exact shrink_refl x s
  | some q =>
    obtain ⟨i, d⟩ := q
    intro j z
    show ((Pyx.Meta.upd s.links i _ j).src z).Sublist _ ∧ ((Pyx.Meta.upd s.links i _ j).tgt z).Sublist _ ∧ _
    by_cases hj : j = i
    · subst hj
      have hor : (Pyx.Meta.orient d x y).1 = x ∨ (Pyx.Meta.orient d x y).2 = x := by
        cases d
        · left; rfl
        · right; rfl
      have := unrelateOn_shrink (s.links j) (Pyx.Meta.orient d x y).1 (Pyx.Meta.orient d x y).2 x hor z
      simp only [Pyx.Meta.upd_same]
      exact this
    · simp only [Pyx.Meta.upd_other _ _ hj]
      exact ⟨List.Sublist.refl _, List.Sublist.refl _, fun _ _ _ => ⟨id, id⟩⟩

theorem unrelateAll_shrink (sch : MSchema) (x : Nat) (r p : String) : ∀ (ys : List Nat) (s : MState),
    Shrink x s (Pyx.Meta.unrelateAll sch x r p ys s).1
  | [], s => shrink_refl x s
  | y :: ys, s => by
    rw [Pyx.Meta.unrelateAll]
    by_cases hc : (Pyx.Meta.unrelate sch s x y r p).2 = .ok
    · simp only [hc, ↓reduceIte]
      exact shrink_trans (unrelate_shrink sch s x y r p) (unrelateAll_shrink sch x r p ys _)
    · simp only [hc, ↓reduceIte]
      exact unrelate_shrink sch s x y r p

theorem deleteLinks_shrink (sch : MSchema) (x : Nat) : ∀ (ls : List (Nat × Bool × String)) (s : MState),
    Shrink x s (Pyx.Meta.deleteLinks sch x ls s).1
  | [], s => shrink_refl x s
  | (i, isSrc, ph) :: rest, s => by
    rw [Pyx.Meta.deleteLinks]
    by_cases hc : (Pyx.Meta.unrelateAll sch x (Pyx.Meta.specAt sch i).rel ph
        (if isSrc then (s.links i).src x else (s.links i).tgt x) s).2 = .ok
    · simp only [hc, ↓reduceIte]
      exact shrink_trans (unrelateAll_shrink sch x _ ph _ s) (deleteLinks_shrink sch x rest _)
    · simp only [hc, ↓reduceIte]
      exact unrelateAll_shrink sch x _ ph _ s

/-- the state an accepted delete produces: the instance leaves its pool, and every directed link set loses exactly the
    deleted instance (its own sets become empty), the order of the remaining partners being kept -/
theorem delete_char {sch : MSchema} (hok : Pyx.Meta.SchemaOk sch) (A : Pyx.Meta.AllInv sch s) {x : Nat}
    (hx : Pyx.Meta.live s x) :
    (Pyx.Meta.delete sch s x).2 = .ok ∧
    (Pyx.Meta.delete sch s x).1.kindOf = s.kindOf ∧ (Pyx.Meta.delete sch s x).1.count = s.count ∧
    (Pyx.Meta.delete sch s x).1.pool = Pyx.Meta.upd s.pool (s.kindOf x) ((s.pool (s.kindOf x)).erase x) ∧
    (∀ j z, ((Pyx.Meta.delete sch s x).1.links j).src z = ((s.links j).src z).filter (fun w => decide (w ≠ x ∧ z ≠ x))) ∧
    (∀ j z, ((Pyx.Meta.delete sch s x).1.links j).tgt z = ((s.links j).tgt z).filter (fun w => decide (w ≠ x ∧ z ≠ x))) := by
  have hdl := Pyx.Meta.delete_liveOnly hok A.inv A.typed A.liveOnly A.pool hx
  have hdead := Pyx.Meta.delete_makes_dead (sch := sch) A.pool hx
  have hinv' := Pyx.Meta.delete_inv (sch := sch) A.inv x
  have hc : x ∈ s.pool (s.kindOf x) ∧ x < s.count := ⟨hx.2, hx.1⟩
  have hdef : Pyx.Meta.delete sch s x = Pyx.Meta.deleteLinks sch x (Pyx.Meta.linksOf sch (s.kindOf x))
      { s with pool := Pyx.Meta.upd s.pool (s.kindOf x) ((s.pool (s.kindOf x)).erase x) } := by
    unfold Pyx.Meta.delete
    simp only [hc, and_self, ↓reduceIte]
  have hf := Pyx.Meta.deleteLinks_frame sch x (Pyx.Meta.linksOf sch (s.kindOf x))
    { s with pool := Pyx.Meta.upd s.pool (s.kindOf x) ((s.pool (s.kindOf x)).erase x) }
  have hsh : Shrink x s (Pyx.Meta.delete sch s x).1 := by
    rw [hdef]
    exact deleteLinks_shrink sch x _ _
  refine ⟨hdl.1, by rw [hdef]; exact hf.2.1, by rw [hdef]; exact hf.2.2.1, by rw [hdef]; exact hf.1, ?_, ?_⟩
  · intro j z
    apply sublist_eq_filter _ (hsh j z).1 ((A.inv j).2.1.1 z)
    intro w
    simp only [decide_eq_true_eq]
    constructor
    · intro hw
      have hl := hdl.2 j z w hw
      refine ⟨(hsh j z).1.subset hw, ?_, ?_⟩
      · intro e; rw [e] at hl; exact hdead hl.2
      · intro e; rw [e] at hl; exact hdead hl.1
    · rintro ⟨hw, hwx, hzx⟩
      exact ((hsh j z).2.2 w hzx hwx).1 hw
  · intro j z
    apply sublist_eq_filter _ (hsh j z).2.1 ((A.inv j).2.1.2 z)
    intro w
    simp only [decide_eq_true_eq]
    constructor
    · intro hw
      have hw' : z ∈ ((Pyx.Meta.delete sch s x).1.links j).src w := ((hinv' j).1 w z).2 hw
      have hl := hdl.2 j w z hw'
      refine ⟨(hsh j z).2.1.subset hw, ?_, ?_⟩
      · intro e; rw [e] at hl; exact hdead hl.1
      · intro e; rw [e] at hl; exact hdead hl.2
    · rintro ⟨hw, hwx, hzx⟩
      exact ((hsh j z).2.2 w hzx hwx).2 hw

theorem map_erase_inj' {β : Type} [DecidableEq β] {f : Nat → β} (a : Nat) : ∀ (l : List Nat),
    (∀ z ∈ l, f z = f a → z = a) → (l.map f).erase (f a) = (l.erase a).map f
  | [], _ => rfl
  | z :: rest, h => by
    by_cases hz : z = a
    · subst hz; simp
    · have hf : f z ≠ f a := fun e => hz (h z List.mem_cons_self e)
      rw [List.map_cons, List.erase_cons_tail (by simpa using hf), List.erase_cons_tail (by simpa using hz), List.map_cons,
        map_erase_inj' a rest (fun w hw => h w (List.mem_cons_of_mem _ hw))]

theorem srcProj_filter_del (I t : Inst) : ∀ (ps : List (Inst × Inst)),
    srcProj (ps.filter (fun p => decide (p.1 ≠ I ∧ p.2 ≠ I))) t =
      if t = I then [] else (srcProj ps t).filter (fun w => decide (w ≠ I))
  | [] => by simp [srcProj]
  | p :: rest => by
    have ih := srcProj_filter_del I t rest
    rw [List.filter_cons]
    by_cases hc : p.1 ≠ I ∧ p.2 ≠ I
    · rw [if_pos (by simpa using hc), srcProj_cons, srcProj_cons, ih]
      by_cases ht : t = I
      · rw [if_pos ht, if_pos ht, if_neg (fun e => hc.2 (e.trans ht))]; rfl
      · rw [if_neg ht, if_neg ht, List.filter_append]
        by_cases hp : p.2 = t
        · rw [if_pos hp]; simp [hc.1]
        · rw [if_neg hp]; simp
    · rw [if_neg (by simpa using hc), ih, srcProj_cons]
      by_cases ht : t = I
      · rw [if_pos ht, if_pos ht]
      · rw [if_neg ht, if_neg ht, List.filter_append]
        by_cases hp : p.2 = t
        · rw [if_pos hp]
          have : p.1 = I := by
            apply Classical.byContradiction
            intro h1; exact hc ⟨h1, fun e => ht (hp.symm.trans e)⟩
          simp [this]
        · rw [if_neg hp]; simp

theorem tgtProj_filter_del (I t : Inst) : ∀ (ps : List (Inst × Inst)),
    tgtProj (ps.filter (fun p => decide (p.1 ≠ I ∧ p.2 ≠ I))) t =
      if t = I then [] else (tgtProj ps t).filter (fun w => decide (w ≠ I))
  | [] => by simp [tgtProj]
  | p :: rest => by
    have ih := tgtProj_filter_del I t rest
    rw [List.filter_cons]
    by_cases hc : p.1 ≠ I ∧ p.2 ≠ I
    · rw [if_pos (by simpa using hc), tgtProj_cons, tgtProj_cons, ih]
      by_cases ht : t = I
      · rw [if_pos ht, if_pos ht, if_neg (fun e => hc.1 (e.trans ht))]; rfl
      · rw [if_neg ht, if_neg ht, List.filter_append]
        by_cases hp : p.1 = t
        · rw [if_pos hp]; simp [hc.2]
        · rw [if_neg hp]; simp
    · rw [if_neg (by simpa using hc), ih, tgtProj_cons]
      by_cases ht : t = I
      · rw [if_pos ht, if_pos ht]
      · rw [if_neg ht, if_neg ht, List.filter_append]
        by_cases hp : p.1 = t
        · rw [if_pos hp]
          have : p.2 = I := by
            apply Classical.byContradiction
            intro h1; exact hc ⟨fun e => ht (hp.symm.trans e), h1⟩
          simp [this]
        · rw [if_neg hp]; simp

/-- **(d)** `delete` of a created instance: a live instance is deleted on both sides and the results correspond — it
    leaves its pool, every pair it takes part in disappears (the mechanism's loop of unrelates succeeds), every other
    partner list keeps its order; a dead instance is rejected on both sides (DeleteException), nothing changes. -/
theorem delete_refines (hk : Function.Injective kname) {sch : MSchema} (hok : Pyx.Meta.SchemaOk sch)
    (R : Refines kname ι s st) (A : Pyx.Meta.AllInv sch s) {x : Nat} (hx : x < s.count) :
    ((Pyx.Meta.delete sch s x).2 = .ok →
      ∃ st', deleteInst (ι x) st = .ok st' ∧ Refines kname ι (Pyx.Meta.delete sch s x).1 st') ∧
    ((Pyx.Meta.delete sch s x).2 ≠ .ok →
      (Pyx.Meta.delete sch s x).1 = s ∧ ∃ e, deleteInst (ι x) st = .error e) := by
  by_cases hlive : Pyx.Meta.live s x
  · obtain ⟨hdok, hkind, hcount, hpool, hsrc, htgt⟩ := delete_char hok A hlive
    have lx := (live_iff R A.pool hx).2 hlive
    refine ⟨fun _ => ?_, fun h => absurd hdok h⟩
    refine ⟨{ st with live := upd st.live (ι x).cls ((st.live (ι x).cls).erase (ι x).idx),
                       links := fun k => (st.links k).filter (fun p => decide (p.1 ≠ ι x ∧ p.2 ≠ ι x)) }, ?_, ?_⟩
    · unfold deleteInst; rw [lx]; rfl
    · refine ⟨?_, ?_, ?_, ?_, ?_, ?_, ?_, ?_⟩
      · intro z hz; rw [hcount] at hz; rw [hkind]; exact R.cls z hz
      · intro z hz; rw [hcount] at hz; exact R.below z hz
      · intro a b ha hb; rw [hcount] at ha hb; exact R.inj a b ha hb
      · intro k'
        show upd st.live (ι x).cls ((st.live (ι x).cls).erase (ι x).idx) (kname k') = _
        rw [hpool]
        unfold upd Pyx.Meta.upd
        rw [R.cls x hx]
        by_cases hkk : k' = s.kindOf x
        · subst hkk
          rw [if_pos rfl, if_pos rfl, R.pool]
          apply map_erase_inj' (f := fun z => (ι z).idx) x
          intro z hz e
          have hz' := (A.pool (s.kindOf x)).2 z hz
          apply R.inj z x hz'.1 hx
          have h1 := R.cls z hz'.1
          have h2 := R.cls x hx
          rw [hz'.2] at h1
          cases hzv : ι z; cases hxv : ι x
          rw [hzv] at h1 e; rw [hxv] at h2 e
          simp only at h1 h2 e
          rw [h1, h2, e]
        · rw [if_neg (fun e => hkk (hk e)), if_neg hkk]; exact R.pool k'
      · intro j p
        show p ∈ (st.links j).filter _ ↔ _
        rw [List.mem_filter, R.pairs]
        simp only [decide_eq_true_eq]
        constructor
        · rintro ⟨⟨x', y', hp, hm⟩, h1, h2⟩
          refine ⟨x', y', hp, ?_⟩
          rw [hsrc, List.mem_filter]
          simp only [decide_eq_true_eq]
          rw [hp] at h1 h2
          exact ⟨hm, fun e => h1 (by rw [e]), fun e => h2 (by rw [e])⟩
        · rintro ⟨x', y', hp, hm⟩
          rw [hsrc, List.mem_filter] at hm
          simp only [decide_eq_true_eq] at hm
          have hlt := (links_lt A).1 hm.1
          refine ⟨⟨x', y', hp, hm.1⟩, ?_, ?_⟩
          · rw [hp]; exact fun e => hm.2.1 (R.inj y' x hlt.2 hx e)
          · rw [hp]; exact fun e => hm.2.2 (R.inj x' x hlt.1 hx e)
      · intro j
        exact List.Nodup.sublist List.filter_sublist (R.nodup j)
      · intro j z hz
        rw [hcount] at hz
        show srcProj ((st.links j).filter _) (ι z) = _
        rw [srcProj_filter_del, hsrc, R.srcOrd j z hz]
        by_cases hzx : z = x
        · subst hzx
          rw [if_pos rfl]
          have : ((s.links j).src z).filter (fun w => decide (w ≠ z ∧ z ≠ z)) = [] := by
            apply List.filter_eq_nil_iff.2
            intro w _; simp
          rw [this]; rfl
        · rw [if_neg (fun e => hzx (R.inj z x hz hx e)), List.filter_map]
          congr 1
          apply List.filter_congr
          intro w hw
          have hwl := ((links_lt A).1 hw).2
          have : ι w ≠ ι x ↔ w ≠ x := ⟨fun h e => h (by rw [e]), fun h e => h (R.inj w x hwl hx e)⟩
          by_cases hwx : w = x
          · simp [hwx]
          · simp [hwx, hzx, this.2 hwx]
      · intro j z hz
        rw [hcount] at hz
        show tgtProj ((st.links j).filter _) (ι z) = _
        rw [tgtProj_filter_del, htgt, R.tgtOrd j z hz]
        by_cases hzx : z = x
        · subst hzx
          rw [if_pos rfl]
          have : ((s.links j).tgt z).filter (fun w => decide (w ≠ z ∧ z ≠ z)) = [] := by
            apply List.filter_eq_nil_iff.2
            intro w _; simp
          rw [this]; rfl
        · rw [if_neg (fun e => hzx (R.inj z x hz hx e)), List.filter_map]
          congr 1
          apply List.filter_congr
          intro w hw
          have hwl := ((links_lt A).2 hw).1
          have : ι w ≠ ι x ↔ w ≠ x := ⟨fun h e => h (by rw [e]), fun h e => h (R.inj w x hwl hx e)⟩
          by_cases hwx : w = x
          · simp [hwx]
          · simp [hwx, hzx, this.2 hwx]
  · rw [Pyx.Meta.delete_dead_rejected sch s x hlive]
    refine ⟨fun h => (by cases h), fun _ => ⟨rfl, ?_⟩⟩
    have : st.isLive (ι x) = false := by
      cases h1 : st.isLive (ι x)
      · rfl
      · exact absurd ((live_iff R A.pool hx).1 h1) hlive
    unfold deleteInst
    rw [this]
    exact ⟨_, rfl⟩

/-! ### (e) one direct navigation step -/

def toRef (kname : Nat → String) (e : Pyx.Query.LinkEntry) : LinkRef := ⟨e.assoc, e.isSrc, kname e.toKind, e.rel, e.phrase⟩

theorem linksOfFrom_corr (hk : Function.Injective kname) (k : Nat) : ∀ (sch : MSchema) (n : Nat),
    linksOfFrom (kname k) n (sch.map (toAssoc kname)) = (Pyx.Query.linkEntriesFrom k n sch).map (toRef kname)
  | [], _ => rfl
  | a :: rest, n => by
    simp only [List.map_cons, linksOfFrom, Pyx.Query.linkEntriesFrom, List.map_append]
    rw [linksOfFrom_corr hk k rest (n + 1)]
    have e1 : ((toAssoc kname a).tgt = kname k) ↔ (a.tgtKind = k) := by simp only [toAssoc, hk.eq_iff]
    have e2 : ((toAssoc kname a).src = kname k) ↔ (a.srcKind = k) := by simp only [toAssoc, hk.eq_iff]
    by_cases h1 : a.tgtKind = k <;> by_cases h2 : a.srcKind = k <;>
      simp [h1, h2, hk.eq_iff, toRef, toAssoc]

theorem follow_corr {sch : MSchema} (R : Refines kname ι s st) (e : Pyx.Query.LinkEntry) {x : Nat} (hx : x < s.count) :
    follow st (toRef kname e) (ι x) = (Pyx.Query.followEntry s e x).map ι := by
  unfold follow Pyx.Query.followEntry toRef
  by_cases h : e.isSrc = true
  · simp only [h, if_true]; exact R.srcOrd e.assoc x hx
  · simp only [h, if_false]; exact R.tgtOrd e.assoc x hx

/-- **(e)** a navigation step over a direct link (`Query.navigate`, builder-G's `navigate_direct`) returns exactly the
    Spec image of the instance under the association's pair list, in the same order.
    Guard: the link keys of the instance's class are distinct (`KeysDistinct`: no dict overwrite). -/
theorem navigate_refines (hk : Function.Injective kname) (kinds : List Nat) (sch : MSchema)
    (R : Refines kname ι s st) {x : Nat} (hx : x < s.count)
    (hd : Pyx.Query.KeysDistinct (Pyx.Query.linkEntriesFrom (s.kindOf x) 0 sch))
    (toKind : Nat) (rel phrase : String) (e : Pyx.Query.LinkEntry)
    (h : Pyx.Query.lookupKey (Pyx.Query.linkDict sch (s.kindOf x)) toKind rel phrase = some e) :
    Pyx.Query.navigate sch s x toKind rel phrase = some (Pyx.Query.followEntry s e x) ∧
    navStep (ctxOf kname kinds sch) st (ι x) ⟨kname toKind, rel, phrase⟩ = .ok ((Pyx.Query.followEntry s e x).map ι) := by
  refine ⟨Pyx.Query.navigate_direct' sch s x toKind rel phrase e h, ?_⟩
  rw [Pyx.Query.linkDict_distinct sch _ hd] at h
  unfold navStep linksOf ctxOf
  simp only
  rw [R.cls x hx, linksOfFrom_corr hk (s.kindOf x) sch 0, List.find?_map]
  have hpred : ((fun l : LinkRef => decide (l.to = kname toKind ∧ l.rel = rel ∧ l.phrase = phrase)) ∘ toRef kname) =
      (fun e : Pyx.Query.LinkEntry => e.toKind == toKind && e.rel == rel && e.phrase == phrase) := by
    funext e'
    simp only [Function.comp, toRef, hk.eq_iff]
    by_cases h1 : e'.toKind = toKind <;> by_cases h2 : e'.rel = rel <;> by_cases h3 : e'.phrase = phrase <;>
      simp [h1, h2, h3]
  rw [hpred]
  unfold Pyx.Query.lookupKey at h
  rw [h]
  simp only [Option.map_some]
  rw [follow_corr (sch := sch) R e hx]

/-! ### (f) histories -/

/-- the domain of the refinement: relate, unrelate and delete are applied to handles of created instances (live or
    deleted: a relate with a deleted instance is rejected on both sides), new to a class the Spec context knows -/
def OpOk' (kinds : List Nat) (s : MState) : Pyx.Meta.Op → Prop
  | .new k _ => k ∈ kinds
  | .relate x y _ _ => x < s.count ∧ y < s.count
  | .unrelate x y _ _ => x < s.count ∧ y < s.count
  | .delete x => x < s.count

def Dom' (kinds : List Nat) (sch : MSchema) : MState → List Pyx.Meta.Op → Prop
  | _, [] => True
  | s, op :: ops => OpOk' kinds s op ∧ Dom' kinds sch (Pyx.Meta.step sch s op).1 ops


/-- the Spec operation that matches a mechanism operation, on the named instances; a rejected operation leaves the
    Spec state (and the naming) as it is -/
def specStep (kname : Nat → String) (C : Ctx) (ι : Nat → Inst) (s : MState) (st : State) :
    Pyx.Meta.Op → (Nat → Inst) × State
  | .new k _ =>
    match newInst C (kname k) st with
    | .ok (i, st') => (extend ι s.count i, st')
    | .error _ => (ι, st)
  | .relate x y r p =>
    match relate C (ι x) (ι y) r p st with
    | .ok st' => (ι, st')
    | .error _ => (ι, st)
  | .unrelate x y r p =>
    match unrelate C (ι x) (ι y) r p st with
    | .ok st' => (ι, st')
    | .error _ => (ι, st)
  | .delete x =>
    match deleteInst (ι x) st with
    | .ok st' => (ι, st')
    | .error _ => (ι, st)

/-- run a history on both sides (the mechanism state is carried along only to name the instances) -/
def specRun (kname : Nat → String) (C : Ctx) (sch : MSchema) :
    List Pyx.Meta.Op → MState → (Nat → Inst) → State → (Nat → Inst) × State
  | [], _, ι, st => (ι, st)
  | op :: ops, s, ι, st =>
    specRun kname C sch ops (Pyx.Meta.step sch s op).1 (specStep kname C ι s st op).1 (specStep kname C ι s st op).2

theorem step_refines (hk : Function.Injective kname) (kinds : List Nat) {sch : MSchema} (hok : Pyx.Meta.SchemaOk sch)
    (R : Refines kname ι s st) (A : Pyx.Meta.AllInv sch s) (op : Pyx.Meta.Op) (hop : OpOk' kinds s op) :
    Refines kname (specStep kname (ctxOf kname kinds sch) ι s st op).1 (Pyx.Meta.step sch s op).1
      (specStep kname (ctxOf kname kinds sch) ι s st op).2 := by
  cases op with
  | new k hasId =>
    obtain ⟨st', h1, h2⟩ := new_refines hk kinds sch R A k hop hasId
    simp only [specStep, h1, Pyx.Meta.step]
    exact h2
  | relate x y r p =>
    have h := relate_refines' hk kinds sch R A hop.1 hop.2 r p
    simp only [specStep, Pyx.Meta.step]
    by_cases hc : (Pyx.Meta.relate sch s x y r p).2 = .ok
    · obtain ⟨st', h1, h2⟩ := h.1 hc
      rw [h1]; exact h2
    · obtain ⟨h1, e, h2⟩ := h.2 hc
      rw [h2, h1]; exact R
  | unrelate x y r p =>
    have h := unrelate_refines hk kinds sch R A hop.1 hop.2 r p
    simp only [specStep, Pyx.Meta.step]
    by_cases hc : (Pyx.Meta.unrelate sch s x y r p).2 = .ok
    · obtain ⟨st', h1, h2⟩ := h.1 hc
      rw [h1]; exact h2
    · obtain ⟨h1, e, h2⟩ := h.2 hc
      rw [h2, h1]; exact R
  | delete x =>
    have h := delete_refines hk hok R A hop
    simp only [specStep, Pyx.Meta.step]
    by_cases hc : (Pyx.Meta.delete sch s x).2 = .ok
    · obtain ⟨st', h1, h2⟩ := h.1 hc
      rw [h1]; exact h2
    · obtain ⟨h1, e, h2⟩ := h.2 hc
      rw [h2, h1]; exact R

theorem run_refines_from (hk : Function.Injective kname) (kinds : List Nat) {sch : MSchema} (hok : Pyx.Meta.SchemaOk sch) :
    ∀ (ops : List Pyx.Meta.Op) (s : MState) (ι : Nat → Inst) (st : State),
      Refines kname ι s st → Pyx.Meta.AllInv sch s → Dom' kinds sch s ops →
      Refines kname (specRun kname (ctxOf kname kinds sch) sch ops s ι st).1
        (ops.foldl (fun s op => (Pyx.Meta.step sch s op).1) s)
        (specRun kname (ctxOf kname kinds sch) sch ops s ι st).2
  | [], _, _, _, R, _, _ => R
  | op :: ops, s, ι, st, R, A, hd => by
    simp only [specRun, List.foldl_cons]
    exact run_refines_from hk kinds hok ops _ _ _ (step_refines hk kinds hok R A op hd.1)
      (Pyx.Meta.step_allInv' hok A op) hd.2

/-- **(f)** every history of new / relate / unrelate / delete in the domain, run by the mechanism (`Meta.run`) and —
    operation by operation, on the named instances — by Spec, ends in corresponding states -/
theorem store_refines (hk : Function.Injective kname) (kinds : List Nat) {sch : MSchema} (hok : Pyx.Meta.SchemaOk sch)
    (ι0 : Nat → Inst) (ops : List Pyx.Meta.Op) (hd : Dom' kinds sch Pyx.Meta.init ops) :
    Refines kname (specRun kname (ctxOf kname kinds sch) sch ops Pyx.Meta.init ι0 initState).1
      (Pyx.Meta.run sch ops)
      (specRun kname (ctxOf kname kinds sch) sch ops Pyx.Meta.init ι0 initState).2 :=
  run_refines_from hk kinds hok ops _ _ _ (refines_init kname ι0) (Pyx.Meta.allInv_init sch) hd

end

end Pyx.Interp
