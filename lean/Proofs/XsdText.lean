import Proofs.XsdScript

/-!
  C20 — the text of the written file: the escaping of attribute values is sound (no value can leave its quotes,
  every value reads back to the model name), whatever characters the names contain.
-/

namespace Pyx.Extract

theorem escChar_cases (c : Char) :
    (c = '&' ∧ escChar c = "&amp;".toList) ∨ (c = '<' ∧ escChar c = "&lt;".toList) ∨
    (c = '>' ∧ escChar c = "&gt;".toList) ∨ (c = '\x22' ∧ escChar c = "&quot;".toList) ∨
    (c ≠ '&' ∧ c ≠ '<' ∧ c ≠ '>' ∧ c ≠ '\x22' ∧ escChar c = [c]) := by
  unfold escChar
  by_cases h1 : c = '&'
  · left; subst h1; exact ⟨rfl, by decide⟩
  · by_cases h2 : c = '<'
    · right; left; subst h2; exact ⟨rfl, by decide⟩
    · by_cases h3 : c = '>'
      · right; right; left; subst h3; exact ⟨rfl, by decide⟩
      · by_cases h4 : c = '\x22'
        · right; right; right; left; subst h4; exact ⟨rfl, by decide⟩
        · right; right; right; right
          exact ⟨h1, h2, h3, h4, by simp [h1, h2, h3, h4]⟩

/-- an escaped value contains no `<`, `>` or `"`: it cannot end its own quotes or open a tag -/
theorem escAttr_no_delims (s : List Char) : ∀ c ∈ escAttr s, c ≠ '<' ∧ c ≠ '>' ∧ c ≠ '\x22' := by
  intro c hc
  unfold escAttr at hc
  obtain ⟨x, _, hx⟩ := List.mem_flatMap.mp hc
  rcases escChar_cases x with ⟨_, h⟩ | ⟨_, h⟩ | ⟨_, h⟩ | ⟨_, h⟩ | ⟨_, h2, h3, h4, h⟩
  all_goals rw [h] at hx
  · have : c ∈ ['&', 'a', 'm', 'p', ';'] := hx
    simp only [List.mem_cons, List.not_mem_nil, or_false] at this
    rcases this with rfl | rfl | rfl | rfl | rfl <;> decide
  · have : c ∈ ['&', 'l', 't', ';'] := hx
    simp only [List.mem_cons, List.not_mem_nil, or_false] at this
    rcases this with rfl | rfl | rfl | rfl <;> decide
  · have : c ∈ ['&', 'g', 't', ';'] := hx
    simp only [List.mem_cons, List.not_mem_nil, or_false] at this
    rcases this with rfl | rfl | rfl | rfl <;> decide
  · have : c ∈ ['&', 'q', 'u', 'o', 't', ';'] := hx
    simp only [List.mem_cons, List.not_mem_nil, or_false] at this
    rcases this with rfl | rfl | rfl | rfl | rfl | rfl <;> decide
  · simp only [List.mem_singleton] at hx
    subst hx
    exact ⟨h2, h3, h4⟩

theorem entityAt_ne_amp (c : Char) (r : List Char) (h : c ≠ '&') : entityAt (c :: r) = none := by
  unfold entityAt
  split <;> first | rfl | (rename_i heq; simp only [List.cons.injEq] at heq; exact absurd heq.1 h)

theorem escChar_length_pos (c : Char) : 1 ≤ (escChar c).length := by
  rcases escChar_cases c with ⟨_, h⟩ | ⟨_, h⟩ | ⟨_, h⟩ | ⟨_, h⟩ | ⟨_, _, _, _, h⟩ <;> rw [h] <;> simp

theorem unescFuel_esc : ∀ (s : List Char) (n : Nat), (escAttr s).length ≤ n → unescFuel n (escAttr s) = s := by
  intro s
  induction s with
  | nil => intro n _; cases n <;> rfl
  | cons c t ih =>
    intro n hn
    have hcons : escAttr (c :: t) = escChar c ++ escAttr t := by simp [escAttr]
    rw [hcons] at hn ⊢
    rw [List.length_append] at hn
    have hpos := escChar_length_pos c
    cases n with
    | zero => omega
    | succ n =>
      rcases escChar_cases c with ⟨rfl, h⟩ | ⟨rfl, h⟩ | ⟨rfl, h⟩ | ⟨rfl, h⟩ | ⟨h1, _, _, _, h⟩
      · rw [h] at hn ⊢
        show unescFuel (n + 1) ('&' :: 'a' :: 'm' :: 'p' :: ';' :: escAttr t) = _
        simp only [unescFuel, entityAt]
        rw [ih n (by simp at hn; omega)]
      · rw [h] at hn ⊢
        show unescFuel (n + 1) ('&' :: 'l' :: 't' :: ';' :: escAttr t) = _
        simp only [unescFuel, entityAt]
        rw [ih n (by simp at hn; omega)]
      · rw [h] at hn ⊢
        show unescFuel (n + 1) ('&' :: 'g' :: 't' :: ';' :: escAttr t) = _
        simp only [unescFuel, entityAt]
        rw [ih n (by simp at hn; omega)]
      · rw [h] at hn ⊢
        show unescFuel (n + 1) ('&' :: 'q' :: 'u' :: 'o' :: 't' :: ';' :: escAttr t) = _
        simp only [unescFuel, entityAt]
        rw [ih n (by simp at hn; omega)]
      · rw [h] at hn ⊢
        show unescFuel (n + 1) (c :: escAttr t) = _
        simp only [unescFuel, entityAt_ne_amp c _ h1]
        rw [ih n (by simp at hn; omega)]

/-- every attribute value reads back to the model name: `& < > "`, entity-like names such as `&amp;`, `]]>`,
    non-ASCII letters … -/
theorem unesc_esc (s : List Char) : unescAttr (escAttr s) = s :=
  unescFuel_esc s _ (Nat.le_refl _)

/-! ### the attribute list of a start tag reads back -/

theorem takeWhile_ne_append {x : Char} (a r : List Char) (h : x ∉ a) :
    (a ++ x :: r).takeWhile (fun c => c != x) = a ∧ (a ++ x :: r).dropWhile (fun c => c != x) = x :: r := by
  induction a with
  | nil => simp
  | cons b t ih =>
    have hb : b ≠ x := fun e => h (by simp [e])
    have ht : x ∉ t := fun e => h (by simp [e])
    have : (b != x) = true := by simp [hb]
    simp only [List.cons_append, List.takeWhile_cons, List.dropWhile_cons, this, if_true]
    exact ⟨by rw [(ih ht).1], (ih ht).2⟩

theorem readAttrs_attrsText : ∀ (attrs : List (String × String)) (rest : List Char) (n : Nat),
    (∀ p ∈ attrs, '=' ∉ p.1.toList) → rest.head? ≠ some ' ' → attrs.length ≤ n →
    readAttrs n (attrsText attrs ++ rest) = some (attrs.map (fun p => (p.1.toList, p.2.toList)), rest) := by
  intro attrs
  induction attrs with
  | nil =>
    intro rest n _ hr _
    simp only [attrsText, List.flatMap_nil, List.nil_append, List.map_nil]
    cases n with
    | zero => rfl
    | succ n =>
      cases rest with
      | nil => rfl
      | cons c r =>
        have : c ≠ ' ' := fun e => hr (by simp [e])
        unfold readAttrs
        split
        · rename_i heq; simp at heq
        · rename_i heq
          simp only [List.cons.injEq] at heq
          exact absurd heq.1.symm (fun e => this e.symm)
        · rfl
  | cons p ps ih =>
    intro rest n hk hr hn
    cases n with
    | zero => simp at hn
    | succ n =>
      have hkey := hk p (by simp)
      have htext : attrsText (p :: ps) ++ rest =
          ' ' :: (p.1.toList ++ '=' :: ('\x22' :: (escAttr p.2.toList ++ '\x22' :: (attrsText ps ++ rest)))) := by
        simp [attrsText, attrText, List.append_assoc]
      rw [htext]
      have h1 := takeWhile_ne_append (x := '=') p.1.toList ('\x22' :: (escAttr p.2.toList ++ '\x22' :: (attrsText ps ++ rest))) hkey
      have hq : '\x22' ∉ escAttr p.2.toList := fun hm => (escAttr_no_delims _ _ hm).2.2 rfl
      have h2 := takeWhile_ne_append (x := '\x22') (escAttr p.2.toList) (attrsText ps ++ rest) hq
      simp only [readAttrs, h1.1, h1.2, h2.1, h2.2]
      rw [ih rest n (fun q hq => hk q (by simp [hq])) hr (by simp at hn; omega)]
      simp [unesc_esc]

end Pyx.Extract
