import PyxModel.Interp.Spec
import Proofs.InterpPres
import Proofs.InterpLaws
import Proofs.InterpScope

/-!
  Callable model elements (C15): parameters are bound by name, `self` is the receiver, the result is the
  walker's return register, derived attributes are recomputed on every read.
-/
set_option linter.unusedSectionVars false
namespace Pyx.Interp
open M

/-! ### association lists with duplicate-free keys -/

theorem lookup_some_of_mem {l : List (String × Val)} (hnd : (l.map Prod.fst).Nodup) {x : String} {v : Val}
    (h : (x, v) ∈ l) : l.lookup x = some v := by
  induction l with
  | nil => cases h
  | cons p rest ih =>
    obtain ⟨k, w⟩ := p
    simp only [List.map_cons, List.nodup_cons] at hnd
    rw [lookup_cons]
    rcases List.mem_cons.1 h with heq | hmem
    · simp only [Prod.mk.injEq] at heq
      rw [if_pos heq.1, heq.2]
    · have hne : x ≠ k := by
        intro hxk
        apply hnd.1
        rw [← hxk]
        exact List.mem_map.2 ⟨(x, v), hmem, rfl⟩
      rw [if_neg hne]
      exact ih hnd.2 hmem

theorem lookup_none_of_not_mem {l : List (String × Val)} {x : String} (h : x ∉ l.map Prod.fst) :
    l.lookup x = none := by
  induction l with
  | nil => rfl
  | cons p rest ih =>
    obtain ⟨k, w⟩ := p
    simp only [List.map_cons, List.mem_cons, not_or] at h
    rw [lookup_cons, if_neg h.1]
    exact ih h.2

theorem mem_of_lookup_some {l : List (String × Val)} {x : String} {v : Val} (h : l.lookup x = some v) : (x, v) ∈ l := by
  induction l with
  | nil => cases h
  | cons p rest ih =>
    obtain ⟨k, w⟩ := p
    rw [lookup_cons] at h
    by_cases hxk : x = k
    · rw [if_pos hxk] at h
      simp only [Option.some.injEq] at h
      rw [hxk, h]; exact List.mem_cons_self
    · rw [if_neg hxk] at h
      exact List.mem_cons_of_mem _ (ih h)

/-- the lookup in an association list with duplicate-free keys does not depend on the order of the entries -/
theorem lookup_perm {l l' : List (String × Val)} (hp : l.Perm l') (hnd : (l.map Prod.fst).Nodup) (x : String) :
    l.lookup x = l'.lookup x := by
  have hnd' : (l'.map Prod.fst).Nodup := (hp.map Prod.fst).nodup_iff.1 hnd
  cases h : l.lookup x with
  | some v =>
    have hm := mem_of_lookup_some h
    exact (lookup_some_of_mem hnd' (hp.mem_iff.1 hm)).symm
  | none =>
    cases h' : l'.lookup x with
    | none => rfl
    | some v =>
      have hm := mem_of_lookup_some h'
      have := lookup_some_of_mem hnd (hp.mem_iff.2 hm)
      rw [h] at this; cases this

/-! ### parameters by name -/

/-- binding is by name: permuting the argument list (distinct names) gives the same parameter binding … -/
theorem paramsOf_perm {kw kw' : List (String × Val)} (hp : kw.Perm kw') (hnd : (kw.map Prod.fst).Nodup) :
    paramsOf kw = paramsOf kw' := by
  funext x
  unfold paramsOf
  have hp' : kw.reverse.Perm kw'.reverse := (List.reverse_perm kw).trans (hp.trans (List.reverse_perm kw').symm)
  have hnd' : (kw.reverse.map Prod.fst).Nodup := by
    rw [List.map_reverse]; exact (List.reverse_perm _).nodup_iff.2 hnd
  exact lookup_perm hp' hnd' x

/-- … hence the same run of the callee and the same result -/
theorem invoke_perm (rec : Oracle) (kind : WalkerKind) (body : Block) {kw kw' : List (String × Val)} (self : Val)
    (hp : kw.Perm kw') (hnd : (kw.map Prod.fst).Nodup) :
    invoke rec kind body kw self = invoke rec kind body kw' self := by
  unfold invoke mkFrame
  rw [paramsOf_perm hp hnd]

/-- `param.x` reads the argument named `x` -/
theorem paramsOf_mem {kw : List (String × Val)} (hnd : (kw.map Prod.fst).Nodup) {x : String} {v : Val}
    (h : (x, v) ∈ kw) : paramsOf kw x = some v := by
  unfold paramsOf
  apply lookup_some_of_mem
  · rw [List.map_reverse]; exact (List.reverse_perm _).nodup_iff.2 hnd
  · exact List.mem_reverse.2 h

theorem eval_param {C : Ctx} {rec : Oracle} {c : Cfg} {x : String} {v : Val}
    (hk : ∀ i a, c.fr.kind ≠ .derived i a) (hv : c.fr.params x = some v) :
    evalStep C rec (.param x) c = some (.ok (v, c)) := by
  simp only [evalStep]
  rw [bind_ok (show getFr c = some (.ok (c.fr, c)) from rfl)]
  cases hkind : c.fr.kind with
  | derived i a => exact absurd hkind (hk i a)
  | function => simp only [hv]; rfl
  | operation => simp only [hv]; rfl

/-! ### self -/

/-- in an operation or a derived attribute `self` is the receiver the walker was created with
    (`none` for a class-based operation) … -/
theorem eval_self {C : Ctx} {rec : Oracle} {c : Cfg} (hk : c.fr.kind ≠ .function) :
    evalStep C rec .self c = some (.ok (c.fr.self, c)) := by
  simp only [evalStep]
  rw [bind_ok (show getFr c = some (.ok (c.fr, c)) from rfl)]
  cases hkind : c.fr.kind with
  | function => exact absurd hkind hk
  | operation => rfl
  | derived i a => rfl

/-- … in a function or a bridge it is not bound -/
theorem eval_self_function {C : Ctx} {rec : Oracle} {c : Cfg} (hk : c.fr.kind = .function) :
    ∃ e, evalStep C rec .self c = some (.error e) := by
  simp only [evalStep]
  rw [bind_ok (show getFr c = some (.ok (c.fr, c)) from rfl)]
  simp only [hk]
  exact ⟨_, rfl⟩

/-- an instance-based operation invoked on `h.op(args)` runs with `self` = the instance `h` denotes -/
theorem callInst_runs_with_self {C : Ctx} {rec : Oracle} {h : Expr} {name : String} {args : List (String × Expr)}
    {c c1 c2 : Cfg} {i : Inst} {f : Callable} {kw : List (String × Val)}
    (hh : rec.eval h c = some (.ok (.inst i, c1)))
    (hf : findCallable C (fun f => f.kind = .instOp i.cls ∧ f.name = name) = some f)
    (ha : evalArgs rec args c1 = some (.ok (kw, c2))) :
    evalStep C rec (.callInst h name args) c = invoke rec .operation f.body kw (.inst i) c2 := by
  simp only [evalStep]
  rw [bind_ok hh, bind_ok (show asInst (.inst i) c1 = some (.ok (i, c1)) from rfl)]
  simp only [hf]
  rw [bind_ok ha]

/-- a function `::f(args)` runs in a function walker: no receiver (`self` is unbound there, `eval_self_function`) -/
theorem call_function_runs_unbound {C : Ctx} {rec : Oracle} {name : String} {args : List (String × Expr)}
    {c c2 : Cfg} {f : Callable} {kw : List (String × Val)}
    (ha : evalArgs rec args c = some (.ok (kw, c2)))
    (hf : findCallable C (fun f => f.kind = .function ∧ f.name = name) = some f) :
    evalStep C rec (.call .function name args) c = invoke rec .function f.body kw .none c2 := by
  simp only [evalStep]
  rw [bind_ok ha]
  simp only [hf]

/-- `NS::name(args)`: a bridge runs in a function walker (no receiver), a class-based operation in an operation
    walker whose receiver is the empty handle -/
theorem call_ns_runs {C : Ctx} {rec : Oracle} {k : CallKind} {ns name : String} {args : List (String × Expr)}
    {c c2 : Cfg} {f : Callable} {kw : List (String × Val)}
    (hk : k = .implicit ns ∨ k = .bridge ns)
    (ha : evalArgs rec args c = some (.ok (kw, c2)))
    (hf : resolveNs C ns name = some f) :
    evalStep C rec (.call k name args) c =
      invoke rec (match f.kind with | .bridge _ => .function | _ => .operation) f.body kw .none c2 := by
  rcases hk with rfl | rfl <;>
  · simp only [evalStep]
    rw [bind_ok ha]
    simp only [hf]
    cases f.kind <;> rfl

/-- `transform KL::op(args)`: the class-based operation of the CLASS KL (looked up before the parameters are evaluated) -/
theorem call_classOp_runs {C : Ctx} {rec : Oracle} {ns name : String} {args : List (String × Expr)}
    {c c2 : Cfg} {f : Callable} {kw : List (String × Val)}
    (ha : evalArgs rec args c = some (.ok (kw, c2)))
    (hf : findCallable C (fun f => f.kind = .classOp ns ∧ f.name = name) = some f) :
    evalStep C rec (.call (.classOp ns) name args) c = invoke rec .operation f.body kw .none c2 := by
  simp only [evalStep, hf]
  rw [bind_ok ha]

/-- inside the body of a class-based operation `self` reads as the empty handle -/
theorem eval_self_classOp (C : Ctx) (rec : Oracle) (kw : List (String × Val)) (st : State) :
    evalStep C rec .self { fr := mkFrame .operation kw .none, st := st }
      = some (.ok (.none, { fr := mkFrame .operation kw .none, st := st })) :=
  eval_self (by simp [mkFrame])

theorem mkFrame_self (kind : WalkerKind) (kw : List (String × Val)) (self : Val) :
    (mkFrame kind kw self).self = self ∧ (mkFrame kind kw self).kind = kind ∧ (mkFrame kind kw self).ret = .none ∧
    (mkFrame kind kw self).env = [[]] := ⟨rfl, rfl, rfl, rfl⟩

/-! ### the result of an invocation -/

/-- the value an invocation delivers is the callee's return register when its body has ended; the caller keeps
    its own frame and sees the callee's effect on the population -/
theorem invoke_ok {rec : Oracle} {kind : WalkerKind} {body : Block} {kw : List (String × Val)} {self : Val}
    {c c' : Cfg} (h : runBody rec body { fr := mkFrame kind kw self, st := c.st } = some (.ok ((), c'))) :
    invoke rec kind body kw self c = some (.ok (c'.fr.ret, { fr := c.fr, st := c'.st })) := by
  unfold invoke; rw [h]

theorem invoke_ok_inv {rec : Oracle} {kind : WalkerKind} {body : Block} {kw : List (String × Val)} {self : Val}
    {c c2 : Cfg} {v : Val} (h : invoke rec kind body kw self c = some (.ok (v, c2))) :
    ∃ c', runBody rec body { fr := mkFrame kind kw self, st := c.st } = some (.ok ((), c')) ∧
      v = c'.fr.ret ∧ c2 = { fr := c.fr, st := c'.st } := by
  unfold invoke at h
  split at h
  · cases h
  · cases h
  · rename_i u c' hb
    simp at h
    exact ⟨c', hb, h.1.symm, h.2.symm⟩

/-- an empty body delivers nothing -/
theorem invoke_empty (rec : Oracle) (kind : WalkerKind) (kw : List (String × Val)) (self : Val) (c : Cfg) :
    invoke rec kind [] kw self c = some (.ok (.none, c)) := rfl

/-! ### the return register is written by `return <expr>` only -/

def NotDerived (k : WalkerKind) : Prop := ∀ i a, k ≠ .derived i a

/-- outside derived-attribute bodies: the walker kind is kept, and the return register too -/
def Rk (c c' : Cfg) : Prop := NotDerived c.fr.kind → c'.fr.kind = c.fr.kind ∧ c'.fr.ret = c.fr.ret

theorem Rk_po : PreOrder Rk :=
  ⟨fun _ _ => ⟨rfl, rfl⟩, fun a b c h1 h2 hk => by
    have ⟨k1, r1⟩ := h1 hk
    have ⟨k2, r2⟩ := h2 (by rw [k1]; exact hk)
    exact ⟨k2.trans k1, r2.trans r1⟩⟩

theorem rk_of_rfr {c c' : Cfg} (h : Rfr c c') : Rk c c' := by
  intro _; unfold Rfr at h; rw [h]; exact ⟨rfl, rfl⟩

abbrev NK {α : Type} {m : M α} (h : Neutral m) : Pres Rk m := pres_of_neutral Rk_po h

theorem rk_setEnv (env : Env) : Pres Rk (setEnv env) := by
  intro c a c' h _
  simp [setEnv] at h; rw [← h]; exact ⟨rfl, rfl⟩

theorem rk_install (x : String) (v : Val) : Pres Rk (install x v) := by
  unfold install
  apply pres_bind Rk_po (NK neutral_getFr); intro _
  exact rk_setEnv _

theorem rk_pushBlock : Pres Rk pushBlock := by
  unfold pushBlock
  apply pres_bind Rk_po (NK neutral_getFr); intro _
  exact rk_setEnv _

theorem rk_popBlock : Pres Rk popBlock := by
  unfold popBlock
  apply pres_bind Rk_po (NK neutral_getFr); intro _
  exact rk_setEnv _

theorem rk_of_stateOnly {α : Type} {m : M α} (h : StateOnly m) : Pres Rk m :=
  fun c a c' hc => rk_of_rfr (h c a c' hc)

/-- statements: the kind is kept; unless the statement completes by `return`, so is the register -/
def PresRet (m : M Out) : Prop :=
  ∀ c o c', m c = some (.ok (o, c')) → NotDerived c.fr.kind →
    c'.fr.kind = c.fr.kind ∧ (o ≠ .ret → c'.fr.ret = c.fr.ret)

theorem presRet_of_rk {α : Type} {m : M α} (o : Out) (h : Pres Rk m) : PresRet (m >>= fun _ => pure o) := by
  intro c o' c' hc hk
  obtain ⟨a, c1, h1, h2⟩ := bind_ok_inv hc
  have : M.ret' o c1 = some (.ok (o', c')) := h2
  simp [M.ret'] at this
  obtain ⟨_, rfl⟩ := this
  have := h c a c1 h1 hk
  exact ⟨this.1, fun _ => this.2⟩

theorem presRet_pure (o : Out) : PresRet (pure o) := by
  intro c o' c' hc hk
  have : M.ret' o c = some (.ok (o', c')) := hc
  simp [M.ret'] at this
  obtain ⟨_, rfl⟩ := this
  exact ⟨rfl, fun _ => rfl⟩

theorem presRet_fail (msg : String) : PresRet (fail msg) := by
  intro c o' c' hc; simp [fail] at hc

theorem presRet_bind {α : Type} {m : M α} {f : α → M Out} (hm : Pres Rk m) (hf : ∀ a, PresRet (f a)) :
    PresRet (m >>= f) := by
  intro c o c' hc hk
  obtain ⟨a, c1, h1, h2⟩ := bind_ok_inv hc
  have ⟨k1, r1⟩ := hm c a c1 h1 hk
  have ⟨k2, r2⟩ := hf a c1 o c' h2 (by rw [k1]; exact hk)
  exact ⟨k2.trans k1, fun ho => (r2 ho).trans r1⟩

/-- after a statement that completed normally / by break / continue / stop, continue with `g`;
    after `return` only unwind -/
theorem presRet_seq {m : M Out} {g : Out → M Out} (hm : PresRet m)
    (hg : ∀ o, o ≠ .ret → PresRet (g o))
    (hret : ∀ c1 o c', g .ret c1 = some (.ok (o, c')) → o = .ret ∧ c'.fr.kind = c1.fr.kind) :
    PresRet (m >>= g) := by
  intro c o c' hc hk
  obtain ⟨o1, c1, h1, h2⟩ := bind_ok_inv hc
  have ⟨k1, r1⟩ := hm c o1 c1 h1 hk
  by_cases ho1 : o1 = .ret
  · subst ho1
    have ⟨ho, k2⟩ := hret c1 o c' h2
    exact ⟨k2.trans k1, fun h => absurd ho h⟩
  · have ⟨k2, r2⟩ := hg o1 ho1 c1 o c' h2 (by rw [k1]; exact hk)
    exact ⟨k2.trans k1, fun ho => (r2 ho).trans (r1 ho1)⟩

theorem pure_ret_inv {c1 c' : Cfg} {o : Out} (h : (pure Out.ret : M Out) c1 = some (.ok (o, c'))) :
    o = .ret ∧ c'.fr.kind = c1.fr.kind := by
  have : M.ret' Out.ret c1 = some (.ok (o, c')) := h
  simp [M.ret'] at this
  obtain ⟨rfl, rfl⟩ := this
  exact ⟨rfl, rfl⟩

section
variable {r : Oracle} (he : ∀ e, Pres Rfr (r.eval e)) (hs : ∀ s, PresRet (r.exec s))
include he hs

theorem presRet_execList : ∀ l, PresRet (execList r l)
  | [] => presRet_pure _
  | s :: rest => by
    unfold execList
    apply presRet_seq (hs s)
    · intro o ho
      cases o <;> first | exact presRet_execList rest | exact presRet_pure _
    · intro c1 o c' h; exact pure_ret_inv h

theorem presRet_execBlock (b : Block) : PresRet (execBlock r b) := by
  unfold execBlock
  apply presRet_bind rk_pushBlock; intro _
  apply presRet_seq (presRet_execList he hs b)
  · intro o _
    exact presRet_of_rk o rk_popBlock
  · -- after `return` the block is left as well; the register is whatever the return wrote
    intro c1 o c' h
    obtain ⟨_, c2, h1, h2⟩ := bind_ok_inv h
    have hp := popBlock_run c1
    rw [hp] at h1
    simp at h1
    have ⟨ho, hk⟩ := pure_ret_inv h2
    refine ⟨ho, ?_⟩
    rw [hk, ← h1]

theorem presRet_execElifs : ∀ l els, PresRet (execElifs r l els)
  | [], none => presRet_pure _
  | [], some b => presRet_execBlock he hs b
  | (c, b) :: rest, els => by
    unfold execElifs
    apply presRet_bind (pres_weaken (fun _ _ => rk_of_rfr) (he c)); intro v
    apply presRet_bind (NK (neutral_asBool v)); intro t
    cases t
    · exact presRet_execElifs rest els
    · exact presRet_execBlock he hs b

theorem presRet_forItems (v : String) (body : Block) : ∀ l, PresRet (forItems r v body l)
  | [] => presRet_pure _
  | i :: rest => by
    unfold forItems
    apply presRet_bind (rk_install _ _); intro _
    apply presRet_seq (presRet_execBlock he hs body)
    · intro o ho
      cases o <;> first | exact presRet_forItems v body rest | exact presRet_pure _ | exact absurd rfl ho
    · intro c1 o c' h; exact pure_ret_inv h

theorem rk_evalWhere (wh : Expr) (c : Inst) : Pres Rk (evalWhere r wh c) := by
  unfold evalWhere
  apply pres_bind Rk_po rk_pushBlock; intro _
  apply pres_bind Rk_po (rk_install _ _); intro _
  apply pres_bind Rk_po (pres_weaken (fun _ _ => rk_of_rfr) (he wh)); intro v
  apply pres_bind Rk_po rk_popBlock; intro _
  exact NK (neutral_asBool v)

theorem rk_filterAll (wh : Expr) : ∀ l, Pres Rk (filterAll r wh l)
  | [] => NK (neutral_pure _)
  | c :: rest => by
    unfold filterAll
    apply pres_bind Rk_po (rk_evalWhere he hs wh c); intro t
    apply pres_bind Rk_po (rk_filterAll wh rest); intro _
    exact NK (neutral_pure _)

theorem rk_filterFirst (wh : Expr) : ∀ l, Pres Rk (filterFirst r wh l)
  | [] => NK (neutral_pure _)
  | c :: rest => by
    unfold filterFirst
    apply pres_bind Rk_po (rk_evalWhere he hs wh c); intro t
    cases t
    · exact rk_filterFirst wh rest
    · exact NK (neutral_pure _)

theorem rk_selectResult (many : Bool) (cands : List Inst) (wh : Option Expr) :
    Pres Rk (selectResult r many cands wh) := by
  unfold selectResult
  cases many <;> cases wh <;> simp only
  · exact NK (neutral_pure _)
  · apply pres_bind Rk_po (rk_filterFirst he hs _ _); intro _; exact NK (neutral_pure _)
  · exact NK (neutral_pure _)
  · apply pres_bind Rk_po (rk_filterAll he hs _ _); intro _; exact NK (neutral_pure _)

theorem rk_writeField (C : Ctx) (i : Inst) (name : String) (v : Val) : Pres Rk (writeField C i name v) := by
  intro c a c' h hk
  unfold writeField at h
  rw [bind_ok (show getFr c = some (.ok (c.fr, c)) from rfl)] at h
  have hreg : regHit c.fr i name = false := by
    unfold regHit
    cases hkind : c.fr.kind with
    | derived si attr => exact absurd hkind (hk si attr)
    | function => rfl
    | operation => rfl
  rw [hreg] at h
  cases hfd : findDerived C i.cls name with
  | some f => simp [hfd, fail] at h
  | none =>
    simp only [hfd, Bool.false_eq_true, if_false] at h
    have := stateOnly_modifySt _ c a c' h
    rw [this]; exact ⟨rfl, rfl⟩

theorem presRet_execStep (C : Ctx) (s : Stmt) : PresRet (execStep C r s) := by
  have E : ∀ e, Pres Rk (r.eval e) := fun e => pres_weaken (fun _ _ => rk_of_rfr) (he e)
  cases s with
  | assignVar x e =>
    unfold execStep
    apply presRet_bind (E e); intro _
    exact presRet_of_rk _ (rk_install _ _)
  | assignField hx name e =>
    unfold execStep
    apply presRet_bind (E e); intro _
    apply presRet_bind (E hx); intro v
    apply presRet_bind (NK (neutral_asInst v)); intro _
    exact presRet_of_rk _ (rk_writeField he hs C _ _ _)
  | ifS c thn elifs els =>
    unfold execStep
    apply presRet_bind (E c); intro v
    apply presRet_bind (NK (neutral_asBool v)); intro t
    cases t
    · exact presRet_execElifs he hs _ _
    · exact presRet_execBlock he hs _
  | whileS c body =>
    unfold execStep
    apply presRet_bind (E c); intro v
    apply presRet_bind (NK (neutral_asBool v)); intro t
    cases t
    · exact presRet_pure _
    · simp only [if_true]
      apply presRet_seq (presRet_execBlock he hs body)
      · intro o ho
        cases o <;> first | exact hs _ | exact presRet_pure _ | exact absurd rfl ho
      · intro c1 o c' h; exact pure_ret_inv h
  | forEach v setv body =>
    unfold execStep
    apply presRet_bind (NK (neutral_lookupVar C _)); intro s
    cases s <;> first | exact presRet_forItems he hs _ _ _ | exact presRet_fail _
  | brk => exact presRet_pure _
  | cont => exact presRet_pure _
  | stop => exact presRet_pure _
  | ret e =>
    cases e with
    | none => exact presRet_pure _
    | some e =>
      intro c o c' h hk
      simp only [execStep] at h
      obtain ⟨v, c1, h1, h2⟩ := bind_ok_inv h
      have hf := he e c v c1 h1
      unfold Rfr at hf
      have : o = .ret ∧ c'.fr.kind = c1.fr.kind := by
        have h3 : (some (Except.ok (Out.ret, { c1 with fr := { c1.fr with ret := v } })) : Res Out) = some (.ok (o, c')) := h2
        simp at h3
        obtain ⟨rfl, rfl⟩ := h3
        exact ⟨rfl, rfl⟩
      exact ⟨by rw [this.2, hf], fun ho => absurd this.1 ho⟩
  | create v cls =>
    unfold execStep
    apply presRet_bind (rk_of_stateOnly (stateOnly_modifyGet _)); intro i
    cases v with
    | none =>
      simp only
      first
        | exact presRet_pure _
        | exact presRet_of_rk _ (NK (neutral_pure _))
    | some x => simp only; exact presRet_of_rk _ (rk_install _ _)
  | delete v =>
    unfold execStep
    apply presRet_bind (NK (neutral_lookupVar C _)); intro x
    apply presRet_bind (NK (neutral_asInst x)); intro i
    exact presRet_of_rk _ (rk_of_stateOnly (stateOnly_modifySt _))
  | relate a b rel phrase =>
    unfold execStep
    apply presRet_bind (NK (neutral_lookupVar C _)); intro x
    apply presRet_bind (NK (neutral_asInst x)); intro _
    apply presRet_bind (NK (neutral_lookupVar C _)); intro y
    apply presRet_bind (NK (neutral_asInst y)); intro _
    exact presRet_of_rk _ (rk_of_stateOnly (stateOnly_modifySt _))
  | relateUsing a b rel phrase u =>
    unfold execStep
    apply presRet_bind (NK (neutral_lookupVar C _)); intro x
    apply presRet_bind (NK (neutral_asInst x)); intro _
    apply presRet_bind (NK (neutral_lookupVar C _)); intro y
    apply presRet_bind (NK (neutral_asInst y)); intro _
    apply presRet_bind (NK (neutral_lookupVar C _)); intro w
    apply presRet_bind (NK (neutral_asInst w)); intro _
    exact presRet_of_rk _ (rk_of_stateOnly (stateOnly_modifySt _))
  | unrelate a b rel phrase =>
    unfold execStep
    apply presRet_bind (NK (neutral_lookupVar C _)); intro x
    apply presRet_bind (NK (neutral_asInst x)); intro _
    apply presRet_bind (NK (neutral_lookupVar C _)); intro y
    apply presRet_bind (NK (neutral_asInst y)); intro _
    exact presRet_of_rk _ (rk_of_stateOnly (stateOnly_modifySt _))
  | unrelateUsing a b rel phrase u =>
    unfold execStep
    apply presRet_bind (NK (neutral_lookupVar C _)); intro x
    apply presRet_bind (NK (neutral_asInst x)); intro _
    apply presRet_bind (NK (neutral_lookupVar C _)); intro y
    apply presRet_bind (NK (neutral_asInst y)); intro _
    apply presRet_bind (NK (neutral_lookupVar C _)); intro w
    apply presRet_bind (NK (neutral_asInst w)); intro _
    exact presRet_of_rk _ (rk_of_stateOnly (stateOnly_modifySt _))
  | selectFrom many v cls wh =>
    unfold execStep
    apply presRet_bind (NK (neutral_querySt _)); intro _
    apply presRet_bind (rk_selectResult he hs _ _ _); intro _
    exact presRet_of_rk _ (rk_install _ _)
  | selectRelated many v hx chain wh =>
    unfold execStep
    apply presRet_bind (E hx); intro hv
    apply presRet_bind (NK (neutral_startOf hv)); intro _
    apply presRet_bind (NK (neutral_querySt _)); intro _
    apply presRet_bind (rk_selectResult he hs _ _ _); intro _
    exact presRet_of_rk _ (rk_install _ _)
  | invoke e =>
    unfold execStep
    exact presRet_of_rk _ (E e)

end

theorem presRet_run (C : Ctx) : ∀ n s, PresRet ((run C n).exec s)
  | 0 => fun _ _ _ _ h => by simp [run] at h
  | n + 1 => fun s => presRet_execStep (rfr_run C n) (presRet_run C n) C s

/-- a function, bridge or operation whose body ends without executing `return <expr>` — it falls through,
    executes a bare `return;` or `control stop` — delivers nothing -/
theorem invoke_without_return_value {C : Ctx} {n : Nat} {kind : WalkerKind} {body : Block}
    {kw : List (String × Val)} {self : Val} {c c' : Cfg} {o : Out}
    (hk : NotDerived kind)
    (hb : execBlock (run C n) body { fr := mkFrame kind kw self, st := c.st } = some (.ok (o, c')))
    (ho : o = .normal ∨ o = .stop ∨ o = .retBare) :
    invoke (run C n) kind body kw self c = some (.ok (.none, { fr := c.fr, st := c'.st })) := by
  have hp := presRet_execBlock (rfr_run C n) (presRet_run C n) body _ o c' hb hk
  have hret : c'.fr.ret = .none := hp.2 (by rcases ho with rfl | rfl | rfl <;> simp)
  have hrb : runBody (run C n) body { fr := mkFrame kind kw self, st := c.st } = some (.ok ((), c')) := by
    unfold runBody
    rw [bind_ok hb]
    rcases ho with rfl | rfl | rfl <;> rfl
  rw [invoke_ok hrb, hret]

/-- conversely: an invocation that delivers a value other than none executed a `return <expr>` -/
theorem invoke_value_needs_return {C : Ctx} {n : Nat} {kind : WalkerKind} {body : Block}
    {kw : List (String × Val)} {self : Val} {c c2 : Cfg} {v : Val} (hk : NotDerived kind)
    (h : invoke (run C n) kind body kw self c = some (.ok (v, c2))) (hv : v ≠ .none) :
    ∃ c', execBlock (run C n) body { fr := mkFrame kind kw self, st := c.st } = some (.ok (.ret, c')) ∧ v = c'.fr.ret := by
  obtain ⟨c', hrb, hv', _⟩ := invoke_ok_inv h
  unfold runBody at hrb
  obtain ⟨o, c1, hb, hrest⟩ := bind_ok_inv hrb
  have hp := presRet_execBlock (rfr_run C n) (presRet_run C n) body _ o c1 hb hk
  have hc : c' = c1 := by
    cases o <;> first
      | (have : M.ret' () c1 = some (.ok ((), c')) := hrest
         simp [M.ret'] at this; exact this.symm)
      | (simp [fail] at hrest)
  subst hc
  by_cases ho : o = .ret
  · subst ho; exact ⟨c', hb, hv'⟩
  · exfalso
    have := hp.2 ho
    rw [hv', this] at hv
    exact hv rfl

/-! ### derived attributes -/

/-- reading a derived attribute runs its body NOW, in the current state: the value is a function of the state at the
    time of the read (and of nothing remembered from earlier reads — there is no cache in the configuration) -/
theorem derived_read {C : Ctx} {rec : Oracle} {i : Inst} {name : String} {f : Callable} {c : Cfg}
    (hreg : regHit c.fr i name = false) (hf : findDerived C i.cls name = some f) :
    readField C rec i name c = invoke rec (.derived i name) f.body [] (.inst i) c := by
  unfold readField
  rw [bind_ok (show getFr c = some (.ok (c.fr, c)) from rfl), hreg]
  simp only [Bool.false_eq_true, if_false, hf, ↓reduceIte]

/-- the value read depends on the configuration only through the state -/
theorem invoke_state_only (rec : Oracle) (kind : WalkerKind) (body : Block) (kw : List (String × Val)) (self : Val)
    (c1 c2 : Cfg) (hst : c1.st = c2.st) :
    (invoke rec kind body kw self c1).map (fun r => r.map (fun p => (p.1, p.2.st))) =
    (invoke rec kind body kw self c2).map (fun r => r.map (fun p => (p.1, p.2.st))) := by
  unfold invoke
  rw [hst]
  cases runBody rec body { fr := mkFrame kind kw self, st := c2.st } with
  | none => rfl
  | some x =>
    cases x with
    | error e => rfl
    | ok p => rfl

end Pyx.Interp
