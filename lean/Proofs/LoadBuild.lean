import Proofs.LoadJoin

/-! Helper lemmas for C03, part 3: what the five phases build, per kind, and its invariance under permutation. -/

namespace Pyx.Load

/-! ### per-kind views of a statement list -/

/-- the INSERTs of one kind, in statement order -/
def insOf (ss : List Stmt) (k : String) : List (Option (List String) × List Val) :=
  ss.filterMap (fun s => match s with
    | .insert k' ns vs => if k' = k then some (ns, vs) else none
    | _ => none)

/-- the (effective) identifier definitions of one kind, in statement order -/
def uniqOf (ss : List Stmt) (k : String) : List (String × List String) :=
  ss.filterMap (fun s => match s with
    | .uniq k' n as => if k' = k ∧ as.isEmpty = false then some (n, as) else none
    | _ => none)

/-! ### `find?` on lists with distinct keys -/

theorem findCls_map (cs : List Cls) (f : Cls → Cls) (hf : ∀ c, (f c).kind = c.kind) (k : String) :
    findCls (cs.map f) k = (findCls cs k).map f := by
  unfold findCls
  induction cs with
  | nil => rfl
  | cons c cs ih =>
    simp only [List.map_cons, List.find?_cons, hf]
    by_cases h : c.kind = k
    · simp [h]
    · simp [h, ih]

theorem findCls_append (cs ds : List Cls) (k : String) :
    findCls (cs ++ ds) k = (findCls cs k).or (findCls ds k) := by
  unfold findCls
  rw [List.find?_append]

theorem findCls_some_kind {cs : List Cls} {k : String} {c : Cls} (h : findCls cs k = some c) : c.kind = k := by
  unfold findCls at h
  have := List.find?_some h
  simpa using this

theorem hasKind_iff (cs : List Cls) (k : String) : hasKind cs k = true ↔ (findCls cs k).isSome = true := by
  unfold hasKind findCls
  rw [List.find?_isSome]
  simp only [List.any_eq_true]

theorem findCls_none_of_not_hasKind {cs : List Cls} {k : String} (h : hasKind cs k = false) : findCls cs k = none := by
  cases hf : findCls cs k with
  | none => rfl
  | some c =>
    have := (hasKind_iff cs k).mpr (by simp [hf])
    simp [h] at this

theorem eq_of_mem_of_kind_eq {l : List Cls} (hl : (l.map (·.kind)).Nodup) {c d : Cls}
    (hc : c ∈ l) (hd : d ∈ l) (h : c.kind = d.kind) : c = d := by
  induction l with
  | nil => cases hc
  | cons x xs ih =>
    simp only [List.map_cons, List.nodup_cons, List.mem_map, not_exists, not_and] at hl
    rcases List.mem_cons.mp hc with rfl | hc'
    · rcases List.mem_cons.mp hd with rfl | hd'
      · rfl
      · exact absurd h.symm (hl.1 d hd')
    · rcases List.mem_cons.mp hd with rfl | hd'
      · exact absurd h (hl.1 c hc')
      · exact ih hl.2 hc' hd'

theorem findCls_perm {l1 l2 : List Cls} (hp : l1.Perm l2) (hn : (l1.map (·.kind)).Nodup) (k : String) :
    findCls l1 k = findCls l2 k := by
  have hn2 : (l2.map (·.kind)).Nodup := (hp.map _).nodup_iff.mp hn
  have key : ∀ (l : List Cls), (l.map (·.kind)).Nodup → ∀ c, findCls l k = some c ↔ c ∈ l ∧ c.kind = k := by
    intro l hl c
    constructor
    · intro h
      exact ⟨List.mem_of_find?_eq_some h, findCls_some_kind h⟩
    · rintro ⟨hm, hk⟩
      cases hf : findCls l k with
      | none =>
        unfold findCls at hf
        rw [List.find?_eq_none] at hf
        have := hf c hm
        simp [hk] at this
      | some d =>
        have hd := List.mem_of_find?_eq_some hf
        have hdk := findCls_some_kind hf
        have : d = c := eq_of_mem_of_kind_eq hl hd hm (by rw [hdk, hk])
        rw [this]
  cases h1 : findCls l1 k with
  | none =>
    cases h2 : findCls l2 k with
    | none => rfl
    | some c =>
      have := (key l2 hn2 c).mp h2
      have := (key l1 hn c).mpr ⟨hp.mem_iff.mpr this.1, this.2⟩
      rw [h1] at this
      cases this
  | some c =>
    have := (key l1 hn c).mp h1
    exact ((key l2 hn2 c).mpr ⟨hp.mem_iff.mp this.1, this.2⟩).symm

/-! ### phase 2 -/

/-- the indices of a class after the identifier statements `us` (of its kind) -/
def applyUniqs (c : Cls) (us : List (String × List String)) : Cls :=
  { c with indices := us.foldl (fun d p => dictSet d p.1 p.2) c.indices }

theorem findCls_defineUnique (cs : List Cls) (k n : String) (as : List String) (k' : String) :
    findCls (defineUnique cs k n as) k' =
      (findCls cs k').map (fun c => if k' = k ∧ as.isEmpty = false then applyUniqs c [(n, as)] else c) := by
  unfold defineUnique
  by_cases he : as.isEmpty
  · simp [he]
  · simp only [he, Bool.false_eq_true, if_false]
    rw [findCls_map _ _ (by intro c; by_cases h : c.kind = k <;> simp [h])]
    cases hf : findCls cs k' with
    | none => rfl
    | some c =>
      have hk := findCls_some_kind hf
      subst hk
      simp only [Option.map_some, Option.some.injEq]
      by_cases h : c.kind = k
      · simp [h, he, applyUniqs]
      · simp [h]

theorem uniqOf_cons_uniq (k' n : String) (as : List String) (ss : List Stmt) (k : String) :
    uniqOf (.uniq k' n as :: ss) k =
      if k' = k ∧ as.isEmpty = false then (n, as) :: uniqOf ss k else uniqOf ss k := by
  unfold uniqOf
  simp only [List.filterMap_cons]
  by_cases h : k' = k ∧ as.isEmpty = false
  · simp only [h, and_self, if_true]
  · simp only [h, if_false]

theorem applyUniqs_cons (c : Cls) (x : String × List String) (l : List (String × List String)) :
    applyUniqs (applyUniqs c [x]) l = applyUniqs c (x :: l) := by
  simp [applyUniqs]

theorem findCls_popUniques (ss : List Stmt) (cs : List Cls) (k : String) :
    findCls (popUniques ss cs) k = (findCls cs k).map (fun c => applyUniqs c (uniqOf ss k)) := by
  unfold popUniques
  induction ss generalizing cs with
  | nil =>
    simp only [List.foldl_nil]
    cases h : findCls cs k <;> simp [uniqOf, applyUniqs]
  | cons s ss ih =>
    simp only [List.foldl_cons]
    rw [ih]
    cases s with
    | uniq k' n as =>
      simp only [findCls_defineUnique]
      cases hf : findCls cs k with
      | none => rfl
      | some c =>
        simp only [Option.map_some, Option.some.injEq]
        rw [uniqOf_cons_uniq]
        by_cases h : k = k' ∧ as.isEmpty = false
        · have h' : k' = k ∧ as.isEmpty = false := ⟨h.1.symm, h.2⟩
          rw [if_pos h, if_pos h', applyUniqs_cons]
        · have h' : ¬ (k' = k ∧ as.isEmpty = false) := fun x => h ⟨x.1.symm, x.2⟩
          rw [if_neg h, if_neg h']
    | cls _ _ => simp [uniqOf]
    | assoc _ => simp [uniqOf]
    | insert _ _ _ => simp [uniqOf]

/-! ### phase 4 -/

/-- one INSERT of kind `k` seen from the class of kind `k` (absent = not defined yet) -/
def stepK (k : String) (oc : Option Cls) (x : Option (List String) × List Val) : Option Cls :=
  some (match oc with
    | some c => { c with rows := c.rows ++ [mkRow c.attrs x.1 x.2] }
    | none => ⟨k, inferAttrs x.1 x.2, [], [mkRow (inferAttrs x.1 x.2) x.1 x.2]⟩)

theorem findCls_addRow (cs : List Cls) (k : String) (r : Row) (k' : String) :
    findCls (addRow cs k r) k' =
      (findCls cs k').map (fun c => if k' = k then { c with rows := c.rows ++ [r] } else c) := by
  unfold addRow
  rw [findCls_map _ _ (by intro c; by_cases h : c.kind = k <;> simp [h])]
  cases hf : findCls cs k' with
  | none => rfl
  | some c =>
    have hk := findCls_some_kind hf
    simp only [Option.map_some, Option.some.injEq, hk]

theorem findCls_insertStep (cs : List Cls) (k : String) (ns : Option (List String)) (vs : List Val) (k' : String) :
    findCls (insertStep cs k ns vs) k' = if k' = k then stepK k (findCls cs k) (ns, vs) else findCls cs k' := by
  unfold insertStep
  by_cases hh : hasKind cs k
  · simp only [hh, if_true]
    obtain ⟨c, hc⟩ := Option.isSome_iff_exists.mp ((hasKind_iff cs k).mp hh)
    simp only [hc, findCls_addRow]
    by_cases h : k' = k
    · subst h
      simp [hc, stepK]
    · simp only [h, if_false]
      cases findCls cs k' <;> simp
  · have hh' : hasKind cs k = false := by simpa using hh
    have hnone := findCls_none_of_not_hasKind hh'
    simp only [hh', Bool.false_eq_true, if_false]
    have hnew : findCls (cs ++ [⟨k, inferAttrs ns vs, [], []⟩]) k = some ⟨k, inferAttrs ns vs, [], []⟩ := by
      rw [findCls_append, hnone]
      simp [findCls]
    simp only [hnew, findCls_addRow]
    by_cases h : k' = k
    · subst h
      rw [hnew, hnone]
      simp [stepK]
    · have : findCls [(⟨k, inferAttrs ns vs, [], []⟩ : Cls)] k' = none := by
        simp only [findCls, List.find?_cons, List.find?_nil]
        have : ¬ k = k' := fun e => h e.symm
        simp [this]
      simp only [h, if_false]
      rw [findCls_append, this, Option.or_none]
      cases findCls cs k' <;> simp

theorem findCls_popInstances (ss : List Stmt) (cs : List Cls) (k : String) :
    findCls (popInstances ss cs) k = (insOf ss k).foldl (stepK k) (findCls cs k) := by
  unfold popInstances
  induction ss generalizing cs with
  | nil => rfl
  | cons s ss ih =>
    simp only [List.foldl_cons]
    rw [ih]
    cases s with
    | insert k' ns vs =>
      simp only [findCls_insertStep, insOf, List.filterMap_cons]
      by_cases h : k = k'
      · subst h
        simp
      · have h' : ¬ k' = k := fun e => h e.symm
        simp [h, h']
    | cls _ _ => simp [insOf]
    | assoc _ => simp [insOf]
    | uniq _ _ _ => simp [insOf]

theorem foldl_stepK_some (k : String) (c : Cls) (l : List (Option (List String) × List Val)) :
    l.foldl (stepK k) (some c) = some { c with rows := c.rows ++ l.map (fun x => mkRow c.attrs x.1 x.2) } := by
  induction l generalizing c with
  | nil => simp
  | cons x xs ih =>
    simp only [List.foldl_cons, stepK, ih, List.map_cons, List.append_assoc, List.singleton_append]

/-- the class of kind `k` in the built metamodel, from the per-kind views of the statements -/
def clsSpec (ss : List Stmt) (k : String) : Option Cls :=
  match findCls (popClasses ss) k with
  | some c => some { applyUniqs c (uniqOf ss k) with rows := (insOf ss k).map (fun x => mkRow c.attrs x.1 x.2) }
  | none =>
    match insOf ss k with
    | [] => none
    | x :: xs => some ⟨k, inferAttrs x.1 x.2, [], (x :: xs).map (fun y => mkRow (inferAttrs x.1 x.2) y.1 y.2)⟩

theorem popClasses_rows_nil (ss : List Stmt) : ∀ c ∈ popClasses ss, c.rows = [] ∧ c.indices = [] := by
  intro c hc
  unfold popClasses at hc
  simp only [List.mem_filterMap] at hc
  obtain ⟨s, _, hs⟩ := hc
  cases s with
  | cls k as => simp only [Option.some.injEq] at hs; subst hs; exact ⟨rfl, rfl⟩
  | assoc _ => simp at hs
  | uniq _ _ _ => simp at hs
  | insert _ _ _ => simp at hs

theorem findCls_buildCore (ss : List Stmt) (k : String) :
    findCls (buildCore ss).classes k = clsSpec ss k := by
  unfold buildCore clsSpec
  simp only [findCls_popInstances, findCls_popUniques]
  cases hf : findCls (popClasses ss) k with
  | none =>
    simp only [Option.map_none]
    cases hi : insOf ss k with
    | nil => rfl
    | cons x xs =>
      simp only [List.foldl_cons, stepK, foldl_stepK_some, List.map_cons, List.singleton_append]
  | some c =>
    have hr := popClasses_rows_nil ss c (List.mem_of_find?_eq_some hf)
    simp only [Option.map_some, foldl_stepK_some, applyUniqs, hr.1, List.nil_append]

/-! ### permutations -/

theorem popClasses_perm {s1 s2 : List Stmt} (h : s1.Perm s2) : (popClasses s1).Perm (popClasses s2) :=
  h.filterMap _

theorem popAssocs_perm {s1 s2 : List Stmt} (h : s1.Perm s2) : (popAssocs s1).Perm (popAssocs s2) :=
  h.filterMap _

theorem insOf_perm {s1 s2 : List Stmt} (h : s1.Perm s2) (k : String) : (insOf s1 k).Perm (insOf s2 k) :=
  h.filterMap _

theorem uniqOf_perm {s1 s2 : List Stmt} (h : s1.Perm s2) (k : String) : (uniqOf s1 k).Perm (uniqOf s2 k) :=
  h.filterMap _

theorem all_perm {α : Type} {l1 l2 : List α} (h : l1.Perm l2) (p q : α → Bool) (hpq : ∀ x, p x = q x) :
    l1.all p = l2.all q := by
  rw [Bool.eq_iff_iff]
  simp only [List.all_eq_true]
  constructor
  · intro h1 x hx; rw [← hpq]; exact h1 x (h.mem_iff.mpr hx)
  · intro h2 x hx; rw [hpq]; exact h2 x (h.mem_iff.mp hx)

/-- whether the code raises does not depend on the order of the statements -/
theorem accepted_perm {s1 s2 : List Stmt} (h : s1.Perm s2) : accepted s1 = accepted s2 := by
  unfold accepted
  have hc := popClasses_perm h
  have hk : ((popClasses s1).map (·.kind)).Perm ((popClasses s2).map (·.kind)) := hc.map _
  have hnd : decide ((popClasses s1).map (·.kind)).Nodup = decide ((popClasses s2).map (·.kind)).Nodup := by
    rw [decide_eq_decide]; exact hk.nodup_iff
  simp only []
  rw [hnd]
  by_cases hn : ((popClasses s1).map (·.kind)).Nodup
  · congr 1
    apply all_perm h
    intro s
    have hmem : ∀ x, ((popClasses s1).map (·.kind)).contains x = ((popClasses s2).map (·.kind)).contains x := by
      intro x
      rw [Bool.eq_iff_iff]
      simp only [List.contains_iff_mem]
      exact hk.mem_iff
    have hattr : ∀ x, attrNames (popClasses s1) x = attrNames (popClasses s2) x := by
      intro x
      unfold attrNames
      rw [findCls_perm hc hn x]
    cases s with
    | uniq k n as => simp only [hmem]
    | assoc a => simp only [hmem, hattr]
    | cls _ _ => rfl
    | insert _ ns _ => cases ns <;> rfl
  · have hn2 : ¬ ((popClasses s2).map (·.kind)).Nodup := fun x => hn (hk.nodup_iff.mpr x)
    simp [hn2]

end Pyx.Load
