import PyxModel.Interp.Model
import Proofs.InterpShape
import Gen.CallShape

/-!
  C15 source tie, statement structure of everything between an OAL invocation and the body it runs: a GENERIC interpreter of the
  first-order IR that translator/gen_callshape.py extracts from bridgepoint/interpret.py and bridgepoint/ooaofooa.py, over the
  configurations of the reference semantics (`Pyx.Interp.Cfg`, monad `M`), and the lemmas showing that the clauses of `Spec` /
  `Model` equal that interpretation of the IR generated from the current source.

  The interpreter is defined once, for ANY IR value (`Parts` bundles the pieces); only the `…_eq` lemmas mention the generated
  constants.  What it fixes, once, is the meaning of the ATOMS (hand-modelled environment):

    a Python dict of actual parameters     = the association list in insertion order (`paramsOf`: the last binding of a key wins)
    self.accept(<expression child>)        = what the `CNode` says the child evaluates to (the oracle's `rec.eval`)
    the domain's dictionaries              = `Dom`: kind-qualified, untyped, classes; `domOf C u` reads them off the context `C`
                                             (`u` = the untyped dictionary: ARBITRARY, the theorems hold for every `u`)
    getattr(<external entity>, n)          = the bridge `n` of that entity, made by mk_bridge
    getattr(<class>, n)                    = the class-based operation `n` (classmethod: bound to the class), else the
                                             instance-based operation `n` (a plain function)
    getattr(<enumeration>, n)              = the value of field `n` of the namedtuple (`Numbering.rangeLen`: its position)
    calling what mk_* made                 = binding the lambda's parameters (classmethod: the first one to the class), evaluating
                                             its argument list, running the `run_*` function's IR
    <Walker>(args…)                        = running the `__init__` IRs (base constructors in source order) and reading the frame
                                             off the attributes they stored (`frameOf`)
    oal.parse(action, label)               = the body of the model element (trusted parser)
    w.accept(root)                         = `runBody` in the walker's frame (the body handlers: Props/C04.lean, `body_as_in_source`)
    self.kwargs[k] / self.instance / self.return_value = the frame's params / self / ret
-/
set_option linter.unusedSimpArgs false
set_option linter.unusedVariables false
namespace Pyx.CShape
open Pyx.Interp Pyx.Interp.M Pyx.Gen.CallShape

/-! ### the domain's dictionaries -/

/-- what `Domain.find_symbol` delivers -/
inductive Sym where
  | fn (f : Callable)            -- what mk_function made
  | ee (ns : String)             -- an external entity: the namedtuple of its bridges
  | cls (kl : String)            -- a class
  | enum (d : EnumDecl)          -- what mk_enum made
  | const (v : Val)              -- what mk_constant made

structure Dom where
  byKind : String → String → Option Sym       -- symbols_by_kind[(kind, name)]
  untyped : String → Option Sym               -- symbols[name]
  isMetaclass : String → Bool                 -- name.upper() in self.metaclasses
  findClass : String → Option Sym             -- find_class(name)

def hasBridges (C : Ctx) (ns : String) : Bool := C.callables.any (fun f => decide (f.kind = .bridge ns))

/-- the dictionaries as mk_component fills them from the model elements of `C`; `u` is the untyped dictionary -/
def domOf (C : Ctx) (u : String → Option Sym) : Dom :=
  { byKind := fun k n =>
      if k = "function" then (findCallable C (fun f => f.kind = .function ∧ f.name = n)).map Sym.fn
      else if k = "external entity" then (if hasBridges C n then some (.ee n) else none)
      else if k = "enumeration" then (C.enums.find? (fun d => d.name = n)).map Sym.enum
      else if k = "constant" then (C.consts.lookup n).map Sym.const
      else none
    untyped := u
    isMetaclass := fun n => (findClass C n).isSome
    findClass := fun n => if (findClass C n).isSome then some (.cls n) else none }

def probe (D : Dom) (name : String) (k : Option String) : Probe → Option Sym
  | .byKind => match k with
    | some k => D.byKind k name
    | none => none
  | .classWhenKind k0 => match k with
    | some k => if k = k0 ∧ D.isMetaclass name = true then D.findClass name else none
    | none => none
  | .untyped => D.untyped name
  | .findClass => D.findClass name

/-- `Domain.find_symbol(name, kinds)`: for every kind in order the probes `perKind` in order, then `afterKinds`; `none` = the
    exception -/
def iFind (sh : DomainShape) (D : Dom) (name : String) (kinds : List String) : Option Sym :=
  match (kinds.flatMap (fun k => sh.perKind.map (fun p => (k, p)))).findSome? (fun kp => probe D name (some kp.1) kp.2) with
  | some s => some s
  | none => sh.afterKinds.findSome? (probe D name none)

/-! ### Python values -/

/-- a callable made by a `mk_*` constructor: its lambda, the model element, the class it was fetched from (classmethod) -/
structure Callee where
  shape : LambdaShape
  f : Callable
  viaClass : Option String

/-- what a Python local / an attribute holds -/
inductive PV where
  | val (v : Val)                               -- a value, or a property whose getter returns it
  | kwargs (kw : List (String × Val))           -- a dict of actual parameters, in insertion order
  | dom | label
  | str (s : String)
  | body (b : Block)                            -- the action of a model element / its parsed root
  | sym (s : Sym)
  | callee (k : Callee)
  | symtab (inst : Option Val)                  -- SymbolTable / InstanceSymbolTable(instance)
  | walker (cls : String) (fr : Option Frame)   -- a walker and the frame read off its attributes
  | param (name : String) (e : M Val)           -- a ParameterNode child
  | lval (i : Inst) (name : String)             -- property over an attribute of an instance
  | reg                                         -- property over the walker's return_value
  | unset

abbrev Locals := List (String × PV)
def Locals.get (L : Locals) (x : String) : PV := (L.lookup x).getD .unset
def Locals.set (L : Locals) (x : String) (v : PV) : Locals := (x, v) :: L

structure Parts where
  inits : List (String × Def)
  runs : List (String × Def)
  function : LambdaShape
  bridge : LambdaShape
  opInst : LambdaShape
  opCls : LambdaShape
  derived : LambdaShape
  domain : DomainShape
  enumNumbering : Numbering

def argVal (L : Locals) : Arg → Option PV
  | .name v => L.lookup v
  | .attr v a => match L.lookup v with
    | some .dom => if a = "metamodel" then some .dom else none
    | _ => none
  | .none => some (.val .none)

def argVals (L : Locals) : List Arg → Option (List PV)
  | [] => some []
  | a :: rest => match argVal L a, argVals L rest with
    | some v, some r => some (v :: r)
    | _, _ => none

def bindParams (ps : List String) (as : List PV) : Option Locals :=
  if ps.length = as.length then some (ps.zip as) else none

/-! ### constructors: `__init__` -/

abbrev Attrs := List (String × PV)

/-- the object a constructor call yields, from the attributes its `__init__` chain stored -/
def objOf (cls : String) (A : Attrs) : Option PV :=
  if cls = "SymbolTable" then some (.symtab none)
  else if cls = "InstanceSymbolTable" then
    match A.lookup "instance" with
    | some (.val v) => some (.symtab (some v))
    | _ => none
  else none

def initStmt (k : String → List PV → Attrs → Option Attrs) (L : Locals) : CStmt → Attrs → Option Attrs
  | .setSelf a (.local v), A => some ((a, L.get v) :: A)
  | .setSelf a (.construct c args), A =>
    match argVals L args with
    | some as =>
      match k c as [] with
      | some A' => match objOf c A' with
        | some o => some ((a, o) :: A)
        | none => none
      | none => none
    | none => none
  | .expr (.baseCall b m args), A => if m = "__init__" then k b (args.map L.get) A else none
  | _, _ => none

def initStmts (k : String → List PV → Attrs → Option Attrs) (L : Locals) : List CStmt → Attrs → Option Attrs
  | [], A => some A
  | s :: rest, A => match initStmt k L s A with
    | some A' => initStmts k L rest A'
    | none => none

/-- `<cls>.__init__(self, args…)` on an object with the attributes `A` (fuel = depth of the constructor chain) -/
def iInit (inits : List (String × Def)) : Nat → String → List PV → Attrs → Option Attrs
  | 0 => fun _ _ _ => none
  | n + 1 => fun cls args A =>
    match inits.lookup cls with
    | none => if cls = "SymbolTable" ∨ cls = "xtuml.Walker" then some A else none     -- constructors that store nothing modelled
    | some d =>
      match bindParams d.params args with
      | some L => initStmts (iInit inits n) L d.body A
      | none => none

/-- the frame of the reference semantics a walker object stands for: its class (= which accept_* methods it has), `kwargs`,
    `instance`, `attribute_name`, and the symbol table it ENDED UP with (the last assignment of `self.symtab`) -/
def frameOf (cls : String) (A : Attrs) : Option Frame :=
  match cls, A.lookup "symtab" with
  | "FunctionWalker", some (.symtab none) =>
    match A.lookup "kwargs" with
    | some (.kwargs kw) => some (mkFrame .function kw .none)
    | _ => none
  | "OperationWalker", some (.symtab (some s)) =>
    match A.lookup "kwargs", A.lookup "instance" with
    | some (.kwargs kw), some (.val v) => if s = v then some (mkFrame .operation kw v) else none
    | _, _ => none
  | "DerivedAttributeWalker", some (.symtab (some s)) =>
    match A.lookup "attribute_name", A.lookup "instance" with
    | some (.str a), some (.val (.inst i)) => if s = .inst i then some (mkFrame (.derived i a) [] (.inst i)) else none
    | _, _ => none
  | _, _ => none

def newWalker (P : Parts) (cls : String) (args : List PV) : Option Frame :=
  match iInit P.inits 4 cls args [] with
  | some A => frameOf cls A
  | none => none

/-! ### `run_function` / `run_operation` / `run_derived_attribute` -/

/-- `w.accept(root)`: the body runs in the walker's frame on the shared state; the caller's frame is untouched -/
def acceptOn (rec : Oracle) (fr : Frame) (b : Block) : M Frame := fun c =>
  match runBody rec b { fr := fr, st := c.st } with
  | none => none
  | some (.error e) => some (.error e)
  | some (.ok (_, c')) => some (.ok (c'.fr, { fr := c.fr, st := c'.st }))

def runStmts (P : Parts) (rec : Oracle) : List CStmt → Locals → M Val
  | [], _ => pure .none                                   -- falling off the end: None
  | .assign dst (.construct cls args) :: rest, L =>
    match argVals L args with
    | some as => runStmts P rec rest (L.set dst (.walker cls (newWalker P cls as)))
    | none => fail "constructor arguments"
  | .assign dst (.parse a _) :: rest, L =>
    match L.get a with
    | .body b => runStmts P rec rest (L.set dst (.body b))
    | _ => fail "parse of something that is not an action"
  | .expr (.acceptOn w r) :: rest, L =>
    match L.get w, L.get r with
    | .walker cls (some fr), .body b => do
      let fr' ← acceptOn rec fr b
      runStmts P rec rest (L.set w (.walker cls (some fr')))
    | _, _ => fail "accept"
  | .ret (.localAttr w a) :: _, L =>
    match L.get w with
    | .walker _ (some fr) => if a = "return_value" then pure fr.ret else fail "attribute of a walker"
    | _ => fail "not a walker"
  | .ret .none :: _, _ => pure .none
  | _ :: _, _ => fail "statement outside the run functions"

def iRun (P : Parts) (rec : Oracle) (d : Def) (args : List PV) : M Val :=
  match bindParams d.params args with
  | some L => runStmts P rec d.body L
  | none => fail "arguments of a run function"

/-! ### calling what `mk_*` made -/

/-- the free variables of the lambda: the enclosing `mk_*`'s parameters and bindings -/
def closureOf (f : Callable) : Locals :=
  [("metamodel", .dom), ("metaclass", .dom), ("label", .label), ("action", .body f.body), ("o_attr.Name", .str f.name)]

def callCallee (P : Parts) (rec : Oracle) (k : Callee) (pos : List PV) (kw : Option (List (String × Val))) : M Val :=
  let bound : Option (List String × Locals) :=
    if k.shape.wrap = some "classmethod" then
      match k.shape.params, k.viaClass with
      | p :: ps, some kl => some (ps, [(p, .sym (.cls kl))])
      | _, _ => none
    else some (k.shape.params, [])
  match bound with
  | none => fail "classmethod"
  | some (ps, L0) =>
    match bindParams ps pos, (match k.shape.kw, kw with
        | some n, some kws => some [(n, PV.kwargs kws)]
        | none, none => some []
        | _, _ => none) with
    | some L1, some L2 =>
      match argVals (L2 ++ L1 ++ L0 ++ closureOf k.f) k.shape.args, P.runs.lookup k.shape.callee with
      | some as, some d => iRun P rec d as
      | _, _ => fail "lambda body"
    | _, _ => fail "arguments of the call"

/-! ### handlers -/

/-- the node a handler is applied to -/
structure CNode where
  str : String → String := fun _ => ""
  acceptE : String → Option (M Val) := fun _ => none                        -- expression children
  acceptK : String → Option (M (List (String × Val))) := fun _ => none      -- the parameter list child
  children : List (String × M Val) := []                                    -- ParameterNode children: name, `.expression`

inductive Sig where
  | next
  | ret (v : PV)

def strOf (nd : CNode) (L : Locals) : Str → M String
  | .field f => pure (nd.str f)
  | .lit s => pure s
  | .localField v f => match L.get v with
    | .param n _ => if f = "name" then pure n else fail "field of a parameter node"
    | _ => fail "field of a local"

def classAttr (C : Ctx) (P : Parts) (kl name : String) : M PV :=
  match findCallable C (fun f => f.kind = .classOp kl ∧ f.name = name) with
  | some f => pure (.callee ⟨P.opCls, f, some kl⟩)
  | none =>
    match findCallable C (fun f => f.kind = .instOp kl ∧ f.name = name) with
    | some f => pure (.callee ⟨P.opInst, f, some kl⟩)
    | none => fail ("unknown operation " ++ name)

def getattrSym (C : Ctx) (P : Parts) (s : Sym) (name : String) : M PV :=
  match s with
  | .ee ns =>
    match findCallable C (fun f => f.kind = .bridge ns ∧ f.name = name) with
    | some f => pure (.callee ⟨P.bridge, f, none⟩)
    | none => fail ("unknown " ++ ns ++ "::" ++ name)
  | .cls kl => classAttr C P kl name
  | .enum d =>
    match P.enumNumbering, posOf name d.enumerators with
    | .rangeLen, some k => pure (.val (.int k))
    | .rangeLen, none => fail ("unknown enumerator " ++ name)
  | _ => fail "getattr"

def iExpr (C : Ctx) (P : Parts) (D : Dom) (rec : Oracle) (nd : CNode) (L : Locals) : CExpr → M PV
  | .local v => pure (L.get v)
  | .none => pure (.val .none)
  | .newDict => pure (.kwargs [])
  | .accept child =>
    match nd.acceptK child with
    | some m => do
      let kw ← m
      pure (.kwargs kw)
    | none =>
      match nd.acceptE child with
      | some m => do
        let v ← m
        pure (.val v)
      | none => fail "accept"
  | .acceptFget child =>
    match nd.acceptE child with
    | some m => do
      let v ← m
      pure (.val v)
    | none => fail "fget of something that is not an expression"
  | .acceptOfFget v f =>
    match L.get v with
    | .param _ e => if f = "expression" then do
        let x ← e
        pure (.val x)
      else fail "field of a parameter node"
    | _ => fail "not a parameter node"
  | .domainFind name kinds _ => do
    let n ← strOf nd L name
    match iFind P.domain D n kinds with
    | some s => pure (.sym s)
    | none => fail ("Unknown symbol " ++ n)
  | .getattr obj name => do
    let n ← strOf nd L name
    match L.get obj with
    | .sym s => getattrSym C P s n
    | _ => fail "getattr"
  | .getattrClass obj name => do
    let n ← strOf nd L name
    match L.get obj with
    | .val v => do
      let i ← asInst v
      classAttr C P i.cls n
    | _ => fail "getattr"
  | .callKw fn pos kw =>
    match L.get kw with
    | .kwargs kws =>
      match L.get fn with
      | .callee k => do
        let v ← callCallee P rec k (pos.map L.get) (some kws)
        pure (.val v)
      | .sym (.fn f) => do
        let v ← callCallee P rec ⟨P.function, f, none⟩ (pos.map L.get) (some kws)
        pure (.val v)
      | .sym (.cls kl) =>
        -- Python instantiates the class (`A()` delivers a detached instance, `A(x: 1)` a TypeError): no counterpart in the
        -- reference semantics; flagged, never equated
        fail ("OUTSIDE THE MODEL: the class " ++ kl ++ " is called")
      | _ => fail "call of something that is not callable"
    | _ => fail "** of something that is not a dict"
  | .property v =>
    match L.get v with
    | .val x => pure (.val x)
    | _ => fail "property of something that is not a value"
  | .propertySelf a => do
    let fr ← getFr
    if a = "instance" then pure (.val fr.self) else fail "walker attribute"
  | .selfAttr a => do
    let fr ← getFr
    if a = "instance" then pure (.val fr.self) else if a = "return_value" then pure (.val fr.ret) else fail "walker attribute"
  | .selfAttrAt a key => do
    let k ← strOf nd L key
    let fr ← getFr
    if a = "kwargs" then
      match fr.params k with
      | some v => pure (.val v)
      | none => fail ("missing parameter " ++ k)
    else fail "walker attribute"
  | .propertyAttr obj name => do
    let n ← strOf nd L name
    if obj = "self" then (if n = "return_value" then pure .reg else fail "walker attribute")
    else match L.get obj with
      | .val v => do
        let i ← asInst v
        pure (.lval i n)
      | _ => fail "attribute of something that is not a value"
  | _ => fail "expression outside the handlers"

/-- `node.<f> == self.<attr>` / `<v> == self.<attr>` in a derived attribute walker -/
def iCond (nd : CNode) (L : Locals) (fr : Frame) : Cond → Bool
  | .fieldEqSelf f a => match fr.kind with
    | .derived _ attr => a = "attribute_name" && nd.str f == attr
    | _ => false
  | .localEqSelf v a => match L.get v with
    | .val x => a = "instance" && decide (x = fr.self)
    | _ => false
  | .both a b => iCond nd L fr a && iCond nd L fr b
  | .lowerEq _ _ => false

def cLoop (body : (String × M Val) → Locals → M (Locals × Sig)) : List (String × M Val) → Locals → M (Locals × Sig)
  | [], L => pure (L, .next)
  | x :: rest, L => do
    let r ← body x L
    match r.2 with
    | .next => cLoop body rest r.1
    | s => pure (r.1, s)

def thenSig (r : Locals × Sig) (k : Locals → M (Locals × Sig)) : M (Locals × Sig) :=
  match r.2 with
  | .next => k r.1
  | s => pure (r.1, s)

mutual
  def iStmt (C : Ctx) (P : Parts) (D : Dom) (rec : Oracle) (nd : CNode) : CStmt → Locals → M (Locals × Sig)
    | .assign dst e, L => do
      let v ← iExpr C P D rec nd L e
      pure (L.set dst v, .next)
    | .setItem dict key v, L => do
      let k ← strOf nd L key
      match L.get dict, L.get v with
      | .kwargs kw, .val x => pure (L.set dict (.kwargs (kw ++ [(k, x)])), .next)
      | _, _ => fail "item assignment"
    | .setSelf _ _, _ => fail "a handler stores into the walker"
    | .setSelfItem _ _ _, _ => fail "a handler stores into the walker"
    | .expr e, L => do
      let _ ← iExpr C P D rec nd L e
      pure (L, .next)
    | .ret e, L => do
      let v ← iExpr C P D rec nd L e
      pure (L, .ret v)
    | .forChildren var body, L =>
      cLoop (fun ch L' => iStmts C P D rec nd body (L'.set var (.param ch.1 ch.2))) nd.children L
    | .ifCond c thn els, L => do
      let fr ← getFr
      if iCond nd L fr c then iStmts C P D rec nd thn L else iStmts C P D rec nd els L
  def iStmts (C : Ctx) (P : Parts) (D : Dom) (rec : Oracle) (nd : CNode) : List CStmt → Locals → M (Locals × Sig)
    | [], L => pure (L, .next)
    | s :: rest, L => do
      let r ← iStmt C P D rec nd s L
      thenSig r (iStmts C P D rec nd rest)
end

theorem thenSig_next (L : Locals) (k : Locals → M (Locals × Sig)) : thenSig (L, .next) k = k L := rfl
theorem thenSig_ret (L : Locals) (v : PV) (k : Locals → M (Locals × Sig)) : thenSig (L, .ret v) k = pure (L, .ret v) := rfl
theorem thenSig_pure (r : Locals × Sig) : thenSig r (fun L => pure (L, .next)) = pure r := by
  cases r with | mk a b => cases b <;> rfl

/-- an expression handler: the value of the property it returns -/
def sigE : Sig → M Val
  | .ret (.val v) => pure v
  | _ => fail "the handler did not return a property"

def handlerE (C : Ctx) (P : Parts) (D : Dom) (rec : Oracle) (nd : CNode) (body : List CStmt) : M Val := do
  let r ← iStmts C P D rec nd body []
  sigE r.2

/-- `accept_ParameterListNode`: the dict it returns -/
def sigK : Sig → M (List (String × Val))
  | .ret (.kwargs kw) => pure kw
  | _ => fail "the handler did not return a dict"

def handlerK (C : Ctx) (P : Parts) (D : Dom) (rec : Oracle) (nd : CNode) (body : List CStmt) : M (List (String × Val)) := do
  let r ← iStmts C P D rec nd body []
  sigK r.2

/-! ### `InstanceSymbolTable.find_symbol` -/

/-- `SymbolTable.find_symbol` (its IR: Gen/InterpShape.lean `symtab`): the scope, then the domain's constants -/
def plainFind (C : Ctx) (x : String) : M Val := do
  let fr ← getFr
  match envLookup fr.env x with
  | some v => pure v
  | none =>
    match C.consts.lookup x with
    | some v => pure v
    | none => fail ("variable " ++ x ++ " is not set")

def symFindRet (C : Ctx) (x : String) : CStmt → Option (M Val)
  | .ret (.selfAttr a) => some (do
    let fr ← getFr
    if a = "instance" then pure fr.self else fail "attribute")
  | .ret (.baseCall b m args) =>
    some (if b = "SymbolTable" ∧ m = "find_symbol" ∧ args = ["name", "default"] then plainFind C x else fail "base call")
  | _ => none

/-- a branch without nesting: its first statement returns, or it is empty (falls through) -/
def symFindFlat (C : Ctx) (x : String) : List CStmt → Option (M Val)
  | [] => none
  | s :: _ => some ((symFindRet C x s).getD (fail "statement outside find_symbol"))

/-- `find_symbol(self, name, default)` with `name` = x -/
def symFindStmts (C : Ctx) (x : String) : List CStmt → M Val
  | [] => pure .none
  | .ifCond (.lowerEq v lit) thn els :: rest =>
    match (if v = "name" ∧ x.map Char.toLower == lit then symFindFlat C x thn else symFindFlat C x els) with
    | some m => m
    | none => symFindStmts C x rest
  | s :: _ => (symFindRet C x s).getD (fail "statement outside find_symbol")

/-! ### `mk_enum`, `mk_constant` -/

/-- `one(r).S_ENUM[56, phrase]()` on the S_ENUM rows: 'succeeds' = the row `r` comes after, 'precedes' = the row that comes
    after `r` (the phrases of R56 in the ooaofooa schema) -/
def navEnum (rows : List EnumRow) (phrase : String) (r : EnumRow) : Option EnumRow :=
  if phrase = "succeeds" then rows.find? (fun r' => r'.id = r.prev)
  else if phrase = "precedes" then rows.find? (fun r' => r'.prev = r.id)
  else none

def iChain (rows : List EnumRow) (phrase : String) : Nat → Option EnumRow → List String
  | 0, _ => []
  | _, none => []
  | n + 1, some r => r.name :: iChain rows phrase n (navEnum rows phrase r)

/-- `mk_enum` on rows whose names are no Python keywords: the fields of the namedtuple in order -/
def iEnumOrder (sh : EnumShape) (rows : List EnumRow) : List String :=
  iChain rows sh.stepPhrase rows.length
    (rows.find? (fun r => (navEnum rows sh.firstPhrase r).isSome != sh.firstNegated))

def convOf (text : String) : Conv → Option Val
  | .lowerIsTrue => some (.bool (text.map Char.toLower == "true"))
  | .int => (parseInt text).map Val.int
  | .float => none                  -- reals are outside the value domain of the reference semantics
  | .str => some (.str text)

/-- `mk_constant`: the first `if s_dt.Name == <type>` that holds; falling off the end returns None (no constant) -/
def iConst : List (String × Conv) → String → String → Option Val
  | [], _, _ => none
  | (ty, c) :: rest, tyName, text => if tyName = ty then convOf text c else iConst rest tyName text

/-! ==========================================================================================================
  the clauses of `Spec` / `Model` equal the interpretation of the IR generated from the current source
  ========================================================================================================== -/

/-- the pieces generated from the current source -/
def gen : Parts :=
  { inits := inits, runs := runs, function := mk_function, bridge := mk_bridge, opInst := mk_operation_instance_based,
    opCls := mk_operation_class_based, derived := mk_derived_attribute, domain := domain, enumNumbering := mk_enum.numbering }

open Pyx.IShape (bind_run pure_run fail_run bnd_ok)

/-- unfold the generic interpreter on a concrete IR and normalise the monadic expression -/
macro "cshape" "[" ts:Lean.Parser.Tactic.simpLemma,* "]" : tactic =>
  `(tactic| simp only [handlerE, handlerK, sigE, sigK, iStmts, iStmt, iExpr, strOf, evalStep, bind_assoc, pure_bind,
      Locals.get, Locals.set, List.lookup, thenSig_next, thenSig_ret, thenSig_pure, bind_pure, ↓reduceIte, String.reduceEq,
      String.reduceBEq, Option.getD_some, Option.getD_none, reduceCtorEq, List.map, $ts,*])

/-! ### constructors and run functions -/

theorem newWalker_function (kw : List (String × Val)) :
    newWalker gen "FunctionWalker" [.dom, .kwargs kw] = some (mkFrame .function kw .none) := by
  simp [newWalker, gen, iInit, inits, FunctionWalker_init, ActionWalker_init, bindParams, initStmts, initStmt, argVals, argVal,
    objOf, frameOf, Locals.get, List.lookup, List.zip]

theorem newWalker_operation (kw : List (String × Val)) (v : Val) :
    newWalker gen "OperationWalker" [.dom, .kwargs kw, .val v] = some (mkFrame .operation kw v) := by
  simp [newWalker, gen, iInit, inits, OperationWalker_init, ActionWalker_init, InstanceSymbolTable_init, bindParams, initStmts,
    initStmt, argVals, argVal, objOf, frameOf, Locals.get, List.lookup, List.zip]

theorem newWalker_derived (a : String) (i : Inst) :
    newWalker gen "DerivedAttributeWalker" [.dom, .str a, .val (.inst i)] = some (mkFrame (.derived i a) [] (.inst i)) := by
  simp [newWalker, gen, iInit, inits, DerivedAttributeWalker_init, ActionWalker_init, InstanceSymbolTable_init, bindParams,
    initStmts, initStmt, argVals, argVal, objOf, frameOf, Locals.get, List.lookup, List.zip]

/-- `w.accept(root); return w.return_value` = `invoke` -/
theorem acceptOn_ret (rec : Oracle) (kind : WalkerKind) (body : Block) (kw : List (String × Val)) (self : Val) :
    (do let fr' ← acceptOn rec (mkFrame kind kw self) body
        pure fr'.ret) = invoke rec kind body kw self := by
  funext c
  simp only [bind_run, acceptOn, invoke]
  cases runBody rec body { fr := mkFrame kind kw self, st := c.st } with
  | none => rfl
  | some r => cases r with
    | error e => rfl
    | ok p => rfl

theorem run_function_eq (rec : Oracle) (body : Block) (kw : List (String × Val)) :
    iRun gen rec run_function [.dom, .label, .body body, .kwargs kw] = invoke rec .function body kw .none := by
  simp only [iRun, run_function, bindParams, List.length, ↓reduceIte, List.zip, List.zipWith, runStmts, argVals, argVal,
    List.lookup, String.reduceBEq, Locals.get, Locals.set, Option.getD_some, newWalker_function, String.reduceEq]
  exact acceptOn_ret rec .function body kw .none

theorem run_operation_eq (rec : Oracle) (body : Block) (kw : List (String × Val)) (v : Val) :
    iRun gen rec run_operation [.dom, .label, .body body, .kwargs kw, .val v] = invoke rec .operation body kw v := by
  simp only [iRun, run_operation, bindParams, List.length, ↓reduceIte, List.zip, List.zipWith, runStmts, argVals, argVal,
    List.lookup, String.reduceBEq, Locals.get, Locals.set, Option.getD_some, newWalker_operation, String.reduceEq]
  exact acceptOn_ret rec .operation body kw v

theorem run_derived_eq (rec : Oracle) (body : Block) (a : String) (i : Inst) :
    iRun gen rec run_derived_attribute [.dom, .label, .body body, .str a, .val (.inst i)] =
      invoke rec (.derived i a) body [] (.inst i) := by
  simp only [iRun, run_derived_attribute, bindParams, List.length, ↓reduceIte, List.zip, List.zipWith, runStmts, argVals, argVal,
    List.lookup, String.reduceBEq, Locals.get, Locals.set, Option.getD_some, newWalker_derived, String.reduceEq]
  exact acceptOn_ret rec (.derived i a) body [] (.inst i)

/-! ### what the `mk_*` constructors bind -/

theorem call_function_eq (rec : Oracle) (f : Callable) (kw : List (String × Val)) :
    callCallee gen rec ⟨mk_function, f, none⟩ [] (some kw) = invoke rec .function f.body kw .none := by
  simp only [callCallee, mk_function, gen, runs, closureOf, bindParams, argVals, argVal, List.lookup, List.length, List.zip,
    List.zipWith, List.append, List.nil_append, List.cons_append, ↓reduceIte, String.reduceBEq, String.reduceEq, reduceCtorEq,
    Option.some.injEq]
  exact run_function_eq rec f.body kw

theorem call_bridge_eq (rec : Oracle) (f : Callable) (kw : List (String × Val)) :
    callCallee gen rec ⟨mk_bridge, f, none⟩ [] (some kw) = invoke rec .function f.body kw .none := by
  simp only [callCallee, mk_bridge, gen, runs, closureOf, bindParams, argVals, argVal, List.lookup, List.length, List.zip,
    List.zipWith, List.append, List.nil_append, List.cons_append, ↓reduceIte, String.reduceBEq, String.reduceEq, reduceCtorEq,
    Option.some.injEq]
  exact run_function_eq rec f.body kw

theorem call_opInst_eq (rec : Oracle) (f : Callable) (kl : Option String) (v : Val) (kw : List (String × Val)) :
    callCallee gen rec ⟨mk_operation_instance_based, f, kl⟩ [.val v] (some kw) = invoke rec .operation f.body kw v := by
  simp only [callCallee, mk_operation_instance_based, gen, runs, closureOf, bindParams, argVals, argVal, List.lookup, List.length,
    List.zip, List.zipWith, List.append, List.nil_append, List.cons_append, ↓reduceIte, String.reduceBEq, String.reduceEq,
    reduceCtorEq, Option.some.injEq]
  exact run_operation_eq rec f.body kw v

theorem call_opCls_eq (rec : Oracle) (f : Callable) (kl : String) (kw : List (String × Val)) :
    callCallee gen rec ⟨mk_operation_class_based, f, some kl⟩ [] (some kw) = invoke rec .operation f.body kw .none := by
  simp only [callCallee, mk_operation_class_based, gen, runs, closureOf, bindParams, argVals, argVal, List.lookup, List.length,
    List.zip, List.zipWith, List.append, List.nil_append, List.cons_append, ↓reduceIte, String.reduceBEq, String.reduceEq,
    reduceCtorEq, Option.some.injEq]
  exact run_operation_eq rec f.body kw .none

theorem call_derived_eq (rec : Oracle) (f : Callable) (kl : Option String) (i : Inst) :
    callCallee gen rec ⟨mk_derived_attribute, f, kl⟩ [.val (.inst i)] none =
      invoke rec (.derived i f.name) f.body [] (.inst i) := by
  simp only [callCallee, mk_derived_attribute, gen, runs, closureOf, bindParams, argVals, argVal, List.lookup, List.length,
    List.zip, List.zipWith, List.append, List.nil_append, List.cons_append, ↓reduceIte, String.reduceBEq, String.reduceEq,
    reduceCtorEq, Option.some.injEq]
  exact run_derived_eq rec f.body f.name i

/-! ### the parameter list -/

def paramNodes (rec : Oracle) (args : List (String × Expr)) : List (String × M Val) :=
  args.map (fun a => (a.1, rec.eval a.2))

/-- the locals after one round of the loop of accept_ParameterListNode -/
def pstep (x : String × M Val) (v : Val) (L : Locals) (acc : List (String × Val)) : Locals :=
  ("kwargs", .kwargs (acc ++ [(x.1, v)])) :: ("value", .val v) :: ("child", .param x.1 x.2) :: L

theorem evalArgs_loop (rec : Oracle) (body : (String × M Val) → Locals → M (Locals × Sig))
    (K : Locals × Sig → M (List (String × Val)))
    (hb : ∀ x L acc, L.get "kwargs" = .kwargs acc → body x L = do let v ← x.2; pure (pstep x v L acc, .next))
    (hK : ∀ L acc, L.get "kwargs" = .kwargs acc → K (L, .next) = pure acc) :
    ∀ (args : List (String × Expr)) (L : Locals) (acc : List (String × Val)), L.get "kwargs" = .kwargs acc →
      (do let r ← cLoop body (paramNodes rec args) L
          K r) = (do let r ← evalArgs rec args; pure (acc ++ r))
  | [], L, acc, h => by
    simp only [paramNodes, List.map, cLoop, pure_bind, hK L acc h, evalArgs, List.append_nil]
  | (n, e) :: rest, L, acc, h => by
    have ih := evalArgs_loop rec body K hb hK rest
    simp only [paramNodes, List.map, cLoop, hb _ L acc h, bind_assoc, pure_bind, evalArgs]
    apply bind_congr; intro v
    have := ih (pstep (n, rec.eval e) v L acc) (acc ++ [(n, v)]) rfl
    simp only [paramNodes] at this
    rw [this]
    simp only [bind_assoc, pure_bind, List.append_assoc, List.cons_append, List.nil_append]

theorem paramList_eq (C : Ctx) (P : Parts) (D : Dom) (rec : Oracle) (args : List (String × Expr)) :
    evalArgs rec args = handlerK C P D rec { children := paramNodes rec args } accept_ParameterListNode := by
  have h := evalArgs_loop rec
    (fun ch L' => iStmts C P D rec { children := paramNodes rec args }
      [.assign "value" (.acceptOfFget "child" "expression"), .setItem "kwargs" (.localField "child" "name") "value"]
      (L'.set "child" (.param ch.1 ch.2)))
    (fun r => do
      let r' ← thenSig r (iStmts C P D rec { children := paramNodes rec args } [.ret (.local "kwargs")])
      sigK r'.2) ?_ ?_ args [("kwargs", .kwargs [])] [] rfl
  · simp only [List.nil_append, bind_pure] at h
    rw [← h]
    simp only [handlerK, accept_ParameterListNode, iStmts, iStmt, iExpr, bind_assoc, pure_bind, Locals.set, thenSig_next]
  · intro x L acc hacc
    have hacc' : (List.lookup "kwargs" L).getD PV.unset = PV.kwargs acc := hacc
    cshape [pstep, hacc']
  · intro L acc hacc
    have hacc' : (List.lookup "kwargs" L).getD PV.unset = PV.kwargs acc := hacc
    cshape [hacc']

/-! ### `Domain.find_symbol` as generated -/

theorem iFind_hit (D : Dom) (name k : String) (ks : List String) (s : Sym) (h : D.byKind k name = some s) :
    iFind domain D name (k :: ks) = some s := by
  simp [iFind, domain, probe, List.flatMap, List.findSome?, h]

theorem iFind_skip (D : Dom) (name k : String) (ks : List String) (h : D.byKind k name = none)
    (hk : k ≠ "class" ∨ D.isMetaclass name = false) : iFind domain D name (k :: ks) = iFind domain D name ks := by
  rcases hk with hk | hk <;> simp [iFind, domain, probe, List.flatMap, List.findSome?, h, hk]

theorem iFind_class (D : Dom) (name : String) (ks : List String) (s : Sym) (h : D.byKind "class" name = none)
    (hm : D.isMetaclass name = true) (hc : D.findClass name = some s) : iFind domain D name ("class" :: ks) = some s := by
  simp [iFind, domain, probe, List.flatMap, List.findSome?, h, hm, hc]

theorem findCallable_some {C : Ctx} {p : Callable → Bool} {f : Callable} (h : findCallable C p = some f) :
    p f = true ∧ f ∈ C.callables := ⟨List.find?_some h, List.mem_of_find?_eq_some h⟩

theorem hasBridges_of_found {C : Ctx} {ns name : String} {f : Callable}
    (h : findCallable C (fun f => f.kind = .bridge ns ∧ f.name = name) = some f) : hasBridges C ns = true ∧ f.kind = .bridge ns := by
  obtain ⟨hp, hm⟩ := findCallable_some h
  simp only [decide_eq_true_eq] at hp
  exact ⟨List.any_eq_true.mpr ⟨f, hm, by simp [hp.1]⟩, hp.1⟩

theorem no_bridge_of_none {C : Ctx} {ns : String} (h : hasBridges C ns = false) (name : String) :
    findCallable C (fun f => f.kind = .bridge ns ∧ f.name = name) = none := by
  apply List.find?_eq_none.mpr
  intro f hf
  have := (List.any_eq_false.mp h) f hf
  simp only [decide_eq_true_eq] at this
  simp [this]

/-! ### the five invocation handlers -/

/-- the node of an invocation: its names, its handle, and its parameter list — accepted by the INTERPRETED
    accept_ParameterListNode -/
def invNode (C : Ctx) (P : Parts) (D : Dom) (rec : Oracle) (fields : List (String × String)) (h : Option (M Val))
    (args : List (String × Expr)) : CNode :=
  { str := fun f => (fields.lookup f).getD ""
    acceptE := fun f => if f = "handle" then h else none
    acceptK := fun f => if f = "parameter_list"
      then some (handlerK C P D rec { children := paramNodes rec args } accept_ParameterListNode) else none }

theorem function_call_eq (C : Ctx) (u : String → Option Sym) (rec : Oracle) (name : String) (args : List (String × Expr))
    (f : Callable) (hf : findCallable C (fun f => f.kind = .function ∧ f.name = name) = some f) :
    evalStep C rec (.call .function name args) =
      handlerE C gen (domOf C u) rec (invNode C gen (domOf C u) rec [("action_name", name)] none args)
        accept_FunctionInvocationNode := by
  have hfind : iFind gen.domain (domOf C u) name ["function"] = some (.fn f) :=
    iFind_hit _ _ _ _ _ (by simp only [domOf, ↓reduceIte, hf, Option.map_some])
  have hfn : gen.function = mk_function := rfl
  cshape [accept_FunctionInvocationNode, invNode, hfind, hf, hfn, call_function_eq]
  rw [paramList_eq C gen (domOf C u) rec args]; simp only [handlerK, bind_assoc]; rfl

theorem bridge_call_eq (C : Ctx) (u : String → Option Sym) (rec : Oracle) (ns name : String) (args : List (String × Expr))
    (f : Callable) (hb : findCallable C (fun f => f.kind = .bridge ns ∧ f.name = name) = some f) :
    evalStep C rec (.call (.bridge ns) name args) =
      handlerE C gen (domOf C u) rec (invNode C gen (domOf C u) rec [("namespace", ns), ("action_name", name)] none args)
        accept_BridgeInvocationNode := by
  obtain ⟨hee, hk⟩ := hasBridges_of_found hb
  have hfind : iFind gen.domain (domOf C u) ns ["external entity"] = some (.ee ns) :=
    iFind_hit _ _ _ _ _ (by simp only [domOf, ↓reduceIte, String.reduceEq, hee])
  have hfn : gen.bridge = mk_bridge := rfl
  cshape [accept_BridgeInvocationNode, invNode, hfind, resolveNs, hb, hk, hfn, call_bridge_eq, getattrSym]
  rw [paramList_eq C gen (domOf C u) rec args]; simp only [handlerK, bind_assoc]; rfl

theorem implicit_bridge_call_eq (C : Ctx) (u : String → Option Sym) (rec : Oracle) (ns name : String)
    (args : List (String × Expr)) (f : Callable)
    (hb : findCallable C (fun f => f.kind = .bridge ns ∧ f.name = name) = some f) :
    evalStep C rec (.call (.implicit ns) name args) =
      handlerE C gen (domOf C u) rec (invNode C gen (domOf C u) rec [("namespace", ns), ("action_name", name)] none args)
        accept_ImplicitInvocationNode := by
  obtain ⟨hee, hk⟩ := hasBridges_of_found hb
  have hfind : iFind gen.domain (domOf C u) ns ["external entity", "class"] = some (.ee ns) :=
    iFind_hit _ _ _ _ _ (by simp only [domOf, ↓reduceIte, String.reduceEq, hee])
  have hfn : gen.bridge = mk_bridge := rfl
  cshape [accept_ImplicitInvocationNode, invNode, hfind, resolveNs, hb, hk, hfn, call_bridge_eq, getattrSym]
  rw [paramList_eq C gen (domOf C u) rec args]; simp only [handlerK, bind_assoc]; rfl

theorem classOp_kind {C : Ctx} {ns name : String} {f : Callable}
    (h : findCallable C (fun f => f.kind = .classOp ns ∧ f.name = name) = some f) : f.kind = .classOp ns := by
  have := (findCallable_some h).1
  simp only [decide_eq_true_eq] at this
  exact this.1

theorem implicit_classOp_call_eq (C : Ctx) (u : String → Option Sym) (rec : Oracle) (ns name : String)
    (args : List (String × Expr)) (f : Callable) (hne : hasBridges C ns = false) (hcls : (findClass C ns).isSome = true)
    (hc : findCallable C (fun f => f.kind = .classOp ns ∧ f.name = name) = some f) :
    evalStep C rec (.call (.implicit ns) name args) =
      handlerE C gen (domOf C u) rec (invNode C gen (domOf C u) rec [("namespace", ns), ("action_name", name)] none args)
        accept_ImplicitInvocationNode := by
  have hfind : iFind gen.domain (domOf C u) ns ["external entity", "class"] = some (.cls ns) := by
    show iFind domain _ _ _ = _
    rw [iFind_skip _ _ _ _ (by simp [domOf, hne]) (.inl (by decide))]
    exact iFind_class _ _ _ _ (by simp [domOf]) (by simp [domOf, hcls]) (by simp [domOf, hcls])
  have hfn : gen.opCls = mk_operation_class_based := rfl
  have hk := classOp_kind hc
  cshape [accept_ImplicitInvocationNode, invNode, hfind, resolveNs, no_bridge_of_none hne, hc, hk, hfn,
    call_opCls_eq, getattrSym, classAttr]
  rw [paramList_eq C gen (domOf C u) rec args]; simp only [handlerK, bind_assoc]; rfl

theorem class_call_eq (C : Ctx) (u : String → Option Sym) (rec : Oracle) (ns name : String)
    (args : List (String × Expr)) (f : Callable)
    (hcls : (findClass C ns).isSome = true)
    (hc : findCallable C (fun f => f.kind = .classOp ns ∧ f.name = name) = some f) :
    evalStep C rec (.call (.classOp ns) name args) =
      handlerE C gen (domOf C u) rec (invNode C gen (domOf C u) rec [("key_letter", ns), ("action_name", name)] none args)
        accept_ClassInvocationNode := by
  have hfind : iFind gen.domain (domOf C u) ns ["class"] = some (.cls ns) :=
    iFind_class _ _ _ _ (by simp [domOf]) (by simp [domOf, hcls]) (by simp [domOf, hcls])
  have hfn : gen.opCls = mk_operation_class_based := rfl
  have hk := classOp_kind hc
  cshape [accept_ClassInvocationNode, invNode, hfind, hc, hk, hfn, call_opCls_eq, getattrSym,
    classAttr]
  rw [paramList_eq C gen (domOf C u) rec args]; simp only [handlerK, bind_assoc]; rfl

theorem instance_call_eq (C : Ctx) (u : String → Option Sym) (rec : Oracle) (h : Expr) (name : String)
    (args : List (String × Expr))
    (hnc : ∀ kl, findCallable C (fun f => f.kind = .classOp kl ∧ f.name = name) = none) :
    evalStep C rec (.callInst h name args) =
      handlerE C gen (domOf C u) rec (invNode C gen (domOf C u) rec [("action_name", name)] (some (rec.eval h)) args)
        accept_InstanceInvocationNode := by
  have hfn : gen.opInst = mk_operation_instance_based := rfl
  cshape [accept_InstanceInvocationNode, invNode, classAttr, hnc]
  apply bind_congr; intro hv
  cases hv <;> try rfl
  rename_i i
  simp only [asInst, pure_bind]
  cases hf : findCallable C (fun f => f.kind = .instOp i.cls ∧ f.name = name) with
  | none => rfl
  | some f =>
    cshape [hfn, call_opInst_eq]
    rw [paramList_eq C gen (domOf C u) rec args]; simp only [handlerK, bind_assoc]; rfl

/-! ### enumerators, parameters, self -/

theorem enumerator_eq (C : Ctx) (u : String → Option Sym) (rec : Oracle) (ns name : String) (d : EnumDecl)
    (hd : C.enums.find? (fun d => d.name = ns) = some d) :
    evalStep C rec (.enumOrConst ns name) =
      handlerE C gen (domOf C u) rec { str := fun f => ([("namespace", ns), ("name", name)].lookup f).getD "" }
        accept_EnumOrNamedConstantNode := by
  have hfind : iFind gen.domain (domOf C u) ns ["enumeration"] = some (.enum d) :=
    iFind_hit _ _ _ _ _ (by simp only [domOf, ↓reduceIte, String.reduceEq, hd, Option.map_some])
  have hn : gen.enumNumbering = .rangeLen := rfl
  cshape [accept_EnumOrNamedConstantNode, hfind, hd, getattrSym, hn]
  cases posOf name d.enumerators <;> rfl

def paramNode (x : String) : CNode := { str := fun f => if f = "variable_name" then x else "" }

theorem param_function_eq (C : Ctx) (P : Parts) (D : Dom) (rec : Oracle) (x : String) (c : Cfg)
    (hk : c.fr.kind = .function) :
    evalStep C rec (.param x) c = handlerE C P D rec (paramNode x) FunctionWalker_accept_ParamAccessNode c := by
  cshape [FunctionWalker_accept_ParamAccessNode, paramNode]
  simp only [bind_run, show getFr c = some (.ok (c.fr, c)) from rfl, hk]
  cases c.fr.params x <;> rfl

theorem param_operation_eq (C : Ctx) (P : Parts) (D : Dom) (rec : Oracle) (x : String) (c : Cfg)
    (hk : c.fr.kind = .operation) :
    evalStep C rec (.param x) c = handlerE C P D rec (paramNode x) OperationWalker_accept_ParamAccessNode c := by
  cshape [OperationWalker_accept_ParamAccessNode, paramNode]
  simp only [bind_run, show getFr c = some (.ok (c.fr, c)) from rfl, hk]
  cases c.fr.params x <;> rfl

theorem self_operation_eq (C : Ctx) (P : Parts) (D : Dom) (rec : Oracle) (c : Cfg) (hk : c.fr.kind ≠ .function) :
    evalStep C rec .self c = handlerE C P D rec {} OperationWalker_accept_SelfAccessNode c ∧
    evalStep C rec .self c = handlerE C P D rec {} DerivedAttributeWalker_accept_SelfAccessNode c := by
  constructor <;>
  · cshape [OperationWalker_accept_SelfAccessNode, DerivedAttributeWalker_accept_SelfAccessNode]
    simp only [bind_run, show getFr c = some (.ok (c.fr, c)) from rfl]
    try (cases hkk : c.fr.kind <;> first | exact absurd hkk hk | rfl)

/-- the name `self`: `InstanceSymbolTable.find_symbol` in operations and derived attributes, the plain table in functions -/
theorem self_name_eq (C : Ctx) (x : String) (c : Cfg) :
    (c.fr.kind ≠ .function → lookupVar C x c = symFindStmts C x InstanceSymbolTable_find_symbol c) ∧
    (c.fr.kind = .function → lookupVar C x c = plainFind C x c) := by
  constructor
  · intro hk
    have hs : selfHit c.fr x = (x.map Char.toLower == "self") := by
      cases hkk : c.fr.kind <;> simp_all [selfHit, isSelfName]
    simp only [lookupVar, InstanceSymbolTable_find_symbol, symFindStmts, symFindFlat, symFindRet, bind_run,
      show getFr c = some (.ok (c.fr, c)) from rfl, hs, true_and, Option.getD_some]
    cases hx : (x.map Char.toLower == "self")
    · simp only [Bool.false_eq_true, ↓reduceIte, plainFind, bind_run, show getFr c = some (.ok (c.fr, c)) from rfl, and_self]
      rfl
    · simp only [↓reduceIte, bind_run, show getFr c = some (.ok (c.fr, c)) from rfl]
  · intro hk
    have hs : selfHit c.fr x = false := by simp [selfHit, hk]
    simp only [lookupVar, plainFind, bind_run, show getFr c = some (.ok (c.fr, c)) from rfl, hs, Bool.false_eq_true, ↓reduceIte]
    rfl

/-! ### `mk_enum`, `mk_constant` -/

theorem enumChain_eq (rows : List EnumRow) : ∀ n r, enumChain rows n r = iChain rows mk_enum.stepPhrase n r
  | 0, _ => rfl
  | n + 1, none => rfl
  | n + 1, some r => by
    simp only [enumChain, iChain, enumChain_eq rows n]
    rfl

theorem enumOrder_eq (rows : List EnumRow) : enumOrder rows = iEnumOrder mk_enum rows := by
  simp only [enumOrder, iEnumOrder, enumChain_eq]
  congr 2
  funext r
  simp only [EnumRow.isFirst, mk_enum, navEnum, ↓reduceIte, bne_iff_ne, ne_eq, Bool.not_eq_eq_eq_not, Bool.not_true]
  rw [Bool.eq_iff_iff]
  simp [List.find?_isSome, List.any_eq_true]

theorem constVal_eq (tyName text : String) : constVal tyName text = iConst mk_constant tyName text := by
  simp only [constVal, iConst, mk_constant, convOf]
  by_cases h1 : tyName = "boolean"
  · simp [h1]
  · by_cases h2 : tyName = "integer"
    · simp [h2]
    · by_cases h3 : tyName = "real"
      · simp [h3]
      · simp [h1, h2, h3]

end Pyx.CShape
